(** C08, invariant over all runs: every connection slot is owned by one client id (tracker id =
    outgoing client id = connection client id), sessions in the graveyard are keyed by their
    tracker id, the connection map has distinct keys. *)
From Rumqtt Require Export Router.SessionResume.
From Rumqtt Require Import Router.RetainedReplay.
From Coq Require Import ZifyBool ZifyN ZifyNat.

Definition idsv (st : rstate) (id : N) : option str * option str * option str :=
  (option_map tr_id (slab_get (r_trackers st) id),
   option_map o_client (slab_get (r_obufs st) id),
   option_map c_client (slab_get (r_conns st) id)).

(** keeps who owns each connection slot, the graveyard and the connection map *)
Definition Kid (st st' : rstate) : Prop :=
  (forall id, idsv st' id = idsv st id) /\ r_graveyard st' = r_graveyard st /\ r_cmap st' = r_cmap st.

(** keeps the three slabs themselves *)
Definition Keq (st st' : rstate) : Prop :=
  r_trackers st' = r_trackers st /\ r_obufs st' = r_obufs st /\ r_conns st' = r_conns st /\
  r_graveyard st' = r_graveyard st /\ r_cmap st' = r_cmap st.
Lemma Keq_Kid a b : Keq a b -> Kid a b.
Proof. unfold Keq, Kid, idsv. intros (-> & -> & -> & -> & ->). auto. Qed.

Lemma omap_get_put {A B} (f : A -> B) (s : slab A) k a b j :
  slab_get s k = Some a -> f b = f a ->
  option_map f (slab_get (slab_put s k b) j) = option_map f (slab_get s j).
Proof.
  intros Hg Hf. rewrite slab_get_put. destruct (N.eqb_spec k j) as [<- | Hn]; [|reflexivity].
  rewrite Hg. unfold slab_get in Hg. destruct (nthN (sl_items s) k) as [[x|]|]; try discriminate.
  cbn [option_map]. congruence.
Qed.

Class FrameI {A} (x : R A) (P : A -> Prop) : Prop := frameI_pf : forall a, x = Ok a -> P a.
Ltac frames_i :=
  repeat match goal with
  | E : ?x = Ok ?a |- _ =>
      let F := fresh "F" in
      pose proof (frameI_pf (x := x) a E) as F; cbn beta iota delta [fst snd] in F;
      change (used (x = Ok a)) in E
  end.
Ltac unget := unfold get_tracker, get_conn, get_obuf, get_acks in *; okinv.
Ltac norm_slabs :=
  repeat match goal with
  | H : r_trackers ?a = _ |- _ => is_var a; rewrite H in *; clear H
  | H : r_obufs ?a = _ |- _ => is_var a; rewrite H in *; clear H
  | H : r_conns ?a = _ |- _ => is_var a; rewrite H in *; clear H
  end.
Ltac kid :=
  split_hyps; unfold Kid, Keq in *; split_goal; rsimpl_all; unfold idsv in *; rsimpl_all;
  repeat match goal with H : _ /\ _ |- _ => destruct H end;
  norm_slabs;
  repeat split; try congruence;
  let j := fresh "j" in intros j;
  repeat match goal with H : forall id : N, _ |- _ => specialize (H j) end;
  repeat match goal with
    | H : context [slab_get (slab_put _ _ _) _] |- _ =>
        erewrite omap_get_put in H; [ | eassumption | cbn; congruence ]
    | |- context [slab_get (slab_put _ _ _) _] =>
        erewrite omap_get_put; [ | eassumption | cbn; congruence ]
    end;
  try congruence.

Global Instance fi_push_out st k ns : FrameI (push_out st k ns) (fun r => Keq st (fst r)).
Proof. intros a H. unfold push_out, link_get in H. okinv. kid. Qed.

Lemma try_ready_same dbg t why t' b : try_ready dbg t why = Ok (t', b) -> tr_id t' = tr_id t.
Proof. unfold try_ready. intros H. okinv; auto. Qed.

Global Instance fi_reschedule st id why : FrameI (reschedule st id why) (fun st' => Kid st st').
Proof.
  intros a H. unfold reschedule in H. unget.
  match goal with E : try_ready _ _ _ = Ok _ |- _ => apply try_ready_same in E end. kid.
Qed.
Global Instance fi_track st id rq : FrameI (track st id rq) (fun st' => Kid st st').
Proof. intros a H. unfold track in H. unget. kid. Qed.

Global Instance fi_trackv st id rqs : FrameI (trackv st id rqs) (fun st' => Kid st st').
Proof. intros a H. unfold trackv in H. unget. kid. Qed.
Global Instance fi_untrack st id f : FrameI (untrack st id f) (fun st' => Kid st st').
Proof. intros a H. unfold untrack in H. unget. kid. Qed.
Global Instance fi_pause st id why : FrameI (pause st id why) (fun st' => Kid st st').
Proof. intros a H. unfold pause in H. unget. kid. Qed.
Global Instance fi_commit_ack st id a : FrameI (commit_ack st id a) (fun st' => Keq st st').
Proof. intros x H. unfold commit_ack in H. unget. kid. Qed.
Global Instance fi_wake_all ns : forall st, FrameI (wake_all st ns) (fun st' => Kid st st').
Proof.
  induction ns as [| [id rq] r IH]; intros st a H; cbn [wake_all] in H.
  - okinv. kid.
  - okinv. frames_i. kid.
Qed.
Global Instance fi_drain_notifications st : FrameI (drain_notifications st) (fun st' => Kid st st').
Proof. intros a H. unfold drain_notifications in H. frames_i. kid. Qed.
Global Instance fi_dl_matches st t : FrameI (dl_matches st t) (fun r => Keq st (fst r)).
Proof. intros a H. unfold dl_matches in H. okinv. all: kid. Qed.
Global Instance fi_read_retained st f : FrameI (read_retained st f) (fun r => Keq st (fst r)).
Proof. intros a H. unfold read_retained in H. okinv. all: kid. Qed.
Global Instance fi_update_next_client st g : FrameI (update_next_client st g) (fun r => Keq st (fst r)).
Proof. intros a H. unfold update_next_client in H. okinv. all: kid. Qed.
Global Instance fi_park st id rq : FrameI (park st id rq) (fun st' => Keq st st').
Proof. intros a H. unfold park in H. okinv. kid. Qed.
Global Instance fi_remove_waiters_for_id st id f : FrameI (remove_waiters_for_id st id f) (fun st' => Keq st st').
Proof. intros a H. unfold remove_waiters_for_id in H. okinv. kid. Qed.
Global Instance fi_data_append st idx item : FrameI (data_append st idx item) (fun st' => Keq st st').
Proof. intros a H. unfold data_append in H. okinv. kid. Qed.
Global Instance fi_append_all idxs item : forall st, FrameI (append_all st idxs item) (fun st' => Keq st st').
Proof.
  induction idxs as [| i r IH]; intros st a H; cbn [append_all] in H.
  - okinv. kid.
  - okinv. frames_i. kid.
Qed.
Global Instance fi_next_native_offset st f : FrameI (next_native_offset st f) (fun r => Keq st (fst (fst r))).
Proof. intros a H. unfold next_native_offset in H. okinv. all: kid. Qed.
Global Instance fi_append_to_commitlog st id p props :
  FrameI (append_to_commitlog st id p props) (fun r => Kid st (fst r)).
Proof. intros a H. unfold append_to_commitlog, retain_update in H. unget; frames_i. all: kid. Qed.
Global Instance fi_prepare_filter st id cu fidx path qos grp subid :
  FrameI (prepare_filter st id cu fidx path qos grp subid) (fun st' => Kid st st').
Proof. intros a H. unfold prepare_filter in H. unget. all: frames_i. all: kid. Qed.
Global Instance fi_subscribe_filters fs : forall st id subid fl codes,
  FrameI (subscribe_filters st id fs subid fl codes) (fun r => Kid st (fst (fst r))).
Proof.
  induction fs as [| [path qos] r IH]; intros st id subid fl codes a H; cbn [subscribe_filters] in H.
  - okinv. kid.
  - okinv. all: frames_i. all: kid.
Qed.
Global Instance fi_unsubscribe_filters fs : forall st id client reasons,
  FrameI (unsubscribe_filters st id client fs reasons) (fun r => Kid st (fst r)).
Proof.
  induction fs as [| f r IH]; intros st id client reasons a H; cbn [unsubscribe_filters] in H.
  - okinv. kid.
  - unget. all: frames_i. all: kid.
Qed.

Lemma register_ack_client o pkid o' ok : register_ack o pkid = (o', ok) -> o_client o' = o_client o.
Proof. unfold register_ack. destruct (o_inflight o) as [| [[h ?] ?] r]; [| destruct (pkid =? h)]; intros [= <- _]; reflexivity. Qed.
Lemma register_pubcomp_client o pkid o' ok : register_pubcomp o pkid = (o', ok) -> o_client o' = o_client o.
Proof. unfold register_pubcomp. destruct (o_pubrels o) as [| h r]; [| destruct (pkid =? h)]; intros [= <- _]; reflexivity. Qed.

Ltac clients :=
  repeat match goal with
  | E : register_ack _ _ = (_, _) |- _ => apply register_ack_client in E
  | E : register_pubcomp _ _ = (_, _) |- _ => apply register_pubcomp_client in E
  | E : number_forwards _ _ _ = (_, _) |- _ => let Hc := fresh "Hc" in apply number_forwards_spec in E as (_ & Hc & _ & _)
  | E : (_, _) = (_, _) |- _ => injection E; clear E; intros; subst
  end.

Global Instance fi_forward_device_data st id rq :
  FrameI (forward_device_data st id rq) (fun r => Kid st (fst (fst r))).
Proof.
  intros a H. unfold forward_device_data in H. unget. all: split_hyps. all: clients. all: frames_i. all: kid.
Qed.
Global Instance fi_ack_device_data st id o : FrameI (ack_device_data st id o) (fun st' => Kid st st').
Proof. intros a H. unfold ack_device_data in H. unget. all: frames_i. all: kid. Qed.
Global Instance fi_consume_loop fuel : forall st id requests skipped,
  FrameI (consume_loop fuel st id requests skipped) (fun st' => Kid st st').
Proof.
  induction fuel as [| fuel IH]; intros st id requests skipped a H; cbn [consume_loop] in H.
  - frames_i. kid.
  - okinv. all: frames_i. all: kid.
Qed.
Global Instance fi_consume st : FrameI (consume st) (fun r => Kid st (fst r)).
Proof. intros a H. unfold consume in H. okinv. all: frames_i. all: kid. Qed.
Global Instance fi_retrieve_shadow st id f : FrameI (retrieve_shadow st id f) (fun st' => Kid st st').
Proof. intros a H. unfold retrieve_shadow in H. okinv. all: frames_i. all: kid. Qed.
Global Instance fi_handle_last_will st client : FrameI (handle_last_will st client) (fun st' => Kid st st').
Proof. intros a H. unfold handle_last_will, retain_update in H. okinv. all: frames_i. all: kid. Qed.
Global Instance fi_handle_packet st id client pk fl :
  FrameI (handle_packet st id client pk fl) (fun r => Kid st (fst (fst r))).
Proof. intros a H. unfold handle_packet in H. unget. all: split_hyps. all: clients. all: frames_i. all: kid. Qed.
Global Instance fi_handle_packets pks : forall st id client fl,
  FrameI (handle_packets st id client pks fl) (fun r => Kid st (fst r)).
Proof.
  induction pks as [| pk r IH]; intros st id client fl a H; cbn [handle_packets] in H.
  - okinv. kid.
  - okinv. all: frames_i. all: kid.
Qed.

(* ------------------------------------------------------------------ the invariant *)
Definition IdInv (st : rstate) : Prop :=
  NoDup (map fst (r_cmap st)) /\
  (forall id t o, slab_get (r_trackers st) id = Some t -> slab_get (r_obufs st) id = Some o -> tr_id t = o_client o) /\
  (forall id c o, slab_get (r_conns st) id = Some c -> slab_get (r_obufs st) id = Some o -> c_client c = o_client o) /\
  (forall k ss, In (k, Some ss) (r_graveyard st) -> tr_id (ss_tracker ss) = k) /\
  (forall id c, slab_get (r_conns st) id = Some c -> validate_clientid (c_client c) = true).

Lemma omap_some {A B} (f : A -> B) (x y : option A) a :
  option_map f x = option_map f y -> x = Some a -> exists b, y = Some b /\ f b = f a.
Proof. intros H ->. destruct y as [b|]; cbn in H; [|discriminate]. exists b. split; congruence. Qed.

Lemma Kid_inv st st' : Kid st st' -> IdInv st -> IdInv st'.
Proof.
  intros (Hi & Hg & Hc) (I1 & I2 & I3 & I4 & I5). unfold IdInv. rewrite Hg, Hc. split; [exact I1|].
  split; [|split; [|split; [exact I4|]]].
  - intros id t o Ht Ho. specialize (Hi id). unfold idsv in Hi. injection Hi as H1 H2 H3.
    destruct (omap_some _ _ _ _ H1 Ht) as (t0 & Ht0 & E1). destruct (omap_some _ _ _ _ H2 Ho) as (o0 & Ho0 & E2).
    rewrite <- E1, <- E2. eauto.
  - intros id c o Hcn Ho. specialize (Hi id). unfold idsv in Hi. injection Hi as H1 H2 H3.
    destruct (omap_some _ _ _ _ H3 Hcn) as (c0 & Hc0 & E1). destruct (omap_some _ _ _ _ H2 Ho) as (o0 & Ho0 & E2).
    rewrite <- E1, <- E2. eauto.
  - intros id c Hcn. specialize (Hi id). unfold idsv in Hi. injection Hi as H1 H2 H3.
    destruct (omap_some _ _ _ _ H3 Hcn) as (c0 & Hc0 & E1). rewrite <- E1. eauto.
Qed.

Lemma slab_remove_get_sub {A} (s : slab A) k s' a j v :
  slab_remove s k = Some (s', a) -> slab_get s' j = Some v -> slab_get s j = Some v.
Proof.
  unfold slab_remove. destruct (slab_get s k); [|discriminate]. intros [= <- <-].
  unfold slab_get. cbn [sl_items]. rewrite nthN_setN. destruct (k =? j); [|auto].
  destruct (nthN (sl_items s) k); discriminate.
Qed.

Lemma slab_insert_get_new {A} (s : slab A) a s' k v :
  slab_insert s a = (s', k) -> slab_get s' k = Some v -> v = a.
Proof.
  unfold slab_insert, slab_get. destruct (sl_free s) as [| k0 fr]; intros [= <- <-]; cbn [sl_items].
  - rewrite nthN_app_len. congruence.
  - rewrite nthN_setN, N.eqb_refl. destruct (nthN (sl_items s) k0); congruence.
Qed.

Global Instance fi_handle_disconnection st id reason :
  FrameI (handle_disconnection st id reason) (fun st' => IdInv st -> IdInv st').
Proof.
  intros a H. unfold handle_disconnection in H.
  destruct (slab_get (r_obufs st) id) as [o0|]; [|okinv; auto].
  match type of H with bind ?x _ = _ => destruct x as [st0 | |] eqn:E0 end; cbn [bind] in H; try discriminate.
  assert (H0 : Kid st st0).
  { clear H. destruct reason; okinv; [frames_i; kid | kid]. }
  intros Hi. apply (Kid_inv _ _ H0) in Hi. clear H0 E0. destruct Hi as (I1 & I2 & I3 & I4 & I5).
  destruct (slab_remove (r_conns st0) id) as [[conns conn]|] eqn:R1; [|discriminate].
  destruct (slab_remove (r_ibufs st0) id) as [[ibufs ?]|] eqn:R2; [|discriminate].
  destruct (slab_remove (r_obufs st0) id) as [[obufs outg]|] eqn:R3; [|discriminate].
  destruct (slab_remove (r_trackers st0) id) as [[trackers trk]|] eqn:R4; [|discriminate].
  destruct (slab_remove (r_acks st0) id) as [[acks ?]|] eqn:R5; [|discriminate].
  destruct (dl_clean (r_datalog st0) id) as [dl q].
  assert (Hgr : forall v, (forall ss, v = Some ss -> tr_id (ss_tracker ss) = tr_id trk) ->
            forall k ss, In (k, Some ss) (al_set str_eqb (tr_id trk) v (al_remove str_eqb (tr_id trk) (r_graveyard st0))) ->
                         tr_id (ss_tracker ss) = k).
  { intros v Hv k ss Hin. apply (al_set_in str_eqb str_eqb_spec) in Hin as [Hin | [-> Hs]].
    - apply I4. eapply al_remove_incl; eauto.
    - apply Hv. congruence. }
  okinv; unfold IdInv; rsimpl.
  all: (split; [now apply al_remove_nodup|]); (split; [|split; [|split]]).
  all: try (intros j t o Hj1 Hj2; eapply I2; eapply slab_remove_get_sub; eauto).
  all: try (intros j c o Hj1 Hj2; eapply I3; eapply slab_remove_get_sub; eauto).
  all: try (intros j c Hj1; eapply I5; eapply slab_remove_get_sub; eauto).
  all: apply Hgr; intros ss Hs; try discriminate.
  injection Hs as <-. reflexivity.
Qed.

Global Instance fi_handle_new_connection st conn link :
  FrameI (handle_new_connection st conn link) (fun st' => IdInv st -> IdInv st').
Proof.
  intros a H Hi. unfold handle_new_connection in H.
  destruct (validate_clientid (c_client conn)) eqn:Ev; cbn [negb] in H; [|okinv; exact Hi].
  match type of H with bind ?x _ = _ => destruct x as [st1 | |] eqn:E1 end; cbn [bind] in H; try discriminate.
  assert (Hi1 : IdInv st1).
  { clear H. destruct (al_get str_eqb (c_client conn) (r_cmap st)); [|okinv; exact Hi]. frames_i. auto. }
  clear E1 Hi. destruct Hi1 as (I1 & I2 & I3 & I4 & I5).
  destruct (cf_max_connections (r_cfg st1) <=? slab_len (r_conns st1)); [okinv; unfold IdInv; auto 10|].
  set (client := c_client conn) in *.
  set (saved := al_get str_eqb client (r_graveyard st1)) in *.
  set (fresh_t := {| tr_id := client; tr_reqs := []; tr_status := Paused Busy |}) in *.
  set (triple := if negb (c_clean conn)
                 then match saved with
                      | Some (Some ss) => (ss_tracker ss, set_c_subs conn (ss_subs ss), ss_pubrels ss)
                      | _ => (fresh_t, conn, [])
                      end
                 else (fresh_t, conn, [])) in H.
  assert (Htr : exists trk conn1 pubrels, triple = (trk, conn1, pubrels) /\ c_client conn1 = client /\ tr_id trk = client).
  { unfold triple. destruct (c_clean conn); cbn [negb]; [do 3 eexists; repeat split|].
    destruct saved as [[ss|]|] eqn:Es; do 3 eexists; repeat split.
    apply I4. unfold saved in Es. apply al_get_in in Es; [exact Es | apply str_eqb_spec]. }
  destruct Htr as (trk & conn1 & pubrels & -> & Hc1 & Ht1). cbn beta iota in H.
  destruct (slab_insert (r_conns st1) (set_c_will conn1 None)) as [conns id] eqn:Ei1.
  destruct (slab_insert (r_ibufs st1) _) as [ibufs id_i] eqn:Ei2.
  destruct (slab_insert (r_obufs st1) _) as [obufs id_o] eqn:Ei3.
  destruct (slab_insert (r_acks st1) _) as [acks id_a] eqn:Ei4.
  destruct (slab_insert (r_trackers st1) trk) as [trackers id_t] eqn:Ei5.
  destruct ((id_i =? id) && (id_o =? id) && (id_a =? id) && (id_t =? id)) eqn:Eal; cbn [negb] in H; [|discriminate].
  apply andb_prop in Eal as [Eal E4]. apply andb_prop in Eal as [Eal E3]. apply andb_prop in Eal as [E1 E2].
  apply N.eqb_eq in E1, E2, E3, E4. subst id_i id_o id_a id_t.
  okinv. frames_i. eapply Kid_inv; [eassumption|]. unfold IdInv. rsimpl.
  split; [now apply al_set_nodup; [apply str_eqb_spec|]|]. split; [|split; [|split]].
  - intros j t o Hj1 Hj2. destruct (N.eqb_spec j id) as [-> | Hn].
    + apply (slab_insert_get_new _ _ _ _ _ Ei5) in Hj1. apply (slab_insert_get_new _ _ _ _ _ Ei3) in Hj2. subst. exact Ht1.
    + rewrite (slab_insert_get_other _ _ _ _ _ Ei5 Hn) in Hj1. rewrite (slab_insert_get_other _ _ _ _ _ Ei3 Hn) in Hj2. eauto.
  - intros j c o Hj1 Hj2. destruct (N.eqb_spec j id) as [-> | Hn].
    + apply (slab_insert_get_new _ _ _ _ _ Ei1) in Hj1. apply (slab_insert_get_new _ _ _ _ _ Ei3) in Hj2. subst. exact Hc1.
    + rewrite (slab_insert_get_other _ _ _ _ _ Ei1 Hn) in Hj1. rewrite (slab_insert_get_other _ _ _ _ _ Ei3 Hn) in Hj2. eauto.
  - intros k ss Hin. apply I4. eapply al_remove_incl; eauto.
  - intros j c Hj1. destruct (N.eqb_spec j id) as [-> | Hn].
    + apply (slab_insert_get_new _ _ _ _ _ Ei1) in Hj1. subst. cbn [c_client set_c_will]. rewrite Hc1. exact Ev.
    + rewrite (slab_insert_get_other _ _ _ _ _ Ei1 Hn) in Hj1. eauto.
Qed.

Global Instance fi_handle_device_payload st id :
  FrameI (handle_device_payload st id) (fun st' => IdInv st -> IdInv st').
Proof.
  intros a H Hi. unfold handle_device_payload, link_get in H. okinv. all: frames_i.
  all: repeat match goal with F : Kid _ _ |- _ => apply Kid_inv in F; [|first [assumption | unfold IdInv in *; rsimpl; assumption]] end.
  all: auto.
Qed.

Global Instance fi_step st o : FrameI (step st o) (fun r => IdInv st -> IdInv (fst r)).
Proof.
  intros a H Hi. unfold step in H. destruct o; okinv. all: frames_i.
  all: repeat match goal with F : Keq _ _ |- _ => apply Keq_Kid in F end.
  all: repeat match goal with F : Kid _ _ |- _ => apply Kid_inv in F; [|first [assumption | unfold IdInv in *; rsimpl; assumption]] end.
  all: rsimpl; auto.
  all: unfold IdInv in *; rsimpl; assumption.
Qed.

Global Instance fi_step_with st orc o : FrameI (step_with st orc o) (fun r => IdInv st -> IdInv (fst r)).
Proof. intros a H Hi. unfold step_with in H. okinv. frames_i. rsimpl. apply F. exact Hi. Qed.

Lemma init_IdInv cfg st : init cfg = Ok st -> IdInv st.
Proof.
  unfold init. intros H. okinv. unfold IdInv. rsimpl. split; [constructor|].
  split; [|split; [|split]]; intros; try discriminate; contradiction.
Qed.

Lemma reachable_IdInv cfg st : reachable cfg st -> IdInv st.
Proof.
  apply reachable_inv.
  - apply init_IdInv.
  - intros s orc o s' out Hs H. frames_i. auto.
Qed.

(* ------------------------------------------------------------------ the resume theorem on reachable states *)
Lemma hdisc_cmap st id reason st' outg :
  handle_disconnection st id reason = Ok st' -> slab_get (r_obufs st) id = Some outg ->
  r_cmap st' = al_remove str_eqb (o_client outg) (r_cmap st).
Proof.
  intros H Ho. unfold handle_disconnection in H. rewrite Ho in H.
  match type of H with bind ?x _ = _ => destruct x as [st0 | |] eqn:E0 end; cbn [bind] in H; try discriminate.
  assert (Hl : exists l, st0 = set_r_links st l).
  { clear H. destruct reason as [rc|].
    - okinv. eapply push_out_links; eauto.
    - okinv. match goal with |- exists l, ?s = set_r_links ?s l => exists (r_links s); destruct s; reflexivity end. }
  destruct Hl as (l & ->). clear E0. rsimpl in H. okinv; reflexivity.
Qed.

(** [c08_resume_state] for every reachable state: a live connection [id] with clean = false is
    disconnected (for any reason: DISCONNECT packet, link error, router-initiated close) and
    the same client id connects again with clean = false while there is capacity.  Then the
    ConnAck says session_present, followed by one PUBREL per pending pubrel; the subscriptions
    are those of the old connection; the requests are those of its tracker and those parked
    in the logs' waiters, each restarting at the cursor of the oldest unacknowledged inflight
    publish of its filter index when there is one. *)
Theorem resume_reachable cfg st id reason st1 conn outg trk connB link st' :
  reachable cfg st ->
  handle_disconnection st id reason = Ok st1 ->
  slab_get (r_conns st) id = Some conn -> slab_get (r_obufs st) id = Some outg ->
  slab_get (r_trackers st) id = Some trk ->
  c_clean conn = false -> c_client connB = c_client conn -> c_clean connB = false ->
  (cf_max_connections (r_cfg st1) <=? slab_len (r_conns st1)) = false ->
  handle_new_connection st1 connB link = Ok st' ->
  exists id' conn' o' t',
    slab_get (r_conns st') id' = Some conn' /\ slab_get (r_obufs st') id' = Some o' /\
    get_tracker st' id' = Ok t' /\
    slab_get (r_acks st') id' =
      Some {| a_committed := AConnAck id' true :: map APubRel (o_pubrels outg); a_recorded := [] |} /\
    c_subs conn' = c_subs conn /\ o_pubrels o' = o_pubrels outg /\ o_inflight o' = [] /\
    tr_reqs t' = map (fun rq => match first_cursor (o_inflight outg) (dr_idx rq) with
                                | Some cu => set_dr_cursor rq cu
                                | None => rq
                                end)
                     (tr_reqs trk ++ snd (dl_clean (r_datalog st) id)).
Proof.
  intros Hr Hd Hc Ho Ht Hcl Hsame HclB Hcap HB.
  pose proof (reachable_SessInv _ _ Hr) as Hs. pose proof (reachable_IdInv _ _ Hr) as (I1 & I2 & I3 & _ & I5).
  assert (Hcc : c_client conn = o_client outg) by eauto.
  assert (Htc : tr_id trk = o_client outg) by eauto.
  eapply disconnect_then_resume; eauto.
  - congruence.
  - rewrite Hsame. eauto.
  - unfold takeover. rewrite (hdisc_cmap _ _ _ _ _ Hd Ho), Hsame, Hcc.
    now rewrite al_get_remove_same by (auto using str_eqb_spec).
Qed.

(* ------------------------------------------------------------------ the same at the level of ops *)
Lemma SessInv_links_oracle st orc l : SessInv st -> SessInv (set_r_links (set_r_oracle st orc) l).
Proof. unfold SessInv. rsimpl. auto. Qed.
Lemma IdInv_links_oracle st orc l : IdInv st -> IdInv (set_r_links (set_r_oracle st orc) l).
Proof. unfold IdInv. rsimpl. auto. Qed.
Lemma set_links_oracle_id st : st = set_r_links (set_r_oracle st (r_oracle st)) (r_links st).
Proof. destruct st; reflexivity. Qed.

(** the connection an [OpConnect] hands to [handle_new_connection] *)
Definition conn_of (c : connect_req) : connection :=
  {| c_client := cr_client c; c_dynamic := cr_dynamic c; c_clean := cr_clean c;
     c_subs := []; c_will := cr_will c; c_aliases := [];
     c_baliases := if 0 <? cr_alias_max c then Some (baliases_new (cr_alias_max c)) else None;
     c_subids := [] |}.

(** [c08_resume], ops: after any run from [init cfg], [OpDisconnect id] of a live connection with
    clean = false followed by an [OpConnect] of the same client id with clean = false (capacity
    permitting) yields the resumed session described in [resume_reachable] *)
Theorem resume_ops cfg ops st outs id conn outg trk cr orc1 orc2 st1 out1 st2 out2 :
  run_from cfg ops = Ok (st, outs) ->
  slab_get (r_conns st) id = Some conn -> slab_get (r_obufs st) id = Some outg ->
  slab_get (r_trackers st) id = Some trk ->
  c_clean conn = false -> cr_client cr = c_client conn -> cr_clean cr = false ->
  step_with st orc1 (OpDisconnect id) = Ok (st1, out1) ->
  (cf_max_connections (r_cfg st1) <=? slab_len (r_conns st1)) = false ->
  step_with st1 orc2 (OpConnect cr) = Ok (st2, out2) ->
  exists id' conn' o' t',
    slab_get (r_conns st2) id' = Some conn' /\ slab_get (r_obufs st2) id' = Some o' /\
    get_tracker st2 id' = Ok t' /\
    slab_get (r_acks st2) id' =
      Some {| a_committed := AConnAck id' true :: map APubRel (o_pubrels outg); a_recorded := [] |} /\
    c_subs conn' = c_subs conn /\ o_pubrels o' = o_pubrels outg /\ o_inflight o' = [] /\
    tr_reqs t' = map (fun rq => match first_cursor (o_inflight outg) (dr_idx rq) with
                                | Some cu => set_dr_cursor rq cu
                                | None => rq
                                end)
                     (tr_reqs trk ++ snd (dl_clean (r_datalog st) id)).
Proof.
  intros Hrun Hc Ho Ht Hcl Hsame HclB Hs1 Hcap Hs2.
  assert (Hr : reachable cfg st) by (do 2 eexists; eauto).
  pose proof (reachable_SessInv _ _ Hr) as Hs. pose proof (reachable_IdInv _ _ Hr) as Hid.
  unfold step_with in Hs1. cbn [step] in Hs1.
  destruct (handle_disconnection (set_r_oracle st orc1) id None) as [st1' | |] eqn:Hd; cbn [bind] in Hs1; try discriminate.
  destruct (r_oracle st1') eqn:Eo1; [|discriminate]. injection Hs1 as -> _.
  (* the disconnect, on the state with the oracle installed *)
  set (stX := set_r_oracle st orc1) in *.
  assert (HsX : SessInv stX) by (unfold stX, SessInv in *; rsimpl; exact Hs).
  assert (HiX : IdInv stX) by (unfold stX, IdInv in *; rsimpl; exact Hid).
  destruct HiX as (I1 & I2 & I3 & _ & I5).
  assert (Hcc : c_client conn = o_client outg) by (eapply I3; unfold stX; rsimpl; eauto).
  assert (Htc : tr_id trk = o_client outg) by (eapply I2; unfold stX; rsimpl; eauto).
  assert (Hv : validate_clientid (c_client conn) = true) by (eapply I5; unfold stX; rsimpl; eauto).
  assert (Hs1i : SessInv st1) by (frames_s; auto).
  destruct (hdisc_saves stX id None st1 conn outg trk Hd Hc Ho Ht) as [Hsv _].
  unfold saved_session in Hsv. rewrite Hcl in Hsv.
  pose proof (hdisc_cmap _ _ _ _ _ Hd Ho) as Hcm.
  (* the connect *)
  unfold step_with in Hs2. cbn [step] in Hs2. fold (conn_of cr) in Hs2.
  match type of Hs2 with context [handle_new_connection ?y _ _] => set (stY := y) in * end.
  destruct (handle_new_connection stY (conn_of cr) (lenN (r_links (set_r_oracle st1 orc2)))) as [st2' | |] eqn:Hn;
    cbn [bind] in Hs2; try discriminate.
  destruct (r_oracle st2') eqn:Eo2; [|discriminate]. injection Hs2 as -> _.
  assert (HsY : SessInv stY) by (unfold stY; rsimpl; apply SessInv_links_oracle; exact Hs1i).
  assert (HtY : takeover stY (c_client (conn_of cr)) = Ok stY).
  { unfold takeover, stY. rsimpl. cbn [c_client conn_of]. rewrite Hcm, Hsame, Hcc.
    now rewrite al_get_remove_same by (auto using str_eqb_spec). }
  assert (HgY : al_get str_eqb (c_client (conn_of cr)) (r_graveyard stY) =
                Some (Some {| ss_tracker := {| tr_id := tr_id trk;
                                                tr_reqs := map (rewind (retransmission_map (o_inflight outg) []))
                                                               (tr_reqs trk ++ snd (dl_clean (r_datalog stX) id));
                                                tr_status := Paused Busy |};
                              ss_subs := c_subs conn; ss_pubrels := o_pubrels outg |})).
  { unfold stY. rsimpl. cbn [c_client conn_of]. rewrite Hsame, Hcc, <- Htc. exact Hsv. }
  assert (HvY : validate_clientid (c_client (conn_of cr)) = true) by (cbn [c_client conn_of]; congruence).
  assert (HcapY : (cf_max_connections (r_cfg stY) <=? slab_len (r_conns stY)) = false) by (unfold stY; rsimpl; exact Hcap).
  destruct (connect_resume _ _ _ _ _ _ HsY Hn HvY HtY HcapY HclB HgY) as
    (id' & conn' & o' & t' & G1 & G2 & G3 & G4 & G5 & G6 & G7 & G8 & G9 & G10 & G11).
  cbn [ss_pubrels ss_subs ss_tracker tr_reqs] in *.
  exists id', conn', o', t'. repeat split; auto.
  rewrite G7. unfold stX. rsimpl. apply map_ext. intros rq. unfold rewind. now rewrite retransmission_map_spec.
Qed.
