(** C17, completeness clause — part 7: [MemInv] through [handle_disconnection] and
    [handle_new_connection].

    Disconnection: the client leaves every group (groups left without a member are dropped);
    the rewind of a persistent session's requests touches cursors only; everything the
    connection held is saved with the session (or dropped) — what is left in the waiter lists
    belongs to other connections, i.e. (one live connection per client id) to other clients.
    New connection: the resumed session re-joins the group of every shared request it restores;
    by [DevE] the restored subscription set contains the filter of every restored request. *)
From Rumqtt Require Import Router.NoPanicLog.
From Rumqtt Require Import Router.Model Router.InvLemmasBase Router.Inv Router.InvLemmasPrim Router.InvLemmasSched
  Router.InvLemmasDl Router.InvLemmasRoute Router.InvLemmasConn Router.InvLemmasPkt Router.InvLemmasConsume
  Router.NoPanic Router.NoPanicDevBase Router.NoPanicDevInv Router.NoPanicDev1 Router.NoPanicDev2 Router.NoPanicDev3 Router.NoPanicDev4.
From Rumqtt Require Import Router.ExactLoc1 Router.ExactLoc2 Router.ExactLoc3.
From Rumqtt Require Import Router.WindowFrame Router.DataLogInv Router.DataLogStep Router.ExactInv Router.ExactStep1
  Router.RetainedBase Router.SharedRunStep Router.SharedRunStep2 Router.Wake Router.WakeConsume Router.WakePark
  Router.GroupWakeMem Router.GroupWakeMem2 Router.GroupWakeMem3 Router.GroupWakeMem4.
From Rumqtt Require Import Router.Model Router.RunDefs.
From Coq Require Import List Arith ZifyBool ZifyN ZifyNat.
Import ListNotations.

(* ------------------------------------------------------------------ groups_remove_client *)
Lemma gmemL_key gs name c : gmemL gs name c -> In name (map fst gs).
Proof.
  intros (l & Hl & _). unfold memsL in Hl. destruct (al_get str_eqb name gs) as [g |] eqn:E; [| discriminate].
  apply DataLogInv.al_get_In in E. change name with (fst (name, g)). now apply in_map.
Qed.

Lemma grc_mem_keep c : forall gs name c', gmemL gs name c' -> c' <> c -> gmemL (groups_remove_client gs c) name c'.
Proof.
  induction gs as [| [n g] r IH]; intros name c' (l & Hl & Hin) Hne; unfold memsL in Hl; cbn [al_get] in Hl; [discriminate |].
  cbn [groups_remove_client]. destruct (str_eqb_spec name n) as [-> | Hn].
  - inversion Hl; subst l.
    assert (Hin' : In c' (g_clients (group_remove_client g c))).
    { cbn [group_remove_client g_clients]. apply filter_In. split; [exact Hin |]. destruct (str_eqb_spec c' c); [contradiction | reflexivity]. }
    destruct (g_clients (group_remove_client g c)) as [| x l0] eqn:Ec; [destruct Hin' |].
    unfold gmemL, memsL. cbn [al_get]. destruct (str_eqb_spec n n); [| congruence]. cbn [option_map]. rewrite Ec. eauto.
  - assert (Hr : gmemL (groups_remove_client r c) name c') by (apply IH; [exists l; auto | exact Hne]).
    destruct (g_clients (group_remove_client g c)); [exact Hr |].
    unfold gmemL, memsL in *. cbn [al_get]. destruct (str_eqb_spec name n); [contradiction | exact Hr].
Qed.

Lemma grc_mem_inv c : forall gs name c', NoDup (map fst gs) ->
  gmemL (groups_remove_client gs c) name c' -> gmemL gs name c' /\ c' <> c.
Proof.
  induction gs as [| [n g] r IH]; intros name c' Hnd H; cbn [groups_remove_client] in H; [destruct H as (l & Hl & _); discriminate |].
  cbn [map fst] in Hnd. inversion Hnd as [| ? ? Hni Hnd']; subst.
  assert (Hr : gmemL (groups_remove_client r c) name c' -> name <> n /\ gmemL r name c' /\ c' <> c).
  { intros Hx. destruct (IH _ _ Hnd' Hx) as [A B]. split; [| auto]. intros ->. apply Hni. eapply gmemL_key; eauto. }
  assert (Lift : name <> n -> gmemL r name c' -> gmemL ((n, g) :: r) name c').
  { intros Hn (l & Hl & Hin). exists l. unfold memsL in *. cbn [al_get]. destruct (str_eqb_spec name n); [contradiction | auto]. }
  destruct (g_clients (group_remove_client g c)) as [| x l0] eqn:Ec.
  - destruct (Hr H) as (Hn & A & B). auto.
  - destruct H as (l & Hl & Hin). unfold memsL in Hl. cbn [al_get] in Hl. destruct (str_eqb_spec name n) as [-> | Hn].
    + cbn [option_map] in Hl. inversion Hl; subst l.
      cbn [group_remove_client g_clients] in Hin. apply filter_In in Hin as [Hin Hb]. split.
      * exists (g_clients g). unfold memsL. cbn [al_get]. destruct (str_eqb_spec n n); [auto | congruence].
      * intros ->. destruct (str_eqb_spec c c); [discriminate | congruence].
    + destruct (Hr (ex_intro _ l (conj Hl Hin))) as (_ & A & B). auto.
Qed.

(* ------------------------------------------------------------------ rewind_requests *)
Lemma rewind_requests_mems retr : forall rqs gs rqs' gs',
  rewind_requests rqs retr gs = Ok (rqs', gs') ->
  (forall name, memsL gs' name = memsL gs name) /\ map fst gs' = map fst gs /\ (Forall shape rqs -> Forall shape rqs').
Proof.
  induction rqs as [| rq r IH]; intros gs rqs' gs' H; cbn [rewind_requests] in H.
  - inv_ok. auto.
  - destruct (al_get N.eqb (dr_idx rq) retr) as [cu |].
    + apply bind_ok in H as (gs1 & H1 & H). apply bind_ok in H as ([r' gs2] & H2 & H). inv_ok.
      destruct (IH _ _ _ H2) as (A & B & C).
      assert (X : (forall name, memsL gs1 name = memsL gs name) /\ map fst gs1 = map fst gs).
      { destruct (dr_group rq) as [name |]; [| inv_ok; auto].
        destruct (al_get str_eqb name gs) as [g |] eqn:Eg; inv_ok; [| auto]. split.
        - intros name'. unfold memsL. eapply mems_al_set_same; [exact Eg | reflexivity].
        - eapply al_set_keys; exact Eg. }
      destruct X as [X1 X2]. split; [intros name; now rewrite A | split; [congruence |]].
      intros Hs. inversion Hs; subst. constructor; [now apply shape_set_cursor | auto].
    + apply bind_ok in H as ([r' gs2] & H2 & H). inv_ok. destruct (IH _ _ _ H2) as (A & B & C).
      split; [exact A | split; [exact B |]]. intros Hs. inversion Hs; subst. constructor; auto.
Qed.

(* ------------------------------------------------------------------ what dl_clean hands back *)
Lemma clean_items_q id : forall items items' q,
  clean_items items id = (items', q) ->
  forall rq, In rq q -> exists c i d, nthN items i = Some (Some d) /\ In (c, rq) (d_waiters d).
Proof.
  induction items as [| [d |] items IH]; intros items' q Hc rq Hin; cbn [clean_items] in Hc.
  - inv_ok. destruct Hin.
  - destruct (waiters_remove (S (length (d_waiters d))) (d_waiters d) id) as [w' q1] eqn:Ew.
    destruct (clean_items items id) as [r' q2] eqn:Er. inv_ok.
    apply in_app_or in Hin as [Hin | Hin].
    + assert (Hlt : (length (d_waiters d) < S (length (d_waiters d)))%nat) by lia.
      destruct (waiters_remove_spec id _ _ _ _ Hlt Ew) as [_ Hq]. destruct (Hq _ Hin) as [c Hc].
      exists c, 0, d. split; [reflexivity | exact Hc].
    + destruct (IH _ _ eq_refl _ Hin) as (c & i & d0 & G & Hc). exists c, (i + 1), d0. split; [| exact Hc].
      cbn [nthN]. replace (i + 1 =? 0) with false by lia. replace (i + 1 - 1) with i by lia. exact G.
  - destruct (clean_items items id) as [r' q2] eqn:Er. inv_ok.
    destruct (IH _ _ eq_refl _ Hin) as (c & i & d0 & G & Hc). exists c, (i + 1), d0. split; [| exact Hc].
    cbn [nthN]. replace (i + 1 =? 0) with false by lia. replace (i + 1 - 1) with i by lia. exact G.
Qed.

(* ------------------------------------------------------------------ handle_disconnection *)
Lemma Forall_al_set_sess (P : str * option session -> Prop) k v m :
  Forall P m -> P (k, v) -> Forall P (al_set str_eqb k v m).
Proof.
  intros HF Hv. apply Forall_al_set; [exact HF |]. intros k' E. apply str_eqb_true in E. now subst k'.
Qed.

Lemma handle_disconnection_mem cfg st id reason st' :
  RInvC cfg st -> RInvC cfg st' -> MemInv st -> handle_disconnection st id reason = Ok st' -> MemInv st'.
Proof.
  intros HI HI' HM H. unfold handle_disconnection in H.
  destruct (slab_get (r_obufs st) id) as [o0 |] eqn:Eo0; [| inv_ok; exact HM].
  apply bind_ok in H as (st0 & H0 & H).
  assert (F0 : mfr [] st st0 /\ RInvC cfg st0 /\ r_obufs st0 = r_obufs st).
  { destruct reason as [rc |]; [| inv_ok; split; [apply mfr_refl | auto]].
    apply bind_ok in H0 as ([s len0] & H0 & H1). inv_ok. split; [eapply push_out_mfr; eauto |].
    split; [| apply push_out_fields in H0; rewrite H0; reflexivity].
    pose proof (InvLemmasSched.push_out_spec cfg st (o_link o0) [NDisconnect rc] HI (proj1 (ri_obuf _ _ HI _ _ Eo0))) as W.
    rewrite H0 in W. cbn [wp fst] in W. exact (proj1 W). }
  destruct F0 as (F0 & HI0 & Eob0). clear H0.
  assert (HM0 : MemInv st0) by (eapply MemInv_mfr0; eauto).
  rewrite <- Eob0 in Eo0. clear HM HI F0 Eob0.
  destruct (slab_remove (r_conns st0) id) as [[conns conn] |] eqn:Rc; [| discriminate].
  destruct (slab_remove (r_ibufs st0) id) as [[ibufs ib] |]; [| discriminate].
  destruct (slab_remove (r_obufs st0) id) as [[obufs outg] |] eqn:Ro; [| discriminate].
  destruct (slab_remove (r_trackers st0) id) as [[trackers trk] |] eqn:Rt; [| discriminate].
  destruct (slab_remove (r_acks st0) id) as [[acks al] |]; [| discriminate].
  destruct (dl_clean (r_datalog st0) id) as [dl inflight_rqs] eqn:Ecl.
  destruct (remove_spec _ _ _ _ Rc) as (Hc & Hcn & Hco & _).
  destruct (remove_spec _ _ _ _ Ro) as (Ho & Hon & Hoo & _).
  destruct (remove_spec _ _ _ _ Rt) as (Ht & Htn & Hto & _).
  rewrite Eo0 in Ho. inversion Ho; subst outg. clear Ho.
  set (client := o_client o0) in *.
  assert (Hcli : cli st0 id = Some client) by (unfold cli; now rewrite Eo0).
  apply bind_ok in H as ([grave groups'] & HG & H).
  assert (E' : st' = {| r_cfg := r_cfg st0; r_graveyard := grave; r_conns := conns;
                        r_cmap := al_remove str_eqb client (r_cmap st0);
                        r_submap := submap_remove_id (r_submap st0) (c_subs conn) id;
                        r_ibufs := ibufs; r_obufs := obufs; r_datalog := dl; r_acks := acks;
                        r_trackers := trackers; r_ready := r_ready st0; r_notif := r_notif st0;
                        r_groups := groups'; r_wills := r_wills st0; r_links := r_links st0;
                        r_oracle := r_oracle st0 |}) by (inversion H; reflexivity).
  clear H.
  (* the data log: waiters only shrink; what was removed was parked *)
  unfold dl_clean in Ecl. destruct (clean_items (sl_items (dl_native (r_datalog st0))) id) as [items q] eqn:Eci.
  inversion Ecl; subst dl inflight_rqs. clear Ecl.
  pose proof (clean_items_isub _ _ _ _ Eci) as Hsub.
  (* groups: members of [groups'] are the members of the old groups except [client] *)
  set (gs1 := groups_remove_client (r_groups st0) client) in *.
  assert (Hsh : Forall shape (tr_reqs trk ++ q)).
  { apply Forall_forall. intros rq Hin. apply in_app_or in Hin as [Hin | Hin].
    - apply (mi_req _ HM0 id rq). left. unfold treqs. now rewrite Ht.
    - destruct (clean_items_q _ _ _ _ Eci _ Hin) as (c & i & d & G & Hw).
      apply (mi_req _ HM0 c rq). right. left. exists i, d. split; [unfold nget, slab_get; now rewrite G | exact Hw]. }
  assert (X : (forall name, memsL groups' name = memsL gs1 name) /\ map fst groups' = map fst gs1 /\
              Forall sess_shape grave).
  { pose proof (mi_grave _ HM0) as G0.
    destruct (negb (c_clean conn)).
    - apply bind_ok in HG as ([rqs' gs] & HR & HG). inv_ok.
      destruct (rewind_requests_mems _ _ _ _ _ HR) as (A & B & C). split; [exact A | split; [exact B |]].
      apply Forall_al_set_sess; [now apply Forall_al_remove |]. unfold sess_shape. cbn [snd ss_tracker tr_reqs]. now apply C.
    - inv_ok. split; [reflexivity | split; [reflexivity |]].
      apply Forall_al_set_sess; [now apply Forall_al_remove | exact I]. }
  destruct X as (Xm & Xk & Xg). clear HG.
  assert (HK1 : NoDup (map fst gs1)) by (exact (proj1 (gsub_grc client (r_groups st0) (mi_gk _ HM0)))).
  assert (G' : forall name c, gmem st' name c <-> (gmem st0 name c /\ c <> client)).
  { intros name c. rewrite E'. unfold gmem, mems. cbn [r_groups]. change (option_map g_clients (al_get str_eqb name groups')) with (memsL groups' name).
    rewrite Xm. split.
    - intros Hx. exact (grc_mem_inv client _ _ _ (mi_gk _ HM0) Hx).
    - intros [Hx Hne]. exact (grc_mem_keep client _ _ _ Hx Hne). }
  assert (C' : forall id', id' <> id -> cli st' id' = cli st0 id').
  { intros id' Hne. rewrite E'. unfold cli. cbn [r_obufs]. now rewrite Hoo. }
  assert (Cd : cli st' id = None) by (rewrite E'; unfold cli; cbn [r_obufs]; now rewrite Hon).
  assert (S' : forall id', id' <> id -> subs_of st' id' = subs_of st0 id').
  { intros id' Hne. rewrite E'. unfold subs_of. cbn [r_conns]. now rewrite Hco. }
  assert (R' : forall id' rq, HasReq st' id' rq -> id' <> id /\ HasReq st0 id' rq).
  { intros id' rq Hr.
    assert (Hne : id' <> id).
    { intros ->. destruct (HasReq_live _ _ _ _ HI' Hr) as [c Hc']. congruence. }
    split; [exact Hne |]. rewrite E' in Hr. destruct Hr as [Hr | [Hr | Hr]].
    - left. unfold treqs in *. cbn [r_trackers] in Hr. now rewrite Hto in Hr.
    - right. left. eapply (wreq_isub st0); [| exact Hr]. cbn [r_datalog set_dl_native dl_native sl_items]. exact Hsub.
    - right. right. exact Hr. }
  constructor.
  - intros id' rq Hr. destruct (R' _ _ Hr) as [Hne H0]. destruct (mi_req _ HM0 _ _ H0) as [Sh M]. split; [exact Sh |].
    intros name Hn. destruct (M name Hn) as (c & Hc' & Hg). exists c. rewrite (C' _ Hne). split; [exact Hc' |].
    apply G'. split; [exact Hg |]. intros ->. apply Hne. eapply cli_unique; eauto.
  - rewrite E'. exact Xg.
  - intros name c Hg. apply G' in Hg as [Hg Hne]. destruct (mi_sub _ HM0 _ _ Hg) as (K & id'' & subs & H1 & H2 & H3).
    split; [exact K |]. exists id'', subs.
    assert (id'' <> id) by (intros ->; congruence).
    rewrite (C' _ H), (S' _ H). auto.
  - rewrite E'. cbn [r_groups]. now rewrite Xk.
Qed.

(* ------------------------------------------------------------------ rejoin_groups *)
Lemma rejoin_one_joined gs strat client rq :
  rejoin_groups gs strat client [rq] =
  match dr_group rq with Some name => joined gs name client (dr_cursor rq) strat | None => gs end.
Proof. rewrite rejoin_groups_one. destruct (dr_group rq); reflexivity. Qed.

Lemma rejoin_mono strat client : forall rqs gs name c,
  gmemL gs name c -> gmemL (rejoin_groups gs strat client rqs) name c.
Proof.
  induction rqs as [| rq r IH]; intros gs name c H; [exact H |].
  rewrite rejoin_groups_cons. apply IH. rewrite rejoin_one_joined. destruct (dr_group rq); [now apply gmemL_joined_mono | exact H].
Qed.

Lemma rejoin_member strat client : forall rqs gs rq name,
  In rq rqs -> dr_group rq = Some name -> gmemL (rejoin_groups gs strat client rqs) name client.
Proof.
  induction rqs as [| rq0 r IH]; intros gs rq name Hin Hn; [destruct Hin |].
  rewrite rejoin_groups_cons. destruct Hin as [-> | Hin]; [| eapply IH; eauto].
  apply rejoin_mono. rewrite rejoin_one_joined, Hn. apply gmemL_joined_new.
Qed.

Lemma rejoin_inv strat client : forall rqs gs name c,
  gmemL (rejoin_groups gs strat client rqs) name c ->
  gmemL gs name c \/ (c = client /\ exists rq, In rq rqs /\ dr_group rq = Some name).
Proof.
  induction rqs as [| rq0 r IH]; intros gs name c H; [now left |].
  rewrite rejoin_groups_cons in H. destruct (IH _ _ _ H) as [H0 | (-> & rq & Hin & Hn)].
  - rewrite rejoin_one_joined in H0. destruct (dr_group rq0) as [n0 |] eqn:E0; [| now left].
    destruct (gmemL_joined_inv _ _ _ _ _ _ _ H0) as [H1 | [-> ->]]; [now left |].
    right. split; [reflexivity |]. exists rq0. split; [now left | exact E0].
  - right. split; [reflexivity |]. exists rq. split; [now right | exact Hn].
Qed.

Lemma cnt_ge1 rq l : In rq l -> (1 <= cnt (dr_filter rq) l)%nat.
Proof.
  induction l as [| x l IH]; intros H; [destruct H |]. rewrite cnt_cons. destruct H as [-> | H]; [| specialize (IH H); lia].
  unfold fmatch. destruct (str_eqb_spec (dr_filter rq) (dr_filter rq)); [lia | congruence].
Qed.

(* ------------------------------------------------------------------ handle_new_connection *)
Lemma newconn_core_mem cfg st1 conn link st' :
  RInvC cfg st1 -> r_notif st1 = [] -> DevEI st1 -> MemInv st1 -> c_subs conn = [] ->
  (let client := c_client conn in
      let saved := al_get str_eqb client (r_graveyard st1) in
      let grave := al_remove str_eqb client (r_graveyard st1) in
      let clean := c_clean conn in
      let previous_session := match saved with Some (Some _) => true | _ => false end in
      let '(trk, conn1, pubrels) :=
        if negb clean then
          match saved with
          | Some (Some ss) => (ss_tracker ss, set_c_subs conn (ss_subs ss), ss_pubrels ss)
          | _ => ({| tr_id := client; tr_reqs := []; tr_status := Paused Busy |}, conn, [])
          end
        else ({| tr_id := client; tr_reqs := []; tr_status := Paused Busy |}, conn, []) in
      let groups1 := rejoin_groups (r_groups st1) (cf_strategy (r_cfg st1)) client (tr_reqs trk) in
      let wills := match c_will conn1 with
                   | Some w => al_set str_eqb client w (r_wills st1)
                   | None => al_remove str_eqb client (r_wills st1)
                   end in
      let conn2 := set_c_will conn1 None in
      let '(conns, id) := slab_insert (r_conns st1) conn2 in
      let '(ibufs, id_i) := slab_insert (r_ibufs st1) {| i_client := client; i_link := link |} in
      let '(obufs, id_o) := slab_insert (r_obufs st1)
            {| o_client := client; o_link := link; o_inflight := []; o_pubrels := pubrels; o_last := 0 |} in
      let ack0 := {| a_committed := [AConnAck id (negb clean && previous_session)]; a_recorded := [] |} in
      let '(acks, id_a) := slab_insert (r_acks st1) (commit_pubrels ack0 pubrels) in
      let '(trackers, id_t) := slab_insert (r_trackers st1) trk in
      if negb ((id_i =? id) && (id_o =? id) && (id_a =? id) && (id_t =? id)) then Panic P_SLAB_ALIGN
      else
        let st2 := {| r_cfg := r_cfg st1; r_graveyard := grave; r_conns := conns;
                      r_cmap := al_set str_eqb client id (r_cmap st1);
                      r_submap := submap_add_all (r_submap st1) (c_subs conn2) id;
                      r_ibufs := ibufs; r_obufs := obufs; r_datalog := r_datalog st1; r_acks := acks;
                      r_trackers := trackers; r_ready := r_ready st1; r_notif := r_notif st1;
                      r_groups := groups1; r_wills := wills; r_links := r_links st1;
                      r_oracle := r_oracle st1 |} in
        do _ <- dbg_no_dups st2 id;
        reschedule st2 id SInit) = Ok st' -> MemInv st'.
Proof.
  intros HI Hn HD HM Hnosub. cbv zeta.
  set (client := c_client conn).
  set (tcp := if negb (c_clean conn)
              then match al_get str_eqb client (r_graveyard st1) with
                   | Some (Some ss) => (ss_tracker ss, set_c_subs conn (ss_subs ss), ss_pubrels ss)
                   | _ => ({| tr_id := client; tr_reqs := []; tr_status := Paused Busy |}, conn, [])
                   end
              else ({| tr_id := client; tr_reqs := []; tr_status := Paused Busy |}, conn, [])).
  assert (Htcp : Forall shape (tr_reqs (fst (fst tcp))) /\
                 forall rq, In rq (tr_reqs (fst (fst tcp))) -> set_mem str_eqb (dr_filter rq) (c_subs (snd (fst tcp))) = true).
  { unfold tcp. destruct (negb (c_clean conn)); [| split; [constructor | intros rq []]].
    destruct (al_get str_eqb client (r_graveyard st1)) as [[ss |] |] eqn:Eg; try (split; [constructor | intros rq []]).
    apply al_get_In_str in Eg. cbn [fst snd set_c_subs c_subs]. split.
    - pose proof (mi_grave _ HM) as G. rewrite Forall_forall in G. exact (G _ Eg).
    - intros rq Hin. pose proof (de_grave _ _ HD) as G. rewrite Forall_forall in G. specialize (G _ Eg (dr_filter rq)).
      unfold sess_E in G. cbn [snd] in G. unfold okE in G. pose proof (cnt_ge1 _ _ Hin).
      destruct (set_mem str_eqb (dr_filter rq) (ss_subs ss)); [reflexivity | lia]. }
  destruct tcp as [[trk conn1] pubrels]. cbn [fst snd] in Htcp. destruct Htcp as [Hshape Hsubs].
  set (conn2 := set_c_will conn1 None).
  destruct (slab_insert (r_conns st1) conn2) as [conns id] eqn:Ec.
  destruct (slab_insert (r_ibufs st1) {| i_client := client; i_link := link |}) as [ibufs id_i] eqn:Ei.
  destruct (slab_insert (r_obufs st1) {| o_client := client; o_link := link; o_inflight := []; o_pubrels := pubrels; o_last := 0 |}) as [obufs id_o] eqn:Eo.
  match goal with |- context [slab_insert (r_acks st1) ?a] => set (ack1 := a) end.
  destruct (slab_insert (r_acks st1) ack1) as [acks id_a] eqn:Ea.
  destruct (slab_insert (r_trackers st1) trk) as [trackers id_t] eqn:Et.
  destruct (aligned_insert _ _ _ _ _ _ _ _ (ri_al_t _ _ HI) Ec Et) as [<- _].
  destruct (aligned_insert _ _ _ _ _ _ _ _ (ri_al_o _ _ HI) Ec Eo) as [<- _].
  match goal with |- (if ?b then _ else _) = _ -> _ => destruct b end; [discriminate |].
  pose proof (ri_wf _ _ HI) as Hwf.
  destruct (insert_spec _ _ _ _ Hwf Ec) as (Hcnone & Hcnew & Hcoth & _).
  destruct (insert_spec _ _ _ _ (aligned_wf _ _ (ri_al_t _ _ HI) Hwf) Et) as (Htnone & Htnew & Htoth & _).
  destruct (insert_spec _ _ _ _ (aligned_wf _ _ (ri_al_o _ _ HI) Hwf) Eo) as (Honone & Honew & Hooth & _).
  match goal with |- (do _ <- dbg_no_dups ?s id; _) = _ -> _ => set (st2 := s) end.
  intros H. apply bind_ok in H as (u & _ & H).
  eapply MemInv_mfr0; [| eapply reschedule_mfr; exact H]. clear H.
  assert (Cnew : cli st2 id = Some client) by (unfold cli, st2; cbn [r_obufs]; now rewrite Honew).
  assert (Hvac : forall rq, ~ HasReq st1 id rq).
  { intros rq Hr. destruct (HasReq_live _ _ _ _ HI Hr) as [c Hc']. unfold cli in Hc'. now rewrite Honone in Hc'. }
  apply (MemInv_grow (map (pair id) (tr_reqs trk)) st1 st2 HM).
  - intros id' rq [Hr | [Hr | Hr]].
    + unfold treqs, st2 in Hr. cbn [r_trackers] in Hr. destruct (N.eq_dec id' id) as [-> | Hne].
      * rewrite Htnew in Hr. right. now apply in_map.
      * rewrite Htoth in Hr by exact Hne. left. left. exact Hr.
    + left. right. left. exact Hr.
    + left. right. right. exact Hr.
  - intros id' c Hc'. unfold cli, st2 in *. cbn [r_obufs]. destruct (N.eq_dec id' id) as [-> | Hne].
    + rewrite Honone in Hc'. discriminate.
    + now rewrite Hooth.
  - intros name c Hg. apply gmem_L. unfold st2. cbn [r_groups]. apply rejoin_mono. exact Hg.
  - intros id' subs Hs. exists subs. split; [| auto]. unfold subs_of, st2 in *. cbn [r_conns].
    destruct (N.eq_dec id' id) as [-> | Hne]; [rewrite Hcnone in Hs; discriminate | now rewrite Hcoth].
  - unfold st2. cbn [r_graveyard]. apply Forall_al_remove. exact (mi_grave _ HM).
  - intros id' rq Hin. apply in_map_iff in Hin as (x & E & Hx). inversion E; subst id' x. split.
    + rewrite Forall_forall in Hshape. now apply Hshape.
    + intros name Hn'. exists client. split; [exact Cnew |]. apply gmem_L. unfold st2. cbn [r_groups].
      eapply rejoin_member; eauto.
  - intros name c Hg. apply gmem_L in Hg. unfold st2 in Hg. cbn [r_groups] in Hg.
    destruct (rejoin_inv _ _ _ _ _ _ Hg) as [H0 | (-> & rq & Hin & Hn')]; [now left | right].
    rewrite Forall_forall in Hshape. pose proof (Hshape _ Hin) as Sh.
    pose proof (shape_filter _ _ Sh Hn') as Ef. split.
    + unfold shape in Sh. rewrite Hn', Ef in Sh. now symmetry.
    + exists id, (c_subs conn1). split; [exact Cnew |]. split; [unfold subs_of, st2; cbn [r_conns]; now rewrite Hcnew |].
      rewrite <- Ef. now apply Hsubs.
  - unfold st2. cbn [r_groups].
    destruct (rejoin_groups_gi (r_datalog st1) (cf_strategy (r_cfg st1)) client [] (tr_reqs trk) (r_groups st1) (mi_gk _ HM))
      as [X _]; [constructor | intros ? ? ? ? _ [] | exact X].
Qed.

Lemma handle_new_connection_mem cfg st conn link st' :
  RInvC cfg st -> r_notif st = [] -> DevEI st -> MemInv st -> c_subs conn = [] ->
  handle_new_connection st conn link = Ok st' -> MemInv st'.
Proof.
  intros HI Hn HD HM Hnosub H. unfold handle_new_connection in H. cbv zeta in H.
  destruct (negb (validate_clientid (c_client conn))); [inv_ok; exact HM |].
  apply bind_ok in H as (st1 & H1 & H).
  assert (X : RInvC cfg st1 /\ r_notif st1 = [] /\ DevEI st1 /\ MemInv st1).
  { destruct (al_get str_eqb (c_client conn) (r_cmap st)) as [cid |]; [| inv_ok; auto].
    pose proof (handle_disconnection_spec cfg st cid None HI Hn) as W. rewrite H1 in W. cbn [wp] in W. destruct W as (A & B & _).
    pose proof (handle_disconnection_loc cfg st cid None HI Hn HD) as W2. rewrite H1 in W2. cbn [wpd] in W2.
    split; [exact A | split; [exact B | split; [exact W2 |]]]. exact (handle_disconnection_mem cfg st cid None st1 HI A HM H1). }
  destruct X as (HI1 & Hn1 & HD1 & HM1).
  destruct (cf_max_connections (r_cfg st1) <=? slab_len (r_conns st1)); [inv_ok; exact HM1 |].
  eapply (newconn_core_mem cfg st1 conn link); eauto.
Qed.
