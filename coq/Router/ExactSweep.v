(** C01 exactness — what one sweep ([forward_device_data]) of a non-shared data request
    forwards: exactly the next [slots] entries of the ghost history of its filter log, from the
    position of its cursor, in append order, each tagged with its absolute offset; and where
    the continuation cursor points.  Two sweeps of the same request, any run in between. *)
From Rumqtt Require Import Log.Spec Log.Proofs Log.ListFacts Log.WfFacts Router.ExactLog.
From Rumqtt Require Import Topic.Proofs Router.WindowFrame Router.Window Router.DataLogInv Router.DataLogStep
                           Router.ExactInv Router.ExactStep1 Router.ExactStep2 Router.ExactLogs Router.ExactStep3.
From Rumqtt Require Import Router.Model Router.RunDefs.
From Coq Require Import ZifyBool ZifyN ZifyNat.

Notation fwd := (option cursor * publish * option pprops)%type (only parsing).

(* ------------------------------------------------------------------ the shape of the notifications *)
(** what the per-publish rewriting may change: the granted QoS, the topic (emptied when a
    broker topic alias stands for it), the packet id — nothing else of the publish *)
Definition prel (qos : N) (p p' : publish) : Prop :=
  p_payload p' = p_payload p /\ (p_topic p' = p_topic p \/ p_topic p' = []) /\
  p_qos p' = qos /\ p_retain p' = p_retain p /\ p_dup p' = p_dup p.

Lemma alias_forwards_shape qos subid : forall l bal bal' l',
  alias_forwards bal qos subid l = (bal', l') ->
  Forall2 (fun x y : fwd => fst (fst y) = fst (fst x) /\ prel qos (snd (fst x)) (snd (fst y))) l l'.
Proof.
  induction l as [|[[c p] pr] r IH]; cbn [alias_forwards]; intros bal bal' l' H.
  - inv_ok. constructor.
  - match type of H with (match ?X with _ => _ end) = _ => destruct X as [[bal1 p2] pr1] eqn:EX end.
    destruct (alias_forwards bal1 qos subid r) as [bal2 r'] eqn:Er. inv_ok.
    constructor; [|eapply IH; eassumption]. cbn [fst snd]. split; [reflexivity|].
    unfold prel. destruct bal as [b|].
    + destruct (utf8_valid (p_topic (set_p_qos p qos))).
      * destruct (al_get str_eqb (p_topic (set_p_qos p qos)) (ba_map b)) as [a|].
        -- inv_ok. cbn [set_p_topic set_p_qos p_payload p_topic p_retain p_qos p_dup]. auto 10.
        -- destruct (ba_set_new_alias b (p_topic (set_p_qos p qos))) as [b' a]. inv_ok.
           cbn [set_p_qos p_payload p_topic p_retain p_qos p_dup]. auto 10.
      * inv_ok. cbn [set_p_qos p_payload p_topic p_retain p_qos p_dup]. auto 10.
    + inv_ok. cbn [set_p_qos p_payload p_topic p_retain p_qos p_dup]. auto 10.
Qed.

(** notification [n] forwards the publish of [x] under [x]'s cursor *)
Definition fw_rel (qos : N) (x : fwd) (n : notification) : Prop :=
  exists p' pr', n = NForward (fst (fst x)) p' pr' /\ prel qos (snd (fst x)) p'.

Lemma numbered_shape qos fidx new fw ns :
  numbered fidx new fw ns -> Forall (fun y : fwd => p_qos (snd (fst y)) = qos) fw ->
  Forall2 (fun (y : fwd) n => exists p' pr', n = NForward (fst (fst y)) p' pr' /\ prel qos (snd (fst y)) p') fw ns.
Proof.
  induction 1 as [|pk c p pr new fw ns Hn IH]; intros HF; [constructor|].
  inversion HF as [|? ? Hq HF']; subst. constructor; [|now apply IH]. cbn [fst snd] in *.
  exists (set_p_pkid p pk), pr. split; [reflexivity|]. unfold prel. cbn [set_p_pkid p_payload p_topic p_qos p_retain p_dup]. auto 10.
Qed.

Lemma Forall2_compose {A B C} (R1 : A -> B -> Prop) (R2 : B -> C -> Prop) (R : A -> C -> Prop) :
  (forall a b c, R1 a b -> R2 b c -> R a c) ->
  forall la lb lc, Forall2 R1 la lb -> Forall2 R2 lb lc -> Forall2 R la lc.
Proof.
  intros HR la lb lc H1. revert lc. induction H1 as [|a b la lb Hab H1 IH]; intros lc H2; inversion H2; subst; constructor; eauto.
Qed.

Lemma prel_trans qos p p1 p2 : prel qos p p1 -> prel qos p1 p2 -> prel qos p p2.
Proof.
  unfold prel. intros (A1 & A2 & A3 & A4 & A5) (B1 & B2 & B3 & B4 & B5).
  repeat split; try congruence. destruct B2 as [B2 | B2]; [|now right]. rewrite B2. exact A2.
Qed.

Lemma map_forward_shape qos (forwards : list fwd) :
  Forall (fun y : fwd => p_qos (snd (fst y)) = qos) forwards ->
  Forall2 (fun (y : fwd) n => exists p' pr', n = NForward (fst (fst y)) p' pr' /\ prel qos (snd (fst y)) p') forwards
          (map (fun x : fwd => let '(c, p, pr) := x in NForward c p pr) forwards).
Proof.
  induction 1 as [|[[c p] pr] r Hq HQ IH]; cbn [map]; constructor; [|exact IH].
  cbn [fst snd] in *. exists p, pr. split; [reflexivity|]. unfold prel. auto 10.
Qed.

(** the notifications [fdd_push] computes for a list of publishes *)
Lemma push_notifs_shape qos (o : outgoing) fidx bal subid publishes bal' forwards o1 notifs :
  alias_forwards bal qos subid publishes = (bal', forwards) ->
  (if qos =? 0
   then (o, map (fun x : fwd => let '(c, p, pr) := x in NForward c p pr) forwards)
   else number_forwards o fidx forwards) = (o1, notifs) ->
  Forall2 (fw_rel qos) publishes notifs /\ o_link o1 = o_link o.
Proof.
  intros EA E1. pose proof (alias_forwards_shape _ _ _ _ _ _ EA) as S1.
  assert (HQ : Forall (fun y : fwd => p_qos (snd (fst y)) = qos) forwards).
  { apply alias_forwards_spec in EA. apply EA. }
  assert (S2 : Forall2 (fun (y : fwd) n => exists p' pr', n = NForward (fst (fst y)) p' pr' /\ prel qos (snd (fst y)) p') forwards notifs
               /\ o_link o1 = o_link o).
  { destruct (qos =? 0).
    - inv_ok. split; [|reflexivity]. now apply map_forward_shape.
    - apply number_forwards_spec in E1. destruct E1 as (_ & Hl & _ & new & _ & Hn). split; [|exact Hl].
      eapply numbered_shape; eassumption. }
  destruct S2 as [S2 Hl]. split; [|exact Hl].
  eapply Forall2_compose; [|exact S1|exact S2]. cbn beta.
  intros x y n [Hc Hp] (p' & pr' & -> & Hp'). exists p', pr'. rewrite Hc. split; [reflexivity|]. eapply prel_trans; eassumption.
Qed.

(* ------------------------------------------------------------------ the statement *)
(** [n] is the forward of the log entry [e] stored at absolute offset [off] *)
Definition fwd_of (qos : N) (e : pubdata) (off : N) (n : notification) : Prop :=
  exists c p pr, n = NForward (Some c) p pr /\ snd c = off /\ prel qos (fst e) p.

(** the notifications are the forwards of the entries [es], stored at off, off+1, ... *)
Fixpoint fwds_from (qos off : N) (es : list pubdata) (ns : list notification) : Prop :=
  match es, ns with
  | [], [] => True
  | e :: es', n :: ns' => fwd_of qos e off n /\ fwds_from qos (off + 1) es' ns'
  | _, _ => False
  end.

Lemma fwds_from_intro qos : forall (from_log : list (pubdata * cursor)) off ns,
  map (fun e => snd (snd e)) from_log = Nseq off (length from_log) ->
  Forall2 (fw_rel qos) (map (fun x : pubdata * cursor => (Some (snd x), fst (fst x), snd (fst x))) from_log) ns ->
  fwds_from qos off (map fst from_log) ns.
Proof.
  induction from_log as [|[e c] r IH]; intros off ns Ho HF; cbn [map] in *.
  - inversion HF; subst. exact I.
  - inversion HF as [|x n lx ln Hx Hr]; subst. cbn [length Nseq] in Ho. injection Ho as Ho1 Ho2. cbn [fwds_from]. split.
    + destruct Hx as (p' & pr' & -> & Hp). cbn [fst snd] in *. exists c, p', pr'. auto.
    + apply IH; assumption.
Qed.

Lemma fwds_from_len qos : forall es off ns, fwds_from qos off es ns -> lenN ns = lenN es.
Proof.
  induction es as [|e es IH]; intros off [|n ns] H; cbn [fwds_from] in H; try contradiction; [reflexivity|].
  rewrite !lenN_cons. destruct H as [_ H]. now rewrite (IH _ _ H).
Qed.

(** number of entries one sweep may forward *)
Definition sweep_slots (st : rstate) (o : outgoing) (rq : drequest) : N :=
  if dr_qos rq =? 0 then cf_max_outgoing (r_cfg st) else MAX_INFLIGHT - lenN (o_inflight o).

(** the request is not (or no longer) served through a shared-subscription group *)
Definition unshared (st : rstate) (rq : drequest) : Prop :=
  match dr_group rq with Some g => al_get str_eqb g (r_groups st) = None | None => True end.

Lemma lenN_firstn_skipn {X} (all : list X) n p :
  lenN (firstn (N.to_nat n) (skipn (N.to_nat p) all)) = N.min n (lenN all - p).
Proof. unfold lenN. rewrite firstn_length, skipn_length. lia. Qed.

(** a retained-flagged forward (no log cursor): the replay of a retained message on the first
    sweep of a subscription; its content is the subject of C15 *)
Definition is_retained_fwd (n : notification) : Prop := exists p pr, n = NForward None p pr.

Lemma retained_shape qos (retained : list pubdata) rs :
  Forall2 (fw_rel qos) (map (fun x : pubdata => (None, fst x, snd x)) retained) rs ->
  Forall is_retained_fwd rs /\ lenN rs = lenN retained.
Proof.
  revert rs. induction retained as [|x r IH]; intros rs H; cbn [map] in H; inversion H; subst.
  - split; [constructor|reflexivity].
  - destruct (IH _ H4) as [H5 H6]. split; [|rewrite !lenN_cons; lia].
    constructor; [|exact H5]. destruct H2 as (p' & pr' & -> & _). cbn [fst]. exists p', pr'. reflexivity.
Qed.

Theorem sweep_exact st id rq st' rq' cs d all :
  CInv st -> Bounded st ->
  nget (r_datalog st) (dr_idx rq) = Some d -> WFp (d_log d) all ->
  Issued (d_log d) (dr_cursor rq) -> snd (dr_cursor rq) <= lenN all ->
  unshared st rq ->
  forward_device_data st id rq = Ok (st', rq', cs) ->
  exists o, slab_get (r_obufs st) id = Some o /\
  let p := pos_of (d_log d) (dr_cursor rq) in
  let slots := sweep_slots st o rq in
  r_datalog st' = r_datalog st /\ base_of (d_log d) <= p /\ p <= lenN all /\
  ((cs = SInflightFull /\ slots = 0 /\ st' = st /\ rq' = rq) \/
   (cs <> SInflightFull /\ cs <> SkipRequest /\
    exists rs ns tail,
      let es := firstn (N.to_nat (slots - lenN rs)) (skipn (N.to_nat p) all) in
      (forall k, out_of st' k = if k =? o_link o then out_of st k ++ (rs ++ ns) ++ tail else out_of st k) /\
      Forall is_retained_fwd rs /\ lenN rs <= slots /\ (dr_fwd_retained rq = false -> rs = []) /\
      fwds_from (dr_qos rq) p es ns /\
      ((tail = [] /\ cs <> BufferFull) \/ (tail = [NUnschedule] /\ cs = BufferFull)) /\
      rq' = {| dr_filter := dr_filter rq; dr_idx := dr_idx rq; dr_qos := dr_qos rq;
               dr_cursor := dr_cursor rq'; dr_read := dr_read rq + (lenN rs + lenN es);
               dr_fwd_retained := false; dr_group := dr_group rq |} /\
      Issued (d_log d) (dr_cursor rq') /\ stale (d_log d) (dr_cursor rq') = false /\
      snd (dr_cursor rq') = p + lenN es /\
      (cs = FilterCaughtup -> p + lenN es = lenN all \/ slots = 0) /\
      (cs = PartialRead -> p + lenN es < lenN all) /\
      (p + lenN es = lenN all -> cs = FilterCaughtup \/ cs = BufferFull))).
Proof.
  intros HI HB Hd W Hiss Hsnd Hun H.
  pose proof (fdd_dl _ _ _ _ _ _ H) as Hdl.
  rewrite fdd_alt_eq in H. unfold fdd_alt, get_obuf in H.
  destruct (slab_get (r_obufs st) id) as [o|] eqn:G; [|discriminate]. cbn [bind] in H.
  exists o. split; [reflexivity|]. cbv zeta.
  destruct (slab_get (r_conns st) id) as [conn|]; [|discriminate]. cbn [bind] in H.
  cbv zeta in H.
  assert (Esg : match dr_group rq with
                | Some name => match al_get str_eqb name (r_groups st) with
                               | Some g => Some (name, g) | None => None end
                | None => None end = None).
  { unfold unshared in Hun. destruct (dr_group rq); [now rewrite Hun|reflexivity]. }
  rewrite Esg in H.
  pose proof (wf_end_of pubdata_size _ _ W) as Hall. pose proof (HB _ _ Hd) as Hb. pose proof B62_U64 as HU.
  pose proof W as [Ws _]. destruct (issued_pos pubdata_size _ _ _ Ws Hiss) as [Hp1 Hp2].
  split; [exact Hdl|]. split; [exact Hp1|]. split; [exact Hp2|].
  apply bind_ok in H as (slots0 & HS & H).
  assert (Eslots : slots0 = sweep_slots st o rq).
  { unfold sweep_slots. destruct (dr_qos rq =? 0); cbn [negb] in HS; [now inv_ok|].
    apply free_slots_spec in HS. lia. }
  subst slots0. set (slots0 := sweep_slots st o rq) in *.
  destruct (negb (dr_qos rq =? 0) && (slots0 =? 0)) eqn:EF.
  { inv_ok. left. split; [reflexivity|]. split; [lia|]. auto. }
  right.
  assert (Hs0 : slots0 < B62).
  { destruct HI as [_ CI]. pose proof (ci_cfg _ _ CI). unfold slots0, sweep_slots.
    destruct (dr_qos rq =? 0); [assumption|]. rewrite MAX_INFLIGHT_100. unfold B62. lia. }
  apply bind_ok in H as ([[[st1 rq1] retained] slots2] & HR & H).
  assert (HR' : r_links st1 = r_links st /\ r_datalog st1 = r_datalog st /\
                rq1 = {| dr_filter := dr_filter rq; dr_idx := dr_idx rq; dr_qos := dr_qos rq;
                         dr_cursor := dr_cursor rq; dr_read := dr_read rq;
                         dr_fwd_retained := false; dr_group := dr_group rq |} /\
                lenN retained <= slots0 /\ slots2 = slots0 - lenN retained /\
                (dr_fwd_retained rq = false -> retained = [])).
  { unfold fdd_retained in HR. destruct (dr_fwd_retained rq) eqn:Efr.
    - apply bind_ok in HR as ([st2 rs0] & HR1 & HR). cbv zeta in HR. injection HR as <- <- <- <-.
      destruct (read_retained_dl _ _ _ _ HR1) as [D L]. pose proof (lenN_firstnN rs0 slots0).
      repeat split; auto. discriminate.
    - injection HR as <- <- <- <-. rewrite lenN_nil. repeat split; try lia. destruct rq; cbn in *; congruence. }
  destruct HR' as (L1 & D1 & -> & Hrl & -> & Hrnil).
  cbn [dr_idx dr_cursor dr_qos dr_filter dr_read dr_fwd_retained dr_group] in H.
  unfold native_get in H. unfold nget in Hd. rewrite D1, Hd in H. cbn [bind] in H.
  apply bind_ok in H as ([pos from_log] & HV & H).
  assert (Hb1 : 2 * lenN all < U64) by lia.
  assert (Hb2 : snd (dr_cursor rq) + (slots0 - lenN retained) < U64) by lia.
  destruct (readv_ok_facts pubdata_size _ all _ _ _ _ W Hiss Hb1 Hb2 HV)
    as (_ & _ & Hmap & Hoffs & _ & Hiend & Hst & Hsnd' & Hle & Hdone).
  set (p := pos_of (d_log d) (dr_cursor rq)) in *.
  assert (Epos : (let '(start, next, caughtup) := match pos with Next s e => (s, e, false) | Done s e => (s, e, true) end in (next, caughtup)) = (pos_end pos, is_done pos))
    by (destruct pos; reflexivity).
  destruct (match pos with Next s e => (s, e, false) | Done s e => (s, e, true) end) as [[start next] caughtup].
  cbv beta iota in Epos. injection Epos as -> ->.
  set (plog := map (fun x : pubdata * cursor => (Some (snd x), fst (fst x), snd (fst x))) from_log) in *.
  set (pret := map (fun x : pubdata => (None, fst x, snd x)) retained) in *.
  assert (Hlpl : lenN plog = lenN from_log) by (unfold plog, lenN; now rewrite map_length).
  assert (Hlpr : lenN pret = lenN retained) by (unfold pret, lenN; now rewrite map_length).
  assert (Hfl : lenN from_log = lenN (firstn (N.to_nat (slots0 - lenN retained)) (skipn (N.to_nat p) all)))
    by (rewrite <- Hmap; unfold lenN; now rewrite map_length).
  pose proof (lenN_firstn_skipn all (slots0 - lenN retained) p) as Hmin.
  split; [|split].
  1,2: destruct (pret ++ plog); [inv_ok; discriminate|]; unfold fdd_push in H; cbv zeta in H;
       destruct (2 <? _); [discriminate|]; destruct (alias_forwards _ _ _ _) as [? ?];
       match type of H with (match ?x with _ => _ end) = _ => destruct x as [? ?] end;
       apply bind_ok in H as ([? ?] & _ & H); cbn [bind] in H;
       destruct (_ <=? _); [apply bind_ok in H as ([? ?] & _ & H)|]; inv_ok; try discriminate;
       destruct (is_done pos); discriminate.
  destruct (pret ++ plog) as [|pb pbs] eqn:Epubs.
  { (* nothing to forward *)
    apply app_eq_nil in Epubs. destruct Epubs as [Er El].
    assert (Er' : retained = []) by (unfold pret in Er; destruct retained; [reflexivity|discriminate]).
    assert (El' : from_log = []) by (unfold plog in El; destruct from_log; [reflexivity|discriminate]).
    subst retained from_log. rewrite !lenN_nil in *.
    inv_ok. exists [], [], []. cbn [dr_cursor app]. rewrite !lenN_nil. rewrite N.sub_0_r in *.
    assert (Ees : firstn (N.to_nat slots0) (skipn (N.to_nat p) all) = []).
    { destruct (firstn _ _); [reflexivity|]. rewrite lenN_cons in Hfl. lia. }
    rewrite Ees in *. rewrite !lenN_nil in *.
    split; [intros k; unfold out_of; rewrite L1; destruct (k =? o_link o); [now rewrite app_nil_r|reflexivity]|].
    split; [constructor|]. split; [lia|]. split; [reflexivity|].
    split; [exact I|]. split; [left; split; [reflexivity|discriminate]|].
    split; [f_equal; lia|]. split; [exact Hiend|]. split; [exact Hst|]. split; [lia|].
    split; [intros _; lia|]. split; [discriminate|]. auto. }
  rewrite <- Epubs in *. clear Epubs pb pbs.
  unfold fdd_push in H. cbv zeta in H.
  destruct (2 <? _); [discriminate|]. cbn [dr_qos dr_filter dr_idx dr_cursor] in H.
  destruct (alias_forwards (c_baliases conn) (dr_qos rq) (al_get str_eqb (dr_filter rq) (c_subids conn)) (pret ++ plog))
    as [bal forwards] eqn:EA.
  match type of H with (match ?x with _ => _ end) = _ => destruct x as [o1 notifs] eqn:E1 end.
  destruct (push_notifs_shape _ _ _ _ _ _ _ _ _ _ EA E1) as [Hshape Hlink].
  apply Forall2_app_inv_l in Hshape. destruct Hshape as (rs & nl & Hsr & Hsl & ->).
  destruct (retained_shape _ _ _ Hsr) as [Hrs Hrsl].
  assert (Hfw : fwds_from (dr_qos rq) p (firstn (N.to_nat (slots0 - lenN rs)) (skipn (N.to_nat p) all)) nl).
  { rewrite Hrsl, <- Hmap. apply fwds_from_intro; [|exact Hsl]. rewrite Hoffs. reflexivity. }
  rewrite <- Hrsl in *.
  set (es := firstn (N.to_nat (slots0 - lenN rs)) (skipn (N.to_nat p) all)) in *.
  assert (Hrnil' : dr_fwd_retained rq = false -> rs = []).
  { intros E. specialize (Hrnil E). subst retained. rewrite lenN_nil in Hrsl. destruct rs; [reflexivity|]. rewrite lenN_cons in Hrsl. lia. }
  assert (Hread : lenN (pret ++ plog) = lenN rs + lenN es) by (rewrite lenN_app; lia).
  apply bind_ok in H as ([st4 len] & H4 & H). cbn [bind] in H.
  destruct (push_out_out _ _ _ _ _ H4) as [Hout4 _].
  assert (Hout4' : forall k, out_of st4 k = if k =? o_link o then out_of st k ++ rs ++ nl else out_of st k).
  { intros k. rewrite Hout4, Hlink. unfold out_of, put_obuf, put_conn. cbn [r_links set_r_obufs set_r_conns]. rewrite L1.
    destruct (N.eqb_spec k (o_link o)) as [-> | _]; reflexivity. }
  destruct (MAX_CHANNEL_CAPACITY - 1 <=? len).
  - apply bind_ok in H as ([st6 n6] & H6 & H). inv_ok. cbn [dr_cursor].
    destruct (push_out_out _ _ _ _ _ H6) as [Hout6 _].
    exists rs, nl, [NUnschedule]. cbv zeta. fold es.
    split.
    { intros k. rewrite Hout6, !Hout4', Hlink, N.eqb_refl.
      destruct (N.eqb_spec k (o_link o)) as [-> | _]; [now rewrite <- !app_assoc|reflexivity]. }
    split; [exact Hrs|]. split; [lia|]. split; [exact Hrnil'|].
    split; [exact Hfw|]. split; [right; auto|].
    split; [f_equal; lia|]. split; [exact Hiend|]. split; [exact Hst|]. split; [lia|].
    split; [discriminate|]. split; [discriminate|]. auto.
  - inv_ok. cbn [dr_cursor]. exists rs, nl, []. cbv zeta. fold es.
    split; [intros k; rewrite Hout4'; destruct (k =? o_link o); [now rewrite app_nil_r|reflexivity]|].
    split; [exact Hrs|]. split; [lia|]. split; [exact Hrnil'|].
    split; [exact Hfw|]. split; [left; split; [reflexivity|destruct (is_done pos); discriminate]|].
    split; [f_equal; lia|]. split; [exact Hiend|]. split; [exact Hst|]. split; [lia|].
    assert (Hd1 : is_done pos = true -> p + lenN es = lenN all) by (intros E; apply Hdone in E; lia).
    assert (Hd2 : p + lenN es = lenN all -> is_done pos = true) by (intros E; apply Hdone; lia).
    destruct (is_done pos).
    + split; [intros _; left; now apply Hd1|]. split; [discriminate|]. auto.
    + split; [discriminate|]. split; [intros _|intros E; apply Hd2 in E; discriminate].
      assert (p + lenN es <> lenN all) by (intros E; apply Hd2 in E; discriminate). lia.
Qed.
