(** The broker's topic -> filters cache (DataLog::matches / next_native_offset) answers exactly as
    the MQTT rule does, in every reachable state of the router, whatever the order in which filters
    were created and topics first published.  Corollaries of [TraceRunAccept.reachable_pf]. *)
From Rumqtt Require Import Log.Spec Log.Proofs Router.ExactLog.
From Rumqtt Require Import Topic.Proofs Router.WindowFrame Router.DataLogInv Router.DataLogStep Router.TraceRunAccept.
From Rumqtt Require Import Router.Model Router.RunDefs.
From Coq Require Import List.

(** completeness: a cached topic lists every existing filter that matches it, once *)
Lemma cache_complete (cfg : config) (st0 : rstate) (ops : list (list oracle * rop)) (st : rstate) :
  init cfg = Ok st0 -> RunDefs.run st0 ops = Ok st ->
  forall (t : str) (v : list N), In (t, v) (dl_pfilters (r_datalog st)) ->
    NoDup v /\ forall (f : str) (i : N), In (f, i) (dl_findex (r_datalog st)) -> matches t f = Ok true -> In i v.
Proof. intros Hi Hr. exact (proj2 (reachable_pf cfg st0 ops st Hi Hr)). Qed.

(** soundness: a cached topic lists only logs whose filter matches it *)
Lemma cache_sound (cfg : config) (st0 : rstate) (ops : list (list oracle * rop)) (st : rstate) :
  init cfg = Ok st0 -> RunDefs.run st0 ops = Ok st ->
  forall (t : str) (v : list N) (i : N), In (t, v) (dl_pfilters (r_datalog st)) -> In i v ->
    exists d, slab_get (dl_native (r_datalog st)) i = Some d /\ matches t (d_filter d) = Ok true.
Proof.
  intros Hi Hr t v i Hin Hiv. destruct (reachable_pf cfg st0 ops st Hi Hr) as [HD _].
  eapply (dli_pfilters _ HD); eassumption.
Qed.
