(** A predicate holds of every entry stored in a commit log: preserved by append (for the
    appended entry) and inherited by everything readv returns — for ANY cursor, no
    well-formedness needed (readv only ever copies entries out of segments). *)
From Rumqtt Require Import Log.Model.
From Coq Require Import ZifyBool ZifyN ZifyNat.

Section LogAll.
Context {T : Type} (size : T -> N) (P : T -> Prop).

Definition SegAll (s : segment T) : Prop := Forall P (s_data s).
Definition LogAll (l : log T) : Prop := Forall SegAll (segs l).

Lemma split_back_app {A} (l : list A) i a : split_back l = Some (i, a) -> l = i ++ [a].
Proof.
  revert i a; induction l as [|x r IH]; cbn [split_back]; intros i a H; [discriminate|].
  destruct (split_back r) as [[i' a']|] eqn:E.
  - inversion H; subst. rewrite (IH _ _ eq_refl). reflexivity.
  - inversion H; subst. destruct r; [reflexivity|].
    cbn [split_back] in E. destruct (split_back r) as [[? ?]|]; discriminate.
Qed.

Lemma logall_new ms mm (l : log T) : new ms mm = Ok l -> LogAll l.
Proof.
  unfold new. destruct (ms <? 1024); [discriminate|]. destruct (mm <? 1); [discriminate|].
  intros H; inversion H; subst. unfold LogAll; cbn. constructor; [constructor|constructor].
Qed.

Lemma active_all (l : log T) a : LogAll l -> active l = Ok a -> SegAll a.
Proof.
  unfold active, LogAll. intros HA H.
  destruct (split_back (segs l)) as [[i x]|] eqn:E; [|discriminate].
  inversion H; subst. apply split_back_app in E. rewrite E in HA.
  apply Forall_app in HA as [_ HA]. now inversion HA.
Qed.

Lemma apply_retention_all (l l' : log T) : LogAll l -> apply_retention l = Ok l' -> LogAll l'.
Proof.
  unfold apply_retention, LogAll. intros HA H.
  destruct (active l) as [a| |] eqn:Ea; cbn [bind] in H; try discriminate.
  destruct (max_seg l <=? seg_size a).
  2:{ inversion H; subst; assumption. }
  destruct (seg_next_offset a) as [ao| |]; cbn [bind] in H; try discriminate.
  destruct (max_mem l <=? lenN (segs l)).
  - destruct (add64 (head l) 1) as [h| |]; cbn [bind] in H; try discriminate.
    destruct (add64 (tail l) 1) as [t| |]; cbn [bind] in H; try discriminate.
    inversion H; subst; cbn [segs]. apply Forall_app. split.
    + destruct (segs l); cbn [tl]; [constructor|]. now inversion HA.
    + constructor; [constructor|constructor].
  - cbn [bind] in H. destruct (add64 (tail l) 1) as [t| |]; cbn [bind] in H; try discriminate.
    inversion H; subst; cbn [segs]. apply Forall_app. split; [assumption|].
    constructor; [constructor|constructor].
Qed.

Lemma logall_append (l l' : log T) x c : LogAll l -> P x -> append size l x = Ok (l', c) -> LogAll l'.
Proof.
  unfold append. intros HA Hx H.
  destruct (apply_retention l) as [l1| |] eqn:E1; cbn [bind] in H; try discriminate.
  pose proof (apply_retention_all _ _ HA E1) as HA1. unfold LogAll in HA1.
  destruct (split_back (segs l1)) as [[i a]|] eqn:E; [|discriminate].
  apply split_back_app in E. rewrite E in HA1. apply Forall_app in HA1 as [Hi Ha].
  unfold seg_push in H.
  destruct (add64 (s_total a) (size x)) as [t| |]; cbn [bind] in H; try discriminate.
  match type of H with context [active ?l2] => destruct (active l2) as [a2| |]; cbn [bind] in H; try discriminate end.
  destruct (seg_next_offset a2) as [o| |]; cbn [bind] in H; try discriminate.
  inversion H; subst. unfold LogAll; cbn [segs]. apply Forall_app. split; [assumption|].
  constructor; [|constructor]. unfold SegAll; cbn [s_data]. apply Forall_app. split.
  - now inversion Ha.
  - constructor; [assumption|constructor].
Qed.

(* ---------------- everything readv returns is a stored entry *)

Lemma skipN_incl {A} (l : list A) : forall n x, In x (skipN n l) -> In x l.
Proof.
  induction l as [|y r IH]; cbn [skipN]; intros n x H; [destruct H|].
  destruct (n =? 0); [assumption|]. right. eapply IH; eassumption.
Qed.
Lemma firstN_incl {A} (l : list A) : forall n x, In x (firstN n l) -> In x l.
Proof.
  induction l as [|y r IH]; cbn [firstN]; intros n x H; [destruct H|].
  destruct (n =? 0); [destruct H|]. destruct H as [<-|H]; [now left|]. right. eapply IH; eassumption.
Qed.
Lemma tag_from_fst sg (l : list T) : forall off e, In e (tag_from sg off l) -> In (fst e) l.
Proof.
  induction l as [|y r IH]; cbn [tag_from]; intros off e H; [destruct H|].
  destruct H as [<-|H]; [now left|]. right. eapply IH; eassumption.
Qed.

Lemma seg_readv_in (s : segment T) c len sp o :
  seg_readv s c len = Ok (sp, o) -> forall e, In e o -> In (fst e) (s_data s).
Proof.
  unfold seg_readv. intros H e He.
  destruct (sub64 P_SUB_ABS (snd c) (s_abs s)) as [idx| |]; cbn [bind] in H; try discriminate.
  destruct (seg_len s <=? idx).
  - destruct (seg_next_offset s); cbn [bind] in H; try discriminate. inversion H; subst. destruct He.
  - destruct (add64 idx len) as [limit0| |]; cbn [bind] in H; try discriminate.
    destruct (seg_len s <=? limit0).
    + destruct (add64 (snd c) (seg_len s)); cbn [bind] in H; try discriminate.
      destruct ((idx <=? seg_len s) && (seg_len s <=? seg_len s)); cbn [bind] in H; try discriminate.
      destruct (seg_next_offset s); cbn [bind] in H; try discriminate.
      inversion H; subst. apply tag_from_fst in He. apply firstN_incl in He. now apply skipN_incl in He.
    + destruct (add64 (snd c) limit0); cbn [bind] in H; try discriminate.
      destruct ((idx <=? limit0) && (limit0 <=? seg_len s)); cbn [bind] in H; try discriminate.
      destruct (add64 (s_abs s) limit0); cbn [bind] in H; try discriminate.
      inversion H; subst. apply tag_from_fst in He. apply firstN_incl in He. now apply skipN_incl in He.
Qed.

Lemma readv_active_in start cur len (curr : segment T) pos o :
  readv_active start cur len curr = Ok (pos, o) -> forall e, In e o -> In (fst e) (s_data curr).
Proof.
  unfold readv_active. intros H e He.
  destruct (seg_next_offset curr) as [no| |]; cbn [bind] in H; try discriminate.
  destruct (no <=? snd cur); [inversion H; subst; destruct He|].
  destruct (seg_readv curr cur len) as [[sp o']| |] eqn:E; cbn [bind] in H; try discriminate.
  destruct sp; inversion H; subst; eapply seg_readv_in; eassumption.
Qed.

Lemma readv_walk_in (more : list (segment T)) : forall tl start cur len curr pos o,
  readv_walk tl start cur len curr more = Ok (pos, o) ->
  forall e, In e o -> In (fst e) (s_data curr) \/ exists s, In s more /\ In (fst e) (s_data s).
Proof.
  induction more as [|nxt more IH]; intros tl start cur len curr pos o H e He; cbn [readv_walk] in H.
  - destruct (fst cur <? tl).
    + destruct (seg_readv curr cur len) as [[sp o']| |] eqn:E; cbn [bind] in H; try discriminate.
      destruct sp as [off|nf].
      * inversion H; subst. left. eapply seg_readv_in; eassumption.
      * destruct (if snd cur <=? nf then sub64 P_SUB_LEN len (nf - snd cur) else Ok len) as [len'| |];
          cbn [bind] in H; try discriminate.
        destruct (add64 (fst cur) 1) as [c0| |]; cbn [bind] in H; try discriminate.
        destruct (len' =? 0); [|discriminate].
        inversion H; subst. left. eapply seg_readv_in; eassumption.
    + left. eapply readv_active_in; eassumption.
  - destruct (fst cur <? tl).
    + destruct (seg_readv curr cur len) as [[sp o']| |] eqn:E; cbn [bind] in H; try discriminate.
      destruct sp as [off|nf].
      * inversion H; subst. left. eapply seg_readv_in; eassumption.
      * destruct (if snd cur <=? nf then sub64 P_SUB_LEN len (nf - snd cur) else Ok len) as [len'| |];
          cbn [bind] in H; try discriminate.
        destruct (add64 (fst cur) 1) as [c0| |]; cbn [bind] in H; try discriminate.
        destruct (len' =? 0).
        -- inversion H; subst. left. eapply seg_readv_in; eassumption.
        -- destruct (readv_walk tl start (c0, nf) len' nxt more) as [[pos2 o2]| |] eqn:E2;
             cbn [bind] in H; try discriminate.
           inversion H; subst. apply in_app_or in He as [He|He].
           ++ left. eapply seg_readv_in; eassumption.
           ++ right. destruct (IH _ _ _ _ _ _ _ E2 e He) as [Hc|(s & Hs & Hin)].
              ** exists nxt. split; [now left|assumption].
              ** exists s. split; [now right|assumption].
    + left. eapply readv_active_in; eassumption.
Qed.

Lemma nth_rest_in {A} (l : list A) : forall i x r, nth_rest l i = Some (x, r) ->
  In x l /\ forall y, In y r -> In y l.
Proof.
  induction l as [|y l IH]; cbn [nth_rest]; intros i x r H; [discriminate|].
  destruct (i =? 0).
  - inversion H; subst. split; [now left|]. intros z Hz. now right.
  - destruct (IH _ _ _ H) as [H1 H2]. split; [now right|]. intros z Hz. right. now apply H2.
Qed.

Theorem logall_readv (l : log T) c n pos out :
  LogAll l -> readv l c n = Ok (pos, out) -> Forall (fun e => P (fst e)) out.
Proof.
  intros HA H. apply Forall_forall. intros e He.
  unfold readv in H.
  destruct (tail l <? fst c); [inversion H; subst; destruct He|].
  match type of H with (do _ <- ?X; _) = _ => destruct X as [[cur st]| |]; cbn [bind] in H; try discriminate end.
  destruct (sub64 P_SUB_HEAD (fst cur) (head l)) as [idx| |]; cbn [bind] in H; try discriminate.
  destruct (nth_rest (segs l) idx) as [[curr more]|] eqn:En; [|discriminate].
  apply nth_rest_in in En as [Hc Hm].
  unfold LogAll in HA. rewrite Forall_forall in HA.
  destruct (snd cur <? s_abs curr).
  - destruct (readv_walk_in _ _ _ _ _ _ _ _ H e He) as [Hin|(s & Hs & Hin)].
    + specialize (HA _ Hc). unfold SegAll in HA. rewrite Forall_forall in HA. now apply HA.
    + specialize (HA _ (Hm _ Hs)). unfold SegAll in HA. rewrite Forall_forall in HA. now apply HA.
  - destruct (readv_walk_in _ _ _ _ _ _ _ _ H e He) as [Hin|(s & Hs & Hin)].
    + specialize (HA _ Hc). unfold SegAll in HA. rewrite Forall_forall in HA. now apply HA.
    + specialize (HA _ (Hm _ Hs)). unfold SegAll in HA. rewrite Forall_forall in HA. now apply HA.
Qed.

End LogAll.
