(** C01 at the level of whole runs — [DI] through a DeviceData event: the packets of a batch
    (SUBSCRIBE creates requests and their [KSub] markers), the wake-ups, the disconnect. *)
From Rumqtt Require Import Router.NoPanicLog.
From Rumqtt Require Import Router.Model Router.InvLemmasBase Router.Inv Router.InvLemmasPrim Router.InvLemmasSched
  Router.InvLemmasDl Router.InvLemmasRoute Router.InvLemmasConn Router.InvLemmasPkt Router.InvLemmasConsume
  Router.NoPanic Router.NoPanicDevBase Router.NoPanicDevInv Router.NoPanicDev1 Router.NoPanicDev2 Router.NoPanicDev3 Router.NoPanicDev4.
From Rumqtt Require Import Router.ExactLoc1 Router.ExactLoc2.
From Rumqtt Require Import Log.Proofs Router.ExactLog.
From Rumqtt Require Import Router.WindowFrame Router.Window Router.WindowStep Router.DataLogInv Router.DataLogStep
                           Router.ExactInv Router.ExactStep1 Router.ExactStep2 Router.ExactStep3 Router.ExactLogs
                           Router.ExactSweep Router.ExactThm.
From Rumqtt Require Import Router.TraceRun Router.TraceRunHeld Router.TraceRunInv.
From Rumqtt Require Import Router.Model Router.RunDefs.
From Coq Require Import List ZifyBool ZifyN ZifyNat.
Import ListNotations.

Lemma wpd_ok_inv {A} (x : R A) Q a : wpd x Q -> x = Ok a -> Q a.
Proof. intros H ->. exact H. Qed.

Lemma keep_LinkInv st st' : keep st' = keep st -> LinkInv st -> LinkInv st'.
Proof.
  intros K. apply obs_sub_LinkInv; [apply obs_sub_eq; now apply keep_obufs|]. rewrite (keep_links _ _ K). lia.
Qed.

(** side invariants carried along a batch *)
Record Side (cfg : config) (st : rstate) (id : N) : Prop := {
  sd_rinv : RInvC cfg st;
  sd_dev : DevEI st;
  sd_cinv : CInv st;
  sd_link : LinkInv st;
  sd_occ : occ (lives st) id
}.

Lemma di_frame_keep st st' e e' tr :
  CInv st -> LocalsOk (r_datalog st) e -> hsub st st' e e' -> keep st' = keep st ->
  dl_le (r_datalog st) (r_datalog st') -> DI st e tr -> DI st' e' tr.
Proof.
  intros HI HL HS K L. apply di_frame; try assumption.
  - apply obs_sub_eq. now apply keep_obufs.
  - rewrite (keep_links _ _ K). lia.
Qed.

(* ------------------------------------------------------------------ SUBSCRIBE *)
Lemma subscribe_filters_di cfg id subid : forall fs st fl codes st' fl' codes' evs tr,
  Side cfg st id -> Forall (fun fq : str * N => snd fq <= 2) fs -> DI st [] tr ->
  subscribe_filters_d st id fs subid fl codes = Ok (st', fl', codes', evs) ->
  DI st' [] (tr ++ evs).
Proof.
  induction fs as [|[path qos] r IH]; intros st fl codes st' fl' codes' evs tr HS Hq HDI H;
    cbn [subscribe_filters_d] in H.
  { inv_ok. now rewrite app_nil_r. }
  inversion Hq as [|? ? Hq1 Hq']; subst. cbn [snd] in Hq1.
  destruct (negb (validate_subscription path)); [inv_ok; now rewrite app_nil_r|].
  destruct (extract_group path) as [[g p]|] eqn:Eg.
  - (* shared: no marker *)
    destruct (match subid with Some 0 => true | _ => false end); [inv_ok; now rewrite app_nil_r|].
    apply bind_ok in H as ([[st1 idx] cu] & H1 & H). apply bind_ok in H as (st2 & H2 & H).
    apply bind_ok in H as ([[[st3 fl3] codes3] evs3] & H3 & H). inv_ok.
    destruct HS as [HI HD HC HL Ho].
    destruct (wp_ok_inv _ _ _ _ (next_native_offset_spec cfg st p HI) H1) as (HI1 & F1 & Hidx). cbn [fst snd] in *.
    pose proof (wpd_ok_inv _ _ _ (next_native_offset_dev cfg st p [] HI) H1) as D1. cbn [fst] in D1.
    destruct (next_native_offset_cinv _ _ _ _ _ HC H1) as (HC1 & L1 & Hcu & Hf).
    assert (Ho1 : occ (lives st1) id) by (eapply ext_occ; [apply fr_ext; exact F1|exact Ho]).
    assert (HD1 : DevEI st1) by (eapply dfr_DevE; eauto).
    assert (HL1 : LinkInv st1) by (eapply keep_LinkInv; [eapply next_native_offset_keep; exact H1|exact HL]).
    assert (HDI1 : DI st1 [] tr).
    { eapply di_frame_keep; [exact HC|constructor|eapply next_native_offset_hsub; exact H1
                            |eapply next_native_offset_keep; exact H1|exact L1|exact HDI]. }
    destruct (next_native_offset_end _ _ _ _ _ HC H1) as (d0 & all & Hd0 & W0 & Ecu & Hiss0 & Hst0).
    assert (HDI2 : DI st2 [] tr).
    { rewrite <- (app_nil_r tr). change (@nil dev) with (pf_ghost st1 id cu idx path (Some g)).
      eapply prepare_filter_di; try eassumption. rewrite Ecu. cbn [snd]. symmetry. apply (wf_end_of pubdata_size _ _ W0). }
    destruct (wp_ok_inv _ _ _ _ (prepare_filter_spec cfg st1 id cu idx path qos (Some g) subid HI1 Ho1 Hidx Hq1) H2) as (HI2 & E2 & N2).
    pose proof (wpd_ok_inv _ _ _ (prepare_filter_loc cfg st1 id cu idx path qos (Some g) subid HI1 HD1 Ho1 Hidx Hq1) H2) as HD2.
    assert (HC2 : CInv st2).
    { eapply prepare_filter_cinv; [exact HC1|exact Hcu| |exact H2].
      intros g0 E0. inversion E0; subst g0. destruct (extract_group_split _ _ _ Eg) as [nm Hs]. eauto. }
    assert (HL2 : LinkInv st2) by (eapply keep_LinkInv; [eapply prepare_filter_keep; exact H2|exact HL1]).
    eapply IH; [|exact Hq'|exact HDI2|exact H3].
    constructor; try assumption. eapply ext_occ; eauto.
  - destruct (match subid with Some 0 => true | _ => false end); [inv_ok; now rewrite app_nil_r|].
    apply bind_ok in H as ([[st1 idx] cu] & H1 & H). apply bind_ok in H as (st2 & H2 & H).
    apply bind_ok in H as ([[[st3 fl3] codes3] evs3] & H3 & H). inv_ok.
    destruct HS as [HI HD HC HL Ho].
    destruct (wp_ok_inv _ _ _ _ (next_native_offset_spec cfg st path HI) H1) as (HI1 & F1 & Hidx). cbn [fst snd] in *.
    pose proof (wpd_ok_inv _ _ _ (next_native_offset_dev cfg st path [] HI) H1) as D1. cbn [fst] in D1.
    destruct (next_native_offset_cinv _ _ _ _ _ HC H1) as (HC1 & L1 & Hcu & Hf).
    assert (Ho1 : occ (lives st1) id) by (eapply ext_occ; [apply fr_ext; exact F1|exact Ho]).
    assert (HD1 : DevEI st1) by (eapply dfr_DevE; eauto).
    assert (HL1 : LinkInv st1) by (eapply keep_LinkInv; [eapply next_native_offset_keep; exact H1|exact HL]).
    assert (HDI1 : DI st1 [] tr).
    { eapply di_frame_keep; [exact HC|constructor|eapply next_native_offset_hsub; exact H1
                            |eapply next_native_offset_keep; exact H1|exact L1|exact HDI]. }
    destruct (next_native_offset_end _ _ _ _ _ HC H1) as (d0 & all & Hd0 & W0 & Ecu & Hiss0 & Hst0).
    assert (HDI2 : DI st2 [] (tr ++ pf_ghost st1 id cu idx path None)).
    { eapply prepare_filter_di; try eassumption. rewrite Ecu. cbn [snd]. symmetry. apply (wf_end_of pubdata_size _ _ W0). }
    destruct (wp_ok_inv _ _ _ _ (prepare_filter_spec cfg st1 id cu idx path qos None subid HI1 Ho1 Hidx Hq1) H2) as (HI2 & E2 & N2).
    pose proof (wpd_ok_inv _ _ _ (prepare_filter_loc cfg st1 id cu idx path qos None subid HI1 HD1 Ho1 Hidx Hq1) H2) as HD2.
    assert (HC2 : CInv st2).
    { eapply prepare_filter_cinv; [exact HC1|exact Hcu| |exact H2]. intros g0 E0. discriminate. }
    assert (HL2 : LinkInv st2) by (eapply keep_LinkInv; [eapply prepare_filter_keep; exact H2|exact HL1]).
    rewrite app_assoc. eapply IH; [|exact Hq'|exact HDI2|exact H3].
    constructor; try assumption. eapply ext_occ; eauto.
Qed.

(* ------------------------------------------------------------------ one packet, the batch *)
Lemma handle_packet_d_ok st id client pk fl st' fl' brk evs :
  handle_packet_d st id client pk fl = Ok (st', fl', brk, evs) ->
  handle_packet st id client pk fl = Ok (st', fl', brk).
Proof. intros H. rewrite <- handle_packet_erase, H. reflexivity. Qed.

Lemma handle_packet_side cfg st id client pk fl st' fl' brk :
  Side cfg st id -> packet_wf pk -> handle_packet st id client pk fl = Ok (st', fl', brk) -> Side cfg st' id.
Proof.
  intros [HI HD HC HL Ho] Hpk H.
  destruct (wp_ok_inv _ _ _ _ (handle_packet_spec cfg st id client pk fl HI Ho Hpk) H) as (HI1 & E1 & _). cbn [fst snd] in *.
  pose proof (wpd_ok_inv _ _ _ (handle_packet_loc cfg st id client pk fl HI HD Ho Hpk) H) as HD1. cbn [fst] in HD1.
  destruct (handle_packet_cinv _ _ _ _ _ _ _ _ HC H) as [HC1 _].
  destruct (handle_packet_obs _ _ _ _ _ _ _ _ H) as [A L].
  constructor; try assumption.
  - eapply obs_sub_LinkInv; [eapply obs_at_sub; exact A|rewrite L; lia|exact HL].
  - eapply ext_occ; eauto.
Qed.

Lemma handle_packet_di cfg st id client pk fl st' fl' brk evs tr :
  Side cfg st id -> packet_wf pk -> DI st [] tr ->
  handle_packet_d st id client pk fl = Ok (st', fl', brk, evs) -> DI st' [] (tr ++ evs).
Proof.
  intros HS Hpk HDI H.
  assert (Hgen : not_subscribe pk -> evs = [] /\ DI st' [] tr).
  { intros Hns. pose proof (handle_packet_d_ok _ _ _ _ _ _ _ _ _ H) as H'.
    assert (E : evs = []).
    { destruct pk; cbn [not_subscribe] in Hns; try contradiction; unfold handle_packet_d in H;
        apply bind_ok in H as ([[s1 f1] b1] & _ & H); now inv_ok. }
    split; [exact E|]. destruct HS as [HI HD HC HL Ho].
    destruct (handle_packet_cinv _ _ _ _ _ _ _ _ HC H') as [_ L].
    destruct (handle_packet_obs _ _ _ _ _ _ _ _ H') as [A EL].
    eapply di_frame; [exact HC|constructor|eapply handle_packet_hsub; eassumption
                     |eapply obs_at_sub; exact A|exact L|rewrite EL; lia|exact HDI]. }
  destruct pk as [p props | pkid fs subid | pkid fs | pkid | pkid | pkid hp | pkid | | |];
    try (destruct (Hgen I) as [-> HD']; now rewrite app_nil_r).
  clear Hgen. unfold handle_packet_d in H.
  apply bind_ok in H as ([[[st1 fl1] codes] evs1] & H1 & H). apply bind_ok in H as (st2 & H2 & H). inv_ok.
  pose proof (subscribe_filters_di cfg id subid _ _ _ _ _ _ _ _ _ HS Hpk HDI H1) as HDI1.
  assert (H1' : subscribe_filters st id fs subid fl [] = Ok (st1, fl1, codes)).
  { rewrite <- subscribe_filters_erase, H1. reflexivity. }
  destruct HS as [HI HD HC HL Ho]. destruct (subscribe_filters_cinv _ _ _ _ _ _ _ _ _ HC H1') as [HC1 _].
  pose proof (commit_ack_spec _ _ _ _ H2) as (l & _ & E2).
  eapply di_frame_same; [eapply commit_ack_hsub; exact H2| | | |exact HDI1]; rewrite E2; reflexivity.
Qed.

Lemma handle_packets_di cfg id client : forall pks st fl st' fl' evs tr,
  Side cfg st id -> Forall packet_wf pks -> DI st [] tr ->
  handle_packets_d st id client pks fl = Ok (st', fl', evs) -> DI st' [] (tr ++ evs).
Proof.
  induction pks as [|pk r IH]; intros st fl st' fl' evs tr HS Hp HDI H; cbn [handle_packets_d] in H.
  { inv_ok. now rewrite app_nil_r. }
  inversion Hp as [|? ? Hp1 Hp']; subst.
  apply bind_ok in H as ([[[st1 fl1] brk] evs1] & H1 & H).
  pose proof (handle_packet_di cfg _ _ _ _ _ _ _ _ _ _ HS Hp1 HDI H1) as HDI1.
  destruct brk; [now inv_ok|].
  apply bind_ok in H as ([[st2 fl2] evs2] & H2 & H). inv_ok. rewrite app_assoc.
  eapply IH; [|exact Hp'|exact HDI1|exact H2].
  eapply handle_packet_side; [exact HS|exact Hp1|eapply handle_packet_d_ok; exact H1].
Qed.

Lemma handle_packets_d_ok id client : forall pks st fl st' fl' evs,
  handle_packets_d st id client pks fl = Ok (st', fl', evs) -> handle_packets st id client pks fl = Ok (st', fl').
Proof. intros pks st fl st' fl' evs H. rewrite <- handle_packets_erase, H. reflexivity. Qed.

(* ------------------------------------------------------------------ a connection is removed *)
Lemma disc_ghost_ends st id st' : forallb (fun ev : dev => is_end (snd ev)) (disc_ghost st id st') = true.
Proof.
  unfold disc_ghost. destruct (slab_get (r_obufs st) id); [|reflexivity]. destruct (slab_get (r_trackers st) id); [|reflexivity].
  destruct (slab_get (r_conns st) id) as [c|]; [|reflexivity]. destruct (c_clean c); [reflexivity|].
  destruct (al_get str_eqb (tr_id t) (r_graveyard st')) as [[ss|]|]; try reflexivity.
  apply forallb_forall. intros x Hx. apply in_map_iff in Hx as (rq & <- & _). reflexivity.
Qed.

Lemma handle_disconnection_di st id reason st' tr :
  CInv st -> LinkInv st -> DI st [] tr ->
  handle_disconnection st id reason = Ok st' -> DI st' [] (tr ++ disc_ghost st id st').
Proof.
  intros HC HL HDI H.
  destruct (handle_disconnection_cinv _ _ _ _ HC H) as [HC' L1].
  destruct (handle_disconnection_obs _ _ _ _ H) as (A & _ & EL & _).
  assert (HDI' : DI st' [] tr).
  { eapply di_frame; [exact HC|constructor|eapply handle_disconnection_hsub; exact H
                     |eapply obs_at_sub; exact A|exact L1|lia|exact HDI]. }
  apply di_add_ends; [apply disc_ghost_ends| |exact HDI'].
  intros id0 k f i a Hin. unfold disc_ghost in Hin.
  destruct (slab_get (r_obufs st) id) as [o|] eqn:Ho; [|destruct Hin].
  destruct (slab_get (r_trackers st) id) as [t|]; [|destruct Hin].
  destruct (slab_get (r_conns st) id) as [c|]; [|destruct Hin]. destruct (c_clean c); [destruct Hin|].
  destruct (al_get str_eqb (tr_id t) (r_graveyard st')) as [[ss|]|] eqn:Eg; try destruct Hin.
  apply in_map_iff in Hin as (rq & E & Hrq). inversion E; subst. apply filter_In in Hrq as [Hrq _].
  split; [rewrite EL; apply (proj1 HL _ _ Ho)|]. split.
  - apply al_get_In in Eg. destruct HC' as [_ CI']. pose proof (ci_grave _ _ CI') as F. rewrite Forall_forall in F.
    specialize (F _ Eg). unfold SessOk in F. cbn [snd] in F. rewrite Forall_forall in F.
    destruct (F _ Hrq) as [(d & Hd & _ & He) _]. exists d. split; [exact Hd|]. cbn [nxt]. exact He.
  - intros c0 o0 Ho0 Hl0. destruct (handle_disconnection_frame _ _ _ _ _ H Ho) as (FO & _).
    rewrite FO in Ho0. destruct (N.eqb_spec c0 id0) as [-> | Hne]; [discriminate|].
    exfalso. apply Hne. eapply (proj2 HL); eassumption.
Qed.

(* ------------------------------------------------------------------ the DeviceData event *)
Lemma handle_device_payload_di cfg st id st' evs tr :
  RInvC cfg st -> r_notif st = [] -> DevEI st -> CInv st -> LinkInv st -> DI st [] tr ->
  handle_device_payload_d st id = Ok (st', evs) -> DI st' [] (tr ++ evs).
Proof.
  intros HI Hn HD HC HL HDI H. unfold handle_device_payload_d in H.
  destruct (slab_get (r_ibufs st) id) as [inc|] eqn:Hi; [|inv_ok; now rewrite app_nil_r].
  destruct (RInv_ibuf_live _ _ _ _ HI Hi) as [c Hc].
  assert (Ho : occ (lives st) id) by (eapply get_occ; eauto).
  pose proof (ri_ilink _ _ HI _ _ Hi) as Hl. destruct (nthN_lt _ _ Hl) as [b Hb].
  unfold link_get in H. rewrite Hb in H. cbn [bind] in H.
  set (st0 := link_put st (i_link inc) (set_lk_in b [])) in *.
  assert (HI0 : RInvC cfg st0) by (apply RInv_link_put; [exact HI|constructor]).
  assert (HD0 : DevEI st0) by (eapply dfr_DevE; [exact HD|dfr_triv]).
  assert (HC0 : CInv st0) by (eapply cinv_view; [|exact HC]; reflexivity).
  assert (HL0 : LinkInv st0).
  { apply (obs_sub_LinkInv st st0); [apply obs_sub_eq; reflexivity| |exact HL]. unfold st0. rsimpl. rewrite lenN_setN. lia. }
  assert (HDI0 : DI st0 [] tr).
  { destruct HDI as [D1 D2 D3 D4 D5 D6 D7]. constructor; try assumption.
    intros id0 k f i a Hin. specialize (D1 _ _ _ _ _ Hin). unfold st0. rsimpl. now rewrite lenN_setN. }
  assert (Hpk : Forall packet_wf (lk_in b)).
  { exact (Forall_nthN (fun b => Forall packet_wf (lk_in b)) _ _ _ (ri_pkts _ _ HI) Hb). }
  apply bind_ok in H as ([[st1 fl] evs1] & H1 & H).
  apply bind_ok in H as (st2 & H2 & H). apply bind_ok in H as (st3 & H3 & H). apply bind_ok in H as (st4 & H4 & H). inv_ok.
  assert (HS0 : Side cfg st0 id) by (constructor; assumption).
  pose proof (handle_packets_di cfg id _ _ _ _ _ _ _ _ HS0 Hpk HDI0 H1) as HDI1.
  pose proof (handle_packets_d_ok _ _ _ _ _ _ _ _ H1) as H1'.
  destruct (handle_packets_cinv _ _ _ _ _ _ _ HC0 H1') as [HC1 _].
  (* reschedule *)
  assert (X2 : CInv st2 /\ DI st2 [] (tr ++ evs1)).
  { destruct (f_force_ack fl); [|inv_ok; auto].
    split; [eapply reschedule_cinv; eassumption|].
    eapply di_frame_keep; [exact HC1|constructor|eapply reschedule_hsub; exact H2|eapply reschedule_keep; exact H2| |exact HDI1].
    rewrite (reschedule_dl _ _ _ _ H2). apply dl_le_refl. }
  destruct X2 as [HC2 HDI2].
  assert (X3 : CInv st3 /\ DI st3 [] (tr ++ evs1)).
  { destruct (f_new_data fl); [|inv_ok; auto].
    split; [eapply drain_notifications_cinv; eassumption|].
    eapply di_frame_keep; [exact HC2|constructor|eapply drain_notifications_hsub; exact H3
                          |eapply drain_notifications_keep; exact H3| |exact HDI2].
    rewrite (drain_notifications_dl _ _ H3). apply dl_le_refl. }
  destruct X3 as [HC3 HDI3].
  destruct (f_disconnect fl); [|inv_ok; rewrite app_nil_r; exact HDI3].
  rewrite app_assoc. eapply handle_disconnection_di; [exact HC3| |exact HDI3|exact H4].
  (* LinkInv at st3 *)
  destruct (handle_packets_obs _ _ _ _ _ _ _ H1') as [A1 EL1].
  assert (HL1 : LinkInv st1) by (apply (obs_sub_LinkInv st0 st1); [eapply obs_at_sub; exact A1|rewrite EL1; lia|exact HL0]).
  assert (HL2 : LinkInv st2).
  { destruct (f_force_ack fl); [|inv_ok; exact HL1]. eapply keep_LinkInv; [eapply reschedule_keep; exact H2|exact HL1]. }
  destruct (f_new_data fl); [|inv_ok; exact HL2]. eapply keep_LinkInv; [eapply drain_notifications_keep; exact H3|exact HL2].
Qed.
