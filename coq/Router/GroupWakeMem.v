(** C17, completeness clause — part 3: who the members of a group are ([MemInv]).

    [MemInv st]:
    - [mi_req]: every data request a LIVE connection holds anywhere (tracker, waiter lists,
      notifications) has the [shape] of the request SUBSCRIBE creates ([dr_group] is the group
      key of its subscription filter "$share/<key>", or [None] for an ordinary filter), and, if
      it is a shared request, the group of that key is registered and the connection's client
      id is one of its members — in particular no shared request is ever an orphan served as an
      ordinary subscription;
    - [mi_grave]: the requests of a saved session have that shape, too;
    - [mi_sub]: every member of a registered group is the client id of a live connection that
      is subscribed to "$share/<key>" (hence, by [request_location], holds exactly one request
      for it — which is a shared request of that group by [mi_req]).

    This file: definitions, the frame [mfr] ("no request appears from nowhere, nobody changes
    client id, group memberships, subscription sets and saved sessions are untouched") and the
    primitive state updates. *)
From Rumqtt Require Import Router.NoPanicLog.
From Rumqtt Require Import Router.Model Router.InvLemmasBase Router.Inv Router.InvLemmasPrim Router.InvLemmasSched
  Router.InvLemmasDl Router.NoPanic Router.NoPanicDevBase Router.NoPanicDevInv.
From Rumqtt Require Import Router.WindowFrame Router.DataLogInv Router.DataLogStep Router.ExactInv Router.ExactStep1 Router.RetainedBase Router.Wake Router.WakeConsume Router.WakePark.
From Rumqtt Require Import Router.Model Router.RunDefs.
From Coq Require Import List Arith ZifyBool ZifyN ZifyNat.
Import ListNotations.

(* ------------------------------------------------------------------ definitions *)
Definition gkey_of (f : str) : option str :=
  match extract_group f with Some (g, _) => Some g | None => None end.
Definition shape (rq : drequest) : Prop := dr_group rq = gkey_of (dr_filter rq).
Definition gpath (name : str) : str := S_SHARE_SLASH ++ name.

Definition cli (st : rstate) (id : N) : option str := option_map o_client (slab_get (r_obufs st) id).
Definition mems (st : rstate) (name : str) : option (list str) :=
  option_map g_clients (al_get str_eqb name (r_groups st)).
Definition gmem (st : rstate) (name c : str) : Prop := exists l, mems st name = Some l /\ In c l.
Definition wreq (st : rstate) (id : N) (rq : drequest) : Prop :=
  exists i d, nget (r_datalog st) i = Some d /\ In (id, rq) (d_waiters d).
Definition HasReq (st : rstate) (id : N) (rq : drequest) : Prop :=
  In rq (treqs st id) \/ wreq st id rq \/ In (id, rq) (r_notif st).
Definition Good (st : rstate) (id : N) (rq : drequest) : Prop :=
  shape rq /\ forall name, dr_group rq = Some name -> exists c, cli st id = Some c /\ gmem st name c.
Definition sess_shape (cs : str * option session) : Prop :=
  match snd cs with Some ss => Forall shape (tr_reqs (ss_tracker ss)) | None => True end.

(** [c] is the client id of a live connection subscribed to "$share/" ++ [name] *)
Definition SubOk (st : rstate) (name c : str) : Prop :=
  gkey_of (gpath name) = Some name /\
  exists id subs, cli st id = Some c /\ subs_of st id = Some subs /\ set_mem str_eqb (gpath name) subs = true.

Record MemInv (st : rstate) : Prop := {
  mi_req : forall id rq, HasReq st id rq -> Good st id rq;
  mi_grave : Forall sess_shape (r_graveyard st);
  mi_sub : forall name c, gmem st name c -> SubOk st name c;
  mi_gk : NoDup (map fst (r_groups st))
}.

(* ------------------------------------------------------------------ group keys and paths *)
Lemma strip_prefix_app pre s : strip_prefix pre (pre ++ s) = Some s.
Proof. induction pre as [| a p IH]; cbn [strip_prefix app]; [reflexivity |]. now rewrite N.eqb_refl. Qed.

Lemma strip_prefix_inv pre : forall s r, strip_prefix pre s = Some r -> s = pre ++ r.
Proof.
  induction pre as [| a p IH]; intros s r H; cbn [strip_prefix] in H; [now inversion H |].
  destruct s as [| b s']; [discriminate |]. destruct (N.eqb_spec a b) as [-> | _]; [| discriminate].
  cbn [app]. f_equal. now apply IH.
Qed.

(** the subscription filter of group key [g] is "$share/" ++ g *)
Lemma extract_group_path f g p : extract_group f = Some (g, p) -> f = gpath g.
Proof.
  unfold extract_group, gpath. destruct (strip_prefix S_SHARE_SLASH f) as [s |] eqn:E; [| discriminate].
  destruct (split_once_slash s) as [[nm p0] |]; [| discriminate]. intros H. inversion H; subst. now apply strip_prefix_inv.
Qed.

Lemma gkey_of_path f g : gkey_of f = Some g -> f = gpath g.
Proof. unfold gkey_of. destruct (extract_group f) as [[g0 p] |] eqn:E; [| discriminate]. intros H. inversion H; subst. eapply extract_group_path; eauto. Qed.

Lemma gkey_of_gpath g nm p : split_once_slash g = Some (nm, p) -> gkey_of (gpath g) = Some g.
Proof. intros H. unfold gkey_of, extract_group, gpath. now rewrite strip_prefix_app, H. Qed.

Lemma shape_fields rq rq' : dr_filter rq' = dr_filter rq -> dr_group rq' = dr_group rq -> shape rq -> shape rq'.
Proof. unfold shape. now intros -> ->. Qed.

Lemma shape_set_cursor rq cu : shape rq -> shape (set_dr_cursor rq cu).
Proof. apply shape_fields; reflexivity. Qed.

(** a shaped request of group [g] is the request of the subscription "$share/" ++ g *)
Lemma shape_filter rq g : shape rq -> dr_group rq = Some g -> dr_filter rq = gpath g.
Proof. unfold shape. intros -> H. now apply gkey_of_path. Qed.

(* ------------------------------------------------------------------ the frame *)
Record mfr (e : list (N * drequest)) (st st' : rstate) : Prop := {
  mf_req : forall id rq, HasReq st' id rq -> HasReq st id rq \/ In (id, rq) e;
  mf_cli : forall id, cli st' id = cli st id;
  mf_mem : forall name, mems st' name = mems st name;
  mf_sub : forall id, subs_of st' id = subs_of st id;
  mf_grave : r_graveyard st' = r_graveyard st;
  mf_keys : map fst (r_groups st') = map fst (r_groups st)
}.

Lemma mfr_refl st : mfr [] st st.
Proof. constructor; auto. Qed.

Lemma mfr_weaken e e' st st' : incl e e' -> mfr e st st' -> mfr e' st st'.
Proof. intros I [A B C D E K]. constructor; auto. intros id rq H. destruct (A id rq H); auto. Qed.

Lemma mfr_trans e1 e2 a b c : mfr e1 a b -> mfr e2 b c -> mfr (e1 ++ e2) a c.
Proof.
  intros [A1 B1 C1 D1 E1 K1] [A2 B2 C2 D2 E2 K2]. constructor.
  - intros id rq H. destruct (A2 id rq H) as [H2 | H2]; [| right; apply in_or_app; now right].
    destruct (A1 id rq H2); [now left | right; apply in_or_app; now left].
  - intros id. now rewrite B2.
  - intros name. now rewrite C2.
  - intros id. now rewrite D2.
  - congruence.
  - congruence.
Qed.

Lemma mfr_trans0 a b c : mfr [] a b -> mfr [] b c -> mfr [] a c.
Proof. intros H1 H2. exact (mfr_trans [] [] _ _ _ H1 H2). Qed.

Lemma mfr_trans_l e a b c : mfr [] a b -> mfr e b c -> mfr e a c.
Proof. intros H1 H2. exact (mfr_trans [] e _ _ _ H1 H2). Qed.

Lemma mfr_trans_r e a b c : mfr e a b -> mfr [] b c -> mfr e a c.
Proof. intros H1 H2. pose proof (mfr_trans e [] _ _ _ H1 H2) as H. now rewrite app_nil_r in H. Qed.

Lemma gmem_mems st st' name c : mems st' name = mems st name -> gmem st name c -> gmem st' name c.
Proof. unfold gmem. now intros ->. Qed.

Lemma Good_mfr e st st' id rq : mfr e st st' -> Good st id rq -> Good st' id rq.
Proof.
  intros [_ B C _ _ _] [S M]. split; [exact S |]. intros name Hn. destruct (M name Hn) as (c & Hc & Hg).
  exists c. rewrite B. split; [exact Hc |]. eapply gmem_mems; eauto.
Qed.

Lemma MemInv_mfr e st st' :
  MemInv st -> mfr e st st' -> (forall id rq, In (id, rq) e -> Good st id rq) -> MemInv st'.
Proof.
  intros [R G S N] F He. pose proof F as [A B C D E KK]. constructor.
  - intros id rq H. eapply Good_mfr; [exact F |]. destruct (A id rq H); auto.
  - now rewrite E.
  - intros name c Hg. destruct (S name c) as (K & id & subs & H1 & H2 & H3).
    { eapply gmem_mems; [| exact Hg]. now rewrite C. }
    split; [exact K |]. exists id, subs. rewrite B, D. auto.
  - now rewrite KK.
Qed.

Lemma MemInv_mfr0 st st' : MemInv st -> mfr [] st st' -> MemInv st'.
Proof. intros H F. eapply MemInv_mfr; eauto. intros id rq []. Qed.

(* ------------------------------------------------------------------ building frames *)
(** the components [MemInv] reads *)
Definition mview (st : rstate) :=
  (r_trackers st, dl_native (r_datalog st), r_notif st, r_obufs st, r_groups st, r_graveyard st, r_conns st).

Lemma wreq_native st st' id rq :
  dl_native (r_datalog st') = dl_native (r_datalog st) -> wreq st' id rq -> wreq st id rq.
Proof. intros E (i & d & Hd & Hin). exists i, d. unfold nget in *. now rewrite <- E. Qed.

Lemma mfr_view st st' : mview st' = mview st -> mfr [] st st'.
Proof.
  unfold mview. intros E. inversion E as [[E1 E2 E3 E4 E5 E6 E7]]. constructor.
  - intros id rq [H | [H | H]]; left.
    + left. unfold treqs in *. now rewrite <- E1.
    + right. left. eapply wreq_native; eauto.
    + right. right. now rewrite <- E3.
  - intros id. unfold cli. now rewrite E4.
  - intros name. unfold mems. now rewrite E5.
  - intros id. unfold subs_of. now rewrite E7.
  - exact E6.
  - now rewrite E5.
Qed.

(** only the requests change *)
Lemma mfr_reqs e st st' :
  (forall id rq, HasReq st' id rq -> HasReq st id rq \/ In (id, rq) e) ->
  r_obufs st' = r_obufs st -> r_groups st' = r_groups st -> r_conns st' = r_conns st ->
  r_graveyard st' = r_graveyard st -> mfr e st st'.
Proof.
  intros A B C D E. constructor; [exact A | | | | exact E |].
  - intros id. unfold cli. now rewrite B.
  - intros name. unfold mems. now rewrite C.
  - intros id. unfold subs_of. now rewrite D.
  - now rewrite C.
Qed.

Lemma HasReq_put_tracker st id t t' id' rq :
  slab_get (r_trackers st) id = Some t -> HasReq (put_tracker st id t') id' rq ->
  (id' = id /\ In rq (tr_reqs t')) \/ HasReq st id' rq.
Proof.
  intros Ht [H | [H | H]].
  - rewrite (treqs_put _ _ _ _ _ Ht) in H. destruct (N.eqb_spec id' id) as [-> | Hne]; [left; auto | right; now left].
  - right. right. left. exact H.
  - right. right. right. exact H.
Qed.

Lemma mfr_put_tracker st id t t' extra :
  slab_get (r_trackers st) id = Some t -> incl (tr_reqs t') (tr_reqs t ++ extra) ->
  mfr (map (pair id) extra) st (put_tracker st id t').
Proof.
  intros Ht I. apply mfr_reqs; try reflexivity. intros id' rq H.
  destruct (HasReq_put_tracker _ _ _ _ _ _ Ht H) as [[-> Hin] | H']; [| now left].
  apply I in Hin. apply in_app_or in Hin as [Hin | Hin].
  - left. left. unfold treqs. now rewrite Ht.
  - right. now apply in_map.
Qed.

Lemma mfr_put_obuf st id o o' :
  slab_get (r_obufs st) id = Some o -> o_client o' = o_client o -> mfr [] st (put_obuf st id o').
Proof.
  intros Ho Ec. constructor; try reflexivity.
  - intros id' rq H. left. exact H.
  - intros id'. unfold cli, put_obuf. rsimpl. destruct (N.eq_dec id id') as [<- | Hne].
    + rewrite (slab_get_put_occ _ _ _ _ Ho), Ho. cbn [option_map]. now rewrite Ec.
    + now rewrite slab_get_put_other.
Qed.

Lemma mfr_put_conn st id c c' :
  slab_get (r_conns st) id = Some c -> c_subs c' = c_subs c -> mfr [] st (put_conn st id c').
Proof.
  intros Hc Es. constructor; try reflexivity.
  - intros id' rq H. left. exact H.
  - intros id'. unfold subs_of, put_conn. rsimpl. destruct (N.eq_dec id id') as [<- | Hne].
    + rewrite (slab_get_put_occ _ _ _ _ Hc), Hc. cbn [option_map]. now rewrite Es.
    + now rewrite slab_get_put_other.
Qed.

Lemma mfr_set_groups st gs :
  (forall name, option_map g_clients (al_get str_eqb name gs) = mems st name) ->
  map fst gs = map fst (r_groups st) -> mfr [] st (set_r_groups st gs).
Proof. intros Hm Hk. constructor; try reflexivity; [intros id rq H; now left | exact Hm | exact Hk]. Qed.

Lemma al_set_keys {V} k (v v' : V) m : al_get str_eqb k m = Some v -> map fst (al_set str_eqb k v' m) = map fst m.
Proof.
  induction m as [| [k1 v1] r IH]; cbn [al_get al_set map fst]; [discriminate |].
  destruct (str_eqb k k1); cbn [map fst]; [reflexivity |]. intros H. now rewrite IH.
Qed.

Lemma mfr_set_notif st v : incl v (r_notif st) -> mfr [] st (set_r_notif st v).
Proof.
  intros I. apply mfr_reqs; try reflexivity. intros id rq [H | [H | H]]; left; [now left | right; now left |].
  right. right. now apply I.
Qed.

(* ------------------------------------------------------------------ scheduler *)
Lemma reschedule_mfr st id why st' : reschedule st id why = Ok st' -> mfr [] st st'.
Proof.
  intros H. apply reschedule_explicit in H as (t & t' & woke & G & HT & ->).
  apply try_ready_cases in HT as (_ & ER & _).
  assert (F : mfr [] st (put_tracker st id t')).
  { apply (mfr_put_tracker st id t t' [] G). rewrite ER, app_nil_r. apply incl_refl. }
  destruct woke; [| exact F]. eapply mfr_trans0; [exact F |]. apply mfr_view. reflexivity.
Qed.

Lemma track_mfr st id rq st' : track st id rq = Ok st' -> mfr [(id, rq)] st st'.
Proof.
  unfold track, get_tracker. intros H. destruct (slab_get (r_trackers st) id) as [t |] eqn:G; [| discriminate].
  cbn [bind] in H. inv_ok. apply (mfr_put_tracker st id t _ [rq] G). apply incl_refl.
Qed.

Lemma trackv_mfr st id rqs st' : trackv st id rqs = Ok st' -> mfr (map (pair id) rqs) st st'.
Proof.
  unfold trackv, get_tracker. intros H. destruct (slab_get (r_trackers st) id) as [t |] eqn:G; [| discriminate].
  cbn [bind] in H. inv_ok. apply (mfr_put_tracker st id t _ rqs G). apply incl_refl.
Qed.

Lemma pause_mfr st id why st' : pause st id why = Ok st' -> mfr [] st st'.
Proof.
  intros H. apply pause_explicit in H as (init & t & _ & G & ->).
  eapply mfr_trans0; [apply (mfr_view st (set_r_ready st init)); reflexivity |].
  apply (mfr_put_tracker (set_r_ready st init) id t _ [] G). cbn [set_tr_status tr_reqs]. rewrite app_nil_r. apply incl_refl.
Qed.

Lemma commit_ack_mfr st id a st' : commit_ack st id a = Ok st' -> mfr [] st st'.
Proof. intros H. apply WindowFrame.commit_ack_spec in H as (l & _ & ->). apply mfr_view. reflexivity. Qed.

Lemma push_out_mfr st k ns st' n : push_out st k ns = Ok (st', n) -> mfr [] st st'.
Proof. intros H. apply push_out_fields in H. rewrite H. apply mfr_view. reflexivity. Qed.

(* ------------------------------------------------------------------ data log *)
Lemma park_mfr st id rq st' : park st id rq = Ok st' -> mfr [(id, rq)] st st'.
Proof.
  unfold park. intros H. apply bind_ok in H as (d & Hd & H). apply native_get_Some in Hd. inv_ok.
  apply mfr_reqs; try reflexivity. intros id' rq' [H | [(i & d2 & H2 & Hin) | H]]; [left; now left | | left; right; now right].
  unfold nget in H2. cbn [r_datalog set_r_datalog set_dl_native dl_native] in H2.
  apply slab_get_put_inv in H2. destruct H2 as [[-> ->] | [_ H2]].
  - cbn [set_d_waiters d_waiters] in Hin. apply in_app_or in Hin as [Hin | [Hin | []]].
    + left. right. left. exists (dr_idx rq), d. auto.
    + inversion Hin; subst. right. now left.
  - left. right. left. exists i, d2. auto.
Qed.

Lemma data_append_mfr st idx item st' : data_append st idx item = Ok st' -> mfr [] st st'.
Proof.
  unfold data_append. intros H. apply bind_ok in H as (d & Hd & H). apply native_get_Some in Hd.
  apply bind_ok in H as ([l' off] & _ & H). inv_ok.
  apply mfr_reqs; try reflexivity. intros id rq [H | [(i & d2 & H2 & Hin) | H]]; left; [now left | |].
  - unfold nget in H2. cbn [r_datalog set_r_datalog set_r_notif set_dl_native dl_native] in H2.
    apply slab_get_put_inv in H2. destruct H2 as [[-> ->] | [_ H2]]; [destruct Hin |].
    right. left. exists i, d2. auto.
  - cbn [r_notif set_r_notif] in H. apply in_app_or in H as [H | H]; [right; now right |].
    right. left. exists idx, d. auto.
Qed.

Lemma append_all_mfr item : forall idxs st st', append_all st idxs item = Ok st' -> mfr [] st st'.
Proof.
  induction idxs as [| i r IH]; intros st st' H; cbn [append_all] in H.
  - inv_ok. apply mfr_refl.
  - apply bind_ok in H as (st1 & H1 & H). eapply mfr_trans0; [eapply data_append_mfr; eauto | eapply IH; eauto].
Qed.

Lemma dl_matches_mfr st t st' v : dl_matches st t = Ok (st', v) -> mfr [] st st'.
Proof.
  intros H. unfold dl_matches in H.
  destruct (al_get str_eqb t (dl_pfilters (r_datalog st))); [inv_ok; apply mfr_refl |].
  apply bind_ok in H as (base & _ & H). apply bind_ok in H as ([v1 orc] & _ & H). inv_ok.
  destruct v; apply mfr_view; reflexivity.
Qed.

Lemma retain_update_mfr st t p pr : mfr [] st (retain_update st t p pr).
Proof. unfold retain_update. destruct (p_retain p); [destruct (p_payload p) |]; apply mfr_view; reflexivity. Qed.

Lemma next_native_offset_mfr st f st' idx cu : next_native_offset st f = Ok (st', idx, cu) -> mfr [] st st'.
Proof.
  intros H. unfold next_native_offset in H.
  destruct (al_get str_eqb f (dl_findex (r_datalog st))) as [i |] eqn:Ef.
  - apply bind_ok in H as (d & Hd & H). apply bind_ok in H as (c & Hc & H). inv_ok. apply mfr_refl.
  - apply bind_ok in H as (d & Hd & H). destruct (data_new_wf _ _ _ Hd) as (W & Hw & _).
    destruct (slab_insert (dl_native (r_datalog st)) d) as [native' k] eqn:Ei.
    apply bind_ok in H as (pf & Hpf & H). apply bind_ok in H as (c & Hc & H). inv_ok.
    apply mfr_reqs; try reflexivity. intros id rq [H | [(j & d' & G' & Hin) | H]]; left; [now left | | right; now right].
    unfold nget in G'. cbn [r_datalog set_r_datalog dl_native] in G'.
    apply (slab_insert_inv _ _ _ _ _ _ Ei) in G' as [[-> ->] | [_ G']]; [rewrite Hw in Hin; destruct Hin |].
    right. left. exists j, d'. auto.
Qed.

(** waiter lists shrink, nothing else changes *)
Lemma wreq_isub st st' id rq :
  isub (sl_items (dl_native (r_datalog st))) (sl_items (dl_native (r_datalog st'))) -> wreq st' id rq -> wreq st id rq.
Proof.
  intros S (i & d' & G & Hin). unfold nget, slab_get in G.
  destruct (nthN (sl_items (dl_native (r_datalog st'))) i) as [[d0 |] |] eqn:E; try discriminate. inversion G; subst d0.
  destruct (S _ _ E) as (d & Gd & _ & I). exists i, d. split; [unfold nget, slab_get; now rewrite Gd | now apply I].
Qed.

Lemma remove_waiters_mfr st id f st' : remove_waiters_for_id st id f = Ok st' -> mfr [] st st'.
Proof.
  unfold remove_waiters_for_id. intros H. inv_ok. apply mfr_reqs; try reflexivity.
  intros id' rq [H | [H | H]]; left; [now left | | right; now right]. right. left.
  eapply wreq_isub; [| exact H]. cbn [r_datalog set_r_datalog set_dl_native dl_native sl_items]. apply remove_waiter_items_isub.
Qed.
