(** C08 at the level of whole runs — the clean_session flag of a connection record is the flag of
    the Connect that created it, for as long as the connection lives on its link: no function of
    the router changes [c_clean] of a connection record or [o_link] of its Outgoing; a Connect
    inserts both under one key; a removal vacates the key ([clean_step]). *)
From Rumqtt Require Export Router.SessionIds.
From Rumqtt Require Import Router.RetainedReplay.
From Coq Require Import ZifyBool ZifyN ZifyNat.

Definition clv (st : rstate) (id : N) : option N * option bool :=
  (option_map o_link (slab_get (r_obufs st) id), option_map c_clean (slab_get (r_conns st) id)).

Definition Kcl (st st' : rstate) : Prop := forall id, clv st' id = clv st id.

Lemma Keq_Kcl a b : Keq a b -> Kcl a b.
Proof. unfold Keq, Kcl, clv. intros (_ & -> & -> & _) id. reflexivity. Qed.
Lemma Kcl_refl a : Kcl a a.
Proof. intros id. reflexivity. Qed.
Lemma Kcl_trans a b c : Kcl a b -> Kcl b c -> Kcl a c.
Proof. intros H1 H2 id. now rewrite H2, H1. Qed.

Class FrameC {A} (x : R A) (P : A -> Prop) : Prop := frameC_pf : forall a, x = Ok a -> P a.
Ltac frames_c :=
  repeat match goal with
  | E : ?x = Ok ?a |- _ =>
      let F := fresh "F" in
      pose proof (frameC_pf (x := x) a E) as F; cbn beta iota delta [fst snd] in F;
      change (used (x = Ok a)) in E
  end.

Ltac kcl :=
  split_hyps; unfold Kcl, Keq in *; split_goal; rsimpl_all; unfold clv in *; rsimpl_all;
  repeat match goal with H : _ /\ _ |- _ => destruct H end;
  norm_slabs;
  try congruence;
  let j := fresh "j" in intros j;
  repeat match goal with H : forall id : N, _ |- _ => specialize (H j) end;
  repeat match goal with
    | H : context [slab_get (slab_put _ _ _) _] |- _ =>
        erewrite omap_get_put in H; [ | eassumption | cbn; congruence ]
    | |- context [slab_get (slab_put _ _ _) _] =>
        erewrite omap_get_put; [ | eassumption | cbn; congruence ]
    end;
  try congruence.

(** the functions that keep the three slabs as they are *)
Global Instance fc_push_out st k ns : FrameC (push_out st k ns) (fun r => Keq st (fst r)).
Proof. exact (fi_push_out st k ns). Qed.
Global Instance fc_commit_ack st id a : FrameC (commit_ack st id a) (fun st' => Keq st st').
Proof. exact (fi_commit_ack st id a). Qed.
Global Instance fc_dl_matches st t : FrameC (dl_matches st t) (fun r => Keq st (fst r)).
Proof. exact (fi_dl_matches st t). Qed.
Global Instance fc_read_retained st f : FrameC (read_retained st f) (fun r => Keq st (fst r)).
Proof. exact (fi_read_retained st f). Qed.
Global Instance fc_update_next_client st g : FrameC (update_next_client st g) (fun r => Keq st (fst r)).
Proof. exact (fi_update_next_client st g). Qed.
Global Instance fc_park st id rq : FrameC (park st id rq) (fun st' => Keq st st').
Proof. exact (fi_park st id rq). Qed.
Global Instance fc_remove_waiters_for_id st id f : FrameC (remove_waiters_for_id st id f) (fun st' => Keq st st').
Proof. exact (fi_remove_waiters_for_id st id f). Qed.
Global Instance fc_data_append st idx item : FrameC (data_append st idx item) (fun st' => Keq st st').
Proof. exact (fi_data_append st idx item). Qed.
Global Instance fc_append_all idxs item st : FrameC (append_all st idxs item) (fun st' => Keq st st').
Proof. exact (fi_append_all idxs item st). Qed.
Global Instance fc_next_native_offset st f : FrameC (next_native_offset st f) (fun r => Keq st (fst (fst r))).
Proof. exact (fi_next_native_offset st f). Qed.

(** the others *)
Global Instance fc_reschedule st id why : FrameC (reschedule st id why) (fun st' => Kcl st st').
Proof. intros a H. unfold reschedule in H. unget. kcl. Qed.
Global Instance fc_track st id rq : FrameC (track st id rq) (fun st' => Kcl st st').
Proof. intros a H. unfold track in H. unget. kcl. Qed.
Global Instance fc_trackv st id rqs : FrameC (trackv st id rqs) (fun st' => Kcl st st').
Proof. intros a H. unfold trackv in H. unget. kcl. Qed.
Global Instance fc_untrack st id f : FrameC (untrack st id f) (fun st' => Kcl st st').
Proof. intros a H. unfold untrack in H. unget. kcl. Qed.
Global Instance fc_pause st id why : FrameC (pause st id why) (fun st' => Kcl st st').
Proof. intros a H. unfold pause in H. unget. kcl. Qed.
Global Instance fc_wake_all ns : forall st, FrameC (wake_all st ns) (fun st' => Kcl st st').
Proof.
  induction ns as [| [id rq] r IH]; intros st a H; cbn [wake_all] in H.
  - okinv. kcl.
  - okinv. frames_c. kcl.
Qed.
Global Instance fc_drain_notifications st : FrameC (drain_notifications st) (fun st' => Kcl st st').
Proof. intros a H. unfold drain_notifications in H. frames_c. kcl. Qed.

Global Instance fc_append_to_commitlog st id p props :
  FrameC (append_to_commitlog st id p props) (fun r => Kcl st (fst r)).
Proof. intros a H. unfold append_to_commitlog, retain_update in H. unget; frames_c. all: kcl. Qed.
Global Instance fc_prepare_filter st id cu fidx path qos grp subid :
  FrameC (prepare_filter st id cu fidx path qos grp subid) (fun st' => Kcl st st').
Proof. intros a H. unfold prepare_filter in H. unget. all: frames_c. all: kcl. Qed.
Global Instance fc_subscribe_filters fs : forall st id subid fl codes,
  FrameC (subscribe_filters st id fs subid fl codes) (fun r => Kcl st (fst (fst r))).
Proof.
  induction fs as [| [path qos] r IH]; intros st id subid fl codes a H; cbn [subscribe_filters] in H.
  - okinv. kcl.
  - okinv. all: frames_c. all: kcl.
Qed.
Global Instance fc_unsubscribe_filters fs : forall st id client reasons,
  FrameC (unsubscribe_filters st id client fs reasons) (fun r => Kcl st (fst r)).
Proof.
  induction fs as [| f r IH]; intros st id client reasons a H; cbn [unsubscribe_filters] in H.
  - okinv. kcl.
  - unget. all: frames_c. all: kcl.
Qed.

Lemma register_ack_link o pkid o' ok : register_ack o pkid = (o', ok) -> o_link o' = o_link o.
Proof. unfold register_ack. destruct (o_inflight o) as [| [[h ?] ?] r]; [| destruct (pkid =? h)]; intros [= <- _]; reflexivity. Qed.
Lemma register_pubcomp_link o pkid o' ok : register_pubcomp o pkid = (o', ok) -> o_link o' = o_link o.
Proof. unfold register_pubcomp. destruct (o_pubrels o) as [| h r]; [| destruct (pkid =? h)]; intros [= <- _]; reflexivity. Qed.

Ltac links :=
  repeat match goal with
  | E : register_ack _ _ = (_, _) |- _ => apply register_ack_link in E
  | E : register_pubcomp _ _ = (_, _) |- _ => apply register_pubcomp_link in E
  | E : number_forwards _ _ _ = (_, _) |- _ => let Hc := fresh "Hc" in apply number_forwards_spec in E as (_ & _ & Hc & _)
  | E : (_, _) = (_, _) |- _ => injection E; clear E; intros; subst
  end.

Global Instance fc_forward_device_data st id rq :
  FrameC (forward_device_data st id rq) (fun r => Kcl st (fst (fst r))).
Proof.
  intros a H. unfold forward_device_data in H. unget. all: split_hyps. all: links. all: frames_c. all: kcl.
Qed.
Global Instance fc_ack_device_data st id o : FrameC (ack_device_data st id o) (fun st' => Kcl st st').
Proof. intros a H. unfold ack_device_data in H. unget. all: frames_c. all: kcl. Qed.
Global Instance fc_consume_loop fuel : forall st id requests skipped,
  FrameC (consume_loop fuel st id requests skipped) (fun st' => Kcl st st').
Proof.
  induction fuel as [| fuel IH]; intros st id requests skipped a H; cbn [consume_loop] in H.
  - frames_c. kcl.
  - okinv. all: frames_c. all: kcl.
Qed.
Global Instance fc_consume st : FrameC (consume st) (fun r => Kcl st (fst r)).
Proof. intros a H. unfold consume in H. okinv. all: frames_c. all: kcl. Qed.
Global Instance fc_retrieve_shadow st id f : FrameC (retrieve_shadow st id f) (fun st' => Kcl st st').
Proof. intros a H. unfold retrieve_shadow in H. okinv. all: frames_c. all: kcl. Qed.
Global Instance fc_handle_last_will st client : FrameC (handle_last_will st client) (fun st' => Kcl st st').
Proof. intros a H. unfold handle_last_will, retain_update in H. okinv. all: frames_c. all: kcl. Qed.
Global Instance fc_handle_packet st id client pk fl :
  FrameC (handle_packet st id client pk fl) (fun r => Kcl st (fst (fst r))).
Proof. intros a H. unfold handle_packet in H. unget. all: split_hyps. all: links. all: frames_c. all: kcl. Qed.
Global Instance fc_handle_packets pks : forall st id client fl,
  FrameC (handle_packets st id client pks fl) (fun r => Kcl st (fst r)).
Proof.
  induction pks as [| pk r IH]; intros st id client fl a H; cbn [handle_packets] in H.
  - okinv. kcl.
  - okinv. all: frames_c. all: kcl.
Qed.

(* ------------------------------------------------------------------ removal, Connect, step *)
(** every (link, clean flag) pair of [st'] was there, under the same key, in [st] *)
Definition clsub (st st' : rstate) : Prop :=
  forall j l b, clv st' j = (Some l, Some b) -> clv st j = (Some l, Some b).
(** ... or is the new pair (link, b) *)
Definition clnew (st st' : rstate) (link : N) (b : bool) : Prop :=
  forall j l c, clv st' j = (Some l, Some c) -> clv st j = (Some l, Some c) \/ (l = link /\ c = b).

Lemma Kcl_clsub a b : Kcl a b -> clsub a b.
Proof. intros H j l c E. now rewrite <- (H j). Qed.
Lemma clsub_refl a : clsub a a.
Proof. intros j l c E. exact E. Qed.
Lemma clsub_trans a b c : clsub a b -> clsub b c -> clsub a c.
Proof. intros H1 H2 j l x E. apply H1, H2, E. Qed.
Lemma clsub_clnew a b link x : clsub a b -> clnew a b link x.
Proof. intros H j l c E. left. now apply H. Qed.

Lemma omap_some' {A B} (f : A -> B) (o : option A) y : option_map f o = Some y -> exists a, o = Some a /\ f a = y.
Proof. destruct o; cbn; [intros [= <-]; eauto|discriminate]. Qed.

Lemma hdisc_clsub st id reason st' : handle_disconnection st id reason = Ok st' -> clsub st st'.
Proof.
  intros H. unfold handle_disconnection in H.
  destruct (slab_get (r_obufs st) id) as [o0|]; [|okinv; apply clsub_refl].
  match type of H with bind ?x _ = _ => destruct x as [st0 | |] eqn:E0 end; cbn [bind] in H; try discriminate.
  assert (H0 : Kcl st st0).
  { clear H. destruct reason; okinv; [frames_c; kcl | kcl]. }
  eapply clsub_trans; [apply Kcl_clsub; exact H0|]. clear H0 E0.
  destruct (slab_remove (r_conns st0) id) as [[conns conn]|] eqn:R1; [|discriminate].
  destruct (slab_remove (r_ibufs st0) id) as [[ibufs ?]|] eqn:R2; [|discriminate].
  destruct (slab_remove (r_obufs st0) id) as [[obufs outg]|] eqn:R3; [|discriminate].
  destruct (slab_remove (r_trackers st0) id) as [[trackers trk]|] eqn:R4; [|discriminate].
  destruct (slab_remove (r_acks st0) id) as [[acks ?]|] eqn:R5; [|discriminate].
  destruct (dl_clean (r_datalog st0) id) as [dl q].
  okinv; unfold clsub, clv; rsimpl.
  all: intros j l b Ej; injection Ej as X1 X2;
       apply omap_some' in X1 as (o & Ho & <-); apply omap_some' in X2 as (c & Hc & <-);
       rewrite (slab_remove_get_sub _ _ _ _ _ _ R3 Ho), (slab_remove_get_sub _ _ _ _ _ _ R1 Hc); reflexivity.
Qed.

Lemma hnc_clnew st conn link st' :
  handle_new_connection st conn link = Ok st' -> clnew st st' link (c_clean conn).
Proof.
  intros H. unfold handle_new_connection in H.
  destruct (validate_clientid (c_client conn)) eqn:Ev; cbn [negb] in H; [|okinv; apply clsub_clnew, clsub_refl].
  match type of H with bind ?x _ = _ => destruct x as [st1 | |] eqn:E1 end; cbn [bind] in H; try discriminate.
  assert (Hs1 : clsub st st1).
  { clear H. destruct (al_get str_eqb (c_client conn) (r_cmap st)); [|okinv; apply clsub_refl]. eapply hdisc_clsub; exact E1. }
  clear E1.
  destruct (cf_max_connections (r_cfg st1) <=? slab_len (r_conns st1)); [okinv; now apply clsub_clnew|].
  set (client := c_client conn) in *.
  set (saved := al_get str_eqb client (r_graveyard st1)) in *.
  set (fresh_t := {| tr_id := client; tr_reqs := []; tr_status := Paused Busy |}) in *.
  set (triple := if negb (c_clean conn)
                 then match saved with
                      | Some (Some ss) => (ss_tracker ss, set_c_subs conn (ss_subs ss), ss_pubrels ss)
                      | _ => (fresh_t, conn, [])
                      end
                 else (fresh_t, conn, [])) in H.
  assert (Htr : exists trk conn1 pubrels, triple = (trk, conn1, pubrels) /\ c_clean conn1 = c_clean conn).
  { unfold triple. destruct (c_clean conn) eqn:Ecl; cbn [negb]; [do 3 eexists; split; [reflexivity|exact Ecl]|].
    destruct saved as [[ss|]|]; do 3 eexists; (split; [reflexivity|]); cbn [c_clean set_c_subs]; exact Ecl. }
  destruct Htr as (trk & conn1 & pubrels & -> & Hc1). cbn beta iota in H.
  destruct (slab_insert (r_conns st1) (set_c_will conn1 None)) as [conns id] eqn:Ei1.
  destruct (slab_insert (r_ibufs st1) _) as [ibufs id_i] eqn:Ei2.
  destruct (slab_insert (r_obufs st1) _) as [obufs id_o] eqn:Ei3.
  destruct (slab_insert (r_acks st1) _) as [acks id_a] eqn:Ei4.
  destruct (slab_insert (r_trackers st1) trk) as [trackers id_t] eqn:Ei5.
  destruct ((id_i =? id) && (id_o =? id) && (id_a =? id) && (id_t =? id)) eqn:Eal; cbn [negb] in H; [|discriminate].
  apply andb_prop in Eal as [Eal E4]. apply andb_prop in Eal as [Eal E3]. apply andb_prop in Eal as [E1 E2].
  apply N.eqb_eq in E1, E2, E3, E4. subst id_i id_o id_a id_t.
  okinv. frames_c.
  match goal with F : Kcl ?s2 st' |- _ => intros j ll cc Ej; rewrite (F j) in Ej; revert Ej end.
  unfold clv. rsimpl. intros Ej. injection Ej as X1 X2.
  apply omap_some' in X1 as (o & Ho & <-). apply omap_some' in X2 as (c0 & Hc0 & <-).
  destruct (N.eqb_spec j id) as [-> | Hn].
  - right. apply (slab_insert_get_new _ _ _ _ _ Ei3) in Ho. apply (slab_insert_get_new _ _ _ _ _ Ei1) in Hc0. subst.
    cbn [o_link c_clean set_c_will]. auto.
  - left. rewrite (slab_insert_get_other _ _ _ _ _ Ei3 Hn) in Ho. rewrite (slab_insert_get_other _ _ _ _ _ Ei1 Hn) in Hc0.
    apply Hs1. unfold clv. now rewrite Ho, Hc0.
Qed.

Lemma hdp_clsub st id st' : handle_device_payload st id = Ok st' -> clsub st st'.
Proof.
  intros H. unfold handle_device_payload, link_get in H. okinv. all: frames_c.
  all: repeat match goal with E : handle_disconnection _ _ _ = Ok _ |- _ => apply hdisc_clsub in E end.
  all: repeat match goal with F : Kcl _ _ |- _ => apply Kcl_clsub in F end.
  all: repeat (eapply clsub_trans; [|eassumption]).
  all: intros j ll bb Ej; exact Ej.
Qed.

Lemma step_cl st o st' out :
  step st o = Ok (st', out) ->
  match o with
  | OpConnect c => clnew st st' (lenN (r_links st)) (cr_clean c)
  | _ => clsub st st'
  end.
Proof.
  intros H. unfold step in H. destruct o; okinv. all: frames_c.
  all: repeat match goal with E : handle_disconnection _ _ _ = Ok _ |- _ => apply hdisc_clsub in E end.
  all: repeat match goal with E : handle_device_payload _ _ = Ok _ |- _ => apply hdp_clsub in E end.
  all: repeat match goal with E : handle_new_connection _ _ _ = Ok _ |- _ => apply hnc_clnew in E end.
  all: repeat match goal with F : Kcl _ _ |- _ => apply Kcl_clsub in F end.
  all: try assumption.
  all: try (intros j ll bb Ej; exact Ej).
Qed.

Lemma step_with_cl st orc o st' out :
  step_with st orc o = Ok (st', out) ->
  match o with
  | OpConnect c => clnew st st' (lenN (r_links st)) (cr_clean c)
  | _ => clsub st st'
  end.
Proof.
  intros H. unfold step_with in H. okinv. match goal with E : step _ _ = Ok _ |- _ => apply step_cl in E; rename E into X end.
  destruct o; exact X.
Qed.
