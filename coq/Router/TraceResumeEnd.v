(** C08 at the level of whole runs — what the end marker [KEnd cl r w] records, as an invariant
    of the trace ([EInv (PE L i)]):
    - [w] is the window of log i of the removed connection: for the connection of link L, which
      never tracked a shared request on log i when it was swept, a suffix of the offsets forwarded
      to it from log i with QoS > 0;
    - the resume point [r] is the head of [w] if [w] is not empty, and otherwise the place where
      the trace of the key continues. *)
From Rumqtt Require Import Router.NoPanicLog.
From Rumqtt Require Import Router.Model Router.InvLemmasBase Router.Inv Router.InvLemmasPrim Router.InvLemmasSched
  Router.InvLemmasDl Router.InvLemmasRoute Router.InvLemmasConn Router.InvLemmasPkt Router.InvLemmasConsume
  Router.NoPanic Router.NoPanicDevBase Router.NoPanicDevInv Router.NoPanicDev1 Router.NoPanicDev2 Router.NoPanicDev3 Router.NoPanicDev4.
From Rumqtt Require Import Router.ExactLoc1 Router.ExactLoc2 Router.ExactLoc3.
From Rumqtt Require Import Log.Proofs Router.ExactLog Topic.Proofs.
From Rumqtt Require Import Router.WindowFrame Router.Window Router.WindowStep Router.DataLogInv Router.DataLogStep
                           Router.ExactInv Router.ExactStep1 Router.ExactStep2 Router.ExactStep3 Router.ExactLogs
                           Router.ExactSweep Router.ExactThm.
From Rumqtt Require Router.Session Router.SessionInv Router.SessionIds Router.IsolationFrame.
From Rumqtt Require Import Router.TraceRun Router.TraceRunHeld Router.TraceRunInv Router.TraceRunPkt Router.TraceRunSweep
                           Router.TraceRunBound Router.TraceRunStep Router.TraceRunThm Router.TraceRunContent Router.TraceResume Router.TraceResumeWin.
From Rumqtt Require Import Router.Model Router.RunDefs.
From Coq Require Import List ZifyBool ZifyN ZifyNat Sorted.
Import ListNotations.

(* ------------------------------------------------------------------ invariants of end markers *)
Definition EInv (P : list dev -> dev -> Prop) (tr : list dev) : Prop :=
  forall ta ev tb, tr = ta ++ ev :: tb -> is_end (snd ev) = true -> P ta ev.

Lemma einv_app P tr evs :
  EInv P tr ->
  (forall e1 ev e2, evs = e1 ++ ev :: e2 -> is_end (snd ev) = true -> P (tr ++ e1) ev) -> EInv P (tr ++ evs).
Proof.
  intros H1 H2 ta ev tb E He. destruct (app_split_cases _ _ _ _ _ E) as [(t2' & E1 & _) | (r1 & -> & E2)].
  - apply (H1 _ _ _ E1 He).
  - apply (H2 _ _ _ E2 He).
Qed.

Lemma einv_noend P tr evs :
  forallb (fun ev : dev => negb (is_end (snd ev))) evs = true -> EInv P tr -> EInv P (tr ++ evs).
Proof.
  intros Hn H. apply einv_app; [exact H|]. intros e1 ev e2 E He. rewrite forallb_forall in Hn.
  assert (X : In ev evs) by (rewrite E; apply in_or_app; right; now left). apply Hn in X. rewrite He in X. discriminate.
Qed.

Lemma no_mark_noend l : no_mark l -> forallb (fun ev : dev => negb (is_end (snd ev))) l = true.
Proof.
  unfold no_mark. rewrite !forallb_forall. intros H ev Hin. specialize (H ev Hin). unfold is_mark in H.
  destruct (is_end (snd ev)); [discriminate|reflexivity].
Qed.

Lemma conn_ghost_noend st client link : forallb (fun ev : dev => negb (is_end (snd ev))) (conn_ghost st client link) = true.
Proof.
  apply forallb_forall. intros [[id K] a] Hin. cbn [snd]. destruct a; try reflexivity. exfalso.
  unfold conn_ghost in Hin.
  repeat match type of Hin with In _ (match ?x with _ => _ end) => destruct x end; try destruct Hin.
  all: try (apply in_map_iff in Hin as (rq & E & _); inversion E).
Qed.

Section EndInv.
Variables L i : N.
(** [G] switches the window part on: it needs the hypothesis [NoShare] along the run *)
Variable G : Prop.

Definition PE (ta : list dev) (ev : dev) : Prop :=
  match ev with
  | (_, (k, f, j), KEnd _ r w) =>
      (G -> k = L -> j = i -> exists l1, qo L i ta = l1 ++ w) /\
      exists a, last_opt (ktrace (k, f, j) ta) = Some a /\ r = match w with x :: _ => x | [] => nxt a end
  | _ => True
  end.

(** the end markers of one removal *)
Lemma disc_ei st id reason st' tr :
  LinkInv st -> DI st [] tr -> (G -> WI L i st tr) -> handle_disconnection st id reason = Ok st' ->
  forall e1 ev e2, disc_ghost st id st' = e1 ++ ev :: e2 -> PE (tr ++ e1) ev.
Proof.
  intros HL HDI HW H e1 ev e2 E.
  destruct (slab_get (r_obufs st) id) as [o|] eqn:Ho.
  2:{ unfold disc_ghost in E. rewrite Ho in E. destruct e1; discriminate. }
  destruct (hdisc_live _ _ _ _ _ H Ho) as (t & c & Ht & Hc).
  destruct (Session.hdisc_saves _ _ _ _ _ _ _ H Hc Ho Ht) as [Es _].
  rewrite (disc_ghost_live _ _ _ _ _ _ Ho Ht Hc) in E. unfold Session.saved_session in Es.
  destruct (c_clean c); [destruct e1; discriminate|]. rewrite Es in E.
  cbn [ss_tracker tr_reqs] in E.
  destruct (map_split _ _ _ _ _ E) as (la & rq' & lb & Efil & -> & -> & _).
  assert (Hin : In rq' (filter unshared_b (map (Session.rewind (retransmission_map (o_inflight o) []))
                                              (tr_reqs t ++ snd (dl_clean (r_datalog st) id)))))
    by (rewrite Efil; apply in_or_app; right; now left).
  apply filter_In in Hin as [Hin Hun]. apply in_map_iff in Hin as (rq0 & Erw & Hin0).
  assert (Hends : forallb (fun ev : dev => is_end (snd ev)) (map (mkend id (o_link o) (tr_id t) (o_inflight o)) la) = true).
  { apply forallb_forall. intros x Hx. apply in_map_iff in Hx as (r & <- & _). reflexivity. }
  assert (Hh : Held st id rq0).
  { apply in_app_or in Hin0 as [Hin0 | Hin0]; [left; exists t; auto|right; left; now apply dl_clean_waits]. }
  assert (Hshape : dr_filter rq' = dr_filter rq0 /\ dr_idx rq' = dr_idx rq0 /\ dr_group rq' = dr_group rq0).
  { subst rq'. unfold Session.rewind. destruct (al_get N.eqb (dr_idx rq0) _); repeat split; reflexivity. }
  destruct Hshape as (Ef & Ei & Eg).
  assert (Hg0 : dr_group rq0 = None) by (rewrite <- Eg; unfold unshared_b in Hun; destruct (dr_group rq'); [discriminate|reflexivity]).
  unfold mkend, PE. split.
  - intros g El Ej. rewrite qo_app, (qo_nofwd _ _ _ (ends_nofwd _ Hends)), app_nil_r, Ej. now apply (HW g id o).
  - rewrite ktrace_app, (ktrace_all_end _ _ Hends), app_nil_r, Ef, Ei.
    pose proof (di_ne _ _ _ HDI id o rq0 Ho (or_introl Hh) Hg0) as Hne. unfold key_of in Hne.
    destruct (last_opt_some _ Hne) as (a & Ha). exists a. split; [exact Ha|].
    destruct (di_cur _ _ _ HDI id o rq0 a Ho (or_introl Hh) Hg0 Ha) as [Hc0 _].
    pose proof (first_cursor_hd (o_inflight o) (dr_idx rq0)) as Hfc. subst rq'. unfold Session.rewind.
    rewrite Session.retransmission_map_spec. destruct (Session.first_cursor (o_inflight o) (dr_idx rq0)) as [cu|].
    + cbn [set_dr_cursor dr_cursor]. destruct (wnd_offs (o_inflight o) (dr_idx rq0)); [discriminate|]. now inversion Hfc.
    + rewrite Hfc. exact Hc0.
Qed.

Lemma disc_einv st id reason st' tr :
  LinkInv st -> DI st [] tr -> (G -> WI L i st tr) -> EInv PE tr -> handle_disconnection st id reason = Ok st' ->
  EInv PE (tr ++ disc_ghost st id st').
Proof. intros HL HDI HW HE H. apply einv_app; [exact HE|]. intros e1 ev e2 E _. eapply disc_ei; eassumption. Qed.
End EndInv.

(* ------------------------------------------------------------------ a DeviceData event, up to the removal *)
Lemma payload_mid cfg st id st' evs tr :
  RInvC cfg st -> r_notif st = [] -> DevEI st -> CInv st -> LinkInv st -> DI st [] tr ->
  handle_device_payload_d st id = Ok (st', evs) ->
  exists st3 evs1, LinkInv st3 /\ DI st3 [] (tr ++ evs1) /\ wsuf st st3 /\
    forallb (fun e => negb (is_fwd e)) evs1 = true /\ no_mark evs1 /\
    ((st' = st3 /\ evs = evs1) \/
     exists reason, handle_disconnection st3 id reason = Ok st' /\ evs = evs1 ++ disc_ghost st3 id st').
Proof.
  intros HI Hn HD HC HL HDI H. unfold handle_device_payload_d in H.
  destruct (slab_get (r_ibufs st) id) as [inc|] eqn:Hi.
  2:{ inv_ok. exists st', []. rewrite app_nil_r.
      split; [exact HL|]. split; [exact HDI|]. split; [apply wsuf_refl|]. split; [reflexivity|]. split; [reflexivity|now left]. }
  destruct (RInv_ibuf_live _ _ _ _ HI Hi) as [c Hc].
  assert (Ho : occ (lives st) id) by (eapply get_occ; eauto).
  pose proof (ri_ilink _ _ HI _ _ Hi) as Hl. destruct (nthN_lt _ _ Hl) as [b Hb].
  unfold link_get in H. rewrite Hb in H. cbn [bind] in H.
  set (st0 := link_put st (i_link inc) (set_lk_in b [])) in *.
  assert (HI0 : RInvC cfg st0) by (apply RInv_link_put; [exact HI|constructor]).
  assert (HD0 : DevEI st0) by (eapply dfr_DevE; [exact HD|dfr_triv]).
  assert (HC0 : CInv st0) by (eapply cinv_view; [|exact HC]; reflexivity).
  assert (HL0 : LinkInv st0).
  { apply (obs_sub_LinkInv st st0); [apply obs_sub_eq; reflexivity| |exact HL]. unfold st0. rsimpl. rewrite lenN_setN. lia. }
  assert (HDI0 : DI st0 [] tr).
  { destruct HDI as [D1 D2 D3 D4 D5 D6 D7]. constructor; try assumption.
    intros id0 k f j a Hin. specialize (D1 _ _ _ _ _ Hin). unfold st0. rsimpl. now rewrite lenN_setN. }
  assert (Hpk : Forall packet_wf (lk_in b)).
  { exact (Forall_nthN (fun b => Forall packet_wf (lk_in b)) _ _ _ (ri_pkts _ _ HI) Hb). }
  apply bind_ok in H as ([[st1 fl] evs1] & H1 & H).
  apply bind_ok in H as (st2 & H2 & H). apply bind_ok in H as (st3 & H3 & H). apply bind_ok in H as (st4 & H4 & H). inv_ok.
  assert (HS0 : Side cfg st0 id) by (constructor; assumption).
  pose proof (handle_packets_di cfg id _ _ _ _ _ _ _ _ HS0 Hpk HDI0 H1) as HDI1.
  pose proof (handle_packets_d_ok _ _ _ _ _ _ _ _ H1) as H1'.
  destruct (handle_packets_cinv _ _ _ _ _ _ _ HC0 H1') as [HC1 _].
  assert (X2 : CInv st2 /\ DI st2 [] (tr ++ evs1)).
  { destruct (f_force_ack fl); [|inv_ok; auto].
    split; [eapply reschedule_cinv; eassumption|].
    eapply di_frame_keep; [exact HC1|constructor|eapply reschedule_hsub; exact H2|eapply reschedule_keep; exact H2| |exact HDI1].
    rewrite (reschedule_dl _ _ _ _ H2). apply dl_le_refl. }
  destruct X2 as [HC2 HDI2].
  assert (X3 : CInv st3 /\ DI st3 [] (tr ++ evs1)).
  { destruct (f_new_data fl); [|inv_ok; auto].
    split; [eapply drain_notifications_cinv; eassumption|].
    eapply di_frame_keep; [exact HC2|constructor|eapply drain_notifications_hsub; exact H3
                          |eapply drain_notifications_keep; exact H3| |exact HDI2].
    rewrite (drain_notifications_dl _ _ H3). apply dl_le_refl. }
  destruct X3 as [HC3 HDI3].
  destruct (handle_packets_obs _ _ _ _ _ _ _ H1') as [A1 EL1].
  assert (HL1 : LinkInv st1) by (apply (obs_sub_LinkInv st0 st1); [eapply obs_at_sub; exact A1|rewrite EL1; lia|exact HL0]).
  assert (K2 : keep st2 = keep st1) by (destruct (f_force_ack fl); [eapply reschedule_keep; exact H2|now inv_ok]).
  assert (K3 : keep st3 = keep st2) by (destruct (f_new_data fl); [eapply drain_notifications_keep; exact H3|now inv_ok]).
  assert (HL3 : LinkInv st3) by (eapply keep_LinkInv; [exact K3|eapply keep_LinkInv; [exact K2|exact HL1]]).
  assert (HW3 : wsuf st st3).
  { eapply wsuf_obufs; [|eapply (wsuf_trans st st0 st1); [apply wsuf_eq; reflexivity|eapply handle_packets_wsuf; exact H1']].
    rewrite (keep_obufs _ _ K3). now apply keep_obufs. }
  exists st3, evs1. split; [exact HL3|]. split; [exact HDI3|]. split; [exact HW3|].
  split; [eapply handle_packets_nofwd; exact H1|]. split; [eapply handle_packets_nomark; exact H1|].
  destruct (f_disconnect fl); [right; eauto|left; inv_ok; now rewrite app_nil_r].
Qed.

(* ------------------------------------------------------------------ a Connect *)
Lemma hnc_wsufn st conn link st' :
  handle_new_connection st conn link = Ok st' -> wsufn st st'.
Proof.
  intros H. apply handle_new_connection_frame in H as (st1 & H1 & H2).
  assert (S1 : wsuf st st1).
  { destruct H1 as [-> | (cid & H1)]; [apply wsuf_refl|eapply handle_disconnection_wsuf; exact H1]. }
  destruct H2 as [-> | (id & pubrels & sp & E1 & _ & _)]; [now apply wsuf_wsufn|].
  intros c o' Ho. destruct (slab_insert_inv _ _ _ _ _ _ E1 Ho) as [[-> ->] | [Hne G1]]; [now left|right; now apply S1].
Qed.

(* ------------------------------------------------------------------ one step *)
Section Step.
Variables L i : N.
Variable G : Prop.

Lemma ei_step_d st o st' out evs tr :
  RInvE st -> CInv st -> Bounded st -> LinkInv st -> op_wf o -> DI st [] tr ->
  (G -> WI L i st tr) -> EInv (PE L i G) tr -> (G -> NoShare L i st) ->
  step_d st o = Ok (st', out, evs) -> (G -> WI L i st' (tr ++ evs)) /\ EInv (PE L i G) (tr ++ evs).
Proof.
  intros [[HI Hn] HD] HC HB HL Hwf HDI HW HE HN H.
  assert (Hq : forall s, r_obufs s = r_obufs st -> (G -> WI L i s (tr ++ [])) /\ EInv (PE L i G) (tr ++ [])).
  { intros s E. split; [intros g; apply (wi_frame L i st); [apply wsuf_wsufn, wsuf_eq; exact E|reflexivity|exact (HW g)]|now rewrite app_nil_r]. }
  destruct o as [c | k pk | id | | k | id | id | id f | c |]; unfold step_d in H.
  - (* Connect *)
    apply bind_ok in H as ([st2 out2] & H2 & H). inv_ok. cbn [step] in H2. cbv zeta in H2.
    apply bind_ok in H2 as (st3 & H3 & H2). inv_ok.
    match type of H3 with handle_new_connection ?s _ _ = _ => set (st1 := s) in * end.
    assert (HL1 : LinkInv st1).
    { split; [|exact (proj2 HL)]. intros id0 o Ho. pose proof (proj1 HL _ _ Ho). unfold st1. rsimpl. rewrite lenN_snoc. lia. }
    assert (HDI1 : DI st1 [] tr).
    { destruct HDI as [D1 D2 D3 D4 D5 D6 D7]. constructor; try assumption.
      intros id0 k f j a Hin. specialize (D1 _ _ _ _ _ Hin). unfold st1. rsimpl. rewrite lenN_snoc. lia. }
    assert (HW1 : G -> WI L i st1 tr) by exact HW.
    split.
    + intros g. apply (wi_frame L i st1); [eapply hnc_wsufn; exact H3| |exact (HW1 g)].
      apply qo_nofwd. rewrite forallb_app, take_ghost_nofwd. apply conn_ghost_nofwd.
    + rewrite app_assoc. apply einv_noend; [apply conn_ghost_noend|].
      unfold take_ghost. destruct (validate_clientid (cr_client c)); [|now rewrite app_nil_r].
      destruct (al_get str_eqb (cr_client c) (r_cmap st1)) as [cid|]; [|now rewrite app_nil_r].
      destruct (handle_disconnection st1 cid None) as [s| |] eqn:Hd; try now rewrite app_nil_r.
      eapply disc_einv; eassumption.
  - apply bind_ok in H as ([st2 out2] & H2 & H). inv_ok. cbn [step] in H2.
    destruct (nthN (r_links st) k); inv_ok; apply Hq; reflexivity.
  - (* DeviceData *)
    apply bind_ok in H as ([st1 evs1] & H1 & H). inv_ok.
    destruct (payload_mid _ _ _ _ _ _ HI Hn HD HC HL HDI H1) as (st3 & ev1 & HL3 & HDI3 & HW3 & Hnf & Hnm & Hcase).
    assert (W3 : G -> WI L i st3 (tr ++ ev1)) by (intros g; apply (wi_frame L i st); [now apply wsuf_wsufn|now apply qo_nofwd|exact (HW g)]).
    assert (E3 : EInv (PE L i G) (tr ++ ev1)) by (apply einv_noend; [now apply no_mark_noend|exact HE]).
    destruct Hcase as [[-> ->] | (reason & Hd & ->)]; [auto|]. rewrite app_assoc. split.
    + intros g. apply (wi_frame L i st3); [apply wsuf_wsufn; eapply handle_disconnection_wsuf; exact Hd|apply qo_nofwd, disc_ghost_nofwd|exact (W3 g)].
    + eapply disc_einv; eassumption.
  - (* Consume *)
    apply bind_ok in H as ([[st1 b] evs1] & H1 & H). inv_ok. split.
    + intros g. eapply consume_wi; [exact HL|exact (HW g)|exact (HN g)|exact H1].
    + apply einv_noend; [|exact HE]. apply no_mark_noend. eapply consume_nomark; exact H1.
  - apply bind_ok in H as ([st2 out2] & H2 & H). inv_ok. cbn [step] in H2.
    destruct (nthN (r_links st) k); inv_ok; apply Hq; reflexivity.
  - apply bind_ok in H as ([st2 out2] & H2 & H). inv_ok. cbn [step] in H2.
    destruct (slab_get (r_trackers st) id); [|inv_ok; apply Hq; reflexivity].
    apply bind_ok in H2 as (st1 & H1 & H2). inv_ok. apply Hq. apply keep_obufs. eapply reschedule_keep; exact H1.
  - (* Disconnect *)
    apply bind_ok in H as ([st2 out2] & H2 & H). inv_ok. cbn [step] in H2.
    apply bind_ok in H2 as (st1 & H1 & H2). inv_ok. split.
    + intros g. apply (wi_frame L i st); [apply wsuf_wsufn; eapply handle_disconnection_wsuf; exact H1|apply qo_nofwd, disc_ghost_nofwd|exact (HW g)].
    + eapply disc_einv; eassumption.
  - apply bind_ok in H as ([st2 out2] & H2 & H). inv_ok. cbn [step] in H2.
    apply bind_ok in H2 as (st1 & H1 & H2). inv_ok. apply Hq. apply (retrieve_shadow_obs _ _ _ _ H1).
  - apply bind_ok in H as ([st2 out2] & H2 & H). inv_ok. cbn [step] in H2.
    apply bind_ok in H2 as (st1 & H1 & H2). inv_ok. apply Hq. apply keep_obufs. eapply handle_last_will_keep; exact H1.
  - apply bind_ok in H as ([st2 out2] & H2 & H). inv_ok. cbn [step] in H2. inv_ok. apply Hq. reflexivity.
Qed.

Lemma ei_step st orc o st' out evs tr :
  RunInv st tr -> Bounded st -> op_wf o ->
  (G -> WI L i st tr) -> EInv (PE L i G) tr -> (G -> NoShare L i st) ->
  step_with_d st orc o = Ok (st', out, evs) -> (G -> WI L i st' (tr ++ evs)) /\ EInv (PE L i G) (tr ++ evs).
Proof.
  intros [[[HI Hn] HD] HC HL HDI HBI] HB Hwf HW HE HN H. unfold step_with_d in H.
  apply bind_ok in H as ([[st1 out1] evs1] & H1 & H). destruct (r_oracle st1); [|discriminate]. inv_ok.
  eapply (ei_step_d (set_r_oracle st orc)); [| | | | | | | | |exact H1].
  - split; [split; [apply RInv_set_oracle; exact HI|exact Hn]|]. eapply dfr_DevE; [exact HD|dfr_triv].
  - eapply cinv_view; [|exact HC]. reflexivity.
  - exact HB.
  - exact HL.
  - exact Hwf.
  - apply di_oracle. exact HDI.
  - exact HW.
  - exact HE.
  - exact HN.
Qed.

(* ------------------------------------------------------------------ runs *)
(** [NoShare], decidably *)
Definition noshare_b (st : rstate) : bool :=
  forallb (fun ct : N * tracker =>
    match slab_get (r_obufs st) (fst ct) with
    | Some o => negb (o_link o =? L) || forallb (fun rq => negb (dr_idx rq =? i) || unshared_b rq) (tr_reqs (snd ct))
    | None => true
    end) (slab_iter (r_trackers st)).

Lemma slab_iter_from_in {A} (a : A) : forall l k j, nthN l k = Some (Some a) -> In (j + k, a) (slab_iter_from j l).
Proof.
  induction l as [|x l IH]; intros k j H; [discriminate|]. cbn [nthN] in H. destruct (N.eqb_spec k 0) as [-> | Hne].
  - inversion H; subst. cbn [slab_iter_from]. rewrite N.add_0_r. now left.
  - specialize (IH _ (j + 1) H). replace (j + 1 + (k - 1)) with (j + k) in IH by lia.
    cbn [slab_iter_from]. destruct x; [right|]; exact IH.
Qed.

Lemma noshare_b_ok st : noshare_b st = true -> NoShare L i st.
Proof.
  unfold noshare_b. rewrite forallb_forall. intros H c o t rq Ho Hl Ht Hin Hi.
  assert (X : In (c, t) (slab_iter (r_trackers st))).
  { unfold slab_iter. unfold slab_get in Ht. destruct (nthN (sl_items (r_trackers st)) c) as [[t0|]|] eqn:E; try discriminate.
    inversion Ht; subst t0. apply (slab_iter_from_in t _ c 0 E). }
  specialize (H _ X). cbn [fst snd] in H. rewrite Ho in H. apply orb_true_iff in H as [H | H]; [lia|].
  rewrite forallb_forall in H. specialize (H _ Hin). apply orb_true_iff in H as [H | H]; [lia|].
  unfold unshared_b in H. destruct (dr_group rq); [discriminate|reflexivity].
Qed.

(** [P] holds in every state the run passes through (before each operation and at the end) *)
Fixpoint always_b (P : rstate -> bool) (st : rstate) (ops : list (list oracle * rop)) : bool :=
  P st && match ops with
          | [] => true
          | (orc, o) :: r => match step_with st orc o with Ok (st1, _) => always_b P st1 r | _ => true end
          end.

Lemma run_ei : forall ops st st' tr0 tr,
  RunInv st tr0 -> (G -> WI L i st tr0) -> EInv (PE L i G) tr0 -> ops_wf ops ->
  run_d st ops = Ok (st', tr) -> Bounded st' -> (G -> always_b noshare_b st ops = true) ->
  (G -> WI L i st' (tr0 ++ tr)) /\ EInv (PE L i G) (tr0 ++ tr).
Proof.
  induction ops as [|[orc o] ops IH]; intros st st' tr0 tr HR HW HE Hwf H HB HA.
  - cbn [run_d] in H. inv_ok. rewrite app_nil_r. auto.
  - inversion Hwf as [|? ? Hw1 Hw']; subst. cbn [snd] in Hw1.
    pose proof (run_bounded_head _ _ _ _ _ _ (rn_cinv _ _ HR) H HB) as HB0. cbn [run_d] in H.
    apply bind_ok in H as ([[st1 out] evs] & H1 & H). apply bind_ok in H as ([st2 evs2] & H2 & H). inv_ok.
    assert (HA' : G -> noshare_b st = true /\ always_b noshare_b st1 ops = true).
    { intros g. specialize (HA g). cbn [always_b] in HA. apply andb_true_iff in HA as [HA0 HA].
      rewrite (step_with_d_step _ _ _ _ _ _ H1) in HA. auto. }
    destruct (ei_step _ _ _ _ _ _ _ HR HB0 Hw1 HW HE (fun g => noshare_b_ok _ (proj1 (HA' g))) H1) as [W1 E1].
    rewrite app_assoc. eapply IH; [|exact W1|exact E1|exact Hw'|exact H2|exact HB|exact (fun g => proj2 (HA' g))].
    eapply runinv_step; eassumption.
Qed.

Theorem ei_from_init cfg st0 ops st tr :
  run_hyps cfg st0 ops st tr -> (G -> always_b noshare_b st0 ops = true) ->
  (G -> WI L i st tr) /\ EInv (PE L i G) tr.
Proof.
  intros (Hcfg & Hmo & Hi & Hwf & Hr & HB) HA. apply (run_ei ops st0 st [] tr); try assumption.
  - constructor; [eapply rinve_init; eassumption|eapply init_cinv; eassumption|apply (WindowStep.init_inv _ _ Hi)|eapply di_init; eassumption
                 |eapply bi_init; eassumption].
  - intros _ c o Ho. exfalso. unfold init in Hi. apply bind_ok in Hi as (dl & _ & Hi). inv_ok. discriminate.
  - intros ta ev tb E. destruct ta; discriminate.
Qed.
End Step.
