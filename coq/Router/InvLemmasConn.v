(** wp-specification of handle_new_connection. *)
From Rumqtt Require Import Router.Inv Router.InvLemmasPrim Router.InvLemmasSched Router.InvLemmasDl Router.InvLemmasRoute.
From Coq Require Import Arith ZifyBool ZifyN ZifyNat.

Lemma aligned_wf {A B} (s1 : slab A) (s2 : slab B) : aligned s1 s2 -> slab_wf s1 -> slab_wf s2.
Proof. intros [H1 H2] [H3 H4]. split; rewrite <- ?H1, <- ?H2; auto. Qed.

Lemma rejoin_groups_ne strat client rqs : forall gs, groups_ne gs -> groups_ne (rejoin_groups gs strat client rqs).
Proof.
  induction rqs as [|rq rqs IH]; intros gs Hg; cbn [rejoin_groups]; [exact Hg|].
  apply IH. destruct (dr_group rq) as [name|]; [|exact Hg].
  apply (Forall_al_set str_eqb (fun g => g_clients g <> [])); [exact Hg|].
  cbn [set_g_clients g_clients]. intros H. apply app_eq_nil in H. destruct H; discriminate.
Qed.

Ltac ins_cases k id H Hnew Hoth :=
  destruct (N.eq_dec k id) as [-> | ?];
  [rewrite Hnew in H; inversion H; subst; clear H | rewrite Hoth in H by assumption].

Definition no_client (st : rstate) (client : str) : Prop :=
  forall k c, slab_get (r_conns st) k = Some c -> c_client c <> client.

Definition fresh_tracker (client : str) : tracker := {| tr_id := client; tr_reqs := []; tr_status := Paused Busy |}.

(** the state built by handle_new_connection once the old connection of the same client id is
    gone and there is room *)
Lemma newconn_core cfg st1 conn link :
  RInvC cfg st1 -> r_notif st1 = [] -> link < lenN (r_links st1) -> no_client st1 (c_client conn) ->
  (cf_max_connections (r_cfg st1) <=? slab_len (r_conns st1)) = false ->
  wp cfg
    (let client := c_client conn in
      let saved := al_get str_eqb client (r_graveyard st1) in
      let grave := al_remove str_eqb client (r_graveyard st1) in
      let clean := c_clean conn in
      let previous_session := match saved with Some (Some _) => true | _ => false end in
      let '(trk, conn1, pubrels) :=
        if negb clean then
          match saved with
          | Some (Some ss) => (ss_tracker ss, set_c_subs conn (ss_subs ss), ss_pubrels ss)
          | _ => ({| tr_id := client; tr_reqs := []; tr_status := Paused Busy |}, conn, [])
          end
        else ({| tr_id := client; tr_reqs := []; tr_status := Paused Busy |}, conn, []) in
      let groups1 := rejoin_groups (r_groups st1) (cf_strategy (r_cfg st1)) client (tr_reqs trk) in
      let wills := match c_will conn1 with
                   | Some w => al_set str_eqb client w (r_wills st1)
                   | None => al_remove str_eqb client (r_wills st1)
                   end in
      let conn2 := set_c_will conn1 None in
      let '(conns, id) := slab_insert (r_conns st1) conn2 in
      let '(ibufs, id_i) := slab_insert (r_ibufs st1) {| i_client := client; i_link := link |} in
      let '(obufs, id_o) := slab_insert (r_obufs st1)
            {| o_client := client; o_link := link; o_inflight := []; o_pubrels := pubrels; o_last := 0 |} in
      let ack0 := {| a_committed := [AConnAck id (negb clean && previous_session)]; a_recorded := [] |} in
      let '(acks, id_a) := slab_insert (r_acks st1) (commit_pubrels ack0 pubrels) in
      let '(trackers, id_t) := slab_insert (r_trackers st1) trk in
      if negb ((id_i =? id) && (id_o =? id) && (id_a =? id) && (id_t =? id)) then Panic P_SLAB_ALIGN
      else
        let st2 := {| r_cfg := r_cfg st1; r_graveyard := grave; r_conns := conns;
                      r_cmap := al_set str_eqb client id (r_cmap st1);
                      r_submap := submap_add_all (r_submap st1) (c_subs conn2) id;
                      r_ibufs := ibufs; r_obufs := obufs; r_datalog := r_datalog st1; r_acks := acks;
                      r_trackers := trackers; r_ready := r_ready st1; r_notif := r_notif st1;
                      r_groups := groups1; r_wills := wills; r_links := r_links st1;
                      r_oracle := r_oracle st1 |} in
        do _ <- dbg_no_dups st2 id;
        reschedule st2 id SInit)
    (fun st' => RInvC cfg st' /\ r_notif st' = []).
Proof.
  intros HI Hn Hlink Hnc Hroom. cbv zeta.
  set (client := c_client conn).
  set (tcp := if negb (c_clean conn)
              then match al_get str_eqb client (r_graveyard st1) with
                   | Some (Some ss) => (ss_tracker ss, set_c_subs conn (ss_subs ss), ss_pubrels ss)
                   | _ => ({| tr_id := client; tr_reqs := []; tr_status := Paused Busy |}, conn, [])
                   end
              else ({| tr_id := client; tr_reqs := []; tr_status := Paused Busy |}, conn, [])).
  assert (Htcp : tr_id (fst (fst tcp)) = client /\ Forall (req_ok (nlen st1)) (tr_reqs (fst (fst tcp))) /\
                 c_client (snd (fst tcp)) = client /\ tr_status (fst (fst tcp)) = Paused Busy).
  { unfold tcp. destruct (negb (c_clean conn)); [|cbn; auto].
    destruct (al_get str_eqb client (r_graveyard st1)) as [[ss|]|] eqn:Eg; try (cbn; auto).
    apply al_get_In_str in Eg. pose proof (ri_grave _ _ HI) as Hg. rewrite Forall_forall in Hg.
    apply Hg in Eg. unfold sess_ok in Eg. cbn [snd fst] in Eg. destruct Eg as (E1 & E2 & E3).
    cbn [fst snd set_c_subs c_client]. auto. }
  destruct tcp as [[trk conn1] pubrels]. cbn [fst snd] in Htcp. destruct Htcp as (Htid & Hreqs & Hcl1 & Hbusy).
  set (conn2 := set_c_will conn1 None).
  assert (Hcl2 : c_client conn2 = client) by exact Hcl1.
  destruct (slab_insert (r_conns st1) conn2) as [conns id] eqn:Ec.
  destruct (slab_insert (r_ibufs st1) {| i_client := client; i_link := link |}) as [ibufs id_i] eqn:Ei.
  destruct (slab_insert (r_obufs st1) {| o_client := client; o_link := link; o_inflight := []; o_pubrels := pubrels; o_last := 0 |}) as [obufs id_o] eqn:Eo.
  match goal with |- context [slab_insert (r_acks st1) ?a] => set (ack1 := a) end.
  destruct (slab_insert (r_acks st1) ack1) as [acks id_a] eqn:Ea.
  destruct (slab_insert (r_trackers st1) trk) as [trackers id_t] eqn:Et.
  destruct (aligned_insert _ _ _ _ _ _ _ _ (ri_al_i _ _ HI) Ec Ei) as [<- Hal_i].
  destruct (aligned_insert _ _ _ _ _ _ _ _ (ri_al_o _ _ HI) Ec Eo) as [<- Hal_o].
  destruct (aligned_insert _ _ _ _ _ _ _ _ (ri_al_a _ _ HI) Ec Ea) as [<- Hal_a].
  destruct (aligned_insert _ _ _ _ _ _ _ _ (ri_al_t _ _ HI) Ec Et) as [<- Hal_t].
  rewrite !N.eqb_refl. cbn [andb negb].
  pose proof (ri_wf _ _ HI) as Hwf.
  destruct (insert_spec _ _ _ _ Hwf Ec) as (Hcnone & Hcnew & Hcoth & Hcwf & Hclen).
  destruct (insert_spec _ _ _ _ (aligned_wf _ _ (ri_al_i _ _ HI) Hwf) Ei) as (_ & Hinew & Hioth & _).
  destruct (insert_spec _ _ _ _ (aligned_wf _ _ (ri_al_o _ _ HI) Hwf) Eo) as (_ & Honew & Hooth & _).
  destruct (insert_spec _ _ _ _ (aligned_wf _ _ (ri_al_t _ _ HI) Hwf) Et) as (_ & Htnew & Htoth & _).
  match goal with |- wp _ (do _ <- dbg_no_dups ?s id; _) _ => set (st2 := s) end.
  assert (Hocc : forall k, occ (shape (r_conns st1)) k -> occ (shape conns) k).
  { intros k Hk. apply occ_get in Hk. destruct Hk as [c Hk]. apply occ_get. exists c.
    rewrite Hcoth; [exact Hk|]. intros ->. congruence. }
  assert (HI2 : RInvC cfg st2).
  { constructor; unfold st2; rsimp.
    - apply (ri_cfg _ _ HI).
    - apply (ri_cfg_ok _ _ HI).
    - exact Hcwf.
    - exact Hal_i.
    - exact Hal_o.
    - exact Hal_a.
    - exact Hal_t.
    - rewrite (ri_cfg _ _ HI) in Hroom. lia.
    - intros k c Hk. ins_cases k id Hk Hcnew Hcoth.
      + rewrite Hcl2. apply al_get_set_eq.
      + rewrite al_get_set_neq; [apply (ri_cmap _ _ HI _ _ Hk)|]. apply (Hnc _ _ Hk).
    - intros k c i Hk Hik. ins_cases k id Hk Hcnew Hcoth.
      + rewrite Hinew in Hik. inversion Hik; subst. cbn [i_client]. now rewrite Hcl2.
      + rewrite Hioth in Hik by assumption. apply (ri_cl_i _ _ HI _ _ _ Hk Hik).
    - intros k c i Hk Hik. ins_cases k id Hk Hcnew Hcoth.
      + rewrite Honew in Hik. inversion Hik; subst. cbn [o_client]. now rewrite Hcl2.
      + rewrite Hooth in Hik by assumption. apply (ri_cl_o _ _ HI _ _ _ Hk Hik).
    - intros k c i Hk Hik. ins_cases k id Hk Hcnew Hcoth.
      + rewrite Htnew in Hik. inversion Hik; subst. now rewrite Hcl2.
      + rewrite Htoth in Hik by assumption. apply (ri_cl_t _ _ HI _ _ _ Hk Hik).
    - intros k i Hik. ins_cases k id Hik Hinew Hioth; [exact Hlink|apply (ri_ilink _ _ HI _ _ Hik)].
    - intros k i Hik. ins_cases k id Hik Honew Hooth; [|apply (ri_obuf _ _ HI _ _ Hik)].
      cbn [o_link o_inflight]. split; [exact Hlink|]. unfold lenN, MAX_INFLIGHT. cbn. lia.
    - intros k i Hik. ins_cases k id Hik Htnew Htoth; [exact Hreqs|apply (ri_trk _ _ HI _ _ Hik)].
    - eapply dl_ok_sh_mono; [exact Hocc|apply (ri_dl _ _ HI)].
    - rewrite Hn. constructor.
    - apply Forall_al_remove. apply (ri_grave _ _ HI).
    - apply rejoin_groups_ne. apply (ri_groups _ _ HI).
    - apply (ri_pkts _ _ HI). }
  assert (Ho2 : occ (lives st2) id).
  { unfold lives, st2. cbn [r_conns]. eapply get_occ; eauto. }
  apply wp_bind. wp_use dbg_no_dups_spec; [exact HI2|exact Ho2|]. intros _ _.
  wp_use reschedule_gen; [exact HI2|exact Ho2| |].
  { right. intros t0 Ht0. unfold st2 in Ht0. cbn [r_trackers] in Ht0. rewrite Htnew in Ht0. inversion Ht0; subst. exact Hbusy. }
  intros st' (HI' & E' & N').
  split; [exact HI'|]. rewrite N'. exact Hn.
Qed.

Lemma handle_new_connection_spec cfg st conn link :
  RInvC cfg st -> r_notif st = [] -> link < lenN (r_links st) ->
  wp cfg (handle_new_connection st conn link) (fun st' => RInvC cfg st' /\ r_notif st' = []).
Proof.
  intros HI Hn Hlink. unfold handle_new_connection. cbv zeta.
  destruct (negb (validate_clientid (c_client conn))); [cbn [wp]; auto|].
  apply wp_bind.
  assert (H1 : wp cfg (match al_get str_eqb (c_client conn) (r_cmap st) with
                       | Some cid => handle_disconnection st cid None
                       | None => Ok st
                       end)
     (fun st1 => RInvC cfg st1 /\ r_notif st1 = [] /\ lenN (r_links st1) = lenN (r_links st) /\
                 no_client st1 (c_client conn))).
  { destruct (al_get str_eqb (c_client conn) (r_cmap st)) as [cid|] eqn:Em.
    - wp_use handle_disconnection_spec; [exact HI|exact Hn|]. intros st1 (A & B & C & D).
      split; [exact A|]. split; [exact B|]. split; [exact C|].
      intros k c Hk Hcl. destruct (D _ _ Hk) as [Hk0 Hne]. pose proof (ri_cmap _ _ HI _ _ Hk0) as M.
      rewrite Hcl in M. congruence.
    - cbn [wp]. split; [exact HI|]. split; [exact Hn|]. split; [reflexivity|].
      intros k c Hk Hcl. pose proof (ri_cmap _ _ HI _ _ Hk) as M. rewrite Hcl in M. congruence. }
  eapply wp_mono; [exact H1|]. cbn beta. intros st1 (A & B & C & D).
  destruct (cf_max_connections (r_cfg st1) <=? slab_len (r_conns st1)) eqn:Er; [cbn [wp]; auto|].
  apply (newconn_core cfg st1 conn link); auto. lia.
Qed.
