(** C19 (router half): client-id validation at the routing core. *)
From Rumqtt Require Import Router.Model Topic.Proofs.

Lemma validate_clientid_spec c :
  validate_clientid c = true <-> (~ In PLUS c /\ ~ In DOLLAR c /\ ~ In HASH c /\ ~ In SLASH c).
Proof.
  unfold validate_clientid. rewrite negb_true_iff, !orb_false_iff, !contains_false. tauto.
Qed.

(** a Connect whose client id contains any of + $ # / registers nothing, emits nothing:
    the router state is unchanged (in particular no ConnAck is ever committed for it) *)
Lemma clientid_rejected st conn link :
  (In PLUS (c_client conn) \/ In DOLLAR (c_client conn) \/ In HASH (c_client conn) \/ In SLASH (c_client conn)) ->
  handle_new_connection st conn link = Ok st.
Proof.
  intros H. unfold handle_new_connection.
  destruct (validate_clientid (c_client conn)) eqn:E; [|reflexivity].
  apply validate_clientid_spec in E. tauto.
Qed.
