(** Generic lemmas used by the router invariant proof: the weakest-precondition reading of the
    [Outcome] monad, [nthN]/[setN], slabs, association lists. *)
From Rumqtt Require Import Router.Model.
From Coq Require Import Arith ZifyBool ZifyN ZifyNat.

(* ------------------------------------------------------------------ wp *)
(** panics the structural invariant does not exclude: the u64 overflow tag of the commit log
    and, in the dev profile only, [debug_assert!(check_tracker_duplicates(..).is_none())]
    (P_DBG_READY, the other debug assertion, is excluded: a tracker handed to try_ready(Init)
    is always Paused(Busy)) *)
Definition okp (cfg : config) (t : N) : Prop :=
  t = P_ADD \/ (cf_debug_assertions cfg = true /\ t = P_DBG_DUP).

Definition wp {A} (cfg : config) (x : R A) (Q : A -> Prop) : Prop :=
  match x with Ok a => Q a | Err _ => True | Panic t => okp cfg t end.

Lemma wp_bind {A B} cfg (x : R A) (f : A -> R B) Q :
  wp cfg x (fun a => wp cfg (f a) Q) -> wp cfg (bind x f) Q.
Proof. destruct x; cbn [wp bind]; auto. Qed.

Lemma wp_mono {A} cfg (x : R A) (Q Q' : A -> Prop) :
  wp cfg x Q -> (forall a, Q a -> Q' a) -> wp cfg x Q'.
Proof. destruct x; cbn [wp]; auto. Qed.

Lemma wp_ok {A} cfg (a : A) (Q : A -> Prop) : Q a -> wp cfg (Ok a) Q.
Proof. auto. Qed.

Lemma wp_err {A} cfg (Q : A -> Prop) : wp cfg (Err tt) Q.
Proof. exact I. Qed.

Lemma wp_ok_inv {A} cfg (x : R A) Q a : wp cfg x Q -> x = Ok a -> Q a.
Proof. intros H ->. exact H. Qed.

Lemma wp_panic_inv {A} cfg (x : R A) Q t : wp cfg x Q -> x = Panic t -> okp cfg t.
Proof. intros H ->. exact H. Qed.

Lemma okp_add cfg : okp cfg P_ADD.
Proof. left; reflexivity. Qed.

(* ------------------------------------------------------------------ str_eqb *)
Lemma str_eqb_refl a : str_eqb a a = true.
Proof. induction a as [|x a IH]; cbn [str_eqb]; [reflexivity|]. rewrite N.eqb_refl, IH. reflexivity. Qed.

Lemma str_eqb_eq a b : str_eqb a b = true <-> a = b.
Proof.
  split; [|intros ->; apply str_eqb_refl].
  revert b. induction a as [|x a IH]; intros [|y b] H; cbn [str_eqb] in H; try discriminate; [reflexivity|].
  apply andb_true_iff in H. destruct H as [H1 H2]. apply N.eqb_eq in H1. apply IH in H2. now subst.
Qed.

Lemma str_eqb_neq a b : str_eqb a b = false <-> a <> b.
Proof.
  split.
  - intros H E. subst. rewrite str_eqb_refl in H. discriminate.
  - intros H. destruct (str_eqb a b) eqn:E; [|reflexivity]. apply str_eqb_eq in E. contradiction.
Qed.

(* ------------------------------------------------------------------ lenN *)
Lemma lenN_app' {A} (a b : list A) : lenN (a ++ b) = lenN a + lenN b.
Proof. unfold lenN. rewrite app_length. lia. Qed.
Lemma lenN_cons' {A} (x : A) (a : list A) : lenN (x :: a) = lenN a + 1.
Proof. unfold lenN. cbn [length]. lia. Qed.
Lemma lenN_map {A B} (f : A -> B) (l : list A) : lenN (map f l) = lenN l.
Proof. unfold lenN. now rewrite map_length. Qed.

(* ------------------------------------------------------------------ nthN / setN *)
Lemma nthN_nth_error {X} (l : list X) : forall i, nthN l i = nth_error l (N.to_nat i).
Proof.
  induction l as [|x l IH]; intros i; cbn [nthN].
  - destruct (N.to_nat i); reflexivity.
  - destruct (N.eqb_spec i 0) as [-> | Hne]; [reflexivity|].
    rewrite IH. replace (N.to_nat i) with (S (N.to_nat (i - 1))) by lia. reflexivity.
Qed.

Lemma nthN_lt {X} (l : list X) i : i < lenN l -> exists x, nthN l i = Some x.
Proof.
  intros H. rewrite nthN_nth_error. destruct (nth_error l (N.to_nat i)) eqn:E; [eauto|].
  apply nth_error_None in E. unfold lenN in H. lia.
Qed.

Lemma nthN_some_lt {X} (l : list X) i x : nthN l i = Some x -> i < lenN l.
Proof.
  rewrite nthN_nth_error. intros H.
  assert (nth_error l (N.to_nat i) <> None) as Hn by congruence.
  apply nth_error_Some in Hn. unfold lenN. lia.
Qed.

Lemma nthN_In {X} (l : list X) i x : nthN l i = Some x -> In x l.
Proof. rewrite nthN_nth_error. apply nth_error_In. Qed.

Lemma nthN_app_l {X} (l r : list X) i : i < lenN l -> nthN (l ++ r) i = nthN l i.
Proof. intros H. rewrite !nthN_nth_error. apply nth_error_app1. unfold lenN in H. lia. Qed.

Lemma nthN_app_len {X} (l : list X) x : nthN (l ++ [x]) (lenN l) = Some x.
Proof.
  rewrite nthN_nth_error. unfold lenN. rewrite Nat2N.id.
  rewrite nth_error_app2 by lia. rewrite Nat.sub_diag. reflexivity.
Qed.

Lemma nthN_app_ge {X} (l : list X) x i : nthN (l ++ [x]) i = Some x \/ nthN (l ++ [x]) i = nthN l i.
Proof.
  destruct (N.ltb_spec i (lenN l)) as [H | H]; [right; now apply nthN_app_l|].
  rewrite !nthN_nth_error. unfold lenN in H.
  destruct (N.eqb_spec i (N.of_nat (length l))) as [-> | Hne].
  - left. rewrite Nat2N.id, nth_error_app2 by lia. rewrite Nat.sub_diag. reflexivity.
  - right. transitivity (@None X).
    + apply nth_error_None. rewrite app_length. cbn [length]. lia.
    + symmetry. apply nth_error_None. lia.
Qed.

Lemma setN_length {X} (l : list X) : forall i v, length (setN l i v) = length l.
Proof.
  induction l as [|x l IH]; intros i v; cbn [setN]; [reflexivity|].
  destruct (i =? 0); cbn [length]; [reflexivity|]. now rewrite IH.
Qed.

Lemma lenN_setN {X} (l : list X) i v : lenN (setN l i v) = lenN l.
Proof. unfold lenN. now rewrite setN_length. Qed.

Lemma nthN_setN_eq {X} (l : list X) : forall i v, i < lenN l -> nthN (setN l i v) i = Some v.
Proof.
  induction l as [|x l IH]; intros i v H; [unfold lenN in H; cbn in H; lia|].
  cbn [setN]. destruct (N.eqb_spec i 0) as [-> | Hne]; [reflexivity|].
  cbn [nthN]. destruct (N.eqb_spec i 0); [lia|]. apply IH. rewrite lenN_cons' in H. lia.
Qed.

Lemma nthN_setN_neq {X} (l : list X) : forall i j v, i <> j -> nthN (setN l i v) j = nthN l j.
Proof.
  induction l as [|x l IH]; intros i j v H; [reflexivity|].
  cbn [setN]. destruct (N.eqb_spec i 0) as [-> | Hne]; cbn [nthN].
  - destruct (N.eqb_spec j 0); [lia|reflexivity].
  - destruct (N.eqb_spec j 0); [reflexivity|]. apply IH. lia.
Qed.

Lemma setN_same {X} (l : list X) : forall i v, nthN l i = Some v -> setN l i v = l.
Proof.
  induction l as [|x l IH]; intros i v H; [reflexivity|].
  cbn [setN nthN] in *. destruct (i =? 0); [now inversion H|]. f_equal. now apply IH.
Qed.

Lemma setN_oob {X} (l : list X) : forall i v, nthN l i = None -> setN l i v = l.
Proof.
  induction l as [|x l IH]; intros i v H; [reflexivity|].
  cbn [setN nthN] in *. destruct (i =? 0); [discriminate|]. f_equal. now apply IH.
Qed.

Lemma map_setN {X Y} (f : X -> Y) (l : list X) : forall i v, map f (setN l i v) = setN (map f l) i (f v).
Proof.
  induction l as [|x l IH]; intros i v; [reflexivity|].
  cbn [setN map]. destruct (i =? 0); cbn [map]; [reflexivity|]. now rewrite IH.
Qed.

Lemma nthN_map {X Y} (f : X -> Y) (l : list X) : forall i, nthN (map f l) i = option_map f (nthN l i).
Proof.
  induction l as [|x l IH]; intros i; [reflexivity|].
  cbn [map nthN]. destruct (i =? 0); [reflexivity|]. apply IH.
Qed.

Lemma In_setN {X} (l : list X) : forall i v x, In x (setN l i v) -> x = v \/ In x l.
Proof.
  induction l as [|y l IH]; intros i v x H; [destruct H|].
  cbn [setN] in H. destruct (i =? 0); cbn [In] in *.
  - destruct H as [<- | H]; auto.
  - destruct H as [<- | H]; auto. apply IH in H. tauto.
Qed.

Lemma Forall_setN {X} (P : X -> Prop) (l : list X) i v : Forall P l -> P v -> Forall P (setN l i v).
Proof.
  intros Hl Hv. apply Forall_forall. intros x Hx. apply In_setN in Hx. destruct Hx as [-> | Hx]; [exact Hv|].
  rewrite Forall_forall in Hl. now apply Hl.
Qed.

Lemma Forall_nthN {X} (P : X -> Prop) (l : list X) i x : Forall P l -> nthN l i = Some x -> P x.
Proof. intros Hl H. apply nthN_In in H. rewrite Forall_forall in Hl. now apply Hl. Qed.

(* ------------------------------------------------------------------ slabs *)
Definition isS {A} (o : option A) : bool := match o with Some _ => true | None => false end.
Definition shape {A} (s : slab A) : list bool := map isS (sl_items s).
Definition aligned {A B} (s1 : slab A) (s2 : slab B) : Prop :=
  shape s1 = shape s2 /\ sl_free s1 = sl_free s2.
Definition occ (sh : list bool) (k : N) : Prop := nthN sh k = Some true.
(** free-list entries are vacant slots, without repetition *)
Definition slab_wf {A} (s : slab A) : Prop :=
  NoDup (sl_free s) /\ forall k, In k (sl_free s) -> nthN (shape s) k = Some false.

Lemma occ_get {A} (s : slab A) k : occ (shape s) k <-> exists a, slab_get s k = Some a.
Proof.
  unfold occ, shape, slab_get. rewrite nthN_map.
  destruct (nthN (sl_items s) k) as [[a|]|]; cbn [option_map isS]; split; intros H;
    try discriminate; try (destruct H; discriminate); eauto.
Qed.

Lemma get_occ {A} (s : slab A) k a : slab_get s k = Some a -> occ (shape s) k.
Proof. intros H. apply occ_get. eauto. Qed.

Lemma aligned_get {A B} (s1 : slab A) (s2 : slab B) k a :
  aligned s1 s2 -> slab_get s1 k = Some a -> exists b, slab_get s2 k = Some b.
Proof. intros [H _] Hg. apply occ_get. rewrite <- H. eapply get_occ; eauto. Qed.

Lemma aligned_get_rev {A B} (s1 : slab A) (s2 : slab B) k b :
  aligned s1 s2 -> slab_get s2 k = Some b -> exists a, slab_get s1 k = Some a.
Proof. intros [H _] Hg. apply occ_get. rewrite H. eapply get_occ; eauto. Qed.

Lemma aligned_none {A B} (s1 : slab A) (s2 : slab B) k :
  aligned s1 s2 -> slab_get s1 k = None -> slab_get s2 k = None.
Proof.
  intros Ha Hg. destruct (slab_get s2 k) eqn:E; [|reflexivity].
  destruct (aligned_get_rev _ _ _ _ Ha E) as [a Ha']. congruence.
Qed.

Lemma shape_put {A} (s : slab A) k a a' : slab_get s k = Some a -> shape (slab_put s k a') = shape s.
Proof.
  intros H. unfold shape, slab_put. cbn [sl_items]. rewrite map_setN. apply setN_same.
  apply get_occ in H. exact H.
Qed.

Lemma free_put {A} (s : slab A) k a' : sl_free (slab_put s k a') = sl_free s.
Proof. reflexivity. Qed.

Lemma get_put_eq {A} (s : slab A) k a a' : slab_get s k = Some a -> slab_get (slab_put s k a') k = Some a'.
Proof.
  intros H. unfold slab_get, slab_put in *. cbn [sl_items].
  destruct (nthN (sl_items s) k) eqn:E; [|discriminate].
  apply nthN_some_lt in E. now rewrite nthN_setN_eq.
Qed.

Lemma get_put_neq {A} (s : slab A) k j a' : k <> j -> slab_get (slab_put s k a') j = slab_get s j.
Proof. intros H. unfold slab_get, slab_put. cbn [sl_items]. now rewrite nthN_setN_neq. Qed.

Lemma get_put_inv {A} (s : slab A) k j a a' x :
  slab_get s k = Some a -> slab_get (slab_put s k a') j = Some x ->
  (j = k /\ x = a') \/ (j <> k /\ slab_get s j = Some x).
Proof.
  intros Hk Hj. destruct (N.eq_dec j k) as [-> | Hne].
  - left. rewrite (get_put_eq _ _ _ _ Hk) in Hj. split; congruence.
  - right. rewrite get_put_neq in Hj by congruence. auto.
Qed.

Lemma slab_wf_put {A} (s : slab A) k a a' : slab_get s k = Some a -> slab_wf s -> slab_wf (slab_put s k a').
Proof. intros H [H1 H2]. unfold slab_wf. rewrite (shape_put _ _ _ _ H). auto. Qed.

Lemma slab_len_shape {A} (s : slab A) : slab_len s = lenN (filter (fun b => b) (shape s)).
Proof.
  unfold slab_len, shape, lenN. f_equal. f_equal.
  induction (sl_items s) as [|[a|] l IH]; cbn [filter map isS length]; auto.
Qed.

Lemma slab_len_put {A} (s : slab A) k a a' : slab_get s k = Some a -> slab_len (slab_put s k a') = slab_len s.
Proof. intros H. rewrite !slab_len_shape. now rewrite (shape_put _ _ _ _ H). Qed.

(** key and shape produced by an insert, as functions of shape and free list only *)
Definition ins_key (sh : list bool) (fr : list N) : N :=
  match fr with k :: _ => k | [] => lenN sh end.
Definition ins_shape (sh : list bool) (fr : list N) : list bool :=
  match fr with k :: _ => setN sh k true | [] => sh ++ [true] end.

Lemma insert_shape {A} (s s' : slab A) a k :
  slab_insert s a = (s', k) ->
  k = ins_key (shape s) (sl_free s) /\ shape s' = ins_shape (shape s) (sl_free s) /\
  sl_free s' = tl (sl_free s).
Proof.
  unfold slab_insert, ins_key, ins_shape, shape. destruct (sl_free s) as [|f fr]; intros H; inversion H; subst; cbn [sl_items sl_free tl].
  - rewrite lenN_map, map_app. auto.
  - rewrite map_setN. auto.
Qed.

Lemma aligned_insert {A B} (s1 s1' : slab A) (s2 s2' : slab B) a b k1 k2 :
  aligned s1 s2 -> slab_insert s1 a = (s1', k1) -> slab_insert s2 b = (s2', k2) ->
  k1 = k2 /\ aligned s1' s2'.
Proof.
  intros [Hs Hf] H1 H2. apply insert_shape in H1, H2.
  destruct H1 as (-> & H1 & H1'), H2 as (-> & H2 & H2'). unfold aligned.
  rewrite H1, H2, H1', H2', Hs, Hf. auto.
Qed.

Lemma insert_spec {A} (s s' : slab A) a k :
  slab_wf s -> slab_insert s a = (s', k) ->
  slab_get s k = None /\ slab_get s' k = Some a /\
  (forall j, j <> k -> slab_get s' j = slab_get s j) /\
  slab_wf s' /\ slab_len s' = slab_len s + 1.
Proof.
  intros [Hnd Hfree] H. unfold slab_insert in H. destruct (sl_free s) as [|f fr] eqn:Ef; inversion H; subst; clear H.
  - assert (Hnone : nthN (sl_items s) (lenN (sl_items s)) = None).
    { rewrite nthN_nth_error. apply nth_error_None. unfold lenN. lia. }
    split; [unfold slab_get; now rewrite Hnone|].
    split; [unfold slab_get; cbn [sl_items]; now rewrite nthN_app_len|].
    split.
    { intros j Hj. unfold slab_get. cbn [sl_items].
      destruct (nthN_app_ge (sl_items s) (Some a) j) as [E | E]; [|now rewrite E].
      destruct (N.ltb_spec j (lenN (sl_items s))) as [Hlt | Hge]; [now rewrite nthN_app_l|].
      exfalso. rewrite nthN_nth_error in E.
      assert (N.to_nat j < length (sl_items s ++ [Some a]))%nat as Hl by (apply nth_error_Some; congruence).
      rewrite app_length in Hl. cbn [length] in Hl. unfold lenN in *. lia. }
    split.
    { split; cbn [sl_free]; [constructor|]. intros k' []. }
    rewrite !slab_len_shape. unfold shape. cbn [sl_items]. rewrite map_app, filter_app. cbn [map isS filter].
    rewrite lenN_app'. reflexivity.
  - assert (Hk : nthN (shape s) k = Some false) by (apply Hfree; left; reflexivity).
    assert (Hlt : k < lenN (sl_items s)).
    { apply nthN_some_lt in Hk. unfold shape in Hk. now rewrite lenN_map in Hk. }
    assert (Hkn : nthN (sl_items s) k = Some None).
    { unfold shape in Hk. rewrite nthN_map in Hk. destruct (nthN (sl_items s) k) as [[x|]|]; cbn in Hk; congruence. }
    split; [unfold slab_get; now rewrite Hkn|].
    split; [unfold slab_get; cbn [sl_items]; now rewrite nthN_setN_eq|].
    split; [intros j Hj; unfold slab_get; cbn [sl_items]; rewrite nthN_setN_neq by congruence; reflexivity|].
    split.
    { inversion Hnd as [|? ? Hnin Hnd']; subst. split; cbn [sl_free]; [exact Hnd'|].
      intros k' Hin. unfold shape. cbn [sl_items]. rewrite map_setN.
      rewrite nthN_setN_neq by (intros ->; contradiction). apply Hfree. now right. }
    rewrite !slab_len_shape. unfold shape. cbn [sl_items]. rewrite map_setN. cbn [isS].
    fold (shape s). revert Hk. generalize (shape s) as sh. clear. intros sh. revert k.
    induction sh as [|b sh IH]; intros k Hk; [discriminate|].
    cbn [nthN setN] in *. destruct (k =? 0).
    + inversion Hk; subst. cbn [filter]. rewrite lenN_cons'. reflexivity.
    + destruct b; cbn [filter]; rewrite ?lenN_cons'; rewrite (IH _ Hk); reflexivity.
Qed.

Lemma remove_spec {A} (s s' : slab A) a k :
  slab_remove s k = Some (s', a) ->
  slab_get s k = Some a /\ slab_get s' k = None /\
  (forall j, j <> k -> slab_get s' j = slab_get s j) /\
  shape s' = setN (shape s) k false /\ sl_free s' = k :: sl_free s /\
  (slab_wf s -> slab_wf s') /\ slab_len s' + 1 = slab_len s.
Proof.
  unfold slab_remove. destruct (slab_get s k) as [a0|] eqn:E; [|discriminate]. intros H; inversion H; subst; clear H.
  assert (Hocc : occ (shape s) k) by (eapply get_occ; eauto).
  assert (Hlt : k < lenN (sl_items s)).
  { apply nthN_some_lt in Hocc. unfold shape in Hocc. now rewrite lenN_map in Hocc. }
  split; [reflexivity|].
  split; [unfold slab_get; cbn [sl_items]; now rewrite nthN_setN_eq|].
  split; [intros j Hj; unfold slab_get; cbn [sl_items]; rewrite nthN_setN_neq by congruence; reflexivity|].
  assert (Hsh : shape {| sl_items := setN (sl_items s) k None; sl_free := k :: sl_free s |} = setN (shape s) k false).
  { unfold shape. cbn [sl_items]. now rewrite map_setN. }
  split; [exact Hsh|]. split; [reflexivity|].
  split.
  - intros [Hnd Hfree]. split; cbn [sl_free].
    + constructor; [|exact Hnd]. intros Hin. apply Hfree in Hin. unfold occ in Hocc. congruence.
    + intros k' [<- | Hin]; rewrite Hsh.
      * apply nthN_setN_eq. unfold shape. now rewrite lenN_map.
      * rewrite nthN_setN_neq; [now apply Hfree|]. intros ->. apply Hfree in Hin. unfold occ in Hocc. congruence.
  - rewrite !slab_len_shape, Hsh. revert Hocc. unfold occ. generalize (shape s) as sh. clear. intros sh. revert k.
    induction sh as [|b sh IH]; intros k Hk; [discriminate|].
    cbn [nthN setN] in *. destruct (k =? 0).
    + inversion Hk; subst. cbn [filter]. rewrite lenN_cons'. reflexivity.
    + destruct b; cbn [filter]; rewrite ?lenN_cons'; rewrite <- (IH _ Hk); reflexivity.
Qed.

Lemma aligned_remove {A B} (s1 s1' : slab A) (s2 : slab B) a k :
  aligned s1 s2 -> slab_remove s1 k = Some (s1', a) ->
  exists s2' b, slab_remove s2 k = Some (s2', b) /\ aligned s1' s2'.
Proof.
  intros Hal H. pose proof (remove_spec _ _ _ _ H) as (Hg & _ & _ & Hsh & Hfr & _).
  destruct (aligned_get _ _ _ _ Hal Hg) as [b Hb].
  assert (Hr2 : slab_remove s2 k = Some ({| sl_items := setN (sl_items s2) k None; sl_free := k :: sl_free s2 |}, b)).
  { unfold slab_remove. now rewrite Hb. }
  eexists _, _. split; [exact Hr2|].
  pose proof (remove_spec _ _ _ _ Hr2) as (_ & _ & _ & Hsh2 & Hfr2 & _).
  destruct Hal as [Hs Hf]. split.
  - rewrite Hsh, Hsh2. now rewrite Hs.
  - rewrite Hfr, Hfr2. now rewrite Hf.
Qed.

Lemma aligned_put_l {A B} (s1 : slab A) (s2 : slab B) k a a' :
  slab_get s1 k = Some a -> aligned s1 s2 -> aligned (slab_put s1 k a') s2.
Proof. intros H [H1 H2]. split; [now rewrite (shape_put _ _ _ _ H)|exact H2]. Qed.
Lemma aligned_put_r {A B} (s1 : slab A) (s2 : slab B) k b b' :
  slab_get s2 k = Some b -> aligned s1 s2 -> aligned s1 (slab_put s2 k b').
Proof. intros H [H1 H2]. split; [now rewrite (shape_put _ _ _ _ H)|exact H2]. Qed.

(* ------------------------------------------------------------------ association lists *)
Section AL.
Context {K V : Type} (keq : K -> K -> bool).

Lemma al_get_In k (m : list (K * V)) v : al_get keq k m = Some v -> exists k', In (k', v) m.
Proof.
  induction m as [|[k' v'] m IH]; cbn [al_get]; [discriminate|].
  destruct (keq k k'); intros H.
  - inversion H; subst. exists k'. now left.
  - destruct (IH H) as [k'' Hin]. exists k''. now right.
Qed.

Lemma al_get_Forall (P : K * V -> Prop) k m v :
  Forall P m -> al_get keq k m = Some v -> exists k', P (k', v).
Proof.
  intros HF H. apply al_get_In in H. destruct H as [k' Hin]. exists k'.
  rewrite Forall_forall in HF. now apply HF.
Qed.

Lemma In_al_set k v (m : list (K * V)) x : In x (al_set keq k v m) -> snd x = v \/ In x m.
Proof.
  induction m as [|[k' v'] m IH]; cbn [al_set].
  - intros [<- | []]. now left.
  - destruct (keq k k'); cbn [In].
    + intros [<- | H]; auto.
    + intros [<- | H]; auto. apply IH in H. tauto.
Qed.

Lemma In_al_remove k (m : list (K * V)) x : In x (al_remove keq k m) -> In x m.
Proof.
  induction m as [|[k' v'] m IH]; cbn [al_remove]; [auto|].
  destruct (keq k k'); cbn [In]; [auto|]. intros [<- | H]; auto.
Qed.

Lemma Forall_al_set (P : V -> Prop) k v m :
  Forall (fun kv => P (snd kv)) m -> P v -> Forall (fun kv => P (snd kv)) (al_set keq k v m).
Proof.
  intros HF Hv. apply Forall_forall. intros x Hx. apply In_al_set in Hx. destruct Hx as [-> | Hx]; [exact Hv|].
  rewrite Forall_forall in HF. now apply HF.
Qed.

Lemma Forall_al_remove (P : K * V -> Prop) k m : Forall P m -> Forall P (al_remove keq k m).
Proof.
  intros HF. apply Forall_forall. intros x Hx. apply In_al_remove in Hx.
  rewrite Forall_forall in HF. now apply HF.
Qed.

Lemma al_get_Forall_snd (P : V -> Prop) k m v :
  Forall (fun kv => P (snd kv)) m -> al_get keq k m = Some v -> P v.
Proof. intros HF H. destruct (al_get_Forall _ _ _ _ HF H) as [k' Hp]. exact Hp. Qed.
End AL.

Lemma al_get_set_eq {V} k (v : V) m : al_get str_eqb k (al_set str_eqb k v m) = Some v.
Proof.
  induction m as [|[k' v'] m IH]; cbn [al_set al_get]; [now rewrite str_eqb_refl|].
  destruct (str_eqb k k') eqn:E; cbn [al_get]; rewrite E; [reflexivity|exact IH].
Qed.

Lemma al_get_set_neq {V} k k2 (v : V) m : k2 <> k -> al_get str_eqb k2 (al_set str_eqb k v m) = al_get str_eqb k2 m.
Proof.
  intros Hne. induction m as [|[k' v'] m IH]; cbn [al_set al_get].
  - apply str_eqb_neq in Hne. now rewrite Hne.
  - destruct (str_eqb k k') eqn:E; cbn [al_get].
    + apply str_eqb_eq in E. subst k'. apply str_eqb_neq in Hne. now rewrite Hne.
    + destruct (str_eqb k2 k'); [reflexivity|exact IH].
Qed.

Lemma al_get_remove_neq {V} k k2 (m : list (str * V)) : k2 <> k -> al_get str_eqb k2 (al_remove str_eqb k m) = al_get str_eqb k2 m.
Proof.
  intros Hne. induction m as [|[k' v'] m IH]; cbn [al_remove al_get]; [reflexivity|].
  destruct (str_eqb k k') eqn:E; cbn [al_get].
  - apply str_eqb_eq in E. subst k'. apply str_eqb_neq in Hne. now rewrite Hne.
  - destruct (str_eqb k2 k'); [reflexivity|exact IH].
Qed.

Lemma Forall_al_set_str {V} (P : str * V -> Prop) k v m :
  Forall P m -> P (k, v) -> Forall P (al_set str_eqb k v m).
Proof.
  intros HF Hv. induction m as [|[k' v'] m IH]; cbn [al_set]; [constructor; auto|].
  inversion HF; subst. destruct (str_eqb k k') eqn:E.
  - apply str_eqb_eq in E. subst. constructor; auto.
  - constructor; auto.
Qed.

Lemma al_get_In_str {V} k (m : list (str * V)) v : al_get str_eqb k m = Some v -> In (k, v) m.
Proof.
  induction m as [|[k' v'] m IH]; cbn [al_get]; [discriminate|].
  destruct (str_eqb k k') eqn:E; intros H.
  - apply str_eqb_eq in E. inversion H; subst. now left.
  - right. auto.
Qed.

(* ------------------------------------------------------------------ misc list facts *)
Lemma Forall_filter {X} (P : X -> Prop) f (l : list X) : Forall P l -> Forall P (filter f l).
Proof.
  intros H. apply Forall_forall. intros x Hx. apply filter_In in Hx. rewrite Forall_forall in H. now apply H.
Qed.

Lemma split_last_n_app l x : split_last_n (l ++ [x]) = Some (l, x).
Proof.
  induction l as [|y l IH]; cbn [app split_last_n]; [reflexivity|]. now rewrite IH.
Qed.

Lemma split_last_n_spec l i a : split_last_n l = Some (i, a) -> l = i ++ [a].
Proof.
  revert i a. induction l as [|x l IH]; intros i a; cbn [split_last_n]; [discriminate|].
  destruct (split_last_n l) as [[i' a']|] eqn:E.
  - intros H; inversion H; subst. cbn [app]. f_equal. now apply IH.
  - intros H; inversion H; subst. destruct l; [reflexivity|]. cbn [split_last_n] in E.
    destruct (split_last_n l) as [[? ?]|]; discriminate.
Qed.
