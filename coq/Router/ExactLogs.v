(** C01 exactness — the log part of the invariant on its own, with no resource hypothesis:
    every filter log stays well-formed for a ghost history that only grows, the slab of logs
    never frees a key, issued cursors stay issued ([dl_le]).  This is what lets a bound on the
    FINAL state of a run ([Bounded]) be inherited by every earlier state. *)
From Rumqtt Require Import Log.Spec Log.Proofs Router.ExactLog.
From Rumqtt Require Import Topic.Proofs Router.WindowFrame Router.Window Router.DataLogInv Router.DataLogStep
                           Router.ExactInv Router.ExactStep1.
From Rumqtt Require Import Router.Model Router.RunDefs.
From Coq Require Import ZifyBool ZifyN ZifyNat.

Definition LL (st st' : rstate) : Prop :=
  LogsInv (r_datalog st) -> LogsInv (r_datalog st') /\ dl_le (r_datalog st) (r_datalog st').

Lemma LL_refl st : LL st st.
Proof. intros LI. split; [exact LI|apply dl_le_refl]. Qed.
Lemma LL_trans a b c : LL a b -> LL b c -> LL a c.
Proof. intros H1 H2 LI. destruct (H1 LI) as [LI1 L1]. destruct (H2 LI1) as [LI2 L2]. split; [exact LI2|eapply dl_le_trans; eassumption]. Qed.
Lemma LL_SL st st' : SL st st' -> LL st st'.
Proof. intros HS LI. split; [eapply logsinv_same_logs; eassumption|now apply dl_le_same_logs]. Qed.
Lemma LL_eq st st' : r_datalog st' = r_datalog st -> LL st st'.
Proof. intros E. apply LL_SL. now apply SL_eq. Qed.

Lemma LL_aux st st' :
  dl_native (r_datalog st') = dl_native (r_datalog st) -> dl_findex (r_datalog st') = dl_findex (r_datalog st) -> LL st st'.
Proof.
  intros Hn Hf LI. split.
  - constructor; [rewrite Hn; apply (li_nofree _ LI)|]. intros i d. unfold nget. rewrite Hn. apply (li_wf _ LI).
  - split; [|now rewrite Hf]. intros i d Hd. exists d. unfold nget in *. rewrite Hn. split; [exact Hd|].
    split; [reflexivity|apply log_le_refl].
Qed.

Lemma next_native_offset_LL st f st' idx cu : next_native_offset st f = Ok (st', idx, cu) -> LL st st'.
Proof.
  intros H LI. unfold next_native_offset in H.
  destruct (al_get str_eqb f (dl_findex (r_datalog st))) as [i|] eqn:Ef.
  - apply bind_ok in H as (d & Hd & H). apply bind_ok in H as (c & Hc & H). inv_ok. now apply LL_refl.
  - apply bind_ok in H as (d & Hd & H). destruct (data_new_wf _ _ _ Hd) as (W & Hw & _).
    destruct (slab_insert (dl_native (r_datalog st)) d) as [native' k] eqn:Ei.
    apply bind_ok in H as (pf & Hpf & H). apply bind_ok in H as (c & Hc & H). inv_ok.
    pose proof (li_nofree _ LI) as Hfr.
    destruct (nget_insert _ _ _ _ Hfr Ei) as (Hk & Hfr' & Hg & Hnone).
    cbn [r_datalog set_r_datalog]. split; [|eapply dl_le_new; eassumption].
    constructor; [exact Hfr'|]. intros j d0. unfold nget. cbn [dl_native]. rewrite Hg.
    destruct (j =? idx); [intros E; inversion E; subst; eauto|]. apply (li_wf _ LI).
Qed.

Lemma data_append_LL st idx item st' : data_append st idx item = Ok st' -> LL st st'.
Proof.
  intros H LI. unfold data_append in H.
  apply bind_ok in H as (d & Hd & H). apply native_get_Some in Hd.
  apply bind_ok in H as ([l' off] & Happ & H). inv_ok. cbn [r_datalog set_r_datalog set_r_notif].
  set (d' := {| d_filter := d_filter d; d_log := l'; d_waiters := [] |}).
  set (dl' := set_dl_native (r_datalog st) (slab_put (dl_native (r_datalog st)) idx d')).
  assert (Hget : forall j, nget dl' j = if j =? idx then Some d' else nget (r_datalog st) j).
  { intros j. unfold nget. cbn [dl' set_dl_native dl_native]. destruct (N.eqb_spec j idx) as [-> | Hne].
    - eapply slab_get_put_occ; eassumption.
    - apply slab_get_put_other. congruence. }
  split.
  - constructor; [apply (li_nofree _ LI)|]. intros j d0. rewrite Hget. destruct (j =? idx).
    + intros E; inversion E; subst d0. destruct (li_wf _ LI _ _ Hd) as [all W].
      destruct (append_ok_spec pubdata_size _ _ _ _ _ W Happ) as (_ & W' & _). eauto.
    + apply (li_wf _ LI).
  - split; [|auto]. intros j d0 H0. rewrite Hget. destruct (N.eqb_spec j idx) as [-> | Hne].
    + unfold nget in H0. rewrite Hd in H0. inversion H0; subst d0. exists d'. split; [reflexivity|].
      split; [reflexivity|]. eapply log_le_append; eassumption.
    + exists d0. split; [exact H0|]. split; [reflexivity|apply log_le_refl].
Qed.

Lemma append_all_LL item : forall idxs st st', append_all st idxs item = Ok st' -> LL st st'.
Proof.
  induction idxs as [|i r IH]; intros st st' H; cbn [append_all] in H.
  - inv_ok. apply LL_refl.
  - apply bind_ok in H as (st1 & H1 & H). eapply LL_trans; [eapply data_append_LL; eassumption|eapply IH; eassumption].
Qed.

Lemma dl_matches_LL st t st' v : dl_matches st t = Ok (st', v) -> LL st st'.
Proof.
  intros H. unfold dl_matches in H.
  destruct (al_get str_eqb t (dl_pfilters (r_datalog st))); [inv_ok; apply LL_refl|].
  apply bind_ok in H as (base & _ & H). apply bind_ok in H as ([v1 orc] & _ & H). inv_ok.
  destruct v; apply LL_aux; reflexivity.
Qed.

Lemma append_to_commitlog_LL st id p props st' res : append_to_commitlog st id p props = Ok (st', res) -> LL st st'.
Proof.
  unfold append_to_commitlog. intros H.
  apply bind_ok in H as (conn & Hc & H).
  match type of H with (if ?b then _ else _) = _ => destruct b end; [inv_ok; apply LL_refl|].
  apply bind_ok in H as (sp & Hsp & H). destruct sp as [[st1 p1]|reason]; [|inv_ok; apply LL_refl].
  assert (D1 : r_datalog st1 = r_datalog st).
  { clear H. break_all Hsp; inv_ok; reflexivity. }
  destruct (negb (utf8_valid (p_topic p1))); [inv_ok; now apply LL_eq|].
  apply bind_ok in H as ([st3 idxs] & H3 & H). apply bind_ok in H as (st4 & H4 & H). inv_ok.
  eapply LL_trans; [apply LL_eq; exact D1|]. eapply LL_trans; [apply LL_SL; apply retain_update_same|].
  eapply LL_trans; [eapply dl_matches_LL; eassumption|eapply append_all_LL; eassumption].
Qed.

Lemma subscribe_filters_LL id subid : forall fs st fl codes st' fl' codes',
  subscribe_filters st id fs subid fl codes = Ok (st', fl', codes') -> LL st st'.
Proof.
  induction fs as [|[path qos] r IH]; intros st fl codes st' fl' codes' H; cbn [subscribe_filters] in H.
  - inv_ok. apply LL_refl.
  - destruct (negb (validate_subscription path)); [inv_ok; apply LL_refl|].
    destruct (extract_group path) as [[g p]|].
    + destruct (match subid with Some 0 => true | _ => false end); [inv_ok; apply LL_refl|].
      apply bind_ok in H as ([[st1 idx] cu] & H1 & H). apply bind_ok in H as (st2 & H2 & H).
      eapply LL_trans; [eapply next_native_offset_LL; eassumption|].
      eapply LL_trans; [apply LL_eq; eapply prepare_filter_dl; eassumption|eapply IH; eassumption].
    + destruct (match subid with Some 0 => true | _ => false end); [inv_ok; apply LL_refl|].
      apply bind_ok in H as ([[st1 idx] cu] & H1 & H). apply bind_ok in H as (st2 & H2 & H).
      eapply LL_trans; [eapply next_native_offset_LL; eassumption|].
      eapply LL_trans; [apply LL_eq; eapply prepare_filter_dl; eassumption|eapply IH; eassumption].
Qed.

Lemma handle_packet_LL st id client pk fl st' fl' brk : handle_packet st id client pk fl = Ok (st', fl', brk) -> LL st st'.
Proof.
  intros H. destruct pk; cbn [handle_packet] in H.
  - destruct (p_qos p =? 1).
    + apply bind_ok in H as (st1 & H1 & H). apply bind_ok in H as ([st2 res] & H2 & H).
      eapply LL_trans; [apply LL_eq; eapply commit_ack_dl; eassumption|].
      destruct res; inv_ok; eapply append_to_commitlog_LL; eassumption.
    + destruct (p_qos p =? 2).
      * apply bind_ok in H as (l & _ & H). inv_ok. now apply LL_eq.
      * apply bind_ok in H as ([st2 res] & H2 & H). destruct res; inv_ok; eapply append_to_commitlog_LL; eassumption.
  - apply bind_ok in H as ([[st1 fl1] codes] & H1 & H). apply bind_ok in H as (st2 & H2 & H). inv_ok.
    eapply LL_trans; [eapply subscribe_filters_LL; eassumption|apply LL_eq; eapply commit_ack_dl; eassumption].
  - apply bind_ok in H as (c & _ & H). apply bind_ok in H as ([st1 reasons] & H1 & H).
    apply bind_ok in H as (st2 & H2 & H). inv_ok.
    eapply LL_trans; [apply LL_SL; eapply unsubscribe_filters_SL; eassumption|apply LL_eq; eapply commit_ack_dl; eassumption].
  - apply bind_ok in H as (o & Ho & H). destruct (register_ack o pkid) as [o' ok]. destruct ok.
    + apply bind_ok in H as (st2 & H2 & H). inv_ok. apply LL_eq. now rewrite (reschedule_dl _ _ _ _ H2).
    + inv_ok. now apply LL_eq.
  - apply bind_ok in H as (o & Ho & H). destruct (register_ack o pkid) as [o' ok]. destruct ok.
    + apply bind_ok in H as (l & _ & H). apply bind_ok in H as (st2 & H2 & H). apply bind_ok in H as (st3 & H3 & H). inv_ok.
      apply LL_eq. now rewrite (reschedule_dl _ _ _ _ H3), (commit_ack_dl _ _ _ _ H2).
    + inv_ok. now apply LL_eq.
  - apply bind_ok in H as (l & _ & H). destruct (a_recorded l) as [|[p0 pr0] rec].
    + inv_ok. now apply LL_eq.
    + apply bind_ok in H as ([st2 res] & H2 & H).
      eapply LL_trans; [|eapply LL_trans; [eapply append_to_commitlog_LL; exact H2|]]; [now apply LL_eq|].
      destruct res.
      * apply bind_ok in H as (st3 & H3 & H). inv_ok. apply LL_eq. eapply reschedule_dl; eassumption.
      * inv_ok. apply LL_refl.
  - apply bind_ok in H as (o & Ho & H). destruct (register_pubcomp o pkid) as [o' ok]. destruct ok; inv_ok; now apply LL_eq.
  - apply bind_ok in H as (st1 & H1 & H). inv_ok. apply LL_eq. eapply commit_ack_dl; eassumption.
  - inv_ok. now apply LL_eq.
  - inv_ok. apply LL_refl.
Qed.

Lemma handle_packets_LL id client : forall pks st fl st' fl',
  handle_packets st id client pks fl = Ok (st', fl') -> LL st st'.
Proof.
  induction pks as [|pk r IH]; intros st fl st' fl' H; cbn [handle_packets] in H.
  - inv_ok. apply LL_refl.
  - apply bind_ok in H as ([[st1 fl1] brk] & H1 & H).
    eapply LL_trans; [eapply handle_packet_LL; eassumption|]. destruct brk; [inv_ok; apply LL_refl|eapply IH; eassumption].
Qed.

Lemma handle_device_payload_LL st id st' : handle_device_payload st id = Ok st' -> LL st st'.
Proof.
  unfold handle_device_payload. intros H.
  destruct (slab_get (r_ibufs st) id) as [inc|]; [|inv_ok; apply LL_refl].
  apply bind_ok in H as (b & _ & H). apply bind_ok in H as ([st1 fl] & H1 & H).
  apply bind_ok in H as (st2 & H2 & H). apply bind_ok in H as (st3 & H3 & H).
  eapply LL_trans; [|eapply LL_trans; [eapply handle_packets_LL; exact H1|]]; [now apply LL_eq|].
  eapply LL_trans; [apply LL_eq; destruct (f_force_ack fl); [eapply reschedule_dl; eassumption|now inv_ok]|].
  eapply LL_trans; [apply LL_eq; destruct (f_new_data fl); [eapply drain_notifications_dl; eassumption|now inv_ok]|].
  destruct (f_disconnect fl); [|inv_ok; apply LL_refl]. apply LL_SL. eapply handle_disconnection_SL; eassumption.
Qed.

Lemma handle_last_will_LL st client st' : handle_last_will st client = Ok st' -> LL st st'.
Proof.
  unfold handle_last_will. intros H.
  destruct (al_get str_eqb client (r_wills st)) as [w|]; [|inv_ok; apply LL_refl].
  destruct (negb (utf8_valid _)); [inv_ok; now apply LL_eq|].
  match type of H with (if ?b then _ else _) = _ => destruct b end; [inv_ok; now apply LL_eq|].
  apply bind_ok in H as ([st3 idxs] & H3 & H). apply bind_ok in H as (st4 & H4 & H).
  eapply LL_trans; [|eapply LL_trans; [eapply dl_matches_LL; exact H3|]].
  - eapply LL_trans; [|apply LL_SL; apply retain_update_same]. now apply LL_eq.
  - eapply LL_trans; [eapply append_all_LL; eassumption|apply LL_eq; eapply drain_notifications_dl; eassumption].
Qed.

(* ------------------------------------------------------------------ consume never touches a log *)
Lemma push_out_dl' st k ns st' n : push_out st k ns = Ok (st', n) -> r_datalog st' = r_datalog st.
Proof. apply push_out_dl. Qed.

Lemma fdd_push_dl st1 id o conn sg rq2 publishes caughtup st' rq' cs :
  fdd_push st1 id o conn sg rq2 publishes caughtup = Ok (st', rq', cs) -> r_datalog st' = r_datalog st1.
Proof.
  unfold fdd_push. intros H. cbv zeta in H.
  destruct (2 <? dr_qos rq2); [discriminate|].
  destruct (alias_forwards _ _ _ publishes) as [bal forwards].
  match type of H with (match ?x with _ => _ end) = _ => destruct x as [o1 notifs] end.
  apply bind_ok in H as ([st4 len] & H4 & H). apply bind_ok in H as (st5 & H5 & H).
  pose proof (push_out_dl _ _ _ _ _ H4) as D4. cbn [r_datalog put_obuf put_conn set_r_obufs set_r_conns] in D4.
  assert (D5 : r_datalog st5 = r_datalog st4).
  { destruct sg as [[name g0]|]; [|now inv_ok].
    destruct (al_get str_eqb name (r_groups st4)) as [g|]; [|now inv_ok].
    apply bind_ok in H5 as ([st6 g'] & H6 & H5). inv_ok. cbn [r_datalog set_r_groups].
    now destruct (update_next_client_dl _ _ _ _ H6). }
  destruct (MAX_CHANNEL_CAPACITY - 1 <=? len).
  - apply bind_ok in H as ([st6 n6] & H6 & H). inv_ok. rewrite (push_out_dl _ _ _ _ _ H6). congruence.
  - inv_ok. congruence.
Qed.

Lemma fdd_dl st id rq st' rq' cs : forward_device_data st id rq = Ok (st', rq', cs) -> r_datalog st' = r_datalog st.
Proof.
  rewrite fdd_alt_eq. unfold fdd_alt. intros H.
  apply bind_ok in H as (o & _ & H). apply bind_ok in H as (conn & _ & H). cbv zeta in H.
  apply bind_ok in H as (slots0 & _ & H).
  match type of H with (if ?b then _ else _) = _ => destruct b end; [now inv_ok|].
  apply bind_ok in H as ([[[st1 rq1] retained] slots2] & HR & H).
  assert (D1 : r_datalog st1 = r_datalog st).
  { unfold fdd_retained in HR. match type of HR with (if ?b then _ else _) = _ => destruct b end; [|now inv_ok].
    apply bind_ok in HR as ([st2 rs] & HR1 & HR). cbv zeta in HR. inv_ok. now destruct (read_retained_dl _ _ _ _ HR1). }
  apply bind_ok in H as (d & _ & H). apply bind_ok in H as ([pos from_log] & _ & H).
  destruct (match pos with Next s e => (s, e, false) | Done s e => (s, e, true) end) as [[start next] caughtup].
  match type of H with (if ?b then _ else _) = _ => destruct b end; [now inv_ok|].
  match type of H with match ?l with [] => _ | _ => _ end = _ => destruct l end; [now inv_ok|].
  rewrite (fdd_push_dl _ _ _ _ _ _ _ _ _ _ _ H). exact D1.
Qed.

Lemma consume_loop_SL id : forall fuel st requests skipped st',
  consume_loop fuel st id requests skipped = Ok st' -> SL st st'.
Proof.
  induction fuel as [|fuel IH]; cbn [consume_loop]; intros st requests skipped st' H.
  - apply SL_eq. eapply trackv_dl; eassumption.
  - destruct requests as [|rq rest].
    + apply bind_ok in H as (st1 & H1 & H). apply SL_eq. rewrite (trackv_dl _ _ _ _ H).
      destruct skipped; [eapply pause_dl; eassumption|now inv_ok].
    + apply bind_ok in H as ([[st1 rq'] status] & H1 & H). pose proof (fdd_dl _ _ _ _ _ _ H1) as D1.
      eapply SL_trans; [apply SL_eq; exact D1|].
      destruct status.
      * apply bind_ok in H as (st2 & H2 & H). apply SL_eq. now rewrite (trackv_dl _ _ _ _ H), (pause_dl _ _ _ _ H2).
      * apply bind_ok in H as (st2 & H2 & H). apply SL_eq. now rewrite (trackv_dl _ _ _ _ H), (pause_dl _ _ _ _ H2).
      * apply bind_ok in H as (st2 & H2 & H). eapply SL_trans; [eapply park_same; eassumption|eapply IH; eassumption].
      * eapply IH; eassumption.
      * eapply IH; eassumption.
Qed.

Lemma consume_SL st st' b : consume st = Ok (st', b) -> SL st st'.
Proof.
  unfold consume. intros H.
  destruct (r_ready st) as [|id rq]; [inv_ok; now apply SL_eq|].
  cbn [r_trackers set_r_ready] in H.
  destruct (slab_get (r_trackers st) id) as [t|]; [|inv_ok; now apply SL_eq].
  match type of H with (match ?x with _ => _ end) = _ => destruct x as [o|] end; [|inv_ok; now apply SL_eq].
  apply bind_ok in H as (st3 & H3 & H). apply bind_ok in H as (u & _ & H). apply bind_ok in H as (st4 & H4 & H). inv_ok.
  eapply SL_trans; [|eapply consume_loop_SL; eassumption]. apply SL_eq. rewrite (ack_device_data_dl _ _ _ _ H3). reflexivity.
Qed.

(* ------------------------------------------------------------------ steps and runs *)
Theorem step_LL st o st' out : step st o = Ok (st', out) -> LL st st'.
Proof.
  intros H. destruct o; cbn [step] in H.
  - apply bind_ok in H as (st2 & H2 & H). inv_ok. apply LL_SL.
    eapply SL_trans; [|eapply handle_new_connection_SL; eassumption]. now apply SL_eq.
  - destruct (nthN (r_links st) link); inv_ok; now apply LL_eq.
  - apply bind_ok in H as (st1 & H1 & H). inv_ok. eapply handle_device_payload_LL; eassumption.
  - apply bind_ok in H as ([st1 b] & H1 & H). inv_ok. apply LL_SL. eapply consume_SL; eassumption.
  - destruct (nthN (r_links st) link); inv_ok; now apply LL_eq.
  - destruct (slab_get (r_trackers st) id); [|inv_ok; apply LL_refl].
    apply bind_ok in H as (st1 & H1 & H). inv_ok. apply LL_eq. eapply reschedule_dl; eassumption.
  - apply bind_ok in H as (st1 & H1 & H). inv_ok. apply LL_SL. eapply handle_disconnection_SL; eassumption.
  - apply bind_ok in H as (st1 & H1 & H). inv_ok. apply LL_eq. eapply retrieve_shadow_dl; eassumption.
  - apply bind_ok in H as (st1 & H1 & H). inv_ok. eapply handle_last_will_LL; eassumption.
  - inv_ok. apply LL_refl.
Qed.

Theorem step_with_LL st orc o st' out : step_with st orc o = Ok (st', out) -> LL st st'.
Proof.
  unfold step_with. intros H. apply bind_ok in H as ([st1 out1] & H1 & H).
  destruct (r_oracle st1); [|discriminate]. inv_ok.
  eapply LL_trans; [|eapply step_LL; eassumption]. now apply LL_eq.
Qed.

Theorem run_LL : forall ops st st', run st ops = Ok st' -> LL st st'.
Proof.
  induction ops as [|[orc o] r IH]; intros st st' H; cbn [run] in H.
  - inv_ok. apply LL_refl.
  - destruct (step_with st orc o) as [[st1 out]| |] eqn:E; try discriminate.
    eapply LL_trans; [eapply step_with_LL; eassumption|eapply IH; eassumption].
Qed.
