(** C01 at the level of whole runs — the invariant [DI] tying the delivery trace to the state.

    [DI st e tr] (e = requests the running function holds in local variables):
    - every event's link exists; every event lies at or before the end of its log;
    - the trace of every key is a chain ([kchain]: each event starts where the previous one
      said the request continues);
    - for every live connection [c] (Outgoing [o], link [o_link o]) and every non-shared request
      [rq] it holds, if the key (link, filter, log) of the request has events at all, the offset
      of the request's cursor is EXACTLY where the last event of that key continues ([nxt]), and
      if that cursor is stale its offset lies at or before the log's base ([CurAt]; the latter is
      not known after a resume marker [KRes], until the first sweep);
      the key of such a request always has events, the first one [KSub] or [KRes].
    The cursor therefore only moves by sweeps.  Uniqueness of the request per (connection,
    filter) is not part of [DI]: it comes from request location ([DevE], ExactLoc*.v). *)
From Rumqtt Require Import Log.Spec Log.Proofs Router.ExactLog.
From Rumqtt Require Import Topic.Proofs Router.WindowFrame Router.Window Router.WindowStep Router.DataLogInv Router.DataLogStep
                           Router.ExactInv Router.ExactStep1 Router.ExactStep2 Router.ExactStep3 Router.ExactLogs
                           Router.ExactSweep Router.ExactThm.
From Rumqtt Require Import Router.NoPanicDevBase Router.NoPanicDevInv.
From Rumqtt Require Router.ExactLoc1.
From Rumqtt Require Import Router.TraceRun Router.TraceRunHeld.
From Rumqtt Require Import Router.Model Router.RunDefs.
From Coq Require Import List ZifyBool ZifyN ZifyNat.
Import ListNotations.

Definition CurAt (dl : datalog) (rq : drequest) (a : kev) : Prop :=
  snd (dr_cursor rq) = nxt a /\
  (forall d, nget dl (dr_idx rq) = Some d -> stale (d_log d) (dr_cursor rq) = true ->
             snd (dr_cursor rq) <= base_of (d_log d)).

Definition key_of (o : outgoing) (rq : drequest) : dkey := (o_link o, dr_filter rq, dr_idx rq).

Record DI (st : rstate) (e : list (N * drequest)) (tr : list dev) : Prop := {
  di_link : forall id k f i a, In (id, (k, f, i), a) tr -> k < lenN (r_links st);
  di_end : forall id k f i a, In (id, (k, f, i), a) tr ->
           exists d, nget (r_datalog st) i = Some d /\ nxt a <= end_of (d_log d);
  di_chain : forall K, kchain (ktrace K tr);
  di_cur : forall c o rq a, slab_get (r_obufs st) c = Some o -> HeldE st e c rq -> dr_group rq = None ->
           last_opt (ktrace (key_of o rq) tr) = Some a -> CurAt (r_datalog st) rq a;
  (* the events of a link that a live connection owns carry that connection's key *)
  di_id : forall id k f i a c o, In (id, (k, f, i), a) tr -> slab_get (r_obufs st) c = Some o -> o_link o = k -> id = c;
  (* the key of every non-shared request a live connection holds has a history: it starts with the
     SUBSCRIBE marker, or with the resume marker of the connection *)
  di_ne : forall c o rq, slab_get (r_obufs st) c = Some o -> HeldE st e c rq -> dr_group rq = None ->
          ktrace (key_of o rq) tr <> [];
  di_head : forall K a l, ktrace K tr = a :: l -> is_res a = true \/ exists e0, a = KSub e0
}.

(* ------------------------------------------------------------------ monotonicity in the logs *)
Lemma curat_mono dl dl' rq a :
  LogsInv dl -> dl_le dl dl' -> CurOk dl (dr_idx rq) (dr_cursor rq) -> CurAt dl rq a -> CurAt dl' rq a.
Proof.
  intros LI [Hle _] (d & Hd & Hiss & _) [H1 H2]. split; [exact H1|].
  intros d' Hd' Hst. destruct (Hle _ _ Hd) as (d2 & Hd2 & _ & L). rewrite Hd' in Hd2. inversion Hd2; subst d2.
  destruct (li_wf _ LI _ _ Hd) as [all W]. destruct (L all W) as (xs & _ & _ & Hb & Hs).
  destruct (stale (d_log d) (dr_cursor rq)) eqn:E.
  - specialize (H2 _ Hd E). lia.
  - now apply Hs.
Qed.

Lemma held_rqok st c rq : CInv st -> Held st c rq -> RqOk (r_datalog st) rq.
Proof.
  intros [_ CI] [(t & Ht & Hin) | [(i & d & Hd & Hin) | Hin]].
  - pose proof (ci_trk _ _ CI _ _ Ht) as F. rewrite Forall_forall in F. now apply F.
  - pose proof (ci_wait _ _ CI _ _ Hd) as F. rewrite Forall_forall in F. apply (F (c, rq) Hin).
  - pose proof (ci_notif _ _ CI) as F. rewrite Forall_forall in F. apply (F (c, rq) Hin).
Qed.

Definition LocalsOk (dl : datalog) (e : list (N * drequest)) : Prop := Forall (fun x => RqOk dl (snd x)) e.

Lemma helde_rqok st e c rq : CInv st -> LocalsOk (r_datalog st) e -> HeldE st e c rq -> RqOk (r_datalog st) rq.
Proof.
  intros HI HL [Hh | He]; [eapply held_rqok; eassumption|].
  unfold LocalsOk in HL. rewrite Forall_forall in HL. apply (HL (c, rq) He).
Qed.

(** the frame: requests only moved or vanished, Outgoing entries kept their links, logs grew *)
Lemma di_frame st st' e e' tr :
  CInv st -> LocalsOk (r_datalog st) e ->
  hsub st st' e e' -> obs_sub st st' -> dl_le (r_datalog st) (r_datalog st') ->
  lenN (r_links st) <= lenN (r_links st') ->
  DI st e tr -> DI st' e' tr.
Proof.
  intros HI HL HS HO Hle Hlen [D1 D2 D3 D4 D5 D6 D7]. pose proof HI as [LI _]. constructor.
  - intros id k f i a Hin. specialize (D1 _ _ _ _ _ Hin). lia.
  - intros id k f i a Hin. destruct (D2 _ _ _ _ _ Hin) as (d & Hd & He).
    destruct (proj1 Hle _ _ Hd) as (d' & Hd' & _ & L). exists d'. split; [exact Hd'|].
    destruct (li_wf _ LI _ _ Hd) as [all W]. pose proof (log_le_end pubdata_size _ _ all L W). lia.
  - exact D3.
  - intros c o' rq a Ho' Hh Hg Hl. destruct (HO _ _ Ho') as (o & Ho & Hs). apply ostep_link in Hs as [Hs _].
    apply HS in Hh. assert (Hk : key_of o' rq = key_of o rq) by (unfold key_of; now rewrite Hs).
    rewrite Hk in Hl. eapply curat_mono; [exact LI|exact Hle| |eapply D4; eassumption].
    apply (helde_rqok _ _ _ _ HI HL Hh).
  - intros id k f i a c o' Hin Ho' Hk. destruct (HO _ _ Ho') as (o & Ho & Hs). apply ostep_link in Hs as [Hs _].
    eapply D5; [exact Hin|exact Ho|congruence].
  - intros c o' rq Ho' Hh Hg. destruct (HO _ _ Ho') as (o & Ho & Hs). apply ostep_link in Hs as [Hs _].
    apply HS in Hh. assert (Hk : key_of o' rq = key_of o rq) by (unfold key_of; now rewrite Hs).
    rewrite Hk. eapply D6; eassumption.
  - exact D7.
Qed.

Lemma di_frame_same st st' e e' tr :
  hsub st st' e e' -> r_obufs st' = r_obufs st -> r_datalog st' = r_datalog st -> r_links st' = r_links st ->
  DI st e tr -> DI st' e' tr.
Proof.
  intros HS EO ED EL [D1 D2 D3 D4 D5 D6 D7]. constructor; rewrite ?EL, ?ED, ?EO; try assumption.
  - intros c o rq a Ho Hh Hg Hl. apply HS in Hh. eapply D4; eassumption.
  - intros c o rq Ho Hh Hg. apply HS in Hh. eapply D6; eassumption.
Qed.

Lemma localsok_mono dl dl' e : LogsInv dl -> dl_le dl dl' -> LocalsOk dl e -> LocalsOk dl' e.
Proof. intros LI L. apply Forall_impl. intros x. now apply rqok_mono. Qed.

(* ------------------------------------------------------------------ counting *)
Lemma cnt_in rq l : In rq l -> (1 <= cnt (dr_filter rq) l)%nat.
Proof.
  induction l as [|r l IH]; [intros []|]. intros [<- | H]; rewrite cnt_cons.
  - unfold fmatch. rewrite str_eqb_refl'. lia.
  - specialize (IH H). lia.
Qed.
Lemma cntw_in c rq w : In (c, rq) w -> (1 <= cntw (dr_filter rq) c w)%nat.
Proof.
  induction w as [|x w IH]; [intros []|]. intros [-> | H]; rewrite cntw_cons.
  - unfold wmatch, fmatch. cbn [fst snd]. rewrite N.eqb_refl, str_eqb_refl'. cbn [andb]. lia.
  - specialize (IH H). lia.
Qed.
Lemma cnti_in c rq : forall items i d,
  nthN items i = Some (Some d) -> In (c, rq) (d_waiters d) -> (1 <= cnti (dr_filter rq) c items)%nat.
Proof.
  induction items as [|o items IH]; intros i d H Hin; [discriminate|]. cbn [nthN] in H. destruct (i =? 0).
  - inversion H; subst. cbn [cnti]. pose proof (cntw_in _ _ _ Hin). lia.
  - specialize (IH _ _ H Hin). destruct o; cbn [cnti]; lia.
Qed.

Lemma held_cnt st e c rq : Held st c rq -> (1 <= CNT st e c (dr_filter rq))%nat.
Proof.
  unfold CNT. intros [(t & Ht & Hin) | [(i & d & Hd & Hin) | Hin]].
  - unfold treqs. rewrite Ht. pose proof (cnt_in _ _ Hin). lia.
  - unfold nget, slab_get in Hd. unfold items_of.
    destruct (nthN (sl_items (dl_native (r_datalog st))) i) as [[d0|]|] eqn:E; try discriminate. inversion Hd; subst d0.
    pose proof (cnti_in _ _ _ _ _ E Hin). lia.
  - pose proof (cntw_in _ _ _ Hin). lia.
Qed.

Lemma helde_cnt st e c rq : HeldE st e c rq -> (1 <= CNT st e c (dr_filter rq))%nat.
Proof.
  intros [H | H]; [now apply held_cnt|]. unfold CNT. pose proof (cntw_in _ _ _ H). lia.
Qed.

(* ------------------------------------------------------------------ a new event at the end of a key *)
Lemma ktrace_snoc_same K id a tr : is_end a = false -> ktrace K (tr ++ [(id, K, a)]) = ktrace K tr ++ [a].
Proof. intros H. now rewrite ktrace_app, ktrace_cons_same, ktrace_nil. Qed.
Lemma ktrace_snoc_other K K' id a tr : K <> K' -> ktrace K (tr ++ [(id, K', a)]) = ktrace K tr.
Proof. intros H. rewrite ktrace_app, ktrace_cons_other, ktrace_nil by exact H. apply app_nil_r. Qed.

Lemma dkey_dec (a b : dkey) : {a = b} + {a <> b}.
Proof. destruct (dkey_eqb a b) eqn:E; [left; now apply dkey_eqb_true|right; intros ->; now rewrite dkey_eqb_refl in E]. Qed.

Lemma ktrace_app_ne K tr x : ktrace K tr <> [] -> ktrace K (tr ++ x) <> [].
Proof. intros H E. rewrite ktrace_app in E. apply app_eq_nil in E as [E _]. contradiction. Qed.

Lemma head_app {X} (l r : list X) a t : l <> [] -> l ++ r = a :: t -> exists t', l = a :: t'.
Proof. destruct l as [|x l]; [contradiction|]. intros _ E. inversion E; subst. eauto. Qed.

(* ------------------------------------------------------------------ SUBSCRIBE: the new request *)
Lemma subs_of_some st id c : slab_get (r_conns st) id = Some c -> subs_of st id = Some (c_subs c).
Proof. intros H. unfold subs_of. now rewrite H. Qed.

Lemma prepare_filter_di st id cu fidx path qos grp subid st' tr d :
  CInv st -> LinkInv st -> ExactLoc1.DevEI st ->
  nget (r_datalog st) fidx = Some d -> stale (d_log d) cu = false -> snd cu = end_of (d_log d) ->
  DI st [] tr ->
  prepare_filter st id cu fidx path qos grp subid = Ok st' ->
  DI st' [] (tr ++ pf_ghost st id cu fidx path grp).
Proof.
  intros HI HL HD Hd Hst Hend HDI H. unfold prepare_filter in H.
  match type of H with context [set_r_submap st ?m] => set (st1 := set_r_submap st m) in * end.
  apply bind_ok in H as (conn & Hc & H).
  assert (Hcs : slab_get (r_conns st) id = Some conn).
  { unfold get_conn in Hc. cbn [st1 r_conns set_r_submap] in Hc. destruct (slab_get (r_conns st) id); inversion Hc; reflexivity. }
  match type of H with context [set_r_groups st1 ?g] => set (groups := g) in * end.
  set (st2 := set_r_groups st1 groups) in *.
  assert (HDI2 : DI st2 [] tr) by (apply (di_frame_same st st2 [] [] tr); [apply hsub_view; reflexivity|reflexivity|reflexivity|reflexivity|exact HDI]).
  match type of H with context [set_mem str_eqb path (c_subs ?c1)] => set (conn1 := c1) in * end.
  assert (Hs1 : c_subs conn1 = c_subs conn) by (unfold conn1; destruct subid; reflexivity).
  unfold pf_ghost. rewrite Hcs. rewrite Hs1 in H.
  destruct (set_mem str_eqb path (c_subs conn)) eqn:Em.
  { inv_ok. assert (G : (match grp with None => match slab_get (r_obufs st) id with Some o => @nil dev | None => [] end | Some _ => [] end) = []).
    { destruct grp; [reflexivity|]. destruct (slab_get (r_obufs st) id); reflexivity. }
    destruct grp as [g|]; [|destruct (slab_get (r_obufs st) id)]; rewrite app_nil_r;
      (apply (di_frame_same st2 _ [] [] tr); [apply hsub_view; reflexivity|reflexivity|reflexivity|reflexivity|exact HDI2]). }
  match type of H with context [track ?s id ?r] => set (st3 := s) in *; set (rq := r) in * end.
  apply bind_ok in H as (st4 & H4 & H). apply bind_ok in H as (st5 & H5 & H). apply bind_ok in H as (u & _ & H). inv_ok.
  (* the request is added to the locals, with its marker *)
  assert (HDI3 : DI st3 [(id, rq)] (tr ++ match grp, slab_get (r_obufs st) id with
                                          | None, Some o => [(id, (o_link o, path, fidx), KSub (snd cu))]
                                          | _, _ => [] end)).
  { assert (Hbase : DI st3 [] tr) by (apply (di_frame_same st2 st3 [] [] tr); [apply hsub_view; reflexivity|reflexivity|reflexivity|reflexivity|exact HDI2]).
    assert (Hnone : forall ev, ev = [] ->
              (dr_group rq = None -> slab_get (r_obufs st) id = None) -> DI st3 [(id, rq)] (tr ++ ev)).
    { intros ev -> Hno. rewrite app_nil_r. destruct Hbase as [D1 D2 D3 D4 D5 D6 D7]. constructor; try assumption.
      - intros c o r a Ho [Hh | [E | []]] Hg Hl; [eapply D4; eauto; now left|].
        inversion E; subst c r. specialize (Hno Hg). change (r_obufs st3) with (r_obufs st) in Ho. congruence.
      - intros c o r Ho [Hh | [E | []]] Hg; [eapply D6; eauto; now left|].
        inversion E; subst c r. specialize (Hno Hg). change (r_obufs st3) with (r_obufs st) in Ho. congruence. }
    destruct grp as [g|]; [apply Hnone; [reflexivity|discriminate]|].
    destruct (slab_get (r_obufs st) id) as [o|] eqn:Ho; [|apply Hnone; auto].
    set (K := (o_link o, path, fidx)). destruct Hbase as [D1 D2 D3 D4 D5 D6 D7].
    assert (Hnew : forall c o' r, slab_get (r_obufs st) c = Some o' -> Held st c r -> dr_group r = None ->
                                  key_of o' r = K -> False).
    { intros c o' r Ho' Hh Hg Hk. unfold key_of, K in Hk. inversion Hk as [[Hl Hf Hi]].
      assert (c = id) by (eapply (proj2 HL); eassumption). subst c.
      pose proof (held_cnt st [] id r Hh) as Hc1. rewrite Hf in Hc1.
      pose proof (ExactLoc1.de_live _ _ HD _ _ (subs_of_some _ _ _ Hcs) path) as Hc0. unfold ExactLoc1.okE in Hc0.
      rewrite Em in Hc0. lia. }
    constructor.
    - intros id0 k f i a Hin. apply in_app_or in Hin as [Hin | [E | []]]; [eapply D1; eassumption|].
      inversion E; subst. change (r_links st3) with (r_links st). apply (proj1 HL _ _ Ho).
    - intros id0 k f i a Hin. apply in_app_or in Hin as [Hin | [E | []]]; [eapply D2; eassumption|].
      inversion E; subst. exists d. split; [exact Hd|]. cbn [nxt]. lia.
    - intros K'. destruct (dkey_dec K' K) as [-> | Hne].
      + rewrite ktrace_snoc_same by reflexivity. apply kchain_snoc. split; [apply D3|]. intros a Ha. cbn [ok_next].
        assert (Hin : In a (ktrace K tr)).
        { clear -Ha. induction (ktrace K tr) as [|x l IH]; [discriminate|]. destruct l; [inversion Ha; now left|].
          right. apply IH. exact Ha. }
        apply ktrace_In in Hin as (_ & id0 & Hin). destruct (D2 _ _ _ _ _ Hin) as (d0 & Hd0 & He).
        change (r_datalog st3) with (r_datalog st) in Hd0. rewrite Hd in Hd0. inversion Hd0; subst d0. lia.
      + rewrite ktrace_snoc_other by exact Hne. apply D3.
    - intros c o' r a Ho' Hh Hg Hl. change (r_obufs st3) with (r_obufs st) in Ho'.
      destruct (dkey_dec (key_of o' r) K) as [Ek | Hne].
      + destruct Hh as [Hh | [E | []]].
        * exfalso. eapply Hnew; eassumption.
        * inversion E; subst c r. rewrite Ek, ktrace_snoc_same, last_opt_snoc in Hl by reflexivity. inversion Hl; subst a.
          split; [reflexivity|]. cbn [rq dr_idx dr_cursor]. intros d0 Hd0 Hs0.
          change (r_datalog st3) with (r_datalog st) in Hd0. rewrite Hd in Hd0. inversion Hd0; subst d0. congruence.
      + rewrite ktrace_snoc_other in Hl by exact Hne.
        destruct Hh as [Hh | [E | []]]; [eapply D4; eauto; now left|].
        inversion E; subst c r. rewrite Ho in Ho'. inversion Ho'; subst o'. exfalso. apply Hne. reflexivity.
    - intros id0 k f i a c o' Hin Ho' Hk. change (r_obufs st3) with (r_obufs st) in Ho'.
      apply in_app_or in Hin as [Hin | [E | []]]; [eapply D5; eassumption|].
      unfold K in E. inversion E; subst. apply (proj2 HL _ _ _ _ Ho Ho'). assumption.
    - intros c o' r Ho' Hh Hg. change (r_obufs st3) with (r_obufs st) in Ho'.
      destruct Hh as [Hh | [E | []]]; [apply ktrace_app_ne; eapply D6; eauto; now left|].
      inversion E; subst c r. rewrite Ho in Ho'. inversion Ho'; subst o'.
      change (key_of o rq) with K. rewrite ktrace_snoc_same by reflexivity. intros X. apply app_eq_nil in X as [_ X]. discriminate.
    - intros K' a l E. destruct (dkey_dec K' K) as [-> | Hne].
      + rewrite ktrace_snoc_same in E by reflexivity. destruct (ktrace K tr) as [|x t] eqn:Ek.
        * cbn [app] in E. inversion E; subst. right. eauto.
        * cbn [app] in E. inversion E; subst. eapply D7; exact Ek.
      + rewrite ktrace_snoc_other in E by exact Hne. eapply D7; exact E. }
  (* the request goes from the locals into the tracker *)
  assert (V3 : r_datalog st3 = r_datalog st /\ r_obufs st3 = r_obufs st /\ r_links st3 = r_links st) by (repeat split).
  pose proof (track_keep _ _ _ _ H4) as K4. pose proof (reschedule_keep _ _ _ _ H5) as K5.
  eapply di_frame_same; [|..|exact HDI3].
  - eapply hsub_trans; [eapply track_hsub; exact H4|eapply reschedule_hsub; exact H5].
  - rewrite (keep_obufs _ _ K5), (keep_obufs _ _ K4). reflexivity.
  - rewrite (reschedule_dl _ _ _ _ H5), (track_dl _ _ _ _ H4). reflexivity.
  - rewrite (keep_links _ _ K5), (keep_links _ _ K4). reflexivity.
Qed.

(* ------------------------------------------------------------------ end markers do not enter the chains *)
Lemma di_add_ends st e tr evs :
  forallb (fun ev : dev => is_end (snd ev)) evs = true ->
  (forall id k f i a, In (id, (k, f, i), a) evs ->
     k < lenN (r_links st) /\
     (exists d, nget (r_datalog st) i = Some d /\ nxt a <= end_of (d_log d)) /\
     (forall c o, slab_get (r_obufs st) c = Some o -> o_link o = k -> id = c)) ->
  DI st e tr -> DI st e (tr ++ evs).
Proof.
  intros He Hev [D1 D2 D3 D4 D5 D6 D7].
  assert (Hk : forall K, ktrace K (tr ++ evs) = ktrace K tr).
  { intros K. rewrite ktrace_app, (ktrace_all_end K evs He). apply app_nil_r. }
  constructor.
  - intros id k f i a Hin. apply in_app_or in Hin as [Hin | Hin]; [eapply D1; eassumption|]. apply (Hev _ _ _ _ _ Hin).
  - intros id k f i a Hin. apply in_app_or in Hin as [Hin | Hin]; [eapply D2; eassumption|]. apply (Hev _ _ _ _ _ Hin).
  - intros K. rewrite Hk. apply D3.
  - intros c o rq a Ho Hh Hg Hl. rewrite Hk in Hl. eapply D4; eassumption.
  - intros id k f i a c o Hin Ho Hl. apply in_app_or in Hin as [Hin | Hin]; [eapply D5; eassumption|].
    destruct (Hev _ _ _ _ _ Hin) as (_ & _ & X). eapply X; eassumption.
  - intros c o rq Ho Hh Hg. rewrite Hk. eapply D6; eassumption.
  - intros K a l E. rewrite Hk in E. eapply D7; eassumption.
Qed.
