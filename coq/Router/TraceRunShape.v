(** C01 at the level of whole runs — the key of an event names the RIGHT log: for every event
    [(id, (k, f, i), e)] the subscription filter [f] is not a shared one and [i] is the number of
    the filter log of [f] ([dl_findex f = i]).

    [shp fi rq]: a request that is not shared has a plain subscription filter (no "$share/"
    prefix) and reads the log [filter_indexes] gives for that filter; a shared request has a
    "$share/group/.." filter of its group.  [SH st e tr]: every request held anywhere (tracker,
    waiters, notifications, locals, saved sessions) has that shape, and every event's key too. *)
From Rumqtt Require Import Log.Spec Log.Proofs Log.ListFacts Log.WfFacts Router.ExactLog.
From Rumqtt Require Import Topic.Proofs Router.WindowFrame Router.Window Router.WindowStep Router.DataLogInv Router.DataLogStep
                           Router.ExactInv Router.ExactStep1 Router.ExactStep2 Router.ExactStep3 Router.ExactLogs
                           Router.ExactSweep Router.ExactThm.
From Rumqtt Require Router.SessionIds.
From Rumqtt Require Import Router.TraceRun Router.TraceRunHeld Router.TraceRunInv Router.TraceRunSweep.
From Rumqtt Require Import Router.Model Router.RunDefs.
From Coq Require Import List ZifyBool ZifyN ZifyNat.
Import ListNotations.

Definition shp (fi : list (str * N)) (rq : drequest) : Prop :=
  match dr_group rq with
  | None => extract_group (dr_filter rq) = None /\ al_get str_eqb (dr_filter rq) fi = Some (dr_idx rq)
  | Some g => exists p, extract_group (dr_filter rq) = Some (g, p)
  end.

Definition fi_le (fi fi' : list (str * N)) : Prop :=
  forall p i, al_get str_eqb p fi = Some i -> al_get str_eqb p fi' = Some i.

Lemma shp_mono fi fi' rq : fi_le fi fi' -> shp fi rq -> shp fi' rq.
Proof. unfold shp. intros L. destruct (dr_group rq); [auto|]. intros [H1 H2]. split; [exact H1|now apply L]. Qed.

Lemma shp_cursor fi rq cu : shp fi rq -> shp fi (set_dr_cursor rq cu).
Proof. unfold shp. cbn [set_dr_cursor dr_group dr_filter dr_idx]. auto. Qed.

Lemma shp_same fi rq rq' :
  dr_group rq' = dr_group rq -> dr_filter rq' = dr_filter rq -> dr_idx rq' = dr_idx rq -> shp fi rq -> shp fi rq'.
Proof. unfold shp. intros -> -> ->. auto. Qed.

Lemma rewind_requests_shp fi retr : forall rqs gs rqs' gs',
  Forall (shp fi) rqs -> rewind_requests rqs retr gs = Ok (rqs', gs') -> Forall (shp fi) rqs'.
Proof.
  induction rqs as [|rq r IH]; intros gs rqs' gs' Hr H; cbn [rewind_requests] in H; [inv_ok; constructor|].
  inversion Hr as [|? ? Hrq Hr']; subst.
  destruct (al_get N.eqb (dr_idx rq) retr) as [cu|].
  - apply bind_ok in H as (gs1 & _ & H). apply bind_ok in H as ([r' gs2] & H2 & H). inv_ok.
    constructor; [now apply shp_cursor|eapply IH; eassumption].
  - apply bind_ok in H as ([r' gs2] & H2 & H). inv_ok. constructor; [exact Hrq|eapply IH; eassumption].
Qed.

Definition findex (st : rstate) : list (str * N) := dl_findex (r_datalog st).

Record SH (st : rstate) (e : list (N * drequest)) (tr : list dev) : Prop := {
  sh_held : forall c rq, HeldE st e c rq -> shp (findex st) rq;
  sh_grave : forall client ss, In (client, Some ss) (r_graveyard st) -> Forall (shp (findex st)) (tr_reqs (ss_tracker ss));
  sh_ev : forall id k f i a, In (id, (k, f, i), a) tr ->
          extract_group f = None /\ al_get str_eqb f (findex st) = Some i
}.

Lemma sh_frame st st' e e' tr :
  hsub st st' e e' -> fi_le (findex st) (findex st') -> r_graveyard st' = r_graveyard st ->
  SH st e tr -> SH st' e' tr.
Proof.
  intros HS L EG [S1 S2 S3]. constructor.
  - intros c rq Hh. eapply shp_mono; [exact L|]. apply (S1 c rq). apply HS. exact Hh.
  - intros client ss Hin. rewrite EG in Hin. specialize (S2 _ _ Hin). revert S2. apply Forall_impl. intros rq. now apply shp_mono.
  - intros id k f i a Hin. destruct (S3 _ _ _ _ _ Hin) as [A B]. split; [exact A|now apply L].
Qed.

Lemma fi_le_refl fi : fi_le fi fi. Proof. intros p i H. exact H. Qed.
Lemma dl_le_fi st st' : dl_le (r_datalog st) (r_datalog st') -> fi_le (findex st) (findex st').
Proof. intros [_ H]. exact H. Qed.
Lemma fi_le_eq st st' : r_datalog st' = r_datalog st -> fi_le (findex st) (findex st').
Proof. unfold findex. intros ->. apply fi_le_refl. Qed.

Lemma kid_grave st st' : SessionIds.Kid st st' -> r_graveyard st' = r_graveyard st.
Proof. intros (_ & H & _). exact H. Qed.
Lemma keq_grave st st' : SessionIds.Keq st st' -> r_graveyard st' = r_graveyard st.
Proof. intros (_ & _ & _ & H & _). exact H. Qed.

Lemma sh_locals st e e' tr : incl e' e -> SH st e tr -> SH st e' tr.
Proof. intros Hi. apply sh_frame; [now apply hsub_local|apply fi_le_refl|reflexivity]. Qed.

(* ------------------------------------------------------------------ SUBSCRIBE *)
Lemma next_native_offset_findex st f st' idx cu :
  next_native_offset st f = Ok (st', idx, cu) -> al_get str_eqb f (findex st') = Some idx.
Proof.
  unfold next_native_offset, findex. intros H.
  destruct (al_get str_eqb f (dl_findex (r_datalog st))) as [i|] eqn:Ef.
  - apply bind_ok in H as (d & _ & H). apply bind_ok in H as (c & _ & H). inv_ok. exact Ef.
  - apply bind_ok in H as (d & _ & H). destruct (slab_insert (dl_native (r_datalog st)) d) as [native' k].
    apply bind_ok in H as (pf & _ & H). apply bind_ok in H as (c & _ & H). inv_ok.
    cbn [r_datalog set_r_datalog dl_findex]. apply DataLogInv.al_get_set_eq.
Qed.

Lemma prepare_filter_sh st id cu fidx path qos grp subid st' tr :
  (match extract_group path with Some (g, _) => grp = Some g | None => grp = None end) ->
  (grp = None -> al_get str_eqb path (findex st) = Some fidx) ->
  SH st [] tr ->
  prepare_filter st id cu fidx path qos grp subid = Ok st' ->
  SH st' [] (tr ++ pf_ghost st id cu fidx path grp).
Proof.
  intros Hgrp Hfi HS H.
  pose proof (kid_grave _ _ ((SessionIds.fi_prepare_filter st id cu fidx path qos grp subid) _ H)) as EG.
  pose proof (prepare_filter_dl _ _ _ _ _ _ _ _ _ H) as ED.
  assert (EF : findex st' = findex st) by (unfold findex; now rewrite ED).
  (* the events *)
  assert (Hev : forall id0 k f i a, In (id0, (k, f, i), a) (pf_ghost st id cu fidx path grp) ->
            extract_group f = None /\ al_get str_eqb f (findex st) = Some i).
  { intros id0 k f i a Hin. unfold pf_ghost in Hin. destruct grp; [destruct Hin|].
    destruct (slab_get (r_conns st) id); [|destruct Hin]. destruct (slab_get (r_obufs st) id); [|destruct Hin].
    destruct (set_mem str_eqb path (c_subs c)); [destruct Hin|]. destruct Hin as [E | []]. inversion E; subst.
    split; [|now apply Hfi]. destruct (extract_group f) as [[g p]|]; [discriminate|reflexivity]. }
  unfold prepare_filter in H.
  match type of H with context [set_r_submap st ?m] => set (st1 := set_r_submap st m) in * end.
  apply bind_ok in H as (conn & Hc & H).
  match type of H with context [set_r_groups st1 ?g] => set (groups := g) in * end.
  destruct HS as [S1 S2 S3].
  assert (Hevs : forall id0 k f i a, In (id0, (k, f, i), a) (tr ++ pf_ghost st id cu fidx path grp) ->
            extract_group f = None /\ al_get str_eqb f (findex st') = Some i).
  { intros id0 k f i a Hin. rewrite EF. apply in_app_or in Hin as [Hin | Hin]; [eapply S3; eassumption|eapply Hev; eassumption]. }
  match type of H with (if ?b then _ else _) = _ => destruct b end.
  - inv_ok. constructor; [| |exact Hevs].
    + intros c rq Hh. rewrite EF. apply (S1 c rq). destruct Hh as [Hh | []]. left. eapply held_view; [|exact Hh]. reflexivity.
    + intros client ss Hin. rewrite EG in Hin. rewrite EF. eapply S2; exact Hin.
  - match type of H with context [track ?s id ?r] => set (st3 := s) in *; set (rq := r) in * end.
    apply bind_ok in H as (st4 & H4 & H). apply bind_ok in H as (st5 & H5 & H). apply bind_ok in H as (u & _ & H). inv_ok.
    assert (Hrq : shp (findex st) rq).
    { unfold shp. cbn [rq dr_group dr_filter dr_idx]. destruct grp as [g|].
      - destruct (extract_group path) as [[g0 p]|]; [|discriminate]. inversion Hgrp; subst. eauto.
      - split; [|now apply Hfi]. destruct (extract_group path) as [[g p]|]; [discriminate|reflexivity]. }
    constructor; [| |exact Hevs].
    + intros c r Hh. rewrite EF.
      assert (Hs : hsub st3 st' [(id, rq)] []) by (eapply hsub_trans; [eapply track_hsub; exact H4|eapply reschedule_hsub; exact H5]).
      apply Hs in Hh. destruct Hh as [Hh | [E | []]]; [|inversion E; subst; exact Hrq].
      apply (S1 c r). left. eapply held_view; [|exact Hh]. reflexivity.
    + intros client ss Hin. rewrite EG in Hin. rewrite EF. eapply S2; exact Hin.
Qed.

Lemma subscribe_filters_sh id subid : forall fs st fl codes st' fl' codes' evs tr,
  LogsInv (r_datalog st) -> SH st [] tr ->
  subscribe_filters_d st id fs subid fl codes = Ok (st', fl', codes', evs) ->
  LogsInv (r_datalog st') /\ SH st' [] (tr ++ evs).
Proof.
  induction fs as [|[path qos] r IH]; intros st fl codes st' fl' codes' evs tr LI HS H; cbn [subscribe_filters_d] in H.
  { inv_ok. rewrite app_nil_r. auto. }
  destruct (negb (validate_subscription path)); [inv_ok; rewrite app_nil_r; auto|].
  destruct (extract_group path) as [[g p]|] eqn:Eg.
  - destruct (match subid with Some 0 => true | _ => false end); [inv_ok; rewrite app_nil_r; auto|].
    apply bind_ok in H as ([[st1 idx] cu] & H1 & H). apply bind_ok in H as (st2 & H2 & H).
    apply bind_ok in H as ([[[st3 fl3] codes3] evs3] & H3 & H). inv_ok.
    destruct (next_native_offset_LL _ _ _ _ _ H1 LI) as [LI1 L1].
    assert (HS1 : SH st1 [] tr).
    { eapply sh_frame; [eapply next_native_offset_hsub; exact H1|now apply dl_le_fi
                       |apply keq_grave; exact ((SessionIds.fi_next_native_offset st p) _ H1)|exact HS]. }
    assert (HS2 : SH st2 [] (tr ++ pf_ghost st1 id cu idx path (Some g))).
    { eapply prepare_filter_sh; [rewrite Eg; reflexivity|discriminate|exact HS1|exact H2]. }
    cbn [pf_ghost] in HS2. rewrite app_nil_r in HS2.
    eapply IH; [|exact HS2|exact H3]. rewrite (prepare_filter_dl _ _ _ _ _ _ _ _ _ H2). exact LI1.
  - destruct (match subid with Some 0 => true | _ => false end); [inv_ok; rewrite app_nil_r; auto|].
    apply bind_ok in H as ([[st1 idx] cu] & H1 & H). apply bind_ok in H as (st2 & H2 & H).
    apply bind_ok in H as ([[[st3 fl3] codes3] evs3] & H3 & H). inv_ok.
    destruct (next_native_offset_LL _ _ _ _ _ H1 LI) as [LI1 L1].
    assert (HS1 : SH st1 [] tr).
    { eapply sh_frame; [eapply next_native_offset_hsub; exact H1|now apply dl_le_fi
                       |apply keq_grave; exact ((SessionIds.fi_next_native_offset st path) _ H1)|exact HS]. }
    assert (HS2 : SH st2 [] (tr ++ pf_ghost st1 id cu idx path None)).
    { eapply prepare_filter_sh; [rewrite Eg; reflexivity| |exact HS1|exact H2].
      intros _. eapply next_native_offset_findex; exact H1. }
    rewrite app_assoc. eapply IH; [|exact HS2|exact H3]. rewrite (prepare_filter_dl _ _ _ _ _ _ _ _ _ H2). exact LI1.
Qed.

(* ------------------------------------------------------------------ packets, the DeviceData event *)
Lemma handle_packet_sh st id client pk fl st' fl' brk evs tr :
  LogsInv (r_datalog st) -> SH st [] tr ->
  handle_packet_d st id client pk fl = Ok (st', fl', brk, evs) ->
  LogsInv (r_datalog st') /\ SH st' [] (tr ++ evs).
Proof.
  intros LI HS H.
  assert (Hgen : not_subscribe pk -> LogsInv (r_datalog st') /\ SH st' [] (tr ++ evs)).
  { intros Hns. assert (H' : handle_packet st id client pk fl = Ok (st', fl', brk)) by (rewrite <- handle_packet_erase, H; reflexivity).
    assert (E : evs = []).
    { destruct pk; cbn [not_subscribe] in Hns; try contradiction; unfold handle_packet_d in H;
        apply bind_ok in H as ([[s1 f1] b1] & _ & H); now inv_ok. }
    subst evs. rewrite app_nil_r. destruct (handle_packet_LL _ _ _ _ _ _ _ _ H' LI) as [LI' L].
    split; [exact LI'|]. eapply sh_frame; [eapply handle_packet_hsub; eassumption|now apply dl_le_fi
                                          |apply kid_grave; exact ((SessionIds.fi_handle_packet st id client pk fl) _ H')|exact HS]. }
  destruct pk as [p props | pkid fs subid | pkid fs | pkid | pkid | pkid hp | pkid | | |]; try (apply Hgen; exact I).
  clear Hgen. unfold handle_packet_d in H.
  apply bind_ok in H as ([[[st1 fl1] codes] evs1] & H1 & H). apply bind_ok in H as (st2 & H2 & H). inv_ok.
  destruct (subscribe_filters_sh _ _ _ _ _ _ _ _ _ _ _ LI HS H1) as [LI1 HS1].
  pose proof (commit_ack_spec _ _ _ _ H2) as (l & _ & E2).
  split; [rewrite E2; exact LI1|].
  eapply sh_frame; [eapply commit_ack_hsub; exact H2|apply fi_le_eq; rewrite E2; reflexivity|rewrite E2; reflexivity|exact HS1].
Qed.

Lemma handle_packets_sh id client : forall pks st fl st' fl' evs tr,
  LogsInv (r_datalog st) -> SH st [] tr ->
  handle_packets_d st id client pks fl = Ok (st', fl', evs) ->
  LogsInv (r_datalog st') /\ SH st' [] (tr ++ evs).
Proof.
  induction pks as [|pk r IH]; intros st fl st' fl' evs tr LI HS H; cbn [handle_packets_d] in H.
  { inv_ok. rewrite app_nil_r. auto. }
  apply bind_ok in H as ([[[st1 fl1] brk] evs1] & H1 & H).
  destruct (handle_packet_sh _ _ _ _ _ _ _ _ _ _ LI HS H1) as [LI1 HS1].
  destruct brk; [inv_ok; auto|].
  apply bind_ok in H as ([[st2 fl2] evs2] & H2 & H). inv_ok. rewrite app_assoc. eapply IH; eassumption.
Qed.

Lemma al_remove_In {V} k (m : list (str * V)) x : In x (al_remove str_eqb k m) -> In x m.
Proof.
  induction m as [|[k' v'] m IH]; cbn [al_remove]; [auto|]. destruct (str_eqb k k'); [intros H; now right|].
  intros [<- | H]; [now left|right; auto].
Qed.

Lemma handle_disconnection_sh st id reason st' tr :
  LogsInv (r_datalog st) -> SH st [] tr -> handle_disconnection st id reason = Ok st' ->
  LogsInv (r_datalog st') /\ SH st' [] tr.
Proof.
  intros LI HS H.
  pose proof (handle_disconnection_hsub _ _ _ _ [] H) as Hsub.
  pose proof (handle_disconnection_SL _ _ _ _ H) as SL0. pose proof (SL_dl_le _ _ SL0) as L.
  assert (LI' : LogsInv (r_datalog st')) by (eapply logsinv_same_logs; [exact LI|exact SL0]).
  split; [exact LI'|]. destruct HS as [S1 S2 S3].
  assert (FL : fi_le (findex st) (findex st')) by (now apply dl_le_fi).
  constructor.
  - intros c rq Hh. eapply shp_mono; [exact FL|]. apply (S1 c rq). apply Hsub. exact Hh.
  - (* the graveyard gets the session of [id] *)
    unfold handle_disconnection in H.
    destruct (slab_get (r_obufs st) id) as [o0|] eqn:Eo0.
    2:{ inv_ok. exact S2. }
    apply bind_ok in H as (st0 & H0 & H).
    assert (V0 : cview st0 = cview st).
    { destruct reason; [|now inv_ok]. apply bind_ok in H0 as ([s len0] & H0 & H1). inv_ok. eapply push_out_cview; eassumption. }
    assert (R0 : rview st0 = rview st).
    { destruct reason; [|now inv_ok]. apply bind_ok in H0 as ([s len0] & H0 & H1). inv_ok.
      apply push_out_fields in H0. rewrite H0. reflexivity. }
    unfold cview in V0. inversion V0 as [[E1 E2 E3 E4 E5 E6 E7]].
    destruct (slab_remove (r_conns st0) id) as [[conns conn]|]; [|discriminate].
    destruct (slab_remove (r_ibufs st0) id) as [[ibufs ib]|]; [|discriminate].
    destruct (slab_remove (r_obufs st0) id) as [[obufs outg]|] eqn:Ro; [|discriminate].
    destruct (slab_remove (r_trackers st0) id) as [[trackers trk]|] eqn:Rt; [|discriminate].
    destruct (slab_remove (r_acks st0) id) as [[acks al]|]; [|discriminate].
    destruct (dl_clean (r_datalog st0) id) as [dl inflight_rqs] eqn:Ecl.
    apply bind_ok in H as ([grave groups'] & HG & H). inv_ok. cbn [r_graveyard findex r_datalog] in *.
    assert (Hfi : dl_findex dl = dl_findex (r_datalog st)).
    { unfold dl_clean in Ecl. destruct (clean_items (sl_items (dl_native (r_datalog st0))) id) as [items q']. inv_ok.
      cbn [set_dl_native dl_findex]. now rewrite E6. }
    destruct (slab_remove_get _ _ _ _ id Rt) as [Ht _].
    assert (Htrk : Forall (shp (dl_findex (r_datalog st))) (tr_reqs trk)).
    { apply Forall_forall. intros rq Hin. apply (S1 id rq). left. left. exists trk. rewrite <- E1. auto. }
    assert (Hq : Forall (shp (dl_findex (r_datalog st))) inflight_rqs).
    { unfold dl_clean in Ecl. destruct (clean_items (sl_items (dl_native (r_datalog st0))) id) as [items q'] eqn:Eci. inv_ok.
      assert (HP : ItemsOk (fun w => shp (dl_findex (r_datalog st)) (snd w)) (sl_items (dl_native (r_datalog st0)))).
      { apply itemsok_nget. intros i d Hd. apply Forall_forall. intros [c rq] Hin. cbn [snd]. apply (S1 c rq).
        left. right. left. exists i, d. rewrite <- E6. auto. }
      destruct (clean_items_ok _ _ _ _ _ HP Eci) as [_ Hq2]. revert Hq2. apply Forall_impl. intros rq [c Hc]. exact Hc. }
    intros client ss Hin. unfold findex. cbn [r_datalog]. rewrite Hfi.
    destruct (negb (c_clean conn)).
    + apply bind_ok in HG as ([rqs' gs] & HR & HG). inv_ok.
      apply al_set_In in Hin as [[-> Es] | Hin].
      * inversion Es; subst ss. cbn [ss_tracker tr_reqs].
        eapply rewind_requests_shp; [|exact HR]. apply Forall_app. auto.
      * apply al_remove_In in Hin. rewrite E3 in Hin. eapply S2; exact Hin.
    + inv_ok. apply al_set_In in Hin as [[_ Es] | Hin]; [discriminate|].
      apply al_remove_In in Hin. rewrite E3 in Hin. eapply S2; exact Hin.
  - intros id0 k f i a Hin. destruct (S3 _ _ _ _ _ Hin) as [A B]. split; [exact A|now apply FL].
Qed.

Lemma sh_add_disc st id st' e tr : SH st' e tr -> SH st' e (tr ++ disc_ghost st id st').
Proof.
  intros [S1 S2 S3]. constructor; [exact S1|exact S2|].
  intros id0 k f i a Hin. apply in_app_or in Hin as [Hin | Hin]; [eapply S3; exact Hin|].
  unfold disc_ghost in Hin. destruct (slab_get (r_obufs st) id) as [o|]; [|destruct Hin].
  destruct (slab_get (r_trackers st) id) as [t|]; [|destruct Hin]. destruct (slab_get (r_conns st) id) as [c|]; [|destruct Hin].
  destruct (c_clean c); [destruct Hin|].
  destruct (al_get str_eqb (tr_id t) (r_graveyard st')) as [[ss|]|] eqn:Eg; try destruct Hin.
  apply in_map_iff in Hin as (rq & E & Hrq). inversion E; subst. apply filter_In in Hrq as [Hrq Hu].
  apply al_get_In in Eg. specialize (S2 _ _ Eg). rewrite Forall_forall in S2. specialize (S2 _ Hrq).
  unfold shp in S2. unfold unshared_b in Hu. destruct (dr_group rq); [discriminate|]. exact S2.
Qed.

Lemma handle_device_payload_sh st id st' evs tr :
  LogsInv (r_datalog st) -> SH st [] tr ->
  handle_device_payload_d st id = Ok (st', evs) -> LogsInv (r_datalog st') /\ SH st' [] (tr ++ evs).
Proof.
  intros LI HS H. unfold handle_device_payload_d in H.
  destruct (slab_get (r_ibufs st) id) as [inc|]; [|inv_ok; rewrite app_nil_r; auto].
  apply bind_ok in H as (b & _ & H).
  match type of H with context [handle_packets_d ?s _ _ _ _] => set (st0 := s) in * end.
  assert (HS0 : SH st0 [] tr) by (apply (sh_frame st st0 [] [] tr); [apply hsub_view; reflexivity|apply fi_le_refl|reflexivity|exact HS]).
  apply bind_ok in H as ([[st1 fl] evs1] & H1 & H).
  apply bind_ok in H as (st2 & H2 & H). apply bind_ok in H as (st3 & H3 & H). apply bind_ok in H as (st4 & H4 & H). inv_ok.
  destruct (handle_packets_sh id (i_client inc) (lk_in b) st0 flags0 st1 fl evs1 tr LI HS0 H1) as [LI1 HS1].
  assert (X2 : LogsInv (r_datalog st2) /\ SH st2 [] (tr ++ evs1)).
  { destruct (f_force_ack fl); [|inv_ok; auto]. pose proof (reschedule_dl _ _ _ _ H2) as ED. split; [now rewrite ED|].
    apply (sh_frame st1 st2 [] [] (tr ++ evs1)); [eapply reschedule_hsub; exact H2|now apply fi_le_eq
                     |apply kid_grave; exact ((SessionIds.fi_reschedule st1 id SFreshData) _ H2)|exact HS1]. }
  destruct X2 as [LI2 HS2].
  assert (X3 : LogsInv (r_datalog st3) /\ SH st3 [] (tr ++ evs1)).
  { destruct (f_new_data fl); [|inv_ok; auto]. pose proof (drain_notifications_dl _ _ H3) as ED. split; [now rewrite ED|].
    apply (sh_frame st2 st3 [] [] (tr ++ evs1)); [eapply drain_notifications_hsub; exact H3|now apply fi_le_eq
                     |apply kid_grave; exact ((SessionIds.fi_drain_notifications st2) _ H3)|exact HS2]. }
  destruct X3 as [LI3 HS3].
  destruct (f_disconnect fl); [|inv_ok; rewrite app_nil_r; auto].
  destruct (handle_disconnection_sh _ _ _ _ _ LI3 HS3 H4) as [LI4 HS4]. split; [exact LI4|].
  rewrite app_assoc. now apply sh_add_disc.
Qed.

(* ------------------------------------------------------------------ sweeps *)
Lemma fdd_ghost_key st id rq st' cs id0 k f i a :
  In (id0, (k, f, i), a) (fdd_ghost st id rq st' cs) -> dr_group rq = None /\ f = dr_filter rq /\ i = dr_idx rq.
Proof.
  unfold fdd_ghost. destruct (dr_group rq); [intros []|]. destruct (slab_get (r_obufs st) id) as [o|]; [|intros []].
  intros Hin. assert (X : In (id0, (k, f, i), a)
     ((match nget (r_datalog st) (dr_idx rq) with
       | Some d => if stale (d_log d) (dr_cursor rq)
                   then [(id, (o_link o, dr_filter rq, dr_idx rq), KJump (snd (dr_cursor rq)) (base_of (d_log d)))] else []
       | None => [] end) ++
      map (fun x : N * publish => (id, (o_link o, dr_filter rq, dr_idx rq), KFwd (fst x) (snd x)))
          (log_fwds (skipn (length (out_of st (o_link o))) (out_of st' (o_link o)))))).
  { destruct cs; try exact Hin. destruct Hin. }
  clear Hin. apply in_app_or in X as [X | X].
  - destruct (nget (r_datalog st) (dr_idx rq)) as [d|]; [|destruct X].
    destruct (stale (d_log d) (dr_cursor rq)); [|destruct X]. destruct X as [E | []]. inversion E; subst. auto.
  - apply in_map_iff in X as (x & E & _). inversion E; subst. auto.
Qed.

Lemma fdd_sh st id rq st1 rq' cs e tr :
  SH st ((id, rq) :: e) tr ->
  forward_device_data st id rq = Ok (st1, rq', cs) ->
  SH st1 ((id, rq') :: e) (tr ++ fdd_ghost st id rq st1 cs).
Proof.
  intros [S1 S2 S3] H.
  pose proof (fdd_rview _ _ _ _ _ _ H) as V. pose proof (fdd_dl _ _ _ _ _ _ H) as D.
  destruct (fdd_shape _ _ _ _ _ _ H) as (Eg & Ef & Ei).
  pose proof (kid_grave _ _ ((SessionIds.fi_forward_device_data st id rq) _ H)) as EG. cbn [fst] in EG.
  assert (EF : findex st1 = findex st) by (unfold findex; now rewrite D).
  assert (Hrq : shp (findex st) rq) by (apply (S1 id rq); right; now left).
  constructor.
  - intros c r Hh. rewrite EF. destruct Hh as [Hh | [E | Hh]].
    + apply (S1 c r). left. eapply held_view; eassumption.
    + inversion E; subst c r. eapply shp_same; eassumption.
    + apply (S1 c r). right. now right.
  - intros client ss Hin. rewrite EG in Hin. rewrite EF. eapply S2; exact Hin.
  - intros id0 k f i a Hin. rewrite EF. apply in_app_or in Hin as [Hin | Hin]; [eapply S3; eassumption|].
    destruct (fdd_ghost_key _ _ _ _ _ _ _ _ _ _ Hin) as (Hg & -> & ->). unfold shp in Hrq. rewrite Hg in Hrq. exact Hrq.
Qed.

Lemma consume_loop_sh id : forall fuel st requests skipped st' evs tr,
  SH st (map (pair id) (requests ++ skipped)) tr ->
  consume_loop_d fuel st id requests skipped = Ok (st', evs) ->
  SH st' [] (tr ++ evs).
Proof.
  induction fuel as [|fuel IH]; cbn [consume_loop_d]; intros st requests skipped st' evs tr HS H.
  - apply bind_ok in H as (s & H1 & H). inv_ok. rewrite app_nil_r.
    eapply sh_frame; [|apply fi_le_eq; eapply trackv_dl; exact H1
                     |apply kid_grave; exact ((SessionIds.fi_trackv st id (requests ++ skipped)) _ H1)|exact HS].
    rewrite <- (app_nil_r (map (pair id) (requests ++ skipped))). eapply trackv_hsub; exact H1.
  - destruct requests as [|rq rest].
    + apply bind_ok in H as (st1 & H1 & H). apply bind_ok in H as (s & H2 & H). inv_ok. rewrite app_nil_r. cbn [app] in HS.
      assert (X : SH st1 (map (pair id) skipped) tr).
      { destruct skipped; [|now inv_ok].
        eapply sh_frame; [eapply pause_hsub; exact H1|apply fi_le_eq; eapply pause_dl; exact H1
                         |apply kid_grave; exact ((SessionIds.fi_pause st id Caughtup) _ H1)|exact HS]. }
      eapply sh_frame; [|apply fi_le_eq; eapply trackv_dl; exact H2
                       |apply kid_grave; exact ((SessionIds.fi_trackv st1 id skipped) _ H2)|exact X].
      rewrite <- (app_nil_r (map (pair id) skipped)). eapply trackv_hsub; exact H2.
    + apply bind_ok in H as ([[st1 rq'] status] & H1 & H).
      set (e := map (pair id) (rest ++ skipped)).
      assert (HS1 : SH st1 ((id, rq') :: e) (tr ++ fdd_ghost st id rq st1 status)) by (eapply fdd_sh; [exact HS|exact H1]).
      assert (Hinc1 : forall l1 l2, incl (map (pair id) ((l1 ++ [rq']) ++ l2)) ((id, rq') :: map (pair id) (l1 ++ l2))).
      { intros l1 l2 x Hx. apply in_map_iff in Hx as (r & <- & Hr'). apply in_app_or in Hr' as [Hr' | Hr'].
        - apply in_app_or in Hr' as [Hr' | [<- | []]]; [right; apply in_map; apply in_or_app; now left|now left].
        - right. apply in_map. apply in_or_app. now right. }
      assert (Hinc2 : forall l1 l2, incl (map (pair id) (l1 ++ l2 ++ [rq'])) ((id, rq') :: map (pair id) (l1 ++ l2))).
      { intros l1 l2 x Hx. apply in_map_iff in Hx as (r & <- & Hr'). apply in_app_or in Hr' as [Hr' | Hr'].
        - right. apply in_map. apply in_or_app. now left.
        - apply in_app_or in Hr' as [Hr' | [<- | []]]; [right; apply in_map; apply in_or_app; now right|now left]. }
      assert (Hfin : forall why st2 s, pause st1 id why = Ok st2 ->
                trackv st2 id ((rest ++ [rq']) ++ skipped) = Ok s ->
                SH s [] (tr ++ fdd_ghost st id rq st1 status)).
      { intros why st2 s H2 H3.
        eapply (sh_frame st1); [| | |exact HS1].
        - eapply hsub_trans; [eapply pause_hsub; exact H2|].
          eapply hsub_trans; [apply hsub_local; apply (Hinc1 rest skipped)|].
          rewrite <- (app_nil_r (map (pair id) ((rest ++ [rq']) ++ skipped))). eapply trackv_hsub; exact H3.
        - apply fi_le_eq. rewrite (trackv_dl _ _ _ _ H3). eapply pause_dl; exact H2.
        - rewrite (kid_grave _ _ ((SessionIds.fi_trackv st2 id _) _ H3)).
          apply kid_grave. exact ((SessionIds.fi_pause st1 id why) _ H2). }
      destruct status.
      * apply bind_ok in H as (st2 & H2 & H). apply bind_ok in H as (s & H3 & H). inv_ok. eapply Hfin; eassumption.
      * apply bind_ok in H as (st2 & H2 & H). apply bind_ok in H as (s & H3 & H). inv_ok. eapply Hfin; eassumption.
      * apply bind_ok in H as (st2 & H2 & H). apply bind_ok in H as ([s evs2] & H3 & H). inv_ok.
        rewrite app_assoc. eapply IH; [|exact H3].
        eapply (sh_frame st1); [eapply park_hsub; exact H2|apply dl_le_fi; apply dl_le_same_logs; eapply park_same; exact H2
                               |apply keq_grave; exact ((SessionIds.fi_park st1 id rq') _ H2)|exact HS1].
      * apply bind_ok in H as ([s evs2] & H3 & H). inv_ok.
        rewrite app_assoc. eapply IH; [|exact H3]. eapply sh_locals; [|exact HS1]. apply Hinc1.
      * apply bind_ok in H as ([s evs2] & H3 & H). inv_ok.
        rewrite app_assoc. eapply IH; [|exact H3]. eapply sh_locals; [|exact HS1]. apply Hinc2.
Qed.

Lemma consume_sh st st' b evs tr :
  SH st [] tr -> consume_d st = Ok (st', b, evs) -> SH st' [] (tr ++ evs).
Proof.
  intros HS H. unfold consume_d in H.
  destruct (r_ready st) as [|id rq]; [inv_ok; now rewrite app_nil_r|]. cbv zeta in H.
  cbn [r_trackers set_r_ready] in H.
  destruct (slab_get (r_trackers st) id) as [t|] eqn:Et.
  2:{ inv_ok. rewrite app_nil_r. apply (sh_frame st _ [] [] tr); [apply hsub_view; reflexivity|apply fi_le_refl|reflexivity|exact HS]. }
  match type of H with context [slab_get (r_obufs ?s) id] => set (st2 := s) in * end.
  assert (HS2 : SH st2 (map (pair id) (tr_reqs t)) tr).
  { rewrite <- (app_nil_r (map (pair id) (tr_reqs t))).
    apply (sh_frame st st2 [] _ tr); [|apply fi_le_refl|reflexivity|exact HS].
    unfold st2. eapply hsub_trans; [apply (hsub_view st (set_r_ready st rq)); reflexivity|].
    eapply hsub_trans; [apply (take_tracker_hsub (set_r_ready st rq) id t []); exact Et|]. apply hsub_view. reflexivity. }
  destruct (slab_get (r_obufs st2) id) as [o|].
  2:{ inv_ok. rewrite app_nil_r. eapply sh_locals; [|exact HS2]. intros x []. }
  apply bind_ok in H as (st3 & H3 & H). apply bind_ok in H as (u & _ & H).
  apply bind_ok in H as ([st4 evs4] & H4 & H). inv_ok.
  pose proof (ack_device_data_rview _ _ _ _ H3) as V3.
  pose proof (ack_device_data_cview _ _ _ _ H3) as CV3. pose proof (cview_dl _ _ CV3) as ED3.
  eapply consume_loop_sh; [|exact H4]. rewrite app_nil_r.
  apply (sh_frame st2 st3 (map (pair id) (tr_reqs t)) (map (pair id) (tr_reqs t)) tr); [apply hsub_view; exact V3|now apply fi_le_eq
                   |apply kid_grave; exact ((SessionIds.fi_ack_device_data st2 id o) _ H3)|exact HS2].
Qed.

(* ------------------------------------------------------------------ a new connection *)
Lemma conn_ghost_ev s client link id K a :
  In (id, K, a) (conn_ghost s client link) ->
  exists rq t, slab_get (r_trackers s) id = Some t /\ In rq (tr_reqs t) /\ dr_group rq = None /\
               K = (link, dr_filter rq, dr_idx rq).
Proof.
  unfold conn_ghost. destruct (al_get str_eqb client (r_cmap s)) as [id0|]; [|intros []].
  destruct (slab_get (r_obufs s) id0) as [o|]; [|intros []].
  destruct (slab_get (r_trackers s) id0) as [t|] eqn:Et; [|intros []].
  destruct (o_link o =? link); [|intros []].
  intros Hin. apply in_map_iff in Hin as (rq & E & Hrq). inversion E; subst. apply filter_In in Hrq as [Hrq Hu].
  exists rq, t. split; [exact Et|]. split; [exact Hrq|]. split; [|reflexivity].
  unfold unshared_b in Hu. destruct (dr_group rq); [discriminate|reflexivity].
Qed.

Lemma handle_new_connection_sh st conn link st' tr :
  LogsInv (r_datalog st) -> SH st [] tr ->
  handle_new_connection st conn link = Ok st' ->
  LogsInv (r_datalog st') /\ SH st' [] (tr ++ take_ghost st (c_client conn) ++ conn_ghost st' (c_client conn) link).
Proof.
  intros LI HS H. rewrite app_assoc.
  assert (Hadd : forall s tr0, SH s [] tr0 -> SH s [] (tr0 ++ conn_ghost s (c_client conn) link)).
  { intros s tr0 [S1 S2 S3]. constructor; [exact S1|exact S2|].
    intros id k f i a Hin. apply in_app_or in Hin as [Hin | Hin]; [eapply S3; eassumption|].
    destruct (conn_ghost_ev s (c_client conn) link id (k, f, i) a Hin) as (rq & t & Ht & Hrq & Hg & Hk).
    inversion Hk; subst. assert (Hs : shp (findex s) rq) by (apply (S1 id rq); left; left; exists t; auto).
    unfold shp in Hs. rewrite Hg in Hs. exact Hs. }
  unfold handle_new_connection in H. unfold take_ghost.
  destruct (validate_clientid (c_client conn)); cbn [negb] in H; [|inv_ok; rewrite app_nil_r; auto].
  apply bind_ok in H as (st1 & H1 & H).
  set (tg := match al_get str_eqb (c_client conn) (r_cmap st) with
             | Some cid => match handle_disconnection st cid None with Ok s => disc_ghost st cid s | _ => [] end
             | None => [] end).
  assert (X1 : LogsInv (r_datalog st1) /\ SH st1 [] (tr ++ tg)).
  { unfold tg. destruct (al_get str_eqb (c_client conn) (r_cmap st)) as [cid|]; [|inv_ok; rewrite app_nil_r; auto].
    rewrite H1. destruct (handle_disconnection_sh _ _ _ _ _ LI HS H1) as [LI1 HS1]. split; [exact LI1|]. now apply sh_add_disc. }
  destruct X1 as [LI1 HS1]. clear H1 HS LI.
  remember (tr ++ tg) as trx eqn:Etrx.
  clear Etrx.
  destruct (cf_max_connections (r_cfg st1) <=? slab_len (r_conns st1)); [inv_ok; auto|].
  match type of H with (match ?X with _ => _ end) = _ => destruct X as [[trk conn1] pubrels] eqn:EX end.
  destruct (slab_insert (r_conns st1) (set_c_will conn1 None)) as [conns id] eqn:Ic.
  destruct (slab_insert (r_ibufs st1) _) as [ibufs id_i] eqn:Ii.
  destruct (slab_insert (r_obufs st1) _) as [obufs id_o] eqn:Io.
  destruct (slab_insert (r_acks st1) _) as [acks id_a] eqn:Ia.
  destruct (slab_insert (r_trackers st1) trk) as [trackers id_t] eqn:It.
  match type of H with (if ?b then _ else _) = _ => destruct b eqn:Eal end; [discriminate|].
  apply negb_false_iff in Eal. repeat (apply andb_true_iff in Eal as [Eal ?]).
  repeat match goal with E : (_ =? _) = true |- _ => apply N.eqb_eq in E end. subst id_i id_o id_a id_t.
  apply bind_ok in H as (u & _ & H).
  match type of H with reschedule ?s id SInit = _ => set (st2 := s) in * end.
  destruct HS1 as [S1 S2 S3].
  assert (Htrk : Forall (shp (findex st1)) (tr_reqs trk)).
  { destruct (negb (c_clean conn)).
    - destruct (al_get str_eqb (c_client conn) (r_graveyard st1)) as [[ss|]|] eqn:Es; inv_ok; cbn [tr_reqs]; try constructor.
      apply al_get_In in Es. eapply S2; exact Es.
    - inv_ok. constructor. }
  assert (HS2 : SH st2 [] trx).
  { constructor.
    - intros c rq [Hh | []]. change (findex st2) with (findex st1).
      destruct Hh as [(t & Ht & Hin) | [Hw | Hn]].
      + cbn [st2 r_trackers] in Ht. destruct (slab_insert_inv _ _ _ _ _ _ It Ht) as [[_ ->] | [_ Ht1]].
        * rewrite Forall_forall in Htrk. now apply Htrk.
        * apply (S1 c rq). left. left. exists t. auto.
      + apply (S1 c rq). left. right. left. exact Hw.
      + apply (S1 c rq). left. right. right. exact Hn.
    - intros client ss Hin. cbn [st2 r_graveyard] in Hin. apply al_remove_In in Hin. change (findex st2) with (findex st1).
      eapply S2; exact Hin.
    - exact S3. }
  pose proof (reschedule_dl _ _ _ _ H) as ED.
  split; [rewrite ED; exact LI1|]. apply Hadd.
  eapply sh_frame; [eapply reschedule_hsub; exact H|now apply fi_le_eq
                   |apply kid_grave; exact ((SessionIds.fi_reschedule st2 id SInit) _ H)|exact HS2].
Qed.

(* ------------------------------------------------------------------ steps and runs *)
Lemma step_with_sh st orc o st' out evs tr :
  LogsInv (r_datalog st) -> SH st [] tr ->
  step_with_d st orc o = Ok (st', out, evs) -> LogsInv (r_datalog st') /\ SH st' [] (tr ++ evs).
Proof.
  intros LI HS H. unfold step_with_d in H. apply bind_ok in H as ([[st1 out1] evs1] & H1 & H).
  destruct (r_oracle st1); [|discriminate]. inv_ok.
  set (s0 := set_r_oracle st orc) in *.
  assert (HS0 : SH s0 [] tr) by (apply (sh_frame st s0 [] [] tr); [apply hsub_view; reflexivity|apply fi_le_refl|reflexivity|exact HS]).
  assert (LI0 : LogsInv (r_datalog s0)) by exact LI.
  assert (Hview : forall s, rview s = rview s0 -> r_datalog s = r_datalog s0 -> r_graveyard s = r_graveyard s0 ->
            LogsInv (r_datalog s) /\ SH s [] (tr ++ [])).
  { intros s V D G. rewrite app_nil_r. split; [now rewrite D|].
    apply (sh_frame s0 s [] [] tr); [apply hsub_view; exact V|now apply fi_le_eq|exact G|exact HS0]. }
  destruct o as [c | k pk | id | | k | id | id | id f | c |]; unfold step_d in H1.
  - (* Connect *)
    apply bind_ok in H1 as ([st2 out2] & H2 & H1). inv_ok. cbn [step] in H2. cbv zeta in H2.
    apply bind_ok in H2 as (st3 & H3 & H2). inv_ok.
    match type of H3 with handle_new_connection ?s ?cn ?lk = _ =>
      apply (handle_new_connection_sh s cn lk st' tr); [exact LI0| |exact H3];
      apply (sh_frame s0 s [] [] tr); [apply hsub_view; reflexivity|apply fi_le_refl|reflexivity|exact HS0] end.
  - apply bind_ok in H1 as ([st2 out2] & H2 & H1). inv_ok. cbn [step] in H2.
    destruct (nthN (r_links s0) k); inv_ok; apply Hview; reflexivity.
  - apply bind_ok in H1 as ([st2 evs2] & H2 & H1). inv_ok. eapply handle_device_payload_sh; eassumption.
  - apply bind_ok in H1 as ([[st2 b] evs2] & H2 & H1). inv_ok. split; [|eapply consume_sh; eassumption].
    assert (H2' : consume s0 = Ok (st', b)) by (rewrite <- consume_erase, H2; reflexivity).
    eapply logsinv_same_logs; [exact LI0|eapply consume_SL; exact H2'].
  - apply bind_ok in H1 as ([st2 out2] & H2 & H1). inv_ok. cbn [step] in H2.
    destruct (nthN (r_links s0) k); inv_ok; apply Hview; reflexivity.
  - apply bind_ok in H1 as ([st2 out2] & H2 & H1). inv_ok. cbn [step] in H2.
    destruct (slab_get (r_trackers s0) id); [|inv_ok; apply Hview; reflexivity].
    apply bind_ok in H2 as (st1 & H3 & H2). inv_ok. rewrite app_nil_r. pose proof (reschedule_dl _ _ _ _ H3) as ED.
    split; [now rewrite ED|].
    apply (sh_frame s0 st' [] [] tr); [eapply reschedule_hsub; exact H3|now apply fi_le_eq
                                      |apply kid_grave; exact ((SessionIds.fi_reschedule s0 id SReady) _ H3)|exact HS0].
  - apply bind_ok in H1 as ([st2 out2] & H2 & H1). inv_ok. cbn [step] in H2.
    apply bind_ok in H2 as (st1 & H3 & H2). inv_ok.
    destruct (handle_disconnection_sh _ _ _ _ _ LI0 HS0 H3) as [LI1 HS1]. split; [exact LI1|]. now apply sh_add_disc.
  - apply bind_ok in H1 as ([st2 out2] & H2 & H1). inv_ok. cbn [step] in H2.
    apply bind_ok in H2 as (st1 & H3 & H2). inv_ok.
    pose proof (retrieve_shadow_cview _ _ _ _ H3) as V. unfold cview in V. inversion V as [[E1 E2 E3 E4 E5 E6 E7]].
    apply Hview; [eapply retrieve_shadow_rview; exact H3|exact E6|exact E3].
  - apply bind_ok in H1 as ([st2 out2] & H2 & H1). inv_ok. cbn [step] in H2.
    apply bind_ok in H2 as (st1 & H3 & H2). inv_ok. rewrite app_nil_r.
    destruct (handle_last_will_LL _ _ _ H3 LI0) as [LI' L]. split; [exact LI'|].
    apply (sh_frame s0 st' [] [] tr); [eapply handle_last_will_hsub; exact H3|now apply dl_le_fi
                                      |apply kid_grave; exact ((SessionIds.fi_handle_last_will s0 c) _ H3)|exact HS0].
  - apply bind_ok in H1 as ([st2 out2] & H2 & H1). inv_ok. cbn [step] in H2. inv_ok. apply Hview; reflexivity.
Qed.

Lemma run_sh : forall ops st st' tr0 tr,
  LogsInv (r_datalog st) -> SH st [] tr0 -> run_d st ops = Ok (st', tr) ->
  LogsInv (r_datalog st') /\ SH st' [] (tr0 ++ tr).
Proof.
  induction ops as [|[orc o] ops IH]; intros st st' tr0 tr LI HS H; cbn [run_d] in H.
  - inv_ok. rewrite app_nil_r. auto.
  - apply bind_ok in H as ([[st1 out] evs] & H1 & H). apply bind_ok in H as ([st2 evs2] & H2 & H). inv_ok.
    destruct (step_with_sh _ _ _ _ _ _ _ LI HS H1) as [LI1 HS1]. rewrite app_assoc. eapply IH; eassumption.
Qed.

Lemma sh_init cfg st : init cfg = Ok st -> LogsInv (r_datalog st) /\ SH st [] [].
Proof.
  unfold init. intros H. apply bind_ok in H as (dl & Hdl & H). inv_ok.
  destruct (init_datalog_logs _ _ Hdl) as [LI HW]. split; [exact LI|]. constructor.
  - intros c rq [[(t & Ht & _) | [(i & d & Hd & Hin) | Hn]] | []].
    + unfold slab_get in Ht. cbn in Ht. discriminate.
    + cbn [r_datalog] in Hd. rewrite (HW _ _ Hd) in Hin. destruct Hin.
    + destruct Hn.
  - intros client ss [].
  - intros id k f i a [].
Qed.

(** for every run from [init], with no hypothesis at all: the key of every event names a plain
    (not shared) subscription filter and the number [filter_indexes] gives for it; by
    [c01_log_invariant] ([dli_findex]) that log's filter IS [f] and every entry stored in it is a
    publish whose topic matches [f] *)
Theorem run_key_shape cfg st0 ops st tr :
  init cfg = Ok st0 -> run_d st0 ops = Ok (st, tr) ->
  forall id k f i a, In (id, (k, f, i), a) tr ->
    extract_group f = None /\ al_get str_eqb f (dl_findex (r_datalog st)) = Some i.
Proof.
  intros Hi Hr. destruct (sh_init _ _ Hi) as [LI0 HS0].
  destruct (run_sh ops st0 st [] tr LI0 HS0 Hr) as [_ [_ _ S3]]. exact S3.
Qed.

(** ... and every request held by anyone in the final state has the shape: not shared -> plain
    filter and the log [filter_indexes] gives for it; shared -> a "$share/<group>/.." filter *)
Theorem run_request_shape cfg st0 ops st tr :
  init cfg = Ok st0 -> run_d st0 ops = Ok (st, tr) ->
  forall c rq, Held st c rq -> shp (dl_findex (r_datalog st)) rq.
Proof.
  intros Hi Hr c rq Hh. destruct (sh_init _ _ Hi) as [LI0 HS0].
  destruct (run_sh ops st0 st [] tr LI0 HS0 Hr) as [_ [S1 _ _]]. apply (S1 c rq). now left.
Qed.
