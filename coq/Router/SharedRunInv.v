(** C17 at the level of whole runs — the invariant [GI] relating the ghost to the state.

    For every event (group key [name], client, offset [off]) recorded so far:
    - the log of the group key exists ([glog]) and [off] lies below its end (so a group created by
      SUBSCRIBE, whose cursor is the log's end, starts above it);
    - if a group is currently registered under [name], [off] lies below the position a read from
      that group's cursor starts at ([pos_of]: the cursor's offset, or the oldest retained entry
      when the cursor's segment has been evicted).
    Both clauses are monotone in the data log ([dl_le]) as long as the group cursors are issued
    cursors ([CInv]), and are untouched by changes to a group's members or turn. *)
From Rumqtt Require Import Router.Shared Log.Spec Log.Proofs Log.WfFacts Router.ExactLog.
From Rumqtt Require Import Topic.Proofs Router.WindowFrame Router.Window Router.DataLogInv Router.DataLogStep
                           Router.ExactInv Router.ExactStep1 Router.ExactStep2 Router.ExactLogs Router.ExactStep3
                           Router.SharedRun.
From Rumqtt Require Import Router.Model Router.RunDefs.
From Coq Require Import ZifyBool ZifyN ZifyNat Sorted.

(* ------------------------------------------------------------------ logs: read positions only move forward *)
Lemma stale_mono (l l' : log pubdata) all c :
  WFp l all -> llog_le l l' -> stale l c = true -> stale l' c = true.
Proof.
  intros W L Hs. destruct (L all W) as (xs & W' & HI & _).
  set (c' := (fst c, lenN (all ++ xs) + 1)).
  assert (Hi : Issued l c').
  { left. unfold stale in Hs. cbn [fst c']. lia. }
  apply HI in Hi. destruct (issued_pos pubdata_size l' (all ++ xs) c' (proj1 W') Hi) as [_ Hle].
  unfold pos_of in Hle. destruct (stale l' c') eqn:E.
  - unfold stale in *. cbn [fst c'] in E. exact E.
  - cbn [snd c'] in Hle. lia.
Qed.

Lemma pos_of_mono (l l' : log pubdata) all c :
  WFp l all -> llog_le l l' -> Issued l c -> pos_of l c <= pos_of l' c.
Proof.
  intros W L Hi. pose proof (stale_mono l l' all c W L) as Hm.
  destruct (L all W) as (xs & W' & _ & Hb & Hst). unfold pos_of.
  destruct (stale l c) eqn:E1.
  - rewrite (Hm eq_refl). exact Hb.
  - destruct (stale l' c) eqn:E2; [now apply Hst|lia].
Qed.

(* ------------------------------------------------------------------ the log of a group key *)
Lemma glog_le dl dl' name d :
  dl_le dl dl' -> glog dl name = Some d ->
  exists d', glog dl' name = Some d' /\ llog_le (d_log d) (d_log d').
Proof.
  intros [Hn Hf] H. unfold glog in *. destruct (split_once_slash name) as [[nm p]|]; [|discriminate].
  destruct (al_get str_eqb p (dl_findex dl)) as [i|] eqn:Ei; [|discriminate].
  rewrite (Hf _ _ Ei). destruct (Hn _ _ H) as (d' & Hd' & _ & L). exists d'. split; [exact Hd'|exact L].
Qed.

(** the cursor of a registered group is a cursor of the group key's log *)
Lemma grp_issued dl gs name g d :
  Forall (GrpOk dl) gs -> al_get str_eqb name gs = Some g -> glog dl name = Some d ->
  Issued (d_log d) (g_cursor g) /\ snd (g_cursor g) <= end_of (d_log d).
Proof.
  intros HF Hg Hd. pose proof (al_get_Forall _ _ _ _ HF Hg) as (nm & p & i & Hs & Hf & (d0 & Hd0 & Hi & He)).
  cbn [fst snd] in *. unfold glog in Hd. rewrite Hs, Hf in Hd. unfold nget in Hd0. rewrite Hd in Hd0.
  inversion Hd0; subst d0. auto.
Qed.

(** a shared request reads the log of its group key *)
Lemma rq_glog dl rq name d :
  RqOk dl rq -> dr_group rq = Some name -> slab_get (dl_native dl) (dr_idx rq) = Some d -> glog dl name = Some d.
Proof.
  intros [_ Hg] Hn Hd. destruct (Hg _ Hn) as (nm & p & Hs & Hf). unfold glog. now rewrite Hs, Hf.
Qed.

(* ------------------------------------------------------------------ the invariant *)
Definition EvOk (dl : datalog) (gs : list (str * group)) (e : gev) : Prop :=
  exists d, glog dl (fst (fst e)) = Some d /\ snd e < end_of (d_log d) /\
            forall g, al_get str_eqb (fst (fst e)) gs = Some g -> snd e < pos_of (d_log d) (g_cursor g).

Definition GI (st : rstate) (gf : list gev) : Prop := Forall (EvOk (r_datalog st) (r_groups st)) gf.

(** every group of [gs'] is a group of [gs] with the same cursor *)
Definition gcur_sub (gs gs' : list (str * group)) : Prop :=
  forall name g', al_get str_eqb name gs' = Some g' ->
    exists g, al_get str_eqb name gs = Some g /\ g_cursor g' = g_cursor g.

Lemma gcur_sub_refl gs : gcur_sub gs gs.
Proof. intros name g H. eauto. Qed.
Lemma gcur_sub_trans a b c : gcur_sub a b -> gcur_sub b c -> gcur_sub a c.
Proof.
  intros H1 H2 name g Hg. destruct (H2 _ _ Hg) as (g1 & Hg1 & E1). destruct (H1 _ _ Hg1) as (g0 & Hg0 & E0).
  exists g0. split; [exact Hg0|congruence].
Qed.
Lemma gcur_sub_eq gs gs' : gs' = gs -> gcur_sub gs gs'.
Proof. intros ->. apply gcur_sub_refl. Qed.

Lemma evok_mono dl dl' gs e :
  LogsInv dl -> dl_le dl dl' -> Forall (GrpOk dl) gs -> EvOk dl gs e -> EvOk dl' gs e.
Proof.
  intros LI L HG (d & Hd & He & Hg). destruct (glog_le _ _ _ _ L Hd) as (d' & Hd' & LL).
  assert (Hnd : nget dl (match split_once_slash (fst (fst e)) with
                         | Some (_, p) => match al_get str_eqb p (dl_findex dl) with Some i => i | None => 0 end
                         | None => 0 end) = Some d).
  { unfold glog in Hd. unfold nget. destruct (split_once_slash (fst (fst e))) as [[nm p]|]; [|discriminate].
    destruct (al_get str_eqb p (dl_findex dl)); [exact Hd|discriminate]. }
  destruct (li_wf _ LI _ _ Hnd) as [all W].
  exists d'. split; [exact Hd'|]. split.
  - pose proof (log_le_end pubdata_size _ _ all LL W). lia.
  - intros g Eg. specialize (Hg g Eg). destruct (grp_issued _ _ _ _ _ HG Eg Hd) as [Hi _].
    pose proof (pos_of_mono _ _ all _ W LL Hi). lia.
Qed.

Lemma evok_sub dl gs gs' e : gcur_sub gs gs' -> EvOk dl gs e -> EvOk dl gs' e.
Proof.
  intros HS (d & Hd & He & Hg). exists d. split; [exact Hd|]. split; [exact He|].
  intros g' Eg'. destruct (HS _ _ Eg') as (g & Eg & ->). now apply Hg.
Qed.

Lemma gi_step st st' gf :
  CInv st -> dl_le (r_datalog st) (r_datalog st') -> gcur_sub (r_groups st) (r_groups st') ->
  GI st gf -> GI st' gf.
Proof.
  intros [LI CI] L S. unfold GI. apply Forall_impl. intros e He.
  eapply evok_sub; [exact S|]. eapply evok_mono; [exact LI|exact L|exact (ci_groups _ _ CI)|exact He].
Qed.

Lemma gi_same st st' gf :
  r_datalog st' = r_datalog st -> r_groups st' = r_groups st -> GI st gf -> GI st' gf.
Proof. unfold GI. intros -> ->. auto. Qed.

(** a group (re)registered with a cursor that reads from the end of its log *)
Lemma evok_fresh dl gs gs' e :
  (forall name g', al_get str_eqb name gs' = Some g' ->
     (exists g, al_get str_eqb name gs = Some g /\ g_cursor g' = g_cursor g) \/
     (forall d, glog dl name = Some d -> end_of (d_log d) <= pos_of (d_log d) (g_cursor g'))) ->
  EvOk dl gs e -> EvOk dl gs' e.
Proof.
  intros HS (d & Hd & He & Hg). exists d. split; [exact Hd|]. split; [exact He|].
  intros g' Eg'. destruct (HS _ _ Eg') as [(g & Eg & ->) | Hf]; [now apply Hg|].
  specialize (Hf _ Hd). lia.
Qed.

(* ------------------------------------------------------------------ sorted lists of offsets *)
Lemma StronglySorted_app {A} (R : A -> A -> Prop) (l1 l2 : list A) :
  StronglySorted R l1 -> StronglySorted R l2 -> (forall x y, In x l1 -> In y l2 -> R x y) ->
  StronglySorted R (l1 ++ l2).
Proof.
  induction l1 as [|a l1 IH]; intros H1 H2 H; cbn [app]; [exact H2|].
  apply StronglySorted_inv in H1 as [H1 Ha]. constructor.
  - apply IH; [exact H1|exact H2|]. intros x y Hx Hy. apply H; [now right|exact Hy].
  - apply Forall_app. split; [exact Ha|]. apply Forall_forall. intros y Hy. apply H; [now left|exact Hy].
Qed.

Lemma StronglySorted_map_filter {A} (R : N -> N -> Prop) (f : A -> N) (p : A -> bool) (l : list A) :
  StronglySorted R (map f l) -> StronglySorted R (map f (filter p l)).
Proof.
  induction l as [|a l IH]; cbn [map filter]; intros H; [constructor|].
  apply StronglySorted_inv in H as [H Ha]. destruct (p a); cbn [map]; [|now apply IH].
  constructor; [now apply IH|]. rewrite Forall_forall in *. intros y Hy. apply Ha.
  apply in_map_iff in Hy as (x & <- & Hx). apply filter_In in Hx as [Hx _]. now apply in_map.
Qed.

Lemma Nseq_In p : forall k x, In x (Nseq p k) -> p <= x /\ x < p + N.of_nat k.
Proof.
  intros k. revert p. induction k as [|k IH]; intros p x H; cbn [Nseq] in H; [destruct H|].
  destruct H as [<- | H]; [lia|]. apply IH in H. lia.
Qed.

Lemma Nseq_sorted : forall k p, StronglySorted N.lt (Nseq p k).
Proof.
  induction k as [|k IH]; intros p; cbn [Nseq]; constructor; [apply IH|].
  apply Forall_forall. intros x Hx. apply Nseq_In in Hx. lia.
Qed.

Lemma sorted_nodup (l : list N) : StronglySorted N.lt l -> NoDup l.
Proof.
  induction l as [|a l IH]; intros H; constructor; apply StronglySorted_inv in H as [H Ha].
  - intros Hin. rewrite Forall_forall in Ha. specialize (Ha _ Hin). lia.
  - now apply IH.
Qed.

Lemma offs_of_app name a b : offs_of name (a ++ b) = offs_of name a ++ offs_of name b.
Proof. unfold offs_of. now rewrite filter_app, map_app. Qed.

Lemma offs_of_In name l off : In off (offs_of name l) <-> exists c, In (name, c, off) l.
Proof.
  unfold offs_of. rewrite in_map_iff. split.
  - intros ([[n c] o] & <- & Hx). apply filter_In in Hx as [Hx Hn]. cbn [fst snd] in *.
    apply str_eqb_true in Hn. subst n. eauto.
  - intros (c & Hx). exists (name, c, off). split; [reflexivity|]. apply filter_In. split; [exact Hx|].
    cbn [fst]. destruct (str_eqb_spec name name); congruence.
Qed.

(** the events one shared read contributes: consecutive offsets, one group key *)
Lemma offs_of_events name name0 (g : group) (c : str) (l : list N) :
  offs_of name (map forget (map (fun off => (name0, g, c, off)) l)) = if str_eqb name name0 then l else [].
Proof.
  unfold offs_of. induction l as [|x l IH]; cbn [map filter forget fst snd].
  - now destruct (str_eqb name name0).
  - destruct (str_eqb name name0) eqn:E; cbn [map snd]; rewrite IH, ?E; reflexivity.
Qed.

Lemma offs_of_member_filter name client l :
  offs_of_member name client l =
  map snd (filter (fun e : gev => str_eqb client (snd (fst e))) (filter (fun e : gev => str_eqb name (fst (fst e))) l)).
Proof.
  unfold offs_of_member. f_equal. induction l as [|e l IH]; cbn [filter]; [reflexivity|].
  destruct (str_eqb name (fst (fst e))); cbn [andb filter]; [|exact IH].
  destruct (str_eqb client (snd (fst e))); now rewrite IH.
Qed.

(** [c17_member_order] from [c17_at_most_once] *)
Lemma member_sorted name client l : increasing (offs_of name l) -> increasing (offs_of_member name client l).
Proof. unfold increasing. rewrite offs_of_member_filter. apply StronglySorted_map_filter. Qed.
