(** C06 (e): exactly which acks [handle_packet] registers, per packet kind, for THIS connection
    only; the QoS 2 record / release discipline; the acks of a batch in the order received. *)
From Coq Require Import ZArith ZifyBool ZifyN ZifyNat.
From Rumqtt Require Import Router.Model Router.RunDefs Router.WindowFrame Router.Window Router.WindowStep Router.WindowDisc.

(* ------------------------------------------------------------------ acks registered for one connection *)
(** only the ack log of [id] changes, and its committed list grows by [added] at the back *)
Definition acks_at (id : N) (st st' : rstate) (added : list ack) : Prop :=
  (forall id', id' <> id -> slab_get (r_acks st') id' = slab_get (r_acks st) id') /\
  match slab_get (r_acks st) id with
  | Some l => exists l', slab_get (r_acks st') id = Some l' /\ a_committed l' = a_committed l ++ added
  | None => slab_get (r_acks st') id = None /\ added = []
  end.

Lemma acks_at_eq id st st' : r_acks st' = r_acks st -> acks_at id st st' [].
Proof.
  intros E. split; [intros; now rewrite E |]. rewrite E.
  destruct (slab_get (r_acks st) id) as [l |]; [| split; reflexivity].
  exists l. split; [reflexivity | now rewrite app_nil_r].
Qed.

Lemma acks_at_trans id st1 st2 st3 a b :
  acks_at id st1 st2 a -> acks_at id st2 st3 b -> acks_at id st1 st3 (a ++ b).
Proof.
  intros [A1 A2] [B1 B2]. split; [intros id' Hne; now rewrite B1, A1 |].
  destruct (slab_get (r_acks st1) id) as [l1 |].
  - destruct A2 as (l2 & G2 & E2). rewrite G2 in B2. destruct B2 as (l3 & G3 & E3).
    exists l3. split; [exact G3 | now rewrite E3, E2, app_assoc].
  - destruct A2 as [G2 ->]. rewrite G2 in B2. destruct B2 as [G3 ->]. split; [exact G3 | reflexivity].
Qed.

Lemma acks_at_put st id l l' added :
  slab_get (r_acks st) id = Some l -> a_committed l' = a_committed l ++ added ->
  acks_at id st (put_acks st id l') added.
Proof.
  intros G E. split; rsimpl.
  - intros id' Hne. apply slab_get_put_other. congruence.
  - rewrite G. exists l'. split; [eapply slab_get_put_occ; eauto | exact E].
Qed.

Lemma acks_at_acks id st st2 st' added : r_acks st' = r_acks st2 -> acks_at id st st2 added -> acks_at id st st' added.
Proof. intros E [A B]. split; rewrite E; assumption. Qed.

(** the SUBACK codes: the requested QoS of the filters before the first invalid one *)
Fixpoint sub_codes (fs : list (str * N)) (subid : option N) : list N :=
  match fs with
  | [] => []
  | (path, qos) :: r =>
      if negb (validate_subscription path) then []
      else if match subid with Some 0 => true | _ => false end then []
      else qos :: sub_codes r subid
  end.

Lemma subscribe_filters_codes fs : forall st id subid fl codes st' fl' codes',
  subscribe_filters st id fs subid fl codes = Ok (st', fl', codes') -> codes' = codes ++ sub_codes fs subid.
Proof.
  induction fs as [| [path qos] r IH]; intros st id subid fl codes st' fl' codes' H;
    cbn [subscribe_filters sub_codes] in *.
  - inv_ok. now rewrite app_nil_r.
  - destruct (negb (validate_subscription path)); [inv_ok; now rewrite app_nil_r |].
    destruct (match extract_group path with Some (g, p) => (Some g, p) | None => (None, path) end) as [grp filter].
    destruct (match subid with Some 0 => true | _ => false end); [inv_ok; now rewrite app_nil_r |].
    apply bind_ok in H as ([[st1 idx] cu] & H1 & H). apply bind_ok in H as (st2 & H2 & H).
    apply IH in H. rewrite H, <- app_assoc. reflexivity.
Qed.

Lemma sub_codes_prefix fs subid : exists n, sub_codes fs subid = map snd (firstn n fs).
Proof.
  induction fs as [| [path qos] r [n IH]]; [exists O; reflexivity |]. cbn [sub_codes].
  destruct (negb (validate_subscription path)); [exists O; reflexivity |].
  destruct (match subid with Some 0 => true | _ => false end); [exists O; reflexivity |].
  exists (S n). cbn [firstn map snd]. now rewrite IH.
Qed.

Lemma sub_codes_all fs subid :
  subid <> Some 0 -> Forall (fun f => validate_subscription (fst f) = true) fs ->
  sub_codes fs subid = map snd fs.
Proof.
  intros Hs. induction 1 as [| [path qos] r Hv H IH]; [reflexivity |]. cbn [sub_codes map snd fst] in *.
  rewrite Hv. cbn [negb]. destruct subid as [[| p] |]; try congruence; now rewrite IH.
Qed.

Lemma unsubscribe_filters_reasons fs : forall st id client reasons st' reasons',
  unsubscribe_filters st id client fs reasons = Ok (st', reasons') ->
  exists rs, reasons' = reasons ++ rs /\ length rs = length fs /\
             Forall (fun r => r = UR_SUCCESS \/ r = UR_NO_SUB) rs.
Proof.
  induction fs as [| f r IH]; intros st id client reasons st' reasons' H; cbn [unsubscribe_filters] in H.
  - inv_ok. exists []. split; [now rewrite app_nil_r | split; [reflexivity | constructor]].
  - cbv zeta in H.
    assert (STEP : forall st1 x, (x = UR_SUCCESS \/ x = UR_NO_SUB) ->
              unsubscribe_filters st1 id client r (reasons ++ [x]) = Ok (st', reasons') ->
              exists rs, reasons' = reasons ++ rs /\ length rs = length (f :: r) /\
                         Forall (fun r => r = UR_SUCCESS \/ r = UR_NO_SUB) rs).
    { intros st1 x Hx H1. apply IH in H1 as (rs & -> & L & F). exists (x :: rs).
      split; [now rewrite <- app_assoc | split; [cbn [length]; now rewrite L | now constructor]]. }
    destruct (negb _) in H; [eapply STEP; [now right | exact H] |].
    apply bind_ok in H as (conn & _ & H).
    destruct (negb _) in H; [eapply STEP; [now right | exact H] |].
    apply bind_ok in H as (st4 & _ & H). apply bind_ok in H as (st5 & _ & H).
    eapply STEP; [now left | exact H].
Qed.

(* ------------------------------------------------------------------ C06 (e) *)
Definition registered (st : rstate) (id : N) (pk : packet) (added : list ack) : Prop :=
  match pk with
  | PPublish p _ =>
      added = if p_qos p =? 1 then [APubAck (p_pkid p)]
              else if p_qos p =? 2 then [APubRec (p_pkid p)] else []
  | PSubscribe pkid fs subid => added = [ASubAck pkid (sub_codes fs subid)]
  | PUnsubscribe pkid fs =>
      exists reasons, added = [AUnsubAck pkid reasons] /\ length reasons = length fs /\
                      Forall (fun r => r = UR_SUCCESS \/ r = UR_NO_SUB) reasons
  | PPubRec pkid =>
      added = match slab_get (r_obufs st) id with
              | Some o => match o_inflight o with
                          | h :: _ => if pkid =? pkid_of h then [APubRel pkid] else []
                          | [] => []
                          end
              | None => []
              end
  | PPubRel pkid _ => added = [APubComp pkid]
  | PPingReq => added = [APingResp]
  | PPubAck _ | PPubComp _ | PDisconnect | POther => added = []
  end.

Definition recorded_after (pk : packet) (rec : list pubdata) : list pubdata :=
  match pk with
  | PPublish p props => if p_qos p =? 2 then rec ++ [(p, props)] else rec
  | PPubRel _ _ => tl rec
  | _ => rec
  end.

Lemma reschedule_datalog st id why st' : reschedule st id why = Ok st' -> r_datalog st' = r_datalog st.
Proof. unfold reschedule, get_tracker, try_ready. intros H. break_all H; inv_ok; reflexivity. Qed.

Lemma acks_at_commit st st' id l l' added :
  slab_get (r_acks st) id = Some l -> r_acks st' = slab_put (r_acks st) id l' ->
  a_committed l' = a_committed l ++ added -> acks_at id st st' added.
Proof.
  intros G E C. eapply acks_at_acks; [| eapply (acks_at_put st id l l'); [exact G | exact C]]. rsimpl. exact E.
Qed.

Ltac acks_same := eapply acks_at_acks; [| apply acks_at_eq; reflexivity]; unfold keep in *; rsimpl; congruence.

Theorem handle_packet_registered st id client pk fl st' fl' brk :
  handle_packet st id client pk fl = Ok (st', fl', brk) ->
  exists added,
    acks_at id st st' added /\ registered st id pk added /\
    (forall l l', slab_get (r_acks st) id = Some l -> slab_get (r_acks st') id = Some l' ->
                  a_recorded l' = recorded_after pk (a_recorded l)).
Proof.
  intros H. destruct pk; unfold handle_packet in H.
  - (* PUBLISH *)
    cbv zeta in H. destruct (p_qos p =? 1) eqn:Q1.
    + apply bind_ok in H as (st1 & H1 & H). apply commit_ack_spec in H1 as (l & G & ->).
      apply bind_ok in H as ([st2 res] & H2 & H). apply append_to_commitlog_keep in H2.
      exists [APubAck (p_pkid p)].
      assert (A : acks_at id st st' [APubAck (p_pkid p)]).
      { eapply (acks_at_commit st st' id l (set_a_committed l (a_committed l ++ [APubAck (p_pkid p)])));
          [exact G | | reflexivity]. destruct res; inv_ok; unfold keep in *; rsimpl; congruence. }
      split; [exact A |]. split; [cbn [registered]; now rewrite Q1 |].
      intros l0 l' G0 G'. rewrite G in G0. inversion G0; subst l0. cbn [recorded_after].
      replace (p_qos p =? 2) with false by lia.
      assert (E : r_acks st' = r_acks (put_acks st id (set_a_committed l (a_committed l ++ [APubAck (p_pkid p)]))))
        by (destruct res; inv_ok; unfold keep in *; rsimpl; congruence).
      rewrite E in G'. rsimpl. rewrite (slab_get_put_occ _ _ _ _ G) in G'. inversion G'. reflexivity.
    + destruct (p_qos p =? 2) eqn:Q2.
      * unfold get_acks in H. destruct (slab_get (r_acks st) id) as [l |] eqn:G; [| discriminate]. cbn [bind] in H. inv_ok.
        exists [APubRec (p_pkid p)]. split; [eapply acks_at_put; [exact G | reflexivity] |].
        split; [cbn [registered]; now rewrite Q1, Q2 |].
        intros l0 l' G0 G'. inversion G0; subst l0. rsimpl. rewrite (slab_get_put_occ _ _ _ _ G) in G'.
        inversion G'. cbn [recorded_after a_recorded]. now rewrite Q2.
      * apply bind_ok in H as ([st2 res] & H2 & H). apply append_to_commitlog_keep in H2.
        assert (E : r_acks st' = r_acks st) by (destruct res; inv_ok; unfold keep in *; congruence).
        exists []. split; [now apply acks_at_eq |]. split; [cbn [registered]; now rewrite Q1, Q2 |].
        intros l0 l' G0 G'. rewrite E, G0 in G'. inversion G'. cbn [recorded_after]. now rewrite Q2.
  - (* SUBSCRIBE *)
    apply bind_ok in H as ([[st1 fl1] codes] & H1 & H). apply bind_ok in H as (st2 & H2 & H). inv_ok.
    pose proof (subscribe_filters_codes _ _ _ _ _ _ _ _ _ H1) as EC. cbn [app] in EC. subst codes.
    apply subscribe_filters_keep in H1. apply commit_ack_spec in H2 as (l & G & ->).
    exists [ASubAck pkid (sub_codes filters subid)].
    assert (G0 : slab_get (r_acks st) id = Some l) by (now rewrite <- (keep_acks _ _ H1)).
    split; [| split; [reflexivity |]].
    + eapply (acks_at_commit st _ id l (set_a_committed l (a_committed l ++ [ASubAck pkid (sub_codes filters subid)])));
        [exact G0 | | reflexivity]. rsimpl. now rewrite (keep_acks _ _ H1).
    + intros l0 l' G1 G'. rewrite G0 in G1. inversion G1; subst l0. rsimpl.
      rewrite (slab_get_put_occ _ _ _ _ G) in G'. inversion G'. reflexivity.
  - (* UNSUBSCRIBE *)
    apply bind_ok in H as (c0 & _ & H). apply bind_ok in H as ([st1 reasons] & H1 & H).
    apply bind_ok in H as (st2 & H2 & H). inv_ok.
    destruct (unsubscribe_filters_reasons _ _ _ _ _ _ _ H1) as (rs & EC & L & F). cbn [app] in EC. subst reasons.
    apply unsubscribe_filters_keep in H1. apply commit_ack_spec in H2 as (l & G & ->).
    exists [AUnsubAck pkid rs].
    assert (G0 : slab_get (r_acks st) id = Some l) by (now rewrite <- (keep_acks _ _ H1)).
    split; [| split; [exists rs; repeat split; assumption |]].
    + eapply (acks_at_commit st _ id l (set_a_committed l (a_committed l ++ [AUnsubAck pkid rs])));
        [exact G0 | | reflexivity]. rsimpl. now rewrite (keep_acks _ _ H1).
    + intros l0 l' G1 G'. rewrite G0 in G1. inversion G1; subst l0. rsimpl.
      rewrite (slab_get_put_occ _ _ _ _ G) in G'. inversion G'. reflexivity.
  - (* PUBACK *)
    exists []. unfold get_obuf in H. break_all H; inv_ok; keeps.
    all: match goal with |- acks_at _ _ ?s _ /\ _ =>
           assert (E : r_acks s = r_acks st) by (unfold keep in *; rsimpl; congruence) end.
    all: split; [now apply acks_at_eq |]; split; [reflexivity |].
    all: intros l0 l' G0 G'; rewrite E, G0 in G'; now inversion G'.
  - (* PUBREC *)
    unfold get_obuf in H. destruct (slab_get (r_obufs st) id) as [o |] eqn:Go; [| discriminate]. cbn [bind] in H.
    destruct (register_ack o pkid) as [o' ok] eqn:ER. apply register_ack_spec in ER.
    destruct ok.
    + apply bind_ok in H as (l & G & H). apply bind_ok in H as (st2 & H2 & H). apply bind_ok in H as (st3 & H3 & H).
      inv_ok. apply commit_ack_spec in H2 as (l2 & G2 & ->). apply reschedule_keep in H3.
      rsimpl. unfold get_acks in G. destruct (slab_get (r_acks st) id) as [l1 |] eqn:G1; [| discriminate].
      inversion G2; subst l2. exists [APubRel pkid].
      split; [| split].
      * eapply (acks_at_commit st st' id l1 (set_a_committed l1 (a_committed l1 ++ [APubRel pkid])));
          [exact G1 | | reflexivity]. unfold keep in *; rsimpl. congruence.
      * cbn [registered]. rewrite Go. destruct (o_inflight o) as [| h r]; [destruct ER as [_ ER]; discriminate |].
        destruct (pkid =? pkid_of h); [reflexivity | destruct ER as [_ ER]; discriminate].
      * intros l0 l' G0 G'. inversion G0; subst l0.
        assert (E : r_acks st' = slab_put (r_acks st) id (set_a_committed l1 (a_committed l1 ++ [APubRel pkid])))
          by (unfold keep in *; rsimpl; congruence).
        rewrite E, (slab_get_put_occ _ _ _ _ G1) in G'. inversion G'. reflexivity.
    + inv_ok. exists []. split; [now apply acks_at_eq |]. split.
      * cbn [registered]. rewrite Go. destruct (o_inflight o) as [| h r]; [reflexivity |].
        destruct (pkid =? pkid_of h); [destruct ER as [_ ER]; discriminate | reflexivity].
      * intros l0 l' G0 G'. rsimpl. rewrite G0 in G'. now inversion G'.
  - (* PUBREL *)
    unfold get_acks in H. destruct (slab_get (r_acks st) id) as [l |] eqn:G; [| discriminate]. cbn [bind] in H.
    exists [APubComp pkid]. destruct (a_recorded l) as [| [p props] rec] eqn:ER.
    + inv_ok. split; [eapply acks_at_put; [exact G | reflexivity] |]. split; [reflexivity |].
      intros l0 l' G0 G'. inversion G0; subst l0. rsimpl. rewrite (slab_get_put_occ _ _ _ _ G) in G'.
      inversion G'. cbn [recorded_after a_recorded set_a_committed]. now rewrite ER.
    + apply bind_ok in H as ([st2 res] & H2 & H). apply append_to_commitlog_keep in H2.
      assert (E : r_acks st' = slab_put (r_acks st) id {| a_committed := a_committed l ++ [APubComp pkid]; a_recorded := rec |}).
      { destruct res; [apply bind_ok in H as (st3 & H3 & H); apply reschedule_keep in H3 |]; inv_ok;
          unfold keep in *; rsimpl; congruence. }
      split; [| split; [reflexivity |]].
      * eapply acks_at_commit; [exact G | exact E | reflexivity].
      * intros l0 l' G0 G'. inversion G0; subst l0. rewrite E, (slab_get_put_occ _ _ _ _ G) in G'.
        inversion G'. cbn [recorded_after a_recorded]. now rewrite ER.
  - (* PUBCOMP *)
    exists []. unfold get_obuf in H. break_all H; inv_ok.
    all: split; [now apply acks_at_eq |]; split; [reflexivity |].
    all: intros l0 l' G0 G'; rsimpl; rewrite G0 in G'; now inversion G'.
  - (* PINGREQ *)
    apply bind_ok in H as (st1 & H1 & H). inv_ok. apply commit_ack_spec in H1 as (l & G & ->).
    exists [APingResp]. split; [eapply acks_at_put; [exact G | reflexivity] |]. split; [reflexivity |].
    intros l0 l' G0 G'. rewrite G in G0. inversion G0; subst l0. rsimpl. rewrite (slab_get_put_occ _ _ _ _ G) in G'.
    inversion G'. reflexivity.
  - (* DISCONNECT *)
    inv_ok. exists []. split; [now apply acks_at_eq |]. split; [reflexivity |].
    intros l0 l' G0 G'. rsimpl. rewrite G0 in G'. now inversion G'.
  - inv_ok. exists []. split; [now apply acks_at_eq |]. split; [reflexivity |].
    intros l0 l' G0 G'. rewrite G0 in G'. now inversion G'.
Qed.

(** a QoS 2 publish is acknowledged and recorded, and nothing else happens: it reaches no log *)
Lemma handle_packet_qos2 st id client p props fl l :
  p_qos p = 2 -> slab_get (r_acks st) id = Some l ->
  handle_packet st id client (PPublish p props) fl =
    Ok (put_acks st id {| a_committed := a_committed l ++ [APubRec (p_pkid p)];
                          a_recorded := a_recorded l ++ [(p, props)] |}, fl_ack fl, false).
Proof.
  intros Q G. unfold handle_packet, get_acks. rewrite Q. replace (2 =? 1) with false by lia.
  replace (2 =? 2) with true by lia. rewrite G. reflexivity.
Qed.

(** PUBREL: PUBCOMP is registered; the OLDEST recorded publish is removed and is the one (the
    only one) handed to [append_to_commitlog] *)
Lemma handle_packet_pubrel st id client pkid hp fl l :
  slab_get (r_acks st) id = Some l ->
  handle_packet st id client (PPubRel pkid hp) fl =
    match a_recorded l with
    | [] => Ok (put_acks st id (set_a_committed l (a_committed l ++ [APubComp pkid])), fl_disc fl None, true)
    | (p, props) :: rec =>
        do (st2, res) <- append_to_commitlog
                           (put_acks st id {| a_committed := a_committed l ++ [APubComp pkid]; a_recorded := rec |})
                           id p props;
        match res with
        | AppOk => do st3 <- reschedule st2 id SIncomingAck; Ok (st3, fl_data fl, false)
        | AppErr _ => Ok (st2, fl_disc fl None, true)
        end
    end.
Proof. intros G. unfold handle_packet, get_acks. rewrite G. cbn [bind]. destruct (a_recorded l) as [| [p props] rec]; reflexivity. Qed.

(** the acks of a batch, in the order the packets are received *)
Inductive batch_acks (id : N) (client : str) : rstate -> flags -> list packet -> list ack -> Prop :=
| ba_nil st fl : batch_acks id client st fl [] []
| ba_break st fl pk r st1 fl1 a :
    handle_packet st id client pk fl = Ok (st1, fl1, true) -> registered st id pk a ->
    batch_acks id client st fl (pk :: r) a
| ba_cont st fl pk r st1 fl1 a rest :
    handle_packet st id client pk fl = Ok (st1, fl1, false) -> registered st id pk a ->
    batch_acks id client st1 fl1 r rest ->
    batch_acks id client st fl (pk :: r) (a ++ rest).

Lemma handle_packets_registered pks : forall st id client fl st' fl',
  handle_packets st id client pks fl = Ok (st', fl') ->
  exists added, acks_at id st st' added /\ batch_acks id client st fl pks added.
Proof.
  induction pks as [| pk r IH]; intros st id client fl st' fl' H; cbn [handle_packets] in H.
  - inv_ok. exists []. split; [now apply acks_at_eq | constructor].
  - apply bind_ok in H as ([[st1 fl1] brk] & H1 & H).
    destruct (handle_packet_registered _ _ _ _ _ _ _ _ H1) as (a & A1 & A2 & _).
    destruct brk.
    + inv_ok. exists a. split; [exact A1 | eapply ba_break; eauto].
    + apply IH in H as (rest & B1 & B2). exists (a ++ rest). split; [eapply acks_at_trans; eauto |].
      eapply ba_cont; eauto.
Qed.

Lemma handle_device_payload_acks st id st' :
  handle_device_payload st id = Ok st' ->
  (forall id', id' <> id -> slab_get (r_acks st') id' = slab_get (r_acks st) id') /\
  (slab_get (r_obufs st') id <> None -> exists added, acks_at id st st' added).
Proof.
  unfold handle_device_payload, link_get. intros H.
  destruct (slab_get (r_ibufs st) id) as [inc |]; [| inv_ok; split; [reflexivity | intros _; exists []; now apply acks_at_eq]].
  destruct (nthN (r_links st) (i_link inc)) as [b |] eqn:Hb; [| discriminate]. cbn [bind] in H.
  apply bind_ok in H as ([st1 fl] & H1 & H). apply bind_ok in H as (st2 & H2 & H).
  apply bind_ok in H as (st3 & H3 & H).
  apply handle_packets_registered in H1 as (added & A & _).
  assert (K2 : keep st2 = keep st1) by (destruct (f_force_ack fl); [now apply reschedule_keep in H2 | now inv_ok]).
  assert (K3 : keep st3 = keep st2) by (destruct (f_new_data fl); [now apply drain_notifications_keep in H3 | now inv_ok]).
  assert (A3 : acks_at id st st3 added).
  { eapply acks_at_acks; [| exact A]. rewrite (keep_acks _ _ K3), (keep_acks _ _ K2). reflexivity. }
  destruct (f_disconnect fl).
  - apply handle_disconnection_others in H as [D1 D2]. split.
    + intros id' Hne. destruct (D2 id' Hne) as (_ & _ & _ & -> & _). now apply A3.
    + intros C. contradiction.
  - inv_ok. split; [apply A3 | intros _; eauto].
Qed.
