(** C01 at the level of whole runs — the ghost and the list-level facts.

    GHOST.  [run_d st0 ops = Ok (st, tr)]: the model's [run] with one more result, the delivery
    trace [tr : list dev].  It is computed by instrumented copies of the model's own functions
    ([consume_loop_d], [consume_d], [prepare_filter_d], [subscribe_filters_d], [handle_packet_d],
    [handle_packets_d], [handle_device_payload_d], [step_d], [step_with_d]), each proved to erase
    to the original ([*_erase]: dropping the extra component gives the model's function).

    An event [(id, (k, f, i), e)] belongs to connection key [id], whose link number is [k] — link
    numbers are never reused, so [k] identifies the connection EPOCH (a connection between its
    Connect and its removal) although keys [id] are recycled — to its subscription filter [f]
    (the path of the SUBSCRIBE) and the filter log number [i] the request of that subscription
    reads.  Only requests that are not shared ([dr_group = None]) produce events:
    - [KSub e]: a SUBSCRIBE for a filter the connection does not hold yet was processed
      ([prepare_filter] created the data request); [e] is the offset of the cursor it got, the
      END of log [i] at that moment;
    - [KFwd off p]: [forward_device_data] for that request appended [NForward (Some (_, off)) p _]
      to the link buffer of the connection (read off the EFFECT: the new suffix of the buffer);
      retained replays carry no cursor and are not events;
    - [KJump from to]: a sweep that was not refused ([SInflightFull]) started with a STALE cursor
      ([stale (d_log d) (dr_cursor rq) = true], the log rolled past it): it continues at the log's
      base [to]; the entries [from, to) were evicted unforwarded ("within retention" proviso);
    - [KRes client c0]: a new connection of [client] RESUMED a saved session: one marker per restored
      non-shared request, under the key of the NEW link; [c0] = the offset of the cursor the request
      was restored with.  It is the first event of its key; the first sweep starts at [c0] (if that
      cursor is stale the jump goes FORWARD to the log's base: [TraceRunBound.v]);
    - [KEnd client r wnd]: the connection of [client] (clean_session = false) was removed and its
      session saved: one marker per saved non-shared request, under the key of the OLD link; [r] =
      the offset of the saved (rewound) cursor, the RESUME POINT; [wnd] = the offsets of the
      window entries of that filter log ([o_inflight], entries with a log cursor) at that moment,
      i.e. the unacknowledged QoS>0 forwards.  [KEnd] events are NOT part of [ktrace] (the chain of
      a key); [kend K tr] lists them. *)
From Rumqtt Require Import Log.Spec Log.ListFacts Router.ExactLog Router.ExactInv Router.WindowFrame.
From Rumqtt Require Import Router.Model Router.RunDefs.
From Coq Require Import ZifyBool ZifyN ZifyNat Sorted.

(* ------------------------------------------------------------------ events *)
Inductive kev :=
| KFwd (off : N) (p : publish)
| KJump (from to : N)
| KSub (e : N)
| KRes (client : str) (c0 : N)
| KEnd (client : str) (r : N) (wnd : list N).

Definition is_res (a : kev) : bool := match a with KRes _ _ => true | _ => false end.
Definition is_end (a : kev) : bool := match a with KEnd _ _ _ => true | _ => false end.

Definition dkey : Type := (N * str * N)%type.          (* link, subscription filter, filter log *)
Definition dev : Type := (N * dkey * kev)%type.         (* connection key, event key, event *)

Definition dkey_eqb (a b : dkey) : bool :=
  (fst (fst a) =? fst (fst b)) && str_eqb (snd (fst a)) (snd (fst b)) && (snd a =? snd b).

(** the events of one key, in order *)
Definition ktrace (K : dkey) (tr : list dev) : list kev :=
  map snd (filter (fun e : dev => dkey_eqb K (snd (fst e)) && negb (is_end (snd e))) tr).

(** where the request continues after the event *)
Definition nxt (a : kev) : N :=
  match a with KFwd off _ => off + 1 | KJump _ to => to | KSub e => e | KRes _ c0 => c0 | KEnd _ r _ => r end.

(** [b] may follow [a] in the trace of one key *)
Definition ok_next (a b : kev) : Prop :=
  match b with
  | KFwd off _ => off = nxt a
  | KJump from to => from = nxt a /\ from <= to
  | KSub e => nxt a <= e
  | KRes _ _ => False
  | KEnd _ _ _ => False
  end.

Fixpoint kchain_from (a : kev) (l : list kev) : Prop :=
  match l with [] => True | b :: r => ok_next a b /\ kchain_from b r end.
Definition kchain (l : list kev) : Prop :=
  match l with [] => True | a :: r => kchain_from a r end.

Definition fwd_offs (l : list kev) : list N :=
  flat_map (fun a => match a with KFwd off _ => [off] | _ => [] end) l.
Definition increasing (l : list N) : Prop := StronglySorted N.lt l.

(** offset [x] is accounted for in [l]: forwarded, evicted before the sweep reached it, or
    accepted before a (re-)subscription *)
Definition covered (x : N) (l : list kev) : Prop :=
  (exists p, In (KFwd x p) l) \/
  (exists from to, In (KJump from to) l /\ from <= x < to) \/
  (exists e, In (KSub e) l /\ x < e).

Definition no_sub (l : list kev) : Prop := forall e, ~ In (KSub e) l.
Definition no_fwd (l : list kev) : Prop := forall off p, ~ In (KFwd off p) l.

(* ------------------------------------------------------------------ what a sweep contributes *)
(** offset and publish of the log-sourced forwards among notifications *)
Fixpoint log_fwds (ns : list notification) : list (N * publish) :=
  match ns with
  | [] => []
  | NForward (Some c) p _ :: r => (snd c, p) :: log_fwds r
  | _ :: r => log_fwds r
  end.

(** the events of one [forward_device_data st id rq = Ok (st', _, status)] *)
Definition fdd_ghost (st : rstate) (id : N) (rq : drequest) (st' : rstate) (status : consume_status) : list dev :=
  match dr_group rq, slab_get (r_obufs st) id with
  | None, Some o =>
      match status with
      | SInflightFull => []
      | _ =>
          let K := (o_link o, dr_filter rq, dr_idx rq) in
          (match nget (r_datalog st) (dr_idx rq) with
           | Some d => if stale (d_log d) (dr_cursor rq)
                       then [(id, K, KJump (snd (dr_cursor rq)) (base_of (d_log d)))] else []
           | None => []
           end) ++
          map (fun x : N * publish => (id, K, KFwd (fst x) (snd x)))
              (log_fwds (skipn (length (out_of st (o_link o))) (out_of st' (o_link o))))
      end
  | _, _ => []
  end.

(* ------------------------------------------------------------------ consume, instrumented *)
Fixpoint consume_loop_d (fuel : nat) (st : rstate) (id : N) (requests skipped : list drequest)
  : R (rstate * list dev) :=
  match fuel with
  | O => do s <- trackv st id (requests ++ skipped); Ok (s, [])
  | S fuel' =>
      match requests with
      | [] =>
          do st1 <- (match skipped with [] => pause st id Caughtup | _ => Ok st end);
          do s <- trackv st1 id skipped; Ok (s, [])
      | rq :: rest =>
          do (st1, rq', status) <- forward_device_data st id rq;
          let ev := fdd_ghost st id rq st1 status in
          match status with
          | BufferFull =>
              do st2 <- pause st1 id Busy; do s <- trackv st2 id ((rest ++ [rq']) ++ skipped); Ok (s, ev)
          | SInflightFull =>
              do st2 <- pause st1 id InflightFull; do s <- trackv st2 id ((rest ++ [rq']) ++ skipped); Ok (s, ev)
          | FilterCaughtup =>
              do st2 <- park st1 id rq';
              do (s, evs) <- consume_loop_d fuel' st2 id rest skipped; Ok (s, ev ++ evs)
          | PartialRead =>
              do (s, evs) <- consume_loop_d fuel' st1 id (rest ++ [rq']) skipped; Ok (s, ev ++ evs)
          | SkipRequest =>
              do (s, evs) <- consume_loop_d fuel' st1 id rest (skipped ++ [rq']); Ok (s, ev ++ evs)
          end
      end
  end.

Definition consume_d (st : rstate) : R (rstate * bool * list dev) :=
  match r_ready st with
  | [] => Ok (st, false, [])
  | id :: rq =>
      let st0 := set_r_ready st rq in
      match slab_get (r_trackers st0) id with
      | None => Ok (st0, false, [])
      | Some t =>
          let requests := tr_reqs t in
          let st1 := put_tracker st0 id (set_tr_reqs t []) in
          let st2 := set_r_ready st1 (r_ready st1 ++ [id]) in
          match slab_get (r_obufs st2) id with
          | None => Ok (st2, true, [])
          | Some o =>
              do st3 <- ack_device_data st2 id o;
              do _ <- (match slab_get (r_conns st3) id with Some _ => Ok tt | None => Panic P_OBUF_INDEX end);
              do (st4, evs) <- consume_loop_d (N.to_nat MAX_SCHEDULE_ITERATIONS) st3 id requests [];
              Ok (st4, true, evs)
          end
      end
  end.

(* ------------------------------------------------------------------ SUBSCRIBE, instrumented *)
(** the marker of [prepare_filter st id cu fidx path _ grp _]: a request is created iff the
    connection does not hold [path] yet *)
Definition pf_ghost (st : rstate) (id : N) (cu : cursor) (fidx : N) (path : str) (grp : option str) : list dev :=
  match grp, slab_get (r_conns st) id, slab_get (r_obufs st) id with
  | None, Some conn, Some o =>
      if set_mem str_eqb path (c_subs conn) then [] else [(id, (o_link o, path, fidx), KSub (snd cu))]
  | _, _, _ => []
  end.

Fixpoint subscribe_filters_d (st : rstate) (id : N) (fs : list (str * N)) (subid : option N)
         (fl : flags) (codes : list N) : R (rstate * flags * list N * list dev) :=
  match fs with
  | [] => Ok (st, fl, codes, [])
  | (path, qos) :: r =>
      if negb (validate_subscription path) then Ok (st, fl_disc fl None, codes, [])
      else
        let '(grp, filter) := match extract_group path with
                              | Some (g, p) => (Some g, p)
                              | None => (None, path)
                              end in
        if match subid with Some 0 => true | _ => false end
        then Ok (st, fl_disc fl (Some RC_PROTOCOL), codes, [])
        else
          do (st1, idx, cu) <- next_native_offset st filter;
          do st2 <- prepare_filter st1 id cu idx path qos grp subid;
          do (st3, fl3, codes3, evs) <- subscribe_filters_d st2 id r subid fl (codes ++ [qos]);
          Ok (st3, fl3, codes3, pf_ghost st1 id cu idx path grp ++ evs)
  end.

Definition handle_packet_d (st : rstate) (id : N) (client : str) (pk : packet) (fl : flags)
  : R (rstate * flags * bool * list dev) :=
  match pk with
  | PSubscribe pkid fs subid =>
      do (st1, fl1, codes, evs) <- subscribe_filters_d st id fs subid fl [];
      do st2 <- commit_ack st1 id (ASubAck pkid codes);
      Ok (st2, fl_ack fl1, false, evs)
  | _ => do (st1, fl1, brk) <- handle_packet st id client pk fl; Ok (st1, fl1, brk, [])
  end.

Fixpoint handle_packets_d (st : rstate) (id : N) (client : str) (pks : list packet) (fl : flags)
  : R (rstate * flags * list dev) :=
  match pks with
  | [] => Ok (st, fl, [])
  | pk :: r =>
      do (st1, fl1, brk, evs) <- handle_packet_d st id client pk fl;
      if brk then Ok (st1, fl1, evs)
      else do (st2, fl2, evs2) <- handle_packets_d st1 id client r fl1; Ok (st2, fl2, evs ++ evs2)
  end.

(** offsets of the window entries of filter log [idx] (entries with a log cursor) *)
Definition wnd_offs (infl : list (N * N * option cursor)) (idx : N) : list N :=
  flat_map (fun e : N * N * option cursor =>
              match e with (_, fi, Some cu) => if fi =? idx then [snd cu] else [] | _ => [] end) infl.

Definition unshared_b (rq : drequest) : bool := match dr_group rq with None => true | Some _ => false end.

(** the markers of [handle_disconnection st id _ = Ok st'], read off its EFFECT: if connection [id]
    was live with clean_session = false, one [KEnd] per non-shared request of the session now
    saved under its tracker's client id *)
Definition disc_ghost (st : rstate) (id : N) (st' : rstate) : list dev :=
  match slab_get (r_obufs st) id, slab_get (r_trackers st) id, slab_get (r_conns st) id with
  | Some o, Some t, Some c =>
      if c_clean c then []
      else match al_get str_eqb (tr_id t) (r_graveyard st') with
           | Some (Some ss) =>
               map (fun rq => (id, (o_link o, dr_filter rq, dr_idx rq),
                               KEnd (tr_id t) (snd (dr_cursor rq)) (wnd_offs (o_inflight o) (dr_idx rq))))
                   (filter unshared_b (tr_reqs (ss_tracker ss)))
           | _ => []
           end
  | _, _, _ => []
  end.

Definition handle_device_payload_d (st : rstate) (id : N) : R (rstate * list dev) :=
  match slab_get (r_ibufs st) id with
  | None => Ok (st, [])
  | Some inc =>
      do b <- link_get st (i_link inc);
      let st0 := link_put st (i_link inc) (set_lk_in b []) in
      do (st1, fl, evs) <- handle_packets_d st0 id (i_client inc) (lk_in b) flags0;
      do st2 <- (if f_force_ack fl then reschedule st1 id SFreshData else Ok st1);
      do st3 <- (if f_new_data fl then drain_notifications st2 else Ok st2);
      do st4 <- (if f_disconnect fl then handle_disconnection st3 id (f_reason fl) else Ok st3);
      Ok (st4, evs ++ (if f_disconnect fl then disc_ghost st3 id st4 else []))
  end.

(* ------------------------------------------------------------------ step and run, instrumented *)

(** the markers of a Connect, read off its EFFECT: if [client] now owns a connection on the
    fresh link [link], one [KRes] per non-shared request its tracker starts with (none unless a
    saved session was restored), with the offset of the cursor it starts with *)
Definition conn_ghost (st' : rstate) (client : str) (link : N) : list dev :=
  match al_get str_eqb client (r_cmap st') with
  | Some id =>
      match slab_get (r_obufs st') id, slab_get (r_trackers st') id with
      | Some o, Some t =>
          if o_link o =? link
          then map (fun rq => (id, (link, dr_filter rq, dr_idx rq), KRes client (snd (dr_cursor rq))))
                   (filter unshared_b (tr_reqs t))
          else []
      | _, _ => []
      end
  | None => []
  end.

(** the take-over part of a Connect: the live connection of the same client id, if any, is
    disconnected first (in the state with the new link already appended) *)
Definition take_ghost (st1 : rstate) (client : str) : list dev :=
  if validate_clientid client then
    match al_get str_eqb client (r_cmap st1) with
    | Some cid => match handle_disconnection st1 cid None with
                  | Ok s => disc_ghost st1 cid s
                  | _ => []
                  end
    | None => []
    end
  else [].

Definition step_d (st : rstate) (o : rop) : R (rstate * rout * list dev) :=
  match o with
  | OpConsume => do (st1, b, evs) <- consume_d st; Ok (st1, OutConsume b, evs)
  | OpData id => do (st1, evs) <- handle_device_payload_d st id; Ok (st1, OutUnit, evs)
  | OpConnect c =>
      do (st1, out) <- step st o;
      Ok (st1, out,
          take_ghost (set_r_links st (r_links st ++ [{| lk_in := []; lk_out := [] |}])) (cr_client c)
          ++ conn_ghost st1 (cr_client c) (lenN (r_links st)))
  | OpDisconnect id => do (st1, out) <- step st o; Ok (st1, out, disc_ghost st id st1)
  | _ => do (st1, out) <- step st o; Ok (st1, out, [])
  end.

Definition step_with_d (st : rstate) (orc : list oracle) (o : rop) : R (rstate * rout * list dev) :=
  do (st1, out, evs) <- step_d (set_r_oracle st orc) o;
  match r_oracle st1 with
  | [] => Ok (st1, out, evs)
  | _ => Err tt
  end.

Fixpoint run_d (st : rstate) (ops : list (list oracle * rop)) : R (rstate * list dev) :=
  match ops with
  | [] => Ok (st, [])
  | (orc, o) :: r =>
      do (st1, _out, evs) <- step_with_d st orc o;
      do (st2, evs2) <- run_d st1 r;
      Ok (st2, evs ++ evs2)
  end.

(* ------------------------------------------------------------------ erasure *)
Definition drop2 {A B} (x : R (A * B)) : R A :=
  match x with Ok (a, _) => Ok a | Err e => Err e | Panic t => Panic t end.
Definition drop3 {A B C} (x : R (A * B * C)) : R (A * B) :=
  match x with Ok (a, b, _) => Ok (a, b) | Err e => Err e | Panic t => Panic t end.
Definition drop4 {A B C D} (x : R (A * B * C * D)) : R (A * B * C) :=
  match x with Ok (a, b, c, _) => Ok (a, b, c) | Err e => Err e | Panic t => Panic t end.

Lemma consume_loop_erase id : forall fuel st requests skipped,
  drop2 (consume_loop_d fuel st id requests skipped) = consume_loop fuel st id requests skipped.
Proof.
  induction fuel as [|fuel IH]; intros st requests skipped; cbn [consume_loop_d consume_loop].
  - destruct (trackv st id (requests ++ skipped)); reflexivity.
  - destruct requests as [|rq rest].
    + destruct skipped as [|sk skipped].
      * destruct (pause st id Caughtup) as [st1| |]; cbn [bind drop2]; try reflexivity.
        destruct (trackv st1 id []); reflexivity.
      * cbn [bind]. destruct (trackv st id (sk :: skipped)); reflexivity.
    + destruct (forward_device_data st id rq) as [[[st1 rq'] status]| |]; cbn [bind drop2]; try reflexivity.
      destruct status.
      * destruct (pause st1 id Busy) as [st2| |]; cbn [bind drop2]; try reflexivity.
        destruct (trackv st2 id ((rest ++ [rq']) ++ skipped)); reflexivity.
      * destruct (pause st1 id InflightFull) as [st2| |]; cbn [bind drop2]; try reflexivity.
        destruct (trackv st2 id ((rest ++ [rq']) ++ skipped)); reflexivity.
      * destruct (park st1 id rq') as [st2| |]; cbn [bind drop2]; try reflexivity.
        rewrite <- IH. destruct (consume_loop_d fuel st2 id rest skipped) as [[s evs]| |]; reflexivity.
      * rewrite <- IH. destruct (consume_loop_d fuel st1 id (rest ++ [rq']) skipped) as [[s evs]| |]; reflexivity.
      * rewrite <- IH. destruct (consume_loop_d fuel st1 id rest (skipped ++ [rq'])) as [[s evs]| |]; reflexivity.
Qed.

Lemma consume_erase st : drop3 (consume_d st) = consume st.
Proof.
  unfold consume_d, consume.
  destruct (r_ready st) as [|id rq]; [reflexivity|]. cbv zeta.
  destruct (slab_get (r_trackers (set_r_ready st rq)) id) as [t|]; [|reflexivity].
  match goal with |- context [slab_get (r_obufs ?s) id] => destruct (slab_get (r_obufs s) id) as [o|] end; [|reflexivity].
  match goal with |- context [ack_device_data ?s id o] => destruct (ack_device_data s id o) as [st3| |] end;
    cbn [bind drop3]; try reflexivity.
  destruct (slab_get (r_conns st3) id); cbn [bind drop3]; [|reflexivity].
  rewrite <- consume_loop_erase.
  destruct (consume_loop_d (N.to_nat MAX_SCHEDULE_ITERATIONS) st3 id (tr_reqs t) []) as [[s evs]| |]; reflexivity.
Qed.

Lemma subscribe_filters_erase id subid : forall fs st fl codes,
  drop4 (subscribe_filters_d st id fs subid fl codes) = subscribe_filters st id fs subid fl codes.
Proof.
  induction fs as [|[path qos] r IH]; intros st fl codes; cbn [subscribe_filters_d subscribe_filters]; [reflexivity|].
  destruct (negb (validate_subscription path)); [reflexivity|].
  destruct (match extract_group path with Some (g, p) => (Some g, p) | None => (None, path) end) as [grp filter].
  destruct (match subid with Some 0 => true | _ => false end); [reflexivity|].
  destruct (next_native_offset st filter) as [[[st1 idx] cu]| |]; cbn [bind drop4]; try reflexivity.
  destruct (prepare_filter st1 id cu idx path qos grp subid) as [st2| |]; cbn [bind drop4]; try reflexivity.
  rewrite <- IH. destruct (subscribe_filters_d st2 id r subid fl (codes ++ [qos])) as [[[[st3 fl3] codes3] evs]| |]; reflexivity.
Qed.

Lemma handle_packet_erase st id client pk fl :
  drop4 (handle_packet_d st id client pk fl) = handle_packet st id client pk fl.
Proof.
  destruct pk; unfold handle_packet_d;
    try (destruct (handle_packet st id client _ fl) as [[[st1 fl1] brk]| |]; reflexivity).
  cbn [handle_packet]. rewrite <- subscribe_filters_erase.
  destruct (subscribe_filters_d st id filters subid fl []) as [[[[st1 fl1] codes] evs]| |]; cbn [bind drop4]; try reflexivity.
  destruct (commit_ack st1 id (ASubAck pkid codes)); reflexivity.
Qed.

Lemma handle_packets_erase id client : forall pks st fl,
  drop3 (handle_packets_d st id client pks fl) = handle_packets st id client pks fl.
Proof.
  induction pks as [|pk r IH]; intros st fl; cbn [handle_packets_d handle_packets]; [reflexivity|].
  rewrite <- handle_packet_erase.
  destruct (handle_packet_d st id client pk fl) as [[[[st1 fl1] brk] evs]| |]; cbn [bind drop4 drop3]; try reflexivity.
  destruct brk; [reflexivity|]. rewrite <- IH.
  destruct (handle_packets_d st1 id client r fl1) as [[[st2 fl2] evs2]| |]; reflexivity.
Qed.

Lemma handle_device_payload_erase st id :
  drop2 (handle_device_payload_d st id) = handle_device_payload st id.
Proof.
  unfold handle_device_payload_d, handle_device_payload.
  destruct (slab_get (r_ibufs st) id) as [inc|]; [|reflexivity].
  destruct (link_get st (i_link inc)) as [b| |]; cbn [bind drop2]; try reflexivity.
  rewrite <- handle_packets_erase.
  destruct (handle_packets_d _ id (i_client inc) (lk_in b) flags0) as [[[st1 fl] evs]| |]; cbn [bind drop3 drop2]; try reflexivity.
  destruct (f_force_ack fl); [destruct (reschedule st1 id SFreshData) as [st2| |]|]; cbn [bind drop2]; try reflexivity.
  all: destruct (f_new_data fl); [destruct (drain_notifications _) as [st3| |]|]; cbn [bind drop2]; try reflexivity.
  all: destruct (f_disconnect fl); [destruct (handle_disconnection _ id (f_reason fl))|]; reflexivity.
Qed.

(** the instrumented step IS the model's step, with one more component *)
Lemma step_erase st o : drop3 (step_d st o) = step st o.
Proof.
  destruct o; unfold step_d; try (destruct (step st _) as [[st2 out]| |]; reflexivity).
  - cbn [step]. rewrite <- handle_device_payload_erase.
    destruct (handle_device_payload_d st id) as [[st1 evs]| |]; reflexivity.
  - cbn [step]. rewrite <- consume_erase. destruct (consume_d st) as [[[st1 b] evs]| |]; reflexivity.
Qed.

Lemma step_with_erase st orc o : drop3 (step_with_d st orc o) = step_with st orc o.
Proof.
  unfold step_with_d, step_with. rewrite <- step_erase.
  destruct (step_d (set_r_oracle st orc) o) as [[[st1 out] evs]| |]; cbn [bind drop3]; try reflexivity.
  destruct (r_oracle st1); reflexivity.
Qed.

Lemma run_erase : forall ops st, drop2 (run_d st ops) = run st ops.
Proof.
  induction ops as [|[orc o] r IH]; intros st; cbn [run_d run]; [reflexivity|].
  rewrite <- step_with_erase.
  destruct (step_with_d st orc o) as [[[st1 out] evs]| |]; cbn [bind drop3 drop2]; try reflexivity.
  rewrite <- IH. destruct (run_d st1 r) as [[st2 evs2]| |]; reflexivity.
Qed.

(** every run of the model has its trace *)
Lemma run_has_trace ops st st' : run st ops = Ok st' -> exists tr, run_d st ops = Ok (st', tr).
Proof.
  intros H. rewrite <- run_erase in H. destruct (run_d st ops) as [[s tr]| |]; cbn [drop2] in H; try discriminate.
  inversion H; subst. eauto.
Qed.
Lemma run_d_run ops st st' tr : run_d st ops = Ok (st', tr) -> run st ops = Ok st'.
Proof. intros H. rewrite <- run_erase, H. reflexivity. Qed.

Lemma step_with_d_step st orc o st' out evs :
  step_with_d st orc o = Ok (st', out, evs) -> step_with st orc o = Ok (st', out).
Proof. intros H. rewrite <- step_with_erase, H. reflexivity. Qed.

Lemma run_d_app : forall ops1 ops2 st st1 tr1,
  run_d st ops1 = Ok (st1, tr1) ->
  run_d st (ops1 ++ ops2) = match run_d st1 ops2 with Ok (st2, tr2) => Ok (st2, tr1 ++ tr2) | Err e => Err e | Panic t => Panic t end.
Proof.
  induction ops1 as [|[orc o] r IH]; intros ops2 st st1 tr1 H; cbn [run_d app] in *.
  - inversion H; subst. destruct (run_d st1 ops2) as [[s t]| |]; reflexivity.
  - destruct (step_with_d st orc o) as [[[s1 out] evs]| |]; cbn [bind] in *; try discriminate.
    destruct (run_d s1 r) as [[s2 evs2]| |] eqn:E; cbn [bind] in H; try discriminate. inversion H; subst.
    rewrite (IH ops2 _ _ _ E). destruct (run_d st1 ops2) as [[s3 t3]| |]; cbn [bind]; [|reflexivity|reflexivity].
    now rewrite app_assoc.
Qed.

(* ------------------------------------------------------------------ keys *)
Lemma str_eqb_refl' a : str_eqb a a = true.
Proof. induction a as [|x a IH]; cbn [str_eqb]; [reflexivity|]. now rewrite N.eqb_refl, IH. Qed.

Lemma str_eqb_true' : forall a b, str_eqb a b = true -> a = b.
Proof.
  induction a as [|x a IH]; intros [|y b]; cbn [str_eqb]; try discriminate; [reflexivity|].
  intros E. apply andb_true_iff in E as [E1 E2]. apply N.eqb_eq in E1. subst y. f_equal. now apply IH.
Qed.

Lemma dkey_eqb_refl K : dkey_eqb K K = true.
Proof. destruct K as [[k f] i]. unfold dkey_eqb. cbn [fst snd]. now rewrite !N.eqb_refl, str_eqb_refl'. Qed.

Lemma dkey_eqb_true a b : dkey_eqb a b = true -> a = b.
Proof.
  destruct a as [[k f] i], b as [[k' f'] i']. unfold dkey_eqb. cbn [fst snd]. intros E.
  apply andb_true_iff in E as [E E3]. apply andb_true_iff in E as [E1 E2].
  apply N.eqb_eq in E1, E3. apply str_eqb_true' in E2. congruence.
Qed.

Lemma dkey_eqb_neq a b : a <> b -> dkey_eqb a b = false.
Proof. intros H. destruct (dkey_eqb a b) eqn:E; [|reflexivity]. apply dkey_eqb_true in E. contradiction. Qed.

Lemma ktrace_app K a b : ktrace K (a ++ b) = ktrace K a ++ ktrace K b.
Proof. unfold ktrace. now rewrite filter_app, map_app. Qed.
Lemma ktrace_nil K : ktrace K [] = [].
Proof. reflexivity. Qed.
Lemma ktrace_cons_same K id a tr : is_end a = false -> ktrace K ((id, K, a) :: tr) = a :: ktrace K tr.
Proof. intros H. unfold ktrace. cbn [filter fst snd]. now rewrite dkey_eqb_refl, H. Qed.
Lemma ktrace_cons_other K K' id a tr : K <> K' -> ktrace K ((id, K', a) :: tr) = ktrace K tr.
Proof. intros H. unfold ktrace. cbn [filter fst snd]. now rewrite (dkey_eqb_neq _ _ H). Qed.
Lemma ktrace_cons_end K K' id a tr : is_end a = true -> ktrace K ((id, K', a) :: tr) = ktrace K tr.
Proof. intros H. unfold ktrace. cbn [filter fst snd]. rewrite H. cbn [negb]. now rewrite andb_false_r. Qed.

Lemma ktrace_In K tr a : In a (ktrace K tr) <-> is_end a = false /\ exists id, In (id, K, a) tr.
Proof.
  unfold ktrace. rewrite in_map_iff. split.
  - intros ([[id K'] a'] & E & Hin). cbn [snd] in E. subst a'. apply filter_In in Hin as [Hin Hk].
    cbn [fst snd] in Hk. apply andb_true_iff in Hk as [Hk He]. apply dkey_eqb_true in Hk. subst K'.
    apply negb_true_iff in He. eauto.
  - intros (He & id & Hin). exists (id, K, a). split; [reflexivity|]. apply filter_In. split; [exact Hin|].
    cbn [fst snd]. now rewrite dkey_eqb_refl, He.
Qed.

(** events that all carry key [K'] *)
Lemma ktrace_all_same K id (l : list kev) :
  forallb (fun a => negb (is_end a)) l = true -> ktrace K (map (fun a => (id, K, a)) l) = l.
Proof.
  induction l as [|a l IH]; cbn [map forallb]; [reflexivity|]. intros H. apply andb_true_iff in H as [H1 H2].
  apply negb_true_iff in H1. now rewrite ktrace_cons_same, IH.
Qed.
Lemma ktrace_all_other K K' id (l : list kev) :
  K <> K' -> ktrace K (map (fun a => (id, K', a)) l) = [].
Proof. intros H. induction l as [|a l IH]; cbn [map]; [reflexivity|]. now rewrite ktrace_cons_other. Qed.
Lemma ktrace_all_end K (l : list dev) :
  forallb (fun e : dev => is_end (snd e)) l = true -> ktrace K l = [].
Proof.
  induction l as [|[[id K'] a] l IH]; cbn [forallb snd]; [reflexivity|]. intros H. apply andb_true_iff in H as [H1 H2].
  now rewrite ktrace_cons_end, IH.
Qed.

(* ------------------------------------------------------------------ chains *)
Lemma last_opt_snoc {X} (l : list X) x : last_opt (l ++ [x]) = Some x.
Proof.
  induction l as [|y l IH]; [reflexivity|]. cbn [app last_opt].
  destruct (l ++ [x]) eqn:E; [destruct l; discriminate|]. exact IH.
Qed.
Lemma last_opt_app_ne {X} (l r : list X) : r <> [] -> last_opt (l ++ r) = last_opt r.
Proof.
  intros Hr. induction l as [|y l IH]; [reflexivity|]. cbn [app last_opt].
  destruct (l ++ r) eqn:E; [apply app_eq_nil in E as [_ E]; contradiction|]. exact IH.
Qed.
Lemma last_opt_cons {X} (x : X) l : l <> [] -> last_opt (x :: l) = last_opt l.
Proof. destruct l; [contradiction|reflexivity]. Qed.

Lemma kchain_from_app a l r :
  kchain_from a (l ++ r) <->
  kchain_from a l /\ kchain_from (match last_opt l with Some b => b | None => a end) r.
Proof.
  revert a. induction l as [|b l IH]; intros a; cbn [app kchain_from last_opt]; [tauto|].
  rewrite IH. destruct l as [|c l]; [cbn [kchain_from last_opt]; tauto|].
  replace (last_opt (b :: c :: l)) with (last_opt (c :: l)) by reflexivity.
  destruct (last_opt (c :: l)) eqn:E; [tauto|].
  exfalso. clear -E. revert c E. induction l as [|d l IH]; intros c E; [discriminate|]. now apply (IH d).
Qed.

Lemma kchain_snoc l b :
  kchain (l ++ [b]) <-> kchain l /\ (forall a, last_opt l = Some a -> ok_next a b).
Proof.
  destruct l as [|a l]; cbn [app kchain].
  - cbn [kchain_from last_opt]. split; [intros _; split; [exact I|discriminate]|auto].
  - rewrite kchain_from_app. cbn [kchain_from]. split.
    + intros [H1 [H2 _]]. split; [exact H1|]. intros x Hx.
      destruct l as [|c l]; [cbn [last_opt] in *; inversion Hx; subst; exact H2|].
      replace (last_opt (a :: c :: l)) with (last_opt (c :: l)) in Hx by reflexivity. now rewrite Hx in H2.
    + intros [H1 H2]. split; [exact H1|]. split; [|exact I].
      destruct l as [|c l]; [apply H2; reflexivity|].
      replace (last_opt (a :: c :: l)) with (last_opt (c :: l)) in H2 by reflexivity.
      destruct (last_opt (c :: l)) eqn:E; [now apply H2|].
      exfalso. clear -E. revert c E. induction l as [|d l IH]; intros c E; [discriminate|]. now apply (IH d).
Qed.

Lemma kchain_app_inv l r : kchain (l ++ r) -> kchain l /\ kchain r.
Proof.
  destruct l as [|a l]; cbn [app kchain]; [auto|]. rewrite kchain_from_app. intros [H1 H2]. split; [exact H1|].
  destruct r as [|b r]; [exact I|]. cbn [kchain kchain_from] in *. tauto.
Qed.

Lemma ok_next_mono a b : is_res a = false -> ok_next a b -> nxt a <= nxt b.
Proof. intros _. destruct b; cbn [ok_next nxt]; first [lia | contradiction]. Qed.

(** ... also from a resume marker *)
Lemma ok_next_mono' a b : ok_next a b -> nxt a <= nxt b.
Proof. destruct b; cbn [ok_next nxt]; first [lia | contradiction]. Qed.

(** neither a resume marker nor an end marker ever follows anything *)
Lemma kchain_from_nores a l : kchain_from a l -> forall b, In b l -> is_res b = false /\ is_end b = false.
Proof.
  revert a. induction l as [|c l IH]; intros a H b Hb; [destruct Hb|].
  cbn [kchain_from] in H. destruct H as [H1 H2].
  destruct Hb as [<- | Hb]; [destruct c; cbn [ok_next] in H1; try contradiction; auto|]. eapply IH; eassumption.
Qed.

Lemma kchain_from_mono a l : kchain_from a l -> is_res a = false -> forall b, In b l -> nxt a <= nxt b.
Proof.
  revert a. induction l as [|c l IH]; intros a H Ha b Hb; [destruct Hb|].
  pose proof (proj1 (kchain_from_nores _ _ H c (or_introl eq_refl))) as Hc.
  cbn [kchain_from] in H. destruct H as [H1 H2]. apply (ok_next_mono _ _ Ha) in H1.
  destruct Hb as [<- | Hb]; [exact H1|]. specialize (IH _ H2 Hc _ Hb). lia.
Qed.

Lemma kchain_from_fwd_ge a l : kchain_from a l -> is_res a = false -> forall off p, In (KFwd off p) l -> nxt a <= off.
Proof.
  revert a. induction l as [|c l IH]; intros a H Ha off p Hb; [destruct Hb|].
  pose proof (proj1 (kchain_from_nores _ _ H c (or_introl eq_refl))) as Hc.
  cbn [kchain_from] in H. destruct H as [H1 H2].
  destruct Hb as [-> | Hb]; [cbn [ok_next] in H1; lia|].
  apply (ok_next_mono _ _ Ha) in H1. specialize (IH _ H2 Hc _ _ Hb). lia.
Qed.

Lemma fwd_offs_In l off : In off (fwd_offs l) <-> exists p, In (KFwd off p) l.
Proof.
  unfold fwd_offs. rewrite in_flat_map. split.
  - intros (a & Ha & Hin). destruct a; cbn [In] in Hin; try tauto. destruct Hin as [<- | []]. eauto.
  - intros (p & Hp). exists (KFwd off p). split; [exact Hp|now left].
Qed.

(** no duplicates, acceptance order: the forwarded offsets of one key increase strictly *)
Lemma kchain_from_increasing a l : kchain_from a l -> increasing (fwd_offs l).
Proof.
  revert a. induction l as [|b l IH]; intros a H; [constructor|].
  cbn [kchain_from] in H. destruct H as [H1 H2]. unfold fwd_offs. cbn [flat_map].
  destruct b as [off p| | | |]; cbn [app]; try (eapply IH; eassumption).
  constructor; [eapply IH; eassumption|]. apply Forall_forall. intros x Hx.
  apply fwd_offs_In in Hx as (q & Hq). pose proof (kchain_from_fwd_ge _ _ H2 eq_refl _ _ Hq) as Hge. cbn [nxt] in Hge. lia.
Qed.

Lemma kchain_increasing l : kchain l -> increasing (fwd_offs l).
Proof.
  destruct l as [|a l]; [constructor|]. cbn [kchain]. intros H.
  pose proof (kchain_from_increasing _ _ H) as Hi.
  unfold fwd_offs. cbn [flat_map]. destruct a as [off p| | | |]; cbn [app]; try exact Hi.
  constructor; [exact Hi|]. apply Forall_forall. intros x Hx.
  apply fwd_offs_In in Hx as (q & Hq). pose proof (kchain_from_fwd_ge _ _ H eq_refl _ _ Hq) as Hge. cbn [nxt] in Hge. lia.
Qed.

(** everything between where [a] continues and where the last event of [l] continues is
    accounted for in [l] *)
Lemma kchain_from_covered a l :
  kchain_from a l ->
  forall x, nxt a <= x -> x < nxt (match last_opt l with Some b => b | None => a end) -> covered x l.
Proof.
  revert a. induction l as [|b l IH]; intros a H x Hlo Hhi.
  - cbn [last_opt] in Hhi. lia.
  - cbn [kchain_from] in H. destruct H as [H1 H2].
    assert (Hl : match last_opt (b :: l) with Some c => c | None => a end =
                 match last_opt l with Some c => c | None => b end).
    { destruct l as [|c l]; [reflexivity|]. replace (last_opt (b :: c :: l)) with (last_opt (c :: l)) by reflexivity.
      destruct (last_opt (c :: l)) eqn:E; [reflexivity|].
      exfalso. clear -E. revert c E. induction l as [|d l IHl]; intros c E; [discriminate|]. now apply (IHl d). }
    rewrite Hl in Hhi.
    destruct (N.lt_ge_cases x (nxt b)) as [Hx | Hx].
    + (* accounted for by [b] itself *)
      destruct b as [off p|from to|e|cl c0|cl r w]; cbn [ok_next nxt] in *; try contradiction.
      * left. exists p. left. f_equal. lia.
      * right. left. exists from, to. split; [now left|lia].
      * right. right. exists e. split; [now left|lia].
    + destruct (IH _ H2 x Hx Hhi) as [(p & Hp) | [(from & to & Hj & Hr) | (e & He & Hr)]].
      * left. exists p. now right.
      * right. left. exists from, to. split; [now right|exact Hr].
      * right. right. exists e. split; [now right|exact Hr].
Qed.

(** two adjacent events of a chain *)
Lemma kchain_adjacent l1 a b l2 : kchain (l1 ++ a :: b :: l2) -> ok_next a b.
Proof.
  intros H. apply kchain_app_inv in H as [_ H]. cbn [kchain kchain_from] in H. tauto.
Qed.

Lemma kchain_suffix l1 a l2 : kchain (l1 ++ a :: l2) -> kchain_from a l2.
Proof. intros H. apply kchain_app_inv in H as [_ H]. exact H. Qed.

(* ------------------------------------------------------------------ the events of one sweep, as a list *)
Definition lastd (a : kev) (l : list kev) : kev := match last_opt l with Some b => b | None => a end.

Lemma last_opt_cons_lastd (a : kev) l : last_opt (a :: l) = Some (lastd a l).
Proof.
  revert a. induction l as [|b l IH]; intros a; [reflexivity|].
  replace (last_opt (a :: b :: l)) with (last_opt (b :: l)) by reflexivity.
  unfold lastd at 1. rewrite (IH b). reflexivity.
Qed.

Lemma kchain_append l r :
  kchain l -> (forall a, last_opt l = Some a -> kchain_from a r) -> (l = [] -> kchain r) -> kchain (l ++ r).
Proof.
  destruct l as [|a l]; intros H1 H2 H3; [now apply H3|]. cbn [app kchain] in *.
  apply kchain_from_app. split; [exact H1|]. fold (lastd a l). apply H2. apply last_opt_cons_lastd.
Qed.

Definition mkfwd (x : N * publish) : kev := KFwd (fst x) (snd x).

Lemma kchain_from_fwds : forall (fw : list (N * publish)) a p,
  nxt a = p -> map fst fw = Nseq p (length fw) ->
  kchain_from a (map mkfwd fw) /\ nxt (lastd a (map mkfwd fw)) = p + lenN fw /\
  (fw <> [] -> is_res (lastd a (map mkfwd fw)) = false).
Proof.
  induction fw as [|[off q] fw IH]; intros a p Ha Hs; cbn [map kchain_from].
  - split; [exact I|]. unfold lastd. cbn [last_opt]. rewrite lenN_nil. split; [lia|congruence].
  - cbn [length Nseq map fst] in Hs. injection Hs as Ho Hs. subst off.
    destruct (IH (KFwd p q) (p + 1) eq_refl Hs) as (H1 & H2 & H3). split; [|split].
    + split; [cbn [mkfwd ok_next fst]; lia|exact H1].
    + unfold lastd at 1. rewrite last_opt_cons_lastd. change (mkfwd (p, q)) with (KFwd p q). rewrite H2, lenN_cons. lia.
    + intros _. unfold lastd at 1. rewrite last_opt_cons_lastd. change (mkfwd (p, q)) with (KFwd p q).
      destruct fw as [|x fw']; [reflexivity|]. apply H3. discriminate.
Qed.

Lemma sweep_chain (l : list kev) (c0 base p : N) (st : bool) (fw : list (N * publish)) :
  kchain l ->
  (forall a, last_opt l = Some a -> c0 = nxt a /\ (st = true -> c0 <= base)) ->
  p = (if st then base else c0) ->
  map fst fw = Nseq p (length fw) ->
  let evs := (if st then [KJump c0 base] else []) ++ map mkfwd fw in
  kchain (l ++ evs) /\ (forall a, last_opt (l ++ evs) = Some a -> nxt a = p + lenN fw).
Proof.
  intros Hl Hlast Hp Hs evs. destruct st.
  - (* stale: a jump first *)
    subst p. destruct (kchain_from_fwds fw (KJump c0 base) base eq_refl Hs) as (H1 & H2 & _).
    assert (E : evs = KJump c0 base :: map mkfwd fw) by reflexivity. rewrite E. split.
    + apply kchain_append; [exact Hl| |intros _; exact H1].
      intros a Ha. destruct (Hlast a Ha) as [E1 E2]. cbn [kchain_from ok_next]. split; [split; [exact E1|now apply E2]|exact H1].
    + intros a Ha. rewrite last_opt_app_ne in Ha by discriminate. rewrite last_opt_cons_lastd in Ha. inversion Ha; subst a. exact H2.
  - subst p. assert (E : evs = map mkfwd fw) by reflexivity. rewrite E. split.
    + apply kchain_append; [exact Hl| |].
      * intros a Ha. destruct (Hlast a Ha) as [E1 _]. apply (kchain_from_fwds fw a c0); [now symmetry|exact Hs].
      * intros _. destruct fw as [|[off q] fw]; [exact I|]. cbn [map kchain mkfwd fst snd].
        cbn [length Nseq map fst] in Hs. injection Hs as Ho Hs. subst off.
        apply (kchain_from_fwds fw (KFwd c0 q) (c0 + 1) eq_refl Hs).
    + intros a Ha. destruct fw as [|[off q] fw].
      * cbn [map] in Ha. rewrite app_nil_r in Ha. destruct (Hlast a Ha) as [E1 _]. rewrite lenN_nil. lia.
      * rewrite last_opt_app_ne in Ha by discriminate. cbn [map mkfwd fst snd] in Ha.
        rewrite last_opt_cons_lastd in Ha. inversion Ha; subst a.
        cbn [length Nseq map fst] in Hs. injection Hs as Ho Hs. subst off.
        destruct (kchain_from_fwds fw (KFwd c0 q) (c0 + 1) eq_refl Hs) as (_ & H2 & _).
        change (mkfwd (c0, q)) with (KFwd c0 q). rewrite H2, lenN_cons. lia.
Qed.

(** in a chain a resume marker can only be the first event *)
Lemma kchain_res_head l : kchain l -> forall a r, l = a :: r -> forall b, In b r -> is_res b = false /\ is_end b = false.
Proof. intros H a r -> b Hb. cbn [kchain] in H. eapply kchain_from_nores; eassumption. Qed.

Lemma log_fwds_app a b : log_fwds (a ++ b) = log_fwds a ++ log_fwds b.
Proof.
  induction a as [|n a IH]; cbn [app log_fwds]; [reflexivity|].
  destruct n as [[c|] p pr | | | |]; cbn [app]; now rewrite ?IH.
Qed.

Lemma skipn_length_app {A} (l x : list A) : skipn (length l) (l ++ x) = x.
Proof. induction l as [|a l IH]; cbn [length skipn app]; auto. Qed.
