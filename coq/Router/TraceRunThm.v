(** C01 at the level of whole runs — the theorems.

    For every run from [init] (ALL ops and oracles; hypotheses: valid configuration,
    max_outgoing_packet_count < 2^62, well-typed ops (SUBSCRIBE QoS <= 2), fewer than 2^62 entries
    per filter log in the LAST state) with delivery trace [tr] ([run_d], TraceRun.v), for every
    key K = (link k, subscription filter f, filter log i) — a link number identifies one
    connection between its Connect and its removal; connection keys are recycled, links are not:
    - [run_chain]: the events of K form a chain: every event starts exactly where the previous
      one said the request continues ([nxt]: forward off -> off+1, jump -> its target, subscribe
      -> the log end then).  The four readable consequences:
    - [run_no_dup_in_order] (a): the offsets forwarded for K increase strictly — no duplicate,
      acceptance order;
    - [run_gap_free] (b): two forwards adjacent in the trace of K are consecutive offsets, and in
      general every offset strictly between two forwards of K is accounted for by an event in
      between: a [KJump] over it (the cursor was stale at that sweep: evicted unforwarded, the
      "within retention" proviso) or a [KSub] above it (the subscription was dropped and made
      again: accepted while not subscribed);
    - [run_starts_after_subscribe] (c): after a [KSub e] every forward of K is at or above [e],
      the log end when the SUBSCRIBE was processed, and the first event after it is the forward
      of [e] itself (or a jump from [e]);
    - [run_complete] (d): in a quiescent final state, for every live connection and every
      subscription filter it holds, served by a non-shared request: every offset from the last
      [KSub e] of its key up to the end of the log is accounted for after that marker — forwarded
      (exactly once, by (a)) or jumped over.
    What the events mean is fixed by the ghost's definition; [fdd_ghost_jump], [fdd_ghost_fwd],
    [pf_ghost_sub] spell it out.  A session RESUMED on a new connection starts a new link, hence
    new keys: nothing is claimed across epochs (C08 states what a resumption re-delivers). *)
From Rumqtt Require Import Router.NoPanicLog.
From Rumqtt Require Import Router.Model Router.InvLemmasBase Router.Inv Router.NoPanic Router.NoPanicDevBase Router.NoPanicDevInv.
From Rumqtt Require Import Router.ExactLoc3.
From Rumqtt Require Import Log.Proofs Router.ExactLog.
From Rumqtt Require Import Router.WindowFrame Router.Window Router.WindowStep Router.DataLogInv Router.DataLogStep
                           Router.ExactInv Router.ExactStep1 Router.ExactStep2 Router.ExactStep3 Router.ExactLogs
                           Router.ExactSweep Router.ExactThm.
From Rumqtt Require Import Router.Wake Router.WakePark Router.WakeThm Router.WakeCor.
From Rumqtt Require Import Router.TraceRun Router.TraceRunHeld Router.TraceRunInv Router.TraceRunStep.
From Rumqtt Require Import Router.Model Router.RunDefs.
From Coq Require Import List ZifyBool ZifyN ZifyNat Sorted.
Import ListNotations.

(** the hypotheses shared by all theorems *)
Definition run_hyps (cfg : config) (st0 : rstate) (ops : list (list oracle * rop)) (st : rstate) (tr : list dev) : Prop :=
  cfg_ok cfg /\ cf_max_outgoing cfg < B62 /\ init cfg = Ok st0 /\ ops_wf ops /\
  run_d st0 ops = Ok (st, tr) /\ Bounded st.

Lemma run_hyps_inv cfg st0 ops st tr : run_hyps cfg st0 ops st tr -> RunInv st tr.
Proof. intros (H1 & H2 & H3 & H4 & H5 & H6). eapply run_from_init; eassumption. Qed.

(* ------------------------------------------------------------------ the chain *)
Theorem run_chain cfg st0 ops st tr :
  run_hyps cfg st0 ops st tr -> forall K, kchain (ktrace K tr).
Proof. intros H. apply (di_chain _ _ _ (rn_di _ _ (run_hyps_inv _ _ _ _ _ H))). Qed.

(** (a) *)
Theorem run_no_dup_in_order cfg st0 ops st tr :
  run_hyps cfg st0 ops st tr -> forall k f i, increasing (fwd_offs (ktrace (k, f, i) tr)).
Proof. intros H k f i. apply kchain_increasing. eapply run_chain; eassumption. Qed.

Lemma increasing_NoDup l : increasing l -> NoDup l.
Proof.
  induction 1 as [|x l Hs IH Hf]; constructor; [|exact IH].
  intros Hin. rewrite Forall_forall in Hf. specialize (Hf _ Hin). lia.
Qed.

Corollary run_no_dup cfg st0 ops st tr :
  run_hyps cfg st0 ops st tr -> forall k f i, NoDup (fwd_offs (ktrace (k, f, i) tr)).
Proof. intros H k f i. apply increasing_NoDup. eapply run_no_dup_in_order; eassumption. Qed.

(** (b) *)
Theorem run_gap_free cfg st0 ops st tr :
  run_hyps cfg st0 ops st tr ->
  forall K l1 o1 p1 mid o2 p2 l2,
    ktrace K tr = l1 ++ KFwd o1 p1 :: mid ++ KFwd o2 p2 :: l2 ->
    o1 < o2 /\ (mid = [] -> o2 = o1 + 1) /\ (forall x, o1 < x < o2 -> covered x mid).
Proof.
  intros H K l1 o1 p1 mid o2 p2 l2 E. pose proof (run_chain _ _ _ _ _ H K) as Hc. rewrite E in Hc.
  apply kchain_suffix in Hc. apply kchain_from_app in Hc as [Hm Hr]. cbn [kchain_from ok_next] in Hr.
  destruct Hr as [Hr _]. fold (lastd (KFwd o1 p1) mid) in Hr.
  assert (Hge : nxt (KFwd o1 p1) <= nxt (lastd (KFwd o1 p1) mid)).
  { unfold lastd. destruct (last_opt mid) as [b|] eqn:El; [|lia].
    apply (kchain_from_mono _ _ Hm eq_refl). clear -El. induction mid as [|x m IH]; [discriminate|].
    destruct m; [inversion El; now left|right; now apply IH]. }
  cbn [nxt] in Hge. split; [lia|]. split.
  - intros ->. unfold lastd in Hr. cbn [last_opt nxt] in Hr. exact Hr.
  - intros x Hx. apply (kchain_from_covered _ _ Hm); [cbn [nxt]; lia|]. fold (lastd (KFwd o1 p1) mid). lia.
Qed.

(** (c) *)
Theorem run_starts_after_subscribe cfg st0 ops st tr :
  run_hyps cfg st0 ops st tr ->
  forall K l1 e l2, ktrace K tr = l1 ++ KSub e :: l2 ->
    (forall off p, In (KFwd off p) l2 -> e <= off) /\
    (forall b l3, l2 = b :: l3 ->
       match b with KFwd off _ => off = e | KJump from to => from = e /\ e <= to | KSub e' => e <= e'
                  | KRes _ _ => False | KEnd _ _ _ => False end).
Proof.
  intros H K l1 e l2 E. pose proof (run_chain _ _ _ _ _ H K) as Hc. rewrite E in Hc. apply kchain_suffix in Hc.
  split.
  - intros off p Hin. apply (kchain_from_fwd_ge _ _ Hc eq_refl _ _ Hin).
  - intros b l3 ->. cbn [kchain_from] in Hc. destruct Hc as [Hc _]. destruct b; cbn [ok_next nxt is_res] in Hc; try exact Hc.
    destruct Hc as [-> X]. split; [reflexivity|exact X].
Qed.

(** the first event of every key is a subscribe marker or a resume marker; a resume marker is
    never preceded by anything *)
Theorem run_key_head cfg st0 ops st tr :
  run_hyps cfg st0 ops st tr ->
  forall K a l, ktrace K tr = a :: l -> (exists cl c0, a = KRes cl c0) \/ exists e, a = KSub e.
Proof.
  intros H K a l E. destruct (di_head _ _ _ (rn_di _ _ (run_hyps_inv _ _ _ _ _ H)) K a l E) as [Hr | He]; [left|now right].
  destruct a; try discriminate. eauto.
Qed.

(** (d), general form: from ANY event of the key, everything up to the end of the log is accounted
    for by the later events *)
Theorem run_complete_gen cfg st0 ops st tr :
  run_hyps cfg st0 ops st tr -> 1 <= cf_max_outgoing cfg ->
  quiescent st (owed_run st0 [] ops) ->
  forall id c o, slab_get (r_conns st) id = Some c -> slab_get (r_obufs st) id = Some o ->
  forall f, set_mem str_eqb f (c_subs c) = true ->
  exists i d rq,
    nget (r_datalog st) i = Some d /\ In (id, rq) (d_waiters d) /\ dr_filter rq = f /\ dr_idx rq = i /\
    (dr_group rq = None ->
     snd (dr_cursor rq) = end_of (d_log d) /\
     (exists a l, ktrace (o_link o, f, i) tr = a :: l /\ ((exists cl c0, a = KRes cl c0) \/ exists e, a = KSub e)) /\
     forall l1 a l2, ktrace (o_link o, f, i) tr = l1 ++ a :: l2 ->
       forall x, nxt a <= x < end_of (d_log d) -> covered x l2).
Proof.
  intros H Hmo Hq id c o Hc Ho f Hf. pose proof (run_hyps_inv _ _ _ _ _ H) as [_ _ _ HDI _].
  pose proof (run_key_head _ _ _ _ _ H) as Hhd.
  destruct H as (Hcfg & Hlt & Hi & Hwf & Hr & HB). pose proof (run_d_run _ _ _ _ Hr) as Hr'.
  destruct (complete_quiescent cfg st0 ops st Hcfg (conj Hmo Hlt) Hi Hwf Hr' HB Hq id c Hc)
    as (t & a & _ & _ & _ & _ & _ & Hsubs).
  destruct (Hsubs f Hf) as (_ & i & d & rq & Hd & Hin & Hfl & Hidx & Hend).
  exists i, d, rq. repeat (split; [assumption|]). intros Hg. specialize (Hend Hg). split; [exact Hend|].
  assert (Hk : key_of o rq = (o_link o, f, i)) by (unfold key_of; now rewrite Hfl, Hidx).
  assert (Hh : HeldE st [] id rq) by (left; right; left; exists i, d; auto).
  split.
  { pose proof (di_ne _ _ _ HDI id o rq Ho Hh Hg) as Hne. rewrite Hk in Hne.
    destruct (ktrace (o_link o, f, i) tr) as [|a0 l0] eqn:E; [contradiction|]. exists a0, l0. split; [reflexivity|].
    eapply Hhd; exact E. }
  intros l1 a0 l2 E x Hx.
  assert (Hl : last_opt (ktrace (key_of o rq) tr) = Some (lastd a0 l2)).
  { rewrite Hk, E, last_opt_app_ne by discriminate. apply last_opt_cons_lastd. }
  pose proof (di_chain _ _ _ HDI (o_link o, f, i)) as Hch. rewrite E in Hch. apply kchain_suffix in Hch.
  destruct (di_cur _ _ _ HDI id o rq _ Ho Hh Hg Hl) as [Hcur _].
  apply (kchain_from_covered _ _ Hch); [lia|]. fold (lastd a0 l2). lia.
Qed.

Theorem run_complete cfg st0 ops st tr :
  run_hyps cfg st0 ops st tr -> 1 <= cf_max_outgoing cfg ->
  quiescent st (owed_run st0 [] ops) ->
  forall id c o, slab_get (r_conns st) id = Some c -> slab_get (r_obufs st) id = Some o ->
  forall f, set_mem str_eqb f (c_subs c) = true ->
  exists i d rq,
    nget (r_datalog st) i = Some d /\ In (id, rq) (d_waiters d) /\ dr_filter rq = f /\ dr_idx rq = i /\
    (dr_group rq = None ->
     snd (dr_cursor rq) = end_of (d_log d) /\
     (exists a l, ktrace (o_link o, f, i) tr = a :: l /\ ((exists cl c0, a = KRes cl c0) \/ exists e, a = KSub e)) /\
     forall l1 e l2, ktrace (o_link o, f, i) tr = l1 ++ KSub e :: l2 ->
       forall x, e <= x < end_of (d_log d) -> covered x l2).
Proof.
  intros H Hmo Hq id c o Hc Ho f Hf.
  destruct (run_complete_gen _ _ _ _ _ H Hmo Hq id c o Hc Ho f Hf) as (i & d & rq & A1 & A2 & A3 & A4 & A5).
  exists i, d, rq. repeat (split; [assumption|]). intros Hg. destruct (A5 Hg) as (B1 & B2 & B3).
  split; [exact B1|]. split; [exact B2|]. intros l1 e l2 E x Hx. exact (B3 l1 (KSub e) l2 E x Hx).
Qed.

(** without a re-subscription after the marker, "accounted for" means forwarded or evicted *)
Lemma covered_no_sub x l : no_sub l -> covered x l ->
  (exists p, In (KFwd x p) l) \/ (exists from to, In (KJump from to) l /\ from <= x < to).
Proof. intros Hn [H | [H | (e & He & _)]]; auto. destruct (Hn _ He). Qed.

(** the connection key recorded in an event is the key of the connection that owns the link *)
Theorem run_event_owner cfg st0 ops st tr :
  run_hyps cfg st0 ops st tr ->
  forall id k f i a c o, In (id, (k, f, i), a) tr -> slab_get (r_obufs st) c = Some o -> o_link o = k -> id = c.
Proof. intros H. apply (di_id _ _ _ (rn_di _ _ (run_hyps_inv _ _ _ _ _ H))). Qed.

(** every event lies within its log *)
Theorem run_event_in_log cfg st0 ops st tr :
  run_hyps cfg st0 ops st tr ->
  forall id k f i a, In (id, (k, f, i), a) tr ->
    exists d, nget (r_datalog st) i = Some d /\ nxt a <= end_of (d_log d).
Proof. intros H. apply (di_end _ _ _ (rn_di _ _ (run_hyps_inv _ _ _ _ _ H))). Qed.

(* ------------------------------------------------------------------ what the events mean *)
Lemma log_fwds_In ns off p :
  In (off, p) (log_fwds ns) <-> exists seg pr, In (NForward (Some (seg, off)) p pr) ns.
Proof.
  induction ns as [|n ns IH]; cbn [log_fwds In].
  - split; [intros []|intros (? & ? & [])].
  - destruct n as [[[sg o]|] q pr | | | |]; cbn [In snd]; rewrite ?IH; split;
      try (intros (seg & pr0 & Hx); exists seg, pr0; now right);
      try (intros (seg & pr0 & [E | Hx]); [discriminate|eauto]).
    + intros [E | (seg & pr0 & Hx)]; [inversion E; subst; exists sg, pr; now left|exists seg, pr0; now right].
    + intros (seg & pr0 & [E | Hx]); [inversion E; now left|right; eauto].
Qed.

(** a [KFwd] of one sweep is a log-sourced forward that this call appended to the link buffer of
    the served connection, for a request that is not shared *)
Lemma fdd_ghost_fwd st id rq st' cs id' K off p :
  In (id', K, KFwd off p) (fdd_ghost st id rq st' cs) ->
  dr_group rq = None /\ id' = id /\
  exists o, slab_get (r_obufs st) id = Some o /\ K = (o_link o, dr_filter rq, dr_idx rq) /\
    exists seg pr, In (NForward (Some (seg, off)) p pr)
                      (skipn (length (out_of st (o_link o))) (out_of st' (o_link o))).
Proof.
  unfold fdd_ghost. destruct (dr_group rq); [intros []|]. destruct (slab_get (r_obufs st) id) as [o|]; [|intros []].
  intros Hin. assert (X : In (id', K, KFwd off p)
     ((match nget (r_datalog st) (dr_idx rq) with
       | Some d => if stale (d_log d) (dr_cursor rq)
                   then [(id, (o_link o, dr_filter rq, dr_idx rq), KJump (snd (dr_cursor rq)) (base_of (d_log d)))] else []
       | None => [] end) ++
      map (fun x : N * publish => (id, (o_link o, dr_filter rq, dr_idx rq), KFwd (fst x) (snd x)))
          (log_fwds (skipn (length (out_of st (o_link o))) (out_of st' (o_link o)))))).
  { destruct cs; try exact Hin. destruct Hin. }
  clear Hin. apply in_app_or in X as [X | X].
  - destruct (nget (r_datalog st) (dr_idx rq)) as [d|]; [|destruct X].
    destruct (stale (d_log d) (dr_cursor rq)); [destruct X as [E | []]; discriminate|destruct X].
  - apply in_map_iff in X as ([off' p'] & E & Hin). cbn [fst snd] in E. inversion E; subst.
    split; [reflexivity|]. split; [reflexivity|]. exists o. split; [reflexivity|]. split; [reflexivity|].
    now apply log_fwds_In.
Qed.

(** a [KJump] is emitted only by a sweep whose cursor is stale ([stale], Log.Spec): from the
    cursor's offset to the base of the log *)
Lemma fdd_ghost_jump st id rq st' cs id' K from to :
  In (id', K, KJump from to) (fdd_ghost st id rq st' cs) ->
  dr_group rq = None /\ cs <> SInflightFull /\
  exists d, nget (r_datalog st) (dr_idx rq) = Some d /\ stale (d_log d) (dr_cursor rq) = true /\
            from = snd (dr_cursor rq) /\ to = base_of (d_log d).
Proof.
  unfold fdd_ghost. destruct (dr_group rq); [intros []|]. destruct (slab_get (r_obufs st) id) as [o|]; [|intros []].
  intros Hin. split; [reflexivity|]. split; [intros ->; destruct Hin|].
  assert (X : In (id', K, KJump from to)
     ((match nget (r_datalog st) (dr_idx rq) with
       | Some d => if stale (d_log d) (dr_cursor rq)
                   then [(id, (o_link o, dr_filter rq, dr_idx rq), KJump (snd (dr_cursor rq)) (base_of (d_log d)))] else []
       | None => [] end) ++
      map (fun x : N * publish => (id, (o_link o, dr_filter rq, dr_idx rq), KFwd (fst x) (snd x)))
          (log_fwds (skipn (length (out_of st (o_link o))) (out_of st' (o_link o)))))).
  { destruct cs; try exact Hin. destruct Hin. }
  clear Hin. apply in_app_or in X as [X | X].
  - destruct (nget (r_datalog st) (dr_idx rq)) as [d|]; [|destruct X].
    destruct (stale (d_log d) (dr_cursor rq)) eqn:Es; [|destruct X]. destruct X as [E | []]. inversion E; subst.
    exists d. auto.
  - apply in_map_iff in X as (x & E & _). discriminate.
Qed.

(** a [KRes] is emitted by a Connect that registered [client] on the fresh link [link], one per
    non-shared request of the tracker the new connection starts with (a restored session) *)
Lemma conn_ghost_res st' client link id' K a :
  In (id', K, a) (conn_ghost st' client link) ->
  al_get str_eqb client (r_cmap st') = Some id' /\
  exists o t rq, slab_get (r_obufs st') id' = Some o /\ o_link o = link /\
                 slab_get (r_trackers st') id' = Some t /\ In rq (tr_reqs t) /\ dr_group rq = None /\
                 K = (link, dr_filter rq, dr_idx rq) /\ a = KRes client (snd (dr_cursor rq)).
Proof.
  unfold conn_ghost. destruct (al_get str_eqb client (r_cmap st')) as [id|] eqn:Ec; [|intros []].
  destruct (slab_get (r_obufs st') id) as [o|] eqn:Eo; [|intros []].
  destruct (slab_get (r_trackers st') id) as [t|] eqn:Et; [|intros []].
  destruct (N.eqb_spec (o_link o) link) as [El | _]; [|intros []].
  intros Hin. apply in_map_iff in Hin as (rq & E & Hrq). inversion E; subst. apply filter_In in Hrq as [Hrq Hu].
  split; [reflexivity|]. exists o, t, rq.
  split; [exact Eo|]. split; [reflexivity|]. split; [exact Et|]. split; [exact Hrq|].
  split; [|split; reflexivity]. unfold unshared_b in Hu. destruct (dr_group rq); [discriminate|reflexivity].
Qed.

(** a [KSub] is emitted by [prepare_filter] for a non-shared filter the connection does not hold
    yet, with the offset of the cursor [next_native_offset] returned: the END of the filter's log *)
Lemma pf_ghost_sub st f st1 idx cu id path grp id' K a :
  CInv st -> next_native_offset st f = Ok (st1, idx, cu) ->
  In (id', K, a) (pf_ghost st1 id cu idx path grp) ->
  grp = None /\ id' = id /\
  exists conn o d, slab_get (r_conns st1) id = Some conn /\ set_mem str_eqb path (c_subs conn) = false /\
                   slab_get (r_obufs st1) id = Some o /\ K = (o_link o, path, idx) /\
                   nget (r_datalog st1) idx = Some d /\ a = KSub (end_of (d_log d)).
Proof.
  intros HI H1 Hin. unfold pf_ghost in Hin. destruct grp; [destruct Hin|].
  destruct (slab_get (r_conns st1) id) as [conn|] eqn:Ec; [|destruct Hin].
  destruct (slab_get (r_obufs st1) id) as [o|] eqn:Eo; [|destruct Hin].
  destruct (set_mem str_eqb path (c_subs conn)) eqn:Em; [destruct Hin|]. destruct Hin as [E | []]. inversion E; subst.
  split; [reflexivity|]. split; [reflexivity|].
  destruct (next_native_offset_end _ _ _ _ _ HI H1) as (d0 & all & Hd0 & W0 & Ecu & _).
  exists conn, o, d0. repeat (split; [first [assumption|reflexivity]|]).
  rewrite Ecu. cbn [snd]. now rewrite (wf_end_of pubdata_size _ _ W0).
Qed.

(* ------------------------------------------------------------------ the statements, hypotheses spelled out *)
Section Curried.
Variables (cfg : config) (st0 : rstate) (ops : list (list oracle * rop)) (st : rstate) (tr : list dev).
Hypotheses (Hcfg : cfg_ok cfg) (Hmo : cf_max_outgoing cfg < B62) (Hi : init cfg = Ok st0) (Hwf : ops_wf ops)
           (Hr : run_d st0 ops = Ok (st, tr)) (HB : Bounded st).

Let H : run_hyps cfg st0 ops st tr := conj Hcfg (conj Hmo (conj Hi (conj Hwf (conj Hr HB)))).

Theorem c01_run_chain_thm : forall K, kchain (ktrace K tr).
Proof. exact (run_chain _ _ _ _ _ H). Qed.

Theorem c01_run_no_dup_in_order_thm : forall k f i,
  increasing (fwd_offs (ktrace (k, f, i) tr)) /\ NoDup (fwd_offs (ktrace (k, f, i) tr)).
Proof. intros k f i. split; [exact (run_no_dup_in_order _ _ _ _ _ H k f i)|exact (run_no_dup _ _ _ _ _ H k f i)]. Qed.

Theorem c01_run_gap_free_thm : forall K l1 o1 p1 mid o2 p2 l2,
  ktrace K tr = l1 ++ KFwd o1 p1 :: mid ++ KFwd o2 p2 :: l2 ->
  o1 < o2 /\ (mid = [] -> o2 = o1 + 1) /\ (forall x, o1 < x < o2 -> covered x mid).
Proof. exact (run_gap_free _ _ _ _ _ H). Qed.

Theorem c01_run_starts_after_subscribe_thm : forall K l1 e l2,
  ktrace K tr = l1 ++ KSub e :: l2 ->
  (forall off p, In (KFwd off p) l2 -> e <= off) /\
  (forall b l3, l2 = b :: l3 ->
     match b with KFwd off _ => off = e | KJump from to => from = e /\ e <= to | KSub e' => e <= e'
                | KRes _ _ => False | KEnd _ _ _ => False end).
Proof. exact (run_starts_after_subscribe _ _ _ _ _ H). Qed.

Theorem c01_run_complete_thm :
  1 <= cf_max_outgoing cfg -> quiescent st (owed_run st0 [] ops) ->
  forall id c o, slab_get (r_conns st) id = Some c -> slab_get (r_obufs st) id = Some o ->
  forall f, set_mem str_eqb f (c_subs c) = true ->
  exists i d rq,
    nget (r_datalog st) i = Some d /\ In (id, rq) (d_waiters d) /\ dr_filter rq = f /\ dr_idx rq = i /\
    (dr_group rq = None ->
     snd (dr_cursor rq) = end_of (d_log d) /\
     (exists a l, ktrace (o_link o, f, i) tr = a :: l /\ ((exists cl c0, a = KRes cl c0) \/ exists e, a = KSub e)) /\
     forall l1 e l2, ktrace (o_link o, f, i) tr = l1 ++ KSub e :: l2 ->
       forall x, e <= x < end_of (d_log d) -> covered x l2).
Proof. exact (run_complete _ _ _ _ _ H). Qed.

Theorem c01_run_complete_gen_thm :
  1 <= cf_max_outgoing cfg -> quiescent st (owed_run st0 [] ops) ->
  forall id c o, slab_get (r_conns st) id = Some c -> slab_get (r_obufs st) id = Some o ->
  forall f, set_mem str_eqb f (c_subs c) = true ->
  exists i d rq,
    nget (r_datalog st) i = Some d /\ In (id, rq) (d_waiters d) /\ dr_filter rq = f /\ dr_idx rq = i /\
    (dr_group rq = None ->
     snd (dr_cursor rq) = end_of (d_log d) /\
     (exists a l, ktrace (o_link o, f, i) tr = a :: l /\ ((exists cl c0, a = KRes cl c0) \/ exists e, a = KSub e)) /\
     forall l1 a l2, ktrace (o_link o, f, i) tr = l1 ++ a :: l2 ->
       forall x, nxt a <= x < end_of (d_log d) -> covered x l2).
Proof. exact (run_complete_gen _ _ _ _ _ H). Qed.

Theorem c01_run_key_head_thm : forall K a l,
  ktrace K tr = a :: l -> (exists cl c0, a = KRes cl c0) \/ exists e, a = KSub e.
Proof. exact (run_key_head _ _ _ _ _ H). Qed.

Theorem c01_run_event_owner_thm : forall id k f i a c o,
  In (id, (k, f, i), a) tr -> slab_get (r_obufs st) c = Some o -> o_link o = k -> id = c.
Proof. exact (run_event_owner _ _ _ _ _ H). Qed.

Theorem c01_run_event_in_log_thm : forall id k f i a,
  In (id, (k, f, i), a) tr -> exists d, nget (r_datalog st) i = Some d /\ nxt a <= end_of (d_log d).
Proof. exact (run_event_in_log _ _ _ _ _ H). Qed.
End Curried.
