(** RInv 3, part 4: a parked request is genuinely caught up.

    [ParkInv st]: every data request parked in the waiter list of filter log [i] reads log [i],
    and — unless it is served through a shared-subscription group, whose cursor lives in the
    group — its cursor is the END of that log (offset = number of entries ever appended).
    Needs the cursor invariant [CInv] (Exact*.v), the resource bound [Bounded] and
    [max_outgoing_packet_count >= 1] (with 0 a QoS 0 sweep reads nothing and parks the request
    wherever it stands). *)
From Rumqtt Require Import Log.Spec Log.Proofs Router.ExactLog.
From Rumqtt Require Import Topic.Proofs Router.WindowFrame Router.Window Router.DataLogInv Router.DataLogStep
                           Router.ExactInv Router.ExactStep1 Router.ExactStep2 Router.ExactStep3 Router.ExactLogs Router.ExactSweep.
From Rumqtt Require Import Router.RetainedReplay.
From Rumqtt Require Import Router.Model Router.RunDefs.
From Coq Require Import List ZifyBool ZifyN ZifyNat.
Import ListNotations.

Definition parked_ok (i : N) (d : data) (w : N * drequest) : Prop :=
  dr_idx (snd w) = i /\ (dr_group (snd w) = None -> snd (dr_cursor (snd w)) = end_of (d_log d)).
Definition ParkD (dl : datalog) : Prop :=
  forall i d, nget dl i = Some d -> Forall (parked_ok i d) (d_waiters d).
Definition ParkInv (st : rstate) : Prop := ParkD (r_datalog st).

(** every log of [dl'] has no waiters, or is a log of [dl] — same entries — with a subset of
    its waiters *)
Definition psub (dl dl' : datalog) : Prop :=
  forall i d', nget dl' i = Some d' ->
    d_waiters d' = [] \/
    exists d, nget dl i = Some d /\ d_log d' = d_log d /\ incl (d_waiters d') (d_waiters d).
Definition PS (st st' : rstate) : Prop := psub (r_datalog st) (r_datalog st').

Lemma psub_refl dl : psub dl dl.
Proof. intros i d H. right. exists d. split; [exact H | split; [reflexivity | apply incl_refl]]. Qed.
Lemma psub_trans a b c : psub a b -> psub b c -> psub a c.
Proof.
  intros H1 H2 i d3 G3. destruct (H2 _ _ G3) as [E | (d2 & G2 & L2 & I2)]; [now left |].
  destruct (H1 _ _ G2) as [E | (d1 & G1 & L1 & I1)].
  - left. rewrite E in I2. destruct (d_waiters d3) as [| x r]; [reflexivity |]. destruct (I2 x); now left.
  - right. exists d1. split; [exact G1 | split; [congruence | eapply incl_tran; eauto]].
Qed.
Lemma ParkD_psub dl dl' : ParkD dl -> psub dl dl' -> ParkD dl'.
Proof.
  intros P S i d' G'. destruct (S _ _ G') as [E | (d & G & L & I)]; [rewrite E; constructor |].
  specialize (P _ _ G). rewrite Forall_forall in *. intros w Hw. specialize (P w (I w Hw)).
  unfold parked_ok in *. now rewrite L.
Qed.

Lemma PS_refl st : PS st st. Proof. apply psub_refl. Qed.
Lemma PS_trans a b c : PS a b -> PS b c -> PS a c. Proof. apply psub_trans. Qed.
Lemma PS_eq st st' : r_datalog st' = r_datalog st -> PS st st'.
Proof. unfold PS. intros ->. apply psub_refl. Qed.
Lemma PS_native st st' : dl_native (r_datalog st') = dl_native (r_datalog st) -> PS st st'.
Proof. intros E i d G. unfold nget in G. rewrite E in G. right. exists d. split; [exact G | split; [reflexivity | apply incl_refl]]. Qed.
Lemma ParkInv_PS st st' : ParkInv st -> PS st st' -> ParkInv st'.
Proof. apply ParkD_psub. Qed.

(* ------------------------------------------------------------------ logs created / appended to *)
Lemma next_native_offset_PS st f st' idx cu : next_native_offset st f = Ok (st', idx, cu) -> PS st st'.
Proof.
  intros H. unfold next_native_offset in H.
  destruct (al_get str_eqb f (dl_findex (r_datalog st))) as [i|] eqn:Ef.
  - apply bind_ok in H as (d & Hd & H). apply bind_ok in H as (c & Hc & H). inv_ok. apply PS_refl.
  - apply bind_ok in H as (d & Hd & H). destruct (data_new_wf _ _ _ Hd) as (W & Hw & _).
    destruct (slab_insert (dl_native (r_datalog st)) d) as [native' k] eqn:Ei.
    apply bind_ok in H as (pf & Hpf & H). apply bind_ok in H as (c & Hc & H). inv_ok.
    intros j d' G'. unfold nget in G'. cbn [r_datalog set_r_datalog dl_native] in G'.
    apply (slab_insert_inv _ _ _ _ _ _ Ei) in G' as [[-> ->] | [_ G']]; [now left |].
    right. exists d'. split; [exact G' | split; [reflexivity | apply incl_refl]].
Qed.

Lemma data_append_PS st idx item st' : data_append st idx item = Ok st' -> PS st st'.
Proof.
  intros H. unfold data_append in H.
  apply bind_ok in H as (d & Hd & H). apply native_get_Some in Hd.
  apply bind_ok in H as ([l' off] & Happ & H). inv_ok.
  intros j d' G'. unfold nget in G'. cbn [r_datalog set_r_datalog set_r_notif set_dl_native dl_native] in G'.
  apply slab_get_put_inv in G' as [[-> ->] | [_ G']]; [now left |].
  right. exists d'. split; [exact G' | split; [reflexivity | apply incl_refl]].
Qed.

Lemma append_all_PS item : forall idxs st st', append_all st idxs item = Ok st' -> PS st st'.
Proof.
  induction idxs as [|i r IH]; intros st st' H; cbn [append_all] in H.
  - inv_ok. apply PS_refl.
  - apply bind_ok in H as (st1 & H1 & H). eapply PS_trans; [eapply data_append_PS; eassumption|eapply IH; eassumption].
Qed.

Lemma dl_matches_PS st t st' v : dl_matches st t = Ok (st', v) -> PS st st'.
Proof.
  intros H. unfold dl_matches in H.
  destruct (al_get str_eqb t (dl_pfilters (r_datalog st))); [inv_ok; apply PS_refl|].
  apply bind_ok in H as (base & _ & H). apply bind_ok in H as ([v1 orc] & _ & H). inv_ok.
  destruct v; apply PS_native; reflexivity.
Qed.

Lemma retain_update_PS st t p pr : PS st (retain_update st t p pr).
Proof. unfold retain_update. destruct (p_retain p); [destruct (p_payload p) |]; apply PS_native; reflexivity. Qed.

Lemma append_to_commitlog_PS st id p props st' res : append_to_commitlog st id p props = Ok (st', res) -> PS st st'.
Proof.
  unfold append_to_commitlog. intros H.
  apply bind_ok in H as (conn & Hc & H).
  match type of H with (if ?b then _ else _) = _ => destruct b end; [inv_ok; apply PS_refl|].
  apply bind_ok in H as (sp & Hsp & H). destruct sp as [[st1 p1]|reason]; [|inv_ok; apply PS_refl].
  assert (D1 : r_datalog st1 = r_datalog st).
  { clear H. break_all Hsp; inv_ok; reflexivity. }
  destruct (negb (utf8_valid (p_topic p1))); [inv_ok; now apply PS_eq|].
  apply bind_ok in H as ([st3 idxs] & H3 & H). apply bind_ok in H as (st4 & H4 & H). inv_ok.
  eapply PS_trans; [apply PS_eq; exact D1|]. eapply PS_trans; [apply retain_update_PS|].
  eapply PS_trans; [eapply dl_matches_PS; eassumption|eapply append_all_PS; eassumption].
Qed.

(* ------------------------------------------------------------------ waiters removed *)
Lemma waiters_remove_incl id : forall fuel w w' q, waiters_remove fuel w id = (w', q) -> incl w' w.
Proof.
  induction fuel as [|fuel IH]; intros w w' q H; cbn [waiters_remove] in H.
  - inv_ok. apply incl_refl.
  - destruct (position_id w id 0) as [i|]; [|inv_ok; apply incl_refl].
    destruct (swap_remove_back w i) as [[[c rq] w1]|] eqn:E; [|inv_ok; apply incl_refl].
    destruct (waiters_remove fuel w1 id) as [w2 rqs] eqn:E2. inv_ok.
    apply swap_remove_back_in in E as [_ Hsub]. intros x Hx. apply Hsub. eapply IH; eauto.
Qed.

Definition isub (items items' : list (option data)) : Prop :=
  forall i d', nthN items' i = Some (Some d') ->
    exists d, nthN items i = Some (Some d) /\ d_log d' = d_log d /\ incl (d_waiters d') (d_waiters d).

Lemma isub_cons x x' r r' :
  (forall d', x' = Some d' -> exists d, x = Some d /\ d_log d' = d_log d /\ incl (d_waiters d') (d_waiters d)) ->
  isub r r' -> isub (x :: r) (x' :: r').
Proof.
  intros Hx Hr i d' G. cbn [nthN] in *. destruct (i =? 0); [| now apply Hr].
  inversion G as [E]. destruct (Hx _ E) as (d & -> & L & I). eauto.
Qed.
Lemma isub_refl items : isub items items.
Proof. intros i d G. exists d. split; [exact G | split; [reflexivity | apply incl_refl]]. Qed.

Lemma clean_items_isub id : forall items items' q, clean_items items id = (items', q) -> isub items items'.
Proof.
  induction items as [|[d|] r IH]; intros items' q H; cbn [clean_items] in H.
  - inv_ok. apply isub_refl.
  - destruct (waiters_remove (S (length (d_waiters d))) (d_waiters d) id) as [w' q1] eqn:E1.
    destruct (clean_items r id) as [r' q2] eqn:E2. inv_ok. apply isub_cons; [| eapply IH; eauto].
    intros d' E. inversion E; subst d'. exists d. split; [reflexivity | split; [reflexivity |]].
    cbn [set_d_waiters d_waiters]. eapply waiters_remove_incl; eauto.
  - destruct (clean_items r id) as [r' q2] eqn:E2. inv_ok. apply isub_cons; [discriminate | eapply IH; eauto].
Qed.

Lemma remove_waiter_items_isub id f : forall items, isub items (remove_waiter_items items id f).
Proof.
  induction items as [|[d|] r IH]; cbn [remove_waiter_items]; [apply isub_refl | |].
  - destruct (position_req (d_waiters d) id f 0) as [i|].
    + destruct (swap_remove_back (d_waiters d) i) as [[x w']|] eqn:E; [| apply isub_refl].
      apply isub_cons; [| apply isub_refl]. intros d' Ed. inversion Ed; subst d'. exists d.
      split; [reflexivity | split; [reflexivity |]]. cbn [set_d_waiters d_waiters].
      apply swap_remove_back_in in E as [_ Hsub]. exact Hsub.
    + apply isub_cons; [| exact IH]. intros d' Ed. inversion Ed; subst d'. exists d.
      split; [reflexivity | split; [reflexivity | apply incl_refl]].
  - apply isub_cons; [discriminate | exact IH].
Qed.

Lemma isub_psub dl dl' : isub (sl_items (dl_native dl)) (sl_items (dl_native dl')) -> psub dl dl'.
Proof.
  intros S i d' G. right. unfold nget, slab_get in *.
  destruct (nthN (sl_items (dl_native dl')) i) as [[d0|]|] eqn:E; try discriminate. inversion G; subst d0.
  destruct (S _ _ E) as (d & Gd & L & I). exists d. rewrite Gd. auto.
Qed.

Lemma remove_waiters_PS st id f st' : remove_waiters_for_id st id f = Ok st' -> PS st st'.
Proof.
  unfold remove_waiters_for_id. intros H. inv_ok. apply isub_psub.
  cbn [r_datalog set_r_datalog set_dl_native dl_native sl_items]. apply remove_waiter_items_isub.
Qed.

Lemma dl_clean_psub dl id dl' q : dl_clean dl id = (dl', q) -> psub dl dl'.
Proof.
  unfold dl_clean. destruct (clean_items (sl_items (dl_native dl)) id) as [items q'] eqn:E.
  intros H. inv_ok. apply isub_psub. cbn [set_dl_native dl_native sl_items]. eapply clean_items_isub; eauto.
Qed.

Lemma handle_disconnection_PS st id reason st' : handle_disconnection st id reason = Ok st' -> PS st st'.
Proof.
  unfold handle_disconnection. intros H.
  destruct (slab_get (r_obufs st) id) as [o0 |]; [| inv_ok; apply PS_refl].
  apply bind_ok in H as (st0 & H0 & H).
  assert (E0 : r_datalog st0 = r_datalog st).
  { destruct reason; [| now inv_ok]. apply bind_ok in H0 as ([s l] & H0 & H1). inv_ok.
    apply push_out_fields in H0. rewrite H0. reflexivity. }
  unfold PS. rewrite <- E0.
  destruct (slab_remove (r_conns st0) id) as [[conns conn] |]; [| discriminate].
  destruct (slab_remove (r_ibufs st0) id) as [[ibufs ib] |]; [| discriminate].
  destruct (slab_remove (r_obufs st0) id) as [[obufs outg] |]; [| discriminate].
  destruct (slab_remove (r_trackers st0) id) as [[trackers trk] |]; [| discriminate].
  destruct (slab_remove (r_acks st0) id) as [[acks ak] |]; [| discriminate].
  destruct (dl_clean (r_datalog st0) id) as [dl q] eqn:EC. apply dl_clean_psub in EC.
  apply bind_ok in H as ([grave groups'] & _ & H). inv_ok. exact EC.
Qed.

Lemma handle_new_connection_PS st conn link st' : handle_new_connection st conn link = Ok st' -> PS st st'.
Proof.
  unfold handle_new_connection. intros H.
  destruct (negb (validate_clientid (c_client conn))); [inv_ok; apply PS_refl |].
  apply bind_ok in H as (st1 & H1 & H).
  assert (A1 : PS st st1).
  { destruct (al_get str_eqb (c_client conn) (r_cmap st)); [eapply handle_disconnection_PS; eauto | inv_ok; apply PS_refl]. }
  eapply PS_trans; [exact A1 |]. clear H1 A1.
  destruct (cf_max_connections (r_cfg st1) <=? slab_len (r_conns st1)); [inv_ok; apply PS_refl |].
  unfold dbg_no_dups in H. break_all H; inv_ok.
  all: match goal with E : reschedule _ _ _ = Ok _ |- _ => apply reschedule_dl in E end.
  all: apply PS_eq; match goal with E : r_datalog _ = _ |- _ => exact E end.
Qed.

(* ------------------------------------------------------------------ the packet handlers *)
Lemma subscribe_filters_PS id subid : forall fs st fl codes st' fl' codes',
  subscribe_filters st id fs subid fl codes = Ok (st', fl', codes') -> PS st st'.
Proof.
  induction fs as [|[path qos] r IH]; intros st fl codes st' fl' codes' H; cbn [subscribe_filters] in H.
  - inv_ok. apply PS_refl.
  - destruct (negb (validate_subscription path)); [inv_ok; apply PS_refl|].
    destruct (match extract_group path with Some (g, p) => (Some g, p) | None => (None, path) end) as [grp filter].
    destruct (match subid with Some 0 => true | _ => false end); [inv_ok; apply PS_refl|].
    apply bind_ok in H as ([[st1 idx] cu] & H1 & H). apply bind_ok in H as (st2 & H2 & H).
    eapply PS_trans; [eapply next_native_offset_PS; eassumption|].
    eapply PS_trans; [apply PS_eq; eapply prepare_filter_dl; eassumption|eapply IH; eassumption].
Qed.

Lemma unsubscribe_filters_PS id client : forall fs st reasons st' reasons',
  unsubscribe_filters st id client fs reasons = Ok (st', reasons') -> PS st st'.
Proof.
  induction fs as [| f r IH]; intros st reasons st' reasons' H; cbn [unsubscribe_filters] in H.
  - inv_ok. apply PS_refl.
  - cbv zeta in H.
    destruct (negb _) in H; [now apply IH in H |].
    match type of H with context [get_conn ?s id] => remember s as st1 eqn:Est1 end.
    assert (K1 : r_datalog st1 = r_datalog st) by (subst st1; destruct (al_get str_eqb f (r_submap st)); reflexivity).
    clear Est1.
    apply bind_ok in H as (conn & H1 & H).
    destruct (negb _) in H; [apply IH in H; eapply PS_trans; [apply PS_eq; exact K1 | exact H] |].
    apply bind_ok in H as (st4 & H4 & H). apply bind_ok in H as (st5 & H5 & H).
    apply IH in H. apply untrack_dl in H4. apply remove_waiters_PS in H5.
    eapply PS_trans; [| exact H].
    eapply PS_trans; [| apply (PS_eq st5); reflexivity].
    eapply PS_trans; [| exact H5]. apply PS_eq. rewrite H4. rsimpl. exact K1.
Qed.

Lemma handle_packet_PS st id client pk fl st' fl' brk : handle_packet st id client pk fl = Ok (st', fl', brk) -> PS st st'.
Proof.
  intros H. destruct pk; cbn [handle_packet] in H.
  - destruct (p_qos p =? 1).
    + apply bind_ok in H as (st1 & H1 & H). apply bind_ok in H as ([st2 res] & H2 & H).
      eapply PS_trans; [apply PS_eq; eapply commit_ack_dl; eassumption|].
      destruct res; inv_ok; eapply append_to_commitlog_PS; eassumption.
    + destruct (p_qos p =? 2).
      * apply bind_ok in H as (l & _ & H). inv_ok. now apply PS_eq.
      * apply bind_ok in H as ([st2 res] & H2 & H). destruct res; inv_ok; eapply append_to_commitlog_PS; eassumption.
  - apply bind_ok in H as ([[st1 fl1] codes] & H1 & H). apply bind_ok in H as (st2 & H2 & H). inv_ok.
    eapply PS_trans; [eapply subscribe_filters_PS; eassumption|apply PS_eq; eapply commit_ack_dl; eassumption].
  - apply bind_ok in H as (c & _ & H). apply bind_ok in H as ([st1 reasons] & H1 & H).
    apply bind_ok in H as (st2 & H2 & H). inv_ok.
    eapply PS_trans; [eapply unsubscribe_filters_PS; eassumption|apply PS_eq; eapply commit_ack_dl; eassumption].
  - apply bind_ok in H as (o & Ho & H). destruct (register_ack o pkid) as [o' ok]. destruct ok.
    + apply bind_ok in H as (st2 & H2 & H). inv_ok. apply PS_eq. now rewrite (reschedule_dl _ _ _ _ H2).
    + inv_ok. now apply PS_eq.
  - apply bind_ok in H as (o & Ho & H). destruct (register_ack o pkid) as [o' ok]. destruct ok.
    + apply bind_ok in H as (l & _ & H). apply bind_ok in H as (st2 & H2 & H). apply bind_ok in H as (st3 & H3 & H). inv_ok.
      apply PS_eq. now rewrite (reschedule_dl _ _ _ _ H3), (commit_ack_dl _ _ _ _ H2).
    + inv_ok. now apply PS_eq.
  - apply bind_ok in H as (l & _ & H). destruct (a_recorded l) as [|[p0 pr0] rec].
    + inv_ok. now apply PS_eq.
    + apply bind_ok in H as ([st2 res] & H2 & H).
      eapply PS_trans; [|eapply PS_trans; [eapply append_to_commitlog_PS; exact H2|]]; [now apply PS_eq|].
      destruct res.
      * apply bind_ok in H as (st3 & H3 & H). inv_ok. apply PS_eq. eapply reschedule_dl; eassumption.
      * inv_ok. apply PS_refl.
  - apply bind_ok in H as (o & Ho & H). destruct (register_pubcomp o pkid) as [o' ok]. destruct ok; inv_ok; now apply PS_eq.
  - apply bind_ok in H as (st1 & H1 & H). inv_ok. apply PS_eq. eapply commit_ack_dl; eassumption.
  - inv_ok. now apply PS_eq.
  - inv_ok. apply PS_refl.
Qed.

Lemma handle_packets_PS id client : forall pks st fl st' fl',
  handle_packets st id client pks fl = Ok (st', fl') -> PS st st'.
Proof.
  induction pks as [|pk r IH]; intros st fl st' fl' H; cbn [handle_packets] in H.
  - inv_ok. apply PS_refl.
  - apply bind_ok in H as ([[st1 fl1] brk] & H1 & H).
    eapply PS_trans; [eapply handle_packet_PS; eassumption|]. destruct brk; [inv_ok; apply PS_refl|eapply IH; eassumption].
Qed.

Lemma handle_device_payload_PS st id st' : handle_device_payload st id = Ok st' -> PS st st'.
Proof.
  unfold handle_device_payload. intros H.
  destruct (slab_get (r_ibufs st) id) as [inc|]; [|inv_ok; apply PS_refl].
  apply bind_ok in H as (b & _ & H). apply bind_ok in H as ([st1 fl] & H1 & H).
  apply bind_ok in H as (st2 & H2 & H). apply bind_ok in H as (st3 & H3 & H).
  eapply PS_trans; [|eapply PS_trans; [eapply handle_packets_PS; exact H1|]]; [now apply PS_eq|].
  eapply PS_trans; [apply PS_eq; destruct (f_force_ack fl); [eapply reschedule_dl; eassumption|now inv_ok]|].
  eapply PS_trans; [apply PS_eq; destruct (f_new_data fl); [eapply drain_notifications_dl; eassumption|now inv_ok]|].
  destruct (f_disconnect fl); [|inv_ok; apply PS_refl]. eapply handle_disconnection_PS; eassumption.
Qed.

Lemma handle_last_will_PS st client st' : handle_last_will st client = Ok st' -> PS st st'.
Proof.
  unfold handle_last_will. intros H.
  destruct (al_get str_eqb client (r_wills st)) as [w|]; [|inv_ok; apply PS_refl].
  destruct (negb (utf8_valid _)); [inv_ok; now apply PS_eq|].
  match type of H with (if ?b then _ else _) = _ => destruct b end; [inv_ok; now apply PS_eq|].
  apply bind_ok in H as ([st3 idxs] & H3 & H). apply bind_ok in H as (st4 & H4 & H).
  eapply PS_trans; [|eapply PS_trans; [eapply dl_matches_PS; exact H3|]].
  - eapply PS_trans; [|apply retain_update_PS]. now apply PS_eq.
  - eapply PS_trans; [eapply append_all_PS; eassumption|apply PS_eq; eapply drain_notifications_dl; eassumption].
Qed.

(* ------------------------------------------------------------------ park: the one place a waiter is added *)
Lemma park_parkinv st id rq st' d :
  ParkInv st -> nget (r_datalog st) (dr_idx rq) = Some d ->
  (dr_group rq = None -> snd (dr_cursor rq) = end_of (d_log d)) ->
  park st id rq = Ok st' -> ParkInv st'.
Proof.
  intros P Hd Hend H. unfold park in H. apply bind_ok in H as (d0 & Hd0 & H). apply native_get_Some in Hd0.
  unfold nget in Hd. rewrite Hd0 in Hd. inversion Hd; subst d0. inv_ok.
  intros i d2 H2. unfold nget in H2. cbn [r_datalog set_r_datalog set_dl_native dl_native] in H2.
  apply slab_get_put_inv in H2. destruct H2 as [[-> ->] | [_ H2]].
  - cbn [set_d_waiters d_waiters d_log]. apply Forall_app. split; [exact (P _ _ Hd0) |].
    constructor; [| constructor]. split; [reflexivity | exact Hend].
  - exact (P _ _ H2).
Qed.

(** a sweep that ends in FilterCaughtup leaves the cursor at the end of the log *)
Lemma fdd_caughtup_end st id rq st' rq' :
  CInv st -> Bounded st -> 1 <= cf_max_outgoing (r_cfg st) -> RqOk (r_datalog st) rq ->
  forward_device_data st id rq = Ok (st', rq', FilterCaughtup) ->
  dr_idx rq' = dr_idx rq /\
  exists d, nget (r_datalog st) (dr_idx rq) = Some d /\
            (dr_group rq' = None -> snd (dr_cursor rq') = end_of (d_log d)).
Proof.
  intros HI HB Hmax [(d & Hd & Hiss & Hle) _] H.
  destruct (li_wf _ (proj1 HI) _ _ Hd) as [all W]. pose proof (wf_end_of pubdata_size _ _ W) as Hall.
  assert (F : dr_idx rq' = dr_idx rq /\ dr_group rq' = dr_group rq).
  { assert (GO : exists o, get_obuf st id = Ok o).
    { pose proof H as H'. unfold forward_device_data in H'. destruct (get_obuf st id); [eauto | discriminate | discriminate]. }
    destruct GO as [o Go].
    pose proof (forward_cases _ _ _ _ _ _ _ H Go) as C. cbv zeta in C.
    destruct C as [(C & _) | (sel & d0 & pos & fl & _ & _ & _ & _ & _ & E1 & _ & E2 & _)]; [discriminate | auto]. }
  destruct F as [F1 F2]. split; [exact F1 |]. exists d. split; [exact Hd |]. intros Hg. rewrite F2 in Hg.
  assert (Hun : unshared st rq) by (unfold unshared; now rewrite Hg).
  rewrite Hall in Hle.
  destruct (sweep_exact _ _ _ _ _ _ _ _ HI HB Hd W Hiss Hle Hun H) as (o & Go & _ & _ & _ & [(C & _) | (_ & _ & rs & ns & tail & S)]);
    [discriminate |].
  cbv zeta in S. destruct S as (_ & _ & Hrs & _ & _ & _ & _ & _ & _ & Hsnd & Hcu & _).
  rewrite Hsnd, Hall. destruct (Hcu eq_refl) as [E | E]; [exact E |].
  (* slots = 0 is excluded: QoS 0 reads max_outgoing >= 1, QoS > 0 with no free slot is InflightFull *)
  exfalso. unfold sweep_slots in E. destruct (dr_qos rq =? 0) eqn:Q; [lia |].
  rewrite fdd_alt_eq in H. unfold fdd_alt in H. unfold get_obuf in H. rewrite Go in H. cbn [bind] in H.
  destruct (slab_get (r_conns st) id); [| discriminate]. cbn [bind] in H. cbv zeta in H.
  rewrite Hg in H. rewrite Q in H. cbn [negb] in H. unfold free_slots in H.
  destruct (lenN (o_inflight o) <=? MAX_INFLIGHT); [| discriminate]. cbn [bind] in H.
  replace (MAX_INFLIGHT - lenN (o_inflight o) =? 0) with true in H by lia. cbn [andb] in H. discriminate.
Qed.

(* ------------------------------------------------------------------ consume *)
Lemma consume_loop_park id : forall fuel st requests skipped st',
  CInv st -> Bounded st -> 1 <= cf_max_outgoing (r_cfg st) -> ParkInv st ->
  Forall (RqOk (r_datalog st)) requests -> Forall (RqOk (r_datalog st)) skipped ->
  consume_loop fuel st id requests skipped = Ok st' -> ParkInv st'.
Proof.
  induction fuel as [|fuel IH]; cbn [consume_loop]; intros st requests skipped st' HI HB HM HP Hr Hs H.
  - unfold ParkInv. now rewrite (trackv_dl _ _ _ _ H).
  - destruct requests as [|rq rest].
    + apply bind_ok in H as (st1 & H1 & H). unfold ParkInv. rewrite (trackv_dl _ _ _ _ H).
      destruct skipped; [rewrite (pause_dl _ _ _ _ H1) | inv_ok]; exact HP.
    + inversion Hr as [|? ? Hrq Hrest]; subst.
      apply bind_ok in H as ([[st1 rq'] status] & H1 & H).
      destruct (fdd_cinv _ _ _ _ _ _ HI HB Hrq H1) as (HI1 & Hrq' & D1).
      assert (HB1 : Bounded st1) by (eapply bounded_eq; eassumption).
      assert (HP1 : ParkInv st1) by (unfold ParkInv; now rewrite D1).
      assert (HM1 : 1 <= cf_max_outgoing (r_cfg st1)).
      { replace (r_cfg st1) with (r_cfg st); [exact HM |]. symmetry.
        pose proof (fdd_cinv _ _ _ _ _ _ HI HB Hrq H1) as _. clear - H1.
        rewrite fdd_alt_eq in H1. unfold fdd_alt, fdd_retained, fdd_push, read_retained, update_next_client, push_out, link_get in H1.
        break_all H1; inv_ok; reflexivity. }
      rewrite <- D1 in Hrest, Hs.
      destruct status.
      * apply bind_ok in H as (st2 & H2 & H). unfold ParkInv. now rewrite (trackv_dl _ _ _ _ H), (pause_dl _ _ _ _ H2).
      * apply bind_ok in H as (st2 & H2 & H). unfold ParkInv. now rewrite (trackv_dl _ _ _ _ H), (pause_dl _ _ _ _ H2).
      * apply bind_ok in H as (st2 & H2 & H). pose proof (park_same _ _ _ _ H2) as S2.
        pose proof (park_cinv _ _ _ _ HI1 Hrq' H2) as HI2.
        destruct (fdd_caughtup_end _ _ _ _ _ HI HB HM Hrq H1) as (EI & d & Hd & Hend).
        assert (HP2 : ParkInv st2).
        { apply (park_parkinv st1 id rq' st2 d HP1); [rewrite EI, D1; exact Hd | exact Hend | exact H2]. }
        assert (Hmono : forall l, Forall (RqOk (r_datalog st1)) l -> Forall (RqOk (r_datalog st2)) l).
        { intros l. apply rqsok_mono; [exact (proj1 HI1)|now apply dl_le_same_logs]. }
        assert (HM2 : 1 <= cf_max_outgoing (r_cfg st2)).
        { replace (r_cfg st2) with (r_cfg st1); [exact HM1 |]. unfold park in H2. break_all H2; inv_ok; reflexivity. }
        exact (IH _ _ _ _ HI2 (bounded_same _ _ S2 HB1) HM2 HP2 (Hmono _ Hrest) (Hmono _ Hs) H).
      * exact (IH _ _ _ _ HI1 HB1 HM1 HP1 (proj2 (Forall_app _ _ _) (conj Hrest (Forall_cons _ Hrq' (Forall_nil _)))) Hs H).
      * exact (IH _ _ _ _ HI1 HB1 HM1 HP1 Hrest (proj2 (Forall_app _ _ _) (conj Hs (Forall_cons _ Hrq' (Forall_nil _)))) H).
Qed.

Lemma consume_park st st' b :
  CInv st -> Bounded st -> 1 <= cf_max_outgoing (r_cfg st) -> ParkInv st ->
  consume st = Ok (st', b) -> ParkInv st'.
Proof.
  unfold consume. intros HI HB HM HP H.
  destruct (r_ready st) as [|id rq]; [now inv_ok |].
  cbn [r_trackers set_r_ready] in H.
  destruct (slab_get (r_trackers st) id) as [t|] eqn:Et; [| now inv_ok].
  match type of H with context [slab_get (r_obufs ?s) id] => set (st2 := s) in * end.
  assert (HI2 : CInv st2).
  { unfold st2. apply (cinv_view (put_tracker (set_r_ready st rq) id (set_tr_reqs t []))); [reflexivity|].
    apply (cinv_put_tracker (set_r_ready st rq)).
    - eapply cinv_view; [|exact HI]. reflexivity.
    - constructor. }
  assert (D2 : r_datalog st2 = r_datalog st) by reflexivity.
  destruct (slab_get (r_obufs st2) id) as [o|]; [| now inv_ok].
  apply bind_ok in H as (st3 & H3 & H). apply bind_ok in H as (u & _ & H). apply bind_ok in H as (st4 & H4 & H). inv_ok.
  pose proof (ack_device_data_cview _ _ _ _ H3) as V3. pose proof (cview_dl _ _ V3) as D3.
  assert (HI3 : CInv st3) by (eapply cinv_view; eassumption).
  eapply consume_loop_park; [exact HI3 | | | | | constructor | exact H4].
  - eapply bounded_eq; [|exact HB]. now rewrite D3.
  - replace (r_cfg st3) with (r_cfg st); [exact HM |]. unfold cview in V3. inversion V3. congruence.
  - unfold ParkInv. now rewrite D3, D2.
  - rewrite D3, D2. eapply cinv_trk; eassumption.
Qed.

(* ------------------------------------------------------------------ one step *)
Theorem step_park st o st' out :
  CInv st -> Bounded st -> 1 <= cf_max_outgoing (r_cfg st) -> ParkInv st ->
  step st o = Ok (st', out) -> ParkInv st'.
Proof.
  intros HI HB HM HP H. destruct o; cbn [step] in H.
  - cbv zeta in H. apply bind_ok in H as (st2 & H2 & H). inv_ok.
    eapply ParkInv_PS; [| eapply handle_new_connection_PS; exact H2]. exact HP.
  - destruct (nthN (r_links st) link); inv_ok; exact HP.
  - apply bind_ok in H as (st1 & H1 & H). inv_ok. eapply ParkInv_PS; [exact HP | eapply handle_device_payload_PS; eauto].
  - apply bind_ok in H as ([st1 b] & H1 & H). inv_ok. eapply consume_park; eauto.
  - destruct (nthN (r_links st) link); inv_ok; exact HP.
  - destruct (slab_get (r_trackers st) id); [| inv_ok; exact HP].
    apply bind_ok in H as (st1 & H1 & H). inv_ok. unfold ParkInv. now rewrite (reschedule_dl _ _ _ _ H1).
  - apply bind_ok in H as (st1 & H1 & H). inv_ok. eapply ParkInv_PS; [exact HP | eapply handle_disconnection_PS; eauto].
  - apply bind_ok in H as (st1 & H1 & H). inv_ok. unfold ParkInv. now rewrite (retrieve_shadow_dl _ _ _ _ H1).
  - apply bind_ok in H as (st1 & H1 & H). inv_ok. eapply ParkInv_PS; [exact HP | eapply handle_last_will_PS; eauto].
  - inv_ok. exact HP.
Qed.

Theorem step_with_park st orc o st' out :
  CInv st -> Bounded st -> 1 <= cf_max_outgoing (r_cfg st) -> ParkInv st ->
  step_with st orc o = Ok (st', out) -> ParkInv st'.
Proof.
  intros HI HB HM HP H. unfold step_with in H. apply bind_ok in H as ([st1 out1] & H1 & H).
  destruct (r_oracle st1); [| discriminate]. inv_ok.
  eapply (step_park (set_r_oracle st orc)); [| | | | exact H1]; auto.
  eapply cinv_view; [| exact HI]. reflexivity.
Qed.

Lemma init_park cfg st : init cfg = Ok st -> ParkInv st.
Proof.
  unfold init. intros H. apply bind_ok in H as (dl & Hdl & H). inv_ok.
  destruct (init_datalog_logs _ _ Hdl) as (_ & Hw).
  intros i d Hd. cbn [r_datalog] in Hd. rewrite (Hw _ _ Hd). constructor.
Qed.
