(** C17 at the level of whole runs — the shared read itself ([forward_device_data]) and the
    consume loop: what the ghost records, and why the invariant and the order survive. *)
From Rumqtt Require Import Router.Shared Log.Spec Log.Proofs Log.WfFacts Router.ExactLog.
From Rumqtt Require Import Topic.Proofs Router.WindowFrame Router.Window Router.DataLogInv Router.DataLogStep
                           Router.ExactInv Router.ExactStep1 Router.ExactStep2 Router.ExactLogs Router.ExactStep3
                           Router.ExactThm Router.SharedRun Router.SharedRunInv Router.SharedRunStep.
From Rumqtt Require Import Router.Model Router.RunDefs.
From Coq Require Import ZifyBool ZifyN ZifyNat Sorted.

Definition SortedG (gf : list gev) : Prop := forall name, increasing (offs_of name gf).
Definition member_ok (e : gsnap) : Prop :=
  current_client (snd (fst (fst e))) = Some (snd (fst e)) /\ In (snd (fst e)) (g_clients (snd (fst (fst e)))).
Definition MemberOnly (ev : list gsnap) : Prop := Forall member_ok ev.

(* ------------------------------------------------------------------ list facts *)
Lemma skipn_length_app {A} (l x : list A) : skipn (length l) (l ++ x) = x.
Proof. induction l as [|a l IH]; cbn [length skipn app]; auto. Qed.

Lemma skipn_length_self {A} (l : list A) : skipn (length l) l = [].
Proof. induction l as [|a l IH]; cbn [length skipn]; auto. Qed.

Lemma log_offsets_app a b : log_offsets (a ++ b) = log_offsets a ++ log_offsets b.
Proof.
  induction a as [|n a IH]; cbn [app log_offsets]; [reflexivity|].
  destruct n as [[c|] p pr | | | |]; cbn [app]; now rewrite ?IH.
Qed.

Lemma log_offsets_replay qos sel ns : Forall2 (is_replay_fwd qos) sel ns -> log_offsets ns = [].
Proof. induction 1 as [|d n l l' (p' & pr' & -> & _) _ IH]; cbn [log_offsets]; auto. Qed.

Lemma log_offsets_live qos (from_log : list (pubdata * cursor)) ns :
  Forall2 (fun (e : pubdata * cursor) n => exists p' pr', n = NForward (Some (snd e)) p' pr' /\ same_msg qos (fst (fst e)) p') from_log ns ->
  log_offsets ns = map (fun e : pubdata * cursor => snd (snd e)) from_log.
Proof. induction 1 as [|e n l l' (p' & pr' & -> & _) _ IH]; cbn [log_offsets map]; [reflexivity|now rewrite IH]. Qed.

Lemma current_client_member g c : current_client g = Some c -> In c (g_clients g).
Proof. unfold current_client. apply nthN_In. Qed.

Lemma offs_forget_other name name0 g c l :
  name <> name0 -> offs_of name (map forget (map (fun off : N => (name0, g, c, off)) l)) = [].
Proof. intros Hn. rewrite offs_of_events. destruct (str_eqb_spec name name0); [contradiction|reflexivity]. Qed.

(* ------------------------------------------------------------------ forward_device_data *)
Lemma fdd_gi st id rq st' rq' cs gf :
  CInv st -> Bounded st -> GK st -> RqOk (r_datalog st) rq -> GI st gf -> SortedG gf ->
  forward_device_data st id rq = Ok (st', rq', cs) ->
  GK st' /\ GI st' (gf ++ map forget (fdd_ghost st id rq st')) /\
  SortedG (gf ++ map forget (fdd_ghost st id rq st')) /\ MemberOnly (fdd_ghost st id rq st').
Proof.
  intros HI HB HK Hrq HG HS H.
  assert (Ho : exists o, get_obuf st id = Ok o).
  { pose proof H as H'. unfold forward_device_data in H'. apply bind_ok in H' as (o & Ho & _). eauto. }
  destruct Ho as [o Ho]. pose proof (get_obuf_some _ _ _ Ho) as Hos.
  pose proof (fdd_dl _ _ _ _ _ _ H) as D.
  pose proof (forward_cases _ _ _ _ _ _ _ H Ho) as Hc. cbn zeta in Hc. unfold req_group in Hc.
  (* no event and no change of the groups *)
  assert (Hnil : fdd_ghost st id rq st' = [] -> r_groups st' = r_groups st ->
                 GK st' /\ GI st' (gf ++ map forget (fdd_ghost st id rq st')) /\
                 SortedG (gf ++ map forget (fdd_ghost st id rq st')) /\ MemberOnly (fdd_ghost st id rq st')).
  { intros -> G. cbn [map]. rewrite app_nil_r. unfold GK. rewrite G. split; [exact HK|].
    split; [eapply gi_same; eassumption|]. split; [exact HS|constructor]. }
  assert (Hsame : link_out st' (o_link o) = link_out st (o_link o) -> fdd_ghost st id rq st' = []).
  { intros E. unfold fdd_ghost. rewrite Hos, E, skipn_length_self. cbn [log_offsets map].
    destruct (dr_group rq); [|reflexivity]. destruct (al_get str_eqb s (r_groups st)); reflexivity. }
  destruct Hc as [(-> & -> & ->) | (sel & d & pos & from_log & Hsel & Hd & Hr & _ & _ & _ & _ & _ & Hrest)].
  { apply Hnil; [now apply Hsame|reflexivity]. }
  destruct (dr_group rq) as [name|] eqn:En.
  2:{ destruct Hrest as (_ & _ & _ & _ & ns & _ & _ & _ & Hm).
      apply Hnil; [unfold fdd_ghost; rewrite Hos, En; reflexivity|].
      destruct (srcs sel from_log); [destruct Hm as (_ & orc & ->); reflexivity|exact Hm]. }
  destruct (al_get str_eqb name (r_groups st)) as [g|] eqn:Eg.
  2:{ destruct Hrest as (_ & _ & _ & _ & ns & _ & _ & _ & Hm).
      apply Hnil; [unfold fdd_ghost; rewrite Hos, En, Eg; reflexivity|].
      destruct (srcs sel from_log); [destruct Hm as (_ & orc & ->); reflexivity|exact Hm]. }
  destruct (negb (ostr_eqb (Some (o_client o)) (current_client g))) eqn:Esk.
  { destruct Hrest as ((orc & ->) & _). apply Hnil; [now apply Hsame|reflexivity]. }
  apply negb_false_iff in Esk. apply ostr_eqb_some in Esk.
  destruct Hrest as (_ & _ & _ & _ & ns & Hout & _ & Hf & Hm).
  cbn [dr_cursor set_dr_cursor] in Hr.
  (* the events *)
  apply srcs_split in Hf as (ns1 & ns2 & -> & Hf1 & Hf2).
  assert (Eev : fdd_ghost st id rq st' =
                map (fun off => (name, g, o_client o, off)) (map (fun e : pubdata * cursor => snd (snd e)) from_log)).
  { unfold fdd_ghost. rewrite Hos, En, Eg. f_equal.
    change (link_out st' (o_link o)) with (RetainedReplay.out_of st' (o_link o)). rewrite Hout.
    change (RetainedReplay.out_of st (o_link o)) with (link_out st (o_link o)).
    rewrite skipn_length_app, !log_offsets_app, (log_offsets_replay _ _ _ Hf1), (log_offsets_live _ _ _ Hf2).
    cbn [app]. destruct cs; cbn [log_offsets]; now rewrite app_nil_r. }
  (* the log *)
  apply native_get_Some in Hd.
  pose proof (rq_glog _ _ _ _ Hrq En Hd) as Hgl.
  pose proof HI as [LI CI].
  destruct (grp_issued _ _ _ _ _ (ci_groups _ _ CI) Eg Hgl) as [Hiss Hcend].
  destruct (li_wf _ LI _ _ Hd) as [all W].
  pose proof (wf_end_of pubdata_size _ _ W) as Hall. pose proof (HB _ _ Hd) as Hb. pose proof B62_U64 as HU.
  pose proof (ci_cfg _ _ CI) as Hcfg. rewrite MAX_INFLIGHT_100 in Hr.
  match type of Hr with readv _ _ ?n = _ => assert (Hn : n < B62) end.
  { unfold B62 in *. destruct (g_strategy g); destruct (dr_qos rq =? 0); lia. }
  assert (Hb1 : 2 * lenN all < U64) by lia.
  match type of Hr with readv _ _ ?n = _ => assert (Hb2 : snd (g_cursor g) + n < U64) by (unfold B62 in *; lia) end.
  destruct (readv_ok_facts pubdata_size _ all _ _ _ _ W Hiss Hb1 Hb2 Hr)
    as (_ & _ & _ & Hoffs & _ & Hiend & Hsend & Hsnd & Hle & _).
  set (p := pos_of (d_log d) (g_cursor g)) in *.
  set (offs := map (fun e : pubdata * cursor => snd (snd e)) from_log) in *.
  assert (Hoffs' : offs = Nseq p (length from_log)) by exact Hoffs. clear Hoffs. rename Hoffs' into Hoffs.
  assert (Hlen : N.of_nat (length from_log) = lenN from_log) by reflexivity.
  assert (Hin : forall x, In x offs -> p <= x /\ x < p + lenN from_log).
  { intros x Hx. rewrite Hoffs in Hx. apply Nseq_In in Hx. lia. }
  (* old events of this key lie below p *)
  assert (Hold : forall c off, In (name, c, off) gf -> off < p).
  { intros c off He. unfold GI in HG. rewrite Forall_forall in HG. destruct (HG _ He) as (d1 & Hd1 & _ & Hg1).
    cbn [fst snd] in *. rewrite Hgl in Hd1. inversion Hd1; subst d1. now apply Hg1. }
  rewrite Eev. fold offs.
  (* sortedness *)
  assert (HS' : SortedG (gf ++ map forget (map (fun off => (name, g, o_client o, off)) offs))).
  { intros n. rewrite offs_of_app, offs_of_events. destruct (str_eqb_spec n name) as [-> | Hne].
    - apply StronglySorted_app; [apply HS|rewrite Hoffs; apply Nseq_sorted|].
      intros x y Hx Hy. apply offs_of_In in Hx as (c & Hx). apply Hold in Hx. apply Hin in Hy. lia.
    - rewrite app_nil_r. apply HS. }
  (* membership *)
  assert (HM : MemberOnly (map (fun off => (name, g, o_client o, off)) offs)).
  { apply Forall_forall. intros e He. apply in_map_iff in He as (off & <- & _). unfold member_ok. cbn [fst snd].
    split; [exact Esk|now apply current_client_member]. }
  (* the groups afterwards *)
  destruct (srcs sel from_log) as [|s0 sr] eqn:Esr.
  - destruct Hm as (_ & orc & ->).
    assert (from_log = []).
    { unfold srcs in Esr. apply app_eq_nil in Esr as [_ Esr]. now destruct from_log. }
    subst from_log. cbn [offs map app] in *. rewrite app_nil_r. split; [exact HK|]. split; [exact HG|]. split; [exact HS|constructor].
  - destruct Hm as (sta & stb & g1 & _ & Hgr).
    split; [unfold GK; rewrite Hgr; now apply (al_set_nodup str_eqb str_eqb_spec)|].
    split; [|split; [exact HS'|exact HM]].
    unfold GI. rewrite D, Hgr. apply Forall_app. split.
    + unfold GI in HG. rewrite Forall_forall in *. intros e He. destruct (HG _ He) as (d1 & Hd1 & Hend1 & Hg1).
      exists d1. split; [exact Hd1|]. split; [exact Hend1|]. intros g' Hg'.
      destruct (str_eqb_spec (fst (fst e)) name) as [E | Hne].
      * rewrite E in Hg'. rewrite (al_get_set_same str_eqb str_eqb_spec) in Hg'. inversion Hg'; subst g'.
        cbn [g_cursor set_g_cursor]. rewrite E, Hgl in Hd1. inversion Hd1; subst d1.
        unfold pos_of. rewrite Hsend, Hsnd. destruct e as [[n c] off]. cbn [fst snd] in *. subst n.
        specialize (Hold _ _ He). lia.
      * rewrite (RetainedBase.al_get_set_other str_eqb str_eqb_spec) in Hg' by exact Hne. now apply Hg1.
    + apply Forall_forall. intros e He. apply in_map_iff in He as (x & <- & Hx). apply in_map_iff in Hx as (off & <- & Hoff).
      cbn [forget]. exists d. cbn [fst snd]. apply Hin in Hoff. split; [exact Hgl|]. split; [lia|].
      intros g' Hg'. rewrite (al_get_set_same str_eqb str_eqb_spec) in Hg'. inversion Hg'; subst g'.
      cbn [g_cursor set_g_cursor]. unfold pos_of. rewrite Hsend, Hsnd. lia.
Qed.

(* ------------------------------------------------------------------ the consume loop *)
Lemma gi_nochange st st' gf :
  r_datalog st' = r_datalog st -> r_groups st' = r_groups st -> GK st -> GI st gf -> GK st' /\ GI st' gf.
Proof. intros D G HK HG. unfold GK. rewrite G. split; [exact HK|eapply gi_same; eassumption]. Qed.

Lemma MemberOnly_app a b : MemberOnly a -> MemberOnly b -> MemberOnly (a ++ b).
Proof. intros Ha Hb. apply Forall_app. auto. Qed.

Lemma consume_loop_gi id : forall fuel st requests skipped st' evs gf,
  CInv st -> Bounded st -> GK st ->
  Forall (RqOk (r_datalog st)) requests -> Forall (RqOk (r_datalog st)) skipped ->
  GI st gf -> SortedG gf ->
  consume_loop_g fuel st id requests skipped = Ok (st', evs) ->
  GK st' /\ GI st' (gf ++ map forget evs) /\ SortedG (gf ++ map forget evs) /\ MemberOnly evs.
Proof.
  induction fuel as [|fuel IH]; cbn [consume_loop_g]; intros st requests skipped st' evs gf HI HB HK Hr Hs HG HS H.
  - apply bind_ok in H as (s & H1 & H). inv_ok. cbn [map]. rewrite app_nil_r.
    destruct (gi_nochange st st' gf (trackv_dl _ _ _ _ H1) (trackv_groups _ _ _ _ H1) HK HG) as [HK' HG'].
    split; [exact HK'|]. split; [exact HG'|]. split; [exact HS|constructor].
  - destruct requests as [|rq rest].
    + apply bind_ok in H as (st1 & H1 & H). apply bind_ok in H as (s & H2 & H). inv_ok. cbn [map]. rewrite app_nil_r.
      assert (X1 : r_datalog st1 = r_datalog st /\ r_groups st1 = r_groups st).
      { destruct skipped; [|inv_ok; auto]. split; [eapply pause_dl; eassumption|eapply pause_groups; eassumption]. }
      destruct X1 as [D1 G1].
      destruct (gi_nochange st st' gf) as [HK' HG']; try assumption.
      * rewrite (trackv_dl _ _ _ _ H2). exact D1.
      * rewrite (trackv_groups _ _ _ _ H2). exact G1.
      * split; [exact HK'|]. split; [exact HG'|]. split; [exact HS|constructor].
    + inversion Hr as [|? ? Hrq Hrest]; subst.
      apply bind_ok in H as ([[st1 rq'] status] & H1 & H).
      destruct (fdd_cinv _ _ _ _ _ _ HI HB Hrq H1) as (HI1 & Hrq' & D1).
      assert (HB1 : Bounded st1) by (eapply bounded_eq; eassumption).
      destruct (fdd_gi _ _ _ _ _ _ gf HI HB HK Hrq HG HS H1) as (HK1 & HG1 & HS1 & HM1).
      set (ev := fdd_ghost st id rq st1) in *. clearbody ev.
      rewrite <- D1 in Hrest, Hs.
      destruct status.
      * apply bind_ok in H as (st2 & H2 & H). apply bind_ok in H as (s & H3 & H). inv_ok.
        destruct (gi_nochange st1 st' (gf ++ map forget evs)) as [HK' HG']; try assumption.
        -- now rewrite (trackv_dl _ _ _ _ H3), (pause_dl _ _ _ _ H2).
        -- now rewrite (trackv_groups _ _ _ _ H3), (pause_groups _ _ _ _ H2).
        -- auto.
      * apply bind_ok in H as (st2 & H2 & H). apply bind_ok in H as (s & H3 & H). inv_ok.
        destruct (gi_nochange st1 st' (gf ++ map forget evs)) as [HK' HG']; try assumption.
        -- now rewrite (trackv_dl _ _ _ _ H3), (pause_dl _ _ _ _ H2).
        -- now rewrite (trackv_groups _ _ _ _ H3), (pause_groups _ _ _ _ H2).
        -- auto.
      * apply bind_ok in H as (st2 & H2 & H). apply bind_ok in H as ([s evs2] & H3 & H). inv_ok.
        pose proof (park_same _ _ _ _ H2) as S2.
        pose proof (park_cinv _ _ _ _ HI1 Hrq' H2) as HI2.
        assert (Hmono : forall l, Forall (RqOk (r_datalog st1)) l -> Forall (RqOk (r_datalog st2)) l).
        { intros l. apply rqsok_mono; [exact (proj1 HI1)|now apply dl_le_same_logs]. }
        destruct (gi_gsub st1 st2 (gf ++ map forget ev) HI1 HK1 (dl_le_same_logs _ _ S2)
                    (gsub_eq _ _ (park_groups _ _ _ _ H2)) HG1) as [HK2 HG2].
        destruct (IH _ _ _ _ _ _ HI2 (bounded_same _ _ S2 HB1) HK2 (Hmono _ Hrest) (Hmono _ Hs) HG2 HS1 H3)
          as (HK3 & HG3 & HS3 & HM3).
        rewrite map_app, app_assoc. split; [exact HK3|]. split; [exact HG3|]. split; [exact HS3|now apply MemberOnly_app].
      * apply bind_ok in H as ([s evs2] & H3 & H). inv_ok.
        destruct (IH _ _ _ _ _ _ HI1 HB1 HK1 (proj2 (Forall_app _ _ _) (conj Hrest (Forall_cons _ Hrq' (Forall_nil _)))) Hs HG1 HS1 H3)
          as (HK3 & HG3 & HS3 & HM3).
        rewrite map_app, app_assoc. split; [exact HK3|]. split; [exact HG3|]. split; [exact HS3|now apply MemberOnly_app].
      * apply bind_ok in H as ([s evs2] & H3 & H). inv_ok.
        destruct (IH _ _ _ _ _ _ HI1 HB1 HK1 Hrest (proj2 (Forall_app _ _ _) (conj Hs (Forall_cons _ Hrq' (Forall_nil _)))) HG1 HS1 H3)
          as (HK3 & HG3 & HS3 & HM3).
        rewrite map_app, app_assoc. split; [exact HK3|]. split; [exact HG3|]. split; [exact HS3|now apply MemberOnly_app].
Qed.

Lemma consume_gi st st' b evs gf :
  CInv st -> Bounded st -> GK st -> GI st gf -> SortedG gf ->
  consume_g st = Ok (st', b, evs) ->
  GK st' /\ GI st' (gf ++ map forget evs) /\ SortedG (gf ++ map forget evs) /\ MemberOnly evs.
Proof.
  unfold consume_g. intros HI HB HK HG HS H.
  assert (Hnil : forall s, r_datalog s = r_datalog st -> r_groups s = r_groups st ->
                 GK s /\ GI s (gf ++ map forget []) /\ SortedG (gf ++ map forget []) /\ MemberOnly []).
  { intros s D G. cbn [map]. rewrite app_nil_r. destruct (gi_nochange st s gf D G HK HG) as [HK' HG'].
    split; [exact HK'|]. split; [exact HG'|]. split; [exact HS|constructor]. }
  destruct (r_ready st) as [|id rq]; [inv_ok; now apply Hnil|].
  cbn [r_trackers set_r_ready] in H.
  destruct (slab_get (r_trackers st) id) as [t|] eqn:Et; [|inv_ok; now apply Hnil].
  match type of H with context [slab_get (r_obufs ?s) id] => set (st2 := s) in * end.
  assert (HI2 : CInv st2).
  { unfold st2. apply (cinv_view (put_tracker (set_r_ready st rq) id (set_tr_reqs t []))); [reflexivity|].
    apply (cinv_put_tracker (set_r_ready st rq)).
    - eapply cinv_view; [|exact HI]. reflexivity.
    - constructor. }
  assert (D2 : r_datalog st2 = r_datalog st) by reflexivity.
  assert (G2 : r_groups st2 = r_groups st) by reflexivity.
  destruct (slab_get (r_obufs st2) id) as [o|]; [|inv_ok; now apply Hnil].
  apply bind_ok in H as (st3 & H3 & H). apply bind_ok in H as (u & _ & H). apply bind_ok in H as ([st4 evs4] & H4 & H). inv_ok.
  pose proof (ack_device_data_cview _ _ _ _ H3) as V3. pose proof (cview_dl _ _ V3) as D3. pose proof (cview_groups _ _ V3) as G3.
  assert (HI3 : CInv st3) by (eapply cinv_view; eassumption).
  destruct (gi_nochange st st3 gf) as [HK3 HG3]; try assumption; try congruence.
  eapply consume_loop_gi; [exact HI3| |exact HK3| |constructor|exact HG3|exact HS|exact H4].
  - eapply bounded_eq; [|exact HB]. congruence.
  - rewrite D3, D2. eapply cinv_trk; eassumption.
Qed.
