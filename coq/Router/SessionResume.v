(** C08: the session lemmas on reachable states, the disconnect/reconnect compositions, Example. *)
From Rumqtt Require Export Router.SessionInv.
From Rumqtt Require Import Router.RetainedReplay.
From Coq Require Import ZifyBool ZifyN ZifyNat.

Lemma takeover_SessInv st client st1 : takeover st client = Ok st1 -> SessInv st -> SessInv st1.
Proof.
  unfold takeover. destruct (al_get str_eqb client (r_cmap st)); intros H Hi; [|okinv; exact Hi].
  frames_s. auto.
Qed.

(** what an admitted Connect gets, in any state satisfying the session invariant (every reachable one) *)
Lemma connect_session st conn link st' st1 :
  SessInv st ->
  handle_new_connection st conn link = Ok st' ->
  validate_clientid (c_client conn) = true -> takeover st (c_client conn) = Ok st1 ->
  (cf_max_connections (r_cfg st1) <=? slab_len (r_conns st1)) = false ->
  let rs := resumed_session st1 conn in
  exists id conn' o' t',
    slab_get (r_conns st') id = Some conn' /\ slab_get (r_obufs st') id = Some o' /\
    get_tracker st' id = Ok t' /\
    slab_get (r_acks st') id =
      Some {| a_committed := AConnAck id (session_present st1 conn) :: map APubRel (o_pubrels o'); a_recorded := [] |} /\
    al_get str_eqb (c_client conn) (r_cmap st') = Some id /\
    c_client conn' = c_client conn /\ c_clean conn' = c_clean conn /\ o_client o' = c_client conn /\
    o_inflight o' = [] /\
    c_subs conn' = match rs with Some ss => ss_subs ss | None => c_subs conn end /\
    tr_reqs t' = match rs with Some ss => tr_reqs (ss_tracker ss) | None => [] end /\
    tr_id t' = match rs with Some ss => tr_id (ss_tracker ss) | None => c_client conn end /\
    o_pubrels o' = match rs with Some ss => ss_pubrels ss | None => [] end /\
    al_get str_eqb (c_client conn) (r_graveyard st') = None /\
    (forall c, c <> c_client conn -> al_get str_eqb c (r_graveyard st') = al_get str_eqb c (r_graveyard st1)).
Proof.
  intros Hi H Hv Ht Hcap. pose proof (takeover_SessInv _ _ _ Ht Hi) as (I1 & _ & I3 & I4 & _ & I6).
  eapply hnc_session; eauto.
Qed.

(** [c08_clean]: clean = true: session_present = false, no restored subscriptions, a tracker
    without requests, no pubrels — whatever the graveyard holds — and the entry is gone *)
Lemma connect_clean st conn link st' st1 :
  SessInv st ->
  handle_new_connection st conn link = Ok st' ->
  validate_clientid (c_client conn) = true -> takeover st (c_client conn) = Ok st1 ->
  (cf_max_connections (r_cfg st1) <=? slab_len (r_conns st1)) = false ->
  c_clean conn = true ->
  exists id conn' o' t',
    slab_get (r_conns st') id = Some conn' /\ slab_get (r_obufs st') id = Some o' /\
    get_tracker st' id = Ok t' /\
    slab_get (r_acks st') id = Some {| a_committed := [AConnAck id false]; a_recorded := [] |} /\
    al_get str_eqb (c_client conn) (r_cmap st') = Some id /\
    c_clean conn' = true /\ c_subs conn' = c_subs conn /\ tr_reqs t' = [] /\ tr_id t' = c_client conn /\
    o_pubrels o' = [] /\ o_inflight o' = [] /\
    al_get str_eqb (c_client conn) (r_graveyard st') = None.
Proof.
  intros Hi H Hv Ht Hcap Hcl.
  destruct (connect_session _ _ _ _ _ Hi H Hv Ht Hcap) as
    (id & conn' & o' & t' & G1 & G2 & G3 & G4 & G5 & G6 & G7 & G8 & G9 & G10 & G11 & G12 & G13 & G14 & _).
  unfold resumed_session, session_present in *. rewrite Hcl in *. cbn [negb andb] in *.
  rewrite G13 in G4. cbn [map] in G4.
  exists id, conn', o', t'. repeat split; auto; congruence.
Qed.

(** [c08_resume_state]: clean = false and a saved session: session_present = true, the saved
    subscriptions, the saved tracker requests with their saved cursors, the saved pubrels, and
    one PUBREL per saved pubrel committed after the ConnAck, in order *)
Lemma connect_resume st conn link st' st1 ss :
  SessInv st ->
  handle_new_connection st conn link = Ok st' ->
  validate_clientid (c_client conn) = true -> takeover st (c_client conn) = Ok st1 ->
  (cf_max_connections (r_cfg st1) <=? slab_len (r_conns st1)) = false ->
  c_clean conn = false -> al_get str_eqb (c_client conn) (r_graveyard st1) = Some (Some ss) ->
  exists id conn' o' t',
    slab_get (r_conns st') id = Some conn' /\ slab_get (r_obufs st') id = Some o' /\
    get_tracker st' id = Ok t' /\
    slab_get (r_acks st') id =
      Some {| a_committed := AConnAck id true :: map APubRel (ss_pubrels ss); a_recorded := [] |} /\
    al_get str_eqb (c_client conn) (r_cmap st') = Some id /\
    c_subs conn' = ss_subs ss /\ tr_reqs t' = tr_reqs (ss_tracker ss) /\ tr_id t' = tr_id (ss_tracker ss) /\
    o_pubrels o' = ss_pubrels ss /\ o_inflight o' = [] /\
    al_get str_eqb (c_client conn) (r_graveyard st') = None.
Proof.
  intros Hi H Hv Ht Hcap Hcl Hg.
  destruct (connect_session _ _ _ _ _ Hi H Hv Ht Hcap) as
    (id & conn' & o' & t' & G1 & G2 & G3 & G4 & G5 & G6 & G7 & G8 & G9 & G10 & G11 & G12 & G13 & G14 & _).
  unfold resumed_session, session_present in *. rewrite Hcl, Hg in *. cbn [negb andb] in *.
  rewrite G13 in G4. exists id, conn', o', t'. repeat split; auto.
Qed.

(** clean = false without a saved session (none, or the marker a clean connection leaves): no session *)
Lemma connect_no_session st conn link st' st1 :
  SessInv st ->
  handle_new_connection st conn link = Ok st' ->
  validate_clientid (c_client conn) = true -> takeover st (c_client conn) = Ok st1 ->
  (cf_max_connections (r_cfg st1) <=? slab_len (r_conns st1)) = false ->
  (al_get str_eqb (c_client conn) (r_graveyard st1) = None \/
   al_get str_eqb (c_client conn) (r_graveyard st1) = Some None) ->
  exists id conn' o' t',
    slab_get (r_conns st') id = Some conn' /\ slab_get (r_obufs st') id = Some o' /\
    get_tracker st' id = Ok t' /\
    slab_get (r_acks st') id = Some {| a_committed := [AConnAck id false]; a_recorded := [] |} /\
    c_subs conn' = c_subs conn /\ tr_reqs t' = [] /\ o_pubrels o' = [] /\ o_inflight o' = [].
Proof.
  intros Hi H Hv Ht Hcap Hg.
  destruct (connect_session _ _ _ _ _ Hi H Hv Ht Hcap) as
    (id & conn' & o' & t' & G1 & G2 & G3 & G4 & G5 & G6 & G7 & G8 & G9 & G10 & G11 & G12 & G13 & G14 & _).
  assert (Hrs : resumed_session st1 conn = None /\ session_present st1 conn = false).
  { unfold resumed_session, session_present. destruct (c_clean conn); [split; reflexivity|].
    destruct Hg as [-> | ->]; split; reflexivity. }
  destruct Hrs as [Hr1 Hr2]. rewrite Hr1, Hr2 in *. rewrite G13 in G4. cbn [map] in G4.
  exists id, conn', o', t'. repeat split; auto.
Qed.

(** [c08_clean], the two-step corollary: a clean Connect, then a Connect of the same client id
    with clean = false (taking over the clean connection, which is thereby disconnected):
    no session is reported and nothing is restored *)
Lemma clean_then_persistent st connA linkA stA connB linkB stB stA0 :
  SessInv st ->
  handle_new_connection st connA linkA = Ok stA ->
  validate_clientid (c_client connA) = true -> takeover st (c_client connA) = Ok stA0 ->
  (cf_max_connections (r_cfg stA0) <=? slab_len (r_conns stA0)) = false ->
  c_clean connA = true ->
  c_client connB = c_client connA ->
  handle_new_connection stA connB linkB = Ok stB ->
  forall stB0, takeover stA (c_client connB) = Ok stB0 ->
  (cf_max_connections (r_cfg stB0) <=? slab_len (r_conns stB0)) = false ->
  exists id conn' o' t',
    slab_get (r_conns stB) id = Some conn' /\ slab_get (r_obufs stB) id = Some o' /\
    get_tracker stB id = Ok t' /\
    slab_get (r_acks stB) id = Some {| a_committed := [AConnAck id false]; a_recorded := [] |} /\
    c_subs conn' = c_subs connB /\ tr_reqs t' = [] /\ o_pubrels o' = [] /\ o_inflight o' = [].
Proof.
  intros Hi HA HvA HtA HcapA HclA Hcl HB stB0 HtB HcapB.
  destruct (connect_clean _ _ _ _ _ Hi HA HvA HtA HcapA HclA) as
    (id & conn' & o' & t' & G1 & G2 & G3 & G4 & G5 & G6 & G7 & G8 & G9 & G10 & G11 & G12).
  assert (HiA : SessInv stA) by (frames_s; auto).
  eapply connect_no_session; eauto.
  - rewrite Hcl. exact HvA.
  - (* the takeover disconnected the clean connection: it left the marker [Some None] *)
    right. unfold takeover in HtB. rewrite Hcl, G5 in HtB.
    unfold get_tracker in G3. destruct (slab_get (r_trackers stA) id) as [t0|] eqn:Et; [|discriminate].
    injection G3 as ->.
    destruct (hdisc_saves _ _ _ _ _ _ _ HtB G1 G2 Et) as [Hs _].
    rewrite G9 in Hs. rewrite Hcl, Hs. unfold saved_session. now rewrite G6.
Qed.

(** [c08_resume_state], composed with the disconnect: a connection [id] with clean = false is
    disconnected ([handle_disconnection], any reason) and the client connects again with
    clean = false: session_present, the same subscriptions, the same pubrels (re-announced),
    and every request of the tracker or parked in a log's waiters, restarting at the cursor of
    the oldest unacknowledged inflight publish of its filter index if there is one *)
Lemma disconnect_then_resume st id reason st1 conn outg trk connB link st' :
  SessInv st ->
  handle_disconnection st id reason = Ok st1 ->
  slab_get (r_conns st) id = Some conn -> slab_get (r_obufs st) id = Some outg ->
  slab_get (r_trackers st) id = Some trk ->
  c_clean conn = false -> tr_id trk = c_client connB ->
  handle_new_connection st1 connB link = Ok st' ->
  validate_clientid (c_client connB) = true -> takeover st1 (c_client connB) = Ok st1 ->
  (cf_max_connections (r_cfg st1) <=? slab_len (r_conns st1)) = false ->
  c_clean connB = false ->
  exists id' conn' o' t',
    slab_get (r_conns st') id' = Some conn' /\ slab_get (r_obufs st') id' = Some o' /\
    get_tracker st' id' = Ok t' /\
    slab_get (r_acks st') id' =
      Some {| a_committed := AConnAck id' true :: map APubRel (o_pubrels outg); a_recorded := [] |} /\
    c_subs conn' = c_subs conn /\ o_pubrels o' = o_pubrels outg /\ o_inflight o' = [] /\
    tr_reqs t' = map (fun rq => match first_cursor (o_inflight outg) (dr_idx rq) with
                                | Some cu => set_dr_cursor rq cu
                                | None => rq
                                end)
                     (tr_reqs trk ++ snd (dl_clean (r_datalog st) id)).
Proof.
  intros Hi Hd Hc Ho Ht Hcl Hid HB Hv Htk Hcap HclB.
  assert (Hi1 : SessInv st1) by (frames_s; auto).
  destruct (hdisc_saves _ _ _ _ _ _ _ Hd Hc Ho Ht) as [Hs _].
  unfold saved_session in Hs. rewrite Hcl, Hid in Hs.
  destruct (connect_resume _ _ _ _ _ _ Hi1 HB Hv Htk Hcap HclB Hs) as
    (id' & conn' & o' & t' & G1 & G2 & G3 & G4 & G5 & G6 & G7 & G8 & G9 & G10 & G11).
  cbn [ss_pubrels ss_subs ss_tracker tr_reqs] in *.
  exists id', conn', o', t'. repeat split; auto.
  rewrite G7. apply map_ext. intros rq. unfold rewind. now rewrite retransmission_map_spec.
Qed.

(* ------------------------------------------------------------------ Example *)
Module C08Example.
Import C15Example.
(** "s" (clean = false) subscribes to a/b at QoS 1; three publishes are forwarded (pkids 1,2,3);
    it acknowledges the first, is disconnected; a fourth publish arrives while it is away;
    it connects again with clean = false *)
Definition ops : list op_in := map no
  [ OpConnect (creq [115] false None);
    OpPush 0 (PSubscribe 1 [([97;47;98], 1)] None);
    OpData 0; OpConsume; OpConsume;
    OpConnect (creq [112] true None);
    OpPush 1 (PPublish (mkpub [97;47;98] [49] 0 0 false) None);
    OpPush 1 (PPublish (mkpub [97;47;98] [50] 0 0 false) None);
    OpPush 1 (PPublish (mkpub [97;47;98] [51] 0 0 false) None);
    OpData 1;
    OpConsume; OpConsume; OpConsume;
    OpDrain 0;
    OpPush 0 (PPubAck 1);
    OpData 0;
    OpDisconnect 0;
    OpPush 1 (PPublish (mkpub [97;47;98] [52] 0 0 false) None);
    OpData 1;
    OpConnect (creq [115] false None);
    OpConsume; OpConsume; OpConsume;
    OpDrain 2 ].

(** the saved session: the request's cursor is rewound from the log tail (0,3) to (0,1), the
    offset of the oldest unacknowledged publish *)
Example saved_with_rewound_cursor :
  option_map (fun r => r_graveyard (fst r)) (match run_from cfg0 (firstn 17 ops) with Ok r => Some r | _ => None end) =
  Some [([115], Some {| ss_tracker := {| tr_id := [115];
                                         tr_reqs := [{| dr_filter := [97;47;98]; dr_idx := 0; dr_qos := 1;
                                                        dr_cursor := (0, 1); dr_read := 3;
                                                        dr_fwd_retained := false; dr_group := None |}];
                                         tr_status := Paused Busy |};
                        ss_subs := [[97;47;98]]; ss_pubrels := [] |})].
Proof. vm_compute. reflexivity. Qed.

(** after the resume: session_present = true; the two unacknowledged publishes again, in order,
    then the one accepted while away; the acknowledged one is not sent again *)
Example resumed_stream :
  option_map (fun o => last o OutUnit) (outs_of (run_from cfg0 ops)) =
  Some (OutDrain [NAck (AConnAck 0 true);
                  NForward (Some (0, 1)) (mkpub [97;47;98] [50] 1 1 false) None;
                  NForward (Some (0, 2)) (mkpub [97;47;98] [51] 1 2 false) None;
                  NForward (Some (0, 3)) (mkpub [97;47;98] [52] 1 3 false) None]).
Proof. vm_compute. reflexivity. Qed.

(** the hypotheses of [disconnect_then_resume] hold in the reachable state before the disconnect *)
Example resume_hypotheses :
  match run_from cfg0 (firstn 16 ops) with
  | Ok (st, _) =>
      match slab_get (r_conns st) 0, slab_get (r_obufs st) 0, slab_get (r_trackers st) 0 with
      | Some conn, Some outg, Some trk =>
          c_clean conn = false /\ tr_id trk = [115] /\
          o_inflight outg = [(2, 0, Some (0, 1)); (3, 0, Some (0, 2))] /\
          first_cursor (o_inflight outg) 0 = Some (0, 1) /\
          validate_clientid [115] = true
      | _, _, _ => False
      end
  | _ => False
  end.
Proof. vm_compute. repeat split; reflexivity. Qed.
End C08Example.
