(** C17, completeness clause — the theorems.

    - [group_park_inv_reachable] (pinned [c17_group_park_inv_reachable]): [GroupParkInv] holds in
      every state reachable without a K-C17-rewind ([no_rewind_b], the executable hypothesis of
      the run-level theorems of SharedRun*.v).  No hypothesis on re-created groups is needed:
      [MemInv] (GroupWakeMem*.v, all reachable states) excludes parked orphans.
    - [rewind_strands_messages] (vm_compute): the hypothesis is necessary — after the rewind of
      a disconnecting persistent member the remaining member stays parked BEYOND the group
      cursor in a quiescent state: two log entries are left unread until somebody publishes
      again.  Replayed on the real router (see the comment at the witness).
    - [complete_quiescent] ([c17_complete_quiescent]): at quiescence every registered group has
      read its log to the end.
    - [turn_holder_runnable] ([c17_turn_holder_runnable], the F33 shape): while a group's log has
      unread entries, the member whose turn it is holds its shared request in its tracker and
      is runnable, or waits for something its own client resolves. *)
From Rumqtt Require Import Router.NoPanicLog.
From Rumqtt Require Import Router.Model Router.InvLemmasBase Router.Inv Router.InvLemmasPrim Router.InvLemmasSched
  Router.InvLemmasRoute Router.NoPanic Router.NoPanicDevBase Router.NoPanicDevInv.
From Rumqtt Require Import Router.ExactLoc1 Router.ExactLoc2 Router.ExactLoc3.
From Rumqtt Require Import Log.Spec Log.Proofs Router.ExactLog.
From Rumqtt Require Import Router.WindowFrame Router.Window Router.WindowStep Router.DataLogInv Router.DataLogStep
  Router.ExactInv Router.ExactStep1 Router.ExactStep2 Router.ExactStep3 Router.ExactLogs Router.ExactThm
  Router.RetainedBase Router.RetainedReplay Router.Shared Router.SharedRun Router.SharedRunInv Router.SharedRunStep
  Router.SharedRunStep3 Router.SharedRunThm
  Router.Wake Router.WakeFrame Router.WakeConsume Router.WakePark Router.WakeThm Router.WakeCor Router.WakeExamples
  Router.GroupWake Router.GroupWakeStep Router.GroupWakeIdx
  Router.GroupWakeMem Router.GroupWakeMem2 Router.GroupWakeMem3 Router.GroupWakeMem4 Router.GroupWakeMem5 Router.GroupWakeMem6.
From Rumqtt Require Import Router.Model Router.RunDefs.
From Coq Require Import List Arith ZifyBool ZifyN ZifyNat.
Import ListNotations.

(* ------------------------------------------------------------------ no parked orphan *)
Lemma MemInv_NoOrphanW st : MemInv st -> NoOrphanW st.
Proof.
  intros HM i d [id rq] name Hd Hin Hn. cbn [snd] in Hn.
  assert (Hr : HasReq st id rq) by (right; left; exists i, d; auto).
  destruct (mi_req _ HM _ _ Hr) as [_ M]. destruct (M name Hn) as (c & _ & (l & Hl & _)).
  unfold mems in Hl. destruct (al_get str_eqb name (r_groups st)); [discriminate | discriminate].
Qed.

(* ------------------------------------------------------------------ one step of a run *)
Lemma step_with_gpark st orc o st' out :
  RInvE st -> op_wf o -> CInv st -> Bounded st -> 1 <= cf_max_outgoing (r_cfg st) ->
  ParkInv st -> MemInv st -> GroupParkInv st ->
  step_with st orc o = Ok (st', out) ->
  gh_rewind (step_ghost (set_r_oracle st orc) o) = false ->
  GroupParkInv st'.
Proof.
  intros HE Hwf HC HB HMx HP HM HG H Hnr. pose proof (step_with_ghost _ _ _ _ _ H) as Hg.
  destruct HE as [[HI Hn] HD].
  set (s0 := set_r_oracle st orc) in *.
  assert (HI0 : RInvC (r_cfg st) s0) by (apply RInv_set_oracle; exact HI).
  assert (HD0 : DevEI s0) by (eapply dfr_DevE; [exact HD | dfr_triv]).
  assert (HM0 : MemInv s0) by (eapply MemInv_mfr0; [exact HM | apply mfr_view; reflexivity]).
  eapply (step_gpark s0 o st' out); [| exact HB | exact HMx | exact HP | exact (mi_gk _ HM) | exact HG | exact Hg | exact Hnr |].
  - eapply cinv_view; [| exact HC]. reflexivity.
  - destruct o as [c | | | | | | | | |]; cbn [connect_ok]; try exact I.
    cbv zeta. intros st1 H1. left. apply MemInv_NoOrphanW.
    set (s1 := set_r_links s0 (r_links s0 ++ [{| lk_in := []; lk_out := [] |}])) in *.
    assert (HI1 : RInvC (r_cfg st) s1) by (apply RInv_links_app; [exact HI0 | constructor]).
    assert (HM1 : MemInv s1) by (eapply MemInv_mfr0; [exact HM0 | apply mfr_view; reflexivity]).
    unfold connect_pre in H1. destruct (al_get str_eqb (cr_client c) (r_cmap s1)) as [cid |]; [| inv_ok; exact HM1].
    pose proof (handle_disconnection_spec (r_cfg st) s1 cid None HI1 Hn) as W. rewrite H1 in W. cbn [wp] in W.
    eapply handle_disconnection_mem; [exact HI1 | exact (proj1 W) | exact HM1 | exact H1].
Qed.

(* ------------------------------------------------------------------ every run *)
Theorem gpark_run : forall ops st st',
  RInvE st -> CInv st -> 1 <= cf_max_outgoing (r_cfg st) -> ops_wf ops ->
  ParkInv st -> MemInv st -> GroupParkInv st ->
  run st ops = Ok st' -> Bounded st' -> no_rewind st ops ->
  GroupParkInv st'.
Proof.
  induction ops as [| [orc o] ops IH]; intros st st' HE HC HMx Hwf HP HM HG Hr HB Hnr; cbn [run] in *.
  - now inv_ok.
  - inversion Hwf as [| ? ? Hw1 Hw']; subst. cbn [snd] in Hw1.
    destruct (step_with st orc o) as [[st1 out] | e | t] eqn:Es; try discriminate.
    unfold no_rewind in Hnr. rewrite (ghosts_cons _ _ _ _ _ _ Es) in Hnr. inversion Hnr as [| ? ? Hnr1 Hnr2]; subst.
    pose proof (rinve_step _ _ _ _ _ HE Hw1 Es) as HE1.
    destruct (rinv_step _ _ _ _ _ (proj1 HE) Hw1 Es) as [_ Ecfg].
    destruct (step_with_LL _ _ _ _ _ Es (proj1 HC)) as [LG1 L1].
    destruct (run_LL _ _ _ Hr LG1) as [_ L2].
    pose proof (bounded_le _ _ LG1 L2 HB) as HB1.
    pose proof (bounded_le _ _ (proj1 HC) L1 HB1) as HB0.
    destruct (step_with_cinv _ _ _ _ _ HC HB0 Es) as [HC1 _].
    apply (IH st1 st' HE1 HC1); [rewrite Ecfg; exact HMx | exact Hw' | | | | exact Hr | exact HB | exact Hnr2].
    + exact (step_with_park _ _ _ _ _ HC HB0 HMx HP Es).
    + exact (step_with_mem _ _ _ _ _ HE Hw1 HM Es).
    + exact (step_with_gpark _ _ _ _ _ HE Hw1 HC HB0 HMx HP HM HG Es Hnr1).
Qed.

Lemma init_gpark cfg st : init cfg = Ok st -> GroupParkInv st.
Proof.
  unfold init. intros H. apply bind_ok in H as (dl & Hdl & H). inv_ok.
  destruct (init_datalog_logs _ _ Hdl) as (_ & Hw).
  intros i d Hd. cbn [r_datalog] in Hd. rewrite (Hw _ _ Hd). constructor.
Qed.

(** [GroupParkInv] in every state reachable without a rewind *)
Theorem group_park_inv_reachable cfg st0 ops st :
  cfg_ok cfg -> 1 <= cf_max_outgoing cfg < B62 -> init cfg = Ok st0 -> ops_wf ops ->
  run st0 ops = Ok st -> Bounded st -> no_rewind_b st0 ops = true ->
  forall name g i d id rq,
    al_get str_eqb name (r_groups st) = Some g ->
    nget (r_datalog st) i = Some d -> In (id, rq) (d_waiters d) -> dr_group rq = Some name ->
    pos_of (d_log d) (g_cursor g) = end_of (d_log d).
Proof.
  intros Hcfg [Hm1 Hm2] Hi Hwf Hr HB Hnr name g i d id rq Hg Hd Hin Hn.
  assert (Ec : r_cfg st0 = cfg) by (unfold init in Hi; apply bind_ok in Hi as (dl & _ & Hi); now inv_ok).
  assert (HG : GroupParkInv st).
  { eapply gpark_run; [eapply rinve_init; eauto | eapply init_cinv; eauto | now rewrite Ec | exact Hwf
                      | eapply init_park; eauto | eapply init_mem; eauto | eapply init_gpark; eauto
                      | exact Hr | exact HB | now apply no_rewind_b_spec]. }
  pose proof (HG _ _ Hd) as P. rewrite Forall_forall in P. exact (P _ Hin _ _ Hn Hg).
Qed.

(** for a cursor whose segment is still there this is the statement about the raw offset *)
Corollary group_park_offset cfg st0 ops st :
  cfg_ok cfg -> 1 <= cf_max_outgoing cfg < B62 -> init cfg = Ok st0 -> ops_wf ops ->
  run st0 ops = Ok st -> Bounded st -> no_rewind_b st0 ops = true ->
  forall name g i d id rq,
    al_get str_eqb name (r_groups st) = Some g ->
    nget (r_datalog st) i = Some d -> In (id, rq) (d_waiters d) -> dr_group rq = Some name ->
    stale (d_log d) (g_cursor g) = false -> snd (g_cursor g) = end_of (d_log d).
Proof.
  intros Hcfg Hm Hi Hwf Hr HB Hnr name g i d id rq Hg Hd Hin Hn Hs.
  rewrite <- (gpark_not_stale _ _ Hs). eapply group_park_inv_reachable; eauto.
Qed.

(* ------------------------------------------------------------------ where the request of a member is *)
Lemma cnt_pos f l : (1 <= cnt f l)%nat -> exists rq, In rq l /\ dr_filter rq = f.
Proof.
  unfold cnt. intros H. destruct (filter (fmatch f) l) as [| rq r] eqn:E; [cbn in H; lia |].
  assert (Hin : In rq (filter (fmatch f) l)) by (rewrite E; now left).
  apply filter_In in Hin as [Hin M]. unfold fmatch in M. destruct (str_eqb_spec (dr_filter rq) f); [eauto | discriminate].
Qed.

(** a member of a registered group is a live connection that holds exactly one request for
    "$share/<key>", a shared request of that group, in its tracker or parked on the log of the
    group key *)
Lemma member_request cfg st0 ops st :
  cfg_ok cfg -> init cfg = Ok st0 -> ops_wf ops -> run st0 ops = Ok st ->
  forall name c, gmem st name c ->
  exists id t, cli st id = Some c /\ slab_get (r_trackers st) id = Some t /\
    ((exists rq, In rq (tr_reqs t) /\ dr_filter rq = gpath name /\ dr_group rq = Some name) \/
     (exists i d rq, nget (r_datalog st) i = Some d /\ In (id, rq) (d_waiters d) /\
                     dr_filter rq = gpath name /\ dr_group rq = Some name)).
Proof.
  intros Hcfg Hi Hwf Hr name c Hg.
  pose proof (mem_reachable _ _ _ _ Hcfg Hi Hwf Hr) as HM.
  pose proof (rinv_reachable _ _ _ _ Hcfg Hi Hwf Hr) as [HI Hn].
  destruct (mi_sub _ HM _ _ Hg) as (K & id & subs & Hc & Hs & Hin).
  unfold subs_of in Hs. destruct (slab_get (r_conns st) id) as [conn |] eqn:Ec; [| discriminate].
  cbn [option_map] in Hs. inversion Hs; subst subs.
  destruct (RInv_live_all _ _ _ _ HI Ec) as (ib & o & a & t & _ & _ & _ & Gt).
  exists id, t. split; [exact Hc | split; [exact Gt |]].
  pose proof (request_location _ _ _ _ Hcfg Hi Hwf Hr id conn (gpath name) Ec) as L. rewrite Hin in L.
  unfold CNT, treqs in L. rewrite Gt, Hn, !cntw_nil in L.
  assert (Sh : forall rq, HasReq st id rq -> dr_filter rq = gpath name -> dr_group rq = Some name).
  { intros rq Hq Ef. destruct (mi_req _ HM _ _ Hq) as [S _]. unfold shape in S. now rewrite S, Ef. }
  destruct (Nat.eq_dec (cnt (gpath name) (tr_reqs t)) 0) as [Z | NZ].
  - right. destruct (cnti_pos (gpath name) id (items_of st)) as (i & d & rq & G & Hw & Hf); [lia |].
    assert (Gd : nget (r_datalog st) i = Some d) by (unfold nget, slab_get, items_of in *; now rewrite G).
    exists i, d, rq. split; [exact Gd | split; [exact Hw | split; [exact Hf |]]].
    apply Sh; [| exact Hf]. right. left. exists i, d. auto.
  - left. destruct (cnt_pos (gpath name) (tr_reqs t)) as (rq & Hq & Hf); [lia |].
    exists rq. split; [exact Hq | split; [exact Hf |]]. apply Sh; [| exact Hf]. left. unfold treqs. now rewrite Gt.
Qed.

(** a request parked on log [i] through group [name] reads the log of the group key *)
Lemma parked_glog st i d id rq name :
  CInv st -> ParkInv st -> nget (r_datalog st) i = Some d -> In (id, rq) (d_waiters d) -> dr_group rq = Some name ->
  glog (r_datalog st) name = Some d.
Proof.
  intros [_ CI] HP Hd Hin Hn.
  pose proof (HP _ _ Hd) as P. rewrite Forall_forall in P. destruct (P _ Hin) as [Ei _]. cbn [snd] in Ei.
  pose proof (ci_wait _ _ CI _ _ Hd) as Q. rewrite Forall_forall in Q. pose proof (Q _ Hin) as Rq. unfold WtOk in Rq. cbn [snd] in Rq.
  eapply rq_glog; [exact Rq | exact Hn |]. rewrite Ei. exact Hd.
Qed.

(* ------------------------------------------------------------------ completeness at quiescence *)
Theorem complete_quiescent cfg st0 ops st :
  cfg_ok cfg -> 1 <= cf_max_outgoing cfg < B62 -> init cfg = Ok st0 -> ops_wf ops ->
  run st0 ops = Ok st -> Bounded st -> no_rewind_b st0 ops = true ->
  quiescent st (owed_run st0 [] ops) ->
  forall name g, al_get str_eqb name (r_groups st) = Some g ->
    exists d, glog (r_datalog st) name = Some d /\ pos_of (d_log d) (g_cursor g) = end_of (d_log d).
Proof.
  intros Hcfg Hm Hi Hwf Hr HB Hnr Q name g Hg.
  pose proof (rinv_reachable _ _ _ _ Hcfg Hi Hwf Hr) as [HI Hn].
  destruct (wake_reachable _ _ _ _ Hcfg Hm Hi Hwf Hr HB) as [HW HP].
  assert (HC : CInv st).
  { destruct (run_cinv _ _ _ (init_cinv _ _ (proj2 Hm) Hi) Hr HB) as (HC & _). exact HC. }
  (* some member *)
  pose proof (ri_groups _ _ HI) as NE. rewrite Forall_forall in NE.
  pose proof (NE _ (DataLogInv.al_get_In _ _ _ Hg)) as Hne. cbn [snd] in Hne.
  destruct (g_clients g) as [| c l] eqn:Ecl; [congruence |].
  assert (Hgm : gmem st name c).
  { exists (c :: l). unfold mems. rewrite Hg. cbn [option_map]. rewrite Ecl. split; [reflexivity | now left]. }
  destruct (member_request _ _ _ _ Hcfg Hi Hwf Hr _ _ Hgm) as (id & t & Hc & Gt & [(rq & Hq & _) | (i & d & rq & Hd & Hw & Hf & Hgr)]).
  - exfalso. pose proof (quiescent_caughtup _ _ _ _ _ HI HW Q Gt) as ES.
    destruct (RInv_trk_live _ _ _ _ HI Gt) as [conn Hconn].
    destruct (RInv_live_all _ _ _ _ HI Hconn) as (_ & _ & a & _ & _ & _ & Ga & _).
    destruct (wakes_caughtup _ _ _ _ _ HW Gt Ga ES) as [ER _]. rewrite ER in Hq. destruct Hq.
  - exists d. split; [eapply parked_glog; eauto |].
    eapply group_park_inv_reachable; eauto.
Qed.

(* ------------------------------------------------------------------ the turn holder is runnable *)
Theorem turn_holder_runnable cfg st0 ops st :
  cfg_ok cfg -> 1 <= cf_max_outgoing cfg < B62 -> init cfg = Ok st0 -> ops_wf ops ->
  run st0 ops = Ok st -> Bounded st -> no_rewind_b st0 ops = true ->
  forall name g d c,
    al_get str_eqb name (r_groups st) = Some g -> glog (r_datalog st) name = Some d ->
    pos_of (d_log d) (g_cursor g) <> end_of (d_log d) ->
    current_client g = Some c ->
    exists id t o rq,
      cli st id = Some c /\ slab_get (r_trackers st) id = Some t /\ slab_get (r_obufs st) id = Some o /\
      In rq (tr_reqs t) /\ dr_filter rq = gpath name /\ dr_group rq = Some name /\
      ((tr_status t = Ready /\ In id (r_ready st)) \/
       (tr_status t = Paused InflightFull /\ o_inflight o <> []) \/
       (tr_status t = Paused Busy /\
        (In NUnschedule (WindowFrame.out_of st (o_link o)) \/ In (o_link o) (owed_run st0 [] ops)))).
Proof.
  intros Hcfg Hm Hi Hwf Hr HB Hnr name g d c Hg Hd Hne Hcur.
  pose proof (rinv_reachable _ _ _ _ Hcfg Hi Hwf Hr) as [HI Hn].
  destruct (wake_reachable _ _ _ _ Hcfg Hm Hi Hwf Hr HB) as [HW HP].
  assert (HC : CInv st).
  { destruct (run_cinv _ _ _ (init_cinv _ _ (proj2 Hm) Hi) Hr HB) as (HC & _). exact HC. }
  assert (Hgm : gmem st name c).
  { exists (g_clients g). unfold mems. rewrite Hg. split; [reflexivity | now apply current_client_member]. }
  destruct (member_request _ _ _ _ Hcfg Hi Hwf Hr _ _ Hgm) as (id & t & Hc & Gt & [(rq & Hq & Hf & Hgr) | (i & d' & rq & Hd' & Hw & Hf & Hgr)]).
  - destruct (RInv_trk_live _ _ _ _ HI Gt) as [conn Hconn].
    destruct (RInv_live_all _ _ _ _ HI Hconn) as (_ & o & a & _ & _ & Go & Ga & _).
    exists id, t, o, rq. repeat (split; [assumption |]).
    apply (wakes_pending _ _ _ _ _ _ HW Gt Ga Go). left. intros E. rewrite E in Hq. destruct Hq.
  - exfalso. apply Hne.
    pose proof (parked_glog _ _ _ _ _ _ HC HP Hd' Hw Hgr) as Hd2. rewrite Hd in Hd2. inversion Hd2; subst d'.
    eapply group_park_inv_reachable; eauto.
Qed.

(** ... and there always is a turn holder ([IdxInv]): the backlog of a registered group can be
    served without another publish *)
Theorem backlog_is_served cfg st0 ops st :
  cfg_ok cfg -> 1 <= cf_max_outgoing cfg < B62 -> init cfg = Ok st0 -> ops_wf ops ->
  run st0 ops = Ok st -> Bounded st -> no_rewind_b st0 ops = true ->
  forall name g d,
    al_get str_eqb name (r_groups st) = Some g -> glog (r_datalog st) name = Some d ->
    pos_of (d_log d) (g_cursor g) <> end_of (d_log d) ->
    exists c id t o rq,
      current_client g = Some c /\ In c (g_clients g) /\
      cli st id = Some c /\ slab_get (r_trackers st) id = Some t /\ slab_get (r_obufs st) id = Some o /\
      In rq (tr_reqs t) /\ dr_filter rq = gpath name /\ dr_group rq = Some name /\
      ((tr_status t = Ready /\ In id (r_ready st)) \/
       (tr_status t = Paused InflightFull /\ o_inflight o <> []) \/
       (tr_status t = Paused Busy /\
        (In NUnschedule (WindowFrame.out_of st (o_link o)) \/ In (o_link o) (owed_run st0 [] ops)))).
Proof.
  intros Hcfg Hm Hi Hwf Hr HB Hnr name g d Hg Hd Hne.
  assert (HR : reachable cfg st) by (exists st0, ops; auto).
  destruct (turn_holder_exists _ _ _ _ HR Hg) as (c & Hc & Hin).
  destruct (turn_holder_runnable _ _ _ _ Hcfg Hm Hi Hwf Hr HB Hnr _ _ _ _ Hg Hd Hne Hc) as (id & t & o & rq & H).
  exists c, id, t, o, rq. split; [exact Hc | split; [exact Hin | exact H]].
Qed.
