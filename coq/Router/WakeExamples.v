(** Non-trivial reachable witnesses for the wake-up discipline (vm_compute on literal op lists):
    a connection in each of the three pause cases with work pending, the ghost "link owes a
    Ready" in action, and a quiescent state in which the one data request of the subscription is
    parked at the end of a non-empty log. *)
From Coq Require Import List ZArith ZifyBool ZifyN ZifyNat.
From Rumqtt Require Import Log.Spec Router.Inv Router.NoPanic Router.NoPanicDevBase Router.NoPanicDevInv.
From Rumqtt Require Import Router.WindowFrame Router.Window Router.ExactInv Router.ExactExamples Router.WindowExamples.
From Rumqtt Require Import Router.Wake Router.WakePark Router.WakeThm Router.WakeCor.
From Rumqtt Require Import Router.Model Router.RunDefs.
Import ListNotations.

Definition wx_cfg : config :=
  {| cf_max_connections := 10; cf_max_outgoing := 200; cf_seg_size := 1024; cf_seg_count := 3;
     cf_init_filters := []; cf_strategy := RoundRobin; cf_debug_assertions := true |}.
Definition wx_conn (c : N) : rop :=
  OpConnect {| cr_client := [c]; cr_clean := true; cr_dynamic := false; cr_alias_max := 0; cr_will := None |}.
Definition wx_pub (q pk : N) : packet :=
  PPublish {| p_dup := false; p_qos := q; p_retain := false; p_topic := [116]; p_pkid := pk; p_payload := [pk] |} None.
Definition wx_plain (l : list rop) : list (list oracle * rop) := map (fun o => ([], o)) l.
Definition wx_many (q : N) (n : nat) : list rop := map (fun i => OpPush 1 (wx_pub q (N.of_nat i))) (seq 1 n).

(** state and ghost after [ops] from [init] *)
Definition wx_run (ops : list (list oracle * rop)) : R (rstate * list N) :=
  do st0 <- init wx_cfg; do st <- run st0 ops; Ok (st, owed_run st0 [] ops).

Definition op_wf_b (o : rop) : bool :=
  match o with OpPush _ (PSubscribe _ fs _) => forallb (fun fq : str * N => snd fq <=? 2) fs | _ => true end.
Lemma ops_wf_b ops : forallb (fun x : list oracle * rop => op_wf_b (snd x)) ops = true -> ops_wf ops.
Proof.
  intros H. rewrite forallb_forall in H. apply Forall_forall. intros [orc o] Hin. specialize (H _ Hin). cbn [snd] in *.
  destruct o; try exact I. destruct pk; try exact I. cbn [op_wf packet_wf op_wf_b] in *.
  rewrite forallb_forall in H. apply Forall_forall. intros fq Hfq. specialize (H _ Hfq). cbn beta in H. lia.
Qed.

(** everything the theorems ask of a run, and what they give *)
Lemma wx_run_inv ops st owed :
  wx_run ops = Ok (st, owed) -> forallb (fun x : list oracle * rop => op_wf_b (snd x)) ops = true -> bounded_b st = true ->
  exists st0, init wx_cfg = Ok st0 /\ run st0 ops = Ok st /\ ops_wf ops /\ Bounded st /\
              owed = owed_run st0 [] ops /\ reachable wx_cfg st /\ WakeInv st owed.
Proof.
  unfold wx_run. intros H Hw Hb. apply bind_ok in H as (st0 & H0 & H). apply bind_ok in H as (st1 & H1 & H). inv_ok.
  apply ops_wf_b in Hw. apply bounded_b_ok in Hb.
  exists st0. repeat (split; [first [assumption | reflexivity] |]). split; [exists st0, ops; auto |].
  eapply (wake_reachable wx_cfg); eauto.
  - split; vm_compute; congruence.
  - split; vm_compute; [congruence | reflexivity].
Qed.

Definition wx_st (ops : list (list oracle * rop)) : rstate :=
  match wx_run ops with Ok (s, _) => s | _ => dummy_state end.
Definition wx_owed (ops : list (list oracle * rop)) : list N :=
  match wx_run ops with Ok (_, w) => w | _ => [] end.

(* ------------------------------------------------------------------ Paused Busy, and the ghost *)
(** subscriber "s" (id 0, link 0) on "t" with QoS 0; publisher "p" sends 250 QoS 0 publishes;
    one sweep forwards 200 of them, the buffer is full: [Unschedule], Paused Busy, the request
    (50 entries behind) back in the tracker *)
Definition wx_busy_ops : list (list oracle * rop) :=
  wx_plain ([wx_conn 115; wx_conn 112; OpPush 0 (PSubscribe 1 [([116], 0)] None); OpData 0;
             OpConsume; OpConsume; OpDrain 0; OpDrain 1] ++ wx_many 0 250 ++ [OpData 1; OpConsume]).

Example wake_busy_witness :
  let st := wx_st wx_busy_ops in let owed := wx_owed wx_busy_ops in
  wx_run wx_busy_ops = Ok (st, owed) /\ reachable wx_cfg st /\ WakeInv st owed /\
  exists t o,
    slab_get (r_trackers st) 0 = Some t /\ slab_get (r_obufs st) 0 = Some o /\
    tr_status t = Paused Busy /\ lenN (tr_reqs t) = 1 /\ r_ready st = [] /\
    In NUnschedule (out_of st (o_link o)) /\ lenN (out_of st (o_link o)) = 201 /\ owed = [].
Proof.
  cbv zeta. assert (E : wx_run wx_busy_ops = Ok (wx_st wx_busy_ops, wx_owed wx_busy_ops)) by (vm_compute; reflexivity).
  destruct (wx_run_inv _ _ _ E) as (st0 & _ & _ & _ & _ & _ & HR & HW); [vm_compute; reflexivity | vm_compute; reflexivity |].
  split; [exact E |]. split; [exact HR |]. split; [exact HW |].
  eexists. eexists. split; [vm_compute; reflexivity |]. split; [vm_compute; reflexivity |].
  split; [reflexivity |]. split; [reflexivity |]. split; [vm_compute; reflexivity |].
  split; [apply (proj1 (has_unsched_In _)); vm_compute; reflexivity |]. split; vm_compute; reflexivity.
Qed.

(** the link drains its buffer: nothing is left in it, the tracker is still Paused Busy with
    work pending and nobody will schedule it -- but the link owes a Ready (the ghost);
    when the Ready arrives the connection is Ready and queued, and the ghost is cleared *)
Definition wx_owed_ops := wx_busy_ops ++ wx_plain [OpDrain 0].
Definition wx_ready_ops := wx_busy_ops ++ wx_plain [OpDrain 0; OpReady 0].

Example wake_owed_witness :
  let st := wx_st wx_owed_ops in let owed := wx_owed wx_owed_ops in
  let st' := wx_st wx_ready_ops in let owed' := wx_owed wx_ready_ops in
  wx_run wx_owed_ops = Ok (st, owed) /\ reachable wx_cfg st /\ WakeInv st owed /\
  wx_run wx_ready_ops = Ok (st', owed') /\ WakeInv st' owed' /\
  exists t o t',
    slab_get (r_trackers st) 0 = Some t /\ slab_get (r_obufs st) 0 = Some o /\
    tr_status t = Paused Busy /\ lenN (tr_reqs t) = 1 /\ r_ready st = [] /\
    out_of st (o_link o) = [] /\ owed = [o_link o] /\
    slab_get (r_trackers st') 0 = Some t' /\ tr_status t' = Ready /\ lenN (tr_reqs t') = 1 /\
    r_ready st' = [0] /\ owed' = [].
Proof.
  cbv zeta. assert (E : wx_run wx_owed_ops = Ok (wx_st wx_owed_ops, wx_owed wx_owed_ops)) by (vm_compute; reflexivity).
  destruct (wx_run_inv _ _ _ E) as (st0 & _ & _ & _ & _ & _ & HR & HW); [vm_compute; reflexivity | vm_compute; reflexivity |].
  assert (E' : wx_run wx_ready_ops = Ok (wx_st wx_ready_ops, wx_owed wx_ready_ops)) by (vm_compute; reflexivity).
  destruct (wx_run_inv _ _ _ E') as (st0' & _ & _ & _ & _ & _ & _ & HW'); [vm_compute; reflexivity | vm_compute; reflexivity |].
  split; [exact E |]. split; [exact HR |]. split; [exact HW |]. split; [exact E' |]. split; [exact HW' |].
  eexists. eexists. eexists. split; [vm_compute; reflexivity |]. split; [vm_compute; reflexivity |].
  split; [reflexivity |]. split; [reflexivity |]. split; [vm_compute; reflexivity |].
  split; [vm_compute; reflexivity |]. split; [vm_compute; reflexivity |].
  split; [vm_compute; reflexivity |]. split; [reflexivity |]. split; [reflexivity |]. split; vm_compute; reflexivity.
Qed.

(* ------------------------------------------------------------------ Paused InflightFull *)
(** QoS 1 subscriber, 101 publishes: 100 forwarded and unacknowledged, the window is full, the
    request (one entry behind) back in the tracker *)
Definition wx_full_ops : list (list oracle * rop) :=
  wx_plain ([wx_conn 115; wx_conn 112; OpPush 0 (PSubscribe 1 [([116], 1)] None); OpData 0;
             OpConsume; OpConsume; OpDrain 0] ++ wx_many 1 101 ++ [OpData 1; OpConsume; OpConsume; OpConsume; OpConsume]).

Example wake_inflightfull_witness :
  let st := wx_st wx_full_ops in let owed := wx_owed wx_full_ops in
  wx_run wx_full_ops = Ok (st, owed) /\ reachable wx_cfg st /\ WakeInv st owed /\
  exists t o,
    slab_get (r_trackers st) 0 = Some t /\ slab_get (r_obufs st) 0 = Some o /\
    tr_status t = Paused InflightFull /\ lenN (tr_reqs t) = 1 /\ r_ready st = [] /\
    lenN (o_inflight o) = 100 /\ has_unsched (out_of st (o_link o)) = false /\ owed = [].
Proof.
  cbv zeta. assert (E : wx_run wx_full_ops = Ok (wx_st wx_full_ops, wx_owed wx_full_ops)) by (vm_compute; reflexivity).
  destruct (wx_run_inv _ _ _ E) as (st0 & _ & _ & _ & _ & _ & HR & HW); [vm_compute; reflexivity | vm_compute; reflexivity |].
  split; [exact E |]. split; [exact HR |]. split; [exact HW |].
  eexists. eexists. split; [vm_compute; reflexivity |]. split; [vm_compute; reflexivity |].
  split; [reflexivity |]. split; [reflexivity |]. split; [vm_compute; reflexivity |].
  split; [reflexivity |]. split; vm_compute; reflexivity.
Qed.

(* ------------------------------------------------------------------ Paused Caughtup / quiescence *)
Definition status_ready (t : tracker) : bool := match tr_status t with Ready => true | _ => false end.
Definition quiescent_b (st : rstate) (owed : list N) : bool :=
  forallb (fun id => match slab_get (r_trackers st) id with Some t => negb (status_ready t) | None => true end) (r_ready st)
  && (match r_notif st with [] => true | _ => false end)
  && forallb (fun oo : option outgoing =>
                match oo with
                | Some o => (match o_inflight o with [] => true | _ => false end)
                            && negb (has_unsched (out_of st (o_link o))) && negb (set_mem N.eqb (o_link o) owed)
                | None => true
                end) (sl_items (r_obufs st)).

Lemma quiescent_b_ok st owed : quiescent_b st owed = true -> quiescent st owed.
Proof.
  unfold quiescent_b, quiescent. intros H. apply andb_prop in H as [H H3]. apply andb_prop in H as [H1 H2].
  rewrite forallb_forall in H1, H3. split; [| split].
  - intros id t Hin G E. specialize (H1 _ Hin). rewrite G in H1. unfold status_ready in H1. rewrite E in H1. discriminate.
  - destruct (r_notif st); [reflexivity | discriminate].
  - intros id o G. unfold slab_get in G. destruct (nthN (sl_items (r_obufs st)) id) as [[o0 |] |] eqn:E; try discriminate.
    inversion G; subst o0. apply Window.nthN_In in E. specialize (H3 _ E). cbn beta iota in H3.
    apply andb_prop in H3 as [H3 H6]. apply andb_prop in H3 as [H4 H5]. split; [| split].
    + destruct (o_inflight o); [reflexivity | discriminate].
    + intros X. apply has_unsched_In in X. rewrite X in H5. discriminate.
    + intros X. apply set_mem_In in X. rewrite X in H6. discriminate.
Qed.

(** the Busy history continued: drain, Ready, two more sweeps, drain.  All 250 publishes have
    been forwarded; both connections are Paused Caughtup with empty trackers and ack logs; the
    subscription's one request is parked with cursor (segment 1, offset 250) = the end of the
    log; the state is quiescent *)
Definition wx_quiet_ops : list (list oracle * rop) :=
  wx_busy_ops ++ wx_plain [OpDrain 0; OpReady 0; OpConsume; OpConsume; OpDrain 0; OpDrain 1].

Example wake_quiescent_witness :
  let st := wx_st wx_quiet_ops in let owed := wx_owed wx_quiet_ops in
  wx_run wx_quiet_ops = Ok (st, owed) /\ reachable wx_cfg st /\ WakeInv st owed /\ quiescent st owed /\
  exists c t a d rq,
    slab_get (r_conns st) 0 = Some c /\ c_subs c = [[116]] /\
    slab_get (r_trackers st) 0 = Some t /\ slab_get (r_acks st) 0 = Some a /\
    tr_status t = Paused Caughtup /\ tr_reqs t = [] /\ a_committed a = [] /\
    cnti [116] 0 (items_of st) = 1%nat /\
    nget (r_datalog st) 0 = Some d /\ d_waiters d = [(0, rq)] /\ dr_filter rq = [116] /\
    dr_cursor rq = (1, 250) /\ end_of (d_log d) = 250.
Proof.
  cbv zeta. assert (E : wx_run wx_quiet_ops = Ok (wx_st wx_quiet_ops, wx_owed wx_quiet_ops)) by (vm_compute; reflexivity).
  destruct (wx_run_inv _ _ _ E) as (st0 & _ & _ & _ & _ & _ & HR & HW); [vm_compute; reflexivity | vm_compute; reflexivity |].
  split; [exact E |]. split; [exact HR |]. split; [exact HW |].
  split; [apply quiescent_b_ok; vm_compute; reflexivity |].
  eexists. eexists. eexists. eexists. eexists.
  split; [vm_compute; reflexivity |]. split; [reflexivity |].
  split; [vm_compute; reflexivity |]. split; [vm_compute; reflexivity |].
  split; [reflexivity |]. split; [reflexivity |]. split; [reflexivity |].
  split; [vm_compute; reflexivity |].
  split; [vm_compute; reflexivity |]. split; [reflexivity |]. repeat split; vm_compute; reflexivity.
Qed.
