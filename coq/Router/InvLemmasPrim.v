(** RInv is preserved by the primitive state updates of the model. *)
From Rumqtt Require Import Router.Inv.
From Coq Require Import Arith ZifyBool ZifyN ZifyNat.

Ltac rsimp :=
  unfold lives, nlen, put_tracker, put_conn, put_obuf, put_acks, link_put in *;
  cbn [r_cfg r_graveyard r_conns r_cmap r_submap r_ibufs r_obufs r_datalog r_acks r_trackers
       r_ready r_notif r_groups r_wills r_links r_oracle
       set_r_cfg set_r_graveyard set_r_conns set_r_cmap set_r_submap set_r_ibufs set_r_obufs
       set_r_datalog set_r_acks set_r_trackers set_r_ready set_r_notif set_r_groups set_r_wills
       set_r_links set_r_oracle] in *.

Ltac put_cases H Hg :=
  let Hne := fresh "Hne" in let X := fresh "X" in
  pose proof (get_put_inv _ _ _ _ _ _ Hg H) as X; clear H;
  destruct X as [[-> ->] | [Hne H]].

Lemma RInv_put_tracker cfg st id t t' :
  RInvC cfg st -> slab_get (r_trackers st) id = Some t -> tr_id t' = tr_id t ->
  Forall (req_ok (nlen st)) (tr_reqs t') -> RInvC cfg (put_tracker st id t').
Proof.
  intros [] Hg Hid Hr. constructor; rsimp; auto.
  - eapply aligned_put_r; eauto.
  - intros k c t0 Hc Ht. put_cases Ht Hg; [rewrite Hid|]; eauto.
  - intros k t0 Ht. put_cases Ht Hg; eauto.
Qed.

Lemma RInv_put_conn cfg st id c c' :
  RInvC cfg st -> slab_get (r_conns st) id = Some c -> c_client c' = c_client c ->
  RInvC cfg (put_conn st id c').
Proof.
  intros [] Hg Hid. constructor; rsimp; rewrite ?(shape_put _ _ _ _ Hg); auto.
  - eapply slab_wf_put; eauto.
  - eapply aligned_put_l; eauto.
  - eapply aligned_put_l; eauto.
  - eapply aligned_put_l; eauto.
  - eapply aligned_put_l; eauto.
  - now rewrite (slab_len_put _ _ _ _ Hg).
  - intros k c0 Hc. put_cases Hc Hg; [rewrite Hid|]; eauto.
  - intros k c0 i Hc Hi. put_cases Hc Hg; [rewrite Hid|]; eauto.
  - intros k c0 i Hc Hi. put_cases Hc Hg; [rewrite Hid|]; eauto.
  - intros k c0 i Hc Hi. put_cases Hc Hg; [rewrite Hid|]; eauto.
Qed.

Lemma RInv_put_obuf cfg st id o o' :
  RInvC cfg st -> slab_get (r_obufs st) id = Some o -> o_client o' = o_client o ->
  o_link o' = o_link o -> lenN (o_inflight o') <= MAX_INFLIGHT ->
  RInvC cfg (put_obuf st id o').
Proof.
  intros [] Hg Hid Hl Hi. constructor; rsimp; auto.
  - eapply aligned_put_r; eauto.
  - intros k c o0 Hc Ho. put_cases Ho Hg; [rewrite Hid|]; eauto.
  - intros k o0 Ho. put_cases Ho Hg; [rewrite Hl; split; [apply (ri_obuf _ _ Hg)|exact Hi]|]; eauto.
Qed.

Lemma RInv_put_acks cfg st id a a' :
  RInvC cfg st -> slab_get (r_acks st) id = Some a -> RInvC cfg (put_acks st id a').
Proof.
  intros [] Hg. constructor; rsimp; auto.
  eapply aligned_put_r; eauto.
Qed.

Lemma RInv_link_put cfg st k b :
  RInvC cfg st -> Forall packet_wf (lk_in b) -> RInvC cfg (link_put st k b).
Proof.
  intros [] Hb. constructor; rsimp; rewrite ?lenN_setN; auto.
  apply Forall_setN; auto.
Qed.

Lemma RInv_set_ready cfg st v : RInvC cfg st -> RInvC cfg (set_r_ready st v).
Proof. intros []. constructor; rsimp; auto. Qed.
Lemma RInv_set_submap cfg st v : RInvC cfg st -> RInvC cfg (set_r_submap st v).
Proof. intros []. constructor; rsimp; auto. Qed.
Lemma RInv_set_wills cfg st v : RInvC cfg st -> RInvC cfg (set_r_wills st v).
Proof. intros []. constructor; rsimp; auto. Qed.
Lemma RInv_set_oracle cfg st v : RInvC cfg st -> RInvC cfg (set_r_oracle st v).
Proof. intros []. constructor; rsimp; auto. Qed.

Lemma RInv_set_notif cfg st v :
  RInvC cfg st -> Forall (wt_ok (lives st) (nlen st)) v -> RInvC cfg (set_r_notif st v).
Proof. intros [] Hv. constructor; rsimp; auto. Qed.

Lemma RInv_set_groups cfg st v :
  RInvC cfg st -> Forall (fun ng : str * group => g_clients (snd ng) <> []) v ->
  RInvC cfg (set_r_groups st v).
Proof. intros [] Hv. constructor; rsimp; auto. Qed.

Lemma dl_ok_items_mono sh n n' l :
  n <= n' -> Forall (odata_ok sh n) l -> Forall (odata_ok sh n') l.
Proof.
  intros H. apply Forall_impl. intros [d|]; cbn [odata_ok]; [|auto]. now apply data_ok_mono.
Qed.

Lemma RInv_set_datalog cfg st dl :
  RInvC cfg st -> dl_ok (lives st) dl -> nlen st <= dlen dl -> RInvC cfg (set_r_datalog st dl).
Proof.
  intros [] Hdl Hn. constructor; rsimp; auto.
  - intros k t Ht. eapply Forall_req_ok_mono; eauto.
  - eapply Forall_wt_ok_mono; eauto.
  - revert ri_grave. apply Forall_impl. intros a. now apply sess_ok_mono.
Qed.

(** a tracker / obuf / ... lookup on a live key succeeds *)
Lemma RInv_live_all cfg st id c :
  RInvC cfg st -> slab_get (r_conns st) id = Some c ->
  exists i o a t, slab_get (r_ibufs st) id = Some i /\ slab_get (r_obufs st) id = Some o /\
                  slab_get (r_acks st) id = Some a /\ slab_get (r_trackers st) id = Some t.
Proof.
  intros [] Hc.
  destruct (aligned_get _ _ _ _ ri_al_i Hc) as [i Hi].
  destruct (aligned_get _ _ _ _ ri_al_o Hc) as [o Ho].
  destruct (aligned_get _ _ _ _ ri_al_a Hc) as [a Ha].
  destruct (aligned_get _ _ _ _ ri_al_t Hc) as [t Ht].
  eauto 10.
Qed.

Lemma RInv_occ_conn cfg st id : RInvC cfg st -> occ (lives st) id -> exists c, slab_get (r_conns st) id = Some c.
Proof. intros _ H. apply occ_get. exact H. Qed.

Lemma RInv_ibuf_live cfg st id i : RInvC cfg st -> slab_get (r_ibufs st) id = Some i -> exists c, slab_get (r_conns st) id = Some c.
Proof. intros [] H. exact (aligned_get_rev _ _ _ _ ri_al_i H). Qed.
Lemma RInv_obuf_live cfg st id o : RInvC cfg st -> slab_get (r_obufs st) id = Some o -> exists c, slab_get (r_conns st) id = Some c.
Proof. intros [] H. exact (aligned_get_rev _ _ _ _ ri_al_o H). Qed.
Lemma RInv_trk_live cfg st id t : RInvC cfg st -> slab_get (r_trackers st) id = Some t -> exists c, slab_get (r_conns st) id = Some c.
Proof. intros [] H. exact (aligned_get_rev _ _ _ _ ri_al_t H). Qed.
