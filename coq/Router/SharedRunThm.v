(** C17 at the level of whole runs — the theorems.

    For every run from [init] (any ops, any admissible oracles, all three strategies) whose final
    state is [Bounded] (fewer than 2^62 entries per filter log) and which satisfies the two
    executable hypotheses [no_rewind_b] and [rejoin_fresh_b] (SharedRun.v):
    - [run_at_most_once]: for every group key the offsets forwarded through the group are strictly
      increasing in order of occurrence (hence pairwise distinct: no message twice, none to two
      members);
    - [run_member_order]: so are the offsets of each member's share.
    For EVERY run (no hypothesis at all, the two known findings included):
    - [run_member_only]: each forward through a group went to the connection whose client id was
      the group's [current_client] at that moment, a member of the group.
    Both hypotheses are necessary: [rewind_witness], [stale_rejoin_witness]. *)
From Rumqtt Require Import Router.Shared Log.Spec Log.Proofs Log.WfFacts Router.ExactLog.
From Rumqtt Require Import Topic.Proofs Router.WindowFrame Router.Window Router.DataLogInv Router.DataLogStep
                           Router.ExactInv Router.ExactStep1 Router.ExactStep2 Router.ExactLogs Router.ExactStep3
                           Router.ExactThm Router.SharedRun Router.SharedRunInv Router.SharedRunStep
                           Router.SharedRunStep2 Router.SharedRunStep3.
From Rumqtt Require Import Router.Model Router.RunDefs.
From Coq Require Import ZifyBool ZifyN ZifyNat Sorted.

(* ------------------------------------------------------------------ what an event is *)
Lemma log_offsets_In ns off :
  In off (log_offsets ns) <-> exists seg p pr, In (NForward (Some (seg, off)) p pr) ns.
Proof.
  induction ns as [|n ns IH]; cbn [log_offsets In].
  - split; [intros []|intros (? & ? & ? & [])].
  - destruct n as [[[sg o]|] p pr | | | |]; cbn [In snd]; rewrite ?IH; split.
    + intros [<- | (seg & p0 & pr0 & H)]; [exists sg, p, pr; now left|exists seg, p0, pr0; now right].
    + intros (seg & p0 & pr0 & [E | H]); [inversion E; now left|right; eauto].
    + intros (seg & p0 & pr0 & H). exists seg, p0, pr0. now right.
    + intros (seg & p0 & pr0 & [E | H]); [discriminate|eauto].
    + intros (seg & p0 & pr0 & H). exists seg, p0, pr0. now right.
    + intros (seg & p0 & pr0 & [E | H]); [discriminate|eauto].
    + intros (seg & p0 & pr0 & H). exists seg, p0, pr0. now right.
    + intros (seg & p0 & pr0 & [E | H]); [discriminate|eauto].
    + intros (seg & p0 & pr0 & H). exists seg, p0, pr0. now right.
    + intros (seg & p0 & pr0 & [E | H]); [discriminate|eauto].
    + intros (seg & p0 & pr0 & H). exists seg, p0, pr0. now right.
    + intros (seg & p0 & pr0 & [E | H]); [discriminate|eauto].
Qed.

(** the events of one call are exactly: the request is shared, its group [g] is registered under
    [name] in the state the call starts from, [client] is the client id of the connection, and a
    forward carrying the log cursor (_, off) is among the notifications the call appended to
    that connection's link buffer *)
Lemma fdd_ghost_event st id rq st' name g client off :
  In (name, g, client, off) (fdd_ghost st id rq st') <->
  dr_group rq = Some name /\ al_get str_eqb name (r_groups st) = Some g /\
  exists o, slab_get (r_obufs st) id = Some o /\ o_client o = client /\
    exists seg p pr, In (NForward (Some (seg, off)) p pr)
                        (skipn (length (link_out st (o_link o))) (link_out st' (o_link o))).
Proof.
  unfold fdd_ghost. destruct (slab_get (r_obufs st) id) as [o|].
  2:{ split; [intros []|intros (_ & _ & o & Ho & _); discriminate]. }
  destruct (dr_group rq) as [n|].
  2:{ split; [intros []|intros (E & _); discriminate]. }
  destruct (al_get str_eqb n (r_groups st)) as [g0|] eqn:Eg.
  2:{ split; [intros []|intros (E & Hg & _); inversion E; subst; congruence]. }
  rewrite in_map_iff. split.
  - intros (x & E & Hx). inversion E; subst. split; [reflexivity|]. split; [exact Eg|].
    exists o. split; [reflexivity|]. split; [reflexivity|]. now apply log_offsets_In.
  - intros (E & Hg & o' & Ho & Hc & Hx). inversion E; subst n. inversion Ho; subst o'. rewrite Eg in Hg. inversion Hg; subst g0.
    exists off. split; [now rewrite Hc|]. now apply log_offsets_In.
Qed.

(* ------------------------------------------------------------------ membership: every run *)
Lemma fdd_member st id rq st' rq' cs :
  forward_device_data st id rq = Ok (st', rq', cs) -> MemberOnly (fdd_ghost st id rq st').
Proof.
  intros H.
  assert (Ho : exists o, get_obuf st id = Ok o).
  { pose proof H as H'. unfold forward_device_data in H'. apply bind_ok in H' as (o & Ho & _). eauto. }
  destruct Ho as [o Ho]. pose proof (get_obuf_some _ _ _ Ho) as Hos.
  pose proof (forward_cases _ _ _ _ _ _ _ H Ho) as Hc. cbn zeta in Hc. unfold req_group in Hc.
  unfold fdd_ghost. rewrite Hos.
  destruct (dr_group rq) as [name|]; [|constructor].
  destruct (al_get str_eqb name (r_groups st)) as [g|]; [|constructor].
  destruct Hc as [(-> & -> & ->) | (sel & d & pos & from_log & _ & _ & _ & _ & _ & _ & _ & _ & Hrest)].
  { rewrite skipn_length_self. constructor. }
  destruct (negb (ostr_eqb (Some (o_client o)) (current_client g))) eqn:Esk.
  { destruct Hrest as ((orc & ->) & _). change (link_out (set_r_oracle st orc) (o_link o)) with (link_out st (o_link o)).
    rewrite skipn_length_self. constructor. }
  apply negb_false_iff in Esk. apply ostr_eqb_some in Esk.
  apply Forall_forall. intros e He. apply in_map_iff in He as (off & <- & _). unfold member_ok. cbn [fst snd].
  split; [exact Esk|now apply current_client_member].
Qed.

Lemma consume_loop_member id : forall fuel st requests skipped st' evs,
  consume_loop_g fuel st id requests skipped = Ok (st', evs) -> MemberOnly evs.
Proof.
  induction fuel as [|fuel IH]; cbn [consume_loop_g]; intros st requests skipped st' evs H.
  - apply bind_ok in H as (s & H1 & H). inv_ok. constructor.
  - destruct requests as [|rq rest].
    + apply bind_ok in H as (st1 & H1 & H). apply bind_ok in H as (s & H2 & H). inv_ok. constructor.
    + apply bind_ok in H as ([[st1 rq'] status] & H1 & H). pose proof (fdd_member _ _ _ _ _ _ H1) as HM.
      destruct status.
      * apply bind_ok in H as (st2 & H2 & H). apply bind_ok in H as (s & H3 & H). inv_ok. exact HM.
      * apply bind_ok in H as (st2 & H2 & H). apply bind_ok in H as (s & H3 & H). inv_ok. exact HM.
      * apply bind_ok in H as (st2 & H2 & H). apply bind_ok in H as ([s evs2] & H3 & H). inv_ok.
        apply MemberOnly_app; [exact HM|eapply IH; eassumption].
      * apply bind_ok in H as ([s evs2] & H3 & H). inv_ok. apply MemberOnly_app; [exact HM|eapply IH; eassumption].
      * apply bind_ok in H as ([s evs2] & H3 & H). inv_ok. apply MemberOnly_app; [exact HM|eapply IH; eassumption].
Qed.

Lemma step_g_member st o st' out gh : step_g st o = Ok (st', out, gh) -> MemberOnly (gh_fwd gh).
Proof.
  intros H. destruct o; unfold step_g in H;
    try (apply bind_ok in H as ([st2 out2] & _ & H); inv_ok; constructor).
  apply bind_ok in H as ([[st1 b] evs] & H1 & H). inv_ok. cbn [gh_fwd].
  unfold consume_g in H1. destruct (r_ready st) as [|id rq]; [inv_ok; constructor|].
  cbv zeta in H1. destruct (slab_get (r_trackers (set_r_ready st rq)) id) as [t|]; [|inv_ok; constructor].
  match type of H1 with context [slab_get (r_obufs ?s) id] => destruct (slab_get (r_obufs s) id) as [o|] end;
    [|inv_ok; constructor].
  apply bind_ok in H1 as (st3 & H3 & H1). apply bind_ok in H1 as (u & _ & H1).
  apply bind_ok in H1 as ([st4 evs4] & H4 & H1). inv_ok. eapply consume_loop_member; eassumption.
Qed.

(** [step_with] and its ghost *)
Lemma step_with_ghost st orc o st1 out :
  step_with st orc o = Ok (st1, out) ->
  step_g (set_r_oracle st orc) o = Ok (st1, out, step_ghost (set_r_oracle st orc) o).
Proof.
  intros H. unfold step_ghost. pose proof (step_g_state (set_r_oracle st orc) o) as E.
  unfold step_with in H. destruct (step_g (set_r_oracle st orc) o) as [[[s1 o1] gh]| |]; cbn [drop3] in E;
    rewrite <- E in H; cbn [bind] in H; try discriminate.
  destruct (r_oracle s1); [|discriminate]. now inv_ok.
Qed.

Lemma gfwd_full_cons st orc o r :
  gfwd_full st ((orc, o) :: r) =
  gh_fwd (step_ghost (set_r_oracle st orc) o) ++
  match step_with st orc o with Ok (st1, _) => gfwd_full st1 r | _ => [] end.
Proof.
  unfold gfwd_full. cbn [ghosts map concat]. destruct (step_with st orc o) as [[st1 out]| |]; [reflexivity| |];
    cbn [map concat]; reflexivity.
Qed.

Theorem run_member_only : forall ops st st',
  run st ops = Ok st' -> MemberOnly (gfwd_full st ops).
Proof.
  induction ops as [|[orc o] r IH]; intros st st' H; [constructor|].
  rewrite gfwd_full_cons. cbn [run] in H.
  destruct (step_with st orc o) as [[st1 out]| |] eqn:E; try discriminate.
  apply MemberOnly_app; [|eapply IH; eassumption].
  eapply step_g_member. eapply step_with_ghost. exact E.
Qed.

(* ------------------------------------------------------------------ one step *)
Lemma gi_done st st' gf :
  GK st -> GI st gf -> SortedG gf -> r_datalog st' = r_datalog st -> r_groups st' = r_groups st ->
  GK st' /\ GI st' (gf ++ map forget []) /\ SortedG (gf ++ map forget []).
Proof.
  intros HK HG HS D G. cbn [map]. rewrite app_nil_r. destruct (gi_nochange st st' gf D G HK HG) as [HK' HG']. auto.
Qed.

Lemma gi_done' st' gf :
  GK st' /\ GI st' gf -> SortedG gf -> GK st' /\ GI st' (gf ++ map forget []) /\ SortedG (gf ++ map forget []).
Proof. intros [HK HG] HS. cbn [map]. rewrite app_nil_r. auto. Qed.

Lemma step_gi st o st' out gh gf :
  CInv st -> Bounded st -> GK st -> GI st gf -> SortedG gf ->
  step_g st o = Ok (st', out, gh) ->
  gh_rewind gh = false ->
  (forall name pos c off, In (name, pos) (gh_rejoin gh) -> In (name, c, off) gf -> off < pos) ->
  GK st' /\ GI st' (gf ++ map forget (gh_fwd gh)) /\ SortedG (gf ++ map forget (gh_fwd gh)).
Proof.
  intros HI HB HK HG HS H Hnr Hfr. destruct o; unfold step_g in H.
  - (* connect *)
    apply bind_ok in H as ([st2 out2] & H2 & H). inv_ok. cbn [gh_fwd gh_rewind gh_rejoin] in *. cbn [step] in H2.
    apply bind_ok in H2 as (st3 & H3 & H2). inv_ok. apply gi_done'; [|exact HS].
    match type of H3 with handle_new_connection ?s ?cn ?lk = _ =>
      apply (handle_new_connection_gi s cn lk st' gf) end; try assumption.
    eapply cinv_view; [|exact HI]. reflexivity.
  - (* push *)
    apply bind_ok in H as ([st2 out2] & H2 & H). inv_ok. cbn [gh_fwd gh_none]. cbn [step] in H2.
    destruct (nthN (r_links st) link); inv_ok; (eapply gi_done; [eassumption|eassumption|eassumption|reflexivity|reflexivity]).
  - (* data *)
    apply bind_ok in H as ([st2 out2] & H2 & H). inv_ok. cbn [gh_fwd gh_rewind gh_rejoin] in *. cbn [step] in H2.
    apply bind_ok in H2 as (st3 & H3 & H2). inv_ok. apply gi_done'; [|exact HS].
    eapply handle_device_payload_gi; eassumption.
  - (* consume *)
    apply bind_ok in H as ([[st1 b] evs] & H1 & H). inv_ok. cbn [gh_fwd].
    destruct (consume_gi _ _ _ _ _ HI HB HK HG HS H1) as (H1' & H2' & H3' & _). auto.
  - (* drain *)
    apply bind_ok in H as ([st2 out2] & H2 & H). inv_ok. cbn [gh_fwd gh_none]. cbn [step] in H2.
    destruct (nthN (r_links st) link); inv_ok; (eapply gi_done; [eassumption|eassumption|eassumption|reflexivity|reflexivity]).
  - (* ready *)
    apply bind_ok in H as ([st2 out2] & H2 & H). inv_ok. cbn [gh_fwd gh_none]. cbn [step] in H2.
    destruct (slab_get (r_trackers st) id); [|inv_ok; (eapply gi_done; [eassumption|eassumption|eassumption|reflexivity|reflexivity])].
    apply bind_ok in H2 as (st1 & H1 & H2). inv_ok.
    apply (gi_done st); auto; [eapply reschedule_dl; eassumption|eapply reschedule_groups; eassumption].
  - (* disconnect *)
    apply bind_ok in H as ([st2 out2] & H2 & H). inv_ok. cbn [gh_fwd gh_rewind gh_rejoin] in *. cbn [step] in H2.
    apply bind_ok in H2 as (st1 & H1 & H2). inv_ok. apply gi_done'; [|exact HS].
    destruct (handle_disconnection_cinv _ _ _ _ HI H1) as [_ L1].
    eapply gi_gsub; [exact HI|exact HK|exact L1| |exact HG]. eapply handle_disconnection_groups; eassumption.
  - (* shadow *)
    apply bind_ok in H as ([st2 out2] & H2 & H). inv_ok. cbn [gh_fwd gh_none]. cbn [step] in H2.
    apply bind_ok in H2 as (st1 & H1 & H2). inv_ok. pose proof (retrieve_shadow_cview _ _ _ _ H1) as V.
    apply (gi_done st); auto; [now apply cview_dl|now apply cview_groups].
  - (* will *)
    apply bind_ok in H as ([st2 out2] & H2 & H). inv_ok. cbn [gh_fwd gh_none]. cbn [step] in H2.
    apply bind_ok in H2 as (st1 & H1 & H2). inv_ok. apply gi_done'; [|exact HS].
    destruct (handle_last_will_cinv _ _ _ HI H1) as [_ L1].
    eapply gi_gsub; [exact HI|exact HK|exact L1| |exact HG]. apply gsub_eq. eapply handle_last_will_groups; eassumption.
  - (* meters *)
    apply bind_ok in H as ([st2 out2] & H2 & H). inv_ok. cbn [gh_fwd gh_none]. cbn [step] in H2. inv_ok.
    eapply gi_done; [eassumption|eassumption|eassumption|reflexivity|reflexivity].
Qed.

(* ------------------------------------------------------------------ runs *)
Lemma ghosts_cons st orc o r st1 out :
  step_with st orc o = Ok (st1, out) ->
  ghosts st ((orc, o) :: r) = step_ghost (set_r_oracle st orc) o :: ghosts st1 r.
Proof. intros E. cbn [ghosts]. now rewrite E. Qed.

Lemma run_gi : forall ops st st' gf,
  CInv st -> GK st -> GI st gf -> SortedG gf ->
  run st ops = Ok st' -> Bounded st' ->
  Forall (fun gh => gh_rewind gh = false) (ghosts st ops) -> fresh_from gf (ghosts st ops) ->
  GK st' /\ GI st' (gf ++ gfwd st ops) /\ SortedG (gf ++ gfwd st ops).
Proof.
  induction ops as [|[orc o] r IH]; intros st st' gf HI HK HG HS H HB Hnr Hfr.
  - cbn [run] in H. inv_ok. unfold gfwd, gfwd_full. cbn [ghosts map concat]. rewrite app_nil_r. auto.
  - destruct (run_cinv _ _ _ HI H HB) as (_ & _ & HB0).
    cbn [run] in H. destruct (step_with st orc o) as [[st1 out]| |] eqn:E; try discriminate.
    rewrite (ghosts_cons _ _ _ _ _ _ E) in Hnr, Hfr.
    inversion Hnr as [|? ? Hnr1 Hnr2]; subst. cbn [fresh_from] in Hfr. destruct Hfr as [Hfr1 Hfr2].
    destruct (step_with_cinv _ _ _ _ _ HI HB0 E) as [HI1 _].
    pose proof (step_with_ghost _ _ _ _ _ E) as Eg.
    set (gh := step_ghost (set_r_oracle st orc) o) in *.
    destruct (step_gi (set_r_oracle st orc) o st1 out gh gf) as (HK1 & HG1 & HS1); try assumption.
    { eapply cinv_view; [|exact HI]. reflexivity. }
    destruct (IH _ _ _ HI1 HK1 HG1 HS1 H HB Hnr2 Hfr2) as (HK' & HG' & HS').
    assert (Eq : gf ++ gfwd st ((orc, o) :: r) = (gf ++ map forget (gh_fwd gh)) ++ gfwd st1 r).
    { unfold gfwd. rewrite gfwd_full_cons, E, map_app, app_assoc. reflexivity. }
    rewrite Eq. auto.
Qed.

Theorem run_at_most_once cfg st0 ops st' :
  cf_max_outgoing cfg < B62 -> init cfg = Ok st0 -> run st0 ops = Ok st' -> Bounded st' ->
  no_rewind_b st0 ops = true -> rejoin_fresh_b st0 ops = true ->
  forall name, increasing (offs_of name (gfwd st0 ops)) /\ NoDup (offs_of name (gfwd st0 ops)).
Proof.
  intros Hc Hi Hr HB Hnr Hfr name. apply no_rewind_b_spec in Hnr. apply rejoin_fresh_b_spec in Hfr.
  pose proof (init_cinv _ _ Hc Hi) as HI.
  assert (G0 : r_groups st0 = []).
  { unfold init in Hi. apply bind_ok in Hi as (dl & _ & Hi). inv_ok. reflexivity. }
  destruct (run_gi ops st0 st' [] HI) as (_ & _ & HS); try assumption.
  - unfold GK. rewrite G0. constructor.
  - constructor.
  - intros n. constructor.
  - cbn [app] in HS. split; [apply HS|apply sorted_nodup, HS].
Qed.

Theorem run_member_order cfg st0 ops st' :
  cf_max_outgoing cfg < B62 -> init cfg = Ok st0 -> run st0 ops = Ok st' -> Bounded st' ->
  no_rewind_b st0 ops = true -> rejoin_fresh_b st0 ops = true ->
  forall name client, increasing (offs_of_member name client (gfwd st0 ops)).
Proof.
  intros Hc Hi Hr HB Hnr Hfr name client. apply member_sorted.
  eapply run_at_most_once; eassumption.
Qed.

(** spelled out: the group recorded with an event is the one registered under the key when the
    forward was made, the client id is that of the connection that received it *)
Theorem run_member_only_from_init cfg st0 ops st' :
  init cfg = Ok st0 -> run st0 ops = Ok st' ->
  forall name g client off, In (name, g, client, off) (gfwd_full st0 ops) ->
    current_client g = Some client /\ In client (g_clients g).
Proof.
  intros _ Hr name g client off Hin. pose proof (run_member_only _ _ _ Hr) as HM.
  unfold MemberOnly in HM. rewrite Forall_forall in HM. exact (HM _ Hin).
Qed.

(** [Bounded], executable *)
Definition bounded_b (st : rstate) : bool :=
  forallb (fun od : option data => match od with Some d => end_of (d_log d) <? B62 | None => true end)
          (sl_items (dl_native (r_datalog st))).

Lemma bounded_b_spec st : bounded_b st = true -> Bounded st.
Proof.
  unfold bounded_b, Bounded, nget, slab_get. intros H i d Hd. rewrite forallb_forall in H.
  destruct (nthN (sl_items (dl_native (r_datalog st))) i) as [[d0|]|] eqn:E; try discriminate.
  inversion Hd; subst d0. apply nthN_In in E. specialize (H _ E). cbv beta iota in H. lia.
Qed.

(* ------------------------------------------------------------------ examples and witnesses *)
Module C17RunExample.
Import C15Example C17Example.

(** the hypotheses are satisfiable by a non-trivial run: the round-robin split of Shared.v
    (two members, three messages): a gets offsets 0 and 2, b gets 1 *)
Example hypotheses_hold :
  match init cfg0 with
  | Ok st0 =>
      match run st0 C17Example.ops with
      | Ok st' =>
          bounded_b st' = true /\
          no_rewind_b st0 C17Example.ops = true /\ rejoin_fresh_b st0 C17Example.ops = true /\
          gfwd st0 C17Example.ops = [([103;47;116], [97], 0); ([103;47;116], [98], 1); ([103;47;116], [97], 2)]
      | _ => False
      end
  | _ => False
  end.
Proof. vm_compute. repeat split; reflexivity. Qed.

(** K-C17-rewind on the model: a (clean_session = false) and b share $share/g/t at QoS 1; a
    receives offset 0, b offset 1; a disconnects without having acknowledged: the group cursor is
    rewound to (0,0); after the next publish b is sent offsets 0, 1 (again) and 2.  The run
    satisfies [rejoin_fresh_b] (no group is ever re-created), violates [no_rewind_b] only — and
    the conclusion of [run_at_most_once] fails. *)
Definition rewind_ops : list (list oracle * rop) := map no
  [ OpConnect (creq [97] false None);
    OpPush 0 (PSubscribe 1 [(shf, 1)] None);
    OpData 0;
    OpConnect (creq [98] true None);
    OpPush 1 (PSubscribe 1 [(shf, 1)] None);
    OpData 1;
    OpConsume; OpConsume; OpConsume; OpConsume;
    OpConnect (creq [112] true None);
    OpPush 2 (PPublish (mkpub [116] [49] 0 0 false) None);
    OpPush 2 (PPublish (mkpub [116] [50] 0 0 false) None);
    OpData 2;
    OpConsume; OpConsume; OpConsume; OpConsume; OpConsume; OpConsume;
    OpDisconnect 0;
    OpPush 2 (PPublish (mkpub [116] [51] 0 0 false) None);
    OpData 2;
    OpConsume; OpConsume; OpConsume; OpConsume; OpConsume; OpConsume; OpConsume; OpConsume ].

Example rewind_witness :
  match init cfg0 with
  | Ok st0 =>
      (exists st', run st0 rewind_ops = Ok st') /\
      gfwd st0 rewind_ops =
        [([103;47;116], [97], 0); ([103;47;116], [98], 1);
         ([103;47;116], [98], 0); ([103;47;116], [98], 1); ([103;47;116], [98], 2)] /\
      no_rewind_b st0 rewind_ops = false /\
      map gh_rewind (ghosts st0 rewind_ops) = repeat false 20 ++ [true] ++ repeat false 10 /\
      rejoin_fresh_b st0 rewind_ops = true /\ no_rejoin_create_b st0 rewind_ops = true
  | _ => False
  end.
Proof. vm_compute. split; [eexists; reflexivity|]. repeat split; reflexivity. Qed.

Example rewind_breaks_at_most_once :
  match init cfg0 with
  | Ok st0 => ~ NoDup (offs_of [103;47;116] (gfwd st0 rewind_ops))
  | _ => False
  end.
Proof.
  vm_compute. intros H. inversion H as [|? ? Hni _]; subst. apply Hni. right. now left.
Qed.

(** K-C17-rejoin on the model (QoS 0, nothing unacknowledged anywhere): a (persistent) and b share
    $share/g/t; a disconnects; two messages go to b; b disconnects, the group is dropped; a
    reconnects, [rejoin_groups] re-creates the group from a's saved cursor (0,0) and a is sent
    offsets 0 and 1 again.  The run satisfies [no_rewind_b], violates [rejoin_fresh_b] only. *)
Definition rejoin_ops : list (list oracle * rop) := map no
  [ OpConnect (creq [97] false None);
    OpPush 0 (PSubscribe 1 [(shf, 0)] None);
    OpData 0;
    OpConnect (creq [98] true None);
    OpPush 1 (PSubscribe 1 [(shf, 0)] None);
    OpData 1;
    OpConsume; OpConsume; OpConsume; OpConsume;
    OpDisconnect 0;
    OpConnect (creq [112] true None);
    OpPush 2 (PPublish (mkpub [116] [49] 0 0 false) None);
    OpPush 2 (PPublish (mkpub [116] [50] 0 0 false) None);
    OpData 0;
    OpConsume; OpConsume; OpConsume; OpConsume;
    OpDisconnect 1;
    OpConnect (creq [97] false None);
    OpConsume; OpConsume; OpConsume; OpConsume ].

Example stale_rejoin_witness :
  match init cfg0 with
  | Ok st0 =>
      (exists st', run st0 rejoin_ops = Ok st') /\
      gfwd st0 rejoin_ops =
        [([103;47;116], [98], 0); ([103;47;116], [98], 1);
         ([103;47;116], [97], 0); ([103;47;116], [97], 1)] /\
      no_rewind_b st0 rejoin_ops = true /\
      rejoin_fresh_b st0 rejoin_ops = false /\
      map gh_rejoin (ghosts st0 rejoin_ops) = repeat [] 20 ++ [[([103;47;116], 0)]] ++ repeat [] 4
  | _ => False
  end.
Proof. vm_compute. split; [eexists; reflexivity|]. repeat split; reflexivity. Qed.

Example stale_rejoin_breaks_at_most_once :
  match init cfg0 with
  | Ok st0 => ~ NoDup (offs_of [103;47;116] (gfwd st0 rejoin_ops))
  | _ => False
  end.
Proof.
  vm_compute. intros H. inversion H as [|? ? Hni _]; subst. apply Hni. right. now left.
Qed.

(** the benign re-creation: the sole persistent member is taken over by a new connection of the
    same client id (group dropped and re-created inside one CONNECT); [rejoin_fresh_b] holds, a
    group IS re-created ([no_rejoin_create_b] = false), nothing is forwarded twice *)
Definition takeover_ops : list (list oracle * rop) := map no
  [ OpConnect (creq [97] false None);
    OpPush 0 (PSubscribe 1 [(shf, 0)] None);
    OpData 0;
    OpConsume; OpConsume;
    OpConnect (creq [112] true None);
    OpPush 1 (PPublish (mkpub [116] [49] 0 0 false) None);
    OpData 1;
    OpConsume; OpConsume; OpConsume;
    OpConnect (creq [97] false None);
    OpPush 1 (PPublish (mkpub [116] [50] 0 0 false) None);
    OpData 1;
    OpConsume; OpConsume; OpConsume; OpConsume ].

Example takeover_is_in_scope :
  match init cfg0 with
  | Ok st0 =>
      (exists st', run st0 takeover_ops = Ok st') /\
      gfwd st0 takeover_ops = [([103;47;116], [97], 0); ([103;47;116], [97], 1)] /\
      no_rewind_b st0 takeover_ops = true /\ rejoin_fresh_b st0 takeover_ops = true /\
      no_rejoin_create_b st0 takeover_ops = false
  | _ => False
  end.
Proof. vm_compute. split; [eexists; reflexivity|]. repeat split; reflexivity. Qed.
End C17RunExample.
