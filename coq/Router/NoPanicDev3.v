(** Dev profile, second pass, part 3: subscribe / unsubscribe / packets (DevX is preserved, the
    check_tracker_duplicates assertion of prepare_filter holds). *)
From Rumqtt Require Import Router.NoPanicLog.
From Rumqtt Require Import Router.Model Router.InvLemmasBase Router.Inv Router.InvLemmasPrim Router.InvLemmasSched
  Router.InvLemmasDl Router.InvLemmasRoute Router.InvLemmasPkt Router.NoPanicDevBase Router.NoPanicDevInv
  Router.NoPanicDev1 Router.NoPanicDev2.
From Rumqtt Require Import Router.Model.
From Coq Require Import Arith ZifyBool ZifyN ZifyNat.

Definition DevI (st : rstate) : Prop := DevX st [].

Lemma CNT_treqs_le st e id f : (cnt f (treqs st id) <= CNT st e id f)%nat.
Proof. unfold CNT. lia. Qed.

Lemma dbg_no_dups_dev st e id subs :
  DevX st e -> subs_of st id = Some subs -> wpd (dbg_no_dups st id) (fun _ => True).
Proof.
  intros HD Hs. unfold dbg_no_dups. destruct (cf_debug_assertions (r_cfg st)); [|exact I].
  unfold get_tracker. destruct (slab_get (r_trackers st) id) as [t|] eqn:Ht; [|notdup]. cbn [bind].
  rewrite has_dup_idx_false; [exact I| |intros f Hf; discriminate].
  intros f. destruct (dx_live _ _ HD id subs Hs f) as [Hle _].
  pose proof (CNT_treqs_le st e id f) as H. unfold treqs in H. rewrite Ht in H. lia.
Qed.

Lemma set_mem_app_r f l x : set_mem str_eqb f (l ++ [x]) = set_mem str_eqb f l || str_eqb f x.
Proof.
  induction l as [|y l IH]; cbn [app set_mem]; [now rewrite orb_false_r|]. rewrite IH. now rewrite orb_assoc.
Qed.

(** a new subscription: the filter joins the subscription set, its request is held locally *)
Lemma DevX_new_sub st id c c' rq :
  DevX st [] -> slab_get (r_conns st) id = Some c -> set_mem str_eqb (dr_filter rq) (c_subs c) = false ->
  c_subs c' = c_subs c ++ [dr_filter rq] -> DevX (put_conn st id c') [(id, rq)].
Proof.
  intros [H1 H2] Hc Hm Hs. constructor; [|exact H2].
  intros id' subs Hsub f.
  assert (Hcnt : CNT (put_conn st id c') [(id, rq)] id' f =
                 (CNT st [] id' f + (if (id =? id')%N && fmatch f rq then 1 else 0))%nat).
  { unfold CNT. change (treqs (put_conn st id c') id') with (treqs st id').
    change (items_of (put_conn st id c')) with (items_of st). change (r_notif (put_conn st id c')) with (r_notif st).
    rewrite cntw_single, cntw_nil. lia. }
  rewrite Hcnt. unfold subs_of, put_conn in Hsub. cbn [r_conns set_r_conns] in Hsub.
  destruct (N.eqb_spec id id') as [<- | Hne]; cbn [andb].
  - rewrite (get_put_eq _ _ _ _ Hc) in Hsub. cbn [option_map] in Hsub. inversion Hsub; subst subs.
    assert (Hold : okc (CNT st [] id f) f (c_subs c)) by (apply H1; unfold subs_of; now rewrite Hc).
    destruct Hold as [Hle Hmem]. unfold okc. rewrite Hs, set_mem_app_r. unfold fmatch.
    destruct (str_eqb (dr_filter rq) f) eqn:E.
    + apply str_eqb_eq in E. subst f.
      assert (CNT st [] id (dr_filter rq) = 0)%nat.
      { destruct (CNT st [] id (dr_filter rq)) eqn:E0; [reflexivity|]. rewrite Hmem in Hm by lia. discriminate. }
      split; [lia|]. intros _. rewrite str_eqb_refl. apply orb_true_r.
    + split; [lia|]. intros Hge. rewrite Hmem by lia. reflexivity.
  - rewrite get_put_neq in Hsub by exact Hne. rewrite Nat.add_0_r. apply H1. exact Hsub.
Qed.

Lemma prepare_filter_dev cfg st id cu fidx path qos grp subid :
  RInvC cfg st -> DevI st -> occ (lives st) id -> fidx < nlen st -> qos <= 2 ->
  wpd (prepare_filter st id cu fidx path qos grp subid) (fun st' => DevI st').
Proof.
  intros HI HD Ho Hidx Hq. destruct (live_gets _ _ _ HI Ho) as (c & i & o & a & t & Hc & Hi & Hob & Ha & Ht).
  unfold prepare_filter. cbv zeta.
  match goal with |- context [set_r_submap st ?m] => set (st1 := set_r_submap st m) end.
  assert (Hc1 : get_conn st1 id = Ok c) by (apply get_conn_ok; exact Hc).
  rewrite Hc1. cbn [bind].
  match goal with |- context [set_r_groups st1 ?g] => set (gs := g) end.
  set (st2 := set_r_groups st1 gs).
  assert (D2 : dfr st st2 [] []) by dfr_triv.
  assert (HD2 : DevI st2) by (eapply dfr_DevX; eauto).
  set (conn1 := match subid with
                | Some s => set_c_subids c (al_set str_eqb path s (c_subids c))
                | None => c
                end).
  assert (Hs1 : c_subs conn1 = c_subs c) by (unfold conn1; destruct subid; reflexivity).
  assert (Hc2 : slab_get (r_conns st2) id = Some c) by exact Hc.
  destruct (set_mem str_eqb path (c_subs conn1)) eqn:Em.
  - cbn [wpd]. eapply dfr_DevX; [exact HD2|]. eapply dfr_put_conn; eauto.
  - match goal with |- context [put_conn st2 id ?cc] => set (conn2 := cc) end.
    match goal with |- context [track (put_conn st2 id conn2) id ?r] => set (rq := r) end.
    set (st3 := put_conn st2 id conn2).
    assert (HD3 : DevX st3 [(id, rq)]).
    { apply (DevX_new_sub st2 id c conn2 rq HD2 Hc2); cbn [rq dr_filter]; [rewrite <- Hs1; exact Em|].
      cbn [conn2 set_c_subs c_subs]. now rewrite Hs1. }
    apply wpd_bind. eapply wpd_mono; [apply (track_dev st3 id rq [])|]. intros st4 D4.
    apply wpd_bind. eapply wpd_mono; [apply (reschedule_dev st4 id SNewFilter [])|]. intros st5 D5.
    assert (HD5 : DevI st5) by (eapply dfr_DevX; [exact HD3|exact (dfr_trans _ _ _ _ _ _ D4 D5)]).
    apply wpd_bind.
    assert (Hsub5 : subs_of st5 id = Some (c_subs conn2)).
    { destruct D4 as (_ & S4 & _), D5 as (_ & S5 & _). rewrite S5, S4. unfold subs_of, st3, put_conn.
      cbn [r_conns set_r_conns]. now rewrite (get_put_eq _ _ _ _ Hc2). }
    eapply wpd_mono; [apply (dbg_no_dups_dev st5 [] id _ HD5 Hsub5)|]. intros _ _. exact HD5.
Qed.

Lemma subscribe_filters_dev cfg id subid : forall fs st fl codes,
  RInvC cfg st -> DevI st -> occ (lives st) id -> Forall (fun fq : str * N => snd fq <= 2) fs ->
  wpd (subscribe_filters st id fs subid fl codes) (fun r => DevI (fst (fst r))).
Proof.
  induction fs as [|[path qos] fs IH]; intros st fl codes HI HD Ho Hq; cbn [subscribe_filters]; [exact HD|].
  inversion Hq as [|? ? Hq1 Hq']; subst. cbn [snd] in Hq1.
  destruct (negb (validate_subscription path)); [exact HD|].
  destruct (match extract_group path with Some (g, p) => (Some g, p) | None => (None, path) end) as [grp filter].
  match goal with |- wpd (if ?b then _ else _) _ => destruct b end; [exact HD|].
  apply wpd_bind.
  eapply wpd_mono; [eapply wpd_and_wp; [apply (next_native_offset_spec cfg st filter HI)|apply (next_native_offset_dev cfg st filter [] HI)]|].
  intros [[st1 idx] cu] [(HI1 & F1 & Hidx) D1]. cbn [fst snd] in *.
  assert (Ho1 : occ (lives st1) id) by (eapply ext_occ; [apply fr_ext; exact F1|exact Ho]).
  assert (HD1 : DevI st1) by (eapply dfr_DevX; eauto).
  apply wpd_bind.
  eapply wpd_mono; [eapply wpd_and_wp;
    [apply (prepare_filter_spec cfg st1 id cu idx path qos grp subid HI1 Ho1 Hidx Hq1)
    |apply (prepare_filter_dev cfg st1 id cu idx path qos grp subid HI1 HD1 Ho1 Hidx Hq1)]|].
  intros st2 [(HI2 & E2 & N2) HD2].
  apply (IH st2 fl (codes ++ [qos]) HI2 HD2); [eapply ext_occ; eauto|exact Hq'].
Qed.

(* ------------------------------------------------------------------ unsubscribe *)
Lemma position_req_spec w id f : forall off i,
  position_req w id f off = Some i ->
  off <= i /\ exists x, nthN w (i - off) = Some x /\ fst x = id /\ dr_filter (snd x) = f.
Proof.
  induction w as [|[c rq] w IH]; intros off i H; cbn [position_req] in H; [discriminate|].
  destruct ((c =? id) && str_eqb (dr_filter rq) f) eqn:E.
  - inversion H; subst. split; [lia|]. rewrite N.sub_diag. exists (c, rq). cbn [nthN]. rewrite N.eqb_refl.
    apply andb_true_iff in E. destruct E as [E1 E2]. apply N.eqb_eq in E1. apply str_eqb_eq in E2. auto.
  - destruct (IH _ _ H) as [Hle (x & Hx & H1 & H2)]. split; [lia|]. exists x. split; [|auto].
    cbn [nthN]. destruct (N.eqb_spec (i - off) 0); [lia|]. replace (i - off - 1) with (i - (off + 1)) by lia. exact Hx.
Qed.

Lemma position_req_none w id f : forall off, position_req w id f off = None -> cntw f id w = 0%nat.
Proof.
  induction w as [|[c rq] w IH]; intros off H; cbn [position_req] in H; [reflexivity|].
  destruct ((c =? id) && str_eqb (dr_filter rq) f) eqn:E; [discriminate|].
  rewrite cntw_cons. unfold wmatch, fmatch. cbn [fst snd]. rewrite E. eapply IH; eauto.
Qed.

Lemma swap_remove_back_nth {X} (l : list X) : forall i x l', swap_remove_back l i = Some (x, l') -> nthN l i = Some x.
Proof.
  induction l as [|a l IH]; intros i x l' H; cbn [swap_remove_back] in H; [discriminate|].
  cbn [nthN]. destruct (i =? 0).
  - destruct (rev l); inversion H; reflexivity.
  - destruct (swap_remove_back l (i - 1)) as [[y r']|] eqn:E; inversion H; subst. eapply IH; eauto.
Qed.

Lemma wmatch_of f' id' x id f : fst x = id -> dr_filter (snd x) = f ->
  wmatch f' id' x = (id' =? id) && str_eqb f' f.
Proof.
  intros <- <-. unfold wmatch, fmatch. rewrite (N.eqb_sym id'). now rewrite (str_eqb_sym f').
Qed.

Lemma remove_waiter_items_cnt id f f' id' : forall items,
  cnti f' id' (remove_waiter_items items id f) =
  if (id' =? id) && str_eqb f' f then pred (cnti f' id' items) else cnti f' id' items.
Proof.
  induction items as [|[d|] items IH]; cbn [remove_waiter_items cnti].
  - destruct ((id' =? id) && str_eqb f' f); reflexivity.
  - destruct (position_req (d_waiters d) id f 0) as [i|] eqn:Ep.
    + destruct (position_req_spec _ _ _ _ _ Ep) as [_ (x & Hx & H1 & H2)]. rewrite N.sub_0_r in Hx.
      destruct (swap_remove_back (d_waiters d) i) as [[y w']|] eqn:Es.
      * pose proof (swap_remove_back_nth _ _ _ _ Es) as Hy. assert (y = x) by congruence. subst y.
        pose proof (swap_remove_back_count (wmatch f' id') _ _ _ _ Es) as Hc. fold (cntw f' id' (d_waiters d)) in Hc.
        fold (cntw f' id' w') in Hc. rewrite (wmatch_of f' id' x id f H1 H2) in Hc.
        cbn [cnti set_d_waiters d_waiters]. destruct ((id' =? id) && str_eqb f' f); lia.
      * exfalso. apply nthN_some_lt in Hx. destruct (swap_remove_back_some (d_waiters d) i Hx) as [r Hr]. congruence.
    + cbn [cnti]. rewrite IH. pose proof (position_req_none _ _ _ _ Ep) as Hz.
      destruct (N.eqb_spec id' id) as [-> | Hne]; cbn [andb]; [|reflexivity].
      destruct (str_eqb f' f) eqn:E; [|reflexivity]. apply str_eqb_eq in E. subst f'. rewrite Hz. reflexivity.
  - apply IH.
Qed.

Lemma set_mem_set_del f g l : f <> g -> set_mem str_eqb f (set_del str_eqb g l) = set_mem str_eqb f l.
Proof.
  intros Hne. unfold set_del. induction l as [|x l IH]; [reflexivity|]. cbn [filter set_mem].
  destruct (str_eqb g x) eqn:E; cbn [negb set_mem]; [|now rewrite IH].
  apply str_eqb_eq in E. subst x. apply str_eqb_neq in Hne. rewrite Hne. exact IH.
Qed.

Lemma unsubscribe_filters_dev cfg id client : forall fs st reasons,
  RInvC cfg st -> DevI st -> occ (lives st) id ->
  wpd (unsubscribe_filters st id client fs reasons) (fun r => DevI (fst r)).
Proof.
  induction fs as [|f fs IH]; intros st reasons HI HD Ho; cbn [unsubscribe_filters]; [exact HD|].
  destruct (al_get str_eqb f (r_submap st)) as [ids|] eqn:Em; [|cbn [negb]; apply IH; assumption].
  destruct (set_mem N.eqb id ids); [|cbn [negb]; apply IH; assumption]. cbn [negb].
  match goal with |- context [set_r_submap st ?m] => set (st1 := set_r_submap st m) end.
  assert (HI1 : RInvC cfg st1) by (apply RInv_set_submap; exact HI).
  assert (HD1 : DevI st1) by (eapply dfr_DevX; [exact HD|dfr_triv]).
  assert (Ho1 : occ (lives st1) id) by exact Ho.
  destruct (live_gets _ _ _ HI1 Ho1) as (c & i & o & a & t & Hc & Hi & Hob & Ha & Ht).
  rewrite (get_conn_ok _ _ _ Hc). cbn [bind].
  destruct (negb (set_mem str_eqb f (c_subs c))); [apply IH; assumption|].
  match goal with |- context [put_conn st1 id ?cc] => set (conn1 := cc) end.
  match goal with |- context [set_r_groups (put_conn st1 id conn1) ?g] => set (gs := g) end.
  assert (Hgs : groups_ne gs).
  { unfold gs. destruct (extract_group f) as [[gname p]|]; [|apply (ri_groups _ _ HI1)].
    destruct (al_get str_eqb gname (r_groups st1)) as [g|]; [|apply (ri_groups _ _ HI1)].
    destruct (g_clients (group_remove_client g client)) eqn:Eg.
    - apply Forall_al_remove. apply (ri_groups _ _ HI1).
    - apply (Forall_al_set str_eqb (fun g => g_clients g <> [])); [apply (ri_groups _ _ HI1)|].
      rewrite Eg. discriminate. }
  set (st2 := set_r_groups (put_conn st1 id conn1) gs).
  assert (HI2 : RInvC cfg st2).
  { apply RInv_set_groups; [|exact Hgs]. eapply RInv_put_conn; eauto. }
  assert (Ho2 : occ (lives st2) id).
  { unfold lives, st2, put_conn. cbn [r_conns set_r_groups set_r_conns]. rewrite (shape_put _ _ _ _ Hc). exact Ho1. }
  unfold untrack, get_tracker.
  assert (Ht2 : slab_get (r_trackers st2) id = Some t) by exact Ht. rewrite Ht2. cbn [bind].
  match goal with |- context [put_tracker st2 id ?tt] => set (t4 := tt) end.
  set (st4 := put_tracker st2 id t4).
  assert (HI4 : RInvC cfg st4).
  { eapply RInv_put_tracker; [exact HI2|exact Ht2|reflexivity|]. cbn [t4 set_tr_reqs tr_reqs].
    apply Forall_filter. apply (ri_trk _ _ HI2 _ _ Ht2). }
  unfold remove_waiters_for_id. cbn [bind].
  match goal with |- context [set_r_notif ?s5 ?v] => set (st5 := s5); set (nf := v) end.
  set (st6 := set_r_notif st5 nf).
  assert (HI6 : RInvC cfg st6).
  { assert (X : wp cfg (remove_waiters_for_id st4 id f) (fun st' => RInvC cfg st' /\ fr st4 st')) by (apply remove_waiters_for_id_spec; exact HI4).
    unfold remove_waiters_for_id in X. cbn [wp] in X. destruct X as [HI5 _]. fold st5 in HI5.
    apply RInv_set_notif; [exact HI5|]. apply Forall_filter. apply (ri_notif _ _ HI5). }
  assert (Ho6 : occ (lives st6) id) by exact Ho2.
  apply (IH st6 (reasons ++ [UR_SUCCESS]) HI6); [|exact Ho6].
  (* DevI st6 *)
  destruct HD1 as [H1 H2]. constructor; [|exact H2].
  intros id' subs Hsub f'.
  assert (Hcnt : CNT st6 [] id' f' =
                 if (id' =? id) && str_eqb f' f then
                   (pred (cnti f' id' (items_of st1)))%nat
                 else CNT st1 [] id' f').
  { unfold CNT. rewrite !cntw_nil.
    assert (T : treqs st6 id' = if id' =? id then tr_reqs t4 else treqs st1 id').
    { change (treqs st6 id') with (treqs st4 id'). unfold st4. rewrite (treqs_put _ _ _ _ _ Ht2). reflexivity. }
    assert (It : items_of st6 = remove_waiter_items (items_of st1) id f) by reflexivity.
    assert (Nt : r_notif st6 = filter (fun x : N * drequest => negb ((fst x =? id) && str_eqb (dr_filter (snd x)) f)) (r_notif st1)) by reflexivity.
    rewrite T, It, Nt, remove_waiter_items_cnt, cntw_unnotif.
    destruct (N.eqb_spec id' id) as [-> | Hne]; cbn [andb]; [|lia].
    cbn [t4 set_tr_reqs tr_reqs]. rewrite cnt_untrack. unfold treqs. rewrite Ht.
    destruct (str_eqb f' f); lia. }
  assert (Hsub6 : subs_of st6 id' = if id' =? id then Some (set_del str_eqb f (c_subs c)) else subs_of st1 id').
  { unfold subs_of. change (r_conns st6) with (slab_put (r_conns st1) id conn1).
    destruct (N.eqb_spec id' id) as [-> | Hne]; [now rewrite (get_put_eq _ _ _ _ Hc)|].
    rewrite get_put_neq by congruence. reflexivity. }
  rewrite Hcnt. rewrite Hsub6 in Hsub.
  destruct (N.eqb_spec id' id) as [-> | Hne]; cbn [andb].
  - inversion Hsub; subst subs.
    assert (Hold : okc (CNT st1 [] id f') f' (c_subs c)) by (apply H1; unfold subs_of; now rewrite Hc).
    destruct (str_eqb f' f) eqn:E.
    + destruct Hold as [Hle _]. unfold CNT in Hle. split; lia.
    + destruct Hold as [Hle Hmem]. split; [exact Hle|]. intros Hge.
      rewrite set_mem_set_del; [auto|]. intros ->. rewrite str_eqb_refl in E. discriminate.
  - apply H1. exact Hsub.
Qed.
