(** C09 (c),(d): an unsolicited acknowledgement closes that connection only; after an in-order
    acknowledgement the connection is rescheduled and the next consume takes all its requests. *)
From Coq Require Import ZArith ZifyBool ZifyN ZifyNat.
From Rumqtt Require Import Router.Model Router.RunDefs Router.WindowFrame Router.Window Router.WindowStep.
From Rumqtt Require Router.DataLogStep.

(* ------------------------------------------------------------------ C09 (c): unsolicited acks *)
(** an acknowledgement the broker did not solicit: not the head of the inflight buffer
    (PUBACK / PUBREC), not the head of the pubrel queue (PUBCOMP) *)
Definition unsolicited (o : outgoing) (pk : packet) : Prop :=
  match pk with
  | PPubAck pkid | PPubRec pkid =>
      match o_inflight o with [] => True | h :: _ => pkid <> pkid_of h end
  | PPubComp pkid =>
      match o_pubrels o with [] => True | h :: _ => pkid <> h end
  | _ => False
  end.

Lemma handle_packet_unsolicited st id client pk fl st1 fl1 brk o :
  handle_packet st id client pk fl = Ok (st1, fl1, brk) ->
  slab_get (r_obufs st) id = Some o -> unsolicited o pk ->
  brk = true /\ f_disconnect fl1 = true /\ f_reason fl1 = f_reason fl /\
  f_force_ack fl1 = f_force_ack fl /\ f_new_data fl1 = f_new_data fl /\
  keep st1 = keep (put_obuf st id (match pk with
                                   | PPubComp pkid => fst (register_pubcomp o pkid)
                                   | PPubAck pkid | PPubRec pkid => fst (register_ack o pkid)
                                   | _ => o end)).
Proof.
  intros H G U. destruct pk; try contradiction; cbn [unsolicited] in U;
    unfold handle_packet, get_obuf in H; rewrite G in H; cbn [bind] in H.
  - rewrite (register_ack_mismatch _ _ U) in *. inv_ok. repeat split.
  - rewrite (register_ack_mismatch _ _ U) in *. inv_ok. repeat split.
  - rewrite (register_pubcomp_mismatch _ _ U) in *. inv_ok. repeat split.
Qed.

(** ... and the window / the pending releases of that connection are exactly what they were:
    the unacknowledged head is still there when the connection is closed (and so goes into the
    saved session of a persistent client) *)
Lemma handle_packet_unsolicited_keeps st id client pk fl st1 fl1 brk o :
  handle_packet st id client pk fl = Ok (st1, fl1, brk) ->
  slab_get (r_obufs st) id = Some o -> unsolicited o pk ->
  keep st1 = keep (put_obuf st id o) /\ slab_get (r_obufs st1) id = Some o /\
  (forall id', id' <> id -> slab_get (r_obufs st1) id' = slab_get (r_obufs st) id').
Proof.
  intros H G U. destruct (handle_packet_unsolicited _ _ _ _ _ _ _ _ _ H G U) as (_ & _ & _ & _ & _ & K).
  assert (K' : keep st1 = keep (put_obuf st id o)).
  { rewrite K. destruct pk; try contradiction; cbn [unsolicited] in U.
    - now rewrite (register_ack_mismatch _ _ U).
    - now rewrite (register_ack_mismatch _ _ U).
    - now rewrite (register_pubcomp_mismatch _ _ U). }
  split; [exact K' |]. rewrite (keep_obufs _ _ K'). cbn [put_obuf r_obufs set_r_obufs]. split.
  - eapply slab_get_put_occ; eauto.
  - intros id' Hne. apply slab_get_put_other. congruence.
Qed.

(** [handle_device_payload] after a batch that set the disconnect flag: it disconnects THIS id *)
Lemma handle_device_payload_disc st id inc b st1 fl :
  slab_get (r_ibufs st) id = Some inc -> nthN (r_links st) (i_link inc) = Some b ->
  handle_packets (link_put st (i_link inc) (set_lk_in b [])) id (i_client inc) (lk_in b) flags0 = Ok (st1, fl) ->
  f_disconnect fl = true ->
  handle_device_payload st id =
    (do st2 <- (if f_force_ack fl then reschedule st1 id SFreshData else Ok st1);
     do st3 <- (if f_new_data fl then drain_notifications st2 else Ok st2);
     handle_disconnection st3 id (f_reason fl)).
Proof.
  intros G Hb H D. unfold handle_device_payload, link_get. rewrite G, Hb. cbn [bind]. rewrite H. cbn [bind].
  rewrite D. reflexivity.
Qed.

(** frame of [handle_disconnection]: it closes [id] and touches no other key of the five slabs *)
Lemma handle_disconnection_others st id reason st' :
  handle_disconnection st id reason = Ok st' ->
  slab_get (r_obufs st') id = None /\
  forall id', id' <> id ->
    slab_get (r_conns st') id' = slab_get (r_conns st) id' /\
    slab_get (r_obufs st') id' = slab_get (r_obufs st) id' /\
    slab_get (r_trackers st') id' = slab_get (r_trackers st) id' /\
    slab_get (r_acks st') id' = slab_get (r_acks st) id' /\
    slab_get (r_ibufs st') id' = slab_get (r_ibufs st) id'.
Proof.
  intros H. destruct (slab_get (r_obufs st) id) as [o0 |] eqn:G.
  - destruct (handle_disconnection_frame _ _ _ _ _ H G) as (F1 & F2 & F3 & F4 & F5 & _).
    split; [rewrite F1; now replace (id =? id) with true by lia |].
    intros id' Hne. rewrite F1, F2, F3, F4, F5. replace (id' =? id) with false by lia. repeat split.
  - rewrite (handle_disconnection_noop _ _ _ G) in H. inv_ok. split; [exact G | repeat split].
Qed.

(** packet [p] of the batch is reached, in state [s] with flags [fls] *)
Inductive processed (id : N) (client : str) : rstate -> flags -> list packet -> rstate -> flags -> packet -> Prop :=
| pr_here st fl pk r : processed id client st fl (pk :: r) st fl pk
| pr_later st fl pk r st1 fl1 s fls p :
    handle_packet st id client pk fl = Ok (st1, fl1, false) ->
    processed id client st1 fl1 r s fls p ->
    processed id client st fl (pk :: r) s fls p.

Lemma processed_eq id client st fl pks s fls p :
  processed id client st fl pks s fls p ->
  exists rest, handle_packets st id client pks fl = handle_packets s id client (p :: rest) fls.
Proof.
  induction 1 as [st fl pk r | st fl pk r st1 fl2 s fls p H1 H2 [rest IH]].
  - exists r. reflexivity.
  - exists rest. rewrite <- IH. cbn [handle_packets]. rewrite H1. reflexivity.
Qed.

(** a packet of the batch of connection [id] that stops the batch with the disconnect flag set
    closes [id]: the rest of the batch is not processed, [handle_disconnection] runs on a state
    [st3] that has the obufs / acks / links of the state [s1] right after that packet *)
Lemma batch_break_closes st id inc b s fls p s1 fl1 st' :
  slab_get (r_ibufs st) id = Some inc -> nthN (r_links st) (i_link inc) = Some b ->
  processed id (i_client inc) (link_put st (i_link inc) (set_lk_in b [])) flags0 (lk_in b) s fls p ->
  handle_packet s id (i_client inc) p fls = Ok (s1, fl1, true) -> f_disconnect fl1 = true ->
  handle_device_payload st id = Ok st' ->
  exists st3,
    handle_packets (link_put st (i_link inc) (set_lk_in b [])) id (i_client inc) (lk_in b) flags0 = Ok (s1, fl1) /\
    keep st3 = keep s1 /\ r_datalog st3 = r_datalog s1 /\
    handle_disconnection st3 id (f_reason fl1) = Ok st' /\
    slab_get (r_obufs st') id = None /\
    forall id', id' <> id ->
      slab_get (r_conns st') id' = slab_get (r_conns st3) id' /\
      slab_get (r_obufs st') id' = slab_get (r_obufs st3) id' /\
      slab_get (r_trackers st') id' = slab_get (r_trackers st3) id' /\
      slab_get (r_acks st') id' = slab_get (r_acks st3) id' /\
      slab_get (r_ibufs st') id' = slab_get (r_ibufs st3) id'.
Proof.
  intros G Hb P H1 D H.
  destruct (processed_eq _ _ _ _ _ _ _ _ P) as (rest & EQ).
  assert (HPs : handle_packets (link_put st (i_link inc) (set_lk_in b [])) id (i_client inc) (lk_in b) flags0 = Ok (s1, fl1)).
  { rewrite EQ. cbn [handle_packets]. rewrite H1. reflexivity. }
  rewrite (handle_device_payload_disc _ _ _ _ _ _ G Hb HPs D) in H.
  apply bind_ok in H as (st2 & H2 & H). apply bind_ok in H as (st3 & H3 & H).
  exists st3. split; [exact HPs |].
  split.
  { assert (K2 : keep st2 = keep s1) by (destruct (f_force_ack fl1); [now apply reschedule_keep in H2 | now inv_ok]).
    assert (K3 : keep st3 = keep st2) by (destruct (f_new_data fl1); [now apply drain_notifications_keep in H3 | now inv_ok]).
    congruence. }
  split.
  { assert (K2 : r_datalog st2 = r_datalog s1).
    { destruct (f_force_ack fl1); [| now inv_ok]. eapply DataLogStep.reschedule_dl; eauto. }
    assert (K3 : r_datalog st3 = r_datalog st2).
    { destruct (f_new_data fl1); [| now inv_ok]. eapply DataLogStep.drain_notifications_dl; eauto. }
    congruence. }
  split; [exact H |]. now apply handle_disconnection_others in H.
Qed.

(** C09 (c), end to end: an unsolicited ack anywhere in the batch of connection [id] ends the
    batch there and closes [id]; whatever happened to the other connections' slab entries
    happened before the disconnection (i.e. by the regular processing of the packets before) *)
Theorem c09_unsolicited_thm st id inc b s fls p o st' :
  slab_get (r_ibufs st) id = Some inc -> nthN (r_links st) (i_link inc) = Some b ->
  processed id (i_client inc) (link_put st (i_link inc) (set_lk_in b [])) flags0 (lk_in b) s fls p ->
  slab_get (r_obufs s) id = Some o -> unsolicited o p ->
  handle_device_payload st id = Ok st' ->
  exists s1 fl1 st3,
    handle_packet s id (i_client inc) p fls = Ok (s1, fl1, true) /\ f_disconnect fl1 = true /\
    handle_packets (link_put st (i_link inc) (set_lk_in b [])) id (i_client inc) (lk_in b) flags0 = Ok (s1, fl1) /\
    keep st3 = keep s1 /\
    handle_disconnection st3 id (f_reason fl1) = Ok st' /\
    slab_get (r_obufs st') id = None /\
    forall id', id' <> id ->
      slab_get (r_conns st') id' = slab_get (r_conns st3) id' /\
      slab_get (r_obufs st') id' = slab_get (r_obufs st3) id' /\
      slab_get (r_trackers st') id' = slab_get (r_trackers st3) id' /\
      slab_get (r_acks st') id' = slab_get (r_acks st3) id' /\
      slab_get (r_ibufs st') id' = slab_get (r_ibufs st3) id'.
Proof.
  intros G Hb P Go U H.
  destruct (processed_eq _ _ _ _ _ _ _ _ P) as (rest & EQ).
  pose proof H as H0. unfold handle_device_payload, link_get in H0. rewrite G, Hb in H0. cbn [bind] in H0.
  rewrite EQ in H0. cbn [handle_packets] in H0.
  apply bind_ok in H0 as ([s1' fl1'] & H1 & H0). apply bind_ok in H1 as ([[s1 fl1] brk] & H1 & H2).
  destruct (handle_packet_unsolicited _ _ _ _ _ _ _ _ _ H1 Go U) as (-> & D & _).
  inv_ok. exists s1', fl1'.
  destruct (batch_break_closes _ _ _ _ _ _ _ _ _ _ G Hb P H1 D H) as (st3 & HPs & K & _ & HD & R).
  exists st3. repeat (split; [assumption |]). exact R.
Qed.

(* ------------------------------------------------------------------ C09 (d): resume after an in-order ack *)
(** the effect of [reschedule .. SIncomingAck] on a tracker *)
Definition woken (t : tracker) : tracker * bool :=
  match tr_status t with
  | Paused InflightFull | Paused Caughtup => (set_tr_status t Ready, true)
  | _ => (t, false)
  end.

Lemma reschedule_ack_spec st id t :
  slab_get (r_trackers st) id = Some t ->
  reschedule st id SIncomingAck =
    Ok (let st1 := put_tracker st id (fst (woken t)) in
        if snd (woken t) then set_r_ready st1 (r_ready st ++ [id]) else st1).
Proof.
  intros G. unfold reschedule, get_tracker, try_ready, woken. rewrite G. cbn [bind].
  destruct (tr_status t) as [| []]; reflexivity.
Qed.

(** in-order PUBACK: the head of the window is released and the tracker is rescheduled *)
Lemma handle_packet_puback_inorder st id client pkid fl o h r t :
  slab_get (r_obufs st) id = Some o -> o_inflight o = h :: r -> pkid = pkid_of h ->
  slab_get (r_trackers st) id = Some t ->
  handle_packet st id client (PPubAck pkid) fl =
    Ok (let st1 := put_tracker (put_obuf st id (set_o_inflight o r)) id (fst (woken t)) in
        if snd (woken t) then set_r_ready st1 (r_ready st ++ [id]) else st1, fl, false).
Proof.
  intros G E -> Gt. unfold handle_packet, get_obuf. rewrite G. cbn [bind]. unfold register_ack. rewrite E.
  destruct h as [[hp x] y]. cbn [pkid_of fst]. replace (hp =? hp) with true by lia.
  rewrite (reschedule_ack_spec _ _ t) by exact Gt. reflexivity.
Qed.

(** in-order PUBREC: same, and PUBREL is queued *)
Lemma handle_packet_pubrec_inorder st id client pkid fl o h r t l :
  slab_get (r_obufs st) id = Some o -> o_inflight o = h :: r -> pkid = pkid_of h ->
  slab_get (r_trackers st) id = Some t -> slab_get (r_acks st) id = Some l ->
  handle_packet st id client (PPubRec pkid) fl =
    Ok (let st0 := put_acks (put_obuf st id (set_o_pubrels (set_o_inflight o r) (o_pubrels o ++ [pkid]))) id
                     (set_a_committed l (a_committed l ++ [APubRel pkid])) in
        let st1 := put_tracker st0 id (fst (woken t)) in
        if snd (woken t) then set_r_ready st1 (r_ready st ++ [id]) else st1, fl, false).
Proof.
  intros G E -> Gt Ga. unfold handle_packet, get_obuf, commit_ack, get_acks. rewrite G. cbn [bind]. unfold register_ack. rewrite E.
  destruct h as [[hp x] y]. cbn [pkid_of fst]. replace (hp =? hp) with true by lia.
  rewrite Ga. cbn [bind]. rsimpl. rewrite Ga. cbn [bind].
  rewrite (reschedule_ack_spec _ _ t) by exact Gt. reflexivity.
Qed.

(** the tracker after an in-order ack, by pause state: InflightFull / Caughtup -> Ready and
    queued; Ready -> unchanged; Busy -> unchanged (the link owes an [OpReady]) *)
Lemma woken_cases t :
  match tr_status t with
  | Paused InflightFull | Paused Caughtup =>
      tr_status (fst (woken t)) = Ready /\ snd (woken t) = true /\ tr_reqs (fst (woken t)) = tr_reqs t
  | Ready | Paused Busy => woken t = (t, false)
  end.
Proof. unfold woken. destruct (tr_status t) as [| []]; repeat split. Qed.

(** [OpReady] on a Busy tracker makes it Ready and queues it *)
Lemma step_ready_busy st id t :
  slab_get (r_trackers st) id = Some t -> tr_status t = Paused Busy ->
  step st (OpReady id) =
    Ok (set_r_ready (put_tracker st id (set_tr_status t Ready)) (r_ready st ++ [id]), OutUnit).
Proof.
  intros G S. unfold step, reschedule, get_tracker, try_ready. rewrite G. cbn [bind]. rewrite S. reflexivity.
Qed.

(** [consume] of a ready connection takes ALL its data requests: the tracker is left with none
    and the whole list goes to the loop over [forward_device_data] *)
Lemma consume_takes_all st id rest t o :
  r_ready st = id :: rest -> slab_get (r_trackers st) id = Some t -> slab_get (r_obufs st) id = Some o ->
  consume st =
    (let st2 := set_r_ready (put_tracker (set_r_ready st rest) id (set_tr_reqs t [])) (rest ++ [id]) in
     do st3 <- ack_device_data st2 id o;
     do _ <- (match slab_get (r_conns st3) id with Some _ => Ok tt | None => Panic P_OBUF_INDEX end);
     do st4 <- consume_loop (N.to_nat MAX_SCHEDULE_ITERATIONS) st3 id (tr_reqs t) [];
     Ok (st4, true)).
Proof.
  intros ER Gt Go. unfold consume. rewrite ER. rsimpl. rewrite Gt. cbv zeta. rsimpl. rewrite Go. reflexivity.
Qed.

(** the loop hands the first pending request to [forward_device_data], and goes on with the
    rest unless the link buffer or the window is full *)
Lemma consume_loop_next fuel st id rq rest skipped :
  consume_loop (S fuel) st id (rq :: rest) skipped =
    (do (st1, rq', status) <- forward_device_data st id rq;
     match status with
     | BufferFull => do st2 <- pause st1 id Busy; trackv st2 id ((rest ++ [rq']) ++ skipped)
     | SInflightFull => do st2 <- pause st1 id InflightFull; trackv st2 id ((rest ++ [rq']) ++ skipped)
     | FilterCaughtup => do st2 <- park st1 id rq'; consume_loop fuel st2 id rest skipped
     | PartialRead => consume_loop fuel st1 id (rest ++ [rq']) skipped
     | SkipRequest => consume_loop fuel st1 id rest (skipped ++ [rq'])
     end).
Proof. reflexivity. Qed.
