(** wp-specifications of append_to_commitlog, handle_disconnection, handle_new_connection. *)
From Rumqtt Require Import Router.Inv Router.InvLemmasPrim Router.InvLemmasSched Router.InvLemmasDl.
From Coq Require Import Arith ZifyBool ZifyN ZifyNat.

Ltac leaf := cbn [wp fst snd]; repeat match goal with |- _ /\ _ => split end; auto with rinv; try discriminate; try congruence.

(* ------------------------------------------------------------------ append_to_commitlog *)
Definition app_post (st : rstate) (cfg : config) (r : rstate * append_res) : Prop :=
  RInvC cfg (fst r) /\ ext st (fst r) /\ r_ready (fst r) = r_ready st /\
  (snd r <> AppOk -> r_notif (fst r) = r_notif st).

Lemma append_tail_spec cfg st1 p1 (props : option pprops) :
  RInvC cfg st1 ->
  wp cfg (let topic := p_topic p1 in
          if negb (utf8_valid topic) then Ok (st1, AppErr None)
          else
            let st2 := retain_update st1 topic p1 props in
            let p2 := set_p_retain p1 false in
            do (st3, idxs) <- dl_matches st2 topic;
            do st4 <- append_all st3 idxs (p2, props);
            Ok (st4, AppOk))
     (app_post st1 cfg).
Proof.
  intros HI. cbv zeta. destruct (negb (utf8_valid (p_topic p1))); [unfold app_post; leaf|].
  destruct (retain_update_spec cfg st1 (p_topic p1) p1 props HI) as [HI2 F2].
  apply wp_bind. wp_use dl_matches_spec; [exact HI2|]. intros [st3 idxs] (HI3 & F3 & Hidx). cbn [fst snd] in *.
  apply wp_bind. wp_use append_all_spec; [exact HI3|exact Hidx|]. intros st4 (HI4 & E4 & N4 & R4).
  unfold app_post. cbn [wp fst snd]. split; [exact HI4|]. split.
  - eapply ext_trans; [|exact E4]. eapply ext_trans; apply fr_ext; eauto.
  - split; [|congruence]. destruct F2 as (_ & R2 & _), F3 as (_ & R3 & _). congruence.
Qed.

Lemma append_to_commitlog_spec cfg st id p props :
  RInvC cfg st -> occ (lives st) id ->
  wp cfg (append_to_commitlog st id p props) (app_post st cfg).
Proof.
  intros HI Ho. destruct (live_gets _ _ _ HI Ho) as (c & i & o & a & t & Hc & Hi & Hob & Ha & Ht).
  unfold append_to_commitlog. rewrite (get_conn_ok _ _ _ Hc). cbn [bind].
  match goal with |- wp _ (if ?b then _ else _) _ => destruct b end; [unfold app_post; leaf|].
  apply wp_bind.
  set (alias := match props with Some pr => pp_alias pr | None => None end).
  set (props' := match props with Some pr => Some {| pp_alias := None; pp_subids := pp_subids pr; pp_tag := pp_tag pr |} | None => None end).
  assert (Htail : forall st1 p1, RInvC cfg st1 -> fr st st1 ->
     wp cfg (match (inl (st1, p1) : (rstate * publish) + option N) with
             | inr reason => Ok (st, AppErr reason)
             | inl (st1, p1) =>
               let topic := p_topic p1 in
               if negb (utf8_valid topic) then Ok (st1, AppErr None)
               else
                 let st2 := retain_update st1 topic p1 props' in
                 let p2 := set_p_retain p1 false in
                 do (st3, idxs) <- dl_matches st2 topic;
                 do st4 <- append_all st3 idxs (p2, props');
                 Ok (st4, AppOk)
             end) (app_post st cfg)).
  { intros st1 p1 HI1 F1. cbv beta iota. wp_use append_tail_spec; [exact HI1|].
    intros r (H1 & H2 & H3 & H4). destruct F1 as (E1 & R1 & N1). unfold app_post.
    split; [exact H1|]. split; [eapply ext_trans; eauto|]. split; [congruence|]. intros Hr. rewrite (H4 Hr). exact N1. }
  destruct alias as [al|].
  - destruct ((al =? 0) || (TOPIC_ALIAS_MAX <? al)); [unfold app_post; leaf|].
    destruct (p_topic p) as [|t0 tr] eqn:Et.
    + destruct (al_get N.eqb al (c_aliases c)); [|unfold app_post; leaf].
      apply wp_ok. apply Htail; [exact HI|apply fr_refl].
    + destruct (utf8_valid (t0 :: tr)); [|unfold app_post; leaf].
      apply wp_ok. apply Htail.
      * eapply RInv_put_conn; eauto.
      * frame_tac.
  - destruct (p_topic p); [unfold app_post; leaf|]. apply wp_ok. apply Htail; [exact HI|apply fr_refl].
Qed.

(* ------------------------------------------------------------------ handle_disconnection *)
Lemma set_dr_cursor_ok n rq cu : req_ok n rq -> req_ok n (set_dr_cursor rq cu).
Proof. intros H. exact H. Qed.

Definition groups_ne (gs : list (str * group)) : Prop :=
  Forall (fun ng : str * group => g_clients (snd ng) <> []) gs.

Lemma rewind_requests_spec n retr : forall rqs gs,
  Forall (req_ok n) rqs -> groups_ne gs ->
  exists rqs' gs', rewind_requests rqs retr gs = Ok (rqs', gs') /\ Forall (req_ok n) rqs' /\ groups_ne gs'.
Proof.
  induction rqs as [|rq rqs IH]; intros gs Hr Hg; cbn [rewind_requests]; [eauto|].
  inversion Hr as [|? ? Hrq Hr']; subst.
  destruct (al_get N.eqb (dr_idx rq) retr) as [cu|].
  - assert (Hfin : forall gs1, groups_ne gs1 ->
      exists rqs' gs', (do (r', gs2) <- rewind_requests rqs retr gs1; Ok (set_dr_cursor rq cu :: r', gs2)) = Ok (rqs', gs') /\
                       Forall (req_ok n) rqs' /\ groups_ne gs').
    { intros gs1 Hg1. destruct (IH gs1 Hr' Hg1) as (r' & gs2 & E & H1 & H2). rewrite E. cbn [bind].
      exists (set_dr_cursor rq cu :: r'), gs2. split; [reflexivity|]. split; [|exact H2]. constructor; [exact Hrq|exact H1]. }
    destruct (dr_group rq) as [name|]; [|cbn [bind]; apply Hfin; exact Hg].
    destruct (al_get str_eqb name gs) as [g|] eqn:Eg; cbn [bind]; apply Hfin; [|exact Hg].
    apply (Forall_al_set str_eqb (fun g => g_clients g <> [])); [exact Hg|].
    cbn [set_g_cursor g_clients]. exact (al_get_Forall_snd _ (fun g => g_clients g <> []) _ _ _ Hg Eg).
  - destruct (IH gs Hr' Hg) as (r' & gs2 & E & H1 & H2). rewrite E. cbn [bind].
    exists (rq :: r'), gs2. split; [reflexivity|]. split; [|exact H2]. constructor; assumption.
Qed.

Lemma groups_remove_client_ne gs c : groups_ne (groups_remove_client gs c).
Proof.
  induction gs as [|[n g] gs IH]; cbn [groups_remove_client]; [constructor|].
  destruct (g_clients (group_remove_client g c)) eqn:E; [exact IH|].
  constructor; [|exact IH]. cbn [snd]. rewrite E. discriminate.
Qed.

Lemma push_out_eq st k ns :
  k < lenN (r_links st) ->
  exists b, nthN (r_links st) k = Some b /\
            push_out st k ns = Ok (link_put st k (set_lk_out b (lk_out b ++ ns)), lenN (lk_out b ++ ns)).
Proof.
  intros Hk. destruct (nthN_lt _ _ Hk) as [b Hb]. exists b. split; [exact Hb|].
  unfold push_out, link_get. rewrite Hb. reflexivity.
Qed.

Definition disc_post (cfg : config) (st : rstate) (id : N) (st' : rstate) : Prop :=
  RInvC cfg st' /\ r_notif st' = [] /\ lenN (r_links st') = lenN (r_links st) /\
  (forall k c, slab_get (r_conns st') k = Some c -> slab_get (r_conns st) k = Some c /\ k <> id).

Lemma slab_remove_get {A} (s : slab A) k a :
  slab_get s k = Some a -> slab_remove s k = Some ({| sl_items := setN (sl_items s) k None; sl_free := k :: sl_free s |}, a).
Proof. intros H. unfold slab_remove. now rewrite H. Qed.

(** the part of handle_disconnection after the optional Disconnect notification *)
Lemma disc_core cfg st0 id o0 :
  RInvC cfg st0 -> r_notif st0 = [] -> slab_get (r_obufs st0) id = Some o0 ->
  wp cfg
    (match slab_remove (r_conns st0) id, slab_remove (r_ibufs st0) id,
           slab_remove (r_obufs st0) id, slab_remove (r_trackers st0) id with
     | Some (conns, conn), Some (ibufs, _), Some (obufs, outg), Some (trackers, trk) =>
         match slab_remove (r_acks st0) id with
         | None => Panic P_REMOVE
         | Some (acks, _) =>
             let '(dl, inflight_rqs) := dl_clean (r_datalog st0) id in
             let retr := retransmission_map (o_inflight outg) [] in
             let groups := groups_remove_client (r_groups st0) (o_client o0) in
             let submap := submap_remove_id (r_submap st0) (c_subs conn) id in
             do (grave, groups') <-
               (if negb (c_clean conn) then
                  let rqs := tr_reqs trk ++ inflight_rqs in
                  do (rqs', gs) <- rewind_requests rqs retr groups;
                  let trk' := {| tr_id := tr_id trk; tr_reqs := rqs'; tr_status := Paused Busy |} in
                  Ok (al_set str_eqb (tr_id trk)
                             (Some {| ss_tracker := trk'; ss_subs := c_subs conn; ss_pubrels := o_pubrels outg |})
                             (al_remove str_eqb (tr_id trk) (r_graveyard st0)), gs)
                else
                  Ok (al_set str_eqb (tr_id trk) None (al_remove str_eqb (tr_id trk) (r_graveyard st0)), groups));
             Ok {| r_cfg := r_cfg st0; r_graveyard := grave; r_conns := conns;
                   r_cmap := al_remove str_eqb (o_client o0) (r_cmap st0); r_submap := submap;
                   r_ibufs := ibufs; r_obufs := obufs; r_datalog := dl; r_acks := acks;
                   r_trackers := trackers; r_ready := r_ready st0; r_notif := r_notif st0;
                   r_groups := groups'; r_wills := r_wills st0; r_links := r_links st0;
                   r_oracle := r_oracle st0 |}
         end
     | _, _, _, _ => Panic P_REMOVE
     end) (disc_post cfg st0 id).
Proof.
  intros HI Hn Hob.
  destruct (RInv_obuf_live _ _ _ _ HI Hob) as [conn Hc].
  destruct (RInv_live_all _ _ _ _ HI Hc) as (ib & o' & ak & trk & Hi & Ho' & Ha & Ht).
  assert (o' = o0) by congruence. subst o'.
  rewrite (slab_remove_get _ _ _ Hc), (slab_remove_get _ _ _ Hi), (slab_remove_get _ _ _ Hob),
          (slab_remove_get _ _ _ Ht), (slab_remove_get _ _ _ Ha).
  pose proof (remove_spec _ _ _ _ (slab_remove_get _ _ _ Hc)) as (_ & Hcn & Hco & Hcsh & Hcfr & Hcwf & Hclen).
  pose proof (remove_spec _ _ _ _ (slab_remove_get _ _ _ Hi)) as (_ & _ & Hio & _).
  pose proof (remove_spec _ _ _ _ (slab_remove_get _ _ _ Hob)) as (_ & _ & Hoo & _).
  pose proof (remove_spec _ _ _ _ (slab_remove_get _ _ _ Ht)) as (_ & _ & Hto & _).
  set (conns' := {| sl_items := setN (sl_items (r_conns st0)) id None; sl_free := id :: sl_free (r_conns st0) |}) in *.
  set (ibufs' := {| sl_items := setN (sl_items (r_ibufs st0)) id None; sl_free := id :: sl_free (r_ibufs st0) |}) in *.
  set (obufs' := {| sl_items := setN (sl_items (r_obufs st0)) id None; sl_free := id :: sl_free (r_obufs st0) |}) in *.
  set (trks' := {| sl_items := setN (sl_items (r_trackers st0)) id None; sl_free := id :: sl_free (r_trackers st0) |}) in *.
  set (acks' := {| sl_items := setN (sl_items (r_acks st0)) id None; sl_free := id :: sl_free (r_acks st0) |}) in *.
  destruct (dl_clean (r_datalog st0) id) as [dl inflight_rqs] eqn:Edl.
  destruct (dl_clean_spec _ _ _ _ _ (ri_dl _ _ HI) Edl) as (Hdl' & Hdlen & Hinfl).
  (* facts about surviving keys *)
  assert (Hsurv : forall k c, slab_get conns' k = Some c -> slab_get (r_conns st0) k = Some c /\ k <> id).
  { intros k c0 Hk. destruct (N.eq_dec k id) as [-> | Hne]; [congruence|]. rewrite Hco in Hk by exact Hne. auto. }
  assert (Hal : forall {B} (s2 : slab B) b, aligned (r_conns st0) s2 -> slab_get s2 id = Some b ->
                aligned conns' {| sl_items := setN (sl_items s2) id None; sl_free := id :: sl_free s2 |}).
  { intros B s2 b Hal Hg. destruct (aligned_remove _ _ _ _ _ Hal (slab_remove_get _ _ _ Hc)) as (s2' & b' & Hr & Hal').
    rewrite (slab_remove_get _ _ _ Hg) in Hr. inversion Hr; subst. exact Hal'. }
  (* the graveyard / groups part *)
  assert (Hgr0 : groups_ne (groups_remove_client (r_groups st0) (o_client o0))) by apply groups_remove_client_ne.
  assert (Hrest : forall grave groups',
     Forall (sess_ok (dlen dl)) grave -> groups_ne groups' ->
     disc_post cfg st0 id
       {| r_cfg := r_cfg st0; r_graveyard := grave; r_conns := conns';
          r_cmap := al_remove str_eqb (o_client o0) (r_cmap st0);
          r_submap := submap_remove_id (r_submap st0) (c_subs conn) id;
          r_ibufs := ibufs'; r_obufs := obufs'; r_datalog := dl; r_acks := acks';
          r_trackers := trks'; r_ready := r_ready st0; r_notif := r_notif st0;
          r_groups := groups'; r_wills := r_wills st0; r_links := r_links st0;
          r_oracle := r_oracle st0 |}).
  { intros grave groups' Hgrave Hgroups. unfold disc_post. cbn [r_notif r_links r_conns].
    split; [|split; [exact Hn|split; [reflexivity|exact Hsurv]]].
    constructor; rsimp.
    - apply (ri_cfg _ _ HI).
    - apply (ri_cfg_ok _ _ HI).
    - apply Hcwf. apply (ri_wf _ _ HI).
    - eapply Hal; [apply (ri_al_i _ _ HI)|exact Hi].
    - eapply Hal; [apply (ri_al_o _ _ HI)|exact Hob].
    - eapply Hal; [apply (ri_al_a _ _ HI)|exact Ha].
    - eapply Hal; [apply (ri_al_t _ _ HI)|exact Ht].
    - pose proof (ri_max _ _ HI). lia.
    - intros k c0 Hk. destruct (Hsurv _ _ Hk) as [Hk0 Hne].
      rewrite al_get_remove_neq; [apply (ri_cmap _ _ HI _ _ Hk0)|].
      intros Heq. apply Hne.
      pose proof (ri_cmap _ _ HI _ _ Hk0) as M1. pose proof (ri_cmap _ _ HI _ _ Hc) as M2.
      rewrite (ri_cl_o _ _ HI _ _ _ Hc Hob) in Heq. rewrite Heq in M1. congruence.
    - intros k c0 i0 Hk Hik. destruct (Hsurv _ _ Hk) as [Hk0 Hne]. rewrite Hio in Hik by exact Hne.
      apply (ri_cl_i _ _ HI _ _ _ Hk0 Hik).
    - intros k c0 i0 Hk Hik. destruct (Hsurv _ _ Hk) as [Hk0 Hne]. rewrite Hoo in Hik by exact Hne.
      apply (ri_cl_o _ _ HI _ _ _ Hk0 Hik).
    - intros k c0 i0 Hk Hik. destruct (Hsurv _ _ Hk) as [Hk0 Hne]. rewrite Hto in Hik by exact Hne.
      apply (ri_cl_t _ _ HI _ _ _ Hk0 Hik).
    - intros k i0 Hik. destruct (N.eq_dec k id) as [-> | Hne].
      + pose proof (remove_spec _ _ _ _ (slab_remove_get _ _ _ Hi)) as (_ & X & _). fold ibufs' in X. congruence.
      + rewrite Hio in Hik by exact Hne. apply (ri_ilink _ _ HI _ _ Hik).
    - intros k i0 Hik. destruct (N.eq_dec k id) as [-> | Hne].
      + pose proof (remove_spec _ _ _ _ (slab_remove_get _ _ _ Hob)) as (_ & X & _). fold obufs' in X. congruence.
      + rewrite Hoo in Hik by exact Hne. apply (ri_obuf _ _ HI _ _ Hik).
    - intros k i0 Hik. destruct (N.eq_dec k id) as [-> | Hne].
      + pose proof (remove_spec _ _ _ _ (slab_remove_get _ _ _ Ht)) as (_ & X & _). fold trks' in X. congruence.
      + rewrite Hto in Hik by exact Hne. rewrite Hdlen. apply (ri_trk _ _ HI _ _ Hik).
    - rewrite Hcsh. exact Hdl'.
    - rewrite Hn. constructor.
    - exact Hgrave.
    - exact Hgroups.
    - apply (ri_pkts _ _ HI). }
  assert (Hgv : Forall (sess_ok (dlen dl)) (al_remove str_eqb (tr_id trk) (r_graveyard st0))).
  { apply Forall_al_remove. rewrite Hdlen. apply (ri_grave _ _ HI). }
  cbv zeta. apply wp_bind.
  destruct (negb (c_clean conn)).
  - destruct (rewind_requests_spec (dlen dl) (retransmission_map (o_inflight o0) []) (tr_reqs trk ++ inflight_rqs)
                (groups_remove_client (r_groups st0) (o_client o0))) as (rqs' & gs & E & H1 & H2).
    { rewrite Hdlen. apply Forall_app. split; [apply (ri_trk _ _ HI _ _ Ht)|exact Hinfl]. }
    { exact Hgr0. }
    rewrite E. cbn [bind wp]. apply Hrest; [|exact H2].
    apply Forall_al_set_str; [exact Hgv|]. unfold sess_ok. cbn [snd fst ss_tracker tr_reqs tr_status tr_id]. auto.
  - cbn [wp]. apply Hrest; [|exact Hgr0].
    apply Forall_al_set_str; [exact Hgv|]. unfold sess_ok. cbn [snd]. exact I.
Qed.

Lemma handle_disconnection_spec cfg st id reason :
  RInvC cfg st -> r_notif st = [] ->
  wp cfg (handle_disconnection st id reason) (disc_post cfg st id).
Proof.
  intros HI Hn. unfold handle_disconnection.
  destruct (slab_get (r_obufs st) id) as [o0|] eqn:Hob.
  - destruct reason as [rc|].
    + destruct (push_out_eq st (o_link o0) [NDisconnect rc]) as (b & Hb & Hp).
      { apply (ri_obuf _ _ HI _ _ Hob). }
      rewrite Hp. cbn [bind].
      set (st0 := link_put st (o_link o0) (set_lk_out b (lk_out b ++ [NDisconnect rc]))).
      assert (HI0 : RInvC cfg st0).
      { apply RInv_link_put; [exact HI|]. cbn [set_lk_out lk_in].
        exact (Forall_nthN (fun b => Forall packet_wf (lk_in b)) _ _ _ (ri_pkts _ _ HI) Hb). }
      eapply wp_mono; [apply (disc_core cfg st0 id o0 HI0 Hn Hob)|].
      intros st' (H1 & H2 & H3 & H4). split; [exact H1|]. split; [exact H2|]. split; [|exact H4].
      rewrite H3. unfold st0, link_put. cbn [r_links set_r_links]. apply lenN_setN.
    + cbn [bind]. apply (disc_core cfg st id o0 HI Hn Hob).
  - cbn [wp]. split; [exact HI|]. split; [exact Hn|]. split; [reflexivity|].
    intros k c Hk. split; [exact Hk|]. intros ->.
    destruct (aligned_get _ _ _ _ (ri_al_o _ _ HI) Hk) as [o Ho]. congruence.
Qed.
