(** C14, part 5: the ready queue.  Every event other than [consume] only appends to the ready
    queue; [consume] removes its head (and appends it again unless the connection got paused).
    Hence the number of connections queued ahead of a scheduled connection [w] never grows and
    drops by one with every [consume] call that serves somebody else: no behaviour of the
    other clients (in particular: never draining their link) can starve [w]. *)
From Coq Require Import ZifyBool ZifyN ZifyNat Permutation.
From Rumqtt Require Import Router.Inv Router.InvLemmasPrim Router.NoPanic.
From Rumqtt Require Import Router.WindowFrame Router.Window Router.WindowStep Router.WindowDisc Router.WindowResume.
From Rumqtt Require Import Router.IsolationFrame Router.IsolationServe Router.IsolationWake Router.IsolationInv Router.Isolation.
From Rumqtt Require Import Router.Model Router.RunDefs.

Definition rext (st st' : rstate) : Prop := exists tail, r_ready st' = r_ready st ++ tail.

Lemma rext_eq st st' : r_ready st' = r_ready st -> rext st st'.
Proof. intros E. exists []. now rewrite app_nil_r. Qed.
Lemma rext_refl st : rext st st.
Proof. now apply rext_eq. Qed.
Lemma rext_trans a b c : rext a b -> rext b c -> rext a c.
Proof. intros [t1 E1] [t2 E2]. exists (t1 ++ t2). now rewrite E2, E1, app_assoc. Qed.
Lemma rext_tk st st' : tk st' = tk st -> rext st st'.
Proof. unfold tk. intros E. inversion E. now apply rext_eq. Qed.
Lemma rext_core st st' : core st' = core st -> rext st st'.
Proof. unfold core. intros E. inversion E. now apply rext_eq. Qed.

Lemma reschedule_rext st id why st' : reschedule st id why = Ok st' -> rext st st'.
Proof.
  unfold reschedule, get_tracker. intros H. break_all H; inv_ok.
  - exists [id]. reflexivity.
  - now apply rext_eq.
Qed.
Lemma track_ready st id rq st' : track st id rq = Ok st' -> r_ready st' = r_ready st.
Proof. unfold track, get_tracker. intros H. break_all H; inv_ok. reflexivity. Qed.
Lemma trackv_ready st id rqs st' : trackv st id rqs = Ok st' -> r_ready st' = r_ready st.
Proof. unfold trackv, get_tracker. intros H. break_all H; inv_ok. reflexivity. Qed.
Lemma untrack_ready st id f st' : untrack st id f = Ok st' -> r_ready st' = r_ready st.
Proof. unfold untrack, get_tracker. intros H. break_all H; inv_ok. reflexivity. Qed.
Lemma park_ready st id rq st' : park st id rq = Ok st' -> r_ready st' = r_ready st.
Proof. unfold park. intros H. break_all H; inv_ok. reflexivity. Qed.

Lemma wake_all_rext ns : forall st st', wake_all st ns = Ok st' -> rext st st'.
Proof.
  induction ns as [| [i rq] r IH]; intros st st' H; cbn [wake_all] in H; [inv_ok; apply rext_refl |].
  apply bind_ok in H as (st1 & H1 & H). apply bind_ok in H as (st2 & H2 & H).
  eapply rext_trans; [apply rext_eq; eapply track_ready; eauto |].
  eapply rext_trans; [eapply reschedule_rext; eauto | eauto].
Qed.
Lemma drain_notifications_rext st st' : drain_notifications st = Ok st' -> rext st st'.
Proof. unfold drain_notifications. intros H. apply wake_all_rext in H. exact H. Qed.

Lemma append_to_commitlog_ready st id p props st' res :
  append_to_commitlog st id p props = Ok (st', res) -> r_ready st' = r_ready st.
Proof.
  unfold append_to_commitlog, get_conn. intros H. break_all H; inv_ok;
  repeat match goal with
         | E : dl_matches _ _ = Ok _ |- _ => apply dl_matches_tk in E
         | E : append_all _ _ _ = Ok _ |- _ => apply append_all_tk in E
         end; try reflexivity.
  all: repeat match goal with E : tk _ = tk _ |- _ => unfold tk in E; inversion E; clear E end.
  all: rewrite ?retain_update_tk in *; unfold retain_update in *;
       repeat match goal with |- context [if ?b then _ else _] => destruct b end;
       repeat match goal with H : context [match ?x with _ => _ end] |- _ => destruct x end;
       rsimpl; congruence.
Qed.

Lemma retain_update_ready st t p pr : r_ready (retain_update st t p pr) = r_ready st.
Proof. unfold retain_update. destruct (p_retain p); [destruct (p_payload p) |]; reflexivity. Qed.
Lemma commit_ack_ready st id a st' : commit_ack st id a = Ok st' -> r_ready st' = r_ready st.
Proof. intros H. apply commit_ack_spec in H as (l & _ & ->). reflexivity. Qed.
Lemma next_native_offset_ready st f st' i c : next_native_offset st f = Ok (st', i, c) -> r_ready st' = r_ready st.
Proof. intros H. apply next_native_offset_tk in H. unfold tk in H. now inversion H. Qed.

Lemma prepare_filter_rext st id cu fidx path qos grp subid st' :
  prepare_filter st id cu fidx path qos grp subid = Ok st' -> rext st st'.
Proof.
  unfold prepare_filter, get_conn, dbg_no_dups. intros H. cbv zeta in H.
  match type of H with context [slab_get (r_conns ?s) id] => set (st1 := s) in * end.
  destruct (slab_get (r_conns st1) id) as [conn |] eqn:G; [| discriminate]. cbn [bind] in H.
  match type of H with context [set_mem str_eqb path (c_subs ?c)] => set (conn1 := c) in * end.
  destruct (set_mem str_eqb path (c_subs conn1)).
  - inv_ok. apply rext_eq. reflexivity.
  - apply bind_ok in H as (st4 & H4 & H). apply bind_ok in H as (st5 & H5 & H). apply bind_ok in H as (_ & _ & H).
    inv_ok. apply track_ready in H4. apply reschedule_rext in H5.
    eapply rext_trans; [apply rext_eq; exact H4 | exact H5].
Qed.

Lemma subscribe_filters_rext fs : forall st id subid fl codes st' fl' codes',
  subscribe_filters st id fs subid fl codes = Ok (st', fl', codes') -> rext st st'.
Proof.
  induction fs as [| [path qos] r IH]; intros st id subid fl codes st' fl' codes' H;
    cbn [subscribe_filters] in H.
  - inv_ok. apply rext_refl.
  - destruct (negb (validate_subscription path)); [inv_ok; apply rext_refl |].
    destruct (match extract_group path with Some (g, p) => (Some g, p) | None => (None, path) end) as [grp filter].
    destruct (match subid with Some 0 => true | _ => false end); [inv_ok; apply rext_refl |].
    apply bind_ok in H as ([[st1 idx] cu] & H1 & H). apply bind_ok in H as (st2 & H2 & H).
    apply next_native_offset_ready in H1. apply prepare_filter_rext in H2. apply IH in H.
    eapply rext_trans; [apply rext_eq; exact H1 |]. eapply rext_trans; eauto.
Qed.

Lemma unsubscribe_filters_ready fs : forall st id client reasons st' reasons',
  unsubscribe_filters st id client fs reasons = Ok (st', reasons') -> r_ready st' = r_ready st.
Proof.
  induction fs as [| f r IH]; intros st id client reasons st' reasons' H;
    cbn [unsubscribe_filters] in H.
  - now inv_ok.
  - cbv zeta in H.
    destruct (negb _) in H; [now apply IH in H |].
    match type of H with context [get_conn ?s id] => remember s as st1 eqn:Est1 end.
    assert (K1 : r_ready st1 = r_ready st) by (subst st1; destruct (al_get str_eqb f (r_submap st)); reflexivity).
    clear Est1.
    apply bind_ok in H as (conn & H1 & H).
    destruct (negb _) in H; [apply IH in H; congruence |].
    apply bind_ok in H as (st4 & H4 & H). apply bind_ok in H as (st5 & H5 & H).
    apply IH in H. apply untrack_ready in H4. unfold remove_waiters_for_id in H5. inv_ok.
    rewrite H. rsimpl. rewrite H4. rsimpl. exact K1.
Qed.

Lemma handle_packet_rext st id client pk fl st' fl' brk :
  handle_packet st id client pk fl = Ok (st', fl', brk) -> rext st st'.
Proof.
  intros H. destruct pk; unfold handle_packet in H.
  - cbv zeta in H. destruct (p_qos p =? 1).
    + apply bind_ok in H as (st1 & H1 & H). apply commit_ack_ready in H1.
      apply bind_ok in H as ([st2 res] & H2 & H). apply append_to_commitlog_ready in H2.
      apply rext_eq. destruct res; inv_ok; congruence.
    + destruct (p_qos p =? 2).
      * apply bind_ok in H as (l & _ & H). inv_ok. apply rext_eq. reflexivity.
      * apply bind_ok in H as ([st2 res] & H2 & H). apply append_to_commitlog_ready in H2.
        apply rext_eq. destruct res; inv_ok; congruence.
  - apply bind_ok in H as ([[st1 fl1] codes] & H1 & H). apply bind_ok in H as (st2 & H2 & H). inv_ok.
    apply subscribe_filters_rext in H1. apply commit_ack_ready in H2.
    eapply rext_trans; [exact H1 | apply rext_eq; exact H2].
  - apply bind_ok in H as (c0 & _ & H). apply bind_ok in H as ([st1 reasons] & H1 & H).
    apply bind_ok in H as (st2 & H2 & H). inv_ok.
    apply unsubscribe_filters_ready in H1. apply commit_ack_ready in H2. apply rext_eq. congruence.
  - apply bind_ok in H as (o & _ & H). destruct (register_ack o pkid) as [o' ok]. destruct ok.
    + apply bind_ok in H as (st2 & H2 & H). inv_ok. apply reschedule_rext in H2. exact H2.
    + inv_ok. apply rext_eq. reflexivity.
  - apply bind_ok in H as (o & _ & H). destruct (register_ack o pkid) as [o' ok]. destruct ok.
    + apply bind_ok in H as (l & _ & H). apply bind_ok in H as (st2 & H2 & H). apply bind_ok in H as (st3 & H3 & H).
      inv_ok. apply commit_ack_ready in H2. apply reschedule_rext in H3.
      eapply rext_trans; [apply rext_eq; exact H2 | exact H3].
    + inv_ok. apply rext_eq. reflexivity.
  - apply bind_ok in H as (l & _ & H). destruct (a_recorded l) as [| [p props] rec].
    + inv_ok. apply rext_eq. reflexivity.
    + apply bind_ok in H as ([st2 res] & H2 & H). apply append_to_commitlog_ready in H2.
      destruct res; [| inv_ok; apply rext_eq; exact H2].
      apply bind_ok in H as (st3 & H3 & H). inv_ok. apply reschedule_rext in H3.
      eapply rext_trans; [apply rext_eq; exact H2 | exact H3].
  - apply bind_ok in H as (o & _ & H). destruct (register_pubcomp o pkid) as [o' ok].
    destruct ok; inv_ok; apply rext_eq; reflexivity.
  - apply bind_ok in H as (st1 & H1 & H). inv_ok. apply rext_eq. eapply commit_ack_ready; eauto.
  - inv_ok. apply rext_eq. reflexivity.
  - inv_ok. apply rext_refl.
Qed.

Lemma handle_packets_rext pks : forall st id client fl st' fl',
  handle_packets st id client pks fl = Ok (st', fl') -> rext st st'.
Proof.
  induction pks as [| pk r IH]; intros st id client fl st' fl' H; cbn [handle_packets] in H.
  - inv_ok. apply rext_refl.
  - apply bind_ok in H as ([[st1 fl1] brk] & H1 & H). apply handle_packet_rext in H1.
    destruct brk; [now inv_ok |]. eapply rext_trans; eauto.
Qed.

Lemma handle_disconnection_ready st id reason st' :
  handle_disconnection st id reason = Ok st' -> r_ready st' = r_ready st.
Proof.
  intros H. destruct (slab_get (r_obufs st) id) as [o0 |] eqn:G.
  2:{ rewrite (handle_disconnection_noop _ _ _ G) in H. now inv_ok. }
  unfold handle_disconnection in H. rewrite G in H.
  apply bind_ok in H as (st0 & H0 & H).
  assert (F0 : st0 = set_r_links st (r_links st0)).
  { destruct reason as [rc |].
    - apply bind_ok in H0 as ([s l] & H0 & H1). inv_ok. eapply push_out_fields; eauto.
    - inv_ok. now destruct st0. }
  rewrite F0 in H. clear F0 H0. rsimpl. break_all H; inv_ok; reflexivity.
Qed.

Lemma handle_device_payload_rext st id st' : handle_device_payload st id = Ok st' -> rext st st'.
Proof.
  unfold handle_device_payload, link_get. intros H.
  destruct (slab_get (r_ibufs st) id) as [inc |]; [| inv_ok; apply rext_refl].
  destruct (nthN (r_links st) (i_link inc)) as [b |] eqn:Hb; [| discriminate]. cbn [bind] in H.
  apply bind_ok in H as ([st1 fl] & H1 & H). apply bind_ok in H as (st2 & H2 & H).
  apply bind_ok in H as (st3 & H3 & H).
  apply handle_packets_rext in H1.
  assert (A : rext st st3).
  { eapply (rext_trans st (link_put st (i_link inc) (set_lk_in b []))); [apply rext_eq; reflexivity |].
    eapply rext_trans; [exact H1 |]. eapply rext_trans.
    - destruct (f_force_ack fl); [eapply reschedule_rext; eauto | inv_ok; apply rext_refl].
    - destruct (f_new_data fl); [eapply drain_notifications_rext; eauto | inv_ok; apply rext_refl]. }
  destruct (f_disconnect fl); [| now inv_ok].
  apply handle_disconnection_ready in H. eapply rext_trans; [exact A | now apply rext_eq].
Qed.

Lemma handle_last_will_rext st c st' : handle_last_will st c = Ok st' -> rext st st'.
Proof.
  unfold handle_last_will. intros H.
  destruct (al_get str_eqb c (r_wills st)); [| inv_ok; apply rext_refl]. cbv zeta in H.
  destruct (negb (utf8_valid _)) in H; [inv_ok; apply rext_eq; reflexivity |].
  match type of H with (if ?b then _ else _) = _ => destruct b end; [inv_ok; apply rext_eq; reflexivity |].
  apply bind_ok in H as ([st3 idxs] & H3 & H). apply bind_ok in H as (st4 & H4 & H).
  apply dl_matches_tk in H3. apply append_all_tk in H4. apply drain_notifications_rext in H.
  eapply rext_trans; [| exact H]. apply rext_eq.
  unfold tk in *. inversion H3. inversion H4. rewrite retain_update_ready in *. rsimpl. congruence.
Qed.

Lemma handle_new_connection_rext st conn link st' : handle_new_connection st conn link = Ok st' -> rext st st'.
Proof.
  unfold handle_new_connection. intros H.
  destruct (negb (validate_clientid (c_client conn))); [inv_ok; apply rext_refl |].
  apply bind_ok in H as (st1 & H1 & H).
  assert (A1 : r_ready st1 = r_ready st).
  { destruct (al_get str_eqb (c_client conn) (r_cmap st)); [eapply handle_disconnection_ready; eauto | now inv_ok]. }
  destruct (cf_max_connections (r_cfg st1) <=? slab_len (r_conns st1)); [inv_ok; now apply rext_eq |].
  unfold dbg_no_dups in H. break_all H; inv_ok.
  all: match goal with E : reschedule ?s _ _ = Ok _ |- _ => apply reschedule_rext in E;
         eapply rext_trans; [| exact E]; apply rext_eq; rsimpl; exact A1 end.
Qed.

(* ------------------------------------------------------------------ consume *)
Lemma core_ready st st' : core st' = core st -> r_ready st' = r_ready st.
Proof. unfold core. intros E. now inversion E. Qed.

Lemma fdd_push_ready st1 id o conn sg rq2 publishes caughtup st' rq' cs :
  fdd_push st1 id o conn sg rq2 publishes caughtup = Ok (st', rq', cs) -> r_ready st' = r_ready st1.
Proof.
  unfold fdd_push. intros H. cbv zeta in H.
  destruct (2 <? dr_qos rq2); [discriminate |].
  destruct (alias_forwards (c_baliases conn) (dr_qos rq2) (al_get str_eqb (dr_filter rq2) (c_subids conn)) publishes)
    as [bal forwards] eqn:EA.
  match type of H with (match ?x with _ => _ end) = _ => destruct x as [o1 notifs] eqn:E1 end.
  apply bind_ok in H as ([st4 len] & H4 & H).
  apply bind_ok in H as (st5 & H5 & H).
  apply push_out_core in H4. apply core_ready in H4. rsimpl.
  assert (B : r_ready st5 = r_ready st4).
  { destruct sg as [[name g0] |]; [| now inv_ok].
    destruct (al_get str_eqb name (r_groups st4)) as [g |]; [| now inv_ok].
    apply bind_ok in H5 as ([s g'] & H5 & H6). inv_ok.
    apply update_next_client_core in H5. apply core_ready in H5. rsimpl. exact H5. }
  destruct (MAX_CHANNEL_CAPACITY - 1 <=? len).
  - apply bind_ok in H as ([st6 l6] & H6 & H). inv_ok. apply push_out_core in H6. apply core_ready in H6. congruence.
  - inv_ok. congruence.
Qed.

Lemma forward_device_data_ready st id rq st' rq' cs :
  forward_device_data st id rq = Ok (st', rq', cs) -> r_ready st' = r_ready st.
Proof.
  rewrite fdd_alt_eq. unfold fdd_alt, get_obuf. intros H.
  destruct (slab_get (r_obufs st) id) as [o |] eqn:G; [| discriminate]. cbn [bind] in H.
  destruct (slab_get (r_conns st) id) as [conn |] eqn:Gc; [| discriminate]. cbn [bind] in H.
  cbv zeta in H.
  set (sg := match dr_group rq with
             | Some name => match al_get str_eqb name (r_groups st) with
                            | Some g => Some (name, g) | None => None end
             | None => None end) in *.
  set (rq0 := match sg with Some (_, g) => set_dr_cursor rq (g_cursor g) | None => rq end) in *.
  apply bind_ok in H as (slots0 & HS & H).
  destruct (negb (dr_qos rq0 =? 0) && (slots0 =? 0)) eqn:EF; [now inv_ok |].
  apply bind_ok in H as ([[[st1 rq1] retained] slots2] & HR & H).
  apply fdd_retained_core in HR. apply core_ready in HR.
  apply bind_ok in H as (d & _ & H). apply bind_ok in H as ([pos from_log] & HV & H).
  destruct (match pos with Next s e => (s, e, false) | Done s e => (s, e, true) end) as [[start next] caughtup].
  match type of H with (if ?b then _ else _) = _ => destruct b end; [now inv_ok |].
  match type of H with match ?l with [] => _ | _ => _ end = _ => remember l as publishes eqn:EP end.
  destruct publishes; [now inv_ok |].
  apply fdd_push_ready in H. congruence.
Qed.

Lemma pause_ready st id why st' : pause st id why = Ok st' -> r_ready st = r_ready st' ++ [id].
Proof.
  unfold pause, get_tracker. intros H.
  destruct (split_last_n (r_ready st)) as [[init last] |] eqn:Es; [| discriminate].
  apply split_last_n_spec in Es.
  destruct (last =? id) eqn:El; [| discriminate]. assert (last = id) by lia. subst last.
  break_all H; inv_ok. rsimpl. exact Es.
Qed.

Lemma consume_loop_ready id : forall fuel st requests skipped st',
  consume_loop fuel st id requests skipped = Ok st' ->
  r_ready st' = r_ready st \/ r_ready st = r_ready st' ++ [id].
Proof.
  induction fuel as [| fuel IH]; intros st requests skipped st' H; cbn [consume_loop] in H.
  - left. eapply trackv_ready; eauto.
  - destruct requests as [| rq rest].
    + apply bind_ok in H as (st1 & H1 & H). apply trackv_ready in H.
      destruct skipped; [right; apply pause_ready in H1; congruence | left; inv_ok; exact H].
    + apply bind_ok in H as ([[st1 rq'] status] & H1 & H). apply forward_device_data_ready in H1.
      destruct status.
      * apply bind_ok in H as (st2 & H2 & H). apply pause_ready in H2. apply trackv_ready in H. right. congruence.
      * apply bind_ok in H as (st2 & H2 & H). apply pause_ready in H2. apply trackv_ready in H. right. congruence.
      * apply bind_ok in H as (st2 & H2 & H). apply park_ready in H2. apply IH in H. rewrite H2, H1 in H. exact H.
      * apply IH in H. rewrite H1 in H. exact H.
      * apply IH in H. rewrite H1 in H. exact H.
Qed.

Lemma ack_device_data_ready st id o st' : ack_device_data st id o = Ok st' -> r_ready st' = r_ready st.
Proof.
  unfold ack_device_data, get_acks. intros H.
  destruct (slab_get (r_acks st) id) as [l |]; [| discriminate]. cbn [bind] in H.
  destruct (a_committed l); [now inv_ok |].
  apply bind_ok in H as ([st2 n] & H2 & H). inv_ok. apply push_out_core in H2. apply core_ready in H2. exact H2.
Qed.

Lemma consume_ready st st' b id rest :
  consume st = Ok (st', b) -> r_ready st = id :: rest ->
  r_ready st' = rest ++ [id] \/ r_ready st' = rest.
Proof.
  unfold consume. intros H ER. rewrite ER in H.
  destruct (slab_get (r_trackers (set_r_ready st rest)) id) as [t |]; [| inv_ok; right; reflexivity].
  cbv zeta in H.
  match type of H with match slab_get (r_obufs ?s) id with _ => _ end = _ => set (st2 := s) in * end.
  assert (R2 : r_ready st2 = rest ++ [id]) by reflexivity.
  destruct (slab_get (r_obufs st2) id) as [o |] eqn:G; [| inv_ok; left; exact R2].
  apply bind_ok in H as (st3 & H3 & H). apply bind_ok in H as (_ & _ & H).
  apply bind_ok in H as (st4 & H4 & H). inv_ok.
  apply ack_device_data_ready in H3. apply consume_loop_ready in H4. rewrite H3, R2 in H4.
  destruct H4 as [E | E]; [left; exact E | right]. apply app_inv_tail in E. now symmetry.
Qed.

(* ------------------------------------------------------------------ who is ahead of w *)
Fixpoint ahead (w : N) (l : list N) : list N :=
  match l with [] => [] | x :: r => if x =? w then [] else x :: ahead w r end.

Lemma ahead_app w l t : In w l -> ahead w (l ++ t) = ahead w l.
Proof.
  induction l as [| x r IH]; intros H; [destruct H |]. cbn [app ahead].
  destruct (N.eqb_spec x w) as [-> | Hne]; [reflexivity |]. f_equal. apply IH.
  destruct H; [congruence | assumption].
Qed.

Lemma step_rext st o st' out :
  step st o = Ok (st', out) -> match o with OpConsume => True | _ => rext st st' end.
Proof.
  intros H. destruct o as [c | k pk | id | | k | id | id | id f | c |]; cbn [step] in H; try exact Logic.I.
  - cbv zeta in H. apply bind_ok in H as (st2 & H2 & H). inv_ok.
    apply handle_new_connection_rext in H2. eapply rext_trans; [| exact H2]. apply rext_eq. reflexivity.
  - destruct (nthN (r_links st) k); inv_ok; apply rext_eq; reflexivity.
  - apply bind_ok in H as (st1 & H1 & H). inv_ok. eapply handle_device_payload_rext; eauto.
  - destruct (nthN (r_links st) k); inv_ok; apply rext_eq; reflexivity.
  - destruct (slab_get (r_trackers st) id); [| inv_ok; apply rext_refl].
    apply bind_ok in H as (st1 & H1 & H). inv_ok. eapply reschedule_rext; eauto.
  - apply bind_ok in H as (st1 & H1 & H). inv_ok. apply rext_eq. eapply handle_disconnection_ready; eauto.
  - apply bind_ok in H as (st1 & H1 & H). inv_ok. apply rext_core. eapply retrieve_shadow_core; eauto.
  - apply bind_ok in H as (st1 & H1 & H). inv_ok. eapply handle_last_will_rext; eauto.
  - inv_ok. apply rext_refl.
Qed.

(** A connection [w] waiting in the ready queue: whatever event not addressed to it happens,
    it stays queued, nobody gets in front of it, and every [consume] call (which serves the
    head, somebody else) removes one connection from in front of it.  When nobody is ahead,
    [w] is the head and the next [consume] is addressed to -- serves -- [w]. *)
Theorem c14_ready_progress_thm st orc o st' out w :
  In w (r_ready st) -> ~ addressed st w o ->
  step_with st orc o = Ok (st', out) ->
  In w (r_ready st') /\
  ahead w (r_ready st') = match o with OpConsume => tl (ahead w (r_ready st)) | _ => ahead w (r_ready st) end.
Proof.
  intros Hin Hna H. unfold step_with in H. apply bind_ok in H as ([st1 out1] & H1 & H).
  destruct (r_oracle st1); [| discriminate]. inv_ok.
  set (st0 := set_r_oracle st orc) in *.
  assert (EXT : rext st0 st' -> In w (r_ready st') /\ ahead w (r_ready st') = ahead w (r_ready st)).
  { intros [t E]. change (r_ready st0) with (r_ready st) in E. rewrite E.
    split; [apply in_or_app; now left | now apply ahead_app]. }
  pose proof (step_rext _ _ _ _ H1) as X.
  destruct o as [c | k pk | id | | k | id | id | id f | c |]; try exact (EXT X).
  cbn [step] in H1. apply bind_ok in H1 as ([st2 b] & H2 & H1). inv_ok.
  destruct (r_ready st) as [| id rest] eqn:ER; [destruct Hin |].
  assert (Hne : id <> w) by (intros ->; apply Hna; cbn; eauto).
  assert (Hin' : In w rest) by (destruct Hin; [congruence | assumption]).
  cbn [ahead]. replace (id =? w) with false by lia. cbn [tl].
  destruct (consume_ready st0 _ _ id rest H2 ER) as [E | E]; rewrite E.
  - split; [apply in_or_app; now left | now apply ahead_app].
  - split; [exact Hin' | reflexivity].
Qed.
