(** C14 — isolation between clients: the frame theorem.

    [proj st w] is the part of the router state that belongs to the connection with slab key
    [w]: its entries in the five per-connection slabs, its requests waiting in
    [notifications], and the two buffers of its link.  Its requests parked on filter log [idx]
    are [waiting st w idx], its occurrences in the ready queue [rdy w st].

    [c14_frame]: an event that is not addressed to [w] leaves [proj st w] unchanged except that
    parked requests of [w] may move, unchanged, to the back of its tracker and its tracker may go
    from [Paused Caughtup] to [Ready] (and [w] is then appended to the ready queue); the
    remaining parked requests are the same ones, up to their order inside one waiter queue. *)
From Coq Require Import ZifyBool ZifyN ZifyNat Permutation.
From Rumqtt Require Import Router.Inv Router.InvLemmasPrim Router.NoPanic.
From Rumqtt Require Import Router.WindowFrame Router.Window Router.WindowStep.
From Rumqtt Require Import Router.WindowDisc Router.Acks Router.AcksRun.
From Rumqtt Require Import Router.IsolationFrame Router.IsolationServe Router.IsolationWake Router.IsolationInv.
From Rumqtt Require Import Router.Model Router.RunDefs.

(* ------------------------------------------------------------------ link buffers of the other connections *)
Lemma in_of_snoc_empty st k :
  in_of (set_r_links st (r_links st ++ [{| lk_in := []; lk_out := [] |}])) k = in_of st k.
Proof.
  unfold in_of. rsimpl. rewrite nthN_app. destruct (k <? lenN (r_links st)) eqn:E; [reflexivity |].
  destruct (nthN (r_links st) k) eqn:G; [apply nthN_some_lt in G; lia |].
  cbn [nthN]. destruct (k - lenN (r_links st) =? 0); reflexivity.
Qed.

Lemma link_put_other st k b l : k <> l ->
  in_of (link_put st k b) l = in_of st l /\ out_of (link_put st k b) l = out_of st l.
Proof. intros H. unfold in_of, out_of. rsimpl. now rewrite nthN_setN_other. Qed.

Lemma links_eq st st' l : r_links st' = r_links st -> in_of st' l = in_of st l /\ out_of st' l = out_of st l.
Proof. intros E. unfold in_of, out_of. now rewrite E. Qed.

Lemma push_out_other st k ns st' len l : push_out st k ns = Ok (st', len) -> k <> l ->
  in_of st' l = in_of st l /\ out_of st' l = out_of st l.
Proof.
  intros H Hne. split; [eapply push_out_in; eauto |]. rewrite (push_out_out _ _ _ _ _ l H).
  now replace (l =? k) with false by lia.
Qed.

Lemma retrieve_shadow_links st id f st' l :
  retrieve_shadow st id f = Ok st' -> (forall o, slab_get (r_obufs st) id = Some o -> o_link o <> l) ->
  in_of st' l = in_of st l /\ out_of st' l = out_of st l.
Proof.
  unfold retrieve_shadow. intros H Hl.
  destruct (slab_get (r_obufs st) id) as [o |]; [| inv_ok; auto].
  specialize (Hl o eq_refl).
  destruct (al_get str_eqb f (dl_findex (r_datalog st))) as [idx |]; [| inv_ok; auto].
  destruct (slab_get (dl_native (r_datalog st)) idx) as [d |]; [| inv_ok; auto].
  apply bind_ok in H as (a & _ & H).
  destruct (last_opt (s_data a)) as [[p pr] |]; [| inv_ok; auto].
  apply bind_ok in H as ([st1 len] & H1 & H). apply (push_out_other _ _ _ _ _ l) in H1 as [A1 A2]; [| exact Hl].
  destruct (MAX_CHANNEL_CAPACITY - 1 <=? len); [| inv_ok; auto].
  apply bind_ok in H as ([st2 len2] & H2 & H). inv_ok.
  apply (push_out_other _ _ _ _ _ l) in H2 as [B1 B2]; [| exact Hl]. split; congruence.
Qed.

Lemma handle_disconnection_links st id reason st' l :
  handle_disconnection st id reason = Ok st' -> (forall o, slab_get (r_obufs st) id = Some o -> o_link o <> l) ->
  in_of st' l = in_of st l /\ out_of st' l = out_of st l.
Proof.
  intros H Hl. destruct (slab_get (r_obufs st) id) as [o0 |] eqn:G.
  - destruct (handle_disconnection_frame _ _ _ _ _ H G) as (_ & _ & _ & _ & _ & F6 & F7 & _).
    split; [apply F7 |]. rewrite F6. specialize (Hl o0 eq_refl).
    destruct reason; [replace (l =? o_link o0) with false by lia |]; apply app_nil_r.
  - rewrite (handle_disconnection_noop _ _ _ G) in H. inv_ok. auto.
Qed.

Lemma handle_device_payload_links st id st' l :
  handle_device_payload st id = Ok st' ->
  (forall i, slab_get (r_ibufs st) id = Some i -> i_link i <> l) ->
  (forall o, slab_get (r_obufs st) id = Some o -> o_link o <> l) ->
  in_of st' l = in_of st l /\ out_of st' l = out_of st l.
Proof.
  unfold handle_device_payload, link_get. intros H Hi Ho.
  destruct (slab_get (r_ibufs st) id) as [inc |]; [| inv_ok; auto]. specialize (Hi inc eq_refl).
  destruct (nthN (r_links st) (i_link inc)) as [b |] eqn:Hb; [| discriminate]. cbn [bind] in H.
  apply bind_ok in H as ([st1 fl] & H1 & H). apply bind_ok in H as (st2 & H2 & H).
  apply bind_ok in H as (st3 & H3 & H).
  apply handle_packets_obs in H1 as [A1 A2].
  assert (K2 : keep st2 = keep st1) by (destruct (f_force_ack fl); [now apply reschedule_keep in H2 | now inv_ok]).
  assert (K3 : keep st3 = keep st2) by (destruct (f_new_data fl); [now apply drain_notifications_keep in H3 | now inv_ok]).
  assert (L3 : in_of st3 l = in_of st l /\ out_of st3 l = out_of st l).
  { destruct (link_put_other st (i_link inc) (set_lk_in b []) l Hi) as [B1 B2].
    rewrite <- B1, <- B2. apply links_eq. rewrite (keep_links _ _ K3), (keep_links _ _ K2). exact A2. }
  destruct (f_disconnect fl); [| now inv_ok].
  apply (handle_disconnection_links _ _ _ _ l) in H as [C1 C2]; [split; destruct L3; congruence |].
  intros o3 G3. rewrite (keep_obufs _ _ K3), (keep_obufs _ _ K2) in G3.
  destruct A1 as [_ A1]. apply A1 in G3 as (o & G & S). apply ostep_link in S as [S _]. rewrite S.
  apply Ho. exact G.
Qed.

Lemma consume_links st st' b l :
  consume st = Ok (st', b) ->
  (forall id rest o, r_ready st = id :: rest -> slab_get (r_obufs st) id = Some o -> o_link o <> l) ->
  in_of st' l = in_of st l /\ out_of st' l = out_of st l.
Proof.
  intros H Hl. apply consume_delta in H as [K | (id & rest & o & a & st3 & ER & G & _ & EO & _ & I3 & _ & O3 & CD)].
  - apply links_eq. now apply keep_links.
  - specialize (Hl _ _ _ ER G). destruct CD as (_ & _ & _ & I4 & CD).
    rewrite <- EO in G. destruct (CD _ G) as (o' & added & _ & _ & O4 & _).
    split; [now rewrite I4, I3 |]. rewrite O4, O3. replace (l =? o_link o) with false by lia.
    now rewrite !app_nil_r.
Qed.

Definition op_links_other (st : rstate) (o : rop) (l : N) : Prop :=
  match o with
  | OpPush k _ | OpDrain k => k <> l
  | OpData id =>
      (forall i, slab_get (r_ibufs st) id = Some i -> i_link i <> l) /\
      (forall ob, slab_get (r_obufs st) id = Some ob -> o_link ob <> l)
  | OpShadow id _ => forall ob, slab_get (r_obufs st) id = Some ob -> o_link ob <> l
  | OpConsume => forall id rest ob, r_ready st = id :: rest -> slab_get (r_obufs st) id = Some ob -> o_link ob <> l
  | _ => True
  end.

Lemma step_links st o st' out l :
  step st o = Ok (st', out) -> op_links_other st o l ->
  in_of st' l = in_of st l /\ out_of st' l = out_of st l.
Proof.
  intros H Hl. destruct o as [c | k pk | id | | k | id | id | id f | c |]; cbn [step op_links_other] in *.
  - cbv zeta in H. apply bind_ok in H as (st2 & H2 & H). inv_ok.
    apply handle_new_connection_inv in H2 as (E & _). unfold in_of, out_of. rewrite E.
    split; [apply in_of_snoc_empty | apply out_of_snoc_empty].
  - destruct (nthN (r_links st) k); inv_ok; [| auto]. now apply link_put_other.
  - apply bind_ok in H as (st1 & H1 & H). inv_ok. destruct Hl. eapply handle_device_payload_links; eauto.
  - apply bind_ok in H as ([st1 b] & H1 & H). inv_ok. eapply consume_links; eauto.
  - destruct (nthN (r_links st) k); inv_ok; [| auto]. now apply link_put_other.
  - destruct (slab_get (r_trackers st) id); [| inv_ok; auto].
    apply bind_ok in H as (st1 & H1 & H). inv_ok. apply links_eq. apply keep_links. eapply reschedule_keep; eauto.
  - apply bind_ok in H as (st1 & H1 & H). inv_ok. apply links_eq. eapply handle_disconnection_links_none; eauto.
  - apply bind_ok in H as (st1 & H1 & H). inv_ok. eapply retrieve_shadow_links; eauto.
  - apply bind_ok in H as (st1 & H1 & H). inv_ok. apply links_eq. apply keep_links. eapply handle_last_will_keep; eauto.
  - inv_ok. auto.
Qed.

(* ------------------------------------------------------------------ the projection *)
Record wproj : Type := {
  pj_conn : option connection;      (* connections[w]: client id, subscriptions, aliases, subscription ids *)
  pj_ibuf : option incoming;        (* ibufs[w] *)
  pj_obuf : option outgoing;        (* obufs[w]: inflight window, unreleased pubrels, last packet id *)
  pj_acks : option acklog;          (* ackslog[w]: committed acks, recorded QoS 2 publishes *)
  pj_trk : option tracker;          (* scheduler.trackers[w]: data requests (with cursors), status *)
  pj_notif : list drequest;         (* its requests in [notifications] *)
  pj_in : list packet;              (* its link: packets not yet handled by the router *)
  pj_out : list notification        (* its link: notifications not yet taken by the link *)
}.

Definition link_in (st : rstate) (w : N) : list packet :=
  match slab_get (r_ibufs st) w with Some i => in_of st (i_link i) | None => [] end.
Definition link_out (st : rstate) (w : N) : list notification :=
  match slab_get (r_obufs st) w with Some o => out_of st (o_link o) | None => [] end.

Definition proj (st : rstate) (w : N) : wproj :=
  {| pj_conn := slab_get (r_conns st) w; pj_ibuf := slab_get (r_ibufs st) w;
     pj_obuf := slab_get (r_obufs st) w; pj_acks := slab_get (r_acks st) w;
     pj_trk := slab_get (r_trackers st) w; pj_notif := wsel w (r_notif st);
     pj_in := link_in st w; pj_out := link_out st w |}.

(** the allowed effect: requests [mv] appended to the tracker; woken iff [woke] *)
Definition woken_tracker (mv : list drequest) (woke : bool) (t : tracker) : tracker :=
  {| tr_id := tr_id t; tr_reqs := tr_reqs t ++ mv; tr_status := if woke then Ready else tr_status t |}.
Definition proj_wake (mv : list drequest) (woke : bool) (p : wproj) : wproj :=
  {| pj_conn := pj_conn p; pj_ibuf := pj_ibuf p; pj_obuf := pj_obuf p; pj_acks := pj_acks p;
     pj_trk := option_map (woken_tracker mv woke) (pj_trk p); pj_notif := pj_notif p;
     pj_in := pj_in p; pj_out := pj_out p |}.

Lemma woken_tracker_id t : woken_tracker [] false t = t.
Proof. destruct t. unfold woken_tracker. cbn. now rewrite app_nil_r. Qed.
Lemma proj_wake_id p : proj_wake [] false p = p.
Proof.
  destruct p as [a b c d e f g h]. unfold proj_wake. cbn. f_equal.
  destruct e as [t |]; [| reflexivity]. cbn [option_map]. now rewrite woken_tracker_id.
Qed.

(** the events addressed to the connection with key [w]: those carrying its key, those of its
    link, a Connect with its client id, and the [consume] call that serves it *)
Definition addressed (st : rstate) (w : N) (o : rop) : Prop :=
  match o with
  | OpData id | OpReady id | OpDisconnect id | OpShadow id _ => id = w
  | OpPush l _ | OpDrain l =>
      (exists i, slab_get (r_ibufs st) w = Some i /\ i_link i = l) \/
      (exists ob, slab_get (r_obufs st) w = Some ob /\ o_link ob = l)
  | OpConnect c => client_at st w = Some (cr_client c)
  | OpConsume => exists rest, r_ready st = w :: rest
  | OpWill _ | OpMeters => False
  end.

(* ------------------------------------------------------------------ the state part of one step *)
Lemma isoq_core w st st' : core st' = core st -> isoq w st st'.
Proof. intros E. destruct (fq_core (w + 1) st st' E) as [_ Q]. apply Q. lia. Qed.

Lemma step_iso st o st' out w :
  slab_wf (r_conns st) -> NF st -> CmapInv st -> slab_get (r_conns st) w <> None ->
  ~ addressed st w o -> step st o = Ok (st', out) ->
  match o with OpData _ | OpWill _ => iso w st st' | _ => isoq w st st' end.
Proof.
  intros Hwf Hnf [_ C] Hlive Hna H.
  destruct o as [c | k pk | id | | k | id | id | id f | c |]; cbn [step addressed] in *.
  - cbv zeta in H. apply bind_ok in H as (st2 & H2 & H). inv_ok.
    match type of H2 with handle_new_connection ?s _ _ = _ => set (st1 := s) in * end.
    eapply (isoq_trans w st st1); [apply isoq_core; reflexivity |].
    eapply handle_new_connection_iso; [exact H2 | exact Hwf | exact Hlive |].
    cbn [c_client]. intros E. apply Hna. apply C. exact E.
  - destruct (nthN (r_links st) k); inv_ok; [apply isoq_core; reflexivity | apply isoq_refl].
  - apply bind_ok in H as (st1 & H1 & H). inv_ok. eapply handle_device_payload_iso; eauto.
  - apply bind_ok in H as ([st1 b] & H1 & H). inv_ok. apply consume_fq in H1.
    destruct (r_ready st) as [| id rest]; [subst; apply isoq_refl |]. apply H1. intros ->. apply Hna. eauto.
  - destruct (nthN (r_links st) k); inv_ok; [apply isoq_core; reflexivity | apply isoq_refl].
  - destruct (slab_get (r_trackers st) id); [| inv_ok; apply isoq_refl].
    apply bind_ok in H as (st1 & H1 & H). inv_ok. apply reschedule_fq in H1. apply H1. congruence.
  - apply bind_ok in H as (st1 & H1 & H). inv_ok. apply handle_disconnection_iso in H1 as (Q & _). apply Q. congruence.
  - apply bind_ok in H as (st1 & H1 & H). inv_ok. apply isoq_core. eapply retrieve_shadow_core; eauto.
  - apply bind_ok in H as (st1 & H1 & H). inv_ok. apply handle_last_will_iso in H1 as [_ I]. apply I.
  - inv_ok. apply isoq_refl.
Qed.

(* ------------------------------------------------------------------ the frame theorem *)
Lemma proj_assemble st st' w mv woke :
  slab_get (r_conns st') w = slab_get (r_conns st) w ->
  slab_get (r_ibufs st') w = slab_get (r_ibufs st) w ->
  slab_get (r_obufs st') w = slab_get (r_obufs st) w ->
  slab_get (r_acks st') w = slab_get (r_acks st) w ->
  slab_get (r_trackers st') w = option_map (woken_tracker mv woke) (slab_get (r_trackers st) w) ->
  wsel w (r_notif st') = wsel w (r_notif st) ->
  (forall l, (exists i, slab_get (r_ibufs st) w = Some i /\ i_link i = l) \/
             (exists ob, slab_get (r_obufs st) w = Some ob /\ o_link ob = l) ->
             in_of st' l = in_of st l /\ out_of st' l = out_of st l) ->
  proj st' w = proj_wake mv woke (proj st w).
Proof.
  intros A B C D E F L. unfold proj, proj_wake, link_in, link_out. cbn. rewrite A, B, C, D, E, F. f_equal.
  - destruct (slab_get (r_ibufs st) w) as [i |] eqn:G; [| reflexivity]. apply L. left. eauto.
  - destruct (slab_get (r_obufs st) w) as [o |] eqn:G; [| reflexivity]. apply L. right. eauto.
Qed.

Theorem c14_frame_thm st orc o st' out w cw :
  RInv st -> CmapInv st -> IoLink st -> LinkInv st -> op_wf o ->
  client_at st w = Some cw -> ~ addressed st w o ->
  step_with st orc o = Ok (st', out) ->
  client_at st' w = Some cw /\
  exists (mv : list (N * drequest)) (woke : bool),
    proj st' w = proj_wake (map snd mv) woke (proj st w) /\
    (forall idx, Permutation (waiting st w idx) (waiting st' w idx ++ wsel idx mv)) /\
    (if woke then tstat st w = Some (Paused Caughtup) /\ rdy w st' = rdy w st ++ [w]
     else rdy w st' = rdy w st) /\
    (forall f, sub_mem st' w f = sub_mem st w f) /\
    match o with OpData _ | OpWill _ => True | _ => mv = [] /\ woke = false end.
Proof.
  intros HR C I [_ L] Hwf Hcl Hna H. pose proof HR as [HI Hn].
  destruct (rinv_step _ _ _ _ _ HR Hwf H) as [[_ Hn'] _].
  unfold step_with in H. apply bind_ok in H as ([st1 out1] & H1 & H).
  destruct (r_oracle st1); [| discriminate]. inv_ok.
  set (st0 := set_r_oracle st orc) in *.
  (* W is live in all five slabs *)
  assert (Gc : exists c, slab_get (r_conns st) w = Some c).
  { unfold client_at in Hcl. destruct (slab_get (r_conns st) w) as [c |]; [eauto | discriminate]. }
  destruct Gc as [c Gc].
  destruct (aligned_get _ _ _ _ (ri_al_i _ _ HI) Gc) as [iw Gi].
  destruct (aligned_get _ _ _ _ (ri_al_o _ _ HI) Gc) as [ow Go].
  destruct (aligned_get _ _ _ _ (ri_al_t _ _ HI) Gc) as [t Gt].
  assert (Lw : i_link iw = o_link ow) by (eapply I; eauto).
  (* the links the op touches are not W's *)
  assert (OL : op_links_other st0 o (o_link ow)).
  { destruct o as [c0 | k pk | id | | k | id | id | id f | c0 |]; cbn [op_links_other addressed] in *; auto.
    - intros ->. apply Hna. right. eauto.
    - assert (Hob : forall ob, slab_get (r_obufs st) id = Some ob -> o_link ob <> o_link ow).
      { intros ob G E. apply Hna. eapply L; eauto. }
      split; [| exact Hob]. intros i G E.
      destruct (aligned_get_rev _ _ _ _ (ri_al_i _ _ HI) G) as [c1 G1].
      destruct (aligned_get _ _ _ _ (ri_al_o _ _ HI) G1) as [o1 G2].
      apply (Hob o1 G2). rewrite <- E. symmetry. eapply I; eauto.
    - intros id rest ob ER G E. apply Hna. exists rest. assert (id = w) by (eapply L; eauto). subst id. exact ER.
    - intros ->. apply Hna. right. eauto.
    - intros ob G E. apply Hna. eapply L; eauto. }
  pose proof (step_links _ _ _ _ _ H1 OL) as [LI LO].
  assert (LL : forall l, (exists i, slab_get (r_ibufs st) w = Some i /\ i_link i = l) \/
                         (exists ob, slab_get (r_obufs st) w = Some ob /\ o_link ob = l) ->
                         in_of st' l = in_of st l /\ out_of st' l = out_of st l).
  { intros l [(i & G & <-) | (ob & G & <-)].
    - rewrite Gi in G. inversion G; subst i. rewrite Lw. split; [exact LI | exact LO].
    - rewrite Go in G. inversion G; subst ob. split; [exact LI | exact LO]. }
  assert (Hlive : slab_get (r_conns st) w <> None) by congruence.
  pose proof (step_iso st0 o st' out w (ri_wf _ _ HI) (RInv_NF _ _ HI) C Hlive Hna H1) as X.
  assert (QUIET : isoq w st0 st' ->
    client_at st' w = Some cw /\
    exists (mv : list (N * drequest)) (woke : bool),
      proj st' w = proj_wake (map snd mv) woke (proj st w) /\
      (forall idx, Permutation (waiting st w idx) (waiting st' w idx ++ wsel idx mv)) /\
      (if woke then tstat st w = Some (Paused Caughtup) /\ rdy w st' = rdy w st ++ [w]
       else rdy w st' = rdy w st) /\ (forall f, sub_mem st' w f = sub_mem st w f) /\ mv = [] /\ woke = false).
  { intros [Q1 Q2 Q3 Q4 Q5 Q6 Q7 Q8 Q9]. split; [unfold client_at; rewrite Q1; exact Hcl |].
    exists [], false. cbn [map]. split; [| split; [| split; [exact Q8 | split; [exact Q9 | auto]]]].
    - rewrite proj_wake_id. rewrite <- (proj_wake_id (proj st w)).
      apply proj_assemble; auto. rewrite Q5. change (slab_get (r_trackers st0) w) with (slab_get (r_trackers st) w).
      rewrite Gt. cbn [option_map]. now rewrite woken_tracker_id.
    - intros idx. rewrite wsel_nil, app_nil_r. symmetry. apply Q7. }
  assert (LOUD : iso w st0 st' ->
    client_at st' w = Some cw /\
    exists (mv : list (N * drequest)) (woke : bool),
      proj st' w = proj_wake (map snd mv) woke (proj st w) /\
      (forall idx, Permutation (waiting st w idx) (waiting st' w idx ++ wsel idx mv)) /\
      (if woke then tstat st w = Some (Paused Caughtup) /\ rdy w st' = rdy w st ++ [w]
       else rdy w st' = rdy w st) /\ (forall f, sub_mem st' w f = sub_mem st w f) /\ True).
  { intros [Q1 Q2 Q3 Q4 Q5 Q6 (mv & Q7 & Q8) Q9]. split; [unfold client_at; rewrite Q1; exact Hcl |].
    change (tident st0 w) with (tident st w) in Q5. unfold tident in Q5. rewrite Gt in Q5.
    destruct (slab_get (r_trackers st') w) as [t' |] eqn:Gt'; [| discriminate]. cbn [option_map] in Q5.
    unfold pend, treqs in Q7. change (r_trackers st0) with (r_trackers st) in Q7.
    change (r_notif st0) with (r_notif st) in Q7. rewrite Gt, Gt', Hn, Hn', !wsel_nil, !app_nil_r in Q7.
    assert (PA : forall woke : bool, tr_status t' = (if woke then Ready else tr_status t) ->
                 proj st' w = proj_wake (map snd mv) woke (proj st w)).
    { intros woke ES. apply proj_assemble; auto.
      - rewrite Gt', Gt. cbn [option_map]. f_equal. destruct t' as [a b s]. unfold woken_tracker.
        cbn [tr_id tr_reqs tr_status] in *. inversion Q5. subst. reflexivity.
      - change (r_notif st0) with (r_notif st). now rewrite Hn, Hn'. }
    unfold sched_rel, tstat in Q6. change (r_trackers st0) with (r_trackers st) in Q6.
    rewrite Gt, Gt' in Q6. cbn [option_map] in Q6.
    destruct Q6 as [[S1 S2] | (S1 & S2 & S3)].
    - exists mv, false. split; [apply PA; congruence | split; [exact Q8 | split; [exact S2 | split; [exact Q9 | exact Logic.I]]]].
    - exists mv, true. split; [apply PA; congruence | split; [exact Q8 | split; [| split; [exact Q9 | exact Logic.I]]]].
      split; [unfold tstat; rewrite Gt; exact S1 | exact S3]. }
  destruct o as [c0 | k pk | id | | k | id | id | id f | c0 |]; try exact (QUIET X); exact (LOUD X).
Qed.

(* ------------------------------------------------------------------ corollaries *)
(** the unchanged projection, spelled out *)
Definition untouched (w : N) (st st' : rstate) : Prop :=
  proj st' w = proj st w /\
  (forall idx, Permutation (waiting st' w idx) (waiting st w idx)) /\
  rdy w st' = rdy w st /\
  (forall f, sub_mem st' w f = sub_mem st w f).

(** every event other than another connection's DeviceData and PublishWill: nothing of [w] moves *)
Theorem c14_frame_quiet_thm st orc o st' out w cw :
  RInv st -> CmapInv st -> IoLink st -> LinkInv st -> op_wf o ->
  client_at st w = Some cw -> ~ addressed st w o ->
  match o with OpData _ | OpWill _ => False | _ => True end ->
  step_with st orc o = Ok (st', out) ->
  client_at st' w = Some cw /\ untouched w st st'.
Proof.
  intros HR C I L Hwf Hcl Hna Hq H.
  destruct (c14_frame_thm _ _ _ _ _ _ _ HR C I L Hwf Hcl Hna H) as (A & mv & woke & P & W & S & SM & Q).
  split; [exact A |].
  assert (E : mv = [] /\ woke = false) by (destruct o; try exact Q; contradiction).
  destruct E as [-> ->]. cbn [map] in P. rewrite proj_wake_id in P.
  split; [exact P | split; [| split; [exact S | exact SM]]]. intros idx. specialize (W idx).
  rewrite wsel_nil, app_nil_r in W. symmetry. exact W.
Qed.

Theorem c14_other_disconnect_thm st orc id st' out w cw :
  RInv st -> CmapInv st -> IoLink st -> LinkInv st ->
  client_at st w = Some cw -> id <> w ->
  step_with st orc (OpDisconnect id) = Ok (st', out) ->
  client_at st' w = Some cw /\ untouched w st st'.
Proof.
  intros HR C I L Hcl Hne H. eapply c14_frame_quiet_thm; eauto; cbn; auto.
Qed.

(** a Connect of another client id, including one that takes over (removes) a live connection
    of that client id, and including reconnect storms *)
Theorem c14_other_connect_thm st orc c st' out w cw :
  RInv st -> CmapInv st -> IoLink st -> LinkInv st ->
  client_at st w = Some cw -> cr_client c <> cw ->
  step_with st orc (OpConnect c) = Ok (st', out) ->
  client_at st' w = Some cw /\ untouched w st st'.
Proof.
  intros HR C I L Hcl Hne H. eapply c14_frame_quiet_thm; eauto; cbn; auto. congruence.
Qed.

(** a DeviceData event of another connection whose batch contains no PUBLISH / PUBREL: acks of
    any kind (in particular unsolicited ones, which close that connection), SUBSCRIBE,
    UNSUBSCRIBE, PINGREQ, DISCONNECT *)
Theorem c14_other_bad_ack_thm st orc id st' out w cw :
  RInv st -> CmapInv st -> IoLink st -> LinkInv st ->
  client_at st w = Some cw -> id <> w ->
  (forall inc, slab_get (r_ibufs st) id = Some inc -> Forall quiet_packet (in_of st (i_link inc))) ->
  step_with st orc (OpData id) = Ok (st', out) ->
  client_at st' w = Some cw /\ untouched w st st'.
Proof.
  intros HR C I L Hcl Hne Hq H. pose proof HR as [HI _].
  assert (Hna : ~ addressed st w (OpData id)) by (cbn; exact Hne).
  assert (Hwf : op_wf (OpData id)) by exact Logic.I.
  destruct (c14_frame_thm _ _ _ _ _ _ _ HR C I L Hwf Hcl Hna H) as (A & mv & woke & P & W & S & SM & _).
  split; [exact A |].
  unfold step_with in H. apply bind_ok in H as ([st1 out1] & H1 & H).
  destruct (r_oracle st1); [| discriminate]. inv_ok. cbn [step] in H1.
  apply bind_ok in H1 as (st2 & H2 & H1). inv_ok.
  assert (Hw : w <> id) by congruence.
  pose proof (handle_device_payload_quiet _ _ _ H2 (RInv_NF _ _ HI) Hq w Hw) as [Q1 Q2 Q3 Q4 Q5 Q6 Q7 Q8 Q9].
  split; [| split; [exact Q7 | split; [exact Q8 | exact SM]]].
  pose proof (f_equal pj_in P) as Pin. pose proof (f_equal pj_out P) as Pout. cbn in Pin, Pout.
  unfold proj. rewrite Q1, Q2, Q3, Q4, Q5, Q6. cbn [r_conns r_ibufs r_obufs r_acks r_trackers r_notif set_r_oracle].
  f_equal; assumption.
Qed.

(** a keyed event whose key is vacant -- e.g. the late signal of a link whose connection was
    removed and whose key has NOT been recycled -- is ignored *)
Theorem c14_stale_vacant_ignored_thm st orc o k st' out :
  RInv st ->
  match o with
  | OpData id | OpReady id | OpDisconnect id | OpShadow id _ => id = k
  | _ => False
  end ->
  slab_get (r_conns st) k = None ->
  step_with st orc o = Ok (st', out) -> st' = set_r_oracle st [] /\ out = OutUnit.
Proof.
  intros [HI _] Hk Hv H.
  pose proof (aligned_none _ _ _ (ri_al_i _ _ HI) Hv) as Vi.
  pose proof (aligned_none _ _ _ (ri_al_o _ _ HI) Hv) as Vo.
  pose proof (aligned_none _ _ _ (ri_al_t _ _ HI) Hv) as Vt.
  unfold step_with in H. apply bind_ok in H as ([st1 out1] & H1 & H).
  destruct (r_oracle st1) eqn:EO; [| discriminate]. inv_ok.
  destruct o; try contradiction; subst; cbn [step] in H1.
  - unfold handle_device_payload in H1. rsimpl. rewrite Vi in H1. cbn [bind] in H1. inv_ok.
    cbn in EO. now subst.
  - rsimpl. rewrite Vt in H1. inv_ok. cbn in EO. now subst.
  - rewrite handle_disconnection_noop in H1 by exact Vo. cbn [bind] in H1. inv_ok. cbn in EO. now subst.
  - unfold retrieve_shadow in H1. rsimpl. rewrite Vo in H1. cbn [bind] in H1. inv_ok. cbn in EO. now subst.
Qed.

(** the positive half of the last sentence of C14: an event that carries a key acts on the
    connection that owns that key NOW, and on no other.  (Residual risk, witnessed by
    [c14_stale_refuted]: an event carrying W's key that W's own link did not send -- the model,
    like the code, cannot tell it from W's own.) *)
Theorem c14_stale_outside_K10_thm st orc o k st' out w cw :
  RInv st -> CmapInv st -> IoLink st -> LinkInv st ->
  match o with
  | OpData id | OpReady id | OpDisconnect id | OpShadow id _ => id = k
  | _ => False
  end ->
  client_at st w = Some cw -> k <> w ->
  step_with st orc o = Ok (st', out) ->
  client_at st' w = Some cw /\
  exists (mv : list (N * drequest)) (woke : bool),
    proj st' w = proj_wake (map snd mv) woke (proj st w) /\
    (forall idx, Permutation (waiting st w idx) (waiting st' w idx ++ wsel idx mv)) /\
    (if woke then tstat st w = Some (Paused Caughtup) /\ rdy w st' = rdy w st ++ [w]
     else rdy w st' = rdy w st) /\
    (forall f, sub_mem st' w f = sub_mem st w f) /\
    match o with OpData _ => True | _ => mv = [] /\ woke = false end.
Proof.
  intros HR C I L Hk Hcl Hne H.
  assert (Hwf : op_wf o) by (destruct o; try contradiction; exact Logic.I).
  assert (Hna : ~ addressed st w o) by (destruct o; try contradiction; cbn; congruence).
  destruct (c14_frame_thm _ _ _ _ _ _ _ HR C I L Hwf Hcl Hna H) as (A & mv & woke & P & W & S & SM & Q).
  split; [exact A |]. exists mv, woke. repeat (split; [assumption |]). destruct o; try contradiction; exact Q.
Qed.

(** the hypotheses hold in every reachable state *)
Theorem c14_frame_reachable_thm cfg st0 ops st orc o st' out w cw :
  cfg_ok cfg -> init cfg = Ok st0 -> ops_wf ops -> run st0 ops = Ok st -> op_wf o ->
  client_at st w = Some cw -> ~ addressed st w o ->
  step_with st orc o = Ok (st', out) ->
  client_at st' w = Some cw /\
  exists (mv : list (N * drequest)) (woke : bool),
    proj st' w = proj_wake (map snd mv) woke (proj st w) /\
    (forall idx, Permutation (waiting st w idx) (waiting st' w idx ++ wsel idx mv)) /\
    (if woke then tstat st w = Some (Paused Caughtup) /\ rdy w st' = rdy w st ++ [w]
     else rdy w st' = rdy w st) /\
    (forall f, sub_mem st' w f = sub_mem st w f) /\
    match o with OpData _ | OpWill _ => True | _ => mv = [] /\ woke = false end.
Proof.
  intros Hcfg Hi Hwf Hr. destruct (isoinv_reachable _ _ _ _ Hcfg Hi Hwf Hr) as (A & B & C & D).
  intros. eapply c14_frame_thm; eauto.
Qed.

(* ------------------------------------------------------------------ W's own requests *)
(** which acks a packet of connection [id] earns ([registered], Acks.v) depends on the router
    state only through [id]'s own Outgoing entry (the head of its inflight window decides
    whether a PUBREC earns a PUBREL) *)
Lemma registered_local st1 st2 id pk a :
  slab_get (r_obufs st1) id = slab_get (r_obufs st2) id -> registered st1 id pk a -> registered st2 id pk a.
Proof. intros E. destruct pk; cbn [registered]; try rewrite E; auto. Qed.

(** One DeviceData event of [w]: the acks committed for [w] are those its own packets earn, one
    after the other, each determined by the packet and [w]'s own window ([batch_acks] chains
    [registered] along [handle_packet]); they are appended to [w]'s ack log and to nobody
    else's.  Together with the frame theorem (no event of another connection changes
    [pj_acks], [pj_obuf] or [pj_out] of [w]) this is the independence of [w]'s
    acknowledgements from the other clients. *)
Theorem c14_own_requests_served_thm st w st' inc b :
  handle_device_payload st w = Ok st' ->
  slab_get (r_ibufs st) w = Some inc -> nthN (r_links st) (i_link inc) = Some b ->
  exists added,
    batch_acks w (i_client inc) (link_put st (i_link inc) (set_lk_in b [])) flags0 (lk_in b) added /\
    (slab_get (r_obufs st') w <> None ->
       (forall id', id' <> w -> slab_get (r_acks st') id' = slab_get (r_acks st) id') /\
       match slab_get (r_acks st) w with
       | Some l => exists l', slab_get (r_acks st') w = Some l' /\ a_committed l' = a_committed l ++ added
       | None => slab_get (r_acks st') w = None /\ added = []
       end).
Proof. exact (handle_device_payload_batch st w st' inc b). Qed.

(* ------------------------------------------------------------------ any number of events of the others *)
(** a run none of whose events is addressed to [w] (in the state it meets) *)
Inductive others_run (w : N) : rstate -> list (list oracle * rop) -> rstate -> Prop :=
| or_nil st : others_run w st [] st
| or_cons st orc o st1 out ops st' :
    op_wf o -> ~ addressed st w o -> step_with st orc o = Ok (st1, out) ->
    others_run w st1 ops st' -> others_run w st ((orc, o) :: ops) st'.

Lemma others_run_run w st ops st' : others_run w st ops st' -> run st ops = Ok st'.
Proof. induction 1 as [| st orc o st1 out ops st' _ _ Hs _ IH]; cbn [run]; [reflexivity | now rewrite Hs]. Qed.

Lemma proj_wake_wake m1 w1 m2 w2 p :
  proj_wake m2 w2 (proj_wake m1 w1 p) = proj_wake (m1 ++ m2) (w1 || w2) p.
Proof.
  destruct p as [a b c d e f g h]. unfold proj_wake. cbn. f_equal.
  destruct e as [t |]; [| reflexivity]. cbn [option_map]. f_equal. unfold woken_tracker. cbn.
  rewrite app_assoc. f_equal. destruct w1, w2; reflexivity.
Qed.

Theorem c14_frame_run_thm w cw : forall st ops st',
  RInv st -> CmapInv st -> IoLink st -> LinkInv st -> client_at st w = Some cw ->
  others_run w st ops st' ->
  (RInv st' /\ CmapInv st' /\ IoLink st' /\ LinkInv st') /\ client_at st' w = Some cw /\
  exists (mv : list (N * drequest)) (woke : bool),
    proj st' w = proj_wake (map snd mv) woke (proj st w) /\
    (forall idx, Permutation (waiting st w idx) (waiting st' w idx ++ wsel idx mv)) /\
    (if woke then tstat st w = Some (Paused Caughtup) /\ rdy w st' = rdy w st ++ [w]
     else rdy w st' = rdy w st) /\
    (forall f, sub_mem st' w f = sub_mem st w f).
Proof.
  intros st ops st' HR C I L Hcl H. revert HR C I L Hcl.
  induction H as [st | st orc o st1 out ops st' Hwf Hna Hs _ IH]; intros HR C I L Hcl.
  - split; [auto |]. split; [exact Hcl |]. exists [], false. cbn [map]. rewrite proj_wake_id.
    split; [reflexivity | split; [| split; reflexivity]]. intros idx. now rewrite wsel_nil, app_nil_r.
  - destruct (c14_frame_thm _ _ _ _ _ _ _ HR C I L Hwf Hcl Hna Hs) as (A & m1 & w1 & P1 & W1 & S1 & SM1 & _).
    destruct (rinv_step _ _ _ _ _ HR Hwf Hs) as [HR1 _].
    destruct (step_with_isoinv _ _ _ _ _ HR C I Hs) as [C1 I1].
    assert (L1 : LinkInv st1) by (eapply step_with_inv; eauto).
    destruct (IH HR1 C1 I1 L1 A) as (INV & A' & m2 & w2 & P2 & W2 & S2 & SM2).
    split; [exact INV |]. split; [exact A' |].
    exists (m1 ++ m2), (w1 || w2). split; [| split; [| split; [| intros f; now rewrite SM2]]].
    + rewrite P2, P1, proj_wake_wake, map_app. reflexivity.
    + intros idx. rewrite (W1 idx), (W2 idx), wsel_app, <- !app_assoc.
      apply Permutation_app_head, Permutation_app_comm.
    + assert (ST : tstat st1 w = option_map (fun s => if w1 then Ready else s) (tstat st w)).
      { pose proof (f_equal pj_trk P1) as E. cbn in E. unfold tstat. rewrite E.
        destruct (slab_get (r_trackers st) w); reflexivity. }
      destruct w1, w2; cbn [orb].
      * destruct S1 as [S1 _], S2 as [S2 _]. rewrite ST, S1 in S2. discriminate.
      * destruct S1 as [S1 R1]. split; [exact S1 | congruence].
      * destruct S2 as [S2 R2]. rewrite ST in S2. destruct (tstat st w); [| discriminate].
        cbn [option_map] in S2. split; [exact S2 | congruence].
      * congruence.
Qed.
