(** C01, request location: in every reachable state, every live connection holds EXACTLY ONE
    data request per subscription filter (among its tracker, all waiter lists, notifications
    and the requests in flight inside the running event), and requests for nothing else;
    likewise every saved session.  This strengthens prover-nopanic's [DevX] ("at most one, and
    only for subscribed filters", NoPanicDev*.v) by the converse "every subscription HAS a
    request".  The frame lemmas [*_dev] of NoPanicDev1/2 (exact preservation of the counts) are
    reused as they are; the lemmas of this file mirror NoPanicDev3.v for the stronger predicate. *)
From Rumqtt Require Import Router.NoPanicLog.
From Rumqtt Require Import Router.Model Router.InvLemmasBase Router.Inv Router.InvLemmasPrim Router.InvLemmasSched
  Router.InvLemmasDl Router.InvLemmasRoute Router.InvLemmasConn Router.InvLemmasPkt Router.InvLemmasConsume
  Router.NoPanic Router.NoPanicDevBase Router.NoPanicDevInv Router.NoPanicDev1 Router.NoPanicDev2 Router.NoPanicDev3 Router.NoPanicDev4.
From Rumqtt Require Import Router.Model.
From Coq Require Import Arith ZifyBool ZifyN ZifyNat.

Definition okE (n : nat) (f : str) (subs : list str) : Prop :=
  n = if set_mem str_eqb f subs then 1%nat else 0%nat.
Definition sess_E (cs : str * option session) : Prop :=
  match snd cs with
  | Some ss => forall f, okE (cnt f (tr_reqs (ss_tracker ss))) f (ss_subs ss)
  | None => True
  end.
Record DevE (st : rstate) (e : list (N * drequest)) : Prop := {
  de_live : forall id subs, subs_of st id = Some subs -> forall f, okE (CNT st e id f) f subs;
  de_grave : Forall sess_E (r_graveyard st)
}.
Definition DevEI (st : rstate) : Prop := DevE st [].

Lemma okE_okc n f subs : okE n f subs -> okc n f subs.
Proof. unfold okE, okc. intros ->. destruct (set_mem str_eqb f subs); split; auto; lia. Qed.

Lemma DevE_DevX st e : DevE st e -> DevX st e.
Proof.
  intros [H1 H2]. constructor.
  - intros id subs Hs f. apply okE_okc. now apply H1.
  - revert H2. apply Forall_impl. intros [c [ss|]]; unfold sess_E, sess_dev; cbn [snd]; [|auto].
    intros H f. apply okE_okc. apply H.
Qed.

Lemma dfr_DevE st st' e e' : DevE st e -> dfr st st' e e' -> DevE st' e'.
Proof.
  intros [H1 H2] (D1 & D2 & D3). constructor.
  - intros id subs Hs f. rewrite D1. apply H1. now rewrite <- D2.
  - now rewrite D3.
Qed.

Lemma set_mem_set_del_same f l : set_mem str_eqb f (set_del str_eqb f l) = false.
Proof.
  unfold set_del. induction l as [|x l IH]; [reflexivity|]. cbn [filter].
  destruct (str_eqb f x) eqn:E; cbn [negb]; [exact IH|]. cbn [set_mem]. now rewrite E, IH.
Qed.

Lemma DevE_new_sub st id c c' rq :
  DevE st [] -> slab_get (r_conns st) id = Some c -> set_mem str_eqb (dr_filter rq) (c_subs c) = false ->
  c_subs c' = c_subs c ++ [dr_filter rq] -> DevE (put_conn st id c') [(id, rq)].
Proof.
  intros [H1 H2] Hc Hm Hs. constructor; [|exact H2].
  intros id' subs Hsub f.
  assert (Hcnt : CNT (put_conn st id c') [(id, rq)] id' f =
                 (CNT st [] id' f + (if (id =? id')%N && fmatch f rq then 1 else 0))%nat).
  { unfold CNT. change (treqs (put_conn st id c') id') with (treqs st id').
    change (items_of (put_conn st id c')) with (items_of st). change (r_notif (put_conn st id c')) with (r_notif st).
    rewrite cntw_single, cntw_nil. lia. }
  rewrite Hcnt. unfold subs_of, put_conn in Hsub. cbn [r_conns set_r_conns] in Hsub.
  destruct (N.eqb_spec id id') as [<- | Hne]; cbn [andb].
  - rewrite (get_put_eq _ _ _ _ Hc) in Hsub. cbn [option_map] in Hsub. inversion Hsub; subst subs.
    assert (Hold : okE (CNT st [] id f) f (c_subs c)) by (apply H1; unfold subs_of; now rewrite Hc).
    unfold okE in *. rewrite Hs, set_mem_app_r. unfold fmatch. rewrite (str_eqb_sym f (dr_filter rq)).
    destruct (str_eqb (dr_filter rq) f) eqn:E.
    + apply str_eqb_eq in E. subst f. rewrite Hm in Hold. rewrite Hold, orb_true_r. reflexivity.
    + rewrite orb_false_r, Nat.add_0_r. exact Hold.
  - rewrite get_put_neq in Hsub by exact Hne. rewrite Nat.add_0_r. apply H1. exact Hsub.
Qed.

Lemma prepare_filter_loc cfg st id cu fidx path qos grp subid :
  RInvC cfg st -> DevEI st -> occ (lives st) id -> fidx < nlen st -> qos <= 2 ->
  wpd (prepare_filter st id cu fidx path qos grp subid) (fun st' => DevEI st').
Proof.
  intros HI HD Ho Hidx Hq. destruct (live_gets _ _ _ HI Ho) as (c & i & o & a & t & Hc & Hi & Hob & Ha & Ht).
  unfold prepare_filter. cbv zeta.
  match goal with |- context [set_r_submap st ?m] => set (st1 := set_r_submap st m) end.
  assert (Hc1 : get_conn st1 id = Ok c) by (apply get_conn_ok; exact Hc).
  rewrite Hc1. cbn [bind].
  match goal with |- context [set_r_groups st1 ?g] => set (gs := g) end.
  set (st2 := set_r_groups st1 gs).
  assert (D2 : dfr st st2 [] []) by dfr_triv.
  assert (HD2 : DevEI st2) by (eapply dfr_DevE; eauto).
  set (conn1 := match subid with
                | Some s => set_c_subids c (al_set str_eqb path s (c_subids c))
                | None => c
                end).
  assert (Hs1 : c_subs conn1 = c_subs c) by (unfold conn1; destruct subid; reflexivity).
  assert (Hc2 : slab_get (r_conns st2) id = Some c) by exact Hc.
  destruct (set_mem str_eqb path (c_subs conn1)) eqn:Em.
  - cbn [wpd]. eapply dfr_DevE; [exact HD2|]. eapply dfr_put_conn; eauto.
  - match goal with |- context [put_conn st2 id ?cc] => set (conn2 := cc) end.
    match goal with |- context [track (put_conn st2 id conn2) id ?r] => set (rq := r) end.
    set (st3 := put_conn st2 id conn2).
    assert (HD3 : DevE st3 [(id, rq)]).
    { apply (DevE_new_sub st2 id c conn2 rq HD2 Hc2); cbn [rq dr_filter]; [rewrite <- Hs1; exact Em|].
      cbn [conn2 set_c_subs c_subs]. now rewrite Hs1. }
    apply wpd_bind. eapply wpd_mono; [apply (track_dev st3 id rq [])|]. intros st4 D4.
    apply wpd_bind. eapply wpd_mono; [apply (reschedule_dev st4 id SNewFilter [])|]. intros st5 D5.
    assert (HD5 : DevEI st5) by (eapply dfr_DevE; [exact HD3|exact (dfr_trans _ _ _ _ _ _ D4 D5)]).
    apply wpd_bind.
    assert (Hsub5 : subs_of st5 id = Some (c_subs conn2)).
    { destruct D4 as (_ & S4 & _), D5 as (_ & S5 & _). rewrite S5, S4. unfold subs_of, st3, put_conn.
      cbn [r_conns set_r_conns]. now rewrite (get_put_eq _ _ _ _ Hc2). }
    eapply wpd_mono; [apply (dbg_no_dups_dev st5 [] id _ (DevE_DevX _ _ HD5) Hsub5)|]. intros _ _. exact HD5.
Qed.

Lemma subscribe_filters_loc cfg id subid : forall fs st fl codes,
  RInvC cfg st -> DevEI st -> occ (lives st) id -> Forall (fun fq : str * N => snd fq <= 2) fs ->
  wpd (subscribe_filters st id fs subid fl codes) (fun r => DevEI (fst (fst r))).
Proof.
  induction fs as [|[path qos] fs IH]; intros st fl codes HI HD Ho Hq; cbn [subscribe_filters]; [exact HD|].
  inversion Hq as [|? ? Hq1 Hq']; subst. cbn [snd] in Hq1.
  destruct (negb (validate_subscription path)); [exact HD|].
  destruct (match extract_group path with Some (g, p) => (Some g, p) | None => (None, path) end) as [grp filter].
  match goal with |- wpd (if ?b then _ else _) _ => destruct b end; [exact HD|].
  apply wpd_bind.
  eapply wpd_mono; [eapply wpd_and_wp; [apply (next_native_offset_spec cfg st filter HI)|apply (next_native_offset_dev cfg st filter [] HI)]|].
  intros [[st1 idx] cu] [(HI1 & F1 & Hidx) D1]. cbn [fst snd] in *.
  assert (Ho1 : occ (lives st1) id) by (eapply ext_occ; [apply fr_ext; exact F1|exact Ho]).
  assert (HD1 : DevEI st1) by (eapply dfr_DevE; eauto).
  apply wpd_bind.
  eapply wpd_mono; [eapply wpd_and_wp;
    [apply (prepare_filter_spec cfg st1 id cu idx path qos grp subid HI1 Ho1 Hidx Hq1)
    |apply (prepare_filter_loc cfg st1 id cu idx path qos grp subid HI1 HD1 Ho1 Hidx Hq1)]|].
  intros st2 [(HI2 & E2 & N2) HD2].
  apply (IH st2 fl (codes ++ [qos]) HI2 HD2); [eapply ext_occ; eauto|exact Hq'].
Qed.

Lemma unsubscribe_filters_loc cfg id client : forall fs st reasons,
  RInvC cfg st -> DevEI st -> occ (lives st) id ->
  wpd (unsubscribe_filters st id client fs reasons) (fun r => DevEI (fst r)).
Proof.
  induction fs as [|f fs IH]; intros st reasons HI HD Ho; cbn [unsubscribe_filters]; [exact HD|].
  destruct (al_get str_eqb f (r_submap st)) as [ids|] eqn:Em; [|cbn [negb]; apply IH; assumption].
  destruct (set_mem N.eqb id ids); [|cbn [negb]; apply IH; assumption]. cbn [negb].
  match goal with |- context [set_r_submap st ?m] => set (st1 := set_r_submap st m) end.
  assert (HI1 : RInvC cfg st1) by (apply RInv_set_submap; exact HI).
  assert (HD1 : DevEI st1) by (eapply dfr_DevE; [exact HD|dfr_triv]).
  assert (Ho1 : occ (lives st1) id) by exact Ho.
  destruct (live_gets _ _ _ HI1 Ho1) as (c & i & o & a & t & Hc & Hi & Hob & Ha & Ht).
  rewrite (get_conn_ok _ _ _ Hc). cbn [bind].
  destruct (negb (set_mem str_eqb f (c_subs c))); [apply IH; assumption|].
  match goal with |- context [put_conn st1 id ?cc] => set (conn1 := cc) end.
  match goal with |- context [set_r_groups (put_conn st1 id conn1) ?g] => set (gs := g) end.
  assert (Hgs : groups_ne gs).
  { unfold gs. destruct (extract_group f) as [[gname p]|]; [|apply (ri_groups _ _ HI1)].
    destruct (al_get str_eqb gname (r_groups st1)) as [g|]; [|apply (ri_groups _ _ HI1)].
    destruct (g_clients (group_remove_client g client)) eqn:Eg.
    - apply Forall_al_remove. apply (ri_groups _ _ HI1).
    - apply (Forall_al_set str_eqb (fun g => g_clients g <> [])); [apply (ri_groups _ _ HI1)|].
      rewrite Eg. discriminate. }
  set (st2 := set_r_groups (put_conn st1 id conn1) gs).
  assert (HI2 : RInvC cfg st2).
  { apply RInv_set_groups; [|exact Hgs]. eapply RInv_put_conn; eauto. }
  assert (Ho2 : occ (lives st2) id).
  { unfold lives, st2, put_conn. cbn [r_conns set_r_groups set_r_conns]. rewrite (shape_put _ _ _ _ Hc). exact Ho1. }
  unfold untrack, get_tracker.
  assert (Ht2 : slab_get (r_trackers st2) id = Some t) by exact Ht. rewrite Ht2. cbn [bind].
  match goal with |- context [put_tracker st2 id ?tt] => set (t4 := tt) end.
  set (st4 := put_tracker st2 id t4).
  assert (HI4 : RInvC cfg st4).
  { eapply RInv_put_tracker; [exact HI2|exact Ht2|reflexivity|]. cbn [t4 set_tr_reqs tr_reqs].
    apply Forall_filter. apply (ri_trk _ _ HI2 _ _ Ht2). }
  unfold remove_waiters_for_id. cbn [bind].
  match goal with |- context [set_r_notif ?s5 ?v] => set (st5 := s5); set (nf := v) end.
  set (st6 := set_r_notif st5 nf).
  assert (HI6 : RInvC cfg st6).
  { assert (X : wp cfg (remove_waiters_for_id st4 id f) (fun st' => RInvC cfg st' /\ fr st4 st')) by (apply remove_waiters_for_id_spec; exact HI4).
    unfold remove_waiters_for_id in X. cbn [wp] in X. destruct X as [HI5 _]. fold st5 in HI5.
    apply RInv_set_notif; [exact HI5|]. apply Forall_filter. apply (ri_notif _ _ HI5). }
  assert (Ho6 : occ (lives st6) id) by exact Ho2.
  apply (IH st6 (reasons ++ [UR_SUCCESS]) HI6); [|exact Ho6].
  (* DevEI st6 *)
  destruct HD1 as [H1 H2]. constructor; [|exact H2].
  intros id' subs Hsub f'.
  assert (Hcnt : CNT st6 [] id' f' =
                 if (id' =? id) && str_eqb f' f then
                   (pred (cnti f' id' (items_of st1)))%nat
                 else CNT st1 [] id' f').
  { unfold CNT. rewrite !cntw_nil.
    assert (T : treqs st6 id' = if id' =? id then tr_reqs t4 else treqs st1 id').
    { change (treqs st6 id') with (treqs st4 id'). unfold st4. rewrite (treqs_put _ _ _ _ _ Ht2). reflexivity. }
    assert (It : items_of st6 = remove_waiter_items (items_of st1) id f) by reflexivity.
    assert (Nt : r_notif st6 = filter (fun x : N * drequest => negb ((fst x =? id) && str_eqb (dr_filter (snd x)) f)) (r_notif st1)) by reflexivity.
    rewrite T, It, Nt, remove_waiter_items_cnt, cntw_unnotif.
    destruct (N.eqb_spec id' id) as [-> | Hne]; cbn [andb]; [|lia].
    cbn [t4 set_tr_reqs tr_reqs]. rewrite cnt_untrack. unfold treqs. rewrite Ht.
    destruct (str_eqb f' f); lia. }
  assert (Hsub6 : subs_of st6 id' = if id' =? id then Some (set_del str_eqb f (c_subs c)) else subs_of st1 id').
  { unfold subs_of. change (r_conns st6) with (slab_put (r_conns st1) id conn1).
    destruct (N.eqb_spec id' id) as [-> | Hne]; [now rewrite (get_put_eq _ _ _ _ Hc)|].
    rewrite get_put_neq by congruence. reflexivity. }
  rewrite Hcnt. rewrite Hsub6 in Hsub.
  destruct (N.eqb_spec id' id) as [-> | Hne]; cbn [andb].
  - inversion Hsub; subst subs.
    assert (Hold : okE (CNT st1 [] id f') f' (c_subs c)) by (apply H1; unfold subs_of; now rewrite Hc).
    unfold okE in *. destruct (str_eqb f' f) eqn:E.
    + apply str_eqb_eq in E. subst f'. rewrite set_mem_set_del_same.
      unfold CNT in Hold. destruct (set_mem str_eqb f (c_subs c)); lia.
    + rewrite set_mem_set_del; [exact Hold|]. intros ->. rewrite str_eqb_refl in E. discriminate.
  - apply H1. exact Hsub.
Qed.

