(** C17, completeness clause at run level: [run_complete_steady] (pinned
    [c17_run_complete_partial]) — from any reachable state [st1] on, if nobody joins, leaves or
    is disconnected ([steady_b]) until the broker is quiescent, every log offset from the group's
    cursor in [st1] up to the end of the log has been forwarded through the group during that
    phase (to a then-member whose turn it was: [c17_member_only]).
    Hypotheses besides those of [complete_quiescent]: the phase is steady; nothing was ever
    evicted from the log of the group key (no cursor is [stale] for it at the end).
    PARTIAL: see GroupWakeCov.v. *)
From Rumqtt Require Import Router.NoPanicLog.
From Rumqtt Require Import Router.Model Router.Inv Router.NoPanic.
From Rumqtt Require Import Log.Spec Log.Proofs Router.ExactLog.
From Rumqtt Require Import Router.WindowFrame Router.DataLogInv Router.ExactInv Router.ExactStep3 Router.ExactLogs Router.ExactThm
  Router.RetainedReplay Router.Shared Router.SharedRun Router.SharedRunInv Router.SharedRunThm
  Router.WindowExamples Router.Wake Router.WakeThm Router.WakeCor Router.WakeExamples
  Router.GroupWake Router.GroupWakeThm Router.GroupWakeCov Router.GroupWakeExamples.
From Rumqtt Require Import Router.Model Router.RunDefs.
From Coq Require Import List Arith ZifyBool ZifyN ZifyNat.
Import ListNotations.

Theorem run_complete_steady cfg st0 ops1 st1 ops2 st2 :
  cfg_ok cfg -> 1 <= cf_max_outgoing cfg < B62 -> init cfg = Ok st0 -> ops_wf ops1 -> ops_wf ops2 ->
  run st0 ops1 = Ok st1 -> run st1 ops2 = Ok st2 -> Bounded st2 ->
  no_rewind_b st0 (ops1 ++ ops2) = true -> steady_b st1 ops2 = true ->
  quiescent st2 (owed_run st0 [] (ops1 ++ ops2)) ->
  forall name g1 g2 d,
    al_get str_eqb name (r_groups st1) = Some g1 -> al_get str_eqb name (r_groups st2) = Some g2 ->
    glog (r_datalog st2) name = Some d -> (forall c, stale (d_log d) c = false) ->
    forall off, snd (g_cursor g1) <= off < end_of (d_log d) -> In off (offs_of name (gfwd st1 ops2)).
Proof.
  intros Hcfg Hm Hi Hw1 Hw2 Hr1 Hr2 HB Hnr Hs Q name g1 g2 d Hg1 Hg2 Hd Hst off Hoff.
  assert (Hr : run st0 (ops1 ++ ops2) = Ok st2) by (rewrite (run_app _ _ _ _ Hr1); exact Hr2).
  assert (Hw : ops_wf (ops1 ++ ops2)) by (apply Forall_app; auto).
  destruct (complete_quiescent _ _ _ _ Hcfg Hm Hi Hw Hr HB Hnr Q _ _ Hg2) as (d' & Hd' & Hp).
  rewrite Hd in Hd'. inversion Hd'; subst d'. unfold pos_of in Hp. rewrite Hst in Hp.
  pose proof (init_cinv _ _ (proj2 Hm) Hi) as HC0.
  destruct (run_LL _ _ _ Hr1 (proj1 HC0)) as [LG1 L01]. destruct (run_LL _ _ _ Hr2 LG1) as [_ L12].
  pose proof (bounded_le _ _ LG1 L12 HB) as HB1.
  destruct (run_cinv _ _ _ HC0 Hr1 HB1) as (HC1 & _).
  eapply (steady_phase_covered st1 ops2 st2 name HC1 Hr2 HB); [| exact Hs | exact Hg1 | exact Hg2 | lia].
  intros d0 c Hd0. unfold NoEvict in *. rewrite Hd in Hd0. inversion Hd0; subst d0. apply Hst.
Qed.

(** the hypotheses are met by the round-robin example of Shared.v split after the publisher
    connected: phase 2 = three publishes, DeviceData, consumes, drains; offsets 0, 1, 2 *)
Module C17CovExample.
Import C15Example C17Example C17WakeExample.

Definition ops1 : list (list oracle * rop) := firstn 11 C17Example.ops.
Definition ops2 : list (list oracle * rop) := skipn 11 C17Example.ops.

Example steady_example :
  let st1 := gw_st ops1 in let st2 := gw_st (ops1 ++ ops2) in
  run gw_st0 ops1 = Ok st1 /\ run st1 ops2 = Ok st2 /\ steady_b st1 ops2 = true /\
  gfwd st1 ops2 = [(key, [97], 0); (key, [98], 1); (key, [97], 2)] /\
  forall off, 0 <= off < 3 -> In off (offs_of key (gfwd st1 ops2)).
Proof.
  cbv zeta.
  destruct (al_get str_eqb key (r_groups (gw_st ops1))) as [g1 |] eqn:Eg1; [| vm_compute in Eg1; discriminate].
  destruct (al_get str_eqb key (r_groups (gw_st (ops1 ++ ops2)))) as [g2 |] eqn:Eg2; [| vm_compute in Eg2; discriminate].
  destruct (glog (r_datalog (gw_st (ops1 ++ ops2))) key) as [d |] eqn:Ed; [| vm_compute in Ed; discriminate].
  assert (Er1 : run gw_st0 ops1 = Ok (gw_st ops1)) by (vm_compute; reflexivity).
  assert (Er2 : run (gw_st ops1) ops2 = Ok (gw_st (ops1 ++ ops2))) by (vm_compute; reflexivity).
  assert (Es : steady_b (gw_st ops1) ops2 = true) by (vm_compute; reflexivity).
  split; [exact Er1 |]. split; [exact Er2 |]. split; [exact Es |]. split; [vm_compute; reflexivity |].
  destruct cfg0_ok as [C1 C2].
  intros off Hoff.
  apply (run_complete_steady cfg0 gw_st0 ops1 (gw_st ops1) ops2 (gw_st (ops1 ++ ops2)) C1 C2 gw_init) with (g1 := g1) (g2 := g2) (d := d).
  - apply ops_wf_b. vm_compute. reflexivity.
  - apply ops_wf_b. vm_compute. reflexivity.
  - exact Er1.
  - exact Er2.
  - apply bounded_b_spec. vm_compute. reflexivity.
  - vm_compute. reflexivity.
  - exact Es.
  - apply quiescent_b_ok. vm_compute. reflexivity.
  - exact Eg1.
  - exact Eg2.
  - exact Ed.
  - assert (Eh : Rumqtt.Log.Model.head (d_log d) = 0) by (vm_compute in Ed; inversion Ed; subst d; vm_compute; reflexivity).
    intros c. unfold stale. rewrite Eh. apply N.ltb_ge. lia.
  - assert (Ec : snd (g_cursor g1) = 0) by (vm_compute in Eg1; inversion Eg1; subst g1; reflexivity).
    assert (Ee : end_of (d_log d) = 3) by (vm_compute in Ed; inversion Ed; subst d; vm_compute; reflexivity).
    rewrite Ec, Ee. exact Hoff.
Qed.
End C17CovExample.
