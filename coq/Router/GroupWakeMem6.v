(** C17, completeness clause — part 8: [MemInv] through the packet handlers, DeviceData, every
    step, every run. *)
From Rumqtt Require Import Router.NoPanicLog.
From Rumqtt Require Import Router.Model Router.InvLemmasBase Router.Inv Router.InvLemmasPrim Router.InvLemmasSched
  Router.InvLemmasDl Router.InvLemmasRoute Router.InvLemmasConn Router.InvLemmasPkt Router.InvLemmasConsume
  Router.NoPanic Router.NoPanicDevBase Router.NoPanicDevInv Router.NoPanicDev1 Router.NoPanicDev2 Router.NoPanicDev3 Router.NoPanicDev4.
From Rumqtt Require Import Router.ExactLoc1 Router.ExactLoc2 Router.ExactLoc3.
From Rumqtt Require Import Router.WindowFrame Router.DataLogInv Router.DataLogStep Router.ExactInv Router.ExactStep1 Router.ExactStep3
  Router.RetainedBase Router.SharedRunStep Router.SharedRunStep2 Router.Wake Router.WakeFrame Router.WakeConsume Router.WakePark
  Router.GroupWakeMem Router.GroupWakeMem2 Router.GroupWakeMem3 Router.GroupWakeMem4 Router.GroupWakeMem5.
From Rumqtt Require Import Router.Model Router.RunDefs.
From Coq Require Import List Arith ZifyBool ZifyN ZifyNat.
Import ListNotations.

(* ------------------------------------------------------------------ one packet *)
Lemma do_append_mfr id p props st0 (fl0 : flags) st' fl' brk :
  (do (st1, res) <- append_to_commitlog st0 id p props;
   match res with
   | AppOk => Ok (st1, fl_data fl0, false)
   | AppErr reason => Ok (st1, fl_disc fl0 reason, true)
   end) = Ok (st', fl', brk) -> mfr [] st0 st'.
Proof.
  intros H. apply bind_ok in H as ([st1 res] & H1 & H). apply append_to_commitlog_mfr in H1. destruct res; inv_ok; exact H1.
Qed.

(** everything but SUBSCRIBE / UNSUBSCRIBE only moves requests *)
Lemma handle_packet_mfr st id client pk fl st' fl' brk :
  match pk with PSubscribe _ _ _ | PUnsubscribe _ _ => False | _ => True end ->
  handle_packet st id client pk fl = Ok (st', fl', brk) -> mfr [] st st'.
Proof.
  intros Hk H. destruct pk as [p props | pkid fs subid | pkid fs | pkid | pkid | pkid hp | pkid | | |];
    cbn [handle_packet] in H; try contradiction.
  - destruct (p_qos p =? 1).
    + apply bind_ok in H as (st1 & H1 & H). eapply mfr_trans0; [eapply commit_ack_mfr; eauto | eapply do_append_mfr; eauto].
    + destruct (p_qos p =? 2).
      * apply bind_ok in H as (l & _ & H). inv_ok. apply mfr_view. reflexivity.
      * eapply do_append_mfr; eauto.
  - apply bind_ok in H as (o & Ho & H). apply get_obuf_some in Ho.
    pose proof (register_ack_spec o pkid) as (Ec & _). destruct (register_ack o pkid) as [o' ok]. cbn [fst] in Ec.
    assert (F1 : mfr [] st (put_obuf st id o')) by (eapply mfr_put_obuf; eauto).
    destruct ok; [| inv_ok; exact F1]. apply bind_ok in H as (st2 & H2 & H). inv_ok.
    eapply mfr_trans0; [exact F1 | eapply reschedule_mfr; eauto].
  - apply bind_ok in H as (o & Ho & H). apply get_obuf_some in Ho.
    pose proof (register_ack_spec o pkid) as (Ec & _). destruct (register_ack o pkid) as [o' ok]. cbn [fst] in Ec.
    destruct ok; [| inv_ok; eapply mfr_put_obuf; eauto].
    apply bind_ok in H as (l & _ & H). apply bind_ok in H as (st2 & H2 & H). apply bind_ok in H as (st3 & H3 & H). inv_ok.
    apply (mfr_trans0 _ (put_obuf st id (set_o_pubrels o' (o_pubrels o' ++ [pkid])))); [eapply (mfr_put_obuf st id o); [exact Ho | cbn [set_o_pubrels o_client]; exact Ec] |].
    eapply mfr_trans0; [eapply commit_ack_mfr; eauto | eapply reschedule_mfr; eauto].
  - apply bind_ok in H as (l & _ & H). destruct (a_recorded l) as [| [p0 pr0] rec].
    + inv_ok. apply mfr_view. reflexivity.
    + apply bind_ok in H as ([st2 res] & H2 & H). apply append_to_commitlog_mfr in H2.
      assert (F2 : mfr [] st st2) by (eapply mfr_trans0; [| exact H2]; apply mfr_view; reflexivity).
      destruct res; [| inv_ok; exact F2].
      apply bind_ok in H as (st3 & H3 & H). inv_ok. eapply mfr_trans0; [exact F2 | eapply reschedule_mfr; eauto].
  - apply bind_ok in H as (o & Ho & H). apply get_obuf_some in Ho.
    pose proof (register_pubcomp_spec o pkid) as (Ec & _). destruct (register_pubcomp o pkid) as [o' ok]. cbn [fst] in Ec.
    destruct ok; inv_ok; eapply mfr_put_obuf; eauto.
  - apply bind_ok in H as (st1 & H1 & H). inv_ok. eapply commit_ack_mfr; eauto.
  - inv_ok. apply mfr_view. reflexivity.
  - inv_ok. apply mfr_refl.
Qed.

Lemma keep_cli st st' id : keep st' = keep st -> cli st' id = cli st id.
Proof. intros K. unfold cli. now rewrite (keep_obufs _ _ K). Qed.

Lemma handle_packet_mem cfg st id client pk fl st' fl' brk :
  RInvC cfg st -> DevEI st -> occ (lives st) id -> packet_wf pk -> MemInv st -> cli st id = Some client ->
  handle_packet st id client pk fl = Ok (st', fl', brk) -> MemInv st' /\ cli st' id = Some client.
Proof.
  intros HI HD Ho Hwf HM Hcl H.
  destruct pk as [p props | pkid fs subid | pkid fs | pkid | pkid | pkid hp | pkid | | |].
  2: { cbn [handle_packet] in H. apply bind_ok in H as ([[st1 fl1] codes] & H1 & H). apply bind_ok in H as (st2 & H2 & H). inv_ok.
       split.
       - eapply MemInv_mfr0; [| eapply commit_ack_mfr; eauto]. eapply subscribe_filters_mem; eauto.
       - rewrite (mf_cli _ _ _ (commit_ack_mfr _ _ _ _ H2)), (keep_cli _ _ _ (subscribe_filters_keep _ _ _ _ _ _ _ _ _ H1)). exact Hcl. }
  2: { cbn [handle_packet] in H. apply bind_ok in H as (c & _ & H). apply bind_ok in H as ([st1 reasons] & H1 & H).
       apply bind_ok in H as (st2 & H2 & H). inv_ok. split.
       - eapply MemInv_mfr0; [| eapply commit_ack_mfr; eauto]. eapply unsubscribe_filters_mem; eauto.
       - rewrite (mf_cli _ _ _ (commit_ack_mfr _ _ _ _ H2)), (keep_cli _ _ _ (unsubscribe_filters_keep _ _ _ _ _ _ _ H1)). exact Hcl. }
  all: (assert (F : mfr [] st st') by (eapply handle_packet_mfr; [| exact H]; exact I));
       (split; [eapply MemInv_mfr0; eauto | rewrite (mf_cli _ _ _ F); exact Hcl]).
Qed.

Lemma handle_packets_mem cfg id client : forall pks st fl st' fl',
  RInvC cfg st -> DevEI st -> occ (lives st) id -> Forall packet_wf pks -> MemInv st -> cli st id = Some client ->
  handle_packets st id client pks fl = Ok (st', fl') -> MemInv st'.
Proof.
  induction pks as [| pk pks IH]; intros st fl st' fl' HI HD Ho Hp HM Hcl H; cbn [handle_packets] in H; [now inv_ok |].
  inversion Hp as [| ? ? Hp1 Hp']; subst. apply bind_ok in H as ([[st1 fl1] brk] & H1 & H).
  pose proof (handle_packet_spec cfg st id client pk fl HI Ho Hp1) as W. rewrite H1 in W. cbn [wp fst snd] in W. destruct W as (HI1 & E1 & _).
  pose proof (handle_packet_loc cfg st id client pk fl HI HD Ho Hp1) as W2. rewrite H1 in W2. cbn [wpd fst] in W2.
  destruct (handle_packet_mem _ _ _ _ _ _ _ _ _ HI HD Ho Hp1 HM Hcl H1) as [HM1 Hcl1].
  destruct brk; [now inv_ok |]. eapply IH; [exact HI1 | exact W2 | eapply ext_occ; eauto | exact Hp' | exact HM1 | exact Hcl1 | exact H].
Qed.

(* ------------------------------------------------------------------ DeviceData *)
Lemma handle_device_payload_mem cfg st id st' :
  RInvC cfg st -> r_notif st = [] -> DevEI st -> MemInv st ->
  handle_device_payload st id = Ok st' -> MemInv st'.
Proof.
  intros HI Hn HD HM H. unfold handle_device_payload in H.
  destruct (slab_get (r_ibufs st) id) as [inc |] eqn:Hi; [| now inv_ok].
  destruct (RInv_ibuf_live _ _ _ _ HI Hi) as [c Hc].
  assert (Ho : occ (lives st) id) by (eapply get_occ; eauto).
  assert (Hcl : cli st id = Some (i_client inc)).
  { rewrite (conn_cli _ _ _ _ HI Hc). f_equal. symmetry. eapply ri_cl_i; eauto. }
  apply bind_ok in H as (b & Hb & H). unfold link_get in Hb. destruct (nthN (r_links st) (i_link inc)) as [b0 |] eqn:Eb; [| discriminate].
  inversion Hb; subst b0. clear Hb.
  set (st0 := link_put st (i_link inc) (set_lk_in b [])) in *.
  assert (HI0 : RInvC cfg st0) by (apply RInv_link_put; [exact HI | constructor]).
  assert (HD0 : DevEI st0) by (eapply dfr_DevE; [exact HD | dfr_triv]).
  assert (HM0 : MemInv st0) by (eapply MemInv_mfr0; [exact HM | apply mfr_view; reflexivity]).
  assert (Hpk : Forall packet_wf (lk_in b)) by exact (Forall_nthN (fun b => Forall packet_wf (lk_in b)) _ _ _ (ri_pkts _ _ HI) Eb).
  apply bind_ok in H as ([st1 fl] & H1 & H).
  pose proof (handle_packets_spec cfg id (i_client inc) (lk_in b) st0 flags0 HI0 Ho Hpk) as W. rewrite H1 in W. cbn [wp fst snd] in W.
  destruct W as (HI1 & E1 & NP1).
  pose proof (handle_packets_loc cfg id (i_client inc) (lk_in b) st0 flags0 HI0 HD0 Ho Hpk) as W2. rewrite H1 in W2. cbn [wpd fst] in W2.
  assert (HM1 : MemInv st1) by (eapply handle_packets_mem; [exact HI0 | exact HD0 | exact Ho | exact Hpk | exact HM0 | exact Hcl | exact H1]).
  assert (NP1' : NP st1 fl) by (apply NP1; intros _; exact Hn).
  assert (Ho1 : occ (lives st1) id) by (eapply ext_occ; eauto).
  apply bind_ok in H as (st2 & H2 & H).
  assert (X2 : RInvC cfg st2 /\ r_notif st2 = r_notif st1 /\ DevEI st2 /\ MemInv st2).
  { destruct (f_force_ack fl); [| inv_ok; auto].
    assert (Hne : SFreshData <> SInit) by discriminate.
    pose proof (reschedule_spec cfg st1 id SFreshData HI1 Ho1 Hne) as W. rewrite H2 in W. cbn [wp] in W. destruct W as (A & _ & B).
    pose proof (reschedule_dev st1 id SFreshData []) as W3. rewrite H2 in W3. cbn [wpd] in W3.
    split; [exact A | split; [exact B | split; [eapply dfr_DevE; eauto |]]].
    eapply MemInv_mfr0; [exact HM1 | eapply reschedule_mfr; eauto]. }
  destruct X2 as (HI2 & N2 & HD2 & HM2).
  apply bind_ok in H as (st3 & H3 & H).
  assert (X3 : RInvC cfg st3 /\ r_notif st3 = [] /\ DevEI st3 /\ MemInv st3).
  { destruct (f_new_data fl) eqn:Ed.
    - pose proof (drain_notifications_spec cfg st2 HI2) as W. rewrite H3 in W. cbn [wp] in W. destruct W as (A & _ & B).
      pose proof (drain_notifications_dev st2 []) as W3. rewrite H3 in W3. cbn [wpd] in W3.
      split; [exact A | split; [exact B | split; [eapply dfr_DevE; eauto |]]].
      eapply MemInv_mfr0; [exact HM2 | eapply drain_notifications_mfr; eauto].
    - inv_ok. split; [exact HI2 | split; [| auto]]. rewrite N2. now apply NP1'. }
  destruct X3 as (HI3 & N3 & HD3 & HM3).
  destruct (f_disconnect fl); [| now inv_ok].
  pose proof (handle_disconnection_spec cfg st3 id (f_reason fl) HI3 N3) as W. rewrite H in W. cbn [wp] in W.
  eapply handle_disconnection_mem; [exact HI3 | exact (proj1 W) | exact HM3 | exact H].
Qed.

(* ------------------------------------------------------------------ one step *)
Theorem step_mem cfg st o st' out :
  RInvC cfg st -> r_notif st = [] -> DevEI st -> op_wf o -> MemInv st ->
  step st o = Ok (st', out) -> MemInv st'.
Proof.
  intros HI Hn HD Hwf HM H. destruct o as [c | k pk | id | | k | id | id | id f | c |]; cbn [step] in H.
  - cbv zeta in H. apply bind_ok in H as (st2 & H2 & H). inv_ok.
    eapply (handle_new_connection_mem cfg); [| | | | | exact H2].
    + apply RInv_links_app; [exact HI | constructor].
    + exact Hn.
    + eapply dfr_DevE; [exact HD | dfr_triv].
    + eapply MemInv_mfr0; [exact HM | apply mfr_view; reflexivity].
    + reflexivity.
  - destruct (nthN (r_links st) k) as [b |]; inv_ok; [| exact HM]. eapply MemInv_mfr0; [exact HM | apply mfr_view; reflexivity].
  - apply bind_ok in H as (st1 & H1 & H). inv_ok. eapply handle_device_payload_mem; eauto.
  - apply bind_ok in H as ([st1 b] & H1 & H). inv_ok. eapply consume_mem; eauto.
  - destruct (nthN (r_links st) k) as [b |]; inv_ok; [| exact HM]. eapply MemInv_mfr0; [exact HM | apply mfr_view; reflexivity].
  - destruct (slab_get (r_trackers st) id) as [t |]; [| inv_ok; exact HM].
    apply bind_ok in H as (st1 & H1 & H). inv_ok. eapply MemInv_mfr0; [exact HM | eapply reschedule_mfr; eauto].
  - apply bind_ok in H as (st1 & H1 & H). inv_ok.
    pose proof (handle_disconnection_spec cfg st id None HI Hn) as W. rewrite H1 in W. cbn [wp] in W.
    eapply handle_disconnection_mem; [exact HI | exact (proj1 W) | exact HM | exact H1].
  - apply bind_ok in H as (st1 & H1 & H). inv_ok. eapply MemInv_mfr0; [exact HM | eapply retrieve_shadow_mfr; eauto].
  - apply bind_ok in H as (st1 & H1 & H). inv_ok. eapply MemInv_mfr0; [exact HM | eapply handle_last_will_mfr; eauto].
  - inv_ok. exact HM.
Qed.

Theorem step_with_mem st orc o st' out :
  RInvE st -> op_wf o -> MemInv st -> step_with st orc o = Ok (st', out) -> MemInv st'.
Proof.
  intros [[HI Hn] HD] Hwf HM H. unfold step_with in H. apply bind_ok in H as ([st1 out1] & H1 & H).
  destruct (r_oracle st1); [| discriminate]. inv_ok.
  eapply (step_mem (r_cfg st) (set_r_oracle st orc)); [| | | exact Hwf | | exact H1].
  - apply RInv_set_oracle. exact HI.
  - exact Hn.
  - eapply dfr_DevE; [exact HD | dfr_triv].
  - eapply MemInv_mfr0; [exact HM | apply mfr_view; reflexivity].
Qed.

Lemma init_mem cfg st0 : init cfg = Ok st0 -> MemInv st0.
Proof.
  unfold init. intros H. apply bind_ok in H as (dl & Hdl & H). inv_ok.
  destruct (init_datalog_logs _ _ Hdl) as (_ & Hw).
  constructor.
  - intros id rq [Hr | [(i & d & Hd & Hin) | Hr]].
    + unfold treqs, slab_get, slab_empty in Hr. cbn in Hr. destruct Hr.
    + cbn [r_datalog] in Hd. rewrite (Hw _ _ Hd) in Hin. destruct Hin.
    + destruct Hr.
  - constructor.
  - intros name c (l & Hl & _). discriminate.
  - constructor.
Qed.

Theorem mem_run : forall ops st st',
  RInvE st -> ops_wf ops -> MemInv st -> run st ops = Ok st' -> MemInv st'.
Proof.
  induction ops as [| [orc o] ops IH]; intros st st' HE Hwf HM Hr; cbn [run] in Hr.
  - now inv_ok.
  - inversion Hwf as [| ? ? Hw1 Hw']; subst. cbn [snd] in Hw1.
    destruct (step_with st orc o) as [[st1 out] | e | t] eqn:Es; try discriminate.
    eapply IH; [eapply rinve_step; eauto | exact Hw' | eapply step_with_mem; eauto | exact Hr].
Qed.

(** the membership invariant holds in every state reachable by well-typed ops *)
Theorem mem_reachable cfg st0 ops st :
  cfg_ok cfg -> init cfg = Ok st0 -> ops_wf ops -> run st0 ops = Ok st -> MemInv st.
Proof.
  intros Hcfg Hi Hwf Hr. eapply mem_run; [eapply rinve_init; eauto | exact Hwf | eapply init_mem; eauto | exact Hr].
Qed.
