(** Consequences of RInv: admission clauses of C19, "still serving" of C03, and a non-trivial
    reachable state satisfying RInv. *)
From Rumqtt Require Import Router.NoPanicLog.
From Rumqtt Require Import Router.Model Router.Inv Router.InvLemmasPrim Router.InvLemmasSched Router.InvLemmasDl
  Router.InvLemmasRoute Router.InvLemmasConn Router.NoPanic.
From Rumqtt Require Import Router.Model Router.RunDefs.
From Coq Require Import Arith ZifyBool ZifyN ZifyNat.

(* ------------------------------------------------------------------ C19 *)
Theorem rinv_unique st k1 k2 c1 c2 :
  RInv st -> slab_get (r_conns st) k1 = Some c1 -> slab_get (r_conns st) k2 = Some c2 ->
  c_client c1 = c_client c2 -> k1 = k2.
Proof.
  intros [HI _] H1 H2 Hc. pose proof (ri_cmap _ _ HI _ _ H1) as M1. pose proof (ri_cmap _ _ HI _ _ H2) as M2.
  rewrite Hc in M1. congruence.
Qed.

Theorem rinv_limit st : RInv st -> slab_len (r_conns st) <= cf_max_connections (r_cfg st).
Proof. intros [HI _]. apply (ri_max _ _ HI). Qed.

Theorem reachable_unique cfg st0 ops st k1 k2 c1 c2 :
  cfg_ok cfg -> init cfg = Ok st0 -> ops_wf ops -> run st0 ops = Ok st ->
  slab_get (r_conns st) k1 = Some c1 -> slab_get (r_conns st) k2 = Some c2 ->
  c_client c1 = c_client c2 -> k1 = k2.
Proof. intros H1 H2 H3 H4. eapply rinv_unique. eapply rinv_reachable; eauto. Qed.

Theorem reachable_limit cfg st0 ops st :
  cfg_ok cfg -> init cfg = Ok st0 -> ops_wf ops -> run st0 ops = Ok st ->
  slab_len (r_conns st) <= cf_max_connections cfg.
Proof.
  intros H1 H2 H3 H4. pose proof (rinv_reachable _ _ _ _ H1 H2 H3 H4) as HI.
  pose proof (rinv_limit _ HI) as HL. destruct HI as [HI _].
  destruct (init_spec cfg H1) as (st0' & Hi' & _ & _ & Hc). rewrite H2 in Hi'. inversion Hi'; subst st0'.
  destruct (rinv_run ops st0 st (rinv_init _ _ H1 H2) H3 H4) as [_ Hcfg]. congruence.
Qed.

(* ------------------------------------------------------------------ still serving *)
(** After any history, a Connect with a valid client id that is neither connected nor known to
    the graveyard, while there is room, is registered: it is in connection_map, its ack log
    holds the ConnAck, and it is scheduled. (Both profiles: the fresh tracker is Paused(Busy)
    and has no requests, so neither debug assertion can fire.) *)
Theorem still_serving st c :
  RInv st -> validate_clientid (cr_client c) = true ->
  al_get str_eqb (cr_client c) (r_cmap st) = None ->
  al_get str_eqb (cr_client c) (r_graveyard st) = None ->
  slab_len (r_conns st) < cf_max_connections (r_cfg st) ->
  exists st' id a,
    step_with st [] (OpConnect c) = Ok (st', OutUnit) /\
    al_get str_eqb (cr_client c) (r_cmap st') = Some id /\
    slab_get (r_acks st') id = Some a /\ a_committed a = [AConnAck id false] /\
    In id (r_ready st') /\ RInv st'.
Proof.
  intros HR Hval Hcm Hgy Hroom. pose proof HR as [HI Hn].
  assert (Hgoal : exists st' id a,
    step_with st [] (OpConnect c) = Ok (st', OutUnit) /\
    al_get str_eqb (cr_client c) (r_cmap st') = Some id /\
    slab_get (r_acks st') id = Some a /\ a_committed a = [AConnAck id false] /\
    In id (r_ready st')).
  { unfold step_with, step. cbv zeta.
    set (st1 := set_r_links (set_r_oracle st []) (r_links (set_r_oracle st []) ++ [{| lk_in := []; lk_out := [] |}])).
    unfold handle_new_connection. cbv zeta. cbn [c_client c_clean c_will set_c_will].
    rewrite Hval. cbn [negb].
    assert (E1 : al_get str_eqb (cr_client c) (r_cmap st1) = None) by exact Hcm. rewrite E1. cbn [bind].
    assert (E2 : (cf_max_connections (r_cfg st1) <=? slab_len (r_conns st1)) = false).
    { unfold st1. cbn [r_cfg r_conns set_r_links set_r_oracle]. lia. }
    rewrite E2.
    assert (E3 : al_get str_eqb (cr_client c) (r_graveyard st1) = None) by exact Hgy. rewrite E3.
    set (trk := {| tr_id := cr_client c; tr_reqs := []; tr_status := Paused Busy |}).
    assert (Etcp : (if negb (cr_clean c) then (trk, {| c_client := cr_client c; c_dynamic := cr_dynamic c; c_clean := cr_clean c;
                       c_subs := []; c_will := cr_will c; c_aliases := [];
                       c_baliases := if 0 <? cr_alias_max c then Some (baliases_new (cr_alias_max c)) else None;
                       c_subids := [] |}, @nil N) else (trk, {| c_client := cr_client c; c_dynamic := cr_dynamic c; c_clean := cr_clean c;
                       c_subs := []; c_will := cr_will c; c_aliases := [];
                       c_baliases := if 0 <? cr_alias_max c then Some (baliases_new (cr_alias_max c)) else None;
                       c_subids := [] |}, @nil N)) = (trk, {| c_client := cr_client c; c_dynamic := cr_dynamic c; c_clean := cr_clean c;
                       c_subs := []; c_will := cr_will c; c_aliases := [];
                       c_baliases := if 0 <? cr_alias_max c then Some (baliases_new (cr_alias_max c)) else None;
                       c_subids := [] |}, @nil N)) by (destruct (negb (cr_clean c)); reflexivity).
    rewrite Etcp. clear Etcp. cbn [tr_reqs trk rejoin_groups c_will set_c_will commit_pubrels].
    match goal with |- context [slab_insert (r_conns st1) ?x] => destruct (slab_insert (r_conns st1) x) as [conns id] eqn:Ec end.
    match goal with |- context [slab_insert (r_ibufs st1) ?x] => destruct (slab_insert (r_ibufs st1) x) as [ibufs id_i] eqn:Ei end.
    match goal with |- context [slab_insert (r_obufs st1) ?x] => destruct (slab_insert (r_obufs st1) x) as [obufs id_o] eqn:Eo end.
    match goal with |- context [slab_insert (r_acks st1) ?x] => destruct (slab_insert (r_acks st1) x) as [acks id_a] eqn:Ea end.
    match goal with |- context [slab_insert (r_trackers st1) ?x] => destruct (slab_insert (r_trackers st1) x) as [trackers id_t] eqn:Et end.
    destruct (aligned_insert _ _ _ _ _ _ _ _ (ri_al_i _ _ HI) Ec Ei) as [<- _].
    destruct (aligned_insert _ _ _ _ _ _ _ _ (ri_al_o _ _ HI) Ec Eo) as [<- _].
    destruct (aligned_insert _ _ _ _ _ _ _ _ (ri_al_a _ _ HI) Ec Ea) as [<- _].
    destruct (aligned_insert _ _ _ _ _ _ _ _ (ri_al_t _ _ HI) Ec Et) as [<- _].
    rewrite !N.eqb_refl. cbn [andb negb].
    pose proof (ri_wf _ _ HI) as Hwf.
    destruct (insert_spec _ _ _ _ (aligned_wf _ _ (ri_al_a _ _ HI) Hwf) Ea) as (_ & Hanew & _).
    destruct (insert_spec _ _ _ _ (aligned_wf _ _ (ri_al_t _ _ HI) Hwf) Et) as (_ & Htnew & _).
    match goal with |- context [dbg_no_dups ?s id] => set (st2 := s) end.
    assert (Ht2 : get_tracker st2 id = Ok trk).
    { unfold get_tracker, st2. cbn [r_trackers]. now rewrite Htnew. }
    assert (Edbg : dbg_no_dups st2 id = Ok tt).
    { unfold dbg_no_dups. rewrite Ht2. destruct (cf_debug_assertions (r_cfg st2)); reflexivity. }
    assert (Ers : reschedule st2 id SInit =
                  Ok (set_r_ready (put_tracker st2 id (set_tr_status trk Ready)) (r_ready st2 ++ [id]))).
    { unfold reschedule. rewrite Ht2. cbn [bind]. unfold try_ready. cbn [tr_status trk].
      rewrite andb_false_r. reflexivity. }
    rewrite Edbg, Ers. cbn [bind]. unfold put_tracker, st2.
    cbn [r_oracle set_r_ready set_r_trackers r_trackers r_ready st1 set_r_links set_r_oracle].
    eexists _, id, _. split; [reflexivity|]. cbn [r_cmap r_acks r_ready].
    split; [apply al_get_set_eq|]. split; [exact Hanew|]. split.
    - cbn [a_committed]. rewrite andb_false_r. reflexivity.
    - apply in_or_app. right. now left. }
  destruct Hgoal as (st' & id & a & Hs & H1 & H2 & H3 & H4).
  exists st', id, a. repeat (split; [assumption|]).
  eapply rinv_step; [exact HR| |exact Hs]. exact I.
Qed.

(* ------------------------------------------------------------------ RInv is not vacuous *)
Definition ex_cfg : config :=
  {| cf_max_connections := 10; cf_max_outgoing := 200; cf_seg_size := 1024; cf_seg_count := 2;
     cf_init_filters := []; cf_strategy := RoundRobin; cf_debug_assertions := true |}.
Definition ex_cA : connect_req :=
  {| cr_client := [97]; cr_clean := false; cr_dynamic := false; cr_alias_max := 0; cr_will := None |}.
Definition ex_cB : connect_req :=
  {| cr_client := [98]; cr_clean := true; cr_dynamic := false; cr_alias_max := 0; cr_will := None |}.
Definition ex_pub : publish :=
  {| p_dup := false; p_qos := 1; p_retain := false; p_topic := [116]; p_pkid := 1; p_payload := [1; 2] |}.
(** two connections, "a" subscribes to "t" (QoS 1), "b" publishes to "t", the publish is
    forwarded to "a" (inflight, waiting for its PUBACK), "b" disconnects *)
Definition ex_ops : list (list oracle * rop) :=
  [([], OpConnect ex_cA); ([], OpConnect ex_cB);
   ([], OpPush 0 (PSubscribe 1 [([116], 1)] None)); ([], OpData 0);
   ([], OpConsume); ([], OpConsume); ([], OpConsume);
   ([], OpPush 1 (PPublish ex_pub None)); ([], OpData 1);
   ([], OpConsume); ([], OpConsume); ([], OpConsume);
   ([], OpDisconnect 1)].

Example rinv_nonvacuous :
  exists st0 st,
    init ex_cfg = Ok st0 /\ run st0 ex_ops = Ok st /\ RInv st /\
    slab_len (r_conns st) = 1 /\ r_graveyard st = [([98], None)] /\
    (exists o, slab_get (r_obufs st) 0 = Some o /\ o_inflight o = [(1, 0, Some (0, 0))]) /\
    (exists d, slab_get (dl_native (r_datalog st)) 0 = Some d /\ lenN (d_waiters d) = 1 /\
               lenN (concat (map (@s_data pubdata) (segs (d_log d)))) = 1).
Proof.
  eexists. eexists. split; [vm_compute; reflexivity|]. split; [vm_compute; reflexivity|].
  split.
  - eapply (rinv_reachable ex_cfg _ ex_ops).
    + split; cbn; lia.
    + vm_compute; reflexivity.
    + unfold ops_wf, ex_ops. repeat (constructor; cbn; try lia; try exact I).
    + vm_compute; reflexivity.
  - split; [vm_compute; reflexivity|]. split; [vm_compute; reflexivity|].
    split; eexists; (split; [vm_compute; reflexivity|]); repeat split; vm_compute; reflexivity.
Qed.
