(** C01 exactness — [CInv] through the scheduler, waiter and data-log functions of the model. *)
From Rumqtt Require Import Log.Spec Log.Proofs Router.ExactLog.
From Rumqtt Require Import Topic.Proofs Router.WindowFrame Router.Window Router.DataLogInv Router.DataLogStep Router.ExactInv.
From Rumqtt Require Import Router.Model.
From Coq Require Import ZifyBool ZifyN ZifyNat.

(* ------------------------------------------------------------------ CInv versions of the primitives *)
Lemma cinv_put_tracker st id t' :
  CInv st -> Forall (RqOk (r_datalog st)) (tr_reqs t') -> CInv (put_tracker st id t').
Proof. intros [LI CI] H. split; [exact LI|]. now apply cinvd_put_tracker. Qed.

Lemma cinv_put_obuf st id o' :
  CInv st -> Forall (InflOk (r_datalog st)) (o_inflight o') -> CInv (put_obuf st id o').
Proof. intros [LI CI] H. split; [exact LI|]. now apply cinvd_put_obuf. Qed.

Lemma cinv_set_notif st v : CInv st -> Forall (WtOk (r_datalog st)) v -> CInv (set_r_notif st v).
Proof. intros [LI CI] H. split; [exact LI|]. now apply cinvd_set_notif. Qed.

Lemma cinv_set_groups st v : CInv st -> Forall (GrpOk (r_datalog st)) v -> CInv (set_r_groups st v).
Proof. intros [LI CI] H. split; [exact LI|]. now apply cinvd_set_groups. Qed.

Lemma cinv_trk st k t : CInv st -> slab_get (r_trackers st) k = Some t -> Forall (RqOk (r_datalog st)) (tr_reqs t).
Proof. intros [_ CI]. apply (ci_trk _ _ CI). Qed.

(** a change of waiter lists only *)
Lemma cinv_waiters st dl2 :
  CInv st -> same_logs (r_datalog st) dl2 ->
  (forall i d2, nget dl2 i = Some d2 -> Forall (WtOk (r_datalog st)) (d_waiters d2)) ->
  CInv (set_r_datalog st dl2).
Proof.
  intros [LI CI] HS HW. split; cbn [r_datalog set_r_datalog].
  - eapply logsinv_same_logs; eassumption.
  - eapply cinvd_mono; [exact LI|now apply dl_le_same_logs|]. now apply cinvd_set_datalog.
Qed.

(* ------------------------------------------------------------------ scheduler *)
Lemma try_ready_reqs dbg t why t' w : try_ready dbg t why = Ok (t', w) -> tr_reqs t' = tr_reqs t.
Proof. unfold try_ready. intros H. break_all H; inv_ok; reflexivity. Qed.

Lemma reschedule_cinv st id why st' : CInv st -> reschedule st id why = Ok st' -> CInv st'.
Proof.
  unfold reschedule, get_tracker. intros HI H.
  destruct (slab_get (r_trackers st) id) as [t|] eqn:Et; [|discriminate]. cbn [bind] in H.
  apply bind_ok in H as ([t' woke] & Htr & H). apply try_ready_reqs in Htr.
  assert (H1 : CInv (put_tracker st id t')).
  { apply cinv_put_tracker; [exact HI|]. rewrite Htr. eapply cinv_trk; eassumption. }
  destruct woke; inv_ok; [|exact H1]. eapply cinv_view; [|exact H1]. reflexivity.
Qed.

Lemma trackv_cinv st id rqs st' :
  CInv st -> Forall (RqOk (r_datalog st)) rqs -> trackv st id rqs = Ok st' -> CInv st'.
Proof.
  unfold trackv, get_tracker. intros HI Hr H.
  destruct (slab_get (r_trackers st) id) as [t|] eqn:Et; [|discriminate]. cbn [bind] in H. inv_ok.
  apply cinv_put_tracker; [exact HI|]. cbn [set_tr_reqs tr_reqs]. apply Forall_app. split; [|exact Hr].
  eapply cinv_trk; eassumption.
Qed.

Lemma track_cinv st id rq st' :
  CInv st -> RqOk (r_datalog st) rq -> track st id rq = Ok st' -> CInv st'.
Proof. intros HI Hr H. apply (trackv_cinv st id [rq] st' HI); [constructor; [exact Hr|constructor]|exact H]. Qed.

Lemma Forall_filter' {X} (P : X -> Prop) f (l : list X) : Forall P l -> Forall P (filter f l).
Proof.
  intros H. apply Forall_forall. intros x Hx. apply filter_In in Hx. rewrite Forall_forall in H. now apply H.
Qed.

Lemma untrack_cinv st id f st' : CInv st -> untrack st id f = Ok st' -> CInv st'.
Proof.
  unfold untrack, get_tracker. intros HI H.
  destruct (slab_get (r_trackers st) id) as [t|] eqn:Et; [|discriminate]. cbn [bind] in H. inv_ok.
  apply cinv_put_tracker; [exact HI|]. cbn [set_tr_reqs tr_reqs]. apply Forall_filter'. eapply cinv_trk; eassumption.
Qed.

Lemma pause_cinv st id why st' : CInv st -> pause st id why = Ok st' -> CInv st'.
Proof.
  unfold pause, get_tracker. intros HI H.
  destruct (split_last_n (r_ready st)) as [[ini last]|]; [|discriminate].
  destruct (last =? id); [|discriminate]. cbn [r_trackers set_r_ready] in H.
  destruct (slab_get (r_trackers st) id) as [t|] eqn:Et; [|discriminate]. cbn [bind] in H. inv_ok.
  apply (cinv_put_tracker (set_r_ready st ini)).
  - eapply cinv_view; [|exact HI]. reflexivity.
  - cbn [set_tr_status tr_reqs r_datalog set_r_ready]. eapply cinv_trk; eassumption.
Qed.

Lemma wake_all_cinv ns : forall st st',
  CInv st -> Forall (WtOk (r_datalog st)) ns -> wake_all st ns = Ok st' -> CInv st'.
Proof.
  induction ns as [|[id rq] ns IH]; intros st st' HI Hns H; cbn [wake_all] in H.
  - now inv_ok.
  - inversion Hns as [|? ? Hrq Hns']; subst.
    apply bind_ok in H as (st1 & H1 & H). apply bind_ok in H as (st2 & H2 & H).
    pose proof (track_dl _ _ _ _ H1) as D1. pose proof (reschedule_dl _ _ _ _ H2) as D2.
    eapply IH; [| |exact H].
    + eapply reschedule_cinv; [|exact H2]. eapply track_cinv; [exact HI|exact Hrq|exact H1].
    + rewrite D2, D1. exact Hns'.
Qed.

Lemma drain_notifications_cinv st st' : CInv st -> drain_notifications st = Ok st' -> CInv st'.
Proof.
  unfold drain_notifications. intros HI H. eapply wake_all_cinv; [| |exact H].
  - apply cinv_set_notif; [exact HI|constructor].
  - cbn [r_datalog set_r_notif]. destruct HI as [_ CI]. apply (ci_notif _ _ CI).
Qed.

(* ------------------------------------------------------------------ waiters *)
Definition ItemsOk (P : N * drequest -> Prop) (items : list (option data)) : Prop :=
  Forall (fun o => match o with Some d => Forall P (d_waiters d) | None => True end) items.

Lemma itemsok_nget P dl :
  ItemsOk P (sl_items (dl_native dl)) <-> (forall i d, nget dl i = Some d -> Forall P (d_waiters d)).
Proof.
  unfold ItemsOk, nget, slab_get. split.
  - intros H i d Hd. destruct (nthN (sl_items (dl_native dl)) i) as [[d0|]|] eqn:E; try discriminate.
    inversion Hd; subst. apply nthN_In in E. rewrite Forall_forall in H. exact (H _ E).
  - intros H. apply Forall_forall. intros [d|] Hin; [|exact I].
    apply In_nthN in Hin. destruct Hin as [i Hi]. apply (H i). now rewrite Hi.
Qed.

Lemma swap_remove_back_in {X} (l : list X) : forall i x l',
  swap_remove_back l i = Some (x, l') -> In x l /\ (forall y, In y l' -> In y l).
Proof.
  induction l as [|a l IH]; intros i x l' H; cbn [swap_remove_back] in H; [discriminate|].
  destruct (i =? 0).
  - destruct (rev l) as [|lst mid] eqn:Er; inversion H; subst; clear H.
    + split; [now left|]. intros y [].
    + assert (El : l = rev mid ++ [lst]) by (rewrite <- (rev_involutive l), Er; reflexivity).
      split; [now left|]. intros y [<- | Hy]; right; rewrite El; apply in_or_app; [right; now left|now left].
  - destruct (swap_remove_back l (i - 1)) as [[y r']|] eqn:E; inversion H; subst; clear H.
    destruct (IH _ _ _ E) as [H1 H2]. split; [now right|]. intros z [<- | Hz]; [now left|right; auto].
Qed.

Lemma waiters_remove_ok P id : forall fuel w w' q,
  Forall P w -> waiters_remove fuel w id = (w', q) ->
  Forall P w' /\ Forall (fun rq => exists c, P (c, rq)) q.
Proof.
  induction fuel as [|fuel IH]; intros w w' q HP H; cbn [waiters_remove] in H.
  - inv_ok. split; [exact HP|constructor].
  - destruct (position_id w id 0) as [i|]; [|inv_ok; split; [exact HP|constructor]].
    destruct (swap_remove_back w i) as [[[c rq] w1]|] eqn:E; [|inv_ok; split; [exact HP|constructor]].
    destruct (waiters_remove fuel w1 id) as [w2 rqs] eqn:E2. inv_ok.
    apply swap_remove_back_in in E. destruct E as [Hin Hsub]. rewrite Forall_forall in HP.
    assert (HP1 : Forall P w1) by (apply Forall_forall; intros y Hy; apply HP; now apply Hsub).
    destruct (IH _ _ _ HP1 E2) as [H1 H2]. split; [exact H1|]. constructor; [|exact H2].
    exists c. now apply HP.
Qed.

Lemma clean_items_ok P id : forall items items' q,
  ItemsOk P items -> clean_items items id = (items', q) ->
  ItemsOk P items' /\ Forall (fun rq => exists c, P (c, rq)) q.
Proof.
  unfold ItemsOk. induction items as [|[d|] r IH]; intros items' q HP H; cbn [clean_items] in H.
  - inv_ok. split; constructor.
  - destruct (waiters_remove (S (length (d_waiters d))) (d_waiters d) id) as [w' q1] eqn:E1.
    destruct (clean_items r id) as [r' q2] eqn:E2. inv_ok. inversion HP as [|? ? Hd Hr]; subst.
    destruct (waiters_remove_ok P id _ _ _ _ Hd E1) as [H1 H2]. destruct (IH _ _ Hr eq_refl) as [H3 H4].
    split; [constructor; [exact H1|exact H3]|apply Forall_app; split; assumption].
  - destruct (clean_items r id) as [r' q2] eqn:E2. inv_ok. inversion HP as [|? ? Hd Hr]; subst.
    destruct (IH _ _ Hr eq_refl) as [H3 H4]. split; [constructor; [exact I|exact H3]|exact H4].
Qed.

Lemma remove_waiter_items_ok P id f : forall items, ItemsOk P items -> ItemsOk P (remove_waiter_items items id f).
Proof.
  unfold ItemsOk. induction items as [|[d|] r IH]; intros HP; cbn [remove_waiter_items]; [constructor| |].
  - inversion HP as [|? ? Hd Hr]; subst. destruct (position_req (d_waiters d) id f 0) as [i|].
    + destruct (swap_remove_back (d_waiters d) i) as [[x w']|] eqn:E; [|exact HP].
      constructor; [|exact Hr]. cbn [set_d_waiters d_waiters]. apply swap_remove_back_in in E. destruct E as [_ Hsub].
      rewrite Forall_forall in Hd. apply Forall_forall. intros y Hy. apply Hd. now apply Hsub.
    + constructor; [exact Hd|now apply IH].
  - inversion HP; subst. constructor; [exact I|now apply IH].
Qed.

Lemma cinv_items st : CInv st -> ItemsOk (WtOk (r_datalog st)) (sl_items (dl_native (r_datalog st))).
Proof. intros [_ CI]. apply itemsok_nget. apply (ci_wait _ _ CI). Qed.

Lemma park_cinv st id rq st' : CInv st -> RqOk (r_datalog st) rq -> park st id rq = Ok st' -> CInv st'.
Proof.
  intros HI Hrq H. pose proof (park_same _ _ _ _ H) as HS. unfold park in H.
  apply bind_ok in H as (d & Hd & H). apply native_get_Some in Hd. inv_ok.
  apply cinv_waiters; [exact HI|exact HS|]. cbn [r_datalog set_r_datalog] in *.
  intros i d2 H2. unfold nget in H2. cbn [set_dl_native dl_native] in H2.
  apply slab_get_put_inv in H2. destruct H2 as [[-> ->] | [_ H2]].
  - cbn [set_d_waiters d_waiters]. apply Forall_app. split.
    + destruct HI as [_ CI]. exact (ci_wait _ _ CI _ _ Hd).
    + constructor; [exact Hrq|constructor].
  - destruct HI as [_ CI]. exact (ci_wait _ _ CI _ _ H2).
Qed.

Lemma remove_waiters_cinv st id f st' : CInv st -> remove_waiters_for_id st id f = Ok st' -> CInv st'.
Proof.
  intros HI H. pose proof (remove_waiters_same _ _ _ _ H) as HS. unfold remove_waiters_for_id in H. inv_ok.
  apply cinv_waiters; [exact HI|exact HS|]. apply itemsok_nget. cbn [set_dl_native dl_native sl_items].
  apply remove_waiter_items_ok. now apply cinv_items.
Qed.

(** DataLog::clean: the returned requests were parked ones *)
Lemma dl_clean_cinv st id dl' q :
  CInv st -> dl_clean (r_datalog st) id = (dl', q) ->
  CInv (set_r_datalog st dl') /\ Forall (RqOk (r_datalog st)) q /\ same_logs (r_datalog st) dl'.
Proof.
  intros HI H. pose proof (dl_clean_same _ _ _ _ H) as HS. unfold dl_clean in H.
  destruct (clean_items (sl_items (dl_native (r_datalog st))) id) as [items q'] eqn:E. inv_ok.
  destruct (clean_items_ok _ _ _ _ _ (cinv_items _ HI) E) as [H1 H2].
  split; [|split; [|exact HS]].
  - apply cinv_waiters; [exact HI|exact HS|]. apply itemsok_nget. exact H1.
  - revert H2. apply Forall_impl. intros rq [c Hc]. exact Hc.
Qed.

(* ------------------------------------------------------------------ data log *)
Lemma nget_insert dl d native' k :
  sl_free (dl_native dl) = [] -> slab_insert (dl_native dl) d = (native', k) ->
  k = lenN (sl_items (dl_native dl)) /\ sl_free native' = [] /\
  (forall j, slab_get native' j = if j =? k then Some d else nget dl j) /\
  nget dl k = None.
Proof.
  intros Hf Hi. destruct (slab_insert_nofree _ _ _ _ Hf Hi) as (Hk & Hfr & Hg).
  split; [exact Hk|]. split; [exact Hfr|]. split; [exact Hg|].
  unfold nget, slab_get. rewrite Hk, nthN_ge by lia. reflexivity.
Qed.

Lemma al_get_set_other {V} k k' (v : V) m :
  al_get str_eqb k m = None -> al_get str_eqb k' m <> None ->
  al_get str_eqb k' (al_set str_eqb k v m) = al_get str_eqb k' m.
Proof.
  intros H1 H2. apply DataLogInv.al_get_set_neq. intros ->. contradiction.
Qed.

Lemma data_new_wf cfg f d : data_new cfg f = Ok d -> WFp (d_log d) [] /\ d_waiters d = [] /\ d_filter d = f.
Proof.
  unfold data_new. intros H. apply bind_ok in H as (l & Hl & H). inv_ok. cbn [d_log d_waiters d_filter].
  split; [|auto]. eapply new_ok_wf; eassumption.
Qed.

(** a fresh log added at the end of the slab, the filter index extended by a new key *)
Lemma dl_le_new dl d native' k f pf rt :
  sl_free (dl_native dl) = [] -> slab_insert (dl_native dl) d = (native', k) ->
  al_get str_eqb f (dl_findex dl) = None ->
  dl_le dl {| dl_native := native'; dl_findex := al_set str_eqb f k (dl_findex dl); dl_retained := rt; dl_pfilters := pf |}.
Proof.
  intros Hf Hi Hn. destruct (nget_insert _ _ _ _ Hf Hi) as (Hk & _ & Hg & Hnone). split.
  - intros i d0 H0. exists d0. unfold nget at 1. cbn [dl_native]. rewrite Hg.
    destruct (N.eqb_spec i k) as [-> | _]; [congruence|]. split; [exact H0|]. split; [reflexivity|apply log_le_refl].
  - intros p i Hp. cbn [dl_findex]. rewrite al_get_set_other; [exact Hp|exact Hn|congruence].
Qed.

Lemma next_native_offset_cinv st f st' idx cu :
  CInv st -> next_native_offset st f = Ok (st', idx, cu) ->
  CInv st' /\ dl_le (r_datalog st) (r_datalog st') /\
  CurOk (r_datalog st') idx cu /\ al_get str_eqb f (dl_findex (r_datalog st')) = Some idx.
Proof.
  intros HI H. unfold next_native_offset in H.
  destruct (al_get str_eqb f (dl_findex (r_datalog st))) as [i|] eqn:Ef.
  - apply bind_ok in H as (d & Hd & H). apply native_get_Some in Hd. apply bind_ok in H as (c & Hc & H). inv_ok.
    split; [exact HI|]. split; [apply dl_le_refl|]. split; [|exact Ef].
    destruct HI as [LI _]. destruct (li_wf _ LI _ _ Hd) as [all W].
    destruct (next_offset_ok pubdata_size _ _ _ W Hc) as (-> & Hiss & _ & _).
    exists d. split; [exact Hd|]. split; [exact Hiss|]. cbn [snd]. rewrite (wf_end_of pubdata_size _ _ W). lia.
  - apply bind_ok in H as (d & Hd & H). destruct (data_new_wf _ _ _ Hd) as (W & Hw & _).
    destruct (slab_insert (dl_native (r_datalog st)) d) as [native' k] eqn:Ei.
    apply bind_ok in H as (pf & Hpf & H). apply bind_ok in H as (c & Hc & H). inv_ok.
    destruct HI as [LI CI]. pose proof (li_nofree _ LI) as Hfr.
    destruct (nget_insert _ _ _ _ Hfr Ei) as (Hk & Hfr' & Hg & Hnone).
    cbn [r_datalog set_r_datalog].
    set (dl' := {| dl_native := native'; dl_findex := al_set str_eqb f idx (dl_findex (r_datalog st));
                   dl_retained := dl_retained (r_datalog st); dl_pfilters := pf |}).
    assert (Hle : dl_le (r_datalog st) dl') by (eapply dl_le_new; eassumption).
    assert (LI' : LogsInv dl').
    { constructor; [exact Hfr'|]. intros j d0. unfold nget. cbn [dl' dl_native]. rewrite Hg.
      destruct (j =? idx); [intros E; inversion E; subst; eauto|]. apply (li_wf _ LI). }
    split; [|split; [exact Hle|split]].
    + split; [exact LI'|]. cbn [r_datalog set_r_datalog].
      eapply cinvd_mono; [exact LI|exact Hle|]. apply cinvd_set_datalog; [exact CI|].
      intros j d0. unfold nget. cbn [dl' dl_native]. rewrite Hg.
      destruct (j =? idx); [intros E; inversion E; subst; rewrite Hw; constructor|]. apply (ci_wait _ _ CI).
    + destruct (next_offset_ok pubdata_size _ _ _ W Hc) as (-> & Hiss & _ & _).
      exists d. unfold nget. cbn [dl' dl_native]. rewrite Hg, N.eqb_refl. split; [reflexivity|].
      split; [exact Hiss|]. cbn [snd]. rewrite (wf_end_of pubdata_size _ _ W). lia.
    + cbn [dl' dl_findex]. apply DataLogInv.al_get_set_eq.
Qed.

Lemma data_append_cinv st idx item st' :
  CInv st -> data_append st idx item = Ok st' ->
  CInv st' /\ dl_le (r_datalog st) (r_datalog st').
Proof.
  intros HI H. unfold data_append in H.
  apply bind_ok in H as (d & Hd & H). apply native_get_Some in Hd.
  apply bind_ok in H as ([l' off] & Happ & H). inv_ok. cbn [r_datalog set_r_datalog set_r_notif].
  destruct HI as [LI CI].
  set (d' := {| d_filter := d_filter d; d_log := l'; d_waiters := [] |}).
  set (dl' := set_dl_native (r_datalog st) (slab_put (dl_native (r_datalog st)) idx d')).
  assert (Hget : forall j, nget dl' j = if j =? idx then Some d' else nget (r_datalog st) j).
  { intros j. unfold nget. cbn [dl' set_dl_native dl_native]. destruct (N.eqb_spec j idx) as [-> | Hne].
    - eapply slab_get_put_occ; eassumption.
    - apply slab_get_put_other. congruence. }
  assert (Hle : dl_le (r_datalog st) dl').
  { split; [|auto]. intros j d0 H0. rewrite Hget. destruct (N.eqb_spec j idx) as [-> | Hne].
    - unfold nget in H0. rewrite Hd in H0. inversion H0; subst d0. exists d'. split; [reflexivity|].
      split; [reflexivity|]. eapply log_le_append; eassumption.
    - exists d0. split; [exact H0|]. split; [reflexivity|apply log_le_refl]. }
  assert (LI' : LogsInv dl').
  { constructor; [apply (li_nofree _ LI)|]. intros j d0. rewrite Hget. destruct (j =? idx).
    - intros E; inversion E; subst d0. destruct (li_wf _ LI _ _ Hd) as [all W].
      destruct (append_ok_spec pubdata_size _ _ _ _ _ W Happ) as (_ & W' & _). eauto.
    - apply (li_wf _ LI). }
  split; [|exact Hle]. split; [exact LI'|].
  eapply cinvd_mono; [exact LI|exact Hle|].
  apply cinvd_set_notif.
  - apply cinvd_set_datalog; [exact CI|]. intros j d0. rewrite Hget. destruct (j =? idx).
    + intros E; inversion E; subst d0. constructor.
    + apply (ci_wait _ _ CI).
  - apply Forall_app. split; [apply (ci_notif _ _ CI)|apply (ci_wait _ _ CI _ _ Hd)].
Qed.

Lemma append_all_cinv item : forall idxs st st',
  CInv st -> append_all st idxs item = Ok st' -> CInv st' /\ dl_le (r_datalog st) (r_datalog st').
Proof.
  induction idxs as [|i r IH]; intros st st' HI H; cbn [append_all] in H.
  - inv_ok. split; [exact HI|apply dl_le_refl].
  - apply bind_ok in H as (st1 & H1 & H). destruct (data_append_cinv _ _ _ _ HI H1) as [HI1 L1].
    destruct (IH _ _ HI1 H) as [HI2 L2]. split; [exact HI2|eapply dl_le_trans; eassumption].
Qed.

(** changes of the data log outside the native slab and the filter index *)
Lemma cinv_dl_aux st dl2 :
  CInv st -> dl_native dl2 = dl_native (r_datalog st) -> dl_findex dl2 = dl_findex (r_datalog st) ->
  CInv (set_r_datalog st dl2) /\ dl_le (r_datalog st) dl2.
Proof.
  intros [LI CI] Hn Hf.
  assert (Hle : dl_le (r_datalog st) dl2).
  { split; [|now rewrite Hf]. intros i d Hd. exists d. unfold nget in *. rewrite Hn. split; [exact Hd|].
    split; [reflexivity|apply log_le_refl]. }
  split; [|exact Hle]. split; cbn [r_datalog set_r_datalog].
  - constructor; [rewrite Hn; apply (li_nofree _ LI)|]. intros i d. unfold nget. rewrite Hn. apply (li_wf _ LI).
  - eapply cinvd_mono; [exact LI|exact Hle|]. apply cinvd_set_datalog; [exact CI|].
    intros i d. unfold nget. rewrite Hn. apply (ci_wait _ _ CI).
Qed.

Lemma dl_matches_cinv st t st' v :
  CInv st -> dl_matches st t = Ok (st', v) -> CInv st' /\ dl_le (r_datalog st) (r_datalog st').
Proof.
  intros HI H. unfold dl_matches in H.
  destruct (al_get str_eqb t (dl_pfilters (r_datalog st))); [inv_ok; split; [exact HI|apply dl_le_refl]|].
  apply bind_ok in H as (base & _ & H). apply bind_ok in H as ([v1 orc] & _ & H). inv_ok.
  destruct v as [|v0 vr].
  - split; [|apply dl_le_refl]. eapply cinv_view; [|exact HI]. destruct st; reflexivity.
  - destruct (cinv_dl_aux st (set_dl_pfilters (r_datalog st) (al_set str_eqb t (v0 :: vr) (dl_pfilters (r_datalog st)))) HI eq_refl eq_refl) as [H1 H2].
    split; [|exact H2]. eapply cinv_view; [|exact H1]. reflexivity.
Qed.

Lemma retain_update_cinv st t p pr :
  CInv st -> CInv (retain_update st t p pr) /\ dl_le (r_datalog st) (r_datalog (retain_update st t p pr)).
Proof.
  intros HI. unfold retain_update. destruct (p_retain p); [|split; [exact HI|apply dl_le_refl]].
  destruct (p_payload p); apply cinv_dl_aux; auto.
Qed.
