(** C01 exactness — [CInv] through connection set-up / tear-down and the packet handlers. *)
From Rumqtt Require Import Log.Spec Log.Proofs Router.ExactLog.
From Rumqtt Require Import Topic.Proofs Router.WindowFrame Router.Window Router.DataLogInv Router.DataLogStep
                           Router.ExactInv Router.ExactStep1.
From Rumqtt Require Import Router.Model.
From Coq Require Import ZifyBool ZifyN ZifyNat.

Lemma push_out_cview st k ns st' n : push_out st k ns = Ok (st', n) -> cview st' = cview st.
Proof. unfold push_out, link_get. intros H. break_all H; inv_ok. reflexivity. Qed.

Lemma SL_dl_le st st' : SL st st' -> dl_le (r_datalog st) (r_datalog st').
Proof. apply dl_le_same_logs. Qed.

(* ------------------------------------------------------------------ handle_disconnection *)
Definition RetrOk (dl : datalog) (x : N * cursor) : Prop := CurOk dl (fst x) (snd x).

Lemma al_getN_In {V} k (m : list (N * V)) v : al_get N.eqb k m = Some v -> In (k, v) m.
Proof.
  induction m as [|[k' v'] m IH]; cbn [al_get]; [discriminate|].
  destruct (N.eqb_spec k k') as [-> | Hne]; intros H; [inversion H; subst; now left|right; auto].
Qed.

Lemma retransmission_map_ok dl : forall infl acc,
  Forall (InflOk dl) infl -> Forall (RetrOk dl) acc -> Forall (RetrOk dl) (retransmission_map infl acc).
Proof.
  induction infl as [|[[pk fi] c] r IH]; intros acc Hi Ha; cbn [retransmission_map]; [exact Ha|].
  inversion Hi as [|? ? He Hr]; subst.
  destruct (al_get N.eqb fi acc); [now apply IH|]. destruct c as [cu|]; [|now apply IH].
  apply IH; [exact Hr|]. apply Forall_app. split; [exact Ha|]. constructor; [exact He|constructor].
Qed.

Lemma groups_remove_client_ok dl c : forall gs, Forall (GrpOk dl) gs -> Forall (GrpOk dl) (groups_remove_client gs c).
Proof.
  induction gs as [|[n g] r IH]; intros H; cbn [groups_remove_client]; [constructor|].
  inversion H as [|? ? Hg Hr]; subst.
  destruct (g_clients (group_remove_client g c)) eqn:E; [now apply IH|].
  constructor; [|now apply IH]. eapply grpok_same; [|exact Hg]. reflexivity.
Qed.

Lemma rqok_set_cursor dl rq cu : RqOk dl rq -> CurOk dl (dr_idx rq) cu -> RqOk dl (set_dr_cursor rq cu).
Proof. intros [_ Hg] Hc. split; [exact Hc|exact Hg]. Qed.

Lemma rewind_requests_ok dl retr : forall rqs gs rqs' gs',
  Forall (RqOk dl) rqs -> Forall (RetrOk dl) retr -> Forall (GrpOk dl) gs ->
  rewind_requests rqs retr gs = Ok (rqs', gs') ->
  Forall (RqOk dl) rqs' /\ Forall (GrpOk dl) gs'.
Proof.
  induction rqs as [|rq r IH]; intros gs rqs' gs' Hr Ht Hg H; cbn [rewind_requests] in H.
  - inv_ok. split; [constructor|exact Hg].
  - inversion Hr as [|? ? Hrq Hr']; subst.
    destruct (al_get N.eqb (dr_idx rq) retr) as [cu|] eqn:Ecu.
    + assert (Hcu : CurOk dl (dr_idx rq) cu).
      { apply al_getN_In in Ecu. rewrite Forall_forall in Ht. exact (Ht _ Ecu). }
      apply bind_ok in H as (gs1 & H1 & H). apply bind_ok in H as ([r' gs2] & H2 & H). inv_ok.
      assert (Hg1 : Forall (GrpOk dl) gs1).
      { destruct (dr_group rq) as [name|] eqn:En; [|now inv_ok].
        destruct (al_get str_eqb name gs) as [g|] eqn:Eg; inv_ok; [|exact Hg].
        apply Forall_al_set; [exact Hg|]. intros k' Hk. apply str_eqb_true in Hk. subst k'.
        destruct Hrq as [_ Hgi]. destruct (Hgi _ En) as (nm & p & Hs & Hf).
        exists nm, p, (dr_idx rq). cbn [fst snd set_g_cursor g_cursor]. auto. }
      destruct (IH _ _ _ Hr' Ht Hg1 H2) as [Ha Hb]. split; [|exact Hb].
      constructor; [now apply rqok_set_cursor|exact Ha].
    + apply bind_ok in H as ([r' gs2] & H2 & H). inv_ok.
      destruct (IH _ _ _ Hr' Ht Hg H2) as [Ha Hb]. split; [constructor; assumption|exact Hb].
Qed.

Lemma handle_disconnection_cinv st id reason st' :
  CInv st -> handle_disconnection st id reason = Ok st' ->
  CInv st' /\ dl_le (r_datalog st) (r_datalog st').
Proof.
  intros HI H. split; [|apply SL_dl_le; eapply handle_disconnection_SL; eassumption].
  unfold handle_disconnection in H.
  destruct (slab_get (r_obufs st) id) as [o0|] eqn:Eo0; [|now inv_ok].
  apply bind_ok in H as (st0 & H0 & H).
  assert (V0 : cview st0 = cview st).
  { destruct reason; [|now inv_ok]. apply bind_ok in H0 as ([s len0] & H0 & H1). inv_ok. eapply push_out_cview; eassumption. }
  assert (HI0 : CInv st0) by (eapply cinv_view; eassumption). clear H0 V0 HI Eo0.
  destruct (slab_remove (r_conns st0) id) as [[conns conn]|]; [|discriminate].
  destruct (slab_remove (r_ibufs st0) id) as [[ibufs ib]|]; [|discriminate].
  destruct (slab_remove (r_obufs st0) id) as [[obufs outg]|] eqn:Ro; [|discriminate].
  destruct (slab_remove (r_trackers st0) id) as [[trackers trk]|] eqn:Rt; [|discriminate].
  destruct (slab_remove (r_acks st0) id) as [[acks al]|]; [|discriminate].
  destruct (dl_clean (r_datalog st0) id) as [dl inflight_rqs] eqn:Ecl.
  destruct (dl_clean_cinv _ _ _ _ HI0 Ecl) as (HId & Hq & HS).
  pose proof (dl_le_same_logs _ _ HS) as Hle. destruct HI0 as [LI0 CI0]. destruct HId as [LId CId].
  cbn [r_datalog set_r_datalog] in LId, CId.
  assert (Hq' : Forall (RqOk dl) inflight_rqs) by exact (rqsok_mono _ _ _ LI0 Hle Hq).
  destruct (slab_remove_get _ _ _ _ id Rt) as [Ht _]. destruct (slab_remove_get _ _ _ _ id Ro) as [Ho _].
  assert (Htrk : Forall (RqOk dl) (tr_reqs trk)) by (apply (ci_trk _ _ CId _ _ Ht)).
  assert (Hinf : Forall (InflOk dl) (o_inflight outg)) by (apply (ci_infl _ _ CId _ _ Ho)).
  assert (Hgr : Forall (GrpOk dl) (groups_remove_client (r_groups st0) (o_client o0))).
  { apply groups_remove_client_ok. apply (ci_groups _ _ CId). }
  apply bind_ok in H as ([grave groups'] & HG & H). inv_ok.
  assert (HGG : Forall (SessOk dl) grave /\ Forall (GrpOk dl) groups').
  { destruct (negb (c_clean conn)).
    - apply bind_ok in HG as ([rqs' gs] & HR & HG). inv_ok.
      destruct (rewind_requests_ok dl _ _ _ _ _ (proj2 (Forall_app _ _ _) (conj Htrk Hq'))
                  (retransmission_map_ok dl _ [] Hinf (Forall_nil _)) Hgr HR) as [Ha Hb].
      split; [|exact Hb]. apply Forall_al_set; [apply Forall_al_remove; apply (ci_grave _ _ CId)|].
      intros k' _. exact Ha.
    - inv_ok. split; [|exact Hgr]. apply Forall_al_set; [apply Forall_al_remove; apply (ci_grave _ _ CId)|].
      intros k' _. exact I. }
  destruct HGG as [HGa HGb].
  split; cbn [r_datalog]; [exact LId|].
  constructor; cbn [r_trackers r_datalog r_notif r_graveyard r_obufs r_groups r_cfg].
  - intros k t Hk. rewrite (proj2 (slab_remove_get _ _ _ _ k Rt)) in Hk. destruct (k =? id); [discriminate|].
    apply (ci_trk _ _ CId _ _ Hk).
  - apply (ci_wait _ _ CId).
  - apply (ci_notif _ _ CId).
  - exact HGa.
  - intros k o Hk. rewrite (proj2 (slab_remove_get _ _ _ _ k Ro)) in Hk. destruct (k =? id); [discriminate|].
    apply (ci_infl _ _ CId _ _ Hk).
  - exact HGb.
  - apply (ci_cfg _ _ CId).
Qed.

(* ------------------------------------------------------------------ handle_new_connection *)
Lemma rejoin_groups_ok dl strat client : forall rqs gs,
  Forall (RqOk dl) rqs -> Forall (GrpOk dl) gs -> Forall (GrpOk dl) (rejoin_groups gs strat client rqs).
Proof.
  induction rqs as [|rq r IH]; intros gs Hr Hg; cbn [rejoin_groups]; [exact Hg|].
  inversion Hr as [|? ? Hrq Hr']; subst. apply IH; [exact Hr'|].
  destruct (dr_group rq) as [name|] eqn:En; [|exact Hg].
  apply Forall_al_set; [exact Hg|]. intros k' Hk. apply str_eqb_true in Hk. subst k'.
  destruct (al_get str_eqb name gs) as [g|] eqn:Eg.
  - eapply grpok_same; [|exact (al_get_Forall _ _ _ _ Hg Eg)]. reflexivity.
  - destruct Hrq as [Hc Hgi]. destruct (Hgi _ En) as (nm & p & Hs & Hf).
    exists nm, p, (dr_idx rq). cbn [fst snd set_g_clients g_cursor]. auto.
Qed.

Lemma dbg_no_dups_ok st id u : dbg_no_dups st id = Ok u -> True.
Proof. trivial. Qed.

Lemma handle_new_connection_cinv st conn link st' :
  CInv st -> handle_new_connection st conn link = Ok st' ->
  CInv st' /\ dl_le (r_datalog st) (r_datalog st').
Proof.
  intros HI H. split; [|apply SL_dl_le; eapply handle_new_connection_SL; eassumption].
  unfold handle_new_connection in H.
  destruct (negb (validate_clientid (c_client conn))); [now inv_ok|].
  apply bind_ok in H as (st1 & H1 & H).
  assert (HI1 : CInv st1).
  { destruct (al_get str_eqb (c_client conn) (r_cmap st)); [|now inv_ok].
    eapply handle_disconnection_cinv; eassumption. }
  clear H1 HI.
  destruct (cf_max_connections (r_cfg st1) <=? slab_len (r_conns st1)); [now inv_ok|].
  set (saved := al_get str_eqb (c_client conn) (r_graveyard st1)) in *.
  destruct HI1 as [LI CI].
  (* the restored tracker *)
  match type of H with (match ?X with _ => _ end) = _ => destruct X as [[trk conn1] pubrels] eqn:EX end.
  assert (Htrk : Forall (RqOk (r_datalog st1)) (tr_reqs trk)).
  { destruct (negb (c_clean conn)).
    - destruct saved as [[ss|]|] eqn:Es; inv_ok; cbn [tr_reqs]; try constructor.
      unfold saved in Es. apply (al_get_Forall _ _ _ _ (ci_grave _ _ CI)) in Es. exact Es.
    - inv_ok. constructor. }
  destruct (slab_insert (r_conns st1) (set_c_will conn1 None)) as [conns id] eqn:Ic.
  destruct (slab_insert (r_ibufs st1) _) as [ibufs id_i] eqn:Ii.
  destruct (slab_insert (r_obufs st1) _) as [obufs id_o] eqn:Io.
  destruct (slab_insert (r_acks st1) _) as [acks id_a] eqn:Ia.
  destruct (slab_insert (r_trackers st1) trk) as [trackers id_t] eqn:It.
  match type of H with (if ?b then _ else _) = _ => destruct b end; [discriminate|].
  apply bind_ok in H as (u & _ & H).
  eapply reschedule_cinv; [|exact H]. split; cbn [r_datalog]; [exact LI|].
  constructor; cbn [r_trackers r_datalog r_notif r_graveyard r_obufs r_groups r_cfg].
  - intros k t Hk. destruct (slab_insert_inv _ _ _ _ _ _ It Hk) as [[_ ->] | [_ Hk']]; [exact Htrk|].
    apply (ci_trk _ _ CI _ _ Hk').
  - apply (ci_wait _ _ CI).
  - apply (ci_notif _ _ CI).
  - apply Forall_al_remove. apply (ci_grave _ _ CI).
  - intros k o Hk. destruct (slab_insert_inv _ _ _ _ _ _ Io Hk) as [[_ ->] | [_ Hk']]; [constructor|].
    apply (ci_infl _ _ CI _ _ Hk').
  - apply rejoin_groups_ok; [exact Htrk|apply (ci_groups _ _ CI)].
  - apply (ci_cfg _ _ CI).
Qed.

(* ------------------------------------------------------------------ subscribe / unsubscribe *)
Lemma extract_group_split path g p : extract_group path = Some (g, p) -> exists nm, split_once_slash g = Some (nm, p).
Proof.
  unfold extract_group. destruct (strip_prefix S_SHARE_SLASH path) as [s|]; [|discriminate].
  destruct (split_once_slash s) as [[nm p0]|] eqn:E; [|discriminate]. intros H; inversion H; subst. eauto.
Qed.

Lemma prepare_filter_cinv st id cu fidx path qos grp subid st' :
  CInv st -> CurOk (r_datalog st) fidx cu ->
  (forall g, grp = Some g -> exists nm p, split_once_slash g = Some (nm, p) /\
                                          al_get str_eqb p (dl_findex (r_datalog st)) = Some fidx) ->
  prepare_filter st id cu fidx path qos grp subid = Ok st' -> CInv st'.
Proof.
  intros HI Hcu Hgrp H. unfold prepare_filter in H.
  match type of H with context [set_r_submap st ?m] => set (st1 := set_r_submap st m) in * end.
  assert (HI1 : CInv st1) by (eapply cinv_view; [|exact HI]; reflexivity).
  apply bind_ok in H as (conn & Hc & H).
  match type of H with context [set_r_groups st1 ?g] => set (groups := g) in * end.
  assert (HI2 : CInv (set_r_groups st1 groups)).
  { apply cinv_set_groups; [exact HI1|]. cbn [r_datalog st1 set_r_submap].
    destruct HI as [_ CI]. pose proof (ci_groups _ _ CI) as Hg. unfold groups. destruct grp as [name|]; [|exact Hg].
    cbn [st1 r_groups set_r_submap]. apply Forall_al_set; [exact Hg|]. intros k' Hk. apply str_eqb_true in Hk. subst k'.
    destruct (al_get str_eqb name (r_groups st)) as [g|] eqn:Eg.
    - eapply grpok_same; [|exact (al_get_Forall _ _ _ _ Hg Eg)]. reflexivity.
    - destruct (Hgrp _ eq_refl) as (nm & p & Hs & Hf). exists nm, p, fidx.
      cbn [fst snd set_g_clients g_cursor]. auto. }
  match type of H with (if ?b then _ else _) = _ => destruct b end.
  - inv_ok. eapply cinv_view; [|exact HI2]. reflexivity.
  - apply bind_ok in H as (st4 & H4 & H). apply bind_ok in H as (st5 & H5 & H).
    apply bind_ok in H as (u & _ & H). inv_ok.
    eapply reschedule_cinv; [|exact H5]. eapply track_cinv; [| |exact H4].
    + eapply cinv_view; [|exact HI2]. reflexivity.
    + cbn [r_datalog put_conn set_r_conns set_r_groups st1 set_r_submap]. split; cbn [dr_idx dr_cursor]; [exact Hcu|].
      intros g Hg. cbn [dr_group] in Hg. cbn [dr_idx]. now apply Hgrp.
Qed.

Lemma subscribe_filters_cinv id subid : forall fs st fl codes st' fl' codes',
  CInv st -> subscribe_filters st id fs subid fl codes = Ok (st', fl', codes') ->
  CInv st' /\ dl_le (r_datalog st) (r_datalog st').
Proof.
  induction fs as [|[path qos] r IH]; intros st fl codes st' fl' codes' HI H; cbn [subscribe_filters] in H.
  - inv_ok. split; [exact HI|apply dl_le_refl].
  - destruct (negb (validate_subscription path)); [inv_ok; split; [exact HI|apply dl_le_refl]|].
    destruct (extract_group path) as [[g p]|] eqn:Eg.
    + destruct (match subid with Some 0 => true | _ => false end); [inv_ok; split; [exact HI|apply dl_le_refl]|].
      apply bind_ok in H as ([[st1 idx] cu] & H1 & H). apply bind_ok in H as (st2 & H2 & H).
      destruct (next_native_offset_cinv _ _ _ _ _ HI H1) as (HI1 & L1 & Hcu & Hf).
      assert (HI2 : CInv st2).
      { eapply prepare_filter_cinv; [exact HI1|exact Hcu| |exact H2].
        intros g0 E0. inversion E0; subst g0. destruct (extract_group_split _ _ _ Eg) as [nm Hs]. eauto. }
      destruct (IH _ _ _ _ _ _ HI2 H) as [HI3 L3]. split; [exact HI3|].
      eapply dl_le_trans; [exact L1|]. rewrite <- (prepare_filter_dl _ _ _ _ _ _ _ _ _ H2). exact L3.
    + destruct (match subid with Some 0 => true | _ => false end); [inv_ok; split; [exact HI|apply dl_le_refl]|].
      apply bind_ok in H as ([[st1 idx] cu] & H1 & H). apply bind_ok in H as (st2 & H2 & H).
      destruct (next_native_offset_cinv _ _ _ _ _ HI H1) as (HI1 & L1 & Hcu & Hf).
      assert (HI2 : CInv st2).
      { eapply prepare_filter_cinv; [exact HI1|exact Hcu| |exact H2]. intros g0 E0. discriminate. }
      destruct (IH _ _ _ _ _ _ HI2 H) as [HI3 L3]. split; [exact HI3|].
      eapply dl_le_trans; [exact L1|]. rewrite <- (prepare_filter_dl _ _ _ _ _ _ _ _ _ H2). exact L3.
Qed.

Lemma unsubscribe_filters_cinv id client : forall fs st reasons st' reasons',
  CInv st -> unsubscribe_filters st id client fs reasons = Ok (st', reasons') -> CInv st'.
Proof.
  induction fs as [|f r IH]; intros st reasons st' reasons' HI H; cbn [unsubscribe_filters] in H.
  - now inv_ok.
  - match type of H with (if negb ?b then _ else _) = _ => destruct b end; cbn [negb] in H; [|eapply IH; eassumption].
    match type of H with context [get_conn ?s id] => set (st1 := s) in * end.
    assert (HI1 : CInv st1).
    { unfold st1. destruct (al_get str_eqb f (r_submap st)); [|exact HI]. eapply cinv_view; [|exact HI]. reflexivity. }
    assert (D1 : r_datalog st1 = r_datalog st /\ r_groups st1 = r_groups st).
    { unfold st1. destruct (al_get str_eqb f (r_submap st)); split; reflexivity. }
    destruct D1 as [D1 G1].
    apply bind_ok in H as (conn & Hc & H).
    destruct (negb (set_mem str_eqb f (c_subs conn))); [eapply IH; eassumption|].
    apply bind_ok in H as (st4 & H4 & H). apply bind_ok in H as (st5 & H5 & H).
    eapply IH; [|exact H].
    assert (HI4 : CInv st4).
    { eapply untrack_cinv; [|exact H4]. apply cinv_set_groups; [eapply cinv_view; [|exact HI1]; reflexivity|].
      cbn [r_datalog put_conn set_r_conns]. destruct HI1 as [_ CI1]. pose proof (ci_groups _ _ CI1) as Hg.
      destruct (extract_group f) as [[gname p]|]; [|exact Hg].
      destruct (al_get str_eqb gname (r_groups st1)) as [g|] eqn:Eg; [|exact Hg].
      destruct (g_clients (group_remove_client g client)); [now apply Forall_al_remove|].
      apply Forall_al_set; [exact Hg|]. intros k' Hk. apply str_eqb_true in Hk. subst k'.
      eapply grpok_same; [|exact (al_get_Forall _ _ _ _ Hg Eg)]. reflexivity. }
    pose proof (remove_waiters_cinv _ _ _ _ HI4 H5) as HI5.
    apply cinv_set_notif; [exact HI5|]. apply Forall_filter'. destruct HI5 as [_ CI5]. apply (ci_notif _ _ CI5).
Qed.

(* ------------------------------------------------------------------ publishes *)
Lemma append_to_commitlog_cinv st id p props st' res :
  CInv st -> append_to_commitlog st id p props = Ok (st', res) ->
  CInv st' /\ dl_le (r_datalog st) (r_datalog st').
Proof.
  unfold append_to_commitlog. intros HI H.
  apply bind_ok in H as (conn & Hc & H).
  match type of H with (if ?b then _ else _) = _ => destruct b end; [inv_ok; split; [exact HI|apply dl_le_refl]|].
  apply bind_ok in H as (sp & Hsp & H). destruct sp as [[st1 p1]|reason]; [|inv_ok; split; [exact HI|apply dl_le_refl]].
  assert (V1 : cview st1 = cview st).
  { clear H. break_all Hsp; inv_ok; reflexivity. }
  assert (HI1 : CInv st1) by (eapply cinv_view; eassumption).
  assert (D1 : r_datalog st1 = r_datalog st) by (unfold cview in V1; congruence).
  destruct (negb (utf8_valid (p_topic p1))); [inv_ok; split; [exact HI1|rewrite D1; apply dl_le_refl]|].
  apply bind_ok in H as ([st3 idxs] & H3 & H). apply bind_ok in H as (st4 & H4 & H). inv_ok.
  match type of H3 with dl_matches ?s _ = _ => destruct (retain_update_cinv st1 (p_topic p1) p1
     (match props with Some pr => Some {| pp_alias := None; pp_subids := pp_subids pr; pp_tag := pp_tag pr |} | None => None end) HI1) as [HI2 L2] end.
  destruct (dl_matches_cinv _ _ _ _ HI2 H3) as [HI3 L3].
  destruct (append_all_cinv _ _ _ _ HI3 H4) as [HI4 L4].
  split; [exact HI4|]. rewrite <- D1. eapply dl_le_trans; [exact L2|]. eapply dl_le_trans; eassumption.
Qed.

Lemma commit_ack_cinv st id a st' : CInv st -> commit_ack st id a = Ok st' -> CInv st'.
Proof.
  intros HI H. apply commit_ack_spec in H. destruct H as (l & _ & ->). eapply cinv_view; [|exact HI]. reflexivity.
Qed.

Lemma register_ack_infl dl o pkid o' ok :
  register_ack o pkid = (o', ok) -> Forall (InflOk dl) (o_inflight o) -> Forall (InflOk dl) (o_inflight o').
Proof.
  unfold register_ack. destruct (o_inflight o) as [|[[h fi] c] r] eqn:E; intros H Hf; [inv_ok; now rewrite E|].
  destruct (pkid =? h); inv_ok.
  - cbn [set_o_inflight o_inflight]. now inversion Hf.
  - now rewrite E.
Qed.

Lemma cinv_obuf st id o : CInv st -> slab_get (r_obufs st) id = Some o -> Forall (InflOk (r_datalog st)) (o_inflight o).
Proof. intros [_ CI]. apply (ci_infl _ _ CI). Qed.

Lemma get_obuf_some st id o : get_obuf st id = Ok o -> slab_get (r_obufs st) id = Some o.
Proof. unfold get_obuf. destruct (slab_get (r_obufs st) id); intros H; inversion H; reflexivity. Qed.

Lemma handle_packet_cinv st id client pk fl st' fl' brk :
  CInv st -> handle_packet st id client pk fl = Ok (st', fl', brk) ->
  CInv st' /\ dl_le (r_datalog st) (r_datalog st').
Proof.
  intros HI H. destruct pk; cbn [handle_packet] in H.
  - (* publish *)
    destruct (p_qos p =? 1).
    + apply bind_ok in H as (st1 & H1 & H). apply bind_ok in H as ([st2 res] & H2 & H).
      pose proof (commit_ack_cinv _ _ _ _ HI H1) as HI1.
      destruct (append_to_commitlog_cinv _ _ _ _ _ _ HI1 H2) as [HI2 L2].
      rewrite (commit_ack_dl _ _ _ _ H1) in L2. destruct res; inv_ok; auto.
    + destruct (p_qos p =? 2).
      * apply bind_ok in H as (l & _ & H). inv_ok. split; [|apply dl_le_refl]. eapply cinv_view; [|exact HI]. reflexivity.
      * apply bind_ok in H as ([st2 res] & H2 & H).
        destruct (append_to_commitlog_cinv _ _ _ _ _ _ HI H2) as [HI2 L2]. destruct res; inv_ok; auto.
  - apply bind_ok in H as ([[st1 fl1] codes] & H1 & H). apply bind_ok in H as (st2 & H2 & H). inv_ok.
    destruct (subscribe_filters_cinv _ _ _ _ _ _ _ _ _ HI H1) as [HI1 L1].
    rewrite (commit_ack_dl _ _ _ _ H2). split; [eapply commit_ack_cinv; eassumption|exact L1].
  - apply bind_ok in H as (c & _ & H). apply bind_ok in H as ([st1 reasons] & H1 & H).
    apply bind_ok in H as (st2 & H2 & H). inv_ok.
    rewrite (commit_ack_dl _ _ _ _ H2). split.
    + eapply commit_ack_cinv; [|exact H2]. eapply unsubscribe_filters_cinv; eassumption.
    + apply SL_dl_le. eapply unsubscribe_filters_SL; eassumption.
  - (* puback *)
    apply bind_ok in H as (o & Ho & H). apply get_obuf_some in Ho.
    destruct (register_ack o pkid) as [o' ok] eqn:Er.
    assert (HI1 : CInv (put_obuf st id o')).
    { apply cinv_put_obuf; [exact HI|]. eapply register_ack_infl; [exact Er|]. eapply cinv_obuf; eassumption. }
    destruct ok.
    + apply bind_ok in H as (st2 & H2 & H). inv_ok. rewrite (reschedule_dl _ _ _ _ H2).
      split; [eapply reschedule_cinv; eassumption|apply dl_le_refl].
    + inv_ok. split; [exact HI1|apply dl_le_refl].
  - (* pubrec *)
    apply bind_ok in H as (o & Ho & H). apply get_obuf_some in Ho.
    destruct (register_ack o pkid) as [o' ok] eqn:Er.
    assert (Hinf : Forall (InflOk (r_datalog st)) (o_inflight o')).
    { eapply register_ack_infl; [exact Er|]. eapply cinv_obuf; eassumption. }
    destruct ok.
    + apply bind_ok in H as (l & _ & H). apply bind_ok in H as (st2 & H2 & H). apply bind_ok in H as (st3 & H3 & H). inv_ok.
      rewrite (reschedule_dl _ _ _ _ H3), (commit_ack_dl _ _ _ _ H2). split; [|apply dl_le_refl].
      eapply reschedule_cinv; [|exact H3]. eapply commit_ack_cinv; [|exact H2]. apply cinv_put_obuf; [exact HI|exact Hinf].
    + inv_ok. split; [|apply dl_le_refl]. apply cinv_put_obuf; assumption.
  - (* pubrel *)
    apply bind_ok in H as (l & _ & H). destruct (a_recorded l) as [|[p0 pr0] rec].
    + inv_ok. split; [|apply dl_le_refl]. eapply cinv_view; [|exact HI]. reflexivity.
    + apply bind_ok in H as ([st2 res] & H2 & H).
      match type of H2 with append_to_commitlog ?s _ _ _ = _ => assert (HI1 : CInv s) by (eapply cinv_view; [|exact HI]; reflexivity) end.
      destruct (append_to_commitlog_cinv _ _ _ _ _ _ HI1 H2) as [HI2 L2]. cbn [r_datalog put_acks set_r_acks] in L2.
      destruct res.
      * apply bind_ok in H as (st3 & H3 & H). inv_ok. rewrite (reschedule_dl _ _ _ _ H3).
        split; [eapply reschedule_cinv; eassumption|exact L2].
      * inv_ok. auto.
  - (* pubcomp *)
    apply bind_ok in H as (o & Ho & H). apply get_obuf_some in Ho.
    destruct (register_pubcomp o pkid) as [o' ok] eqn:Er.
    assert (HI1 : CInv (put_obuf st id o')).
    { apply cinv_put_obuf; [exact HI|]. unfold register_pubcomp in Er.
      destruct (o_pubrels o) as [|h0 r0]; [|destruct (pkid =? h0)]; inv_ok; cbn [set_o_pubrels o_inflight]; eapply cinv_obuf; eassumption. }
    destruct ok; inv_ok; (split; [exact HI1|apply dl_le_refl]).
  - apply bind_ok in H as (st1 & H1 & H). inv_ok. rewrite (commit_ack_dl _ _ _ _ H1).
    split; [eapply commit_ack_cinv; eassumption|apply dl_le_refl].
  - inv_ok. split; [|apply dl_le_refl]. eapply cinv_view; [|exact HI]. reflexivity.
  - inv_ok. split; [exact HI|apply dl_le_refl].
Qed.

Lemma handle_packets_cinv id client : forall pks st fl st' fl',
  CInv st -> handle_packets st id client pks fl = Ok (st', fl') ->
  CInv st' /\ dl_le (r_datalog st) (r_datalog st').
Proof.
  induction pks as [|pk r IH]; intros st fl st' fl' HI H; cbn [handle_packets] in H.
  - inv_ok. split; [exact HI|apply dl_le_refl].
  - apply bind_ok in H as ([[st1 fl1] brk] & H1 & H).
    destruct (handle_packet_cinv _ _ _ _ _ _ _ _ HI H1) as [HI1 L1].
    destruct brk; [inv_ok; auto|]. destruct (IH _ _ _ _ HI1 H) as [HI2 L2].
    split; [exact HI2|eapply dl_le_trans; eassumption].
Qed.

Lemma handle_device_payload_cinv st id st' :
  CInv st -> handle_device_payload st id = Ok st' -> CInv st' /\ dl_le (r_datalog st) (r_datalog st').
Proof.
  unfold handle_device_payload. intros HI H.
  destruct (slab_get (r_ibufs st) id) as [inc|]; [|inv_ok; split; [exact HI|apply dl_le_refl]].
  apply bind_ok in H as (b & _ & H). apply bind_ok in H as ([st1 fl] & H1 & H).
  match type of H1 with handle_packets ?s _ _ _ _ = _ => assert (HI0 : CInv s) by (eapply cinv_view; [|exact HI]; reflexivity) end.
  destruct (handle_packets_cinv _ _ _ _ _ _ _ HI0 H1) as [HI1 L1]. cbn [r_datalog link_put set_r_links] in L1.
  apply bind_ok in H as (st2 & H2 & H).
  assert (HI2 : CInv st2 /\ r_datalog st2 = r_datalog st1).
  { destruct (f_force_ack fl); [|now inv_ok]. split; [eapply reschedule_cinv; eassumption|eapply reschedule_dl; eassumption]. }
  destruct HI2 as [HI2 D2].
  apply bind_ok in H as (st3 & H3 & H).
  assert (HI3 : CInv st3 /\ r_datalog st3 = r_datalog st2).
  { destruct (f_new_data fl); [|now inv_ok]. split; [eapply drain_notifications_cinv; eassumption|eapply drain_notifications_dl; eassumption]. }
  destruct HI3 as [HI3 D3].
  destruct (f_disconnect fl).
  - destruct (handle_disconnection_cinv _ _ _ _ HI3 H) as [HI4 L4]. split; [exact HI4|].
    eapply dl_le_trans; [exact L1|]. rewrite <- D2, <- D3. exact L4.
  - inv_ok. split; [exact HI3|]. rewrite D3, D2. exact L1.
Qed.
