(** C09 (a),(b): lifting of the window invariant through every function of the model up to
    [step_with] and to every reachable state; the link invariant (every connection owns one
    existing link buffer); what each step puts on the wire. *)
From Coq Require Import ZArith ZifyBool ZifyN ZifyNat.
From Rumqtt Require Import Router.Model Router.RunDefs Router.WindowFrame Router.Window.

(* ------------------------------------------------------------------ what is on the wire *)
(** packet ids of the QoS>0 publishes among a list of notifications *)
Fixpoint fwd_ids (ns : list notification) : list N :=
  match ns with
  | [] => []
  | NForward _ p _ :: r => if p_qos p =? 0 then fwd_ids r else p_pkid p :: fwd_ids r
  | _ :: r => fwd_ids r
  end.
(** the acks among a list of notifications *)
Fixpoint acks_of (ns : list notification) : list ack :=
  match ns with
  | [] => []
  | NAck a :: r => a :: acks_of r
  | _ :: r => acks_of r
  end.

Lemma fwd_ids_app a b : fwd_ids (a ++ b) = fwd_ids a ++ fwd_ids b.
Proof.
  induction a as [| n a IH]; [reflexivity |]. cbn [app fwd_ids]. destruct n; try exact IH.
  destruct (p_qos p =? 0); [exact IH | cbn [app]; now rewrite IH].
Qed.
Lemma acks_of_app a b : acks_of (a ++ b) = acks_of a ++ acks_of b.
Proof.
  induction a as [| n a IH]; [reflexivity |]. cbn [app acks_of]. destruct n; try exact IH.
  cbn [app]. now rewrite IH.
Qed.
Lemma acks_of_map_NAck l : acks_of (map NAck l) = l.
Proof. induction l as [| a l IH]; [reflexivity |]. cbn [map acks_of]. now rewrite IH. Qed.
Lemma fwd_ids_map_NAck l : fwd_ids (map NAck l) = [].
Proof. induction l as [| a l IH]; [reflexivity | exact IH]. Qed.

Lemma fwd0_quiet ns : Forall is_fwd0 ns -> fwd_ids ns = [] /\ acks_of ns = [].
Proof.
  induction 1 as [| n ns (c & p & pr & -> & Hq) H [IH1 IH2]]; [split; reflexivity |].
  cbn [fwd_ids acks_of]. rewrite Hq. replace (0 =? 0) with true by lia. split; assumption.
Qed.

Lemma numbered_wire fidx new fw ns :
  numbered fidx new fw ns -> Forall (fun x : fwd => p_qos (snd (fst x)) <> 0) fw ->
  fwd_ids ns = map pkid_of new /\ acks_of ns = [].
Proof.
  induction 1 as [| pk c p pr new fw ns H IH]; intros F; [split; reflexivity |].
  inversion F as [| x l Hq F']; subst. cbn [fst snd] in Hq. destruct (IH F') as [IH1 IH2].
  cbn [fwd_ids acks_of map pkid_of fst]. unfold set_p_pkid. cbn [p_qos p_pkid].
  destruct (p_qos p =? 0) eqn:E; [lia |]. split; [now rewrite IH1 | exact IH2].
Qed.

(* ------------------------------------------------------------------ consume: the delta of one connection *)
(** [cons_delta id st st']: only connection [id] is served: its Outgoing evolves by an [ostep],
    its link buffer grows by notifications that contain no ack, and the QoS>0 forwards among
    them carry exactly the ids appended to its inflight buffer, in order *)
Definition cons_delta (id : N) (st st' : rstate) : Prop :=
  obs_at id st st' /\ r_acks st' = r_acks st /\ lenN (r_links st') = lenN (r_links st) /\
  (forall k, in_of st' k = in_of st k) /\
  forall o, slab_get (r_obufs st) id = Some o ->
    exists o' added,
      slab_get (r_obufs st') id = Some o' /\ o_link o' = o_link o /\
      (forall k, out_of st' k = out_of st k ++ (if k =? o_link o then added else [])) /\
      acks_of added = [] /\ pkids o' = pkids o ++ fwd_ids added.

Lemma cons_delta_keep id st st' : keep st' = keep st -> cons_delta id st st'.
Proof.
  intros K. split; [now apply obs_at_keep |]. split; [now apply keep_acks |].
  split; [now rewrite (keep_links _ _ K) |]. split; [intros k; unfold in_of; now rewrite (keep_links _ _ K) |].
  intros o G. exists o, []. rewrite (keep_obufs _ _ K). repeat split; try assumption.
  - intros k. rewrite (keep_out_of _ _ k K). destruct (k =? o_link o); now rewrite app_nil_r.
  - cbn [fwd_ids]. now rewrite app_nil_r.
Qed.

Lemma cons_delta_trans id st1 st2 st3 : cons_delta id st1 st2 -> cons_delta id st2 st3 -> cons_delta id st1 st3.
Proof.
  intros (A1 & A2 & A3 & A4 & A5) (B1 & B2 & B3 & B4 & B5).
  split; [eapply obs_at_trans; eauto |]. split; [congruence |]. split; [congruence |].
  split; [intros k; now rewrite B4, A4 |].
  intros o G. destruct (A5 o G) as (o2 & ad1 & G2 & L2 & O2 & K2 & P2).
  destruct (B5 o2 G2) as (o3 & ad2 & G3 & L3 & O3 & K3 & P3).
  exists o3, (ad1 ++ ad2). repeat split.
  - exact G3.
  - congruence.
  - intros k. rewrite O3, O2, L2. destruct (k =? o_link o); rewrite <- ?app_assoc; reflexivity.
  - rewrite acks_of_app, K2, K3. reflexivity.
  - rewrite P3, P2, fwd_ids_app, app_assoc. reflexivity.
Qed.

Lemma fwd_kind_ostep o o' notifs : fwd_kind o o' notifs -> ostep o o'.
Proof.
  intros [[-> _] | (fidx & fw & B & _ & E)]; [constructor |].
  replace o' with (fst (number_forwards o fidx fw)) by (now rewrite E). now constructor.
Qed.

Lemma fdd_cons_delta st id rq st' rq' cs :
  forward_device_data st id rq = Ok (st', rq', cs) -> cons_delta id st st'.
Proof.
  intros H. apply forward_device_data_spec in H as (o & G & o' & notifs & tail & D & K).
  destruct D as (D1 & D2 & D3 & D4 & D5 & D6).
  assert (G' : slab_get (r_obufs st') id = Some o') by (rewrite D4; eapply slab_get_put_occ; eauto).
  split; [| split; [exact D1 | split; [exact D2 | split; [exact D3 |]]]].
  - split.
    + intros id' Hne. rewrite D4. apply slab_get_put_other. congruence.
    + intros o2 G2. rewrite G' in G2. inversion G2; subst. exists o. split; [exact G |].
      eapply fwd_kind_ostep; eauto.
  - intros o0 G0. rewrite G in G0. inversion G0; subst o0. exists o', (notifs ++ tail).
    assert (QT : fwd_ids tail = [] /\ acks_of tail = []) by (destruct D6 as [-> | ->]; split; reflexivity).
    destruct QT as [QT1 QT2]. rewrite fwd_ids_app, acks_of_app, QT1, QT2, !app_nil_r.
    destruct K as [[-> F0] | (fidx & fw & B & Q & E)].
    + apply fwd0_quiet in F0 as [F1 F2]. rewrite F1, F2, app_nil_r. repeat split; assumption.
    + apply number_forwards_spec in E as (_ & L & _ & new & E1 & E2).
      destruct (numbered_wire _ _ _ _ E2 Q) as [W1 W2]. rewrite W1, W2.
      repeat split; try assumption. unfold pkids. now rewrite E1, map_app.
Qed.

Lemma consume_loop_delta fuel : forall st id requests skipped st',
  consume_loop fuel st id requests skipped = Ok st' -> cons_delta id st st'.
Proof.
  induction fuel as [| fuel IH]; intros st id requests skipped st' H; cbn [consume_loop] in H.
  - apply trackv_keep in H. now apply cons_delta_keep.
  - destruct requests as [| rq rest].
    + apply bind_ok in H as (st1 & H1 & H). apply trackv_keep in H.
      assert (keep st1 = keep st) by (destruct skipped; [now apply pause_keep in H1 | now inv_ok]).
      apply cons_delta_keep. congruence.
    + apply bind_ok in H as ([[st1 rq'] status] & H1 & H). apply fdd_cons_delta in H1.
      eapply cons_delta_trans; [exact H1 |].
      destruct status.
      * apply bind_ok in H as (st2 & H2 & H). keeps. apply cons_delta_keep. congruence.
      * apply bind_ok in H as (st2 & H2 & H). keeps. apply cons_delta_keep. congruence.
      * apply bind_ok in H as (st2 & H2 & H). keeps. eapply cons_delta_trans; [apply cons_delta_keep; exact H2 |].
        eapply IH; eauto.
      * eapply IH; eauto.
      * eapply IH; eauto.
Qed.

Lemma ack_device_data_spec st id o st' :
  ack_device_data st id o = Ok st' ->
  exists l, slab_get (r_acks st) id = Some l /\
    r_obufs st' = r_obufs st /\ lenN (r_links st') = lenN (r_links st) /\
    (forall k, in_of st' k = in_of st k) /\
    r_acks st' = slab_put (r_acks st) id (set_a_committed l []) /\
    (forall k, out_of st' k = out_of st k ++ (if k =? o_link o then map NAck (a_committed l) else [])).
Proof.
  unfold ack_device_data, get_acks. intros H.
  destruct (slab_get (r_acks st) id) as [l |] eqn:G; [| discriminate]. cbn [bind] in H.
  exists l. split; [reflexivity |].
  destruct (a_committed l) as [| a acks] eqn:EC.
  - inv_ok. repeat split.
    + symmetry. apply slab_put_same. rewrite G. f_equal. destruct l. cbn in *. now subst.
    + intros k. cbn [map]. destruct (k =? o_link o); now rewrite app_nil_r.
  - apply bind_ok in H as ([st2 len] & H2 & H). inv_ok.
    pose proof (push_out_fields _ _ _ _ _ H2) as F. repeat split.
    + rewrite F. reflexivity.
    + rewrite (push_out_nlinks _ _ _ _ _ H2). reflexivity.
    + intros k. rewrite (push_out_in _ _ _ _ _ k H2). reflexivity.
    + rewrite F. reflexivity.
    + intros k. rewrite (push_out_out _ _ _ _ _ k H2). unfold out_of. rsimpl.
      destruct (k =? o_link o) eqn:E; [assert (k = o_link o) by lia; now subst | now rewrite app_nil_r].
Qed.

Lemma consume_delta st st' b :
  consume st = Ok (st', b) ->
  keep st' = keep st \/
  exists id rest o l st3,
    r_ready st = id :: rest /\ slab_get (r_obufs st) id = Some o /\ slab_get (r_acks st) id = Some l /\
    r_obufs st3 = r_obufs st /\ lenN (r_links st3) = lenN (r_links st) /\
    (forall k, in_of st3 k = in_of st k) /\
    r_acks st3 = slab_put (r_acks st) id (set_a_committed l []) /\
    (forall k, out_of st3 k = out_of st k ++ (if k =? o_link o then map NAck (a_committed l) else [])) /\
    cons_delta id st3 st'.
Proof.
  unfold consume. intros H.
  destruct (r_ready st) as [| id rest] eqn:ER; [inv_ok; now left |].
  destruct (slab_get (r_trackers (set_r_ready st rest)) id) as [t |]; [| inv_ok; now left].
  cbv zeta in H.
  match type of H with match slab_get (r_obufs ?s) id with _ => _ end = _ => set (st2 := s) in * end.
  assert (K2 : keep st2 = keep st) by reflexivity.
  destruct (slab_get (r_obufs st2) id) as [o |] eqn:G; [| inv_ok; now left].
  apply bind_ok in H as (st3 & H3 & H). apply bind_ok in H as (_ & _ & H).
  apply bind_ok in H as (st4 & H4 & H). inv_ok.
  apply ack_device_data_spec in H3 as (l & A1 & A2 & A3 & A4 & A5 & A6).
  apply consume_loop_delta in H4.
  right. exists id, rest, o, l, st3.
  rewrite (keep_obufs _ _ K2) in *. rewrite (keep_acks _ _ K2) in *. rewrite (keep_links _ _ K2) in *.
  split; [reflexivity |]. split; [exact G |]. split; [exact A1 |]. split; [exact A2 |].
  split; [exact A3 |]. split; [intros k; rewrite A4; unfold in_of; now rewrite (keep_links _ _ K2) |].
  split; [exact A5 |]. split; [intros k; rewrite A6; now rewrite (keep_out_of _ _ k K2) |]. exact H4.
Qed.

Lemma obs_at_obufs id st st2 st' : r_obufs st' = r_obufs st2 -> obs_at id st st2 -> obs_at id st st'.
Proof. intros E [A B]. split; rewrite E; assumption. Qed.

Lemma put_acks_keepish st id l : r_obufs (put_acks st id l) = r_obufs st /\ r_links (put_acks st id l) = r_links st.
Proof. split; reflexivity. Qed.

Lemma handle_packet_obs st id client pk fl st' fl' brk :
  handle_packet st id client pk fl = Ok (st', fl', brk) ->
  obs_at id st st' /\ r_links st' = r_links st.
Proof.
  unfold handle_packet, get_obuf, get_acks, get_conn, commit_ack, get_acks. intros H.
  destruct pk; break_all H; inv_ok; keeps2; unfold keep in *; rsimpl;
  repeat match goal with E : (_, _, _) = (_, _, _) |- _ => inversion E; clear E end.
  all: try (split; [apply obs_at_eq; rsimpl; congruence | rsimpl; congruence]).
  all: split; [| congruence].
  all: repeat match goal with
       | E : register_ack _ _ = _ |- _ => apply register_ack_ostep in E
       | E : register_pubcomp _ _ = _ |- _ => apply register_pubcomp_ostep in E
       end.
  all: try (eapply obs_at_put; eassumption).
  all: try (eapply obs_at_obufs; [| eapply obs_at_put; [eassumption |]]; [rsimpl; eassumption | eassumption]).
  eapply obs_at_obufs; [| eapply obs_at_put; [eassumption |]]; [rsimpl; eassumption |].
  eapply os_trans; [eassumption | constructor].
Qed.

Lemma handle_packets_obs pks : forall st id client fl st' fl',
  handle_packets st id client pks fl = Ok (st', fl') -> obs_at id st st' /\ r_links st' = r_links st.
Proof.
  induction pks as [| pk r IH]; intros st id client fl st' fl' H; cbn [handle_packets] in H.
  - inv_ok. split; [apply obs_at_refl | reflexivity].
  - apply bind_ok in H as ([[st1 fl1] brk] & H1 & H). apply handle_packet_obs in H1 as [A1 A2].
    destruct brk; [inv_ok; now split |]. apply IH in H as [B1 B2].
    split; [eapply obs_at_trans; eauto | congruence].
Qed.

Definition is_ctl (n : notification) : Prop :=
  match n with NDisconnect _ | NUnschedule | NShadow _ _ => True | _ => False end.
Lemma ctl_quiet ns : Forall is_ctl ns -> fwd_ids ns = [] /\ acks_of ns = [].
Proof.
  induction 1 as [| n ns Hn H [IH1 IH2]]; [split; reflexivity |].
  destruct n; try contradiction; split; assumption.
Qed.

(** every link buffer grows by control notifications only (no ack, no forward) *)
Definition out_quiet (st st' : rstate) : Prop :=
  forall k, exists added, out_of st' k = out_of st k ++ added /\ Forall is_ctl added.

Lemma out_quiet_eq st st' : r_links st' = r_links st -> out_quiet st st'.
Proof. intros E k. exists []. unfold out_of. rewrite E, app_nil_r. split; [reflexivity | constructor]. Qed.
Lemma out_quiet_trans st1 st2 st3 : out_quiet st1 st2 -> out_quiet st2 st3 -> out_quiet st1 st3.
Proof.
  intros A B k. destruct (A k) as (a1 & A1 & A2). destruct (B k) as (a2 & B1 & B2).
  exists (a1 ++ a2). split; [now rewrite B1, A1, app_assoc | now apply Forall_app].
Qed.

Lemma handle_disconnection_obs st id reason st' :
  handle_disconnection st id reason = Ok st' ->
  obs_at id st st' /\ out_quiet st st' /\ lenN (r_links st') = lenN (r_links st) /\
  (forall k, in_of st' k = in_of st k).
Proof.
  intros H. destruct (slab_get (r_obufs st) id) as [o0 |] eqn:G.
  - destruct (handle_disconnection_frame _ _ _ _ _ H G) as (F1 & _ & _ & _ & _ & F6 & F7 & F8).
    split; [| split; [| split]]; try assumption.
    + split.
      * intros id' Hne. rewrite F1. destruct (id' =? id) eqn:E; [lia | reflexivity].
      * intros o' G'. rewrite F1 in G'. replace (id =? id) with true in G' by lia. discriminate.
    + intros k. eexists. split; [apply F6 |].
      destruct reason; [destruct (k =? o_link o0) |]; repeat constructor.
  - rewrite (handle_disconnection_noop _ _ _ G) in H. inv_ok.
    split; [apply obs_at_refl | split; [now apply out_quiet_eq | split; reflexivity]].
Qed.

Lemma link_put_in_out st k0 b x k :
  nthN (r_links st) k0 = Some b -> out_of (link_put st k0 (set_lk_in b x)) k = out_of st k.
Proof.
  intros Hb. unfold out_of. rsimpl. destruct (N.eq_dec k0 k) as [<- | Hne].
  - rewrite nthN_setN_same, Hb. reflexivity.
  - rewrite nthN_setN_other by exact Hne. reflexivity.
Qed.

Lemma out_quiet_out st st' : (forall k, out_of st' k = out_of st k) -> out_quiet st st'.
Proof. intros E k. exists []. rewrite E, app_nil_r. split; [reflexivity | constructor]. Qed.

Lemma handle_device_payload_obs st id st' :
  handle_device_payload st id = Ok st' ->
  obs_at id st st' /\ out_quiet st st' /\ lenN (r_links st') = lenN (r_links st).
Proof.
  unfold handle_device_payload, link_get. intros H.
  destruct (slab_get (r_ibufs st) id) as [inc |]; [| inv_ok; split; [apply obs_at_refl | split; [now apply out_quiet_eq | reflexivity]]].
  destruct (nthN (r_links st) (i_link inc)) as [b |] eqn:Hb; [| discriminate]. cbn [bind] in H.
  apply bind_ok in H as ([st1 fl] & H1 & H). apply bind_ok in H as (st2 & H2 & H).
  apply bind_ok in H as (st3 & H3 & H).
  apply handle_packets_obs in H1 as [A1 A2].
  assert (K2 : keep st2 = keep st1) by (destruct (f_force_ack fl); [now apply reschedule_keep in H2 | now inv_ok]).
  assert (K3 : keep st3 = keep st2) by (destruct (f_new_data fl); [now apply drain_notifications_keep in H3 | now inv_ok]).
  assert (B : obs_at id st st3 /\ out_quiet st st3 /\ lenN (r_links st3) = lenN (r_links st)).
  { split; [| split].
    - eapply obs_at_obufs; [| exact A1]. rewrite (keep_obufs _ _ K3), (keep_obufs _ _ K2). reflexivity.
    - apply out_quiet_out. intros k. rewrite (keep_out_of _ _ k K3), (keep_out_of _ _ k K2).
      unfold out_of at 1. rewrite A2. now apply link_put_in_out.
    - rewrite (keep_links _ _ K3), (keep_links _ _ K2), A2. rsimpl. apply lenN_setN. }
  destruct B as (B1 & B2 & B3).
  destruct (f_disconnect fl); [| now inv_ok].
  apply handle_disconnection_obs in H as (C1 & C2 & C3 & _).
  split; [eapply obs_at_trans; eauto | split; [eapply out_quiet_trans; eauto | congruence]].
Qed.

Lemma push_out_quiet st k0 ns st' len :
  push_out st k0 ns = Ok (st', len) -> Forall is_ctl ns -> out_quiet st st'.
Proof.
  intros H C k. rewrite (push_out_out _ _ _ _ _ k H). destruct (k =? k0) eqn:E.
  - assert (k = k0) by lia. subst. exists ns. split; [reflexivity | exact C].
  - exists []. split; [symmetry; apply app_nil_r | constructor].
Qed.

Lemma retrieve_shadow_obs st id f st' :
  retrieve_shadow st id f = Ok st' ->
  r_obufs st' = r_obufs st /\ r_acks st' = r_acks st /\ out_quiet st st' /\ lenN (r_links st') = lenN (r_links st).
Proof.
  unfold retrieve_shadow. intros H.
  assert (NOP : r_obufs st = r_obufs st /\ r_acks st = r_acks st /\ out_quiet st st /\ lenN (r_links st) = lenN (r_links st))
    by (repeat split; now apply out_quiet_eq).
  destruct (slab_get (r_obufs st) id) as [o |]; [| now inv_ok].
  destruct (al_get str_eqb f (dl_findex (r_datalog st))) as [idx |]; [| now inv_ok].
  destruct (slab_get (dl_native (r_datalog st)) idx) as [d |]; [| now inv_ok].
  apply bind_ok in H as (a & _ & H).
  destruct (last_opt (s_data a)) as [[p pr] |]; [| now inv_ok].
  apply bind_ok in H as ([st1 len] & H1 & H).
  assert (Q1 : r_obufs st1 = r_obufs st /\ r_acks st1 = r_acks st /\ out_quiet st st1 /\ lenN (r_links st1) = lenN (r_links st)).
  { pose proof (push_out_fields _ _ _ _ _ H1) as F. split; [now rewrite F | split; [now rewrite F | split]].
    - eapply push_out_quiet; [exact H1 | repeat constructor].
    - eapply push_out_nlinks; eauto. }
  destruct (MAX_CHANNEL_CAPACITY - 1 <=? len); [| now inv_ok].
  apply bind_ok in H as ([st2 len2] & H2 & H). inv_ok.
  destruct Q1 as (Q1 & Q2 & Q3 & Q4). pose proof (push_out_fields _ _ _ _ _ H2) as F.
  split; [rewrite F; exact Q1 | split; [rewrite F; exact Q2 | split]].
  - eapply out_quiet_trans; [exact Q3 |]. eapply push_out_quiet; [exact H2 | repeat constructor].
  - rewrite (push_out_nlinks _ _ _ _ _ H2). exact Q4.
Qed.

(* ------------------------------------------------------------------ invariants of the obufs slab *)
(** every Outgoing of [st'] descends from the Outgoing under the same key in [st] *)
Definition obs_sub (st st' : rstate) : Prop :=
  forall id o', slab_get (r_obufs st') id = Some o' ->
                exists o, slab_get (r_obufs st) id = Some o /\ ostep o o'.

Lemma obs_at_sub id st st' : obs_at id st st' -> obs_sub st st'.
Proof.
  intros [A B] id' o' G. destruct (N.eq_dec id' id) as [-> | Hne]; [now apply B |].
  rewrite A in G by exact Hne. exists o'. split; [exact G | constructor].
Qed.
Lemma obs_sub_eq st st' : r_obufs st' = r_obufs st -> obs_sub st st'.
Proof. intros E id o' G. rewrite E in G. exists o'. split; [exact G | constructor]. Qed.
Lemma obs_sub_trans st1 st2 st3 : obs_sub st1 st2 -> obs_sub st2 st3 -> obs_sub st1 st3.
Proof.
  intros A B id o3 G3. apply B in G3 as (o2 & G2 & S2). apply A in G2 as (o1 & G1 & S1).
  exists o1. split; [exact G1 | eapply os_trans; eauto].
Qed.
Lemma obs_sub_ObInv st st' : obs_sub st st' -> ObInv st -> ObInv st'.
Proof. intros A I id o' G. apply A in G as (o & G & S). eapply ostep_WinInv; eauto. Qed.

(** every connection's link exists, and no two connections share a link *)
Definition LinkInv (st : rstate) : Prop :=
  (forall id o, slab_get (r_obufs st) id = Some o -> o_link o < lenN (r_links st)) /\
  (forall id id' o o', slab_get (r_obufs st) id = Some o -> slab_get (r_obufs st) id' = Some o' ->
                       o_link o = o_link o' -> id = id').

Lemma obs_sub_LinkInv st st' :
  obs_sub st st' -> lenN (r_links st) <= lenN (r_links st') -> LinkInv st -> LinkInv st'.
Proof.
  intros A L [I1 I2]. split.
  - intros id o' G. apply A in G as (o & G & S). apply ostep_link in S as [S _]. specialize (I1 _ _ G). lia.
  - intros id id' o1 o2 G1 G2 E. apply A in G1 as (p1 & G1 & S1). apply A in G2 as (p2 & G2 & S2).
    apply ostep_link in S1 as [S1 _]. apply ostep_link in S2 as [S2 _]. eapply I2; eauto. congruence.
Qed.

Lemma handle_new_connection_inv st conn link st' :
  handle_new_connection st conn link = Ok st' ->
  r_links st' = r_links st /\
  (ObInv st -> ObInv st') /\
  (link < lenN (r_links st) ->
   (forall id o, slab_get (r_obufs st) id = Some o -> o_link o < link) -> LinkInv st -> LinkInv st').
Proof.
  intros H. apply handle_new_connection_frame in H as (st1 & H1 & H2).
  assert (S1 : obs_sub st st1 /\ r_links st1 = r_links st).
  { destruct H1 as [-> | (cid & H1)]; [split; [now apply obs_sub_eq | reflexivity] |].
    split; [| eapply handle_disconnection_links_none; eauto].
    apply handle_disconnection_obs in H1 as (A & _). eapply obs_at_sub; eauto. }
  destruct S1 as [S1 L1].
  destruct H2 as [-> | (id & pubrels & sp & E1 & E2 & E3)].
  - split; [exact L1 |]. split; [now apply obs_sub_ObInv |]. intros _ _. apply obs_sub_LinkInv; [exact S1 | rewrite L1; lia].
  - split; [congruence |]. split.
    + intros I id' o' G. destruct (slab_insert_inv _ _ _ _ _ _ E1 G) as [[-> ->] | [Hne G1]].
      * apply WinInv_fresh.
      * eapply obs_sub_ObInv; eauto.
    + intros Hl Hlt LI. assert (LI1 : LinkInv st1) by (eapply obs_sub_LinkInv; eauto; rewrite L1; lia).
      assert (Hlt1 : forall id o, slab_get (r_obufs st1) id = Some o -> o_link o < link).
      { intros id1 o1 G1. apply S1 in G1 as (o0 & G0 & S0). apply ostep_link in S0 as [S0 _]. rewrite S0. eauto. }
      destruct LI1 as [J1 J2]. split.
      * intros id' o' G. rewrite E3, L1. destruct (slab_insert_inv _ _ _ _ _ _ E1 G) as [[-> ->] | [Hne G1]].
        -- exact Hl.
        -- specialize (Hlt1 _ _ G1). lia.
      * intros i1 i2 o1 o2 G1 G2 E.
        destruct (slab_insert_inv _ _ _ _ _ _ E1 G1) as [[-> ->] | [Hne1 G1']];
        destruct (slab_insert_inv _ _ _ _ _ _ E1 G2) as [[-> ->] | [Hne2 G2']]; try reflexivity.
        -- cbn [o_link] in E. specialize (Hlt1 _ _ G2'). lia.
        -- cbn [o_link] in E. specialize (Hlt1 _ _ G1'). lia.
        -- eapply J2; eauto.
Qed.

Lemma out_of_snoc_empty st k :
  out_of (set_r_links st (r_links st ++ [{| lk_in := []; lk_out := [] |}])) k = out_of st k.
Proof.
  unfold out_of. rsimpl. rewrite nthN_app. destruct (k <? lenN (r_links st)) eqn:E; [reflexivity |].
  destruct (nthN (r_links st) k) eqn:G; [apply nthN_some_lt in G; lia |].
  cbn [nthN]. destruct (k - lenN (r_links st) =? 0); [reflexivity |]. reflexivity.
Qed.

Lemma consume_obs st st' b : consume st = Ok (st', b) -> obs_sub st st' /\ lenN (r_links st') = lenN (r_links st).
Proof.
  intros H. apply consume_delta in H as [K | (id & rest & o & l & st3 & _ & _ & _ & A & B & _ & _ & _ & C)].
  - split; [apply obs_sub_eq; now apply keep_obufs | now rewrite (keep_links _ _ K)].
  - destruct C as (C1 & _ & C3 & _). split; [| congruence].
    eapply obs_sub_trans; [apply obs_sub_eq; exact A | eapply obs_at_sub; exact C1].
Qed.

Lemma step_inv st op st' out :
  step st op = Ok (st', out) -> (ObInv st -> ObInv st') /\ (LinkInv st -> LinkInv st').
Proof.
  unfold step. intros H. destruct op.
  - apply bind_ok in H as (st2 & H2 & H). inv_ok. apply handle_new_connection_inv in H2 as (_ & A & B).
    split; [exact A |]. intros [I1 I2]. apply B.
    + rsimpl. rewrite lenN_snoc. lia.
    + exact I1.
    + split; rsimpl; [| exact I2]. intros id o G. specialize (I1 _ _ G). rewrite lenN_snoc. lia.
  - destruct (nthN (r_links st) link); inv_ok; [| tauto].
    split; [apply obs_sub_ObInv; now apply obs_sub_eq |].
    apply obs_sub_LinkInv; [now apply obs_sub_eq | rsimpl; rewrite lenN_setN; lia].
  - apply bind_ok in H as (st1 & H1 & H). inv_ok. apply handle_device_payload_obs in H1 as (A & _ & C).
    apply obs_at_sub in A. split; [now apply obs_sub_ObInv | apply obs_sub_LinkInv; [exact A | lia]].
  - apply bind_ok in H as ([st1 b] & H1 & H). inv_ok. apply consume_obs in H1 as [A C].
    split; [now apply obs_sub_ObInv | apply obs_sub_LinkInv; [exact A | lia]].
  - destruct (nthN (r_links st) link); inv_ok; [| tauto].
    split; [apply obs_sub_ObInv; now apply obs_sub_eq |].
    apply obs_sub_LinkInv; [now apply obs_sub_eq | rsimpl; rewrite lenN_setN; lia].
  - destruct (slab_get (r_trackers st) id); [| inv_ok; tauto].
    apply bind_ok in H as (st1 & H1 & H). inv_ok. apply reschedule_keep in H1.
    split; [apply obs_sub_ObInv; apply obs_sub_eq; now apply keep_obufs |].
    apply obs_sub_LinkInv; [apply obs_sub_eq; now apply keep_obufs | rewrite (keep_links _ _ H1); lia].
  - apply bind_ok in H as (st1 & H1 & H). inv_ok. apply handle_disconnection_obs in H1 as (A & _ & C & _).
    apply obs_at_sub in A. split; [now apply obs_sub_ObInv | apply obs_sub_LinkInv; [exact A | lia]].
  - apply bind_ok in H as (st1 & H1 & H). inv_ok. apply retrieve_shadow_obs in H1 as (A & _ & _ & C).
    split; [apply obs_sub_ObInv; now apply obs_sub_eq | apply obs_sub_LinkInv; [now apply obs_sub_eq | lia]].
  - apply bind_ok in H as (st1 & H1 & H). inv_ok. apply handle_last_will_keep in H1.
    split; [apply obs_sub_ObInv; apply obs_sub_eq; now apply keep_obufs |].
    apply obs_sub_LinkInv; [apply obs_sub_eq; now apply keep_obufs | rewrite (keep_links _ _ H1); lia].
  - inv_ok. tauto.
Qed.

Lemma step_with_inv st orc op st' out :
  step_with st orc op = Ok (st', out) -> (ObInv st -> ObInv st') /\ (LinkInv st -> LinkInv st').
Proof.
  unfold step_with. intros H. apply bind_ok in H as ([st1 out1] & H1 & H).
  destruct (r_oracle st1); [| discriminate]. inv_ok. apply step_inv in H1. exact H1.
Qed.

Lemma init_inv cfg st0 : init cfg = Ok st0 -> ObInv st0 /\ LinkInv st0.
Proof.
  unfold init. intros H. apply bind_ok in H as (dl & _ & H). inv_ok.
  split; [| split]; intros id; intros; discriminate.
Qed.

Theorem reachable_ObInv cfg st : reachable cfg st -> ObInv st.
Proof.
  apply (reachable_inv ObInv).
  - intros st0 H. now apply init_inv in H.
  - intros s orc o s' out I H. apply step_with_inv in H. tauto.
Qed.
Theorem reachable_LinkInv cfg st : reachable cfg st -> LinkInv st.
Proof.
  apply (reachable_inv LinkInv).
  - intros st0 H. now apply init_inv in H.
  - intros s orc o s' out I H. apply step_with_inv in H. tauto.
Qed.
