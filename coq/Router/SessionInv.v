(** C08, invariants over all runs: the slabs' free keys stay inside their item vectors (so a
    [slab_insert] really stores) and the graveyard has distinct keys (so removing a client's
    entry really removes it). *)
From Rumqtt Require Export Router.Session.
From Coq Require Import ZifyBool ZifyN ZifyNat.

Definition shape {A} (s : slab A) : nat * list N := (length (sl_items s), sl_free s).

(** keeps the shape of the five connection slabs and the graveyard *)
Definition Ksh (st st' : rstate) : Prop :=
  shape (r_conns st') = shape (r_conns st) /\ shape (r_ibufs st') = shape (r_ibufs st) /\
  shape (r_obufs st') = shape (r_obufs st) /\ shape (r_acks st') = shape (r_acks st) /\
  shape (r_trackers st') = shape (r_trackers st) /\ r_graveyard st' = r_graveyard st.

Lemma shape_put {A} (s : slab A) k a : shape (slab_put s k a) = shape s.
Proof. unfold shape, slab_put. cbn [sl_items sl_free]. now rewrite length_setN. Qed.

Lemma slab_ok_shape {A} (s s' : slab A) : shape s' = shape s -> slab_ok s -> slab_ok s'.
Proof. unfold shape, slab_ok, lenN. intros [= Hl Hf]. now rewrite Hl, Hf. Qed.

Definition SessInv (st : rstate) : Prop :=
  slab_ok (r_conns st) /\ slab_ok (r_ibufs st) /\ slab_ok (r_obufs st) /\ slab_ok (r_acks st) /\
  slab_ok (r_trackers st) /\ NoDup (map fst (r_graveyard st)).

Lemma Ksh_inv st st' : Ksh st st' -> SessInv st -> SessInv st'.
Proof.
  unfold Ksh, SessInv. intros (H1 & H2 & H3 & H4 & H5 & H6) (I1 & I2 & I3 & I4 & I5 & I6).
  rewrite H6. repeat split; eauto using slab_ok_shape.
Qed.

Class FrameS {A} (x : R A) (P : A -> Prop) : Prop := frameS_pf : forall a, x = Ok a -> P a.

Ltac frames_s :=
  repeat match goal with
  | E : ?x = Ok ?a |- _ =>
      let F := fresh "F" in
      pose proof (frameS_pf (x := x) a E) as F; cbn beta iota delta [fst snd] in F;
      change (used (x = Ok a)) in E
  end.
Ltac ks := split_hyps; unfold Ksh in *; split_goal; rsimpl_all; rewrite ?shape_put in *; intuition congruence.
Ltac frameS_by f := let a := fresh "a" in let H := fresh "H" in
  intros a H; unfold f in H; okinv; frames_s; ks.

Global Instance fs_push_out st k ns : FrameS (push_out st k ns) (fun r => Ksh st (fst r)).
Proof. frameS_by push_out. Qed.
Global Instance fs_reschedule st id why : FrameS (reschedule st id why) (fun st' => Ksh st st').
Proof. frameS_by reschedule. Qed.
Global Instance fs_track st id rq : FrameS (track st id rq) (fun st' => Ksh st st').
Proof. frameS_by track. Qed.
Global Instance fs_trackv st id rqs : FrameS (trackv st id rqs) (fun st' => Ksh st st').
Proof. frameS_by trackv. Qed.
Global Instance fs_untrack st id f : FrameS (untrack st id f) (fun st' => Ksh st st').
Proof. frameS_by untrack. Qed.
Global Instance fs_pause st id why : FrameS (pause st id why) (fun st' => Ksh st st').
Proof. frameS_by pause. Qed.
Global Instance fs_commit_ack st id a : FrameS (commit_ack st id a) (fun st' => Ksh st st').
Proof. frameS_by commit_ack. Qed.
Global Instance fs_wake_all ns : forall st, FrameS (wake_all st ns) (fun st' => Ksh st st').
Proof.
  induction ns as [| [id rq] r IH]; intros st a H; cbn [wake_all] in H.
  - okinv. unfold Ksh. tauto.
  - okinv. frames_s. ks.
Qed.
Global Instance fs_drain_notifications st : FrameS (drain_notifications st) (fun st' => Ksh st st').
Proof. frameS_by drain_notifications. Qed.
Global Instance fs_dl_matches st t : FrameS (dl_matches st t) (fun r => Ksh st (fst r)).
Proof. frameS_by dl_matches. Qed.
Global Instance fs_read_retained st f : FrameS (read_retained st f) (fun r => Ksh st (fst r)).
Proof. frameS_by read_retained. Qed.
Global Instance fs_update_next_client st g : FrameS (update_next_client st g) (fun r => Ksh st (fst r)).
Proof. frameS_by update_next_client. Qed.
Global Instance fs_park st id rq : FrameS (park st id rq) (fun st' => Ksh st st').
Proof. frameS_by park. Qed.
Global Instance fs_remove_waiters_for_id st id f : FrameS (remove_waiters_for_id st id f) (fun st' => Ksh st st').
Proof. frameS_by remove_waiters_for_id. Qed.
Global Instance fs_data_append st idx item : FrameS (data_append st idx item) (fun st' => Ksh st st').
Proof. frameS_by data_append. Qed.
Global Instance fs_append_all idxs item : forall st, FrameS (append_all st idxs item) (fun st' => Ksh st st').
Proof.
  induction idxs as [| i r IH]; intros st a H; cbn [append_all] in H.
  - okinv. unfold Ksh. tauto.
  - okinv. frames_s. ks.
Qed.
Global Instance fs_next_native_offset st f : FrameS (next_native_offset st f) (fun r => Ksh st (fst (fst r))).
Proof. frameS_by next_native_offset. Qed.
Global Instance fs_append_to_commitlog st id p props :
  FrameS (append_to_commitlog st id p props) (fun r => Ksh st (fst r)).
Proof.
  intros a H. unfold append_to_commitlog, retain_update in H. okinv; frames_s. all: ks.
Qed.
Global Instance fs_prepare_filter st id cu fidx path qos grp subid :
  FrameS (prepare_filter st id cu fidx path qos grp subid) (fun st' => Ksh st st').
Proof. intros a H. unfold prepare_filter in H. okinv. all: frames_s. all: ks. Qed.
Global Instance fs_subscribe_filters fs : forall st id subid fl codes,
  FrameS (subscribe_filters st id fs subid fl codes) (fun r => Ksh st (fst (fst r))).
Proof.
  induction fs as [| [path qos] r IH]; intros st id subid fl codes a H; cbn [subscribe_filters] in H.
  - okinv. unfold Ksh. tauto.
  - okinv. all: frames_s. all: ks.
Qed.
Global Instance fs_unsubscribe_filters fs : forall st id client reasons,
  FrameS (unsubscribe_filters st id client fs reasons) (fun r => Ksh st (fst r)).
Proof.
  induction fs as [| f r IH]; intros st id client reasons a H; cbn [unsubscribe_filters] in H.
  - okinv. unfold Ksh. tauto.
  - okinv. all: frames_s. all: ks.
Qed.
Global Instance fs_forward_device_data st id rq :
  FrameS (forward_device_data st id rq) (fun r => Ksh st (fst (fst r))).
Proof. intros a H. unfold forward_device_data in H. okinv. all: frames_s. all: ks. Qed.
Global Instance fs_ack_device_data st id o : FrameS (ack_device_data st id o) (fun st' => Ksh st st').
Proof. intros a H. unfold ack_device_data in H. okinv. all: frames_s. all: ks. Qed.
Global Instance fs_consume_loop fuel : forall st id requests skipped,
  FrameS (consume_loop fuel st id requests skipped) (fun st' => Ksh st st').
Proof.
  induction fuel as [| fuel IH]; intros st id requests skipped a H; cbn [consume_loop] in H.
  - frames_s. ks.
  - okinv. all: frames_s. all: ks.
Qed.
Global Instance fs_consume st : FrameS (consume st) (fun r => Ksh st (fst r)).
Proof. intros a H. unfold consume in H. okinv. all: frames_s. all: ks. Qed.
Global Instance fs_retrieve_shadow st id f : FrameS (retrieve_shadow st id f) (fun st' => Ksh st st').
Proof. intros a H. unfold retrieve_shadow in H. okinv. all: frames_s. all: ks. Qed.
Global Instance fs_handle_last_will st client : FrameS (handle_last_will st client) (fun st' => Ksh st st').
Proof. intros a H. unfold handle_last_will, retain_update in H. okinv. all: frames_s. all: ks. Qed.
Global Instance fs_handle_packet st id client pk fl :
  FrameS (handle_packet st id client pk fl) (fun r => Ksh st (fst (fst r))).
Proof. intros a H. unfold handle_packet in H. okinv. all: frames_s. all: ks. Qed.
Global Instance fs_handle_packets pks : forall st id client fl,
  FrameS (handle_packets st id client pks fl) (fun r => Ksh st (fst r)).
Proof.
  induction pks as [| pk r IH]; intros st id client fl a H; cbn [handle_packets] in H.
  - okinv. unfold Ksh. tauto.
  - okinv. all: frames_s. all: ks.
Qed.

Lemma slab_ok_remove' {A} (s : slab A) k s' a : slab_remove s k = Some (s', a) -> slab_ok s -> slab_ok s'.
Proof. intros H Hok. eapply slab_ok_remove; eauto. Qed.

Global Instance fs_handle_disconnection st id reason :
  FrameS (handle_disconnection st id reason) (fun st' => SessInv st -> SessInv st').
Proof.
  intros a H. unfold handle_disconnection in H.
  destruct (slab_get (r_obufs st) id) as [o0|]; [|okinv; auto].
  match type of H with bind ?x _ = _ => destruct x as [st0 | |] eqn:E0 end; cbn [bind] in H; try discriminate.
  assert (H0 : Ksh st st0).
  { clear H. destruct reason; okinv; [frames_s; ks | unfold Ksh; tauto]. }
  intros Hi. apply (Ksh_inv _ _ H0) in Hi. clear H0 E0. destruct Hi as (I1 & I2 & I3 & I4 & I5 & I6).
  destruct (slab_remove (r_conns st0) id) as [[conns conn]|] eqn:R1; [|discriminate].
  destruct (slab_remove (r_ibufs st0) id) as [[ibufs ?]|] eqn:R2; [|discriminate].
  destruct (slab_remove (r_obufs st0) id) as [[obufs outg]|] eqn:R3; [|discriminate].
  destruct (slab_remove (r_trackers st0) id) as [[trackers trk]|] eqn:R4; [|discriminate].
  destruct (slab_remove (r_acks st0) id) as [[acks ?]|] eqn:R5; [|discriminate].
  destruct (dl_clean (r_datalog st0) id) as [dl q].
  assert (Hg : forall v, NoDup (map fst (al_set str_eqb (tr_id trk) v (al_remove str_eqb (tr_id trk) (r_graveyard st0))))).
  { intros v. apply al_set_nodup; [apply str_eqb_spec|]. now apply al_remove_nodup. }
  okinv; unfold SessInv; rsimpl; repeat split; eauto using slab_ok_remove'.
Qed.

Global Instance fs_handle_new_connection st conn link :
  FrameS (handle_new_connection st conn link) (fun st' => SessInv st -> SessInv st').
Proof.
  intros a H Hi. unfold handle_new_connection in H.
  destruct (validate_clientid (c_client conn)); cbn [negb] in H; [|okinv; exact Hi].
  match type of H with bind ?x _ = _ => destruct x as [st1 | |] eqn:E1 end; cbn [bind] in H; try discriminate.
  assert (Hi1 : SessInv st1).
  { clear H. destruct (al_get str_eqb (c_client conn) (r_cmap st)); [|okinv; exact Hi]. frames_s. auto. }
  clear E1 Hi. destruct Hi1 as (I1 & I2 & I3 & I4 & I5 & I6).
  destruct (cf_max_connections (r_cfg st1) <=? slab_len (r_conns st1)); [okinv; unfold SessInv; auto 10|].
  okinv; frames_s.
  all: repeat match goal with E : slab_insert _ _ = _ |- _ => apply slab_ok_insert in E; [|assumption] end.
  all: (eapply Ksh_inv; [eassumption|]); unfold SessInv; rsimpl; repeat split; auto; now apply al_remove_nodup.
Qed.

Global Instance fs_handle_device_payload st id :
  FrameS (handle_device_payload st id) (fun st' => SessInv st -> SessInv st').
Proof.
  intros a H Hi. unfold handle_device_payload, link_get in H. okinv. all: frames_s.
  all: repeat match goal with F : Ksh _ _ |- _ => apply Ksh_inv in F; [|first [assumption | unfold SessInv in *; rsimpl; assumption]] end.
  all: auto.
Qed.

Global Instance fs_step st o : FrameS (step st o) (fun r => SessInv st -> SessInv (fst r)).
Proof.
  intros a H Hi. unfold step in H. destruct o; okinv. all: frames_s.
  all: repeat match goal with F : Ksh _ _ |- _ => apply Ksh_inv in F; [|first [assumption | unfold SessInv in *; rsimpl; assumption]] end.
  all: rsimpl; auto.
  all: unfold SessInv in *; rsimpl; assumption.
Qed.

Global Instance fs_step_with st orc o : FrameS (step_with st orc o) (fun r => SessInv st -> SessInv (fst r)).
Proof. intros a H Hi. unfold step_with in H. okinv. frames_s. rsimpl. apply F. exact Hi. Qed.

Lemma init_SessInv cfg st : init cfg = Ok st -> SessInv st.
Proof. unfold init. intros H. okinv. unfold SessInv, slab_ok. rsimpl. cbn. repeat split; constructor. Qed.

Lemma reachable_SessInv cfg st : reachable cfg st -> SessInv st.
Proof.
  apply reachable_inv.
  - apply init_SessInv.
  - intros s orc o s' out Hs H. frames_s. auto.
Qed.
