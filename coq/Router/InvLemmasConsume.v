(** wp-specifications of forward_device_data, ack_device_data, consume_loop, consume. *)
From Rumqtt Require Import Router.Inv Router.InvLemmasPrim Router.InvLemmasSched Router.InvLemmasDl
  Router.InvLemmasRoute Router.NoPanicLog.
From Coq Require Import Arith ZifyBool ZifyN ZifyNat.

Lemma lenN_firstnN {X} (l : list X) : forall n, lenN (firstnN n l) <= n.
Proof.
  induction l as [|x l IH]; intros n; cbn [firstnN]; [unfold lenN; cbn; lia|].
  destruct (N.eqb_spec n 0); [unfold lenN; cbn; lia|]. rewrite lenN_cons'. specialize (IH (n - 1)). lia.
Qed.

Lemma alias_forwards_len qos subid l : forall bal, length (snd (alias_forwards bal qos subid l)) = length l.
Proof.
  induction l as [|[[c p] pr] l IH]; intros bal; cbn [alias_forwards]; [reflexivity|].
  destruct (match bal with Some b => _ | None => _ end) as [[bal1 p2] pr1].
  specialize (IH bal1). destruct (alias_forwards bal1 qos subid l) as [bal2 r']. cbn [snd length] in *. now rewrite IH.
Qed.

Lemma number_forwards_spec fidx fw : forall o,
  o_client (fst (number_forwards o fidx fw)) = o_client o /\
  o_link (fst (number_forwards o fidx fw)) = o_link o /\
  lenN (o_inflight (fst (number_forwards o fidx fw))) = lenN (o_inflight o) + lenN fw.
Proof.
  induction fw as [|[[c p] pr] fw IH]; intros o; cbn [number_forwards].
  - cbn [fst]. unfold lenN. cbn. repeat split; lia.
  - match goal with |- context [number_forwards ?o1 fidx fw] => specialize (IH o1); destruct (number_forwards o1 fidx fw) as [o2 ns] end.
    cbn [fst o_client o_link o_inflight] in *. destruct IH as (H1 & H2 & H3).
    rewrite H3, lenN_app', !lenN_cons'. unfold lenN. cbn [length]. repeat split; auto; lia.
Qed.

Lemma oracle_only_inv cfg st st' :
  RInvC cfg st -> oracle_only st st' ->
  RInvC cfg st' /\ fr st st' /\ r_conns st' = r_conns st /\ r_obufs st' = r_obufs st /\
  r_links st' = r_links st /\ r_groups st' = r_groups st /\ r_datalog st' = r_datalog st.
Proof.
  intros HI [-> | [orc ->]].
  - split; [exact HI|]. split; [apply fr_refl|]. repeat split.
  - split; [apply RInv_set_oracle; exact HI|]. split; [frame_tac|]. repeat split.
Qed.

Lemma update_next_client_spec cfg st g :
  g_clients g <> [] ->
  wp cfg (update_next_client st g) (fun r => oracle_only st (fst r) /\ g_clients (snd r) = g_clients g).
Proof.
  intros Hne. unfold update_next_client.
  assert (Hn : (lenN (g_clients g) =? 0) = false).
  { destruct (g_clients g); [congruence|]. rewrite lenN_cons'. lia. }
  rewrite Hn. destruct (g_strategy g).
  - cbn [wp fst snd]. split; [left; reflexivity|reflexivity].
  - destruct (r_oracle st) as [|[| |i] orc]; cbn [wp]; auto.
    destruct (i <? lenN (g_clients g)); cbn [wp fst snd]; auto. split; [right; eauto|reflexivity].
  - cbn [wp fst snd]. split; [left; reflexivity|reflexivity].
Qed.

Lemma readv_spec' cfg (l : log pubdata) all c n :
  WF pubdata_size l all ->
  wp cfg (readv l c n) (fun r => lenN (snd r) <= n).
Proof.
  intros [H _]. destruct (lw_readv pubdata_size l all c n H) as [(pos & out & Hr & Hl) | Hp]; [rewrite Hr|rewrite Hp]; cbn [wp snd]; auto.
  apply okp_add.
Qed.

Definition rq_same (a b : drequest) : Prop := dr_idx a = dr_idx b /\ dr_qos a = dr_qos b.

(** forward_device_data after the retained messages have been read *)
Lemma fdd_rest cfg st1 id o conn (sg : option (str * group)) rq1 retained slots2 :
  RInvC cfg st1 -> slab_get (r_obufs st1) id = Some o -> slab_get (r_conns st1) id = Some conn ->
  req_ok (nlen st1) rq1 ->
  ((dr_qos rq1 =? 0) = false -> lenN (o_inflight o) + lenN retained + slots2 <= MAX_INFLIGHT) ->
  wp cfg
   (do d <- native_get (r_datalog st1) (dr_idx rq1);
    do (pos, from_log) <- readv (d_log d) (dr_cursor rq1) slots2;
    let publishes : list (option cursor * publish * option pprops) :=
      map (fun x : pubdata => (None, fst x, snd x)) retained
      ++ map (fun x : pubdata * cursor => (Some (snd x), fst (fst x), snd (fst x))) from_log in
    let '(start, next, caughtup) := match pos with
                                    | Next s e => (s, e, false)
                                    | Done s e => (s, e, true)
                                    end in
    let skip := match sg with
                | Some (_, g) => negb (ostr_eqb (Some (o_client o)) (current_client g))
                | None => false
                end in
    if skip then Ok (st1, rq1, if caughtup && match publishes with [] => true | _ => false end
                               then FilterCaughtup else SkipRequest)
    else
      let rq2 := {| dr_filter := dr_filter rq1; dr_idx := dr_idx rq1; dr_qos := dr_qos rq1;
                    dr_cursor := next; dr_read := dr_read rq1 + lenN publishes;
                    dr_fwd_retained := dr_fwd_retained rq1; dr_group := dr_group rq1 |} in
      match publishes with
      | [] => Ok (st1, rq2, FilterCaughtup)
      | _ =>
          let subid := al_get str_eqb (dr_filter rq2) (c_subids conn) in
          if 2 <? dr_qos rq2 then Panic P_QOS
          else
            let '(bal, forwards) := alias_forwards (c_baliases conn) (dr_qos rq2) subid publishes in
            let conn1 := set_c_baliases conn bal in
            let st2 := put_conn st1 id conn1 in
            let '(o1, notifs) :=
              if dr_qos rq2 =? 0
              then (o, map (fun x : option cursor * publish * option pprops =>
                              let '(c, p, pr) := x in NForward c p pr) forwards)
              else number_forwards o (dr_idx rq2) forwards in
            let st3 := put_obuf st2 id o1 in
            do (st4, len) <- push_out st3 (o_link o1) notifs;
            do st5 <-
              (match sg with
               | Some (name, _) =>
                   match al_get str_eqb name (r_groups st4) with
                   | Some g =>
                       do (st', g') <- update_next_client st4 g;
                       Ok (set_r_groups st' (al_set str_eqb name (set_g_cursor g' (dr_cursor rq2)) (r_groups st')))
                   | None => Ok st4
                   end
               | None => Ok st4
               end);
            if MAX_CHANNEL_CAPACITY - 1 <=? len then
              do (st6, _) <- push_out st5 (o_link o1) [NUnschedule];
              Ok (st6, rq2, BufferFull)
            else
              Ok (st5, rq2, if caughtup then FilterCaughtup else PartialRead)
      end)
   (fun r => RInvC cfg (fst (fst r)) /\ fr st1 (fst (fst r)) /\ req_ok (nlen (fst (fst r))) (snd (fst r))).
Proof.
  intros HI Hob Hc Hrq Hsl.
  destruct (native_get_ok _ _ _ (ri_dl _ _ HI) (proj2 Hrq)) as (d & Hd & _ & [[all Hwf] _]).
  rewrite Hd. cbn [bind]. apply wp_bind. wp_use readv_spec'; [exact Hwf|].
  intros [pos from_log] Hlen. cbn [snd] in Hlen. cbv zeta.
  set (publishes := map (fun x : pubdata => (None, fst x, snd x)) retained
      ++ map (fun x : pubdata * cursor => (Some (snd x), fst (fst x), snd (fst x))) from_log).
  assert (Hpl : lenN publishes <= lenN retained + slots2).
  { unfold publishes. rewrite lenN_app', !lenN_map. lia. }
  destruct (match pos with Next s e => (s, e, false) | Done s e => (s, e, true) end) as [[start next] caughtup].
  match goal with |- wp _ (if ?b then _ else _) _ => destruct b end.
  { cbn [wp fst snd]. auto with rinv. }
  match goal with |- context [Ok (st1, ?r, FilterCaughtup)] => set (rq2 := r) end.
  assert (Hrq2 : req_ok (nlen st1) rq2) by exact Hrq.
  destruct publishes as [|pb publishes'] eqn:Epub.
  { cbn [wp fst snd]. auto with rinv. }
  rewrite <- Epub in *. clear Epub.
  assert (Hq2 : (2 <? dr_qos rq2) = false) by (destruct Hrq2 as [Hq _]; lia).
  rewrite Hq2.
  pose proof (alias_forwards_len (dr_qos rq2) (al_get str_eqb (dr_filter rq2) (c_subids conn)) publishes (c_baliases conn)) as Hfl.
  destruct (alias_forwards (c_baliases conn) (dr_qos rq2) (al_get str_eqb (dr_filter rq2) (c_subids conn)) publishes) as [bal forwards].
  cbn [snd] in Hfl.
  set (st2 := put_conn st1 id (set_c_baliases conn bal)).
  assert (HI2 : RInvC cfg st2) by (eapply RInv_put_conn; eauto).
  set (on := if dr_qos rq2 =? 0
             then (o, map (fun x : option cursor * publish * option pprops => let '(c, p, pr) := x in NForward c p pr) forwards)
             else number_forwards o (dr_idx rq2) forwards).
  assert (Hon : o_client (fst on) = o_client o /\ o_link (fst on) = o_link o /\ lenN (o_inflight (fst on)) <= MAX_INFLIGHT).
  { unfold on. destruct (dr_qos rq2 =? 0) eqn:Eq.
    - cbn [fst]. split; [reflexivity|]. split; [reflexivity|]. apply (ri_obuf _ _ HI _ _ Hob).
    - destruct (number_forwards_spec (dr_idx rq2) forwards o) as (A & B & C). split; [exact A|]. split; [exact B|].
      rewrite C. specialize (Hsl Eq). unfold lenN in *. lia. }
  destruct on as [o1 notifs]. cbn [fst] in Hon. destruct Hon as (Hoc & Hol & Hoi).
  set (st3 := put_obuf st2 id o1).
  assert (HI3 : RInvC cfg st3) by (eapply (RInv_put_obuf cfg st2 id o); eauto).
  assert (Hlk : o_link o1 < lenN (r_links st3)).
  { rewrite Hol. apply (ri_obuf _ _ HI _ _ Hob). }
  destruct (push_out_eq st3 (o_link o1) notifs Hlk) as (b & Hb & Hp). rewrite Hp. cbn [bind].
  set (st4 := link_put st3 (o_link o1) (set_lk_out b (lk_out b ++ notifs))).
  assert (HI4 : RInvC cfg st4).
  { apply RInv_link_put; [exact HI3|]. cbn [set_lk_out lk_in].
    exact (Forall_nthN (fun b => Forall packet_wf (lk_in b)) _ _ _ (ri_pkts _ _ HI3) Hb). }
  assert (F4 : fr st1 st4) by (unfold st4, st3, st2; frame_tac).
  assert (Hlk4 : lenN (r_links st4) = lenN (r_links st1)).
  { unfold st4, st3, st2. rsimp. apply lenN_setN. }
  apply wp_bind.
  assert (H5 : wp cfg
     (match sg with
      | Some (name, _) =>
          match al_get str_eqb name (r_groups st4) with
          | Some g =>
              do (st', g') <- update_next_client st4 g;
              Ok (set_r_groups st' (al_set str_eqb name (set_g_cursor g' (dr_cursor rq2)) (r_groups st')))
          | None => Ok st4
          end
      | None => Ok st4
      end) (fun st5 => RInvC cfg st5 /\ fr st4 st5 /\ r_links st5 = r_links st4)).
  { destruct sg as [[name g0]|]; [|cbn [wp]; auto with rinv].
    destruct (al_get str_eqb name (r_groups st4)) as [g|] eqn:Eg; [|cbn [wp]; auto with rinv].
    pose proof (al_get_Forall_snd _ (fun g => g_clients g <> []) _ _ _ (ri_groups _ _ HI4) Eg) as Hgne.
    apply wp_bind. wp_use update_next_client_spec; [exact Hgne|]. intros [st' g'] [Hoo Hg']. cbn [fst snd] in *.
    destruct (oracle_only_inv _ _ _ HI4 Hoo) as (HI' & F' & _ & _ & Hl' & Hgr' & _).
    cbn [wp]. split; [|split; [|exact Hl']].
    - apply RInv_set_groups; [exact HI'|].
      apply (Forall_al_set str_eqb (fun g => g_clients g <> [])); [apply (ri_groups _ _ HI')|].
      cbn [set_g_cursor g_clients]. congruence.
    - eapply fr_trans; [exact F'|]. frame_tac. }
  eapply wp_mono; [exact H5|]. cbn beta. intros st5 (HI5 & F5 & L5).
  assert (F15 : fr st1 st5) by (eapply fr_trans; eauto).
  assert (Hrq5 : req_ok (nlen st5) rq2) by (eapply ext_req; [apply fr_ext; exact F15|exact Hrq2]).
  destruct (MAX_CHANNEL_CAPACITY - 1 <=? lenN (lk_out b ++ notifs)).
  - assert (Hlk5 : o_link o1 < lenN (r_links st5)).
    { rewrite L5, Hlk4, Hol. apply (ri_obuf _ _ HI _ _ Hob). }
    destruct (push_out_eq st5 (o_link o1) [NUnschedule] Hlk5) as (b5 & Hb5 & Hp5). rewrite Hp5. cbn [bind wp fst snd].
    split; [|split].
    + apply RInv_link_put; [exact HI5|]. cbn [set_lk_out lk_in].
      exact (Forall_nthN (fun b => Forall packet_wf (lk_in b)) _ _ _ (ri_pkts _ _ HI5) Hb5).
    + eapply fr_trans; [exact F15|]. frame_tac.
    + exact Hrq5.
  - cbn [wp fst snd]. auto.
Qed.

Lemma forward_device_data_spec cfg st id rq :
  RInvC cfg st -> occ (lives st) id -> req_ok (nlen st) rq ->
  wp cfg (forward_device_data st id rq)
     (fun r => RInvC cfg (fst (fst r)) /\ fr st (fst (fst r)) /\ req_ok (nlen (fst (fst r))) (snd (fst r))).
Proof.
  intros HI Ho Hrq. destruct (live_gets _ _ _ HI Ho) as (c & i & o & a & t & Hc & Hi & Hob & Ha & Ht).
  unfold forward_device_data. rewrite (get_obuf_ok _ _ _ Hob). cbn [bind]. rewrite Hc. cbn [bind].
  set (sg := match dr_group rq with
             | Some name => match al_get str_eqb name (r_groups st) with
                            | Some g => Some (name, g)
                            | None => None
                            end
             | None => None
             end).
  cbv zeta.
  set (rq0 := match sg with Some (_, g) => set_dr_cursor rq (g_cursor g) | None => rq end).
  assert (Hrq0 : req_ok (nlen st) rq0) by (unfold rq0; destruct sg as [[? ?]|]; exact Hrq).
  pose proof (ri_obuf _ _ HI _ _ Hob) as [_ Hinfl].
  apply wp_bind.
  assert (H0 : wp cfg (if negb (dr_qos rq0 =? 0) then free_slots o else Ok (cf_max_outgoing (r_cfg st)))
                 (fun slots0 => (dr_qos rq0 =? 0) = false -> slots0 = MAX_INFLIGHT - lenN (o_inflight o))).
  { destruct (dr_qos rq0 =? 0); cbn [negb wp]; [discriminate|].
    unfold free_slots. cbv zeta. destruct (N.leb_spec (lenN (o_inflight o)) MAX_INFLIGHT); [cbn [wp]; auto|lia]. }
  eapply wp_mono; [exact H0|]. cbn beta. intros slots0 Hs0.
  destruct (negb (dr_qos rq0 =? 0) && (slots0 =? 0)) eqn:Efull.
  { cbn [wp fst snd]. auto with rinv. }
  set (slots1 := match sg with
                 | Some (_, g) => match g_strategy g with RoundRobin => 1 | _ => slots0 end
                 | None => slots0
                 end).
  assert (Hs1 : (dr_qos rq0 =? 0) = false -> slots1 <= slots0).
  { intros Eq. rewrite Eq in Efull. cbn [negb andb] in Efull. unfold slots1.
    destruct sg as [[? g]|]; [|lia]. destruct (g_strategy g); lia. }
  apply wp_bind.
  assert (H1 : wp cfg
     (if dr_fwd_retained rq0 then
        do (st', rs) <- read_retained st (dr_filter rq0);
        let rs' := firstnN slots1 rs in
        Ok (st', set_dr_fwd_retained rq0 false, rs', slots1 - lenN rs')
      else Ok (st, rq0, [], slots1))
     (fun r => oracle_only st (fst (fst (fst r))) /\ rq_same (snd (fst (fst r))) rq0 /\
               lenN (snd (fst r)) + snd r <= slots1)).
  { destruct (dr_fwd_retained rq0).
    - apply wp_bind. wp_use read_retained_spec. intros [st' rs] Hoo. cbn [fst] in Hoo. cbn [wp fst snd].
      split; [exact Hoo|]. split; [split; reflexivity|]. pose proof (lenN_firstnN rs slots1). lia.
    - cbn [wp fst snd]. split; [left; reflexivity|]. split; [split; reflexivity|]. unfold lenN. cbn. lia. }
  eapply wp_mono; [exact H1|]. cbn beta. intros [[[st1 rq1] retained] slots2] (Hoo & [Hsi Hsq] & Hrs). cbn [fst snd] in *.
  destruct (oracle_only_inv _ _ _ HI Hoo) as (HI1 & F1 & Ec1 & Eo1 & El1 & Eg1 & Ed1).
  assert (Hrq1 : req_ok (nlen st1) rq1).
  { destruct Hrq0 as [A B]. split; [lia|]. rewrite Hsi. destruct F1 as [[_ X] _]. lia. }
  wp_use (fdd_rest cfg st1 id o c sg rq1 retained slots2); auto.
  - congruence.
  - congruence.
  - rewrite Hsq. intros Eq. specialize (Hs0 Eq). specialize (Hs1 Eq). lia.
  - intros r (A & B & C). split; [exact A|]. split; [eapply fr_trans; eauto|exact C].
Qed.

Lemma ack_device_data_spec cfg st id o :
  RInvC cfg st -> slab_get (r_obufs st) id = Some o ->
  wp cfg (ack_device_data st id o) (fun st' => RInvC cfg st' /\ fr st st').
Proof.
  intros HI Hob. destruct (RInv_obuf_live _ _ _ _ HI Hob) as [c Hc].
  destruct (RInv_live_all _ _ _ _ HI Hc) as (ib & o' & ak & trk & Hi & Ho' & Ha & Ht).
  unfold ack_device_data. rewrite (get_acks_ok _ _ _ Ha). cbn [bind].
  destruct (a_committed ak) as [|a0 acks] eqn:Eacks; [cbn [wp]; auto with rinv|].
  set (st1 := put_acks st id (set_a_committed ak [])).
  assert (HI1 : RInvC cfg st1) by (eapply RInv_put_acks; eauto).
  assert (Hlk : o_link o < lenN (r_links st1)) by apply (ri_obuf _ _ HI _ _ Hob).
  destruct (push_out_eq st1 (o_link o) (map NAck (a0 :: acks)) Hlk) as (b & Hb & Hp). rewrite Hp. cbn [bind wp].
  split.
  - apply RInv_link_put; [exact HI1|]. cbn [set_lk_out lk_in].
    exact (Forall_nthN (fun b => Forall packet_wf (lk_in b)) _ _ _ (ri_pkts _ _ HI1) Hb).
  - unfold st1. frame_tac.
Qed.

Lemma consume_loop_spec cfg id : forall fuel st requests skipped init,
  RInvC cfg st -> occ (lives st) id -> r_ready st = init ++ [id] -> r_notif st = [] ->
  Forall (req_ok (nlen st)) requests -> Forall (req_ok (nlen st)) skipped ->
  wp cfg (consume_loop fuel st id requests skipped) (fun st' => RInvC cfg st' /\ r_notif st' = []).
Proof.
  induction fuel as [|fuel IH]; intros st requests skipped init HI Ho Hr Hn Hrq Hsk; cbn [consume_loop].
  - wp_use trackv_spec; [exact HI|exact Ho|apply Forall_app; auto|].
    intros st' [HI' (_ & _ & N')]. split; [exact HI'|congruence].
  - destruct requests as [|rq rest].
    + apply wp_bind.
      assert (H1 : wp cfg (match skipped with [] => pause st id Caughtup | _ :: _ => Ok st end)
                      (fun st1 => RInvC cfg st1 /\ ext st st1 /\ r_notif st1 = r_notif st)).
      { destruct skipped; [eapply pause_spec; eauto|cbn [wp]; auto with rinv]. }
      eapply wp_mono; [exact H1|]. cbn beta. intros st1 (HI1 & E1 & N1).
      wp_use trackv_spec; [exact HI1|eapply ext_occ; eauto|eapply ext_reqs; eauto|].
      intros st' [HI' (_ & _ & N')]. split; [exact HI'|congruence].
    + inversion Hrq as [|? ? Hrq1 Hrest]; subst.
      apply wp_bind. wp_use forward_device_data_spec; [exact HI|exact Ho|exact Hrq1|].
      intros [[st1 rq'] status] (HI1 & F1 & Hrq'). cbn [fst snd] in *.
      pose proof (fr_ext _ _ F1) as E1. destruct F1 as (_ & R1 & N1).
      assert (Ho1 : occ (lives st1) id) by (eapply ext_occ; eauto).
      assert (Hrest1 : Forall (req_ok (nlen st1)) rest) by (eapply ext_reqs; eauto).
      assert (Hsk1 : Forall (req_ok (nlen st1)) skipped) by (eapply ext_reqs; eauto).
      assert (Hall : Forall (req_ok (nlen st1)) ((rest ++ [rq']) ++ skipped)).
      { apply Forall_app. split; [|exact Hsk1]. apply Forall_app. split; [exact Hrest1|]. constructor; [exact Hrq'|constructor]. }
      destruct status.
      * apply wp_bind. wp_use pause_spec; [exact HI1|exact Ho1|rewrite R1; exact Hr|]. intros st2 (HI2 & E2 & N2).
        wp_use trackv_spec; [exact HI2|eapply ext_occ; eauto|eapply ext_reqs; eauto|].
        intros st' [HI' (_ & _ & N')]. split; [exact HI'|congruence].
      * apply wp_bind. wp_use pause_spec; [exact HI1|exact Ho1|rewrite R1; exact Hr|]. intros st2 (HI2 & E2 & N2).
        wp_use trackv_spec; [exact HI2|eapply ext_occ; eauto|eapply ext_reqs; eauto|].
        intros st' [HI' (_ & _ & N')]. split; [exact HI'|congruence].
      * apply wp_bind. wp_use park_spec; [exact HI1|exact Ho1|exact Hrq'|]. intros st2 [HI2 F2].
        pose proof (fr_ext _ _ F2) as E2. destruct F2 as (_ & R2 & N2).
        apply (IH st2 rest skipped init); [exact HI2|eapply ext_occ; eauto|congruence|congruence|eapply ext_reqs; eauto|eapply ext_reqs; eauto].
      * apply (IH st1 (rest ++ [rq']) skipped init); [exact HI1|exact Ho1|congruence|congruence| |exact Hsk1].
        apply Forall_app. split; [exact Hrest1|]. constructor; [exact Hrq'|constructor].
      * apply (IH st1 rest (skipped ++ [rq']) init); [exact HI1|exact Ho1|congruence|congruence|exact Hrest1|].
        apply Forall_app. split; [exact Hsk1|]. constructor; [exact Hrq'|constructor].
Qed.

Lemma consume_spec cfg st :
  RInvC cfg st -> r_notif st = [] ->
  wp cfg (consume st) (fun r => RInvC cfg (fst r) /\ r_notif (fst r) = []).
Proof.
  intros HI Hn. unfold consume. destruct (r_ready st) as [|id rq] eqn:Er; [cbn [wp fst]; auto|].
  cbv zeta. cbn [r_trackers set_r_ready].
  destruct (slab_get (r_trackers st) id) as [t|] eqn:Ht.
  - set (st1 := put_tracker (set_r_ready st rq) id (set_tr_reqs t [])).
    assert (HI1 : RInvC cfg st1).
    { eapply RInv_put_tracker; [apply RInv_set_ready; exact HI|exact Ht|reflexivity|constructor]. }
    set (st2 := set_r_ready st1 (r_ready st1 ++ [id])).
    assert (HI2 : RInvC cfg st2) by (apply RInv_set_ready; exact HI1).
    destruct (RInv_trk_live _ _ _ _ HI Ht) as [c Hc].
    destruct (RInv_live_all _ _ _ _ HI Hc) as (ib & o & ak & trk & Hi & Hob & Ha & _).
    assert (Hob2 : slab_get (r_obufs st2) id = Some o) by exact Hob.
    rewrite Hob2.
    apply wp_bind. wp_use ack_device_data_spec; [exact HI2|exact Hob2|]. intros st3 [HI3 F3].
    pose proof (fr_ext _ _ F3) as E3. destruct F3 as (_ & R3 & N3).
    assert (Ho2 : occ (lives st2) id) by (eapply get_occ; exact Hc).
    assert (Ho3 : occ (lives st3) id) by (eapply ext_occ; eauto).
    apply occ_get in Ho3. destruct Ho3 as [c3 Hc3]. unfold lives in Hc3. rewrite Hc3. cbn [bind].
    apply wp_bind.
    wp_use (consume_loop_spec cfg id (N.to_nat MAX_SCHEDULE_ITERATIONS) st3 (tr_reqs t) [] rq).
    + exact HI3.
    + eapply get_occ; exact Hc3.
    + rewrite R3. reflexivity.
    + rewrite N3. exact Hn.
    + eapply ext_reqs; [exact E3|]. apply (ri_trk _ _ HI _ _ Ht).
    + constructor.
    + intros st4 [HI4 N4]. cbn [wp fst]. auto.
  - cbn [wp fst]. split; [apply RInv_set_ready; exact HI|exact Hn].
Qed.
