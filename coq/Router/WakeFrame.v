(** RInv 3, part 2: the wake-up discipline through the packet handlers (everything a DeviceData
    event, a Connect, a Disconnect, a will or a shadow request does). *)
From Coq Require Import List ZifyBool ZifyN ZifyNat.
From Rumqtt Require Import Router.WindowFrame Router.IsolationFrame Router.IsolationWake Router.Wake.
From Rumqtt Require Import Router.Model Router.RunDefs.
Import ListNotations.

(* ------------------------------------------------------------------ functions outside the view *)
Lemma dl_matches_wv st t st' v : dl_matches st t = Ok (st', v) -> wview st' = wview st.
Proof. unfold dl_matches. intros H. break_all H; inv_ok; reflexivity. Qed.
Lemma next_native_offset_wv st f st' i c : next_native_offset st f = Ok (st', i, c) -> wview st' = wview st.
Proof. unfold next_native_offset. intros H. break_all H; inv_ok; reflexivity. Qed.
Lemma data_append_wv st i x st' : data_append st i x = Ok st' -> wview st' = wview st.
Proof. unfold data_append. intros H. break_all H; inv_ok; reflexivity. Qed.
Lemma append_all_wv idxs : forall st x st', append_all st idxs x = Ok st' -> wview st' = wview st.
Proof.
  induction idxs as [| i r IH]; intros st x st' H; cbn [append_all] in H; [now inv_ok |].
  apply bind_ok in H as (st1 & H1 & H2). apply data_append_wv in H1. apply IH in H2. congruence.
Qed.
Lemma retain_update_wv st t p pr : wview (retain_update st t p pr) = wview st.
Proof. unfold retain_update. destruct (p_retain p); [destruct (p_payload p) |]; reflexivity. Qed.
Lemma park_wv st id rq st' : park st id rq = Ok st' -> wview st' = wview st.
Proof. unfold park, native_get. intros H. break_all H; inv_ok; reflexivity. Qed.
Lemma remove_waiters_for_id_wv st id f st' : remove_waiters_for_id st id f = Ok st' -> wview st' = wview st.
Proof. unfold remove_waiters_for_id. intros H. inv_ok. reflexivity. Qed.
Lemma read_retained_wv st f st' l : read_retained st f = Ok (st', l) -> wview st' = wview st.
Proof. unfold read_retained. intros H. break_all H; inv_ok; reflexivity. Qed.
Lemma update_next_client_wv st g st' g' : update_next_client st g = Ok (st', g') -> wview st' = wview st.
Proof. unfold update_next_client. intros H. break_all H; inv_ok; reflexivity. Qed.

Lemma append_to_commitlog_wv st id p props st' res :
  append_to_commitlog st id p props = Ok (st', res) -> wview st' = wview st.
Proof.
  unfold append_to_commitlog, get_conn. intros H. break_all H; inv_ok;
  repeat match goal with
         | E : dl_matches _ _ = Ok _ |- _ => apply dl_matches_wv in E
         | E : append_all _ _ _ = Ok _ |- _ => apply append_all_wv in E
         end;
  try reflexivity; rewrite ?retain_update_wv in *; unfold wview in *; rsimpl; congruence.
Qed.

(* ------------------------------------------------------------------ tracker updates *)
(** replacing the tracker of [id] by one with the same status, and the same requests unless it
    is not [Paused Caughtup] *)
Lemma put_tracker_wake f st owed id t t' :
  WakeG f st owed -> slab_get (r_trackers st) id = Some t ->
  tr_status t' = tr_status t ->
  (tr_status t = Paused Caughtup -> tr_reqs t = [] -> tr_reqs t' = []) ->
  WakeG f (put_tracker st id t') owed.
Proof.
  intros HW G ES ER. eapply WakeG_upd; [exact HW | apply wfr_put_tracker | intros; apply mode_le_refl |].
  intros t2 G1. rsimpl. rewrite (slab_get_put_occ _ _ _ _ G) in G1. inversion G1; subst t2.
  specialize (HW id t G). revert HW. unfold wake_ok. rsimpl. rewrite ES.
  destruct (f id); auto; destruct (tr_status t) as [| [ | | ]]; auto; intros [H1 H2]; split; auto.
Qed.

Lemma untrack_wake f st owed id flt st' : WakeG f st owed -> untrack st id flt = Ok st' -> WakeG f st' owed.
Proof.
  unfold untrack, get_tracker. intros HW H. destruct (slab_get (r_trackers st) id) as [t |] eqn:G; [| discriminate].
  cbn [bind] in H. inv_ok. eapply put_tracker_wake; eauto. cbn [tr_reqs set_tr_reqs]. now intros _ ->.
Qed.

(** [track] followed by the [reschedule] that belongs to it (NewFilter in prepare_filter,
    FreshData in the drain of notifications) *)
Lemma track_resched_wake f st owed id rq why st1 st2 :
  WakeG f st owed -> track st id rq = Ok st1 -> reschedule st1 id why = Ok st2 ->
  wakes why Caughtup = true -> WakeG f st2 owed.
Proof.
  unfold track, get_tracker. intros HW H1 H2 HC.
  destruct (slab_get (r_trackers st) id) as [t |] eqn:G; [| discriminate]. cbn [bind] in H1. inv_ok.
  set (t1 := set_tr_reqs t (tr_reqs t ++ [rq])) in *.
  pose proof (reschedule_wfr _ _ _ _ H2) as F2.
  apply reschedule_explicit in H2 as (t1' & t' & woke & G' & HT & E). rsimpl.
  rewrite (slab_get_put_occ _ _ _ _ G) in G'. inversion G'; subst t1'. clear G'.
  eapply WakeG_upd; [exact HW | eapply wfr_trans; [apply (wfr_put_tracker id st t1) | exact F2] | intros; apply mode_le_refl |].
  intros t2 G1.
  assert (G1' : slab_get (r_trackers st2) id = Some t')
    by (subst st2; destruct woke; rsimpl; eapply slab_get_put_occ; eapply slab_get_put_occ; eauto).
  rewrite G1' in G1. inversion G1; subst t2. clear G1.
  specialize (HW id t G).
  assert (TR : wake_ok (f id) st2 owed id t).
  { eapply wake_ok_transfer; [| | | | exact HW]; subst st2; destruct woke; rsimpl; auto.
    intros X. apply in_or_app. now left. }
  destruct (tr_status t) as [| p] eqn:ES.
  - apply try_ready_cases in HT as (_ & _ & [[-> ->] | (_ & _ & C)]); [| cbn [tr_status set_tr_reqs t1] in C; congruence].
    revert TR. unfold wake_ok. cbn [t1 tr_status set_tr_reqs]. rewrite ES. auto.
  - destruct (wakes why p) eqn:W.
    + destruct (try_ready_wakes _ _ _ _ _ p HT ES W) as [-> ES']. subst st2. unfold wake_ok. rewrite ES'. rsimpl.
      destruct (f id); auto; apply in_or_app; right; now left.
    + assert (p <> Caughtup) by (intros ->; congruence).
      apply try_ready_cases in HT as (_ & _ & [[-> ->] | (-> & ES' & _)]).
      * revert TR. unfold wake_ok. cbn [t1 tr_status set_tr_reqs]. rewrite ES. destruct (f id); auto; destruct p; auto; congruence.
      * subst st2. unfold wake_ok. rewrite ES'. rsimpl. destruct (f id); auto; apply in_or_app; right; now left.
Qed.

Lemma wake_all_wake f owed ns : forall st st', WakeG f st owed -> wake_all st ns = Ok st' -> WakeG f st' owed.
Proof.
  induction ns as [| [id rq] r IH]; intros st st' HW H; cbn [wake_all] in H; [now inv_ok |].
  apply bind_ok in H as (st1 & H1 & H). apply bind_ok in H as (st2 & H2 & H).
  eapply IH; [| exact H]. eapply track_resched_wake; eauto.
Qed.

Lemma drain_notifications_wake f st owed st' :
  WakeG f st owed -> drain_notifications st = Ok st' -> WakeG f st' owed.
Proof.
  unfold drain_notifications. intros HW H. eapply wake_all_wake; [| exact H].
  eapply WakeG_wle; [| exact HW]. apply wle_view. reflexivity.
Qed.

(* ------------------------------------------------------------------ ack log / outgoing updates *)
Lemma put_acks_wake id m m' st owed a' :
  WakeG (only id m) st owed -> mode_le m m' -> mode_le MForce m' ->
  WakeG (only id m') (put_acks st id a') owed.
Proof.
  intros HW L1 L2. eapply WakeG_upd; [exact HW | apply wfr_put_acks | intros w Hw; rewrite !only_other by exact Hw; exact I |].
  rewrite only_same. intros t G1. rsimpl. specialize (HW id t G1). rewrite only_same in HW.
  assert (W2 : wake_ok m' st owed id t) by exact (wake_ok_weaken _ _ _ _ _ _ L1 HW).
  revert W2. unfold wake_ok. rsimpl. destruct m'; [contradiction | | auto].
  destruct (tr_status t) as [| [ | | ]]; auto. intros [H1 _]. auto.
Qed.

Lemma commit_ack_wake id m m' st owed a st' :
  WakeG (only id m) st owed -> commit_ack st id a = Ok st' -> mode_le m m' -> mode_le MForce m' ->
  WakeG (only id m') st' owed.
Proof.
  intros HW H L1 L2. apply commit_ack_spec in H as (l & G & ->). eapply put_acks_wake; eauto.
Qed.

(** an Outgoing with the same link and an inflight buffer that did not become empty *)
Lemma put_obuf_wake f st owed id o o' :
  WakeG f st owed -> slab_get (r_obufs st) id = Some o -> o_link o' = o_link o ->
  (o_inflight o <> [] -> o_inflight o' <> []) ->
  WakeG f (put_obuf st id o') owed.
Proof.
  intros HW G EL EI. eapply WakeG_upd; [exact HW | apply wfr_put_obuf | intros; apply mode_le_refl |].
  intros t G1. rsimpl. specialize (HW id t G1). revert HW. unfold wake_ok. rsimpl.
  rewrite (slab_get_put_occ _ _ _ _ G).
  destruct (f id); auto; destruct (tr_status t) as [| [ | | ]]; auto; intros H o2 E; inversion E; subst o2;
    specialize (H o G); rewrite ?EL; auto.
Qed.

Lemma WakeG_dead id m st st' owed : WakeG (only id m) st owed -> wfr id st st' -> WakeG (only id MDead) st' owed.
Proof.
  intros HW F. eapply WakeG_upd; [exact HW | exact F | intros w Hw; rewrite !only_other by exact Hw; exact I |].
  rewrite only_same. intros; exact I.
Qed.

(** the end of the PUBACK / PUBREC / PUBREL arms: something happened to [id]'s entries (inflight
    head popped, ack committed, logs appended), then [reschedule(IncomingAck)] *)
Lemma incoming_ack_wake id m st st1 owed st' :
  WakeG (only id m) st owed -> wfr id st st1 ->
  slab_get (r_trackers st1) id = slab_get (r_trackers st) id ->
  (In id (r_ready st) -> In id (r_ready st1)) ->
  (forall o1, slab_get (r_obufs st1) id = Some o1 ->
              exists o, slab_get (r_obufs st) id = Some o /\ o_link o1 = o_link o) ->
  reschedule st1 id SIncomingAck = Ok st' ->
  WakeG (only id m) st' owed.
Proof.
  intros HW F1 ET ER EO H. pose proof (reschedule_wfr _ _ _ _ H) as F2.
  apply reschedule_explicit in H as (t & t' & woke & G & HT & E).
  eapply WakeG_upd; [exact HW | eapply wfr_trans; eauto | intros; apply mode_le_refl |].
  rewrite only_same. intros t2 G1.
  assert (G1' : slab_get (r_trackers st') id = Some t')
    by (subst st'; destruct woke; rsimpl; eapply slab_get_put_occ; eauto).
  rewrite G1' in G1. inversion G1; subst t2. clear G1.
  rewrite ET in G. specialize (HW id t G). rewrite only_same in HW.
  destruct m; [| | exact I].
  all: destruct (tr_status t) as [| p] eqn:ES.
  all: try (apply try_ready_cases in HT as (_ & _ & [[-> ->] | (_ & _ & C)]); [| congruence];
            unfold wake_ok in *; rewrite ES in *; subst st'; rsimpl; auto).
  all: destruct (wakes SIncomingAck p) eqn:W;
    [ destruct (try_ready_wakes _ _ _ _ _ p HT ES W) as [-> ES']; subst st'; unfold wake_ok; rewrite ES'; rsimpl;
      apply in_or_app; right; now left |].
  all: destruct p; cbn [wakes] in W; try discriminate.
  all: apply try_ready_cases in HT as (_ & _ & [[-> ->] | (-> & ES' & _)]);
    [| subst st'; unfold wake_ok; rewrite ES'; rsimpl; apply in_or_app; right; now left ].
  all: subst st'; unfold wake_ok in *; rewrite ES in *; rsimpl; intros o1 G3;
    destruct (EO o1 G3) as (o & Go & EL); rewrite EL; destruct (HW o Go) as [X | X]; auto;
    left; apply (wf_out _ _ _ F1); exact X.
Qed.

(* ------------------------------------------------------------------ SUBSCRIBE / UNSUBSCRIBE *)
Lemma prepare_filter_wake f st owed id cu fidx path qos grp subid st' :
  WakeG f st owed -> prepare_filter st id cu fidx path qos grp subid = Ok st' -> WakeG f st' owed.
Proof.
  unfold prepare_filter, get_conn, dbg_no_dups. intros HW H. cbv zeta in H.
  apply bind_ok in H as (conn & _ & H).
  match type of H with context [put_conn ?s id ?c] => set (st2 := s) in *; set (conn1 := c) in * end.
  assert (W2 : forall c, WakeG f (put_conn st2 id c) owed)
    by (intros c; eapply WakeG_wle; [| exact HW]; apply wle_view; reflexivity).
  destruct (set_mem str_eqb path (c_subs conn1)); [inv_ok; apply W2 |].
  apply bind_ok in H as (st4 & H4 & H). apply bind_ok in H as (st5 & H5 & H). apply bind_ok in H as (u & _ & H). inv_ok.
  eapply track_resched_wake; [apply W2 | exact H4 | exact H5 | reflexivity].
Qed.

Lemma subscribe_filters_wake f owed id subid : forall fs st fl codes st' fl' codes',
  WakeG f st owed -> subscribe_filters st id fs subid fl codes = Ok (st', fl', codes') -> WakeG f st' owed.
Proof.
  induction fs as [| [path qos] r IH]; intros st fl codes st' fl' codes' HW H; cbn [subscribe_filters] in H.
  - now inv_ok.
  - destruct (negb (validate_subscription path)); [now inv_ok |].
    destruct (match extract_group path with Some (g, p) => (Some g, p) | None => (None, path) end) as [grp filter].
    destruct (match subid with Some 0 => true | _ => false end); [now inv_ok |].
    apply bind_ok in H as ([[st1 idx] cu] & H1 & H). apply bind_ok in H as (st2 & H2 & H).
    eapply IH; [| exact H]. eapply prepare_filter_wake; [| exact H2].
    eapply WakeG_wle; [| exact HW]. apply wle_view. eapply next_native_offset_wv; eauto.
Qed.

(** the flags a SUBSCRIBE loop returns: force_ack untouched, disconnect only ever set *)
Definition mode_of (fl : flags) : mode :=
  if f_disconnect fl then MDead else if f_force_ack fl then MForce else MStrict.

Lemma subscribe_filters_flags id subid : forall fs st fl codes st' fl' codes',
  subscribe_filters st id fs subid fl codes = Ok (st', fl', codes') -> mode_le (mode_of fl) (mode_of fl').
Proof.
  assert (D : forall fl r, mode_le (mode_of fl) (mode_of (fl_disc fl r))).
  { intros fl r. unfold mode_of. cbn [fl_disc f_disconnect f_force_ack]. destruct (f_disconnect fl), (f_force_ack fl); exact I. }
  induction fs as [| [path qos] r IH]; intros st fl codes st' fl' codes' H; cbn [subscribe_filters] in H.
  - inv_ok. apply mode_le_refl.
  - destruct (negb (validate_subscription path)); [inv_ok; apply D |].
    destruct (match extract_group path with Some (g, p) => (Some g, p) | None => (None, path) end) as [grp filter].
    destruct (match subid with Some 0 => true | _ => false end); [inv_ok; apply D |].
    apply bind_ok in H as ([[st1 idx] cu] & H1 & H). apply bind_ok in H as (st2 & H2 & H). eauto.
Qed.

Lemma unsubscribe_filters_wake f owed id client : forall fs st reasons st' reasons',
  WakeG f st owed -> unsubscribe_filters st id client fs reasons = Ok (st', reasons') -> WakeG f st' owed.
Proof.
  induction fs as [| flt r IH]; intros st reasons st' reasons' HW H; cbn [unsubscribe_filters] in H.
  - now inv_ok.
  - cbv zeta in H.
    destruct (negb _) in H; [eapply IH; eauto |].
    match type of H with context [get_conn ?s id] => remember s as st1 eqn:Est1 end.
    assert (W1 : WakeG f st1 owed).
    { eapply WakeG_wle; [| exact HW]. apply wle_view. subst st1. destruct (al_get str_eqb flt (r_submap st)); reflexivity. }
    clear Est1 HW.
    apply bind_ok in H as (conn & H1 & H).
    destruct (negb _) in H; [eapply IH; eauto |].
    apply bind_ok in H as (st4 & H4 & H). apply bind_ok in H as (st5 & H5 & H).
    eapply IH; [| exact H].
    apply (WakeG_wle f st5); [apply wle_view; reflexivity |].
    apply (WakeG_wle f st4); [apply wle_view; eapply remove_waiters_for_id_wv; eauto |].
    eapply untrack_wake; [| exact H4].
    eapply WakeG_wle; [| exact W1]. apply wle_view. reflexivity.
Qed.

(* ------------------------------------------------------------------ one packet *)
Lemma mode_of_ack fl : mode_le (mode_of fl) (mode_of (fl_ack fl)) /\ mode_le MForce (mode_of (fl_ack fl)).
Proof. unfold mode_of. cbn [fl_ack f_disconnect f_force_ack]. destruct (f_disconnect fl), (f_force_ack fl); split; exact I. Qed.
Lemma mode_of_data fl : mode_of (fl_data fl) = mode_of fl.
Proof. reflexivity. Qed.
Lemma mode_of_disc fl r : mode_of (fl_disc fl r) = MDead.
Proof. reflexivity. Qed.
Lemma mode_le_dead m : mode_le m MDead. Proof. now destruct m. Qed.
Lemma mode_le_trans a b c : mode_le a b -> mode_le b c -> mode_le a c.
Proof. destruct a, b, c; cbn; tauto. Qed.

Lemma WakeG_only_le id m m' st owed : mode_le m m' -> WakeG (only id m) st owed -> WakeG (only id m') st owed.
Proof. intros L. apply WakeG_weaken. now apply only_le. Qed.

Lemma register_ack_link o pkid o' ok : register_ack o pkid = (o', ok) -> o_link o' = o_link o.
Proof. unfold register_ack. intros H. destruct (o_inflight o) as [| [[h x] y] r]; [| destruct (pkid =? h)]; inv_ok; reflexivity. Qed.

Lemma get_obuf_some st id o : get_obuf st id = Ok o -> slab_get (r_obufs st) id = Some o.
Proof. unfold get_obuf. destruct (slab_get (r_obufs st) id); intros H; inv_ok; [reflexivity | discriminate]. Qed.

Lemma handle_packet_wake st owed id client pk fl st' fl' brk :
  WakeG (only id (mode_of fl)) st owed ->
  handle_packet st id client pk fl = Ok (st', fl', brk) ->
  WakeG (only id (mode_of fl')) st' owed.
Proof.
  intros HW H. destruct pk as [p props | pkid fs subid | pkid fs | pkid | pkid | pkid hp | pkid | | |]; cbn [handle_packet] in H.
  - (* PUBLISH *)
    assert (DA : forall st0 fl0 st1 fl1 b, WakeG (only id (mode_of fl0)) st0 owed ->
               (do (s1, res) <- append_to_commitlog st0 id p props;
                match res with
                | AppOk => Ok (s1, fl_data fl0, false)
                | AppErr reason => Ok (s1, fl_disc fl0 reason, true)
                end) = Ok (st1, fl1, b) -> WakeG (only id (mode_of fl1)) st1 owed).
    { intros st0 fl0 st1 fl1 b W0 E. apply bind_ok in E as ([s1 res] & E1 & E).
      apply append_to_commitlog_wv in E1.
      assert (W1 : WakeG (only id (mode_of fl0)) s1 owed) by (eapply WakeG_wle; [apply wle_view; exact E1 | exact W0]).
      destruct res; inv_ok; [exact W1 |]. rewrite mode_of_disc. eapply WakeG_only_le; [apply mode_le_dead | exact W1]. }
    destruct (p_qos p =? 1).
    + apply bind_ok in H as (st1 & H1 & H). eapply DA; [| exact H].
      destruct (mode_of_ack fl). eapply commit_ack_wake; eauto.
    + destruct (p_qos p =? 2).
      * unfold get_acks in H. destruct (slab_get (r_acks st) id) as [l |]; [| discriminate]. cbn [bind] in H. inv_ok.
        destruct (mode_of_ack fl). eapply put_acks_wake; eauto.
      * eapply DA; eauto.
  - (* SUBSCRIBE *)
    apply bind_ok in H as ([[st1 fl1] codes] & H1 & H). apply bind_ok in H as (st2 & H2 & H). inv_ok.
    pose proof (subscribe_filters_flags _ _ _ _ _ _ _ _ _ H1) as L.
    destruct (mode_of_ack fl1) as [L1 L2].
    eapply (commit_ack_wake id (mode_of fl)); [| exact H2 | exact (mode_le_trans _ _ _ L L1) | exact L2].
    eapply subscribe_filters_wake; eauto.
  - (* UNSUBSCRIBE *)
    apply bind_ok in H as (c & _ & H). apply bind_ok in H as ([st1 reasons] & H1 & H). apply bind_ok in H as (st2 & H2 & H). inv_ok.
    destruct (mode_of_ack fl) as [L1 L2].
    eapply (commit_ack_wake id (mode_of fl)); [| exact H2 | exact L1 | exact L2].
    eapply unsubscribe_filters_wake; eauto.
  - (* PUBACK *)
    apply bind_ok in H as (o & Ho & H). apply get_obuf_some in Ho.
    destruct (register_ack o pkid) as [o' ok] eqn:ER. pose proof (register_ack_link _ _ _ _ ER) as EL.
    destruct ok.
    + apply bind_ok in H as (st2 & H2 & H). inv_ok.
      eapply incoming_ack_wake; [exact HW | apply (wfr_put_obuf id st o') | reflexivity | auto | | exact H2].
      intros o1 G1. rsimpl. rewrite (slab_get_put_occ _ _ _ _ Ho) in G1. inversion G1; subst o1. eauto.
    + inv_ok. rewrite mode_of_disc. eapply WakeG_dead; [exact HW | apply wfr_put_obuf].
  - (* PUBREC *)
    apply bind_ok in H as (o & Ho & H). apply get_obuf_some in Ho.
    destruct (register_ack o pkid) as [o' ok] eqn:ER. pose proof (register_ack_link _ _ _ _ ER) as EL.
    destruct ok.
    + apply bind_ok in H as (l & _ & H). apply bind_ok in H as (st2 & H2 & H). apply bind_ok in H as (st3 & H3 & H). inv_ok.
      apply commit_ack_spec in H2 as (l2 & G2 & ->).
      eapply incoming_ack_wake; [exact HW | | | | | exact H3].
      * eapply wfr_trans; [apply (wfr_put_obuf id st) | apply wfr_put_acks].
      * reflexivity.
      * auto.
      * intros o1 G1. rsimpl. rewrite (slab_get_put_occ _ _ _ _ Ho) in G1. inversion G1; subst o1.
        exists o. split; [exact Ho |]. cbn [o_link set_o_pubrels]. exact EL.
    + inv_ok. rewrite mode_of_disc. eapply WakeG_dead; [exact HW | apply wfr_put_obuf].
  - (* PUBREL *)
    unfold get_acks in H. destruct (slab_get (r_acks st) id) as [l |]; [| discriminate]. cbn [bind] in H.
    destruct (a_recorded l) as [| [p props] rec].
    + inv_ok. rewrite mode_of_disc. eapply WakeG_dead; [exact HW | apply wfr_put_acks].
    + apply bind_ok in H as ([st2 res] & H2 & H). apply append_to_commitlog_wv in H2.
      match type of H2 with wview _ = wview ?s => set (st1 := s) in * end.
      assert (F2 : wfr id st st2).
      { eapply wfr_trans; [apply (wfr_put_acks id st) |]. apply wle_wfr, wle_view. exact H2. }
      destruct res.
      * apply bind_ok in H as (st3 & H3 & H). inv_ok. rewrite mode_of_data.
        unfold wview in H2. inversion H2 as [[E1 E2 E3 E4 E5]].
        eapply incoming_ack_wake; [exact HW | exact F2 | | | | exact H3].
        -- rewrite E1. reflexivity.
        -- rewrite E4. auto.
        -- intros o1 G1. rewrite E3 in G1. eauto.
      * inv_ok. rewrite mode_of_disc. eapply WakeG_dead; [exact HW | exact F2].
  - (* PUBCOMP *)
    apply bind_ok in H as (o & Ho & H). apply get_obuf_some in Ho.
    destruct (register_pubcomp o pkid) as [o' ok] eqn:ER.
    assert (EO : o_link o' = o_link o /\ o_inflight o' = o_inflight o).
    { unfold register_pubcomp in ER. destruct (o_pubrels o) as [| h0 r0]; [| destruct (pkid =? h0)]; inv_ok; auto. }
    destruct EO as [EL EI].
    assert (W1 : WakeG (only id (mode_of fl)) (put_obuf st id o') owed)
      by (eapply put_obuf_wake; eauto; now rewrite EI).
    destruct ok; inv_ok; [exact W1 |]. rewrite mode_of_disc. eapply WakeG_only_le; [apply mode_le_dead | exact W1].
  - (* PINGREQ *)
    apply bind_ok in H as (st1 & H1 & H). inv_ok. destruct (mode_of_ack fl). eapply commit_ack_wake; eauto.
  - (* DISCONNECT *)
    inv_ok. rewrite mode_of_disc. eapply WakeG_dead; [exact HW |]. apply wle_wfr, wle_view. reflexivity.
  - inv_ok. exact HW.
Qed.

Lemma handle_packets_wake owed id client : forall pks st fl st' fl',
  WakeG (only id (mode_of fl)) st owed ->
  handle_packets st id client pks fl = Ok (st', fl') ->
  WakeG (only id (mode_of fl')) st' owed.
Proof.
  induction pks as [| pk r IH]; intros st fl st' fl' HW H; cbn [handle_packets] in H; [now inv_ok |].
  apply bind_ok in H as ([[st1 fl1] brk] & H1 & H).
  pose proof (handle_packet_wake _ _ _ _ _ _ _ _ _ HW H1) as W1.
  destruct brk; [now inv_ok | eauto].
Qed.

(* ------------------------------------------------------------------ disconnection *)
Lemma handle_disconnection_wfr st id reason st' :
  handle_disconnection st id reason = Ok st' ->
  wfr id st st' /\ (slab_get (r_obufs st) id <> None -> slab_get (r_trackers st') id = None).
Proof.
  intros H. destruct (slab_get (r_obufs st) id) as [o0 |] eqn:G.
  2:{ rewrite (handle_disconnection_noop _ _ _ G) in H. inv_ok. split; [apply wfr_refl | congruence]. }
  pose proof H as H'. unfold handle_disconnection in H'. rewrite G in H'.
  assert (ER : r_ready st' = r_ready st).
  { apply bind_ok in H' as (st0 & H0 & H').
    assert (E0 : r_ready st0 = r_ready st).
    { destruct reason; [| now inv_ok]. apply bind_ok in H0 as ([s l] & H0 & H1). inv_ok.
      apply push_out_fields in H0. rewrite H0. reflexivity. }
    break_all H'; inv_ok; rsimpl; exact E0. }
  destruct (handle_disconnection_frame _ _ _ _ _ H G) as (F1 & F2 & F3 & F4 & F5 & F6 & _).
  split.
  - constructor.
    + intros w Hw. rewrite F4. destruct (N.eqb_spec w id); [contradiction | reflexivity].
    + intros w Hw. rewrite F2. destruct (N.eqb_spec w id); [contradiction | reflexivity].
    + intros w Hw. rewrite F1. destruct (N.eqb_spec w id); [contradiction | reflexivity].
    + intros w _. now rewrite ER.
    + intros k Hk. rewrite F6. apply in_or_app. now left.
  - intros _. rewrite F4, N.eqb_refl. reflexivity.
Qed.

Lemma handle_disconnection_wake m st owed id reason st' :
  WakeG (only id m) st owed -> handle_disconnection st id reason = Ok st' ->
  (m = MStrict \/ slab_get (r_obufs st) id <> None) ->
  WakeS st' owed.
Proof.
  intros HW H C. destruct (handle_disconnection_wfr _ _ _ _ H) as [F N].
  apply (proj2 (WakeS_only id st' owed)).
  destruct (slab_get (r_obufs st) id) as [o0 |] eqn:G.
  - eapply WakeG_upd; [exact HW | exact F | intros w Hw; rewrite !only_other by exact Hw; exact I |].
    intros t G1. rewrite N in G1 by congruence. discriminate.
  - rewrite (handle_disconnection_noop _ _ _ G) in H. inv_ok. destruct C as [-> | C]; [exact HW | congruence].
Qed.

(* ------------------------------------------------------------------ DeviceData *)
Lemma link_put_in_wle st k b : nthN (r_links st) k = Some b -> forall v, wle st (link_put st k (set_lk_in b v)).
Proof.
  intros Hb v. constructor; rsimpl; auto. intros k' Hk. unfold out_of in *. rsimpl.
  destruct (N.eq_dec k k') as [<- | Hne].
  - rewrite nthN_setN_same, Hb. rewrite Hb in Hk. exact Hk.
  - rewrite nthN_setN_other by exact Hne. exact Hk.
Qed.

Lemma gfr_obuf_live st st' id : gfr st st' -> slab_get (r_obufs st) id <> None -> slab_get (r_obufs st') id <> None.
Proof.
  intros G H E. pose proof (g_okey _ _ G id) as K. unfold okey_at in K. rewrite E in K.
  destruct (slab_get (r_obufs st) id); [discriminate | congruence].
Qed.

Lemma handle_device_payload_wake st owed id st' :
  WakeS st owed -> NF st ->
  (forall i, slab_get (r_ibufs st) id = Some i -> slab_get (r_obufs st) id <> None) ->
  handle_device_payload st id = Ok st' -> WakeS st' owed.
Proof.
  unfold handle_device_payload, link_get. intros HW Hnf AL H.
  destruct (slab_get (r_ibufs st) id) as [inc |] eqn:Gi; [| now inv_ok]. specialize (AL _ eq_refl).
  destruct (nthN (r_links st) (i_link inc)) as [b |] eqn:Hb; [| discriminate]. cbn [bind] in H.
  apply bind_ok in H as ([st1 fl] & H1 & H). apply bind_ok in H as (st2 & H2 & H).
  apply bind_ok in H as (st3 & H3 & H).
  set (st0 := link_put st (i_link inc) (set_lk_in b [])) in *.
  assert (W0 : WakeG (only id (mode_of flags0)) st0 owed).
  { apply (proj1 (WakeS_only id st0 owed)). eapply WakeG_wle; [| exact HW]. now apply link_put_in_wle. }
  pose proof (handle_packets_wake _ _ _ _ _ _ _ _ W0 H1) as W1.
  assert (G3 : gfr st st3).
  { assert (G0 : fq id st st0) by (apply fq_core; reflexivity).
    assert (N0 : NF st0) by exact Hnf.
    pose proof (handle_packets_fi _ _ _ _ _ _ _ H1 N0) as [G1 _].
    assert (G2 : gfr st1 st2).
    { destruct (f_force_ack fl); [apply (reschedule_fq _ _ _ _ H2) | inv_ok; apply gfr_refl]. }
    assert (G3 : gfr st2 st3).
    { destruct (f_new_data fl); [| inv_ok; apply gfr_refl]. apply drain_notifications_iso in H3 as (G3 & _). exact G3. }
    eapply gfr_trans; [apply G0 |]. eapply gfr_trans; [exact G1 |]. eapply gfr_trans; eauto. }
  set (m2 := if f_disconnect fl then MDead else MStrict).
  assert (W2 : WakeG (only id m2) st2 owed).
  { unfold m2, mode_of in *. destruct (f_disconnect fl).
    - destruct (f_force_ack fl); [eapply reschedule_wake; eauto | now inv_ok].
    - destruct (f_force_ack fl); [| now inv_ok].
      eapply reschedule_wake_strict; [exact W1 | discriminate | exact H2 | reflexivity]. }
  assert (W3 : WakeG (only id m2) st3 owed).
  { destruct (f_new_data fl); [eapply drain_notifications_wake; eauto | now inv_ok]. }
  unfold m2 in W3. destruct (f_disconnect fl).
  - eapply handle_disconnection_wake; [exact W3 | exact H |]. right. eapply gfr_obuf_live; eauto.
  - inv_ok. apply (proj2 (WakeS_only id st' owed)). exact W3.
Qed.

(* ------------------------------------------------------------------ wills, shadow *)
Lemma handle_last_will_wake st owed client st' : WakeS st owed -> handle_last_will st client = Ok st' -> WakeS st' owed.
Proof.
  unfold handle_last_will. intros HW H. destruct (al_get str_eqb client (r_wills st)) as [w |]; [| now inv_ok].
  cbv zeta in H. destruct (negb _) in H.
  - inv_ok. eapply WakeG_wle; [| exact HW]. apply wle_view. reflexivity.
  - match type of H with (if ?b then _ else _) = _ => destruct b end;
      [inv_ok; eapply WakeG_wle; [| exact HW]; apply wle_view; reflexivity |].
    apply bind_ok in H as ([st3 idxs] & H3 & H). apply bind_ok in H as (st4 & H4 & H).
    eapply drain_notifications_wake; [| exact H].
    apply dl_matches_wv in H3. apply append_all_wv in H4. rewrite retain_update_wv in H3.
    eapply WakeG_wle; [| exact HW]. apply wle_view. rewrite H4, H3. reflexivity.
Qed.

Lemma retrieve_shadow_wle st id f st' : retrieve_shadow st id f = Ok st' -> wle st st'.
Proof.
  unfold retrieve_shadow. intros H. break_all H; inv_ok; try apply wle_refl;
    repeat match goal with E : push_out _ _ _ = Ok _ |- _ => apply push_out_wle in E end;
    eauto using wle_trans.
Qed.
