(** C01 exactness — [CInv] through [forward_device_data], [consume], wills, shadow, every
    [step], [init], hence in every reachable state with fewer than 2^62 entries per log. *)
From Rumqtt Require Import Log.Spec Log.Proofs Router.ExactLog.
From Rumqtt Require Import Topic.Proofs Router.WindowFrame Router.Window Router.DataLogInv Router.DataLogStep
                           Router.ExactInv Router.ExactStep1 Router.ExactStep2 Router.ExactLogs.
From Rumqtt Require Import Router.Model Router.RunDefs.
From Coq Require Import ZifyBool ZifyN ZifyNat.

Notation fwd := (option cursor * publish * option pprops)%type (only parsing).

Lemma B62_U64 : 2 * B62 < U64. Proof. reflexivity. Qed.

(* ------------------------------------------------------------------ forward_device_data *)
Definition CurP (dl : datalog) (fidx : N) (x : fwd) : Prop :=
  match fst (fst x) with Some c => CurOk dl fidx c | None => True end.

Lemma alias_forwards_curp dl fidx qos subid : forall l bal bal' l',
  Forall (CurP dl fidx) l -> alias_forwards bal qos subid l = (bal', l') -> Forall (CurP dl fidx) l'.
Proof.
  induction l as [|[[c p] pr] r IH]; cbn [alias_forwards]; intros bal bal' l' HF H.
  - inv_ok. constructor.
  - inversion HF as [|? ? Hx Hr]; subst.
    match type of H with (match ?X with _ => _ end) = _ => destruct X as [[bal1 p2] pr1] eqn:EX end.
    destruct (alias_forwards bal1 qos subid r) as [bal2 r'] eqn:Er. inv_ok.
    constructor; [exact Hx|eapply IH; eassumption].
Qed.

Lemma number_forwards_infl dl fidx : forall fw o o' ns,
  Forall (CurP dl fidx) fw -> Forall (InflOk dl) (o_inflight o) ->
  number_forwards o fidx fw = (o', ns) -> Forall (InflOk dl) (o_inflight o').
Proof.
  induction fw as [|[[c p] pr] r IH]; cbn [number_forwards]; intros o o' ns HF Ho H.
  - now inv_ok.
  - inversion HF as [|? ? Hx Hr]; subst.
    match type of H with (match ?X with _ => _ end) = _ => destruct X as [o2 ns2] eqn:EX end. inv_ok.
    eapply IH; [exact Hr| |exact EX]. cbn [o_inflight]. apply Forall_app. split; [exact Ho|].
    constructor; [|constructor]. exact Hx.
Qed.

Lemma update_next_client_cview st g st' g' :
  update_next_client st g = Ok (st', g') -> cview st' = cview st /\ g_cursor g' = g_cursor g.
Proof. unfold update_next_client. intros H. break_all H; inv_ok; split; reflexivity. Qed.

Lemma read_retained_cview st f st' rs : read_retained st f = Ok (st', rs) -> cview st' = cview st.
Proof. unfold read_retained. intros H. break_all H; inv_ok; reflexivity. Qed.

Lemma cview_dl st st' : cview st' = cview st -> r_datalog st' = r_datalog st.
Proof. unfold cview. congruence. Qed.
Lemma cview_obufs st st' : cview st' = cview st -> r_obufs st' = r_obufs st.
Proof. unfold cview. congruence. Qed.
Lemma cview_groups st st' : cview st' = cview st -> r_groups st' = r_groups st.
Proof. unfold cview. congruence. Qed.

(** the group cursor is a cursor of the log the request reads *)
Lemma group_cursor_ok dl rq name g :
  RqOk dl rq -> dr_group rq = Some name -> GrpOk dl (name, g) -> CurOk dl (dr_idx rq) (g_cursor g).
Proof.
  intros [_ Hgi] En (nm & p & i & Hs & Hf & Hc). cbn [fst snd] in *.
  destruct (Hgi _ En) as (nm' & p' & Hs' & Hf'). rewrite Hs in Hs'. inversion Hs'; subst.
  rewrite Hf in Hf'. inversion Hf'; subst. exact Hc.
Qed.

Lemma grpok_of_rq dl rq name g cu :
  RqOk dl rq -> dr_group rq = Some name -> CurOk dl (dr_idx rq) cu -> g_cursor g = cu -> GrpOk dl (name, g).
Proof.
  intros [_ Hgi] En Hc Hg. destruct (Hgi _ En) as (nm & p & Hs & Hf). exists nm, p, (dr_idx rq).
  cbn [fst snd]. rewrite Hg. auto.
Qed.

Lemma fdd_push_cinv st1 id o conn sg rq2 publishes caughtup st' rq' cs :
  CInv st1 -> slab_get (r_obufs st1) id = Some o ->
  Forall (CurP (r_datalog st1) (dr_idx rq2)) publishes ->
  RqOk (r_datalog st1) rq2 ->
  (forall name g, sg = Some (name, g) -> dr_group rq2 = Some name) ->
  fdd_push st1 id o conn sg rq2 publishes caughtup = Ok (st', rq', cs) ->
  CInv st' /\ rq' = rq2 /\ r_datalog st' = r_datalog st1.
Proof.
  intros HI Ho Hpub Hrq Hsg H. unfold fdd_push in H. cbv zeta in H.
  destruct (2 <? dr_qos rq2); [discriminate|].
  destruct (alias_forwards (c_baliases conn) (dr_qos rq2) (al_get str_eqb (dr_filter rq2) (c_subids conn)) publishes)
    as [bal forwards] eqn:EA.
  pose proof (alias_forwards_curp _ _ _ _ _ _ _ _ Hpub EA) as Hfw.
  match type of H with (match ?x with _ => _ end) = _ => destruct x as [o1 notifs] eqn:E1 end.
  assert (Ho1 : Forall (InflOk (r_datalog st1)) (o_inflight o1)).
  { destruct (dr_qos rq2 =? 0).
    - inv_ok. eapply cinv_obuf; eassumption.
    - eapply number_forwards_infl; [exact Hfw| |exact E1]. eapply cinv_obuf; eassumption. }
  apply bind_ok in H as ([st4 len] & H4 & H). apply bind_ok in H as (st5 & H5 & H).
  pose proof (push_out_cview _ _ _ _ _ H4) as V4.
  assert (HI4 : CInv st4).
  { eapply cinv_view; [exact V4|]. apply cinv_put_obuf; [|exact Ho1]. eapply cinv_view; [|exact HI]. reflexivity. }
  assert (D4 : r_datalog st4 = r_datalog st1) by (rewrite (cview_dl _ _ V4); reflexivity).
  assert (HI5 : CInv st5 /\ r_datalog st5 = r_datalog st1).
  { destruct sg as [[name g0]|]; [|inv_ok; auto].
    destruct (al_get str_eqb name (r_groups st4)) as [g|] eqn:Eg; [|inv_ok; auto].
    apply bind_ok in H5 as ([st6 g'] & H6 & H5). inv_ok.
    destruct (update_next_client_cview _ _ _ _ H6) as [V6 Hc6].
    assert (HI6 : CInv st6) by (eapply cinv_view; eassumption).
    assert (D6 : r_datalog st6 = r_datalog st1) by (rewrite (cview_dl _ _ V6); exact D4).
    split; [|exact D6]. apply cinv_set_groups; [exact HI6|]. rewrite D6.
    apply Forall_al_set.
    - rewrite (cview_groups _ _ V6). destruct HI4 as [_ CI4]. rewrite <- D4. apply (ci_groups _ _ CI4).
    - intros k' Hk. apply str_eqb_true in Hk. subst k'.
      eapply (grpok_of_rq _ rq2); [exact Hrq|eapply Hsg; reflexivity|exact (proj1 Hrq)|reflexivity]. }
  destruct HI5 as [HI5 D5].
  destruct (MAX_CHANNEL_CAPACITY - 1 <=? len).
  - apply bind_ok in H as ([st6 n6] & H6 & H). inv_ok. pose proof (push_out_cview _ _ _ _ _ H6) as V6.
    split; [eapply cinv_view; eassumption|]. split; [reflexivity|]. rewrite (cview_dl _ _ V6). exact D5.
  - inv_ok. auto.
Qed.

Lemma free_slots_le o n : free_slots o = Ok n -> n <= MAX_INFLIGHT.
Proof. intros H. apply free_slots_spec in H. lia. Qed.

Theorem fdd_cinv st id rq st' rq' cs :
  CInv st -> Bounded st -> RqOk (r_datalog st) rq ->
  forward_device_data st id rq = Ok (st', rq', cs) ->
  CInv st' /\ RqOk (r_datalog st') rq' /\ r_datalog st' = r_datalog st.
Proof.
  intros HI HB Hrq. rewrite fdd_alt_eq. unfold fdd_alt, get_obuf. intros H.
  destruct (slab_get (r_obufs st) id) as [o|] eqn:G; [|discriminate]. cbn [bind] in H.
  destruct (slab_get (r_conns st) id) as [conn|]; [|discriminate]. cbn [bind] in H.
  cbv zeta in H.
  set (sg := match dr_group rq with
             | Some name => match al_get str_eqb name (r_groups st) with
                            | Some g => Some (name, g) | None => None end
             | None => None end) in *.
  set (rq0 := match sg with Some (_, g) => set_dr_cursor rq (g_cursor g) | None => rq end) in *.
  assert (Hsg : forall name g, sg = Some (name, g) -> dr_group rq = Some name /\ al_get str_eqb name (r_groups st) = Some g).
  { unfold sg. intros name g. destruct (dr_group rq) as [n0|]; [|discriminate].
    destruct (al_get str_eqb n0 (r_groups st)) as [g0|] eqn:E; [|discriminate]. intros E1; inversion E1; subst. auto. }
  assert (Hrq0 : RqOk (r_datalog st) rq0 /\ dr_idx rq0 = dr_idx rq /\ dr_group rq0 = dr_group rq).
  { unfold rq0. destruct sg as [[name g]|] eqn:Es; [|auto]. destruct (Hsg _ _ eq_refl) as [Hn Hg].
    split; [|auto]. apply rqok_set_cursor; [exact Hrq|]. eapply group_cursor_ok; [exact Hrq|exact Hn|].
    destruct HI as [_ CI]. exact (al_get_Forall _ _ _ _ (ci_groups _ _ CI) Hg). }
  destruct Hrq0 as (Hrq0 & Hidx0 & Hgrp0). clearbody rq0.
  apply bind_ok in H as (slots0 & HS & H).
  destruct (negb (dr_qos rq0 =? 0) && (slots0 =? 0)); [inv_ok; auto|].
  assert (Hs0 : slots0 < B62).
  { destruct HI as [_ CI]. pose proof (ci_cfg _ _ CI). destruct (negb (dr_qos rq0 =? 0)).
    - apply free_slots_le in HS. rewrite MAX_INFLIGHT_100 in HS. unfold B62. lia.
    - inv_ok. assumption. }
  apply bind_ok in H as ([[[st1 rq1] retained] slots2] & HR & H).
  assert (H1 : cview st1 = cview st /\ RqOk (r_datalog st) rq1 /\ dr_group rq1 = dr_group rq0 /\ slots2 < B62).
  { unfold fdd_retained in HR. destruct (dr_fwd_retained rq0).
    - apply bind_ok in HR as ([st2 rs] & HR1 & HR). cbv zeta in HR. inv_ok.
      split; [eapply read_retained_cview; eassumption|]. split; [exact Hrq0|]. split; [reflexivity|].
      destruct sg as [[? g]|]; [destruct (g_strategy g)|]; unfold B62 in *; lia.
    - inv_ok. split; [reflexivity|]. split; [exact Hrq0|]. split; [reflexivity|].
      destruct sg as [[? g]|]; [destruct (g_strategy g)|]; unfold B62 in *; lia. }
  destruct H1 as (V1 & Hrq1 & Hgrp1 & Hs2).
  pose proof (cview_dl _ _ V1) as D1.
  assert (HI1 : CInv st1) by (eapply cinv_view; eassumption).
  apply bind_ok in H as (d & Hd & H). apply native_get_Some in Hd. rewrite D1 in Hd.
  apply bind_ok in H as ([pos from_log] & HV & H).
  (* the read *)
  destruct Hrq1 as [(d' & Hd' & Hiss & Hend) Hgi1]. unfold nget in Hd'. rewrite Hd in Hd'. inversion Hd'; subst d'. clear Hd'.
  destruct HI as [LI CI]. destruct (li_wf _ LI _ _ Hd) as [all W].
  pose proof (wf_end_of pubdata_size _ _ W) as Hall. pose proof (HB _ _ Hd) as Hb. pose proof B62_U64 as HU.
  assert (Hb1 : 2 * lenN all < U64) by lia.
  assert (Hb2 : snd (dr_cursor rq1) + slots2 < U64) by lia.
  destruct (readv_ok_facts pubdata_size _ all _ _ _ _ W Hiss Hb1 Hb2 HV)
    as (_ & _ & _ & _ & Hent & Hiend & _ & Hsnd & Hle & _).
  assert (Hnext : CurOk (r_datalog st) (dr_idx rq1) (pos_end pos)).
  { exists d. split; [exact Hd|]. split; [exact Hiend|]. lia. }
  assert (Hlog : Forall (CurP (r_datalog st) (dr_idx rq1))
                   (map (fun x : pubdata * cursor => (Some (snd x), fst (fst x), snd (fst x))) from_log)).
  { apply Forall_forall. intros x Hx. apply in_map_iff in Hx as (e & <- & He).
    rewrite Forall_forall in Hent. destruct (Hent _ He) as [He1 He2]. unfold CurP. cbn [fst snd].
    exists d. split; [exact Hd|]. split; [exact He1|]. lia. }
  assert (Epos : (let '(start, next, caughtup) := match pos with Next s e => (s, e, false) | Done s e => (s, e, true) end in next) = pos_end pos)
    by (destruct pos; reflexivity).
  destruct (match pos with Next s e => (s, e, false) | Done s e => (s, e, true) end) as [[start next] caughtup].
  cbv beta iota in Epos. subst next.
  match type of H with (if ?b then _ else _) = _ => destruct b end.
  { inv_ok. split; [exact HI1|]. rewrite D1. split; [|reflexivity]. split; [|exact Hgi1]. exists d. auto. }
  match type of H with match ?l with [] => _ | _ => _ end = _ => remember l as publishes eqn:EP end.
  set (rq2 := {| dr_filter := dr_filter rq1; dr_idx := dr_idx rq1; dr_qos := dr_qos rq1;
                 dr_cursor := pos_end pos; dr_read := dr_read rq1 + lenN publishes;
                 dr_fwd_retained := dr_fwd_retained rq1; dr_group := dr_group rq1 |}) in *.
  assert (Hrq2 : RqOk (r_datalog st) rq2) by (split; [exact Hnext|exact Hgi1]).
  assert (Hpubs : Forall (CurP (r_datalog st) (dr_idx rq2)) publishes).
  { subst publishes. apply Forall_app. split; [|exact Hlog].
    apply Forall_forall. intros x Hx. apply in_map_iff in Hx as (e & <- & _). exact I. }
  destruct publishes as [|pb pbs] eqn:Epubs.
  { inv_ok. split; [exact HI1|]. rewrite D1. auto. }
  rewrite <- Epubs in *. clear Epubs.
  eapply fdd_push_cinv in H; [| exact HI1 | rewrite (cview_obufs _ _ V1); exact G | rewrite D1; exact Hpubs | rewrite D1; exact Hrq2 | ].
  - destruct H as (HI' & -> & D'). split; [exact HI'|]. rewrite D', D1. auto.
  - intros name g Es. cbn [rq2 dr_group]. rewrite Hgrp1, Hgrp0. apply (Hsg _ _ Es).
Qed.

(* ------------------------------------------------------------------ consume *)
Lemma bounded_same st st' : same_logs (r_datalog st) (r_datalog st') -> Bounded st -> Bounded st'.
Proof.
  intros (_ & _ & _ & Hs) HB i d' Hd'. specialize (Hs i). unfold nget in *. rewrite Hd' in Hs. unfold same_data in Hs.
  destruct (slab_get (dl_native (r_datalog st)) i) as [d|] eqn:Ed; [|tauto]. destruct Hs as [_ ->]. eapply HB. exact Ed.
Qed.

Lemma bounded_eq st st' : r_datalog st' = r_datalog st -> Bounded st -> Bounded st'.
Proof. intros E HB i d. rewrite E. apply HB. Qed.

Lemma consume_loop_cinv id : forall fuel st requests skipped st',
  CInv st -> Bounded st ->
  Forall (RqOk (r_datalog st)) requests -> Forall (RqOk (r_datalog st)) skipped ->
  consume_loop fuel st id requests skipped = Ok st' ->
  CInv st' /\ same_logs (r_datalog st) (r_datalog st').
Proof.
  induction fuel as [|fuel IH]; cbn [consume_loop]; intros st requests skipped st' HI HB Hr Hs H.
  - rewrite (trackv_dl _ _ _ _ H). split; [|apply same_logs_refl].
    eapply trackv_cinv; [exact HI| |exact H]. apply Forall_app. auto.
  - destruct requests as [|rq rest].
    + apply bind_ok in H as (st1 & H1 & H). rewrite (trackv_dl _ _ _ _ H).
      assert (HI1 : CInv st1 /\ r_datalog st1 = r_datalog st).
      { destruct skipped; [|inv_ok; auto]. split; [eapply pause_cinv; eassumption|eapply pause_dl; eassumption]. }
      destruct HI1 as [HI1 D1]. rewrite D1. split; [|apply same_logs_refl].
      eapply trackv_cinv; [exact HI1| |exact H]. now rewrite D1.
    + inversion Hr as [|? ? Hrq Hrest]; subst.
      apply bind_ok in H as ([[st1 rq'] status] & H1 & H).
      destruct (fdd_cinv _ _ _ _ _ _ HI HB Hrq H1) as (HI1 & Hrq' & D1).
      assert (HB1 : Bounded st1) by (eapply bounded_eq; eassumption).
      rewrite <- D1 in Hrest, Hs.
      destruct status.
      * apply bind_ok in H as (st2 & H2 & H). rewrite (trackv_dl _ _ _ _ H), (pause_dl _ _ _ _ H2), D1.
        split; [|apply same_logs_refl]. eapply trackv_cinv; [eapply pause_cinv; eassumption| |exact H].
        rewrite (pause_dl _ _ _ _ H2). repeat (apply Forall_app; split); auto.
      * apply bind_ok in H as (st2 & H2 & H). rewrite (trackv_dl _ _ _ _ H), (pause_dl _ _ _ _ H2), D1.
        split; [|apply same_logs_refl]. eapply trackv_cinv; [eapply pause_cinv; eassumption| |exact H].
        rewrite (pause_dl _ _ _ _ H2). repeat (apply Forall_app; split); auto.
      * apply bind_ok in H as (st2 & H2 & H). pose proof (park_same _ _ _ _ H2) as S2.
        pose proof (park_cinv _ _ _ _ HI1 Hrq' H2) as HI2.
        assert (Hmono : forall l, Forall (RqOk (r_datalog st1)) l -> Forall (RqOk (r_datalog st2)) l).
        { intros l. apply rqsok_mono; [exact (proj1 HI1)|now apply dl_le_same_logs]. }
        destruct (IH _ _ _ _ HI2 (bounded_same _ _ S2 HB1) (Hmono _ Hrest) (Hmono _ Hs) H) as [HI3 S3].
        split; [exact HI3|]. rewrite <- D1. eapply same_logs_trans; eassumption.
      * destruct (IH _ _ _ _ HI1 HB1 (proj2 (Forall_app _ _ _) (conj Hrest (Forall_cons _ Hrq' (Forall_nil _)))) Hs H) as [HI3 S3].
        split; [exact HI3|]. now rewrite <- D1.
      * destruct (IH _ _ _ _ HI1 HB1 Hrest (proj2 (Forall_app _ _ _) (conj Hs (Forall_cons _ Hrq' (Forall_nil _)))) H) as [HI3 S3].
        split; [exact HI3|]. now rewrite <- D1.
Qed.

Lemma ack_device_data_cview st id o st' : ack_device_data st id o = Ok st' -> cview st' = cview st.
Proof.
  unfold ack_device_data, get_acks. intros H. apply bind_ok in H as (l & _ & H).
  destruct (a_committed l); [now inv_ok|]. apply bind_ok in H as ([st2 n] & H2 & H). inv_ok.
  rewrite (push_out_cview _ _ _ _ _ H2). reflexivity.
Qed.

Lemma consume_cinv st st' b :
  CInv st -> Bounded st -> consume st = Ok (st', b) -> CInv st' /\ same_logs (r_datalog st) (r_datalog st').
Proof.
  unfold consume. intros HI HB H.
  destruct (r_ready st) as [|id rq]; [inv_ok; split; [exact HI|apply same_logs_refl]|].
  cbn [r_trackers set_r_ready] in H.
  destruct (slab_get (r_trackers st) id) as [t|] eqn:Et.
  2:{ inv_ok. split; [|apply same_logs_refl]. eapply cinv_view; [|exact HI]. reflexivity. }
  match type of H with context [slab_get (r_obufs ?s) id] => set (st2 := s) in * end.
  assert (HI2 : CInv st2).
  { unfold st2. apply (cinv_view (put_tracker (set_r_ready st rq) id (set_tr_reqs t []))); [reflexivity|].
    apply (cinv_put_tracker (set_r_ready st rq)).
    - eapply cinv_view; [|exact HI]. reflexivity.
    - constructor. }
  assert (D2 : r_datalog st2 = r_datalog st) by reflexivity.
  destruct (slab_get (r_obufs st2) id) as [o|]; [|inv_ok; split; [exact HI2|apply same_logs_refl]].
  apply bind_ok in H as (st3 & H3 & H). apply bind_ok in H as (u & _ & H). apply bind_ok in H as (st4 & H4 & H). inv_ok.
  pose proof (ack_device_data_cview _ _ _ _ H3) as V3. pose proof (cview_dl _ _ V3) as D3.
  assert (HI3 : CInv st3) by (eapply cinv_view; eassumption).
  rewrite <- D2, <- D3. eapply consume_loop_cinv; [exact HI3| | |constructor|exact H4].
  - eapply bounded_eq; [|exact HB]. now rewrite D3.
  - rewrite D3, D2. eapply cinv_trk; eassumption.
Qed.

(* ------------------------------------------------------------------ wills, shadow *)
Lemma handle_last_will_cinv st client st' :
  CInv st -> handle_last_will st client = Ok st' -> CInv st' /\ dl_le (r_datalog st) (r_datalog st').
Proof.
  unfold handle_last_will. intros HI H.
  destruct (al_get str_eqb client (r_wills st)) as [w|]; [|inv_ok; split; [exact HI|apply dl_le_refl]].
  match type of H with context [retain_update ?s _ _ _] => set (st1 := s) in * end.
  assert (HI1 : CInv st1) by (eapply cinv_view; [|exact HI]; reflexivity).
  destruct (negb (utf8_valid _)); [inv_ok; split; [exact HI1|apply dl_le_refl]|].
  match type of H with (if ?b then _ else _) = _ => destruct b end; [inv_ok; split; [exact HI1|apply dl_le_refl]|].
  apply bind_ok in H as ([st3 idxs] & H3 & H). apply bind_ok in H as (st4 & H4 & H).
  match type of H3 with dl_matches (retain_update _ ?t ?p ?pr) _ = _ => destruct (retain_update_cinv st1 t p pr HI1) as [HI2 L2] end.
  destruct (dl_matches_cinv _ _ _ _ HI2 H3) as [HI3 L3].
  destruct (append_all_cinv _ _ _ _ HI3 H4) as [HI4 L4].
  rewrite (drain_notifications_dl _ _ H). split; [eapply drain_notifications_cinv; eassumption|].
  change (r_datalog st) with (r_datalog st1). eapply dl_le_trans; [exact L2|]. eapply dl_le_trans; eassumption.
Qed.

Lemma retrieve_shadow_cview st id f st' : retrieve_shadow st id f = Ok st' -> cview st' = cview st.
Proof.
  unfold retrieve_shadow. intros H.
  destruct (slab_get (r_obufs st) id); [|now inv_ok].
  destruct (al_get str_eqb f (dl_findex (r_datalog st))); [|now inv_ok].
  destruct (slab_get (dl_native (r_datalog st)) n); [|now inv_ok].
  apply bind_ok in H as (a & _ & H). destruct (last_opt (s_data a)) as [[p pr]|]; [|now inv_ok].
  apply bind_ok in H as ([st1 len] & H1 & H). pose proof (push_out_cview _ _ _ _ _ H1) as V1.
  destruct (MAX_CHANNEL_CAPACITY - 1 <=? len); [|now inv_ok].
  apply bind_ok in H as ([st2 n2] & H2 & H). inv_ok. rewrite (push_out_cview _ _ _ _ _ H2). exact V1.
Qed.

(* ------------------------------------------------------------------ step *)
Theorem step_cinv st o st' out :
  CInv st -> Bounded st -> step st o = Ok (st', out) ->
  CInv st' /\ dl_le (r_datalog st) (r_datalog st').
Proof.
  intros HI HB H. destruct o; cbn [step] in H.
  - apply bind_ok in H as (st2 & H2 & H). inv_ok.
    eapply (handle_new_connection_cinv (set_r_links st _)); [|exact H2]. eapply cinv_view; [|exact HI]. reflexivity.
  - destruct (nthN (r_links st) link); inv_ok; (split; [|apply dl_le_refl]); [|exact HI].
    eapply cinv_view; [|exact HI]. reflexivity.
  - apply bind_ok in H as (st1 & H1 & H). inv_ok. eapply handle_device_payload_cinv; eassumption.
  - apply bind_ok in H as ([st1 b] & H1 & H). inv_ok. destruct (consume_cinv _ _ _ HI HB H1) as [H2 S].
    split; [exact H2|now apply dl_le_same_logs].
  - destruct (nthN (r_links st) link); inv_ok; (split; [|apply dl_le_refl]); [|exact HI].
    eapply cinv_view; [|exact HI]. reflexivity.
  - destruct (slab_get (r_trackers st) id); [|inv_ok; split; [exact HI|apply dl_le_refl]].
    apply bind_ok in H as (st1 & H1 & H). inv_ok. rewrite (reschedule_dl _ _ _ _ H1).
    split; [eapply reschedule_cinv; eassumption|apply dl_le_refl].
  - apply bind_ok in H as (st1 & H1 & H). inv_ok. eapply handle_disconnection_cinv; eassumption.
  - apply bind_ok in H as (st1 & H1 & H). inv_ok. pose proof (retrieve_shadow_cview _ _ _ _ H1) as V.
    rewrite (cview_dl _ _ V). split; [eapply cinv_view; eassumption|apply dl_le_refl].
  - apply bind_ok in H as (st1 & H1 & H). inv_ok. eapply handle_last_will_cinv; eassumption.
  - inv_ok. split; [exact HI|apply dl_le_refl].
Qed.

Theorem step_with_cinv st orc o st' out :
  CInv st -> Bounded st -> step_with st orc o = Ok (st', out) ->
  CInv st' /\ dl_le (r_datalog st) (r_datalog st').
Proof.
  unfold step_with. intros HI HB H. apply bind_ok in H as ([st1 out1] & H1 & H).
  destruct (r_oracle st1); [|discriminate]. inv_ok.
  eapply (step_cinv (set_r_oracle st orc)); [| |exact H1].
  - eapply cinv_view; [|exact HI]. reflexivity.
  - exact HB.
Qed.

(* ------------------------------------------------------------------ init *)
Lemma init_datalog_logs cfg dl :
  init_datalog cfg = Ok dl -> LogsInv dl /\ forall i d, nget dl i = Some d -> d_waiters d = [].
Proof.
  unfold init_datalog.
  set (go := fix go (fs : list str) (dl : datalog) {struct fs} : R datalog :=
    match fs with
    | [] => Ok dl
    | f :: r =>
        do d <- data_new cfg f;
        let '(native', idx) := slab_insert (dl_native dl) d in
        go r {| dl_native := native'; dl_findex := al_set str_eqb f idx (dl_findex dl);
                dl_retained := []; dl_pfilters := [] |}
    end).
  assert (Hgo : forall fs dl0 dl1,
             (LogsInv dl0 /\ forall i d, nget dl0 i = Some d -> d_waiters d = []) -> go fs dl0 = Ok dl1 ->
             (LogsInv dl1 /\ forall i d, nget dl1 i = Some d -> d_waiters d = [])).
  { induction fs as [|f r IH]; intros dl0 dl1 [LI HW] H; cbn in H.
    - inv_ok. auto.
    - apply bind_ok in H as (d & Hd & H). destruct (data_new_wf _ _ _ Hd) as (W & Hw & _).
      destruct (slab_insert (dl_native dl0) d) as [native' k] eqn:Ei.
      destruct (nget_insert _ _ _ _ (li_nofree _ LI) Ei) as (Hk & Hfr' & Hg & _).
      eapply IH; [|exact H]. split.
      + constructor; [exact Hfr'|]. intros j d0. unfold nget. cbn [dl_native]. rewrite Hg.
        destruct (j =? k); [intros E; inversion E; subst; eauto|]. apply (li_wf _ LI).
      + intros j d0. unfold nget. cbn [dl_native]. rewrite Hg.
        destruct (j =? k); [intros E; inversion E; subst; exact Hw|]. apply HW. }
  intros H. eapply Hgo; [|exact H]. split.
  - constructor; [reflexivity|]. intros i d Hd. unfold nget, slab_get in Hd. cbn in Hd. discriminate.
  - intros i d Hd. unfold nget, slab_get in Hd. cbn in Hd. discriminate.
Qed.

Theorem init_cinv cfg st : cf_max_outgoing cfg < B62 -> init cfg = Ok st -> CInv st.
Proof.
  unfold init. intros Hc H. apply bind_ok in H as (dl & Hdl & H). inv_ok.
  destruct (init_datalog_logs _ _ Hdl) as [LI HW]. split; cbn [r_datalog]; [exact LI|].
  constructor; cbn [r_trackers r_datalog r_notif r_graveyard r_obufs r_groups r_cfg]; try constructor; try exact Hc.
  - intros k t Hk. unfold slab_get in Hk. cbn in Hk. discriminate.
  - intros i d Hd. rewrite (HW _ _ Hd). constructor.
  - intros k o Hk. unfold slab_get in Hk. cbn in Hk. discriminate.
Qed.

(* ------------------------------------------------------------------ runs *)
(** [Bounded] is inherited backwards along [dl_le]: logs only grow *)
Lemma bounded_le st st' : LogsInv (r_datalog st) -> dl_le (r_datalog st) (r_datalog st') -> Bounded st' -> Bounded st.
Proof.
  intros LI [Hle _] HB i d Hd. destruct (Hle _ _ Hd) as (d' & Hd' & _ & L).
  destruct (li_wf _ LI _ _ Hd) as [all W]. pose proof (log_le_end pubdata_size _ _ all L W). specialize (HB _ _ Hd'). lia.
Qed.

(** along any run that ends in a bounded state: the invariant holds at the end (and at every
    state on the way), the data log only grew, and the start was bounded too *)
Theorem run_cinv : forall ops st st',
  CInv st -> run st ops = Ok st' -> Bounded st' ->
  CInv st' /\ dl_le (r_datalog st) (r_datalog st') /\ Bounded st.
Proof.
  induction ops as [|[orc o] r IH]; intros st st' HI H HB; cbn [run] in H.
  - inv_ok. split; [exact HI|]. split; [apply dl_le_refl|exact HB].
  - destruct (step_with st orc o) as [[st1 out]| |] eqn:E; try discriminate.
    destruct (step_with_LL _ _ _ _ _ E (proj1 HI)) as [LI1 L1].
    destruct (run_LL _ _ _ H LI1) as [_ L2].
    pose proof (bounded_le _ _ LI1 L2 HB) as HB1.
    pose proof (bounded_le _ _ (proj1 HI) L1 HB1) as HB0.
    destruct (step_with_cinv _ _ _ _ _ HI HB0 E) as [HI1 _].
    destruct (IH _ _ HI1 H HB) as (HI' & _ & _).
    split; [exact HI'|]. split; [eapply dl_le_trans; eassumption|exact HB0].
Qed.

(** CursorInv in every reachable state (any ops, any oracles) whose logs hold < 2^62 entries *)
Theorem reachable_cinv cfg st :
  cf_max_outgoing cfg < B62 -> reachable cfg st -> Bounded st -> CInv st.
Proof.
  intros Hc (st0 & ops & Hi & Hr) HB. eapply run_cinv; [eapply init_cinv; eassumption|exact Hr|exact HB].
Qed.
