(** C17, completeness clause at run level — the general statement, part 2: every step, every run,
    [run_complete] (pinned [c17_run_complete]) and [run_exactly_once].

    For every run from [init] without a K-C17-rewind that ends quiescent, for every group
    incarnation still registered at the end: if nothing was ever evicted from the log of its key
    (no cursor is [stale] for it), every offset from the incarnation's creation position
    ([starts], GroupWakeRun.v) up to the end of the log is among the offsets forwarded through
    the key ([gfwd]) — exactly once if moreover [rejoin_fresh_b] holds ([c17_at_most_once]). *)
From Rumqtt Require Import Router.NoPanicLog.
From Rumqtt Require Import Router.Model Router.Inv Router.NoPanic.
From Rumqtt Require Import Log.Spec Log.Proofs Router.ExactLog.
From Rumqtt Require Import Router.WindowFrame Router.DataLogInv Router.DataLogStep Router.ExactInv Router.ExactStep1 Router.ExactStep2 Router.ExactStep3
  Router.ExactLogs Router.ExactThm
  Router.RetainedReplay Router.Shared Router.SharedRun Router.SharedRunInv Router.SharedRunStep Router.SharedRunStep2 Router.SharedRunStep3 Router.SharedRunThm
  Router.WindowExamples Router.Wake Router.WakeThm Router.WakeCor Router.WakeExamples
  Router.GroupWake Router.GroupWakeThm Router.GroupWakeCov Router.GroupWakeRun Router.GroupWakeExamples.
From Rumqtt Require Import Router.Model Router.RunDefs.
From Coq Require Import List Arith ZifyBool ZifyN ZifyNat Sorted.
Import ListNotations.

Lemma SortedG_nil : SortedG []. Proof. intros name. constructor. Qed.

(* ------------------------------------------------------------------ one step *)
Theorem step_covm st o st' out gh m gf :
  CInv st -> Bounded st -> GK st -> CovM st m gf ->
  step_g st o = Ok (st', out, gh) -> gh_rewind gh = false ->
  CovM st' (starts_step st o st' m) (gf ++ map forget (gh_fwd gh)).
Proof.
  intros HI HB HK HC H Hnr.
  assert (Hstep : step st o = Ok (st', out)).
  { pose proof (step_g_state st o) as E. rewrite H in E. cbn [drop3] in E. now symmetry. }
  destruct (step_cinv _ _ _ _ HI HB Hstep) as [HI' L].
  assert (Hgen : forall gh0, gh_fwd gh0 = [] -> gfw (r_groups st) (r_groups st') ->
                 CovM st' (upd_starts st st' m) (gf ++ map forget (gh_fwd gh0))).
  { intros gh0 E G. rewrite E. cbn [map]. rewrite app_nil_r. eapply covm_stage; eauto. }
  destruct o; unfold step_g in H; cbn [starts_step].
  - (* connect *)
    apply bind_ok in H as ([st2 out2] & H2 & H). inv_ok. cbn [gh_fwd gh_rewind] in *. cbn [map]. rewrite app_nil_r.
    cbn [step] in H2. apply bind_ok in H2 as (st3 & H3 & H2). inv_ok.
    match type of H3 with handle_new_connection ?s ?cn ?lk = _ =>
      apply (handle_new_connection_covm s cn lk st' m gf) end; try assumption.
    all: first [ (eapply cinv_view; [| exact HI]; reflexivity) | (eapply covm_same; [| | exact HC]; reflexivity) ].
  - apply bind_ok in H as ([st2 out2] & H2 & H). inv_ok. apply Hgen; [reflexivity |]. cbn [step] in H2.
    destruct (nthN (r_links st) link); inv_ok; apply gfw_eq; reflexivity.
  - (* data *)
    apply bind_ok in H as ([st2 out2] & H2 & H). inv_ok. cbn [gh_fwd gh_rewind] in *. cbn [map]. rewrite app_nil_r.
    cbn [step] in H2. apply bind_ok in H2 as (st3 & H3 & H2). inv_ok. eapply handle_device_payload_covm; eauto.
  - (* consume *)
    apply bind_ok in H as ([[st1 b] evs] & H1 & H). inv_ok. cbn [gh_fwd].
    apply covm_carry; [exact (proj1 HC) | exact HI' |].
    intros name s Hs HN'. eapply consume_cov; [exact HI | exact HB | | | exact H1].
    + eapply noevict_le; [exact (proj1 HI) | exact L | exact HN'].
    + apply (proj2 HC); [exact Hs |]. eapply noevict_le; [exact (proj1 HI) | exact L | exact HN'].
  - apply bind_ok in H as ([st2 out2] & H2 & H). inv_ok. apply Hgen; [reflexivity |]. cbn [step] in H2.
    destruct (nthN (r_links st) link); inv_ok; apply gfw_eq; reflexivity.
  - apply bind_ok in H as ([st2 out2] & H2 & H). inv_ok. apply Hgen; [reflexivity |]. cbn [step] in H2.
    destruct (slab_get (r_trackers st) id); [| inv_ok; apply gfw_eq; reflexivity].
    apply bind_ok in H2 as (st1 & H1 & H2). inv_ok. apply gfw_eq. eapply reschedule_groups; eauto.
  - (* disconnect *)
    apply bind_ok in H as ([st2 out2] & H2 & H). inv_ok. cbn [gh_rewind] in Hnr. apply Hgen; [reflexivity |]. cbn [step] in H2.
    apply bind_ok in H2 as (st1 & H1 & H2). inv_ok. apply gcur_sub_gfw.
    exact (proj2 (handle_disconnection_groups _ _ _ _ H1 Hnr HK)).
  - apply bind_ok in H as ([st2 out2] & H2 & H). inv_ok. apply Hgen; [reflexivity |]. cbn [step] in H2.
    apply bind_ok in H2 as (st1 & H1 & H2). inv_ok. apply gfw_eq. exact (cview_groups _ _ (retrieve_shadow_cview _ _ _ _ H1)).
  - apply bind_ok in H as ([st2 out2] & H2 & H). inv_ok. apply Hgen; [reflexivity |]. cbn [step] in H2.
    apply bind_ok in H2 as (st1 & H1 & H2). inv_ok. apply gfw_eq. eapply handle_last_will_groups; eauto.
  - apply bind_ok in H as ([st2 out2] & H2 & H). inv_ok. apply Hgen; [reflexivity |]. cbn [step] in H2. inv_ok. apply gfw_eq. reflexivity.
Qed.

(* ------------------------------------------------------------------ every run *)
Theorem run_covm : forall ops st st' m gf,
  CInv st -> GK st -> CovM st m gf -> run st ops = Ok st' -> Bounded st' -> no_rewind st ops ->
  CovM st' (starts_from st m ops) (gf ++ gfwd st ops).
Proof.
  induction ops as [| [orc o] r IH]; intros st st' m gf HI HK HC H HB Hnr.
  - cbn [run] in H. inv_ok. unfold gfwd, gfwd_full. cbn [ghosts map concat starts_from]. now rewrite app_nil_r.
  - destruct (run_cinv _ _ _ HI H HB) as (_ & _ & HB0).
    cbn [run] in H. cbn [starts_from]. destruct (step_with st orc o) as [[st1 out] | |] eqn:E; try discriminate.
    unfold no_rewind in Hnr. rewrite (ghosts_cons _ _ _ _ _ _ E) in Hnr. inversion Hnr as [| ? ? Hnr1 Hnr2]; subst.
    destruct (step_with_cinv _ _ _ _ _ HI HB0 E) as [HI1 _].
    pose proof (step_with_ghost _ _ _ _ _ E) as Eg.
    set (gh := step_ghost (set_r_oracle st orc) o) in *.
    assert (HI0 : CInv (set_r_oracle st orc)) by (eapply cinv_view; [| exact HI]; reflexivity).
    assert (HC0 : CovM (set_r_oracle st orc) m gf) by (eapply covm_same; [| | exact HC]; reflexivity).
    pose proof (step_covm _ _ _ _ _ _ _ HI0 HB0 HK HC0 Eg Hnr1) as HC1.
    destruct (step_gi (set_r_oracle st orc) o st1 out gh [] HI0 HB0 HK (GI_nil _) SortedG_nil Eg Hnr1) as (HK1 & _).
    { intros name pos c off _ []. }
    pose proof (IH _ _ _ _ HI1 HK1 HC1 H HB Hnr2) as HC'.
    assert (Eq : gf ++ gfwd st ((orc, o) :: r) = (gf ++ map forget (gh_fwd gh)) ++ gfwd st1 r).
    { unfold gfwd. rewrite gfwd_full_cons, E, map_app, app_assoc. reflexivity. }
    now rewrite Eq.
Qed.

Lemma init_covm cfg st0 : init cfg = Ok st0 -> GK st0 /\ CovM st0 [] [].
Proof.
  unfold init. intros H. apply bind_ok in H as (dl & _ & H). inv_ok. split; [constructor |].
  split; [intros name g Hg; discriminate | intros name s Hs; discriminate].
Qed.

(** every registered key has a recorded creation position *)
Theorem starts_total cfg st0 ops st :
  cf_max_outgoing cfg < B62 -> init cfg = Ok st0 -> run st0 ops = Ok st -> Bounded st -> no_rewind_b st0 ops = true ->
  forall name g, al_get str_eqb name (r_groups st) = Some g -> exists s, al_get str_eqb name (starts st0 ops) = Some s.
Proof.
  intros Hm Hi Hr HB Hnr name g Hg. destruct (init_covm _ _ Hi) as [HK0 HC0].
  pose proof (run_covm _ _ _ _ _ (init_cinv _ _ Hm Hi) HK0 HC0 Hr HB (proj1 (no_rewind_b_spec _ _) Hnr)) as [HK _].
  exact (HK _ _ Hg).
Qed.

(** the completeness clause for whole runs *)
Theorem run_complete cfg st0 ops st :
  cfg_ok cfg -> 1 <= cf_max_outgoing cfg < B62 -> init cfg = Ok st0 -> ops_wf ops ->
  run st0 ops = Ok st -> Bounded st -> no_rewind_b st0 ops = true ->
  quiescent st (owed_run st0 [] ops) ->
  forall name g d s,
    al_get str_eqb name (r_groups st) = Some g -> glog (r_datalog st) name = Some d ->
    (forall c, stale (d_log d) c = false) ->
    al_get str_eqb name (starts st0 ops) = Some s ->
    forall off, s <= off < end_of (d_log d) -> In off (offs_of name (gfwd st0 ops)).
Proof.
  intros Hcfg Hm Hi Hwf Hr HB Hnr Q name g d s Hg Hd Hst Hs off Hoff.
  destruct (complete_quiescent _ _ _ _ Hcfg Hm Hi Hwf Hr HB Hnr Q _ _ Hg) as (d' & Hd' & Hp).
  rewrite Hd in Hd'. inversion Hd'; subst d'. unfold pos_of in Hp. rewrite Hst in Hp.
  destruct (init_covm _ _ Hi) as [HK0 HC0].
  pose proof (run_covm _ _ _ _ _ (init_cinv _ _ (proj2 Hm) Hi) HK0 HC0 Hr HB (proj1 (no_rewind_b_spec _ _) Hnr)) as [_ HC].
  cbn [app] in HC. eapply (HC name s Hs); [| exact Hg | lia].
  intros d0 c Hd0. rewrite Hd in Hd0. inversion Hd0; subst d0. apply Hst.
Qed.

(** ... exactly once *)
Theorem run_exactly_once cfg st0 ops st :
  cfg_ok cfg -> 1 <= cf_max_outgoing cfg < B62 -> init cfg = Ok st0 -> ops_wf ops ->
  run st0 ops = Ok st -> Bounded st -> no_rewind_b st0 ops = true -> rejoin_fresh_b st0 ops = true ->
  quiescent st (owed_run st0 [] ops) ->
  forall name g d s,
    al_get str_eqb name (r_groups st) = Some g -> glog (r_datalog st) name = Some d ->
    (forall c, stale (d_log d) c = false) ->
    al_get str_eqb name (starts st0 ops) = Some s ->
    forall off, s <= off < end_of (d_log d) -> count_occ N.eq_dec (offs_of name (gfwd st0 ops)) off = 1%nat.
Proof.
  intros Hcfg Hm Hi Hwf Hr HB Hnr Hfr Q name g d s Hg Hd Hst Hs off Hoff.
  destruct (run_at_most_once _ _ _ _ (proj2 Hm) Hi Hr HB Hnr Hfr name) as [_ ND].
  apply (proj1 (NoDup_count_occ' N.eq_dec _) ND). eapply run_complete; eauto.
Qed.

(* ------------------------------------------------------------------ examples *)
Module C17RunCompleteExample.
Import C15Example C17Example C17WakeExample.

(** "a" alone subscribes to $share/g/t and is sent offset 0; a second message (offset 1) is
    appended; then a sends UNSUBSCRIBE and SUBSCRIBE in ONE DeviceData batch: the group is
    dropped and re-created inside that event — a new incarnation that starts at the tail of the
    log (2); a third message (offset 2) is forwarded.  Offset 1 belongs to no incarnation that
    is registered at the end. *)
Definition reinc_ops : list (list oracle * rop) := map no
  [ OpConnect (creq [97] true None); OpPush 0 (PSubscribe 1 [(shf, 0)] None); OpData 0; OpConsume; OpConsume;
    OpConnect (creq [112] true None);
    OpPush 1 (PPublish (mkpub [116] [49] 0 0 false) None); OpData 1; OpConsume; OpConsume; OpConsume;
    OpPush 1 (PPublish (mkpub [116] [50] 0 0 false) None); OpData 1;
    OpPush 0 (PUnsubscribe 2 [shf]); OpPush 0 (PSubscribe 3 [(shf, 0)] None); OpData 0;
    OpPush 1 (PPublish (mkpub [116] [51] 0 0 false) None); OpData 1;
    OpConsume; OpConsume; OpConsume; OpConsume; OpDrain 0; OpDrain 1 ].

Example reinc_state :
  let st := gw_st reinc_ops in
  run gw_st0 reinc_ops = Ok st /\
  gview st = [(key, [[97]], 0, (0, 3), Some [97], Some (3, 3, [(0, (0, 3), Some key)]))] /\
  starts gw_st0 reinc_ops = [(key, 2)] /\
  gfwd gw_st0 reinc_ops = [(key, [97], 0); (key, [97], 2)] /\
  forallb (fun x : list oracle * rop => op_wf_b (snd x)) reinc_ops = true /\
  bounded_b st = true /\ quiescent_b st (owed_run gw_st0 [] reinc_ops) = true /\
  no_rewind_b gw_st0 reinc_ops = true /\ rejoin_fresh_b gw_st0 reinc_ops = true.
Proof. cbv zeta. vm_compute. repeat split; reflexivity. Qed.

(** [run_exactly_once] applies to it: every offset of [2, 3) exactly once *)
Example run_exactly_once_applies :
  forall off, 2 <= off < 3 -> count_occ N.eq_dec (offs_of key (gfwd gw_st0 reinc_ops)) off = 1%nat.
Proof.
  destruct (al_get str_eqb key (r_groups (gw_st reinc_ops))) as [g |] eqn:Eg; [| vm_compute in Eg; discriminate].
  destruct (glog (r_datalog (gw_st reinc_ops)) key) as [d |] eqn:Ed; [| vm_compute in Ed; discriminate].
  assert (Er : run gw_st0 reinc_ops = Ok (gw_st reinc_ops)) by (vm_compute; reflexivity).
  destruct cfg0_ok as [C1 C2]. intros off Hoff.
  apply (run_exactly_once cfg0 gw_st0 reinc_ops (gw_st reinc_ops) C1 C2 gw_init) with (g := g) (d := d) (s := 2).
  - apply ops_wf_b. vm_compute. reflexivity.
  - exact Er.
  - apply bounded_b_spec. vm_compute. reflexivity.
  - vm_compute. reflexivity.
  - vm_compute. reflexivity.
  - apply quiescent_b_ok. vm_compute. reflexivity.
  - exact Eg.
  - exact Ed.
  - assert (Eh : Rumqtt.Log.Model.head (d_log d) = 0) by (vm_compute in Ed; inversion Ed; subst d; vm_compute; reflexivity).
    intros c. unfold stale. rewrite Eh. apply N.ltb_ge. lia.
  - vm_compute. reflexivity.
  - assert (Ee : end_of (d_log d) = 3) by (vm_compute in Ed; inversion Ed; subst d; vm_compute; reflexivity).
    rewrite Ee. exact Hoff.
Qed.

(** the two-member run of GroupWakeExamples.v: the incarnation starts at 0 *)
Example quiet_starts : starts gw_st0 quiet_ops = [(key, 0)] /\ starts gw_st0 strand_ops = [(key, 0)].
Proof. vm_compute. split; reflexivity. Qed.
End C17RunCompleteExample.
