(** C17, completeness clause — the hypotheses of the theorems of GroupWakeThm.v are met by
    concrete non-trivial reachable states (vm_compute), and the witness that [no_rewind_b] is
    necessary. *)
From Rumqtt Require Import Log.Spec.
From Rumqtt Require Import Router.Inv Router.NoPanic Router.ExactInv Router.RetainedReplay Router.Shared Router.SharedRun Router.SharedRunThm
  Router.WindowExamples Router.Wake Router.WakeCor Router.WakeExamples Router.GroupWake Router.GroupWakeMem Router.GroupWakeThm.
From Rumqtt Require Import Router.Model Router.RunDefs.
From Coq Require Import List ZifyBool ZifyN ZifyNat.
Import ListNotations.

Module C17WakeExample.
Import C15Example C17Example C17RunExample.

Definition key : str := [103; 47; 116].                     (* "g/t" *)

(** what the statements below look at: per registered group its members, turn, cursor, whose
    turn it is, and — for the log of the group key — the read position of the group cursor, the
    end of the log and the parked requests (connection, cursor, group) *)
Definition gview (st : rstate) :=
  map (fun ng : str * group =>
         (fst ng, g_clients (snd ng), g_idx (snd ng), g_cursor (snd ng), current_client (snd ng),
          match glog (r_datalog st) (fst ng) with
          | Some d => Some (pos_of (d_log d) (g_cursor (snd ng)), end_of (d_log d),
                            map (fun w => (fst w, dr_cursor (snd w), dr_group (snd w))) (d_waiters d))
          | None => None
          end)) (r_groups st).
Definition tview (st : rstate) :=
  map (fun o => match o with Some t => Some (tr_status t, map dr_group (tr_reqs t)) | None => None end)
      (sl_items (r_trackers st)).

Lemma cfg0_ok : cfg_ok cfg0 /\ 1 <= cf_max_outgoing cfg0 < B62.
Proof. vm_compute. repeat split; congruence. Qed.

(** the initial state and the state after [ops], as closed terms *)
Definition gw_st0 : rstate := force (init cfg0).
Definition gw_st (ops : list (list oracle * rop)) : rstate := force (run gw_st0 ops).
Lemma gw_init : init cfg0 = Ok gw_st0.
Proof. vm_compute. reflexivity. Qed.

(* ------------------------------------------------------------------ quiescence *)
(** "a" and "b" (clean sessions, QoS 0) share $share/g/t, round robin; "p" publishes ONE
    message: it goes to "a", the turn passes to "b"; everything is consumed and drained. *)
Definition quiet_ops : list (list oracle * rop) :=
  firstn 12 C17Example.ops ++
  map no [OpData 2; OpConsume; OpConsume; OpConsume; OpConsume; OpConsume; OpConsume; OpDrain 0; OpDrain 1].

(** the reachable state: two members, it is b's turn, a (connection 0) is parked although it
    is not its turn, b (connection 1) is parked too, the group cursor is at the end of the log;
    the run has no rewind, the state is bounded and quiescent *)
Example quiet_state :
  match init cfg0 with
  | Ok st0 =>
      match run st0 quiet_ops with
      | Ok st =>
          gview st = [(key, [[97]; [98]], 1, (0, 1), Some [98],
                       Some (1, 1, [(0, (0, 1), Some key); (1, (0, 1), Some key)]))] /\
          tview st = [Some (Paused Caughtup, []); Some (Paused Caughtup, []); Some (Paused Caughtup, [])] /\
          forallb (fun x : list oracle * rop => op_wf_b (snd x)) quiet_ops = true /\
          bounded_b st = true /\ no_rewind_b st0 quiet_ops = true /\
          quiescent_b st (owed_run st0 [] quiet_ops) = true
      | _ => False
      end
  | _ => False
  end.
Proof. vm_compute. repeat split; reflexivity. Qed.

(** [complete_quiescent] applies to it *)
Example complete_quiescent_applies :
  let st := gw_st quiet_ops in
  run gw_st0 quiet_ops = Ok st /\
  exists g d,
    al_get str_eqb key (r_groups st) = Some g /\ g_clients g = [[97]; [98]] /\
    glog (r_datalog st) key = Some d /\ pos_of (d_log d) (g_cursor g) = end_of (d_log d).
Proof.
  cbv zeta. assert (Er : run gw_st0 quiet_ops = Ok (gw_st quiet_ops)) by (vm_compute; reflexivity).
  split; [exact Er |].
  destruct (al_get str_eqb key (r_groups (gw_st quiet_ops))) as [g |] eqn:Eg; [| vm_compute in Eg; discriminate].
  destruct cfg0_ok as [C1 C2].
  destruct (complete_quiescent cfg0 gw_st0 quiet_ops (gw_st quiet_ops) C1 C2 gw_init) with (name := key) (g := g) as (d & Hd & Hp).
  - apply ops_wf_b. vm_compute. reflexivity.
  - exact Er.
  - apply bounded_b_spec. vm_compute. reflexivity.
  - vm_compute. reflexivity.
  - apply quiescent_b_ok. vm_compute. reflexivity.
  - exact Eg.
  - exists g, d. split; [reflexivity |]. split; [| split; assumption].
    vm_compute in Eg. inversion Eg; subst g. reflexivity.
Qed.

(* ------------------------------------------------------------------ the turn holder *)
(** the same run stopped right after the publish was accepted: the group cursor (offset 0) is
    behind the end of the log (1), it is a's turn, both members hold their shared request in
    their tracker and are [Ready] in the ready queue *)
Definition pending_ops : list (list oracle * rop) := firstn 12 C17Example.ops ++ map no [OpData 2].

Example pending_state :
  match init cfg0 with
  | Ok st0 =>
      match run st0 pending_ops with
      | Ok st =>
          gview st = [(key, [[97]; [98]], 0, (0, 0), Some [97], Some (0, 1, []))] /\
          tview st = [Some (Ready, [Some key]); Some (Ready, [Some key]); Some (Ready, [])] /\
          r_ready st = [2; 0; 1] /\
          forallb (fun x : list oracle * rop => op_wf_b (snd x)) pending_ops = true /\
          bounded_b st = true /\ no_rewind_b st0 pending_ops = true
      | _ => False
      end
  | _ => False
  end.
Proof. vm_compute. repeat split; reflexivity. Qed.

(** [turn_holder_runnable] applies to it: the turn holder "a" is connection 0, [Ready] and queued *)
Example turn_holder_applies :
  let st := gw_st pending_ops in
  run gw_st0 pending_ops = Ok st /\
  exists id t o rq,
    cli st id = Some [97] /\ slab_get (r_trackers st) id = Some t /\ slab_get (r_obufs st) id = Some o /\
    In rq (tr_reqs t) /\ dr_filter rq = gpath key /\ dr_group rq = Some key /\
    ((tr_status t = Ready /\ In id (r_ready st)) \/
     (tr_status t = Paused InflightFull /\ o_inflight o <> []) \/
     (tr_status t = Paused Busy /\
      (In NUnschedule (WindowFrame.out_of st (o_link o)) \/ In (o_link o) (owed_run gw_st0 [] pending_ops)))).
Proof.
  cbv zeta. assert (Er : run gw_st0 pending_ops = Ok (gw_st pending_ops)) by (vm_compute; reflexivity).
  split; [exact Er |].
  destruct (al_get str_eqb key (r_groups (gw_st pending_ops))) as [g |] eqn:Eg; [| vm_compute in Eg; discriminate].
  destruct (glog (r_datalog (gw_st pending_ops)) key) as [d |] eqn:Ed; [| vm_compute in Ed; discriminate].
  destruct cfg0_ok as [C1 C2].
  apply (turn_holder_runnable cfg0 gw_st0 pending_ops (gw_st pending_ops) C1 C2 gw_init) with (g := g) (d := d).
  - apply ops_wf_b. vm_compute. reflexivity.
  - exact Er.
  - apply bounded_b_spec. vm_compute. reflexivity.
  - vm_compute. reflexivity.
  - exact Eg.
  - exact Ed.
  - vm_compute in Eg, Ed. inversion Eg; subst g. inversion Ed; subst d. vm_compute. discriminate.
  - vm_compute in Eg. inversion Eg; subst g. reflexivity.
Qed.

(* ------------------------------------------------------------------ the rewind strands messages *)
(** K-C17-rewind and completeness.  "a" (clean_session = false) and "b" share $share/g/t at
    QoS 1, round robin; "p" publishes two messages: offset 0 goes to a, offset 1 to b; b
    acknowledges, a does not; both are parked at the end of the log (0,2).  a disconnects: the
    group cursor is rewound to a's unacknowledged offset (0,0) — while b, now the only member
    and the turn holder, STAYS PARKED at (0,2).  The broker is quiescent, the group is not
    empty, and the two entries [0,2) of the log sit unread behind a parked turn holder: nothing
    short of another publish on the topic wakes it (then b is sent offsets 0, 1 — the second
    one twice — and 2: [strand_then_publish]).  The run meets every hypothesis of
    [group_park_inv_reachable] / [complete_quiescent] except [no_rewind_b].

    Replayed on the real router (2026-09-23), same snapshots:
      printf 'SEED 1\nNEW 10 200 1024 2 rr 1\nCONNECT 61 0 0 0 -\nPUSH 0 SUB 1 - 2473686172652f672f74:1\nDATA 0\nCONNECT 62 1 0 0 -\nPUSH 1 SUB 1 - 2473686172652f672f74:1\nDATA 1\nCONSUME\nCONSUME\nCONSUME\nCONSUME\nCONNECT 70 1 0 0 -\nPUSH 2 PUB 74 31 0 0 0 0 -\nPUSH 2 PUB 74 32 0 0 0 0 -\nDATA 2\nCONSUME\nCONSUME\nCONSUME\nCONSUME\nCONSUME\nCONSUME\nDRAIN 0\nDRAIN 1\nPUSH 1 PUBACK 1\nDATA 1\nCONSUME\nCONSUME\nDISCONNECT 0\nCONSUME\nCONSUME\nCONSUME\nDRAIN 1\nSNAP\n' | /verif/build/target/debug/router
    last line: SNAP RQ[] T1:b:Paused(Caughtup)[] T2:p:Paused(Caughtup)[] L0:0.2[(1:$share/g/t,0.2)] ... Gg/t:["b"]@0:0.0 *)
Definition strand_ops : list (list oracle * rop) :=
  firstn 20 rewind_ops ++
  map no [ OpDrain 0; OpDrain 1; OpPush 1 (PPubAck 1); OpData 1; OpConsume; OpConsume;
           OpDisconnect 0; OpConsume; OpConsume; OpConsume; OpDrain 1 ].

Example strand_state :
  match init cfg0 with
  | Ok st0 =>
      match run st0 strand_ops with
      | Ok st =>
          (* b alone, its turn, group cursor (0,0): read position 0, log end 2, b parked at (0,2) *)
          gview st = [(key, [[98]], 0, (0, 0), Some [98], Some (0, 2, [(1, (0, 2), Some key)]))] /\
          tview st = [None; Some (Paused Caughtup, []); Some (Paused Caughtup, [])] /\
          forallb (fun x : list oracle * rop => op_wf_b (snd x)) strand_ops = true /\
          bounded_b st = true /\ quiescent_b st (owed_run st0 [] strand_ops) = true /\
          rejoin_fresh_b st0 strand_ops = true /\ no_rejoin_create_b st0 strand_ops = true /\
          no_rewind_b st0 strand_ops = false
      | _ => False
      end
  | _ => False
  end.
Proof. vm_compute. repeat split; reflexivity. Qed.

(** ... as a statement about reachable states: without [no_rewind_b] the conclusions of
    [group_park_inv_reachable] and [complete_quiescent] fail *)
Theorem rewind_strands_messages :
  exists st0 ops st g d id rq,
    cfg_ok cfg0 /\ 1 <= cf_max_outgoing cfg0 < B62 /\ init cfg0 = Ok st0 /\ ops_wf ops /\ run st0 ops = Ok st /\
    Bounded st /\ quiescent st (owed_run st0 [] ops) /\ rejoin_fresh_b st0 ops = true /\
    no_rewind_b st0 ops = false /\
    al_get str_eqb key (r_groups st) = Some g /\ g_clients g <> [] /\ glog (r_datalog st) key = Some d /\
    In (id, rq) (d_waiters d) /\ dr_group rq = Some key /\ cli st id = current_client g /\
    pos_of (d_log d) (g_cursor g) = 0 /\ end_of (d_log d) = 2.
Proof.
  assert (Er : run gw_st0 strand_ops = Ok (gw_st strand_ops)) by (vm_compute; reflexivity).
  destruct cfg0_ok as [C1 C2].
  destruct (al_get str_eqb key (r_groups (gw_st strand_ops))) as [g |] eqn:Eg; [| vm_compute in Eg; discriminate].
  destruct (glog (r_datalog (gw_st strand_ops)) key) as [d |] eqn:Ed; [| vm_compute in Ed; discriminate].
  destruct (d_waiters d) as [| [id rq] w] eqn:Ew; [vm_compute in Ed; inversion Ed; subst d; vm_compute in Ew; discriminate |].
  exists gw_st0, strand_ops, (gw_st strand_ops), g, d, id, rq.
  split; [exact C1 |]. split; [exact C2 |]. split; [exact gw_init |].
  split; [apply ops_wf_b; vm_compute; reflexivity |]. split; [exact Er |].
  split; [apply bounded_b_spec; vm_compute; reflexivity |].
  split; [apply quiescent_b_ok; vm_compute; reflexivity |].
  split; [vm_compute; reflexivity |]. split; [vm_compute; reflexivity |].
  split; [exact Eg |]. split; [vm_compute in Eg; inversion Eg; subst g; discriminate |].
  split; [exact Ed |]. split; [rewrite Ew; now left |].
  vm_compute in Eg, Ed. inversion Eg; subst g. inversion Ed; subst d. vm_compute in Ew. inversion Ew; subst id rq w.
  repeat split; vm_compute; reflexivity.
Qed.

(** the next publish releases them: b is sent offsets 0, 1 (again) and 2 *)
Definition more_ops : list (list oracle * rop) := map no
  [ OpPush 2 (PPublish (mkpub [116] [51] 0 0 false) None); OpData 2;
    OpConsume; OpConsume; OpConsume; OpConsume; OpConsume; OpDrain 1 ].

Example strand_then_publish :
  match init cfg0 with
  | Ok st0 =>
      match run st0 (strand_ops ++ more_ops) with
      | Ok st =>
          gview st = [(key, [[98]], 0, (0, 3), Some [98], Some (3, 3, [(1, (0, 3), Some key)]))] /\
          gfwd st0 (strand_ops ++ more_ops) =
            [(key, [97], 0); (key, [98], 1); (key, [98], 0); (key, [98], 1); (key, [98], 2)]
      | _ => False
      end
  | _ => False
  end.
Proof. vm_compute. repeat split; reflexivity. Qed.
End C17WakeExample.
