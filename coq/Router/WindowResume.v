(** C09 (c),(d) at the level of a whole DeviceData event: frame of the packet handlers on the
    scheduler and on the other connections ([hp_frame]); isolation of the other connections;
    resumption after an in-order acknowledgement. *)
From Coq Require Import ZArith ZifyBool ZifyN ZifyNat.
From Rumqtt Require Import Router.Model Router.RunDefs Router.WindowFrame Router.Window Router.WindowStep Router.WindowDisc Router.Acks.

(* ------------------------------------------------------------------ frame of the packet handlers on trackers / conns *)
(** what the handlers of connection [id]'s packets may do to the scheduler and to the other
    connections: trackers keep their keys and never leave [Ready]; the ready queue only grows;
    only [id]'s Connection changes; the Incoming slab is untouched *)
Definition hp_frame (id : N) (st st' : rstate) : Prop :=
  (forall i t, slab_get (r_trackers st) i = Some t ->
     exists t', slab_get (r_trackers st') i = Some t' /\ (tr_status t = Ready -> tr_status t' = Ready)) /\
  (forall i, slab_get (r_trackers st) i = None -> slab_get (r_trackers st') i = None) /\
  (forall x, In x (r_ready st) -> In x (r_ready st')) /\
  (forall i, i <> id -> slab_get (r_conns st') i = slab_get (r_conns st) i) /\
  r_ibufs st' = r_ibufs st.

Definition tk (st : rstate) := (r_trackers st, r_ready st, r_conns st, r_ibufs st).

Lemma hp_frame_refl id st : hp_frame id st st.
Proof. repeat split; auto. intros i t G. exists t. auto. Qed.

Lemma hp_frame_trans id st1 st2 st3 : hp_frame id st1 st2 -> hp_frame id st2 st3 -> hp_frame id st1 st3.
Proof.
  intros (A1 & A2 & A3 & A4 & A5) (B1 & B2 & B3 & B4 & B5). repeat split.
  - intros i t G. apply A1 in G as (t2 & G2 & S2). apply B1 in G2 as (t3 & G3 & S3). exists t3. split; auto.
  - auto.
  - auto.
  - intros i Hne. rewrite B4, A4 by exact Hne. reflexivity.
  - congruence.
Qed.

Lemma hp_frame_tk id st st' : tk st' = tk st -> hp_frame id st st'.
Proof.
  unfold tk. intros E. inversion E as [[E1 E2 E3 E4]]. unfold hp_frame. rewrite E1, E2, E3, E4. apply hp_frame_refl.
Qed.

Lemma hp_frame_tk_r id st st2 st' : tk st' = tk st2 -> hp_frame id st st2 -> hp_frame id st st'.
Proof. intros E H. eapply hp_frame_trans; [exact H | now apply hp_frame_tk]. Qed.

Lemma hp_frame_put_tracker id st i t t' :
  slab_get (r_trackers st) i = Some t -> (tr_status t = Ready -> tr_status t' = Ready) ->
  hp_frame id st (put_tracker st i t').
Proof.
  intros G S. repeat split; rsimpl; auto.
  - intros j tj Gj. destruct (N.eq_dec i j) as [<- | Hne].
    + rewrite (slab_get_put_occ _ _ _ _ G). exists t'. split; [reflexivity |]. rewrite G in Gj. inversion Gj; subst. exact S.
    + rewrite slab_get_put_other by exact Hne. exists tj. auto.
  - intros j Gj. destruct (N.eq_dec i j) as [<- | Hne]; [congruence |]. now rewrite slab_get_put_other.
Qed.

Lemma hp_frame_put_conn id st c : hp_frame id st (put_conn st id c).
Proof.
  repeat split; rsimpl; auto.
  - intros i t G. exists t. auto.
  - intros i Hne. apply slab_get_put_other. congruence.
Qed.

Lemma hp_frame_ready id st x : hp_frame id st (set_r_ready st (r_ready st ++ [x])).
Proof.
  repeat split; rsimpl; auto.
  - intros i t G. exists t. auto.
  - intros y Hy. apply in_or_app. now left.
Qed.

Lemma try_ready_status dbg t why t' woke :
  try_ready dbg t why = Ok (t', woke) ->
  (tr_status t = Ready -> tr_status t' = Ready) /\ (woke = true -> tr_status t' = Ready).
Proof. unfold try_ready. intros H. break_all H; inv_ok; split; intros; try discriminate; try reflexivity; assumption. Qed.

Lemma reschedule_hp id st i why st' : reschedule st i why = Ok st' -> hp_frame id st st'.
Proof.
  unfold reschedule, get_tracker. intros H.
  destruct (slab_get (r_trackers st) i) as [t |] eqn:G; [| discriminate]. cbn [bind] in H.
  apply bind_ok in H as ([t' woke] & H1 & H). apply try_ready_status in H1 as [S _]. inv_ok.
  destruct woke.
  - change (hp_frame id st (set_r_ready (put_tracker st i t') (r_ready (put_tracker st i t') ++ [i]))).
    eapply hp_frame_trans; [| apply hp_frame_ready]. eapply hp_frame_put_tracker; eauto.
  - eapply hp_frame_put_tracker; eauto.
Qed.

Lemma track_hp id st i rq st' : track st i rq = Ok st' -> hp_frame id st st'.
Proof.
  unfold track, get_tracker. intros H. destruct (slab_get (r_trackers st) i) as [t |] eqn:G; [| discriminate].
  cbn [bind] in H. inv_ok. eapply hp_frame_put_tracker; eauto.
Qed.
Lemma untrack_hp id st i f st' : untrack st i f = Ok st' -> hp_frame id st st'.
Proof.
  unfold untrack, get_tracker. intros H. destruct (slab_get (r_trackers st) i) as [t |] eqn:G; [| discriminate].
  cbn [bind] in H. inv_ok. eapply hp_frame_put_tracker; eauto.
Qed.

Lemma dl_matches_tk st t st' v : dl_matches st t = Ok (st', v) -> tk st' = tk st.
Proof. unfold dl_matches. intros H. break_all H; inv_ok; reflexivity. Qed.
Lemma next_native_offset_tk st f st' i c : next_native_offset st f = Ok (st', i, c) -> tk st' = tk st.
Proof. unfold next_native_offset. intros H. break_all H; inv_ok; reflexivity. Qed.
Lemma data_append_tk st i x st' : data_append st i x = Ok st' -> tk st' = tk st.
Proof. unfold data_append. intros H. break_all H; inv_ok; reflexivity. Qed.
Lemma append_all_tk idxs : forall st x st', append_all st idxs x = Ok st' -> tk st' = tk st.
Proof.
  induction idxs as [| i r IH]; intros st x st' H; cbn [append_all] in H; [now inv_ok |].
  apply bind_ok in H as (st1 & H1 & H2). apply data_append_tk in H1. apply IH in H2. congruence.
Qed.
Lemma retain_update_tk st t p pr : tk (retain_update st t p pr) = tk st.
Proof. unfold retain_update. destruct (p_retain p); [destruct (p_payload p) |]; reflexivity. Qed.

Lemma wake_all_hp id ns : forall st st', wake_all st ns = Ok st' -> hp_frame id st st'.
Proof.
  induction ns as [| [i rq] r IH]; intros st st' H; cbn [wake_all] in H; [inv_ok; apply hp_frame_refl |].
  apply bind_ok in H as (st1 & H1 & H). apply bind_ok in H as (st2 & H2 & H).
  eapply hp_frame_trans; [eapply track_hp; eauto |]. eapply hp_frame_trans; [eapply reschedule_hp; eauto |]. eauto.
Qed.
Lemma drain_notifications_hp id st st' : drain_notifications st = Ok st' -> hp_frame id st st'.
Proof.
  unfold drain_notifications. intros H. apply (wake_all_hp id) in H.
  eapply hp_frame_trans; [| exact H]. apply hp_frame_tk. reflexivity.
Qed.

Lemma append_to_commitlog_hp st id p props st' res :
  append_to_commitlog st id p props = Ok (st', res) -> hp_frame id st st'.
Proof.
  unfold append_to_commitlog, get_conn. intros H. break_all H; inv_ok;
  repeat match goal with
         | E : dl_matches _ _ = Ok _ |- _ => apply dl_matches_tk in E
         | E : append_all _ _ _ = Ok _ |- _ => apply append_all_tk in E
         end;
  try apply hp_frame_refl.
  all: try (eapply hp_frame_tk_r; [| apply hp_frame_refl]; rewrite ?retain_update_tk in *; congruence).
  all: eapply hp_frame_tk_r; [| apply (hp_frame_put_conn id st)]; rewrite ?retain_update_tk in *; try congruence.
  all: try reflexivity.
  all: repeat match goal with E : tk _ = tk _ |- _ => rewrite E; clear E end; rewrite ?retain_update_tk; try reflexivity.
Qed.


Lemma prepare_filter_hp st id cu fidx path qos grp subid st' :
  prepare_filter st id cu fidx path qos grp subid = Ok st' -> hp_frame id st st'.
Proof.
  unfold prepare_filter, get_conn, dbg_no_dups. intros H. cbv zeta in H.
  match type of H with context [slab_get (r_conns ?s) id] => set (st1 := s) in * end.
  assert (T1 : tk st1 = tk st) by reflexivity.
  destruct (slab_get (r_conns st1) id) as [conn |] eqn:G; [| discriminate]. cbn [bind] in H.
  match type of H with context [set_mem str_eqb path (c_subs ?c)] => set (conn1 := c) in * end.
  match type of H with context [put_conn ?s id conn1] => set (st2 := s) in * end.
  assert (T2 : tk st2 = tk st1) by reflexivity.
  destruct (set_mem str_eqb path (c_subs conn1)).
  - inv_ok. eapply hp_frame_trans; [| apply hp_frame_put_conn]. apply hp_frame_tk; congruence.
  - apply bind_ok in H as (st4 & H4 & H). apply bind_ok in H as (st5 & H5 & H). apply bind_ok in H as (_ & _ & H).
    inv_ok. eapply (hp_frame_trans _ _ st2); [apply hp_frame_tk; congruence |].
    eapply hp_frame_trans; [apply hp_frame_put_conn |].
    eapply hp_frame_trans; [eapply track_hp; eauto | eapply reschedule_hp; eauto].
Qed.

Lemma subscribe_filters_hp fs : forall st id subid fl codes st' fl' codes',
  subscribe_filters st id fs subid fl codes = Ok (st', fl', codes') -> hp_frame id st st'.
Proof.
  induction fs as [| [path qos] r IH]; intros st id subid fl codes st' fl' codes' H;
    cbn [subscribe_filters] in H.
  - inv_ok. apply hp_frame_refl.
  - destruct (negb (validate_subscription path)); [inv_ok; apply hp_frame_refl |].
    destruct (match extract_group path with Some (g, p) => (Some g, p) | None => (None, path) end) as [grp filter].
    destruct (match subid with Some 0 => true | _ => false end); [inv_ok; apply hp_frame_refl |].
    apply bind_ok in H as ([[st1 idx] cu] & H1 & H). apply bind_ok in H as (st2 & H2 & H).
    apply next_native_offset_tk in H1.
    eapply hp_frame_trans; [apply hp_frame_tk; exact H1 |].
    eapply hp_frame_trans; [eapply prepare_filter_hp; eauto | eauto].
Qed.

Lemma unsubscribe_filters_hp fs : forall st id client reasons st' reasons',
  unsubscribe_filters st id client fs reasons = Ok (st', reasons') -> hp_frame id st st'.
Proof.
  induction fs as [| f r IH]; intros st id client reasons st' reasons' H;
    cbn [unsubscribe_filters] in H.
  - inv_ok. apply hp_frame_refl.
  - cbv zeta in H.
    destruct (negb _) in H; [now apply IH in H |].
    match type of H with context [get_conn ?s id] => remember s as st1 eqn:Est1 end.
    assert (K1 : tk st1 = tk st) by (subst st1; destruct (al_get str_eqb f (r_submap st)); reflexivity).
    clear Est1.
    apply bind_ok in H as (conn & H1 & H).
    destruct (negb _) in H; [apply IH in H; eapply hp_frame_trans; [apply hp_frame_tk; exact K1 | exact H] |].
    apply bind_ok in H as (st4 & H4 & H). apply bind_ok in H as (st5 & H5 & H).
    apply IH in H. apply (untrack_hp id) in H4. unfold remove_waiters_for_id in H5. inv_ok.
    eapply hp_frame_trans; [apply hp_frame_tk; exact K1 |].
    eapply hp_frame_trans; [| exact H].
    eapply hp_frame_trans; [| eapply hp_frame_trans; [exact H4 | apply hp_frame_tk; reflexivity]].
    eapply hp_frame_trans; [apply hp_frame_put_conn | apply hp_frame_tk; reflexivity].
Qed.

Lemma commit_ack_tk st id a st' : commit_ack st id a = Ok st' -> tk st' = tk st.
Proof. intros H. apply commit_ack_spec in H as (l & _ & ->). reflexivity. Qed.

Lemma handle_packet_hp st id client pk fl st' fl' brk :
  handle_packet st id client pk fl = Ok (st', fl', brk) -> hp_frame id st st'.
Proof.
  intros H. destruct pk; unfold handle_packet in H.
  - cbv zeta in H. destruct (p_qos p =? 1).
    + apply bind_ok in H as (st1 & H1 & H). apply commit_ack_tk in H1.
      apply bind_ok in H as ([st2 res] & H2 & H). apply append_to_commitlog_hp in H2.
      eapply hp_frame_trans; [apply hp_frame_tk; exact H1 |]. destruct res; inv_ok; exact H2.
    + destruct (p_qos p =? 2).
      * apply bind_ok in H as (l & _ & H). inv_ok. apply hp_frame_tk. reflexivity.
      * apply bind_ok in H as ([st2 res] & H2 & H). apply append_to_commitlog_hp in H2. destruct res; inv_ok; exact H2.
  - apply bind_ok in H as ([[st1 fl1] codes] & H1 & H). apply bind_ok in H as (st2 & H2 & H). inv_ok.
    apply subscribe_filters_hp in H1. apply commit_ack_tk in H2.
    eapply hp_frame_trans; [exact H1 | apply hp_frame_tk; exact H2].
  - apply bind_ok in H as (c0 & _ & H). apply bind_ok in H as ([st1 reasons] & H1 & H).
    apply bind_ok in H as (st2 & H2 & H). inv_ok.
    apply unsubscribe_filters_hp in H1. apply commit_ack_tk in H2.
    eapply hp_frame_trans; [exact H1 | apply hp_frame_tk; exact H2].
  - apply bind_ok in H as (o & _ & H). destruct (register_ack o pkid) as [o' ok]. destruct ok.
    + apply bind_ok in H as (st2 & H2 & H). inv_ok. apply (reschedule_hp id) in H2.
      eapply hp_frame_trans; [apply hp_frame_tk | exact H2]. reflexivity.
    + inv_ok. apply hp_frame_tk. reflexivity.
  - apply bind_ok in H as (o & _ & H). destruct (register_ack o pkid) as [o' ok]. destruct ok.
    + apply bind_ok in H as (l & _ & H). apply bind_ok in H as (st2 & H2 & H). apply bind_ok in H as (st3 & H3 & H).
      inv_ok. apply commit_ack_tk in H2. apply (reschedule_hp id) in H3.
      eapply hp_frame_trans; [apply hp_frame_tk | exact H3]. rewrite H2. reflexivity.
    + inv_ok. apply hp_frame_tk. reflexivity.
  - apply bind_ok in H as (l & _ & H). destruct (a_recorded l) as [| [p props] rec].
    + inv_ok. apply hp_frame_tk. reflexivity.
    + apply bind_ok in H as ([st2 res] & H2 & H). apply append_to_commitlog_hp in H2.
      eapply hp_frame_trans; [apply hp_frame_tk | eapply hp_frame_trans; [exact H2 |]]; [reflexivity |].
      destruct res; [| inv_ok; apply hp_frame_refl].
      apply bind_ok in H as (st3 & H3 & H). inv_ok. eapply reschedule_hp; eauto.
  - apply bind_ok in H as (o & _ & H). destruct (register_pubcomp o pkid) as [o' ok].
    destruct ok; inv_ok; apply hp_frame_tk; reflexivity.
  - apply bind_ok in H as (st1 & H1 & H). inv_ok. apply hp_frame_tk. eapply commit_ack_tk; eauto.
  - inv_ok. apply hp_frame_tk. reflexivity.
  - inv_ok. apply hp_frame_refl.
Qed.

Lemma handle_packets_hp pks : forall st id client fl st' fl',
  handle_packets st id client pks fl = Ok (st', fl') -> hp_frame id st st'.
Proof.
  induction pks as [| pk r IH]; intros st id client fl st' fl' H; cbn [handle_packets] in H.
  - inv_ok. apply hp_frame_refl.
  - apply bind_ok in H as ([[st1 fl1] brk] & H1 & H). apply handle_packet_hp in H1.
    destruct brk; [now inv_ok |]. eapply hp_frame_trans; eauto.
Qed.

Lemma handle_device_payload_hp st id st3 inc b st1 fl :
  slab_get (r_ibufs st) id = Some inc -> nthN (r_links st) (i_link inc) = Some b ->
  handle_packets (link_put st (i_link inc) (set_lk_in b [])) id (i_client inc) (lk_in b) flags0 = Ok (st1, fl) ->
  (do st2 <- (if f_force_ack fl then reschedule st1 id SFreshData else Ok st1);
   (if f_new_data fl then drain_notifications st2 else Ok st2)) = Ok st3 ->
  hp_frame id st st3.
Proof.
  intros G Hb H1 H. apply bind_ok in H as (st2 & H2 & H3).
  apply handle_packets_hp in H1.
  eapply hp_frame_trans; [apply hp_frame_tk; reflexivity |]. eapply hp_frame_trans; [exact H1 |].
  eapply hp_frame_trans.
  - destruct (f_force_ack fl); [eapply reschedule_hp; eauto | inv_ok; apply hp_frame_refl].
  - destruct (f_new_data fl); [eapply drain_notifications_hp; eauto | inv_ok; apply hp_frame_refl].
Qed.

(** C09 (c) / C14 flavour: a [DeviceData] event of connection [id] -- whatever it contains,
    including unsolicited acks that close [id] -- leaves every other connection's Outgoing,
    ack log, Connection and Incoming entries untouched, keeps its tracker, and never takes a
    tracker out of [Ready] *)
Theorem device_data_isolation st id st' :
  handle_device_payload st id = Ok st' ->
  forall id', id' <> id ->
    slab_get (r_obufs st') id' = slab_get (r_obufs st) id' /\
    slab_get (r_acks st') id' = slab_get (r_acks st) id' /\
    slab_get (r_conns st') id' = slab_get (r_conns st) id' /\
    slab_get (r_ibufs st') id' = slab_get (r_ibufs st) id' /\
    (forall t, slab_get (r_trackers st) id' = Some t ->
       exists t', slab_get (r_trackers st') id' = Some t' /\ (tr_status t = Ready -> tr_status t' = Ready)) /\
    (slab_get (r_trackers st) id' = None -> slab_get (r_trackers st') id' = None).
Proof.
  intros H id' Hne.
  pose proof (handle_device_payload_obs _ _ _ H) as ([OB _] & _).
  pose proof (handle_device_payload_acks _ _ _ H) as [AK _].
  split; [now apply OB |]. split; [now apply AK |].
  unfold handle_device_payload, link_get in H.
  destruct (slab_get (r_ibufs st) id) as [inc |] eqn:G.
  2:{ inv_ok. repeat split; auto. intros t Gt. exists t. auto. }
  destruct (nthN (r_links st) (i_link inc)) as [b |] eqn:Hb; [| discriminate]. cbn [bind] in H.
  apply bind_ok in H as ([st1 fl] & H1 & H).
  assert (HH : exists st3, hp_frame id st st3 /\ (st' = st3 \/ handle_disconnection st3 id (f_reason fl) = Ok st')).
  { apply bind_ok in H as (st2 & H2 & H). apply bind_ok in H as (st3 & H3 & H). exists st3. split.
    - eapply handle_device_payload_hp; eauto. rewrite H2. cbn [bind]. exact H3.
    - destruct (f_disconnect fl); [now right | left; now inv_ok]. }
  destruct HH as (st3 & (F1 & F2 & F3 & F4 & F5) & [-> | HD]).
  - split; [now apply F4 |]. split; [now rewrite F5 |]. split; [apply F1 | apply F2].
  - apply handle_disconnection_others in HD as [_ D]. destruct (D id' Hne) as (D1 & _ & D3 & _ & D5).
    split; [rewrite D1; now apply F4 |]. split; [now rewrite D5, F5 |]. split.
    + intros t Gt. rewrite D3. now apply F1.
    + intros Gt. rewrite D3. now apply F2.
Qed.

(* ------------------------------------------------------------------ C09 (d) at the level of a DeviceData event *)
Definition ready_in (id : N) (st : rstate) : Prop :=
  exists t, slab_get (r_trackers st) id = Some t /\ tr_status t = Ready /\ In id (r_ready st).

Lemma hp_frame_ready_in id0 id st st' : hp_frame id0 st st' -> ready_in id st -> ready_in id st'.
Proof.
  intros (F1 & _ & F3 & _) (t & G & S & I). apply F1 in G as (t' & G' & S'). exists t'. auto.
Qed.

(** after an in-order PUBACK / PUBREC arrives for a connection whose tracker is paused for a full
    window or caught up (or is already scheduled), and the batch does not end in a
    disconnection, the connection is [Ready] and in the ready queue at the end of the event:
    the broker resumes forwarding with no further stimulus *)
Theorem resume_after_ack st id inc b s fls p pkid o h r t st' :
  slab_get (r_ibufs st) id = Some inc -> nthN (r_links st) (i_link inc) = Some b ->
  processed id (i_client inc) (link_put st (i_link inc) (set_lk_in b [])) flags0 (lk_in b) s fls p ->
  p = PPubAck pkid \/ p = PPubRec pkid ->
  slab_get (r_obufs s) id = Some o -> o_inflight o = h :: r -> pkid = pkid_of h ->
  slab_get (r_trackers s) id = Some t ->
  tr_status t = Paused InflightFull \/ tr_status t = Paused Caughtup \/ (tr_status t = Ready /\ In id (r_ready s)) ->
  handle_device_payload st id = Ok st' -> slab_get (r_obufs st') id <> None ->
  ready_in id st'.
Proof.
  intros G Hb P Hp Go Eo Epk Gt St H NN.
  destruct (processed_eq _ _ _ _ _ _ _ _ P) as (rest & EQ).
  unfold handle_device_payload, link_get in H. rewrite G, Hb in H. cbn [bind] in H.
  rewrite EQ in H. cbn [handle_packets] in H.
  assert (HP : exists s1, handle_packet s id (i_client inc) p fls = Ok (s1, fls, false) /\ ready_in id s1).
  { pose proof (woken_cases t) as W.
    assert (RI : forall s0 : rstate, tk s0 = tk s ->
              ready_in id (if snd (woken t) then set_r_ready (put_tracker s0 id (fst (woken t))) (r_ready s ++ [id])
                           else put_tracker s0 id (fst (woken t)))).
    { intros s0 E0. unfold tk in E0. inversion E0 as [[E1 E2 E3 E4]].
      assert (G0 : slab_get (r_trackers s0) id = Some t) by (now rewrite E1).
      destruct St as [S | [S | [S I]]]; rewrite S in W.
      - destruct W as (W1 & W2 & _). rewrite W2. exists (fst (woken t)). rsimpl.
        split; [eapply slab_get_put_occ; eauto |]. split; [exact W1 |]. apply in_or_app. right. now left.
      - destruct W as (W1 & W2 & _). rewrite W2. exists (fst (woken t)). rsimpl.
        split; [eapply slab_get_put_occ; eauto |]. split; [exact W1 |]. apply in_or_app. right. now left.
      - rewrite W. cbn [fst snd]. exists t. rsimpl.
        split; [eapply slab_get_put_occ; eauto |]. split; [exact S |]. now rewrite E2. }
    destruct Hp as [-> | ->].
    - rewrite (handle_packet_puback_inorder _ _ _ _ _ _ _ _ _ Go Eo Epk Gt). eexists. split; [reflexivity |].
      cbv zeta. apply RI. reflexivity.
    - destruct (slab_get (r_acks s) id) as [l |] eqn:Ga.
      + rewrite (handle_packet_pubrec_inorder _ _ _ _ _ _ _ _ _ _ Go Eo Epk Gt Ga). eexists. split; [reflexivity |].
        cbv zeta. apply RI. reflexivity.
      + exfalso. unfold handle_packet, get_obuf, get_acks in H. rewrite Go in H. cbn [bind] in H.
        unfold register_ack in H. rewrite Eo in H.
        destruct h as [[hp x] y]. cbn [pkid_of fst] in Epk. subst pkid. replace (hp =? hp) with true in H by lia.
        rewrite Ga in H. cbn [bind] in H. discriminate. }
  destruct HP as (s1 & HP & R1). rewrite HP in H. cbn [bind] in H.
  apply bind_ok in H as ([st1 fl] & H1 & H). apply bind_ok in H as (st2 & H2 & H). apply bind_ok in H as (st3 & H3 & H).
  assert (R3 : ready_in id st3).
  { apply handle_packets_hp in H1. eapply hp_frame_ready_in; [| eapply hp_frame_ready_in; [| eapply hp_frame_ready_in; [exact H1 | exact R1]]].
    - destruct (f_new_data fl); [eapply drain_notifications_hp; eauto | inv_ok; apply (hp_frame_refl id)].
    - destruct (f_force_ack fl); [eapply reschedule_hp; eauto | inv_ok; apply (hp_frame_refl id)]. }
  destruct (f_disconnect fl); [| now inv_ok].
  apply handle_disconnection_others in H as [D _]. contradiction.
Qed.
