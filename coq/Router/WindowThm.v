(** C09 (a),(b): the pinned theorems.  [window_ok] spells the window out with the constants of
    Gen/Params.v evaluated (MAX_INFLIGHT = MAX_PKID = 100, proved by reflexivity: a change of
    the constant in the Rust source breaks these proofs); a non-trivial reachable witness. *)
From Coq Require Import ZArith ZifyBool ZifyN ZifyNat.
From Rumqtt Require Import Router.Model Router.RunDefs Router.WindowFrame Router.Window Router.WindowStep.
Ltac Zify.zify_post_hook ::= Z.div_mod_to_equations.
(* ------------------------------------------------------------------ C09 (a) *)
Lemma nthN_map {X Y} (f : X -> Y) (l : list X) : forall i,
  nthN (map f l) i = match nthN l i with Some x => Some (f x) | None => None end.
Proof.
  induction l as [| x r IH]; intros i; cbn [map nthN]; [reflexivity |].
  destruct (i =? 0); [reflexivity | apply IH].
Qed.

Lemma id_at_succ last n i : n <= MAX_PKID -> i + 1 < n ->
  id_at last n (i + 1) = if id_at last n i =? MAX_PKID then 1 else id_at last n i + 1.
Proof.
  unfold id_at. rewrite MAX_PKID_100. intros.
  destruct ((last + 100 - n + i) mod 100 + 1 =? 100) eqn:E; lia.
Qed.

(** the window of one Outgoing, with the constants spelled out *)
Definition window_ok (o : outgoing) : Prop :=
  lenN (o_inflight o) <= 100 /\ (length (o_inflight o) <= 100)%nat /\
  (forall p, In p (pkids o) -> 1 <= p <= 100) /\
  NoDup (pkids o) /\
  o_last o < 100 /\
  (forall i e, nthN (o_inflight o) i = Some e ->
               pkid_of e = (o_last o + 100 - lenN (o_inflight o) + i) mod 100 + 1) /\
  (forall i p q, nthN (pkids o) i = Some p -> nthN (pkids o) (i + 1) = Some q ->
                 q = if p =? 100 then 1 else p + 1) /\
  (forall p, nthN (pkids o) (lenN (o_inflight o) - 1) = Some p ->
             o_last o = if p =? 100 then 0 else p).

Lemma WinInv_window_ok o : WinInv o -> window_ok o.
Proof.
  intros W. pose proof W as [Hl Hn Hi]. rewrite MAX_PKID_100 in Hl. rewrite MAX_INFLIGHT_100 in Hn.
  split; [exact Hn |]. split; [unfold lenN in Hn; lia |].
  split; [intros p Hp; rewrite <- MAX_PKID_100; eapply WinInv_range; eauto |].
  split; [now apply WinInv_nodup |]. split; [exact Hl |].
  split; [intros i e G; rewrite (Hi _ _ G); unfold id_at; now rewrite MAX_PKID_100 |].
  split.
  - intros i p q Gp Gq. unfold pkids in *. rewrite nthN_map in Gp, Gq.
    destruct (nthN (o_inflight o) i) as [e1 |] eqn:G1; [| discriminate].
    destruct (nthN (o_inflight o) (i + 1)) as [e2 |] eqn:G2; [| discriminate].
    inversion Gp; inversion Gq; subst. rewrite (Hi _ _ G1), (Hi _ _ G2).
    apply nthN_some_lt in G2. rewrite id_at_succ by (rewrite ?MAX_PKID_100; lia).
    now rewrite MAX_PKID_100.
  - intros p Gp. unfold pkids in Gp. rewrite nthN_map in Gp.
    destruct (nthN (o_inflight o) (lenN (o_inflight o) - 1)) as [e |] eqn:G; [| discriminate].
    inversion Gp; subst. rewrite (Hi _ _ G). apply nthN_some_lt in G.
    rewrite id_at_last by (rewrite ?MAX_PKID_100; lia). rewrite MAX_PKID_100.
    destruct (o_last o =? 0) eqn:E.
    + replace (100 =? 100) with true by lia. lia.
    + destruct (o_last o =? 100) eqn:E2; [lia | reflexivity].
Qed.

Theorem c09_window_thm cfg st :
  reachable cfg st -> forall id o, slab_get (r_obufs st) id = Some o -> window_ok o.
Proof. intros R id o G. apply WinInv_window_ok. eapply reachable_ObInv; eauto. Qed.

(* ---- a decidable check of WinInv, and a non-trivial reachable witness *)
Fixpoint ids_from (l : list (N * N * option cursor)) (last n i : N) : bool :=
  match l with
  | [] => true
  | e :: r => (pkid_of e =? id_at last n i) && ids_from r last n (i + 1)
  end.
Definition win_check (o : outgoing) : bool :=
  (o_last o <? MAX_PKID) && (lenN (o_inflight o) <=? MAX_INFLIGHT) &&
  ids_from (o_inflight o) (o_last o) (lenN (o_inflight o)) 0.

Lemma ids_from_ok l last n : forall i0, ids_from l last n i0 = true ->
  forall i e, nthN l i = Some e -> pkid_of e = id_at last n (i0 + i).
Proof.
  induction l as [| x r IH]; intros i0 H i e G; cbn [nthN ids_from] in *; [discriminate |].
  apply andb_prop in H as [H1 H2]. destruct (i =? 0) eqn:E.
  - inversion G; subst. replace (i0 + i) with i0 by lia. lia.
  - rewrite (IH _ H2 _ _ G). f_equal. lia.
Qed.
Lemma win_check_ok o : win_check o = true -> WinInv o.
Proof.
  unfold win_check. intros H. apply andb_prop in H as [H H3]. apply andb_prop in H as [H1 H2].
  split; [lia | lia |]. intros i e G. now rewrite (ids_from_ok _ _ _ _ H3 _ _ G).
Qed.

Definition ex_cfg : config :=
  {| cf_max_connections := 10; cf_max_outgoing := 200; cf_seg_size := 1024; cf_seg_count := 2;
     cf_init_filters := []; cf_strategy := RoundRobin; cf_debug_assertions := true |}.
Definition ex_conn (c : N) : rop :=
  OpConnect {| cr_client := [c]; cr_clean := true; cr_dynamic := false; cr_alias_max := 0; cr_will := None |}.
Definition ex_pub (pk : N) : packet :=
  PPublish {| p_dup := false; p_qos := 1; p_retain := false; p_topic := [116]; p_pkid := pk; p_payload := [pk] |} None.
(** subscriber "s" (id 0, link 0) on "t" with QoS 1, publisher "p" (id 1, link 1) sends four
    QoS1 publishes; three consumes forward them; the subscriber acknowledges the first *)
Definition ex_ops : list (list oracle * rop) :=
  map (fun o => ([], o))
    [ ex_conn 115; ex_conn 112;
      OpPush 0 (PSubscribe 1 [([116], 1)] None); OpData 0;
      OpPush 1 (ex_pub 1); OpPush 1 (ex_pub 2); OpPush 1 (ex_pub 3); OpPush 1 (ex_pub 4); OpData 1;
      OpConsume; OpConsume; OpConsume;
      OpPush 0 (PPubAck 1); OpData 0 ].

Example window_witness :
  exists st0 st o,
    init ex_cfg = Ok st0 /\ run st0 ex_ops = Ok st /\ reachable ex_cfg st /\
    slab_get (r_obufs st) 0 = Some o /\
    pkids o = [2; 3; 4] /\ o_last o = 4 /\ win_check o = true /\ WinInv o /\
    fwd_ids (out_of st 0) = [1; 2; 3; 4].
Proof.
  destruct (init ex_cfg) as [st0 | |] eqn:E0; try (vm_compute in E0; discriminate).
  destruct (run st0 ex_ops) as [st | |] eqn:E1;
    try (vm_compute in E0; inversion E0; subst st0; vm_compute in E1; discriminate).
  destruct (slab_get (r_obufs st) 0) as [o |] eqn:E2;
    try (vm_compute in E0; inversion E0; subst st0; vm_compute in E1; inversion E1; subst st; vm_compute in E2; discriminate).
  exists st0, st, o.
  assert (C : pkids o = [2; 3; 4] /\ o_last o = 4 /\ win_check o = true /\ fwd_ids (out_of st 0) = [1; 2; 3; 4]).
  { vm_compute in E0; inversion E0; subst st0; vm_compute in E1; inversion E1; subst st;
    vm_compute in E2; inversion E2; subst o. vm_compute. repeat split. }
  destruct C as (C1 & C2 & C3 & C4).
  split; [reflexivity |]. split; [exact E1 |]. split; [exists st0, ex_ops; split; assumption |].
  split; [exact E2 |]. split; [exact C1 |]. split; [exact C2 |]. split; [exact C3 |].
  split; [now apply win_check_ok | exact C4].
Qed.

(* ------------------------------------------------------------------ C09 (b) *)
(** the QoS>0 forwards among [added] (pushed to link [k]) carry exactly the ids appended to the
    inflight buffer of the connection that owns link [k] *)
Definition wire_ok (st st' : rstate) (k : N) (added : list notification) : Prop :=
  fwd_ids added = [] \/
  exists id o o', slab_get (r_obufs st) id = Some o /\ slab_get (r_obufs st') id = Some o' /\
                  o_link o = k /\ o_link o' = k /\ pkids o' = pkids o ++ fwd_ids added.

Lemma out_quiet_wire st st' : out_quiet st st' ->
  forall k, exists added, out_of st' k = out_of st k ++ added /\ fwd_ids added = [] /\ acks_of added = [].
Proof. intros Q k. destruct (Q k) as (added & E & C). exists added. split; [exact E | now apply ctl_quiet]. Qed.

Lemma step_out st op st' out :
  step st op = Ok (st', out) -> forall k,
  (exists added, out_of st' k = out_of st k ++ added /\ wire_ok st st' k added) \/
  (op = OpDrain k /\ out = OutDrain (out_of st k) /\ out_of st' k = []).
Proof.
  intros H k.
  assert (QW : out_quiet st st' -> exists added, out_of st' k = out_of st k ++ added /\ wire_ok st st' k added).
  { intros Q. destruct (out_quiet_wire _ _ Q k) as (added & E & F & _). exists added. split; [exact E | now left]. }
  unfold step in H. destruct op.
  - left. apply QW. apply bind_ok in H as (st2 & H2 & H). inv_ok.
    apply handle_new_connection_inv in H2 as (L & _). apply out_quiet_out. intros k'.
    unfold out_of at 1. rewrite L. apply out_of_snoc_empty.
  - left. apply QW. destruct (nthN (r_links st) link) as [b |] eqn:Hb; inv_ok; [| now apply out_quiet_eq].
    apply out_quiet_out. intros k'. now apply link_put_in_out.
  - left. apply QW. apply bind_ok in H as (st1 & H1 & H). inv_ok. now apply handle_device_payload_obs in H1.
  - left. apply bind_ok in H as ([st1 b] & H1 & H). inv_ok.
    apply consume_delta in H1 as [K | (id & rest & o & l & st3 & _ & G & _ & A & _ & _ & _ & O3 & C)].
    + apply QW. apply out_quiet_eq. now apply keep_links.
    + destruct C as (_ & _ & _ & _ & C). assert (G3 : slab_get (r_obufs st3) id = Some o) by (now rewrite A).
      destruct (C o G3) as (o' & added & G' & L' & O' & _ & P').
      destruct (k =? o_link o) eqn:E.
      * assert (k = o_link o) by lia. subst k.
        exists (map NAck (a_committed l) ++ added). split.
        -- rewrite O', O3, E, app_assoc. reflexivity.
        -- right. exists id, o, o'. rewrite fwd_ids_app, fwd_ids_map_NAck. cbn [app]. repeat split; assumption.
      * exists []. split; [rewrite O', O3, E, !app_nil_r; reflexivity | now left].
  - destruct (nthN (r_links st) link) as [b |] eqn:Hb; inv_ok; [| left; apply QW; now apply out_quiet_eq].
    destruct (N.eq_dec link k) as [-> | Hne].
    + right. unfold out_of. rsimpl. rewrite nthN_setN_same, Hb. repeat split.
    + left. exists []. split; [| now left]. rewrite app_nil_r. unfold out_of. rsimpl.
      now rewrite nthN_setN_other.
  - left. apply QW. destruct (slab_get (r_trackers st) id); [| inv_ok; now apply out_quiet_eq].
    apply bind_ok in H as (st1 & H1 & H). inv_ok. apply reschedule_keep in H1.
    apply out_quiet_eq. now apply keep_links.
  - left. apply QW. apply bind_ok in H as (st1 & H1 & H). inv_ok. now apply handle_disconnection_obs in H1.
  - left. apply QW. apply bind_ok in H as (st1 & H1 & H). inv_ok. now apply retrieve_shadow_obs in H1.
  - left. apply QW. apply bind_ok in H as (st1 & H1 & H). inv_ok. apply handle_last_will_keep in H1.
    apply out_quiet_eq. now apply keep_links.
  - left. apply QW. inv_ok. now apply out_quiet_eq.
Qed.

Lemma step_with_out st orc op st' out :
  step_with st orc op = Ok (st', out) -> forall k,
  (exists added, out_of st' k = out_of st k ++ added /\ wire_ok st st' k added) \/
  (op = OpDrain k /\ out = OutDrain (out_of st k) /\ out_of st' k = []).
Proof.
  unfold step_with. intros H k. apply bind_ok in H as ([st1 out1] & H1 & H).
  destruct (r_oracle st1); [| discriminate]. inv_ok. exact (step_out _ _ _ _ H1 k).
Qed.

Lemma NoDup_app_disjoint {X} (a b : list X) : NoDup (a ++ b) -> forall x, In x b -> ~ In x a.
Proof.
  induction a as [| y a IH]; intros H x Hb Ha; [contradiction |]. cbn [app] in H.
  inversion H as [| ? ? Hn Hd]; subst. destruct Ha as [-> | Ha].
  - apply Hn. apply in_or_app. now right.
  - exact (IH Hd x Hb Ha).
Qed.

Lemma NoDup_app_r {X} (a b : list X) : NoDup (a ++ b) -> NoDup b.
Proof. induction a as [| y a IH]; intros H; [exact H |]. inversion H; subst. auto. Qed.

(** what goes on the wire is what the window tracks: fresh, in range, pairwise distinct *)
Theorem c09_forward_ids_thm cfg st orc op st' out :
  reachable cfg st -> step_with st orc op = Ok (st', out) ->
  forall k added, out_of st' k = out_of st k ++ added ->
  fwd_ids added = [] \/
  exists id o o',
    slab_get (r_obufs st) id = Some o /\ slab_get (r_obufs st') id = Some o' /\
    o_link o = k /\ o_link o' = k /\
    pkids o' = pkids o ++ fwd_ids added /\ window_ok o' /\
    NoDup (fwd_ids added) /\
    (forall p, In p (fwd_ids added) -> 1 <= p <= 100 /\ ~ In p (pkids o)).
Proof.
  intros R H k added E.
  destruct (step_with_out _ _ _ _ _ H k) as [(added' & E' & W) | (_ & _ & E')].
  - assert (added' = added) by (rewrite E in E'; now apply app_inv_head in E'). subst added'.
    destruct W as [W | (id & o & o' & G & G' & L & L' & P)]; [now left | right].
    exists id, o, o'. assert (WO : window_ok o') by (eapply c09_window_thm; [eapply reachable_step; eauto | eauto]).
    pose proof WO as (_ & _ & RG & ND & _). rewrite P in ND.
    split; [exact G |]. split; [exact G' |]. split; [exact L |]. split; [exact L' |].
    split; [exact P |]. split; [exact WO |]. split; [now apply NoDup_app_r in ND |].
    intros p Hp. split; [apply RG; rewrite P; apply in_or_app; now right |].
    eapply NoDup_app_disjoint; eauto.
  - left. rewrite E' in E. symmetry in E. apply app_eq_nil in E as [_ ->]. reflexivity.
Qed.

(* ------------------------------------------------------------------ component lemmas, as pinned *)
Lemma register_ack_WinInv o pkid o' ok : register_ack o pkid = (o', ok) -> WinInv o -> WinInv o'.
Proof. intros H. apply ostep_WinInv. eapply register_ack_ostep; eauto. Qed.

Lemma register_ack_head o pkid o' ok :
  register_ack o pkid = (o', ok) ->
  match o_inflight o with
  | [] => o' = o /\ ok = false
  | h :: r => if pkid =? pkid_of h then o' = set_o_inflight o r /\ ok = true else o' = o /\ ok = false
  end.
Proof. exact (register_ack_spec o pkid o' ok). Qed.
