(** C14, part 2: frame of [consume] (serving connection [id]), [retrieve_shadow] and
    [handle_new_connection] on the part of the state that belongs to another connection. *)
From Coq Require Import ZifyBool ZifyN ZifyNat Permutation.
From Rumqtt Require Import Router.Model Router.InvLemmasBase Router.DataLogInv Router.WindowFrame Router.Window
  Router.IsolationFrame.

(* ------------------------------------------------------------------ forward_device_data *)
Lemma read_retained_core st f st' l : read_retained st f = Ok (st', l) -> core st' = core st.
Proof. unfold read_retained. intros H. break_all H; inv_ok; reflexivity. Qed.
Lemma update_next_client_core st g st' g' : update_next_client st g = Ok (st', g') -> core st' = core st.
Proof. unfold update_next_client. intros H. break_all H; inv_ok; reflexivity. Qed.
Lemma push_out_core st k ns st' len : push_out st k ns = Ok (st', len) -> core st' = core st.
Proof. intros H. apply push_out_fields in H. rewrite H. reflexivity. Qed.

Lemma fdd_retained_core st rq slots1 st1 rq1 retained slots2 :
  fdd_retained st rq slots1 = Ok (st1, rq1, retained, slots2) -> core st1 = core st.
Proof.
  unfold fdd_retained. intros H. destruct (dr_fwd_retained rq).
  - apply bind_ok in H as ([st' rs] & H1 & H). cbv zeta in H. inv_ok. eapply read_retained_core; eauto.
  - now inv_ok.
Qed.

Lemma core_conns st st' : core st' = core st -> r_conns st' = r_conns st.
Proof. unfold core. intros E. now inversion E. Qed.

Lemma core_obufs st st' : core st' = core st -> r_obufs st' = r_obufs st.
Proof. unfold core. intros E. now inversion E. Qed.

Lemma number_forwards_key fw : forall o fidx o' ns,
  number_forwards o fidx fw = (o', ns) -> o_client o' = o_client o /\ o_link o' = o_link o.
Proof.
  induction fw as [| [[c p] pr] r IH]; intros o fidx o' ns H; cbn [number_forwards] in H.
  - inversion H; subst. auto.
  - match type of H with (let '(_, _) := number_forwards ?o1 _ _ in _) = _ =>
      destruct (number_forwards o1 fidx r) as [o2 ns2] eqn:E end.
    inversion H; subst. apply IH in E. cbn [o_client o_link] in E. exact E.
Qed.

Lemma fdd_push_fq st1 id o conn sg rq2 publishes caughtup st' rq' cs :
  fdd_push st1 id o conn sg rq2 publishes caughtup = Ok (st', rq', cs) ->
  slab_get (r_conns st1) id = Some conn -> slab_get (r_obufs st1) id = Some o -> fq id st1 st'.
Proof.
  unfold fdd_push. intros H G Go. cbv zeta in H.
  destruct (2 <? dr_qos rq2); [discriminate |].
  destruct (alias_forwards (c_baliases conn) (dr_qos rq2) (al_get str_eqb (dr_filter rq2) (c_subids conn)) publishes)
    as [bal forwards] eqn:EA.
  match type of H with (match ?x with _ => _ end) = _ => destruct x as [o1 notifs] eqn:E1 end.
  apply bind_ok in H as ([st4 len] & H4 & H).
  apply bind_ok in H as (st5 & H5 & H).
  set (st2 := put_conn st1 id (set_c_baliases conn bal)) in *.
  set (st3 := put_obuf st2 id o1) in *.
  assert (A : fq id st1 st4).
  { eapply fq_trans; [apply (fq_put_conn id st1 conn (set_c_baliases conn bal) G); reflexivity |].
    assert (K1 : o_client o1 = o_client o /\ o_link o1 = o_link o).
    { destruct (dr_qos rq2 =? 0); [inversion E1; subst; auto | eapply number_forwards_key; eauto]. }
    eapply fq_trans; [apply (fq_put_obuf id st2 o o1 Go); tauto |]. eapply push_out_fq; eauto. }
  assert (B : fq id st4 st5).
  { destruct sg as [[name g0] |]; [| inv_ok; apply fq_refl].
    destruct (al_get str_eqb name (r_groups st4)) as [g |]; [| inv_ok; apply fq_refl].
    apply bind_ok in H5 as ([s g'] & H5 & H6). inv_ok.
    apply update_next_client_core in H5. apply fq_core. rewrite <- H5. reflexivity. }
  eapply fq_trans; [exact A |]. eapply fq_trans; [exact B |].
  destruct (MAX_CHANNEL_CAPACITY - 1 <=? len).
  - apply bind_ok in H as ([st6 l6] & H6 & H). inv_ok. eapply push_out_fq; eauto.
  - inv_ok. apply fq_refl.
Qed.

Lemma forward_device_data_fq st id rq st' rq' cs :
  forward_device_data st id rq = Ok (st', rq', cs) -> fq id st st'.
Proof.
  rewrite fdd_alt_eq. unfold fdd_alt, get_obuf. intros H.
  destruct (slab_get (r_obufs st) id) as [o |] eqn:G; [| discriminate]. cbn [bind] in H.
  destruct (slab_get (r_conns st) id) as [conn |] eqn:Gc; [| discriminate]. cbn [bind] in H.
  cbv zeta in H.
  set (sg := match dr_group rq with
             | Some name => match al_get str_eqb name (r_groups st) with
                            | Some g => Some (name, g) | None => None end
             | None => None end) in *.
  set (rq0 := match sg with Some (_, g) => set_dr_cursor rq (g_cursor g) | None => rq end) in *.
  apply bind_ok in H as (slots0 & HS & H).
  destruct (negb (dr_qos rq0 =? 0) && (slots0 =? 0)) eqn:EF; [inv_ok; apply fq_refl |].
  apply bind_ok in H as ([[[st1 rq1] retained] slots2] & HR & H).
  apply fdd_retained_core in HR.
  apply bind_ok in H as (d & _ & H). apply bind_ok in H as ([pos from_log] & HV & H).
  destruct (match pos with Next s e => (s, e, false) | Done s e => (s, e, true) end) as [[start next] caughtup].
  match type of H with (if ?b then _ else _) = _ => destruct b end; [inv_ok; now apply fq_core |].
  match type of H with match ?l with [] => _ | _ => _ end = _ => remember l as publishes eqn:EP end.
  eapply fq_core_l; [exact HR |].
  destruct publishes; [inv_ok; apply fq_refl |].
  eapply fdd_push_fq; [exact H | |]; [rewrite (core_conns _ _ HR); exact Gc | rewrite (core_obufs _ _ HR); exact G].
Qed.

(* ------------------------------------------------------------------ consume *)
Lemma ack_device_data_fq st id o st' : ack_device_data st id o = Ok st' -> fq id st st'.
Proof.
  unfold ack_device_data, get_acks. intros H.
  destruct (slab_get (r_acks st) id) as [l |]; [| discriminate]. cbn [bind] in H.
  destruct (a_committed l); [inv_ok; apply fq_refl |].
  apply bind_ok in H as ([st2 n] & H2 & H). inv_ok.
  eapply fq_trans; [apply fq_put_acks | eapply push_out_fq; eauto].
Qed.

Lemma consume_loop_fq id : forall fuel st requests skipped st',
  consume_loop fuel st id requests skipped = Ok st' -> fq id st st'.
Proof.
  induction fuel as [| fuel IH]; intros st requests skipped st' H; cbn [consume_loop] in H.
  - eapply trackv_fq; eauto.
  - destruct requests as [| rq rest].
    + apply bind_ok in H as (st1 & H1 & H). apply trackv_fq in H.
      eapply fq_trans; [| exact H]. destruct skipped; [eapply pause_fq; eauto | inv_ok; apply fq_refl].
    + apply bind_ok in H as ([[st1 rq'] status] & H1 & H). apply forward_device_data_fq in H1.
      eapply fq_trans; [exact H1 |]. destruct status.
      * apply bind_ok in H as (st2 & H2 & H). eapply fq_trans; [eapply pause_fq; eauto | eapply trackv_fq; eauto].
      * apply bind_ok in H as (st2 & H2 & H). eapply fq_trans; [eapply pause_fq; eauto | eapply trackv_fq; eauto].
      * apply bind_ok in H as (st2 & H2 & H). eapply fq_trans; [eapply park_fq; eauto | eapply IH; eauto].
      * eapply IH; eauto.
      * eapply IH; eauto.
Qed.

(** [consume] serves the connection at the head of the ready queue *)
Lemma consume_fq st st' b :
  consume st = Ok (st', b) ->
  match r_ready st with [] => st' = st | id :: _ => fq id st st' end.
Proof.
  unfold consume. intros H.
  destruct (r_ready st) as [| id rest] eqn:ER; [now inv_ok |].
  pose proof (fq_ready_tail id st rest ER) as A0.
  destruct (slab_get (r_trackers (set_r_ready st rest)) id) as [t |]; [| inv_ok; exact A0].
  cbv zeta in H.
  match type of H with match slab_get (r_obufs ?s) id with _ => _ end = _ => set (st2 := s) in * end.
  assert (A2 : fq id st st2).
  { eapply fq_trans; [exact A0 |]. eapply fq_trans; [apply fq_put_tracker |]. apply (fq_ready_app id). }
  destruct (slab_get (r_obufs st2) id) as [o |] eqn:G; [| inv_ok; exact A2].
  apply bind_ok in H as (st3 & H3 & H). apply bind_ok in H as (_ & _ & H).
  apply bind_ok in H as (st4 & H4 & H). inv_ok.
  eapply fq_trans; [exact A2 |]. eapply fq_trans; [eapply ack_device_data_fq; eauto | eapply consume_loop_fq; eauto].
Qed.

(* ------------------------------------------------------------------ retrieve_shadow *)
Lemma retrieve_shadow_core st id f st' : retrieve_shadow st id f = Ok st' -> core st' = core st.
Proof.
  unfold retrieve_shadow. intros H.
  destruct (slab_get (r_obufs st) id) as [o |]; [| now inv_ok].
  destruct (al_get str_eqb f (dl_findex (r_datalog st))) as [idx |]; [| now inv_ok].
  destruct (slab_get (dl_native (r_datalog st)) idx) as [d |]; [| now inv_ok].
  apply bind_ok in H as (a & _ & H).
  destruct (last_opt (s_data a)) as [[p pr] |]; [| now inv_ok].
  apply bind_ok in H as ([st1 len] & H1 & H). apply push_out_core in H1.
  destruct (MAX_CHANNEL_CAPACITY - 1 <=? len); [| now inv_ok].
  apply bind_ok in H as ([st2 len2] & H2 & H). inv_ok. apply push_out_core in H2. congruence.
Qed.

(* ------------------------------------------------------------------ handle_new_connection *)
Lemma handle_disconnection_wf st id reason st' :
  handle_disconnection st id reason = Ok st' -> slab_wf (r_conns st) -> slab_wf (r_conns st').
Proof.
  intros H Hwf. destruct (slab_get (r_obufs st) id) as [o0 |] eqn:G.
  2:{ rewrite (handle_disconnection_noop _ _ _ G) in H. now inv_ok. }
  unfold handle_disconnection in H. rewrite G in H.
  apply bind_ok in H as (st0 & H0 & H).
  assert (F0 : st0 = set_r_links st (r_links st0)).
  { destruct reason as [rc |].
    - apply bind_ok in H0 as ([s l] & H0 & H1). inv_ok. eapply push_out_fields; eauto.
    - inv_ok. now destruct st0. }
  rewrite F0 in H. clear F0 H0. rs.
  destruct (slab_remove (r_conns st) id) as [[conns conn] |] eqn:ER; [| discriminate].
  assert (W : slab_wf conns) by (eapply remove_spec; eauto).
  break_all H; inv_ok; rs; exact W.
Qed.

Lemma insert_other {A} (s s' : slab A) a k w : slab_insert s a = (s', k) -> w <> k -> slab_get s' w = slab_get s w.
Proof. intros H Hne. rewrite (slab_insert_get _ _ _ _ w H). now replace (w =? k) with false by lia. Qed.

(** a connection request of another client id: the takeover (if any) hits another key, the
    new connection gets a vacant key *)
Lemma handle_new_connection_iso st conn link st' w :
  handle_new_connection st conn link = Ok st' ->
  slab_wf (r_conns st) -> slab_get (r_conns st) w <> None ->
  al_get str_eqb (c_client conn) (r_cmap st) <> Some w ->
  isoq w st st'.
Proof.
  unfold handle_new_connection. intros H Hwf Hlive Hcm.
  destruct (negb (validate_clientid (c_client conn))); [inv_ok; apply isoq_refl |].
  apply bind_ok in H as (st1 & H1 & H).
  assert (A1 : isoq w st st1 /\ slab_wf (r_conns st1)).
  { destruct (al_get str_eqb (c_client conn) (r_cmap st)) as [cid |].
    - split; [| eapply handle_disconnection_wf; eauto].
      apply handle_disconnection_iso in H1 as (Q & _). apply Q. congruence.
    - inv_ok. split; [apply isoq_refl | exact Hwf]. }
  destruct A1 as [A1 Hwf1]. clear H1.
  destruct (cf_max_connections (r_cfg st1) <=? slab_len (r_conns st1)); [inv_ok; exact A1 |].
  assert (Hlive1 : slab_get (r_conns st1) w <> None) by (now rewrite (q_conn _ _ _ A1)).
  eapply isoq_trans; [exact A1 |]. clear A1 Hcm Hlive Hwf.
  unfold dbg_no_dups in H. break_all H; inv_ok.
  all: match goal with E : negb _ = false |- _ => apply negb_false_iff in E end.
  all: repeat match goal with E : _ && _ = true |- _ => apply andb_prop in E as [? ?] end.
  all: repeat match goal with E : (_ =? _) = true |- _ => apply N.eqb_eq in E end; subst.
  all: match goal with E : slab_insert (r_conns _) _ = (_, ?k) |- _ =>
         assert (Hk : w <> k) by (intros ->; destruct (insert_spec _ _ _ _ Hwf1 E) as (N0 & _); congruence) end.
  all: match goal with E : reschedule ?s _ _ = Ok _ |- _ => apply reschedule_fq in E as [_ E]; specialize (E w Hk);
         eapply isoq_trans; [| exact E] end.
  all: constructor; unfold waiting, waiters_at, rdy, sub_mem; rs; try reflexivity.
  all: try (eapply insert_other; eauto).
  all: intros f; now apply smem_add_all.
Qed.
