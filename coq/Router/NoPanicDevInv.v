(** Dev profile: the request-uniqueness invariant [DevX] and the frame relation [dfr]. *)
From Rumqtt Require Import Router.Model Router.InvLemmasBase Router.Inv Router.InvLemmasPrim Router.NoPanicDevBase.
From Coq Require Import Arith ZifyBool ZifyN ZifyNat.

Definition treqs (st : rstate) (id : N) : list drequest :=
  match slab_get (r_trackers st) id with Some t => tr_reqs t | None => [] end.
Definition items_of (st : rstate) : list (option data) := sl_items (dl_native (r_datalog st)).
(** number of requests of connection [id] with subscription filter [f], over the tracker, all
    waiter lists, notifications, and the requests [e] held in local variables *)
Definition CNT (st : rstate) (e : list (N * drequest)) (id : N) (f : str) : nat :=
  (cnt f (treqs st id) + cnti f id (items_of st) + cntw f id (r_notif st) + cntw f id e)%nat.
Definition okc (n : nat) (f : str) (subs : list str) : Prop :=
  (n <= 1)%nat /\ ((1 <= n)%nat -> set_mem str_eqb f subs = true).
Definition sess_dev (cs : str * option session) : Prop :=
  match snd cs with
  | Some ss => forall f, okc (cnt f (tr_reqs (ss_tracker ss))) f (ss_subs ss)
  | None => True
  end.
Definition subs_of (st : rstate) (id : N) : option (list str) := option_map c_subs (slab_get (r_conns st) id).

Record DevX (st : rstate) (e : list (N * drequest)) : Prop := {
  dx_live : forall id subs, subs_of st id = Some subs -> forall f, okc (CNT st e id f) f subs;
  dx_grave : Forall sess_dev (r_graveyard st)
}.

Definition dfr (st st' : rstate) (e e' : list (N * drequest)) : Prop :=
  (forall id f, CNT st' e' id f = CNT st e id f) /\
  (forall id, subs_of st' id = subs_of st id) /\
  r_graveyard st' = r_graveyard st.

Lemma dfr_refl st e : dfr st st e e.
Proof. repeat split. Qed.
Lemma dfr_trans a b c e1 e2 e3 : dfr a b e1 e2 -> dfr b c e2 e3 -> dfr a c e1 e3.
Proof.
  intros (H1 & H2 & H3) (H4 & H5 & H6). split; [|split]; [intros; rewrite H4; apply H1|intros; rewrite H5; apply H2|congruence].
Qed.
Lemma dfr_DevX st st' e e' : DevX st e -> dfr st st' e e' -> DevX st' e'.
Proof.
  intros [H1 H2] (D1 & D2 & D3). constructor.
  - intros id subs Hs f. rewrite D1. apply H1. now rewrite <- D2.
  - now rewrite D3.
Qed.

Lemma dfr_intro st st' e :
  (forall id, treqs st' id = treqs st id) -> items_of st' = items_of st -> r_notif st' = r_notif st ->
  (forall id, subs_of st' id = subs_of st id) -> r_graveyard st' = r_graveyard st -> dfr st st' e e.
Proof.
  intros H1 H2 H3 H4 H5. split; [|split; assumption]. intros id f. unfold CNT. now rewrite H1, H2, H3.
Qed.

(** changing the local list only *)
Lemma dfr_local st e e' : (forall id f, cntw f id e' = cntw f id e) -> dfr st st e e'.
Proof. intros H. split; [|split; reflexivity]. intros id f. unfold CNT. now rewrite H. Qed.

Ltac dfr_triv := apply dfr_intro; intros; reflexivity.

Lemma dfr_put_conn st id c c' e :
  slab_get (r_conns st) id = Some c -> c_subs c' = c_subs c -> dfr st (put_conn st id c') e e.
Proof.
  intros Hc Hs. apply dfr_intro; try reflexivity. intros id'. unfold subs_of, put_conn. cbn [r_conns set_r_conns].
  destruct (N.eq_dec id id') as [<- | Hne].
  - rewrite (get_put_eq _ _ _ _ Hc), Hc. cbn [option_map]. now rewrite Hs.
  - now rewrite get_put_neq.
Qed.

Lemma treqs_put st id t t' id' :
  slab_get (r_trackers st) id = Some t ->
  treqs (put_tracker st id t') id' = if id' =? id then tr_reqs t' else treqs st id'.
Proof.
  intros Ht. unfold treqs, put_tracker. cbn [r_trackers set_r_trackers].
  destruct (N.eqb_spec id' id) as [-> | Hne].
  - now rewrite (get_put_eq _ _ _ _ Ht).
  - rewrite get_put_neq by congruence. reflexivity.
Qed.

Lemma dfr_put_tracker st id t t' extra e :
  slab_get (r_trackers st) id = Some t -> tr_reqs t' = tr_reqs t ++ extra ->
  dfr st (put_tracker st id t') (map (pair id) extra ++ e) e.
Proof.
  intros Ht Hr. split; [|split; reflexivity]. intros id' f. unfold CNT.
  rewrite (treqs_put _ _ _ _ _ Ht). rewrite cntw_app, cntw_pairs.
  change (items_of (put_tracker st id t')) with (items_of st).
  change (r_notif (put_tracker st id t')) with (r_notif st).
  destruct (N.eqb_spec id' id) as [-> | Hne].
  - rewrite N.eqb_refl. unfold treqs. rewrite Ht, Hr, cnt_app. lia.
  - destruct (N.eqb_spec id id'); [congruence|]. lia.
Qed.

Lemma dfr_put_tracker_same st id t t' e :
  slab_get (r_trackers st) id = Some t -> tr_reqs t' = tr_reqs t -> dfr st (put_tracker st id t') e e.
Proof.
  intros Ht Hr. apply (dfr_put_tracker st id t t' [] e Ht). now rewrite app_nil_r.
Qed.

(** taking the requests out of the tracker into a local list *)
Lemma dfr_take_tracker st id t e :
  slab_get (r_trackers st) id = Some t ->
  dfr st (put_tracker st id (set_tr_reqs t [])) e (map (pair id) (tr_reqs t) ++ e).
Proof.
  intros Ht. split; [|split; reflexivity]. intros id' f. unfold CNT.
  rewrite (treqs_put _ _ _ _ _ Ht). rewrite cntw_app, cntw_pairs.
  change (items_of (put_tracker st id (set_tr_reqs t []))) with (items_of st).
  change (r_notif (put_tracker st id (set_tr_reqs t []))) with (r_notif st).
  destruct (N.eqb_spec id' id) as [-> | Hne].
  - rewrite N.eqb_refl. unfold treqs. rewrite Ht. cbn [set_tr_reqs tr_reqs]. rewrite cnt_nil. lia.
  - destruct (N.eqb_spec id id'); [congruence|]. lia.
Qed.

Lemma dfr_datalog_items st dl e :
  sl_items (dl_native dl) = items_of st -> dfr st (set_r_datalog st dl) e e.
Proof. intros H. apply dfr_intro; try reflexivity. exact H. Qed.

Lemma dfr_datalog_new st dl d e :
  sl_items (dl_native dl) = items_of st ++ [Some d] -> d_waiters d = [] -> dfr st (set_r_datalog st dl) e e.
Proof.
  intros H Hd. split; [|split; reflexivity]. intros id f. unfold CNT, items_of. cbn [r_datalog set_r_datalog].
  rewrite H, cnti_app. cbn [cnti]. rewrite Hd, cntw_nil.
  change (treqs (set_r_datalog st dl) id) with (treqs st id). cbn [r_notif set_r_datalog]. unfold items_of. lia.
Qed.

Lemma dfr_park st idx d d' id rq e :
  nthN (items_of st) idx = Some (Some d) -> d_waiters d' = d_waiters d ++ [(id, rq)] ->
  dfr st (set_r_datalog st (set_dl_native (r_datalog st) (slab_put (dl_native (r_datalog st)) idx d')))
      ((id, rq) :: e) e.
Proof.
  intros Hd Hw. split; [|split; reflexivity]. intros id' f. unfold CNT, items_of.
  cbn [r_datalog set_r_datalog set_dl_native dl_native slab_put sl_items r_notif].
  pose proof (cnti_setN f id' _ _ _ d' Hd) as Hc. rewrite Hw, cntw_app in Hc.
  rewrite (cntw_cons f id' (id, rq) e).
  change (treqs (set_r_datalog st _) id') with (treqs st id'). unfold items_of in *.
  rewrite cntw_cons, cntw_nil in Hc. lia.
Qed.

Lemma dfr_data_append st idx d d' e :
  nthN (items_of st) idx = Some (Some d) -> d_waiters d' = [] ->
  dfr st (set_r_notif (set_r_datalog st (set_dl_native (r_datalog st) (slab_put (dl_native (r_datalog st)) idx d')))
                      (r_notif st ++ d_waiters d)) e e.
Proof.
  intros Hd Hw. split; [|split; reflexivity]. intros id' f. unfold CNT, items_of.
  cbn [r_datalog set_r_datalog set_r_notif set_dl_native dl_native slab_put sl_items r_notif].
  pose proof (cnti_setN f id' _ _ _ d' Hd) as Hc. rewrite Hw, cntw_nil in Hc.
  rewrite cntw_app.
  change (treqs (set_r_notif _ _) id') with (treqs st id'). unfold items_of in *. lia.
Qed.
