(** M-ROUTER types: the state of [rumqttd::router::Router] and everything it owns, as
    immutable Gallina values.  [Slab] is a list of optional entries plus the LIFO free list
    (what slab 0.4 does); [HashMap]/[HashSet] are association lists / duplicate-free lists
    (iteration order matters at three sites only, resolved by the oracle, see Model.v);
    the [Arc<Mutex<VecDeque>>] buffers shared between a link and the router live in the
    table [r_links], indexed by link number, and [Incoming]/[Outgoing] refer to them by
    that number. *)
From Rumqtt Require Export Base.Outcome Base.Utf8 Topic.Model Log.Model.

(* ---------------------------------------------------------------- slab *)
Section Slab.
Context {A : Type}.
Record slab := { sl_items : list (option A); sl_free : list N }.
Definition slab_empty : slab := {| sl_items := []; sl_free := [] |}.

Fixpoint nthN {X} (l : list X) (i : N) {struct l} : option X :=
  match l with
  | [] => None
  | x :: r => if i =? 0 then Some x else nthN r (i - 1)
  end.
Fixpoint setN {X} (l : list X) (i : N) (v : X) {struct l} : list X :=
  match l with
  | [] => []
  | x :: r => if i =? 0 then v :: r else x :: setN r (i - 1) v
  end.

Definition slab_get (s : slab) (k : N) : option A :=
  match nthN (sl_items s) k with Some (Some a) => Some a | _ => None end.
Definition slab_len (s : slab) : N :=
  lenN (filter (fun o => match o with Some _ => true | None => false end) (sl_items s)).
(** [Slab::insert]: reuse the most recently freed key, else append *)
Definition slab_insert (s : slab) (a : A) : slab * N :=
  match sl_free s with
  | k :: fr => ({| sl_items := setN (sl_items s) k (Some a); sl_free := fr |}, k)
  | [] => ({| sl_items := sl_items s ++ [Some a]; sl_free := [] |}, lenN (sl_items s))
  end.
(** [Slab::remove] (panics on a vacant key: [None] here) *)
Definition slab_remove (s : slab) (k : N) : option (slab * A) :=
  match slab_get s k with
  | Some a => Some ({| sl_items := setN (sl_items s) k None; sl_free := k :: sl_free s |}, a)
  | None => None
  end.
(** overwrite an occupied entry ([get_mut] followed by assignment) *)
Definition slab_put (s : slab) (k : N) (a : A) : slab :=
  {| sl_items := setN (sl_items s) k (Some a); sl_free := sl_free s |}.
(** occupied entries in key order ([Slab::iter]) *)
Fixpoint slab_iter_from (i : N) (l : list (option A)) : list (N * A) :=
  match l with
  | [] => []
  | Some a :: r => (i, a) :: slab_iter_from (i + 1) r
  | None :: r => slab_iter_from (i + 1) r
  end.
Definition slab_iter (s : slab) : list (N * A) := slab_iter_from 0 (sl_items s).
End Slab.
Arguments slab : clear implicits.

(* ---------------------------------------------------------------- association lists *)
Section AList.
Context {K V : Type} (keq : K -> K -> bool).
Fixpoint al_get (k : K) (m : list (K * V)) : option V :=
  match m with
  | [] => None
  | (k', v) :: r => if keq k k' then Some v else al_get k r
  end.
Fixpoint al_set (k : K) (v : V) (m : list (K * V)) : list (K * V) :=
  match m with
  | [] => [(k, v)]
  | (k', v') :: r => if keq k k' then (k', v) :: r else (k', v') :: al_set k v r
  end.
Fixpoint al_remove (k : K) (m : list (K * V)) : list (K * V) :=
  match m with
  | [] => []
  | (k', v') :: r => if keq k k' then r else (k', v') :: al_remove k r
  end.
End AList.

Fixpoint set_mem {K} (keq : K -> K -> bool) (k : K) (s : list K) : bool :=
  match s with [] => false | x :: r => keq k x || set_mem keq k r end.
Definition set_add {K} (keq : K -> K -> bool) (k : K) (s : list K) : list K :=
  if set_mem keq k s then s else s ++ [k].
Definition set_del {K} (keq : K -> K -> bool) (k : K) (s : list K) : list K :=
  filter (fun x => negb (keq k x)) s.

(* ---------------------------------------------------------------- protocol values *)
Record publish := { p_dup : bool; p_qos : N; p_retain : bool; p_topic : str; p_pkid : N; p_payload : str }.
Definition set_p_qos (p : publish) (v : N) : publish :=
  {| p_dup := p_dup p; p_qos := v; p_retain := p_retain p; p_topic := p_topic p; p_pkid := p_pkid p; p_payload := p_payload p |}.
Definition set_p_retain (p : publish) (v : bool) : publish :=
  {| p_dup := p_dup p; p_qos := p_qos p; p_retain := v; p_topic := p_topic p; p_pkid := p_pkid p; p_payload := p_payload p |}.
Definition set_p_topic (p : publish) (v : str) : publish :=
  {| p_dup := p_dup p; p_qos := p_qos p; p_retain := p_retain p; p_topic := v; p_pkid := p_pkid p; p_payload := p_payload p |}.
Definition set_p_pkid (p : publish) (v : N) : publish :=
  {| p_dup := p_dup p; p_qos := p_qos p; p_retain := p_retain p; p_topic := p_topic p; p_pkid := v; p_payload := p_payload p |}.

(** PublishProperties: the two fields the router reads or writes, and an opaque tag standing
    for all the others (payload format, expiry, response topic, correlation data, user
    properties, content type), which the router only copies.  tag 0 = all of them default. *)
Record pprops := { pp_alias : option N; pp_subids : list N; pp_tag : N }.
Definition pprops_default : pprops := {| pp_alias := None; pp_subids := []; pp_tag := 0 |}.

Definition pubdata : Type := (publish * option pprops)%type.
(** Storage::size of PublishData: 4 + topic.len() + payload.len() *)
Definition pubdata_size (d : pubdata) : N := 4 + lenN (p_topic (fst d)) + lenN (p_payload (fst d)).

Record will := { w_topic : str; w_message : str; w_qos : N; w_retain : bool; w_props : option N }.

Inductive packet :=
| PPublish (p : publish) (props : option pprops)
| PSubscribe (pkid : N) (filters : list (str * N)) (subid : option N)
| PUnsubscribe (pkid : N) (filters : list str)
| PPubAck (pkid : N) | PPubRec (pkid : N)
| PPubRel (pkid : N) (has_props : bool)
| PPubComp (pkid : N) | PPingReq | PDisconnect
| POther.                                       (* any packet the router ignores *)

Inductive ack :=
| AConnAck (id : N) (session_present : bool)
| APubAck (pkid : N) | ASubAck (pkid : N) (codes : list N)
| APubRec (pkid : N) | APubRel (pkid : N) | APubComp (pkid : N)
| AUnsubAck (pkid : N) (reasons : list N) | APingResp.

Inductive notification :=
| NForward (c : option cursor) (p : publish) (props : option pprops)
| NAck (a : ack)
| NUnschedule
| NDisconnect (reason : N)
| NShadow (topic payload : str).

Inductive strategy := RoundRobin | Random | Sticky.
Inductive pause_reason := Caughtup | InflightFull | Busy.
Inductive status := Ready | Paused (r : pause_reason).
Inductive sched_reason := SInit | SNewFilter | SFreshData | SIncomingAck | SReady.

(** BrokerAliases: filter -> alias, and the slab of used alias numbers (0 pre-occupied) *)
Record baliases := { ba_map : list (str * N); ba_used : slab unit; ba_max : N }.

Record drequest := { dr_filter : str; dr_idx : N; dr_qos : N; dr_cursor : cursor; dr_read : N; dr_fwd_retained : bool; dr_group : option str }.
Definition set_dr_filter (x : drequest) (v : str) : drequest := {| dr_filter := v; dr_idx := dr_idx x; dr_qos := dr_qos x; dr_cursor := dr_cursor x; dr_read := dr_read x; dr_fwd_retained := dr_fwd_retained x; dr_group := dr_group x |}.
Definition set_dr_idx (x : drequest) (v : N) : drequest := {| dr_filter := dr_filter x; dr_idx := v; dr_qos := dr_qos x; dr_cursor := dr_cursor x; dr_read := dr_read x; dr_fwd_retained := dr_fwd_retained x; dr_group := dr_group x |}.
Definition set_dr_qos (x : drequest) (v : N) : drequest := {| dr_filter := dr_filter x; dr_idx := dr_idx x; dr_qos := v; dr_cursor := dr_cursor x; dr_read := dr_read x; dr_fwd_retained := dr_fwd_retained x; dr_group := dr_group x |}.
Definition set_dr_cursor (x : drequest) (v : cursor) : drequest := {| dr_filter := dr_filter x; dr_idx := dr_idx x; dr_qos := dr_qos x; dr_cursor := v; dr_read := dr_read x; dr_fwd_retained := dr_fwd_retained x; dr_group := dr_group x |}.
Definition set_dr_read (x : drequest) (v : N) : drequest := {| dr_filter := dr_filter x; dr_idx := dr_idx x; dr_qos := dr_qos x; dr_cursor := dr_cursor x; dr_read := v; dr_fwd_retained := dr_fwd_retained x; dr_group := dr_group x |}.
Definition set_dr_fwd_retained (x : drequest) (v : bool) : drequest := {| dr_filter := dr_filter x; dr_idx := dr_idx x; dr_qos := dr_qos x; dr_cursor := dr_cursor x; dr_read := dr_read x; dr_fwd_retained := v; dr_group := dr_group x |}.
Definition set_dr_group (x : drequest) (v : option str) : drequest := {| dr_filter := dr_filter x; dr_idx := dr_idx x; dr_qos := dr_qos x; dr_cursor := dr_cursor x; dr_read := dr_read x; dr_fwd_retained := dr_fwd_retained x; dr_group := v |}.

Record tracker := { tr_id : str; tr_reqs : list drequest; tr_status : status }.
Definition set_tr_id (x : tracker) (v : str) : tracker := {| tr_id := v; tr_reqs := tr_reqs x; tr_status := tr_status x |}.
Definition set_tr_reqs (x : tracker) (v : list drequest) : tracker := {| tr_id := tr_id x; tr_reqs := v; tr_status := tr_status x |}.
Definition set_tr_status (x : tracker) (v : status) : tracker := {| tr_id := tr_id x; tr_reqs := tr_reqs x; tr_status := v |}.

Record connection := { c_client : str; c_dynamic : bool; c_clean : bool; c_subs : list str; c_will : option will; c_aliases : list (N * str); c_baliases : option baliases; c_subids : list (str * N) }.
Definition set_c_client (x : connection) (v : str) : connection := {| c_client := v; c_dynamic := c_dynamic x; c_clean := c_clean x; c_subs := c_subs x; c_will := c_will x; c_aliases := c_aliases x; c_baliases := c_baliases x; c_subids := c_subids x |}.
Definition set_c_dynamic (x : connection) (v : bool) : connection := {| c_client := c_client x; c_dynamic := v; c_clean := c_clean x; c_subs := c_subs x; c_will := c_will x; c_aliases := c_aliases x; c_baliases := c_baliases x; c_subids := c_subids x |}.
Definition set_c_clean (x : connection) (v : bool) : connection := {| c_client := c_client x; c_dynamic := c_dynamic x; c_clean := v; c_subs := c_subs x; c_will := c_will x; c_aliases := c_aliases x; c_baliases := c_baliases x; c_subids := c_subids x |}.
Definition set_c_subs (x : connection) (v : list str) : connection := {| c_client := c_client x; c_dynamic := c_dynamic x; c_clean := c_clean x; c_subs := v; c_will := c_will x; c_aliases := c_aliases x; c_baliases := c_baliases x; c_subids := c_subids x |}.
Definition set_c_will (x : connection) (v : option will) : connection := {| c_client := c_client x; c_dynamic := c_dynamic x; c_clean := c_clean x; c_subs := c_subs x; c_will := v; c_aliases := c_aliases x; c_baliases := c_baliases x; c_subids := c_subids x |}.
Definition set_c_aliases (x : connection) (v : list (N * str)) : connection := {| c_client := c_client x; c_dynamic := c_dynamic x; c_clean := c_clean x; c_subs := c_subs x; c_will := c_will x; c_aliases := v; c_baliases := c_baliases x; c_subids := c_subids x |}.
Definition set_c_baliases (x : connection) (v : option baliases) : connection := {| c_client := c_client x; c_dynamic := c_dynamic x; c_clean := c_clean x; c_subs := c_subs x; c_will := c_will x; c_aliases := c_aliases x; c_baliases := v; c_subids := c_subids x |}.
Definition set_c_subids (x : connection) (v : list (str * N)) : connection := {| c_client := c_client x; c_dynamic := c_dynamic x; c_clean := c_clean x; c_subs := c_subs x; c_will := c_will x; c_aliases := c_aliases x; c_baliases := c_baliases x; c_subids := v |}.

Record incoming := { i_client : str; i_link : N }.

Record outgoing := { o_client : str; o_link : N; o_inflight : list (N * N * option cursor); o_pubrels : list N; o_last : N }.
Definition set_o_client (x : outgoing) (v : str) : outgoing := {| o_client := v; o_link := o_link x; o_inflight := o_inflight x; o_pubrels := o_pubrels x; o_last := o_last x |}.
Definition set_o_link (x : outgoing) (v : N) : outgoing := {| o_client := o_client x; o_link := v; o_inflight := o_inflight x; o_pubrels := o_pubrels x; o_last := o_last x |}.
Definition set_o_inflight (x : outgoing) (v : list (N * N * option cursor)) : outgoing := {| o_client := o_client x; o_link := o_link x; o_inflight := v; o_pubrels := o_pubrels x; o_last := o_last x |}.
Definition set_o_pubrels (x : outgoing) (v : list N) : outgoing := {| o_client := o_client x; o_link := o_link x; o_inflight := o_inflight x; o_pubrels := v; o_last := o_last x |}.
Definition set_o_last (x : outgoing) (v : N) : outgoing := {| o_client := o_client x; o_link := o_link x; o_inflight := o_inflight x; o_pubrels := o_pubrels x; o_last := v |}.

Record acklog := { a_committed : list ack; a_recorded : list (publish * option pprops) }.
Definition set_a_committed (x : acklog) (v : list ack) : acklog := {| a_committed := v; a_recorded := a_recorded x |}.
Definition set_a_recorded (x : acklog) (v : list (publish * option pprops)) : acklog := {| a_committed := a_committed x; a_recorded := v |}.

Record data := { d_filter : str; d_log : @log pubdata; d_waiters : list (N * drequest) }.
Definition set_d_filter (x : data) (v : str) : data := {| d_filter := v; d_log := d_log x; d_waiters := d_waiters x |}.
Definition set_d_log (x : data) (v : @log pubdata) : data := {| d_filter := d_filter x; d_log := v; d_waiters := d_waiters x |}.
Definition set_d_waiters (x : data) (v : list (N * drequest)) : data := {| d_filter := d_filter x; d_log := d_log x; d_waiters := v |}.

Record datalog := { dl_native : slab data; dl_findex : list (str * N); dl_retained : list (str * pubdata); dl_pfilters : list (str * list N) }.
Definition set_dl_native (x : datalog) (v : slab data) : datalog := {| dl_native := v; dl_findex := dl_findex x; dl_retained := dl_retained x; dl_pfilters := dl_pfilters x |}.
Definition set_dl_findex (x : datalog) (v : list (str * N)) : datalog := {| dl_native := dl_native x; dl_findex := v; dl_retained := dl_retained x; dl_pfilters := dl_pfilters x |}.
Definition set_dl_retained (x : datalog) (v : list (str * pubdata)) : datalog := {| dl_native := dl_native x; dl_findex := dl_findex x; dl_retained := v; dl_pfilters := dl_pfilters x |}.
Definition set_dl_pfilters (x : datalog) (v : list (str * list N)) : datalog := {| dl_native := dl_native x; dl_findex := dl_findex x; dl_retained := dl_retained x; dl_pfilters := v |}.

Record group := { g_clients : list str; g_idx : N; g_cursor : cursor; g_strategy : strategy }.
Definition set_g_clients (x : group) (v : list str) : group := {| g_clients := v; g_idx := g_idx x; g_cursor := g_cursor x; g_strategy := g_strategy x |}.
Definition set_g_idx (x : group) (v : N) : group := {| g_clients := g_clients x; g_idx := v; g_cursor := g_cursor x; g_strategy := g_strategy x |}.
Definition set_g_cursor (x : group) (v : cursor) : group := {| g_clients := g_clients x; g_idx := g_idx x; g_cursor := v; g_strategy := g_strategy x |}.
Definition set_g_strategy (x : group) (v : strategy) : group := {| g_clients := g_clients x; g_idx := g_idx x; g_cursor := g_cursor x; g_strategy := v |}.

Record session := { ss_tracker : tracker; ss_subs : list str; ss_pubrels : list N }.

Record linkbuf := { lk_in : list packet; lk_out : list notification }.
Definition set_lk_in (x : linkbuf) (v : list packet) : linkbuf := {| lk_in := v; lk_out := lk_out x |}.
Definition set_lk_out (x : linkbuf) (v : list notification) : linkbuf := {| lk_in := lk_in x; lk_out := v |}.

(** profile of the build the model describes: dev = both true *)
Record config := { cf_max_connections : N; cf_max_outgoing : N; cf_seg_size : N; cf_seg_count : N;
                   cf_init_filters : list str; cf_strategy : strategy;
                   cf_debug_assertions : bool }.

(** resolved nondeterministic choices, recorded from the implementation (or any admissible) *)
Inductive oracle :=
| OMatches (order : list N)        (* DataLog::matches on a cache miss: HashMap iteration order *)
| ORetained (order : list str)     (* read_retained_messages: HashMap iteration order (topics) *)
| ORandom (idx : N).               (* Strategy::Random: thread_rng *)

Record rstate := { r_cfg : config; r_graveyard : list (str * option session); r_conns : slab connection; r_cmap : list (str * N); r_submap : list (str * list N); r_ibufs : slab incoming; r_obufs : slab outgoing; r_datalog : datalog; r_acks : slab acklog; r_trackers : slab tracker; r_ready : list N; r_notif : list (N * drequest); r_groups : list (str * group); r_wills : list (str * will); r_links : list linkbuf; r_oracle : list oracle }.
Definition set_r_cfg (x : rstate) (v : config) : rstate := {| r_cfg := v; r_graveyard := r_graveyard x; r_conns := r_conns x; r_cmap := r_cmap x; r_submap := r_submap x; r_ibufs := r_ibufs x; r_obufs := r_obufs x; r_datalog := r_datalog x; r_acks := r_acks x; r_trackers := r_trackers x; r_ready := r_ready x; r_notif := r_notif x; r_groups := r_groups x; r_wills := r_wills x; r_links := r_links x; r_oracle := r_oracle x |}.
Definition set_r_graveyard (x : rstate) (v : list (str * option session)) : rstate := {| r_cfg := r_cfg x; r_graveyard := v; r_conns := r_conns x; r_cmap := r_cmap x; r_submap := r_submap x; r_ibufs := r_ibufs x; r_obufs := r_obufs x; r_datalog := r_datalog x; r_acks := r_acks x; r_trackers := r_trackers x; r_ready := r_ready x; r_notif := r_notif x; r_groups := r_groups x; r_wills := r_wills x; r_links := r_links x; r_oracle := r_oracle x |}.
Definition set_r_conns (x : rstate) (v : slab connection) : rstate := {| r_cfg := r_cfg x; r_graveyard := r_graveyard x; r_conns := v; r_cmap := r_cmap x; r_submap := r_submap x; r_ibufs := r_ibufs x; r_obufs := r_obufs x; r_datalog := r_datalog x; r_acks := r_acks x; r_trackers := r_trackers x; r_ready := r_ready x; r_notif := r_notif x; r_groups := r_groups x; r_wills := r_wills x; r_links := r_links x; r_oracle := r_oracle x |}.
Definition set_r_cmap (x : rstate) (v : list (str * N)) : rstate := {| r_cfg := r_cfg x; r_graveyard := r_graveyard x; r_conns := r_conns x; r_cmap := v; r_submap := r_submap x; r_ibufs := r_ibufs x; r_obufs := r_obufs x; r_datalog := r_datalog x; r_acks := r_acks x; r_trackers := r_trackers x; r_ready := r_ready x; r_notif := r_notif x; r_groups := r_groups x; r_wills := r_wills x; r_links := r_links x; r_oracle := r_oracle x |}.
Definition set_r_submap (x : rstate) (v : list (str * list N)) : rstate := {| r_cfg := r_cfg x; r_graveyard := r_graveyard x; r_conns := r_conns x; r_cmap := r_cmap x; r_submap := v; r_ibufs := r_ibufs x; r_obufs := r_obufs x; r_datalog := r_datalog x; r_acks := r_acks x; r_trackers := r_trackers x; r_ready := r_ready x; r_notif := r_notif x; r_groups := r_groups x; r_wills := r_wills x; r_links := r_links x; r_oracle := r_oracle x |}.
Definition set_r_ibufs (x : rstate) (v : slab incoming) : rstate := {| r_cfg := r_cfg x; r_graveyard := r_graveyard x; r_conns := r_conns x; r_cmap := r_cmap x; r_submap := r_submap x; r_ibufs := v; r_obufs := r_obufs x; r_datalog := r_datalog x; r_acks := r_acks x; r_trackers := r_trackers x; r_ready := r_ready x; r_notif := r_notif x; r_groups := r_groups x; r_wills := r_wills x; r_links := r_links x; r_oracle := r_oracle x |}.
Definition set_r_obufs (x : rstate) (v : slab outgoing) : rstate := {| r_cfg := r_cfg x; r_graveyard := r_graveyard x; r_conns := r_conns x; r_cmap := r_cmap x; r_submap := r_submap x; r_ibufs := r_ibufs x; r_obufs := v; r_datalog := r_datalog x; r_acks := r_acks x; r_trackers := r_trackers x; r_ready := r_ready x; r_notif := r_notif x; r_groups := r_groups x; r_wills := r_wills x; r_links := r_links x; r_oracle := r_oracle x |}.
Definition set_r_datalog (x : rstate) (v : datalog) : rstate := {| r_cfg := r_cfg x; r_graveyard := r_graveyard x; r_conns := r_conns x; r_cmap := r_cmap x; r_submap := r_submap x; r_ibufs := r_ibufs x; r_obufs := r_obufs x; r_datalog := v; r_acks := r_acks x; r_trackers := r_trackers x; r_ready := r_ready x; r_notif := r_notif x; r_groups := r_groups x; r_wills := r_wills x; r_links := r_links x; r_oracle := r_oracle x |}.
Definition set_r_acks (x : rstate) (v : slab acklog) : rstate := {| r_cfg := r_cfg x; r_graveyard := r_graveyard x; r_conns := r_conns x; r_cmap := r_cmap x; r_submap := r_submap x; r_ibufs := r_ibufs x; r_obufs := r_obufs x; r_datalog := r_datalog x; r_acks := v; r_trackers := r_trackers x; r_ready := r_ready x; r_notif := r_notif x; r_groups := r_groups x; r_wills := r_wills x; r_links := r_links x; r_oracle := r_oracle x |}.
Definition set_r_trackers (x : rstate) (v : slab tracker) : rstate := {| r_cfg := r_cfg x; r_graveyard := r_graveyard x; r_conns := r_conns x; r_cmap := r_cmap x; r_submap := r_submap x; r_ibufs := r_ibufs x; r_obufs := r_obufs x; r_datalog := r_datalog x; r_acks := r_acks x; r_trackers := v; r_ready := r_ready x; r_notif := r_notif x; r_groups := r_groups x; r_wills := r_wills x; r_links := r_links x; r_oracle := r_oracle x |}.
Definition set_r_ready (x : rstate) (v : list N) : rstate := {| r_cfg := r_cfg x; r_graveyard := r_graveyard x; r_conns := r_conns x; r_cmap := r_cmap x; r_submap := r_submap x; r_ibufs := r_ibufs x; r_obufs := r_obufs x; r_datalog := r_datalog x; r_acks := r_acks x; r_trackers := r_trackers x; r_ready := v; r_notif := r_notif x; r_groups := r_groups x; r_wills := r_wills x; r_links := r_links x; r_oracle := r_oracle x |}.
Definition set_r_notif (x : rstate) (v : list (N * drequest)) : rstate := {| r_cfg := r_cfg x; r_graveyard := r_graveyard x; r_conns := r_conns x; r_cmap := r_cmap x; r_submap := r_submap x; r_ibufs := r_ibufs x; r_obufs := r_obufs x; r_datalog := r_datalog x; r_acks := r_acks x; r_trackers := r_trackers x; r_ready := r_ready x; r_notif := v; r_groups := r_groups x; r_wills := r_wills x; r_links := r_links x; r_oracle := r_oracle x |}.
Definition set_r_groups (x : rstate) (v : list (str * group)) : rstate := {| r_cfg := r_cfg x; r_graveyard := r_graveyard x; r_conns := r_conns x; r_cmap := r_cmap x; r_submap := r_submap x; r_ibufs := r_ibufs x; r_obufs := r_obufs x; r_datalog := r_datalog x; r_acks := r_acks x; r_trackers := r_trackers x; r_ready := r_ready x; r_notif := r_notif x; r_groups := v; r_wills := r_wills x; r_links := r_links x; r_oracle := r_oracle x |}.
Definition set_r_wills (x : rstate) (v : list (str * will)) : rstate := {| r_cfg := r_cfg x; r_graveyard := r_graveyard x; r_conns := r_conns x; r_cmap := r_cmap x; r_submap := r_submap x; r_ibufs := r_ibufs x; r_obufs := r_obufs x; r_datalog := r_datalog x; r_acks := r_acks x; r_trackers := r_trackers x; r_ready := r_ready x; r_notif := r_notif x; r_groups := r_groups x; r_wills := v; r_links := r_links x; r_oracle := r_oracle x |}.
Definition set_r_links (x : rstate) (v : list linkbuf) : rstate := {| r_cfg := r_cfg x; r_graveyard := r_graveyard x; r_conns := r_conns x; r_cmap := r_cmap x; r_submap := r_submap x; r_ibufs := r_ibufs x; r_obufs := r_obufs x; r_datalog := r_datalog x; r_acks := r_acks x; r_trackers := r_trackers x; r_ready := r_ready x; r_notif := r_notif x; r_groups := r_groups x; r_wills := r_wills x; r_links := v; r_oracle := r_oracle x |}.
Definition set_r_oracle (x : rstate) (v : list oracle) : rstate := {| r_cfg := r_cfg x; r_graveyard := r_graveyard x; r_conns := r_conns x; r_cmap := r_cmap x; r_submap := r_submap x; r_ibufs := r_ibufs x; r_obufs := r_obufs x; r_datalog := r_datalog x; r_acks := r_acks x; r_trackers := r_trackers x; r_ready := r_ready x; r_notif := r_notif x; r_groups := r_groups x; r_wills := r_wills x; r_links := r_links x; r_oracle := v |}.
