(** C17, completeness clause — the turn of a group always points at one of its members:
    [IdxInv st]: [g_idx g < |g_clients g|] for every registered group, in every reachable state
    (all ops, no hypothesis).  Hence [current_client g] is a member whenever the group is
    registered — the "turn holder" of [turn_holder_runnable] exists. *)
From Rumqtt Require Import Log.Spec Log.Proofs Router.ExactLog.
From Rumqtt Require Import Topic.Proofs Router.WindowFrame Router.Window Router.DataLogInv Router.DataLogStep
                           Router.ExactInv Router.ExactStep1 Router.ExactStep2 Router.ExactStep3.
From Rumqtt Require Import Router.RetainedBase Router.RetainedReplay Router.Shared Router.SharedRun Router.SharedRunStep Router.SharedRunStep2.
From Rumqtt Require Import Router.GroupWake.
From Rumqtt Require Import Router.Model Router.RunDefs.
From Coq Require Import List Arith ZifyBool ZifyN ZifyNat.
Import ListNotations.

Definition idx_ok (ng : str * group) : Prop := g_idx (snd ng) < lenN (g_clients (snd ng)).
Definition IdxL (gs : list (str * group)) : Prop := Forall idx_ok gs.
Definition IdxInv (st : rstate) : Prop := IdxL (r_groups st).

Lemma IdxInv_eq st st' : r_groups st' = r_groups st -> IdxInv st -> IdxInv st'.
Proof. unfold IdxInv. now intros ->. Qed.

Lemma IdxL_set gs name g : IdxL gs -> g_idx g < lenN (g_clients g) -> IdxL (al_set str_eqb name g gs).
Proof.
  unfold IdxL. intros H Hg. induction gs as [| [k v] r IH]; cbn [al_set].
  - constructor; [exact Hg | constructor].
  - inversion H; subst. destruct (str_eqb name k); constructor; auto.
Qed.

Lemma IdxL_get gs name g : IdxL gs -> al_get str_eqb name gs = Some g -> g_idx g < lenN (g_clients g).
Proof.
  unfold IdxL. intros H Hg. apply DataLogInv.al_get_In in Hg. rewrite Forall_forall in H. exact (H _ Hg).
Qed.

Lemma current_client_some g : g_idx g < lenN (g_clients g) -> exists c, current_client g = Some c /\ In c (g_clients g).
Proof.
  intros H. unfold current_client. destruct (WindowFrame.nthN_lt (g_clients g) (g_idx g) H) as [c Hc]. exists c. split; [exact Hc |]. eapply Window.nthN_In; eauto.
Qed.

(* ------------------------------------------------------------------ joining *)
Lemma lenN_snoc {X} (l : list X) x : lenN (l ++ [x]) = lenN l + 1.
Proof. unfold lenN. rewrite app_length. cbn [length]. lia. Qed.

Lemma IdxL_join gs name c cu strat :
  IdxL gs ->
  IdxL (al_set str_eqb name
          (set_g_clients (match al_get str_eqb name gs with
                          | Some g => g
                          | None => {| g_clients := []; g_idx := 0; g_cursor := cu; g_strategy := strat |}
                          end)
             (g_clients (match al_get str_eqb name gs with
                         | Some g => g
                         | None => {| g_clients := []; g_idx := 0; g_cursor := cu; g_strategy := strat |}
                         end) ++ [c])) gs).
Proof.
  intros H. apply IdxL_set; [exact H |]. cbn [set_g_clients g_idx g_clients]. rewrite lenN_snoc.
  destruct (al_get str_eqb name gs) as [g |] eqn:E; [pose proof (IdxL_get _ _ _ H E); lia | cbn [g_idx g_clients]; unfold lenN; cbn [length]; lia].
Qed.

Lemma prepare_filter_idx st id cu fidx path qos grp subid st' :
  IdxInv st -> prepare_filter st id cu fidx path qos grp subid = Ok st' -> IdxInv st'.
Proof.
  intros H E. unfold IdxInv. rewrite (prepare_filter_groups _ _ _ _ _ _ _ _ _ E).
  destruct grp as [name |]; [| exact H]. cbv zeta. now apply IdxL_join.
Qed.

Lemma subscribe_filters_idx id subid : forall fs st fl codes st' fl' codes',
  IdxInv st -> subscribe_filters st id fs subid fl codes = Ok (st', fl', codes') -> IdxInv st'.
Proof.
  induction fs as [| [path qos] r IH]; intros st fl codes st' fl' codes' HI H; cbn [subscribe_filters] in H.
  - now inv_ok.
  - destruct (negb (validate_subscription path)); [now inv_ok |].
    destruct (match extract_group path with Some (g, p) => (Some g, p) | None => (None, path) end) as [grp filter].
    match type of H with (if ?b then _ else _) = _ => destruct b end; [now inv_ok |].
    apply bind_ok in H as ([[st1 idx] cu] & H1 & H). apply bind_ok in H as (st2 & H2 & H).
    eapply IH; [| exact H]. eapply prepare_filter_idx; [| exact H2].
    eapply IdxInv_eq; [eapply next_native_offset_groups; eauto | exact HI].
Qed.

Lemma rejoin_groups_idx strat client : forall rqs gs, IdxL gs -> IdxL (rejoin_groups gs strat client rqs).
Proof.
  induction rqs as [| rq r IH]; intros gs H; [exact H |].
  rewrite rejoin_groups_cons. apply IH. rewrite rejoin_groups_one. destruct (dr_group rq); [| exact H]. cbv zeta. now apply IdxL_join.
Qed.

(* ------------------------------------------------------------------ leaving *)
Lemma lenN_pos {X} (l : list X) x r : l = x :: r -> 0 < lenN l.
Proof. intros ->. rewrite lenN_cons. lia. Qed.

Lemma group_remove_idx g c x l :
  g_clients (group_remove_client g c) = x :: l ->
  g_idx (group_remove_client g c) < lenN (g_clients (group_remove_client g c)).
Proof.
  intros E. pose proof (lenN_pos _ _ _ E) as P. unfold group_remove_client in *. cbn [g_clients g_idx] in *.
  rewrite E in *. apply N.mod_lt. lia.
Qed.

Lemma grc_idx c : forall gs, IdxL (groups_remove_client gs c).
Proof.
  induction gs as [| [n g] r IH]; cbn [groups_remove_client]; [constructor |].
  destruct (g_clients (group_remove_client g c)) as [| x l] eqn:E; [exact IH |].
  constructor; [| exact IH]. unfold idx_ok. cbn [snd]. eapply group_remove_idx; eauto.
Qed.

Lemma rewind_requests_idx retr : forall rqs gs rqs' gs',
  IdxL gs -> rewind_requests rqs retr gs = Ok (rqs', gs') -> IdxL gs'.
Proof.
  induction rqs as [| rq r IH]; intros gs rqs' gs' HI H; cbn [rewind_requests] in H.
  - now inv_ok.
  - destruct (al_get N.eqb (dr_idx rq) retr) as [cu |].
    + apply bind_ok in H as (gs1 & H1 & H). apply bind_ok in H as ([r' gs2] & H2 & H). inv_ok.
      eapply IH; [| exact H2]. destruct (dr_group rq) as [name |]; [| now inv_ok].
      destruct (al_get str_eqb name gs) as [g |] eqn:Eg; inv_ok; [| exact HI].
      apply IdxL_set; [exact HI |]. cbn [set_g_cursor g_idx g_clients]. eapply IdxL_get; eauto.
    + apply bind_ok in H as ([r' gs2] & H2 & H). inv_ok. eapply IH; eauto.
Qed.

Lemma handle_disconnection_idx st id reason st' :
  IdxInv st -> handle_disconnection st id reason = Ok st' -> IdxInv st'.
Proof.
  intros HI H. unfold handle_disconnection in H.
  destruct (slab_get (r_obufs st) id) as [o0 |]; [| now inv_ok].
  apply bind_ok in H as (st0 & H0 & H).
  destruct (slab_remove (r_conns st0) id) as [[conns conn] |]; [| discriminate].
  destruct (slab_remove (r_ibufs st0) id) as [[ibufs ib] |]; [| discriminate].
  destruct (slab_remove (r_obufs st0) id) as [[obufs outg] |]; [| discriminate].
  destruct (slab_remove (r_trackers st0) id) as [[trackers trk] |]; [| discriminate].
  destruct (slab_remove (r_acks st0) id) as [[acks al] |]; [| discriminate].
  destruct (dl_clean (r_datalog st0) id) as [dl inflight_rqs].
  apply bind_ok in H as ([grave groups'] & HG & H). inv_ok. unfold IdxInv. cbn [r_groups].
  destruct (negb (c_clean conn)).
  - apply bind_ok in HG as ([rqs' gs] & HR & HG). inv_ok. eapply rewind_requests_idx; [| exact HR]. apply grc_idx.
  - inv_ok. apply grc_idx.
Qed.

Lemma unsubscribe_filters_idx id client : forall fs st reasons st' reasons',
  IdxInv st -> unsubscribe_filters st id client fs reasons = Ok (st', reasons') -> IdxInv st'.
Proof.
  induction fs as [| f r IH]; intros st reasons st' reasons' HI H; cbn [unsubscribe_filters] in H.
  - now inv_ok.
  - match type of H with (if negb ?b then _ else _) = _ => destruct b end; cbn [negb] in H; [| eapply IH; eassumption].
    match type of H with context [get_conn ?s id] => set (st1 := s) in * end.
    assert (G1 : r_groups st1 = r_groups st) by (unfold st1; destruct (al_get str_eqb f (r_submap st)); reflexivity).
    assert (HI1 : IdxInv st1) by (eapply IdxInv_eq; eauto).
    apply bind_ok in H as (conn & Hc & H).
    destruct (negb (set_mem str_eqb f (c_subs conn))); [eapply IH; eassumption |].
    apply bind_ok in H as (st4 & H4 & H). apply bind_ok in H as (st5 & H5 & H).
    eapply IH; [| exact H]. unfold IdxInv.
    apply untrack_groups in H4. apply remove_waiters_groups in H5. rsimpl. rewrite H5, H4. rsimpl.
    destruct (extract_group f) as [[gname p] |]; [| exact HI1].
    destruct (al_get str_eqb gname (r_groups st1)) as [g |] eqn:Eg; [| exact HI1].
    destruct (g_clients (group_remove_client g client)) as [| x l] eqn:Ec.
    + apply Forall_al_remove. exact HI1.
    + apply IdxL_set; [exact HI1 |]. eapply group_remove_idx; eauto.
Qed.

(* ------------------------------------------------------------------ serving *)
Lemma fdd_push_idx st1 id o conn sg rq2 publishes caughtup st' rq' cs :
  IdxInv st1 -> fdd_push st1 id o conn sg rq2 publishes caughtup = Ok (st', rq', cs) -> IdxInv st'.
Proof.
  unfold fdd_push. intros HI H. cbv zeta in H.
  destruct (2 <? dr_qos rq2); [discriminate |].
  destruct (alias_forwards (c_baliases conn) (dr_qos rq2) (al_get str_eqb (dr_filter rq2) (c_subids conn)) publishes)
    as [bal forwards].
  match type of H with (match ?x with _ => _ end) = _ => destruct x as [o1 notifs] end.
  apply bind_ok in H as ([st4 len] & H4 & H). apply bind_ok in H as (st5 & H5 & H).
  pose proof (push_out_cview _ _ _ _ _ H4) as V4.
  assert (HI4 : IdxInv st4) by (eapply IdxInv_eq; [rewrite (cview_groups _ _ V4); reflexivity | exact HI]).
  assert (HI5 : IdxInv st5).
  { destruct sg as [[name g0] |]; [| now inv_ok].
    destruct (al_get str_eqb name (r_groups st4)) as [g |] eqn:Eg; [| now inv_ok].
    apply bind_ok in H5 as ([s g'] & H5 & H6). inv_ok.
    destruct (update_next_client_spec _ _ _ _ H5) as ((orc & ->) & Ec & _ & _ & Hidx).
    unfold IdxInv. rsimpl. apply IdxL_set; [exact HI4 |]. cbn [set_g_cursor g_idx g_clients]. rewrite Ec.
    pose proof (IdxL_get _ _ _ HI4 Eg) as Hg.
    destruct (g_strategy g); [rewrite Hidx; apply N.mod_lt; lia | exact Hidx | rewrite Hidx; exact Hg]. }
  destruct (MAX_CHANNEL_CAPACITY - 1 <=? len).
  - apply bind_ok in H as ([st6 l6] & H6 & H). inv_ok. pose proof (push_out_cview _ _ _ _ _ H6) as V6.
    eapply IdxInv_eq; [rewrite (cview_groups _ _ V6); reflexivity | exact HI5].
  - now inv_ok.
Qed.

Lemma fdd_idx st id rq st' rq' cs :
  IdxInv st -> forward_device_data st id rq = Ok (st', rq', cs) -> IdxInv st'.
Proof.
  rewrite fdd_alt_eq. unfold fdd_alt, get_obuf. intros HI H.
  destruct (slab_get (r_obufs st) id) as [o |]; [| discriminate]. cbn [bind] in H.
  destruct (slab_get (r_conns st) id) as [conn |]; [| discriminate]. cbn [bind] in H.
  cbv zeta in H.
  apply bind_ok in H as (slots0 & HS & H).
  match type of H with (if ?b then _ else _) = _ => destruct b end; [now inv_ok |].
  apply bind_ok in H as ([[[st1 rq1] retained] slots2] & HR & H).
  assert (HI1 : IdxInv st1).
  { unfold fdd_retained in HR. match type of HR with (if ?b then _ else _) = _ => destruct b end.
    - apply bind_ok in HR as ([st2 rs] & HR1 & HR). cbv zeta in HR. inv_ok.
      eapply IdxInv_eq; [exact (cview_groups _ _ (read_retained_cview _ _ _ _ HR1)) | exact HI].
    - now inv_ok. }
  apply bind_ok in H as (d & _ & H). apply bind_ok in H as ([pos from_log] & HV & H).
  destruct (match pos with Next s e => (s, e, false) | Done s e => (s, e, true) end) as [[start next] caughtup].
  match type of H with (if ?b then _ else _) = _ => destruct b end; [now inv_ok |].
  match type of H with match ?l with [] => _ | _ => _ end = _ => destruct l eqn:Ep end; [now inv_ok |].
  rewrite <- Ep in H. eapply fdd_push_idx; eauto.
Qed.

Lemma consume_loop_idx id : forall fuel st requests skipped st',
  IdxInv st -> consume_loop fuel st id requests skipped = Ok st' -> IdxInv st'.
Proof.
  induction fuel as [| fuel IH]; cbn [consume_loop]; intros st requests skipped st' HI H.
  - eapply IdxInv_eq; [eapply trackv_groups; eauto | exact HI].
  - destruct requests as [| rq rest].
    + apply bind_ok in H as (st1 & H1 & H). eapply IdxInv_eq; [eapply trackv_groups; eauto |].
      destruct skipped; [eapply IdxInv_eq; [eapply pause_groups; eauto | exact HI] | now inv_ok].
    + apply bind_ok in H as ([[st1 rq'] status] & H1 & H). pose proof (fdd_idx _ _ _ _ _ _ HI H1) as HI1.
      destruct status.
      * apply bind_ok in H as (st2 & H2 & H).
        eapply IdxInv_eq; [rewrite (trackv_groups _ _ _ _ H); eapply pause_groups; eauto | exact HI1].
      * apply bind_ok in H as (st2 & H2 & H).
        eapply IdxInv_eq; [rewrite (trackv_groups _ _ _ _ H); eapply pause_groups; eauto | exact HI1].
      * apply bind_ok in H as (st2 & H2 & H). eapply IH; [| exact H]. eapply IdxInv_eq; [eapply park_groups; eauto | exact HI1].
      * eapply IH; eauto.
      * eapply IH; eauto.
Qed.

Lemma consume_idx st st' b : IdxInv st -> consume st = Ok (st', b) -> IdxInv st'.
Proof.
  unfold consume. intros HI H.
  destruct (r_ready st) as [| id rq]; [now inv_ok |].
  cbn [r_trackers set_r_ready] in H.
  destruct (slab_get (r_trackers st) id) as [t |]; [| now inv_ok].
  match type of H with context [slab_get (r_obufs ?s) id] => set (st2 := s) in * end.
  destruct (slab_get (r_obufs st2) id) as [o |]; [| now inv_ok].
  apply bind_ok in H as (st3 & H3 & H). apply bind_ok in H as (u & _ & H). apply bind_ok in H as (st4 & H4 & H). inv_ok.
  eapply consume_loop_idx; [| exact H4].
  eapply IdxInv_eq; [exact (cview_groups _ _ (ack_device_data_cview _ _ _ _ H3)) | exact HI].
Qed.

(* ------------------------------------------------------------------ events *)
Lemma handle_packet_idx st id client pk fl st' fl' brk :
  IdxInv st -> handle_packet st id client pk fl = Ok (st', fl', brk) -> IdxInv st'.
Proof.
  intros HI H. destruct pk; cbn [handle_packet] in H.
  - destruct (p_qos p =? 1).
    + apply bind_ok in H as (st1 & H1 & H). apply bind_ok in H as ([st2 res] & H2 & H).
      apply commit_ack_groups in H1. apply append_to_commitlog_groups in H2.
      eapply IdxInv_eq; [| exact HI]. destruct res; inv_ok; congruence.
    + destruct (p_qos p =? 2).
      * apply bind_ok in H as (l & _ & H). inv_ok. exact HI.
      * apply bind_ok in H as ([st2 res] & H2 & H). apply append_to_commitlog_groups in H2.
        eapply IdxInv_eq; [| exact HI]. destruct res; inv_ok; congruence.
  - apply bind_ok in H as ([[st1 fl1] codes] & H1 & H). apply bind_ok in H as (st2 & H2 & H). inv_ok.
    eapply IdxInv_eq; [eapply commit_ack_groups; eauto |]. eapply subscribe_filters_idx; eauto.
  - apply bind_ok in H as (c & _ & H). apply bind_ok in H as ([st1 reasons] & H1 & H).
    apply bind_ok in H as (st2 & H2 & H). inv_ok.
    eapply IdxInv_eq; [eapply commit_ack_groups; eauto |]. eapply unsubscribe_filters_idx; eauto.
  - apply bind_ok in H as (o & Ho & H). destruct (register_ack o pkid) as [o' ok]. destruct ok.
    + apply bind_ok in H as (st2 & H2 & H). inv_ok. eapply IdxInv_eq; [eapply reschedule_groups; eauto | exact HI].
    + inv_ok. exact HI.
  - apply bind_ok in H as (o & Ho & H). destruct (register_ack o pkid) as [o' ok]. destruct ok.
    + apply bind_ok in H as (l & _ & H). apply bind_ok in H as (st2 & H2 & H). apply bind_ok in H as (st3 & H3 & H). inv_ok.
      apply commit_ack_groups in H2. apply reschedule_groups in H3. eapply IdxInv_eq; [| exact HI]. now rewrite H3, H2.
    + inv_ok. exact HI.
  - apply bind_ok in H as (l & _ & H). destruct (a_recorded l) as [| [p0 pr0] rec].
    + inv_ok. exact HI.
    + apply bind_ok in H as ([st2 res] & H2 & H). apply append_to_commitlog_groups in H2. destruct res.
      * apply bind_ok in H as (st3 & H3 & H). inv_ok. apply reschedule_groups in H3. eapply IdxInv_eq; [| exact HI]. now rewrite H3, H2.
      * inv_ok. eapply IdxInv_eq; [| exact HI]. exact H2.
  - apply bind_ok in H as (o & Ho & H). destruct (register_pubcomp o pkid) as [o' ok]. destruct ok; inv_ok; exact HI.
  - apply bind_ok in H as (st1 & H1 & H). inv_ok. eapply IdxInv_eq; [eapply commit_ack_groups; eauto | exact HI].
  - inv_ok. exact HI.
  - inv_ok. exact HI.
Qed.

Lemma handle_packets_idx id client : forall pks st fl st' fl',
  IdxInv st -> handle_packets st id client pks fl = Ok (st', fl') -> IdxInv st'.
Proof.
  induction pks as [| pk r IH]; intros st fl st' fl' HI H; cbn [handle_packets] in H; [now inv_ok |].
  apply bind_ok in H as ([[st1 fl1] brk] & H1 & H). pose proof (handle_packet_idx _ _ _ _ _ _ _ _ HI H1) as HI1.
  destruct brk; [now inv_ok | eapply IH; eauto].
Qed.

Lemma handle_device_payload_idx st id st' : IdxInv st -> handle_device_payload st id = Ok st' -> IdxInv st'.
Proof.
  unfold handle_device_payload. intros HI H.
  destruct (slab_get (r_ibufs st) id) as [inc |]; [| now inv_ok].
  apply bind_ok in H as (b & _ & H). apply bind_ok in H as ([st1 fl] & H1 & H).
  apply bind_ok in H as (st2 & H2 & H). apply bind_ok in H as (st3 & H3 & H).
  assert (HI1 : IdxInv st1) by (eapply handle_packets_idx; [| exact H1]; exact HI).
  assert (HI2 : IdxInv st2) by (destruct (f_force_ack fl); [eapply IdxInv_eq; [eapply reschedule_groups; eauto | exact HI1] | now inv_ok]).
  assert (HI3 : IdxInv st3) by (destruct (f_new_data fl); [eapply IdxInv_eq; [eapply drain_notifications_groups; eauto | exact HI2] | now inv_ok]).
  destruct (f_disconnect fl); [eapply handle_disconnection_idx; eauto | now inv_ok].
Qed.

Lemma handle_new_connection_idx st conn link st' : IdxInv st -> handle_new_connection st conn link = Ok st' -> IdxInv st'.
Proof.
  intros HI H. unfold handle_new_connection in H.
  destruct (negb (validate_clientid (c_client conn))); [now inv_ok |].
  apply bind_ok in H as (st1 & H1 & H).
  assert (HI1 : IdxInv st1).
  { destruct (al_get str_eqb (c_client conn) (r_cmap st)); [eapply handle_disconnection_idx; eauto | now inv_ok]. }
  destruct (cf_max_connections (r_cfg st1) <=? slab_len (r_conns st1)); [now inv_ok |].
  match type of H with (match ?X with _ => _ end) = _ => destruct X as [[trk conn1] pubrels] end.
  destruct (slab_insert (r_conns st1) (set_c_will conn1 None)) as [conns id].
  destruct (slab_insert (r_ibufs st1) _) as [ibufs id_i].
  destruct (slab_insert (r_obufs st1) _) as [obufs id_o].
  destruct (slab_insert (r_acks st1) _) as [acks id_a].
  destruct (slab_insert (r_trackers st1) trk) as [trackers id_t].
  match type of H with (if ?b then _ else _) = _ => destruct b end; [discriminate |].
  apply bind_ok in H as (u & _ & H). unfold IdxInv. rewrite (reschedule_groups _ _ _ _ H). cbn [r_groups].
  apply rejoin_groups_idx. exact HI1.
Qed.

Theorem step_idx st o st' out : IdxInv st -> step st o = Ok (st', out) -> IdxInv st'.
Proof.
  intros HI H. destruct o; cbn [step] in H.
  - apply bind_ok in H as (st2 & H2 & H). inv_ok. eapply handle_new_connection_idx; [| exact H2]. exact HI.
  - destruct (nthN (r_links st) link); inv_ok; exact HI.
  - apply bind_ok in H as (st1 & H1 & H). inv_ok. eapply handle_device_payload_idx; eauto.
  - apply bind_ok in H as ([st1 b] & H1 & H). inv_ok. eapply consume_idx; eauto.
  - destruct (nthN (r_links st) link); inv_ok; exact HI.
  - destruct (slab_get (r_trackers st) id); [| inv_ok; exact HI].
    apply bind_ok in H as (st1 & H1 & H). inv_ok. eapply IdxInv_eq; [eapply reschedule_groups; eauto | exact HI].
  - apply bind_ok in H as (st1 & H1 & H). inv_ok. eapply handle_disconnection_idx; eauto.
  - apply bind_ok in H as (st1 & H1 & H). inv_ok. eapply IdxInv_eq; [exact (cview_groups _ _ (retrieve_shadow_cview _ _ _ _ H1)) | exact HI].
  - apply bind_ok in H as (st1 & H1 & H). inv_ok. eapply IdxInv_eq; [eapply handle_last_will_groups; eauto | exact HI].
  - inv_ok. exact HI.
Qed.

Theorem idx_reachable cfg st : reachable cfg st -> IdxInv st.
Proof.
  apply reachable_inv.
  - intros st0 H. unfold init in H. apply bind_ok in H as (dl & _ & H). inv_ok. constructor.
  - intros s orc o s' out HI H. unfold step_with in H. apply bind_ok in H as ([s1 out1] & H1 & H).
    destruct (r_oracle s1); [| discriminate]. inv_ok. eapply (step_idx (set_r_oracle s orc)); [exact HI | exact H1].
Qed.

(** every registered group has a turn holder, and it is one of its members *)
Theorem turn_holder_exists cfg st name g :
  reachable cfg st -> al_get str_eqb name (r_groups st) = Some g ->
  exists c, current_client g = Some c /\ In c (g_clients g).
Proof.
  intros HR Hg. apply current_client_some. exact (IdxL_get _ _ _ (idx_reachable _ _ HR) Hg).
Qed.
