(** C17, completeness clause at run level — the general statement, part 1: the creation-position
    ghost and the coverage invariant.

    INCARNATION.  A group incarnation lasts from the moment its key enters [r_groups] until it
    leaves.  [starts st0 ops : list (group key * N)] records, for every key registered after the
    run, the read position of the incarnation's cursor when it was created (SUBSCRIBE: the tail
    of the log; a resumed session re-creating a dropped group: the restored request's cursor).
    It is computed with the model's own functions, like the ghosts of SharedRun.v: [upd_starts]
    compares the registered groups before and after a STAGE inside which a key cannot be
    dropped and re-created — one packet of a DeviceData batch ([pkts_starts] re-runs the batch
    packet by packet: SUBSCRIBE only creates/joins, UNSUBSCRIBE only leaves/drops), the
    disconnection closing a batch, the take-over disconnection of a Connect event, the re-join of
    the resumed session, every other event as a whole.  A key present before and after a stage
    keeps its start; a key that appears gets [read_pos] of its cursor.

    INVARIANT.  [CovM st m gf]: every registered key has a start in [m], and — as long as
    nothing was evicted from the log of the key ([NoEvict], stated with [stale]) — every offset
    from that start up to the group's cursor is among the offsets forwarded through the key
    ([gf], the ghost [gfwd]). *)
From Rumqtt Require Import Router.Shared Log.Spec Log.Proofs Log.WfFacts Router.ExactLog.
From Rumqtt Require Import Topic.Proofs Router.WindowFrame Router.Window Router.DataLogInv Router.DataLogStep
                           Router.ExactInv Router.ExactStep1 Router.ExactStep2 Router.ExactLogs Router.ExactStep3
                           Router.ExactThm Router.RetainedBase Router.RetainedReplay Router.SharedRun Router.SharedRunInv Router.SharedRunStep
                           Router.SharedRunStep2 Router.SharedRunStep3 Router.SharedRunThm Router.WakeFrame Router.GroupWakeCov.
From Rumqtt Require Import Router.Model Router.RunDefs.
From Coq Require Import List Arith ZifyBool ZifyN ZifyNat Sorted.
Import ListNotations.

(* ------------------------------------------------------------------ the ghost *)
Definition upd_starts (st st' : rstate) (m : list (str * N)) : list (str * N) :=
  map (fun ng : str * group =>
         (fst ng,
          match al_get str_eqb (fst ng) (r_groups st), al_get str_eqb (fst ng) m with
          | Some _, Some s => s
          | _, _ => read_pos (r_datalog st') (fst ng) (g_cursor (snd ng))
          end)) (r_groups st').

Fixpoint pkts_starts (st : rstate) (id : N) (client : str) (pks : list packet) (fl : flags) (m : list (str * N))
  : list (str * N) :=
  match pks with
  | [] => m
  | pk :: r =>
      match handle_packet st id client pk fl with
      | Ok (st1, fl1, brk) =>
          let m1 := upd_starts st st1 m in
          if brk then m1 else pkts_starts st1 id client r fl1 m1
      | _ => m
      end
  end.

(** DeviceData: the batch packet by packet, then the disconnection if the batch ends in one *)
Definition data_starts (st : rstate) (id : N) (st' : rstate) (m : list (str * N)) : list (str * N) :=
  match slab_get (r_ibufs st) id with
  | None => m
  | Some inc =>
      match link_get st (i_link inc) with
      | Ok b =>
          let m1 := pkts_starts (link_put st (i_link inc) (set_lk_in b [])) id (i_client inc) (lk_in b) flags0 m in
          match data_disc_state st id with
          | Some st3 => upd_starts st3 st' m1
          | None => m1
          end
      | _ => m
      end
  end.

(** Connect: the take-over disconnection, then the re-join *)
Definition connect_starts (st0 : rstate) (client : str) (st' : rstate) (m : list (str * N)) : list (str * N) :=
  if negb (validate_clientid client) then m
  else match connect_pre st0 client with
       | Ok st1 => upd_starts st1 st' (upd_starts st0 st1 m)
       | _ => m
       end.

Definition starts_step (st : rstate) (o : rop) (st' : rstate) (m : list (str * N)) : list (str * N) :=
  match o with
  | OpConnect c => connect_starts (set_r_links st (r_links st ++ [{| lk_in := []; lk_out := [] |}])) (cr_client c) st' m
  | OpData id => data_starts st id st' m
  | _ => upd_starts st st' m
  end.

Fixpoint starts_from (st : rstate) (m : list (str * N)) (ops : list (list oracle * rop)) : list (str * N) :=
  match ops with
  | [] => m
  | (orc, o) :: r =>
      match step_with st orc o with
      | Ok (st1, _) => starts_from st1 (starts_step (set_r_oracle st orc) o st1 m) r
      | _ => m
      end
  end.
Definition starts (st0 : rstate) (ops : list (list oracle * rop)) : list (str * N) := starts_from st0 [] ops.

Lemma al_get_upd st st' m name :
  al_get str_eqb name (upd_starts st st' m) =
  match al_get str_eqb name (r_groups st') with
  | None => None
  | Some g' => Some (match al_get str_eqb name (r_groups st), al_get str_eqb name m with
                     | Some _, Some s => s
                     | _, _ => read_pos (r_datalog st') name (g_cursor g')
                     end)
  end.
Proof.
  unfold upd_starts. induction (r_groups st') as [| [k v] r IH]; cbn [map al_get fst snd]; [reflexivity |].
  destruct (str_eqb_spec name k) as [-> | Hne]; [reflexivity | exact IH].
Qed.

(* ------------------------------------------------------------------ the invariant *)
Definition KS (st : rstate) (m : list (str * N)) : Prop :=
  forall name g, al_get str_eqb name (r_groups st) = Some g -> exists s, al_get str_eqb name m = Some s.
Definition CovM (st : rstate) (m : list (str * N)) (gf : list gev) : Prop :=
  KS st m /\ forall name s, al_get str_eqb name m = Some s -> NoEvict st name -> Cov st name s gf.

Lemma KS_upd st st' m : KS st' (upd_starts st st' m).
Proof. intros name g Hg. rewrite al_get_upd, Hg. eauto. Qed.

(** a group of the new state is new, or an old group with the same cursor *)
Definition gfw (gs gs' : list (str * group)) : Prop :=
  forall name g', al_get str_eqb name gs' = Some g' ->
    al_get str_eqb name gs = None \/ exists g, al_get str_eqb name gs = Some g /\ g_cursor g' = g_cursor g.
(** every old group is still there with the same cursor *)
Definition ggrow (gs gs' : list (str * group)) : Prop :=
  forall name g, al_get str_eqb name gs = Some g -> exists g', al_get str_eqb name gs' = Some g' /\ g_cursor g' = g_cursor g.

Lemma ggrow_refl gs : ggrow gs gs.
Proof. intros name g H. eauto. Qed.
Lemma ggrow_trans a b c : ggrow a b -> ggrow b c -> ggrow a c.
Proof.
  intros H1 H2 name g Hg. destruct (H1 _ _ Hg) as (g1 & Hg1 & E1). destruct (H2 _ _ Hg1) as (g2 & Hg2 & E2).
  exists g2. split; [exact Hg2 | congruence].
Qed.
Lemma ggrow_gfw gs gs' : ggrow gs gs' -> gfw gs gs'.
Proof.
  intros H name g' Hg'. destruct (al_get str_eqb name gs) as [g |] eqn:E; [right | now left].
  destruct (H _ _ E) as (g2 & Hg2 & E2). rewrite Hg' in Hg2. inversion Hg2; subst g2. eauto.
Qed.
Lemma gcur_sub_gfw gs gs' : gcur_sub gs gs' -> gfw gs gs'.
Proof. intros H name g' Hg'. right. destruct (H _ _ Hg') as (g & Hg & E). eauto. Qed.
Lemma gfw_eq gs gs' : gs' = gs -> gfw gs gs'.
Proof. intros ->. apply ggrow_gfw, ggrow_refl. Qed.

Lemma glog_of_group st name g : CInv st -> al_get str_eqb name (r_groups st) = Some g -> exists d, glog (r_datalog st) name = Some d.
Proof.
  intros [_ CI] Hg. pose proof (al_get_Forall _ _ _ _ (ci_groups _ _ CI) Hg) as (nm & p & i & Hs & Hf & (d & Hd & _)).
  cbn [fst snd] in *. exists d. unfold glog. now rewrite Hs, Hf.
Qed.

(** a start computed by [upd_starts] for a new key: the interval up to its cursor is empty *)
Lemma cov_fresh st name g gf :
  CInv st -> al_get str_eqb name (r_groups st) = Some g -> NoEvict st name ->
  Cov st name (read_pos (r_datalog st) name (g_cursor g)) gf.
Proof.
  intros HI Hg HN g0 Hg0 off Hoff. rewrite Hg in Hg0. inversion Hg0; subst g0.
  destruct (glog_of_group _ _ _ HI Hg) as [d Hd]. unfold read_pos in Hoff. rewrite Hd in Hoff.
  unfold pos_of in Hoff. rewrite (HN d (g_cursor g) Hd) in Hoff. lia.
Qed.

(** one stage *)
Lemma covm_stage st st' m gf :
  CovM st m gf -> CInv st -> CInv st' -> dl_le (r_datalog st) (r_datalog st') ->
  gfw (r_groups st) (r_groups st') -> CovM st' (upd_starts st st' m) gf.
Proof.
  intros [HK HC] HI HI' L G. split; [apply KS_upd |].
  intros name s' Hs' HN'. rewrite al_get_upd in Hs'.
  destruct (al_get str_eqb name (r_groups st')) as [g' |] eqn:Eg'; [| discriminate]. inversion Hs' as [Es]. clear Hs'.
  destruct (al_get str_eqb name (r_groups st)) as [g |] eqn:Eg.
  - destruct (al_get str_eqb name m) as [s |] eqn:Em.
    + subst s'. destruct (G _ _ Eg') as [C | (g0 & Hg0 & Ec)]; [congruence |]. rewrite Eg in Hg0. inversion Hg0; subst g0.
      pose proof (noevict_le _ _ _ (proj1 HI) L HN') as HN.
      intros gx Hgx off Hoff. rewrite Eg' in Hgx. inversion Hgx; subst gx. rewrite Ec in Hoff.
      exact (HC _ _ Em HN g Eg off Hoff).
    + subst s'. now apply cov_fresh.
  - subst s'. now apply cov_fresh.
Qed.

Lemma covm_same st st' m gf :
  r_datalog st' = r_datalog st -> r_groups st' = r_groups st -> CovM st m gf -> CovM st' m gf.
Proof.
  intros D G [HK HC]. split.
  - intros name g Hg. rewrite G in Hg. eauto.
  - intros name s Hs HN. unfold NoEvict in HN. rewrite D in HN. eapply Cov_groups; [exact G |]. now apply HC.
Qed.

(** when the keys do not change, [upd_starts] changes nothing *)
Lemma covm_carry st st' m (gf' : list gev) :
  KS st m -> CInv st' ->
  (forall name s, al_get str_eqb name m = Some s -> NoEvict st' name -> Cov st' name s gf') ->
  CovM st' (upd_starts st st' m) gf'.
Proof.
  intros HK HI' HC. split; [apply KS_upd |].
  intros name s' Hs' HN'. rewrite al_get_upd in Hs'.
  destruct (al_get str_eqb name (r_groups st')) as [g' |] eqn:Eg'; [| discriminate]. inversion Hs' as [Es]. clear Hs'.
  destruct (al_get str_eqb name (r_groups st)) as [g |] eqn:Eg; [| subst s'; now apply cov_fresh].
  destruct (al_get str_eqb name m) as [s |] eqn:Em; [| subst s'; now apply cov_fresh].
  subst s'. now apply HC.
Qed.

(* ------------------------------------------------------------------ SUBSCRIBE grows *)
Lemma prepare_filter_ggrow st id cu fidx path qos grp subid st' :
  prepare_filter st id cu fidx path qos grp subid = Ok st' -> ggrow (r_groups st) (r_groups st').
Proof.
  intros H. rewrite (prepare_filter_groups _ _ _ _ _ _ _ _ _ H). destruct grp as [name |]; [| apply ggrow_refl]. cbv zeta.
  intros n g Hg. destruct (str_eqb_spec n name) as [-> | Hne].
  - rewrite (al_get_set_same str_eqb str_eqb_spec), Hg. eexists. split; [reflexivity | reflexivity].
  - rewrite (RetainedBase.al_get_set_other str_eqb str_eqb_spec) by exact Hne. eauto.
Qed.

Lemma subscribe_filters_ggrow id subid : forall fs st fl codes st' fl' codes',
  subscribe_filters st id fs subid fl codes = Ok (st', fl', codes') -> ggrow (r_groups st) (r_groups st').
Proof.
  induction fs as [| [path qos] r IH]; intros st fl codes st' fl' codes' H; cbn [subscribe_filters] in H.
  - inv_ok. apply ggrow_refl.
  - destruct (negb (validate_subscription path)); [inv_ok; apply ggrow_refl |].
    destruct (match extract_group path with Some (g, p) => (Some g, p) | None => (None, path) end) as [grp filter].
    match type of H with (if ?b then _ else _) = _ => destruct b end; [inv_ok; apply ggrow_refl |].
    apply bind_ok in H as ([[st1 idx] cu] & H1 & H). apply bind_ok in H as (st2 & H2 & H).
    eapply ggrow_trans; [| eapply IH; exact H]. rewrite <- (next_native_offset_groups _ _ _ _ _ H1).
    eapply prepare_filter_ggrow; eauto.
Qed.

Lemma rejoin_groups_ggrow strat client : forall rqs gs, ggrow gs (rejoin_groups gs strat client rqs).
Proof.
  induction rqs as [| rq r IH]; intros gs; [apply ggrow_refl |].
  rewrite rejoin_groups_cons. eapply ggrow_trans; [| apply IH]. rewrite rejoin_groups_one.
  destruct (dr_group rq) as [name |]; [| apply ggrow_refl]. cbv zeta.
  intros n g Hg. destruct (str_eqb_spec n name) as [-> | Hne].
  - rewrite (al_get_set_same str_eqb str_eqb_spec), Hg. eexists. split; reflexivity.
  - rewrite (RetainedBase.al_get_set_other str_eqb str_eqb_spec) by exact Hne. eauto.
Qed.

(* ------------------------------------------------------------------ the packets of a batch *)
Lemma handle_packet_gfw st id client pk fl st' fl' brk :
  GK st -> handle_packet st id client pk fl = Ok (st', fl', brk) -> gfw (r_groups st) (r_groups st').
Proof.
  intros HK H. destruct (is_subscribe pk) eqn:Es.
  - destruct pk; try discriminate. cbn [handle_packet] in H.
    apply bind_ok in H as ([[st1 fl1] codes] & H1 & H). apply bind_ok in H as (st2 & H2 & H). inv_ok.
    rewrite (commit_ack_groups _ _ _ _ H2). apply ggrow_gfw. eapply subscribe_filters_ggrow; eauto.
  - apply gcur_sub_gfw. exact (proj2 (handle_packet_groups _ _ _ _ _ _ _ _ Es H HK)).
Qed.

Lemma GI_nil st : GI st []. Proof. constructor. Qed.

Lemma handle_packets_covm id client gf : forall pks st fl st' fl' m,
  CInv st -> GK st -> CovM st m gf ->
  handle_packets st id client pks fl = Ok (st', fl') ->
  CInv st' /\ GK st' /\ CovM st' (pkts_starts st id client pks fl m) gf.
Proof.
  induction pks as [| pk r IH]; intros st fl st' fl' m HI HK HC H; cbn [handle_packets pkts_starts] in *.
  - inv_ok. auto.
  - apply bind_ok in H as ([[st1 fl1] brk] & H1 & H). rewrite H1.
    destruct (handle_packet_cinv _ _ _ _ _ _ _ _ HI H1) as [HI1 L1].
    destruct (handle_packet_gi _ _ _ _ _ _ _ _ [] HI HK (GI_nil _) H1) as [HK1 _].
    pose proof (covm_stage _ _ _ _ HC HI HI1 L1 (handle_packet_gfw _ _ _ _ _ _ _ _ HK H1)) as HC1.
    destruct brk; [inv_ok; auto |]. eapply IH; eauto.
Qed.

(* ------------------------------------------------------------------ DeviceData *)
Lemma handle_device_payload_covm st id st' m gf :
  CInv st -> GK st -> CovM st m gf ->
  match data_disc_state st id with Some st3 => hd_rewinds st3 id | None => false end = false ->
  handle_device_payload st id = Ok st' ->
  CovM st' (data_starts st id st' m) gf.
Proof.
  unfold handle_device_payload, data_starts, data_disc_state. intros HI HK HC Hnr H.
  destruct (slab_get (r_ibufs st) id) as [inc |]; [| inv_ok; exact HC].
  apply bind_ok in H as (b & Hb & H). rewrite Hb in *. apply bind_ok in H as ([st1 fl] & H1 & H). rewrite H1 in *. cbv beta iota zeta in *.
  match type of H1 with handle_packets ?s _ _ _ _ = _ =>
    assert (HI0 : CInv s) by (eapply cinv_view; [| exact HI]; reflexivity);
    assert (HK0 : GK s) by exact HK;
    assert (HC0 : CovM s m gf) by (eapply covm_same; [| | exact HC]; reflexivity) end.
  destruct (handle_packets_covm _ _ _ _ _ _ _ _ _ HI0 HK0 HC0 H1) as (HI1 & HK1 & HC1).
  match type of HC1 with CovM _ ?mm _ => set (m1 := mm) in * end.
  apply bind_ok in H as (st2 & H2 & H). apply bind_ok in H as (st3 & H3 & H).
  assert (X2 : r_datalog st2 = r_datalog st1 /\ r_groups st2 = r_groups st1 /\ CInv st2).
  { destruct (f_force_ack fl); [| inv_ok; auto].
    split; [eapply reschedule_dl; eauto | split; [eapply reschedule_groups; eauto | eapply reschedule_cinv; eauto]]. }
  destruct X2 as (D2 & G2 & HI2).
  assert (X3 : r_datalog st3 = r_datalog st2 /\ r_groups st3 = r_groups st2 /\ CInv st3).
  { destruct (f_new_data fl); [| inv_ok; auto].
    split; [eapply drain_notifications_dl; eauto | split; [eapply drain_notifications_groups; eauto | eapply drain_notifications_cinv; eauto]]. }
  destruct X3 as (D3 & G3 & HI3).
  assert (HC3 : CovM st3 m1 gf) by (eapply covm_same; [| | exact HC1]; congruence).
  assert (HK3 : GK st3) by (unfold GK in *; now rewrite G3, G2).
  destruct (f_force_ack fl); destruct (f_new_data fl);
    try rewrite H2 in *; try rewrite H3 in *; inv_ok; try rewrite H2 in *; try rewrite H3 in *;
    (destruct (f_disconnect fl); [| inv_ok; exact HC3]);
    (destruct (handle_disconnection_cinv _ _ _ _ HI3 H) as [HI' L'];
     eapply covm_stage; [exact HC3 | exact HI3 | exact HI' | exact L' |];
     apply gcur_sub_gfw; exact (proj2 (handle_disconnection_groups _ _ _ _ H Hnr HK3))).
Qed.

(* ------------------------------------------------------------------ Connect *)
Lemma handle_new_connection_covm st conn link st' m gf :
  CInv st -> GK st -> CovM st m gf ->
  connect_rewinds st (c_client conn) = false ->
  handle_new_connection st conn link = Ok st' ->
  CovM st' (connect_starts st (c_client conn) st' m) gf.
Proof.
  intros HI HK HC Hnr H. destruct (handle_new_connection_cinv _ _ _ _ HI H) as [HI' _].
  unfold handle_new_connection in H. unfold connect_rewinds in Hnr. unfold connect_starts, connect_pre.
  destruct (negb (validate_clientid (c_client conn))) eqn:Ev; [inv_ok; exact HC |].
  apply negb_false_iff in Ev. rewrite Ev in Hnr. cbn [andb] in Hnr.
  apply bind_ok in H as (st1 & H1 & H).
  assert (X1 : CInv st1 /\ GK st1 /\ CovM st1 (upd_starts st st1 m) gf /\
               match al_get str_eqb (c_client conn) (r_cmap st) with
               | Some cid => handle_disconnection st cid None
               | None => Ok st
               end = Ok st1).
  { destruct (al_get str_eqb (c_client conn) (r_cmap st)) as [cid |].
    - destruct (handle_disconnection_cinv _ _ _ _ HI H1) as [HI1 L1].
      pose proof (handle_disconnection_groups _ _ _ _ H1 Hnr) as S.
      split; [exact HI1 |]. split; [exact (proj1 (S HK)) |]. split; [| exact H1].
      eapply covm_stage; [exact HC | exact HI | exact HI1 | exact L1 |]. apply gcur_sub_gfw. exact (proj2 (S HK)).
    - inv_ok. split; [exact HI |]. split; [exact HK |]. split; [| reflexivity].
      eapply covm_stage; [exact HC | exact HI | exact HI | apply dl_le_refl | apply gfw_eq; reflexivity]. }
  destruct X1 as (HI1 & HK1 & HC1 & E1). rewrite E1.
  destruct (cf_max_connections (r_cfg st1) <=? slab_len (r_conns st1)).
  { inv_ok. eapply covm_stage; [exact HC1 | exact HI1 | exact HI1 | apply dl_le_refl | apply gfw_eq; reflexivity]. }
  eapply covm_stage; [exact HC1 | exact HI1 | exact HI' | |].
  - match type of H with (match ?X with _ => _ end) = _ => destruct X as [[trk conn1] pubrels] end.
    destruct (slab_insert (r_conns st1) (set_c_will conn1 None)) as [conns id].
    destruct (slab_insert (r_ibufs st1) _) as [ibufs id_i].
    destruct (slab_insert (r_obufs st1) _) as [obufs id_o].
    destruct (slab_insert (r_acks st1) _) as [acks id_a].
    destruct (slab_insert (r_trackers st1) trk) as [trackers id_t].
    match type of H with (if ?b then _ else _) = _ => destruct b end; [discriminate |].
    apply bind_ok in H as (u & _ & H). rewrite (reschedule_dl _ _ _ _ H). cbn [r_datalog]. apply dl_le_refl.
  - match type of H with (match ?X with _ => _ end) = _ => destruct X as [[trk conn1] pubrels] end.
    destruct (slab_insert (r_conns st1) (set_c_will conn1 None)) as [conns id].
    destruct (slab_insert (r_ibufs st1) _) as [ibufs id_i].
    destruct (slab_insert (r_obufs st1) _) as [obufs id_o].
    destruct (slab_insert (r_acks st1) _) as [acks id_a].
    destruct (slab_insert (r_trackers st1) trk) as [trackers id_t].
    match type of H with (if ?b then _ else _) = _ => destruct b end; [discriminate |].
    apply bind_ok in H as (u & _ & H). rewrite (reschedule_groups _ _ _ _ H). cbn [r_groups].
    apply ggrow_gfw. apply rejoin_groups_ggrow.
Qed.
