(** RInv 3 — the wake-up discipline holds in every reachable state, for ALL op sequences.

    [WakeInv st owed] = [WakeS] (scheduling: every connection that is not [Paused Caughtup] is
    runnable, or an ack / a Ready is owed to the router) + [ParkInv] (a parked request is at the
    end of its log).  [owed] is the ghost of Wake.v (links that took an [Unschedule] out of their
    buffer and have not sent [Ready] since), computed from the op history by [owed_run]. *)
From Coq Require Import List ZifyBool ZifyN ZifyNat.
From Rumqtt Require Import Router.Inv Router.InvLemmasPrim Router.NoPanic.
From Rumqtt Require Import Router.WindowFrame Router.Window Router.WindowStep.
From Rumqtt Require Import Router.IsolationFrame Router.IsolationInv.
From Rumqtt Require Import Router.ExactInv Router.ExactStep3 Router.ExactLogs.
From Rumqtt Require Import Router.Wake Router.WakeFrame Router.WakeConsume Router.WakePark.
From Rumqtt Require Import Router.Model Router.RunDefs.
Import ListNotations.

Record WakeInv (st : rstate) (owed : list N) : Prop := {
  wi_sched : WakeS st owed;
  wi_park : ParkInv st
}.

(* ------------------------------------------------------------------ what RInv contributes *)
Lemma RInv_GraveBusy cfg st : RInvC cfg st -> GraveBusy st.
Proof.
  intros HI. pose proof (ri_grave _ _ HI) as G. unfold GraveBusy. revert G. apply Forall_impl.
  intros [c [ss |]]; cbn [sess_ok gbusy snd]; [tauto | auto].
Qed.

Lemma RInv_ibuf_obuf cfg st id i :
  RInvC cfg st -> slab_get (r_ibufs st) id = Some i -> slab_get (r_obufs st) id <> None.
Proof.
  intros HI G. destruct (RInv_ibuf_live _ _ _ _ HI G) as [c Hc].
  destruct (RInv_live_all _ _ _ _ HI Hc) as (_ & o & _ & _ & _ & Go & _). congruence.
Qed.

Lemma RInv_trk_obuf cfg st id t :
  RInvC cfg st -> slab_get (r_trackers st) id = Some t -> slab_get (r_obufs st) id <> None.
Proof.
  intros HI G. destruct (RInv_trk_live _ _ _ _ HI G) as [c Hc].
  destruct (RInv_live_all _ _ _ _ HI Hc) as (_ & o & _ & _ & _ & Go & _). congruence.
Qed.

Lemma RInv_obuf_trk cfg st id o :
  RInvC cfg st -> slab_get (r_obufs st) id = Some o -> slab_get (r_trackers st) id <> None.
Proof.
  intros HI G. destruct (RInv_obuf_live _ _ _ _ HI G) as [c Hc].
  destruct (RInv_live_all _ _ _ _ HI Hc) as (_ & _ & _ & t & _ & _ & _ & Gt). congruence.
Qed.

(* ------------------------------------------------------------------ the ghost steps *)
Lemma wake_ok_owed_mono m st owed owed' id t :
  (forall k, In k owed -> In k owed') -> wake_ok m st owed id t -> wake_ok m st owed' id t.
Proof.
  intros M. unfold wake_ok. destruct m; auto; destruct (tr_status t) as [| [ | | ]]; auto;
    intros H o G; destruct (H o G); auto.
Qed.

Lemma drain_wake st owed k b :
  WakeS st owed -> nthN (r_links st) k = Some b ->
  WakeS (link_put st k (set_lk_out b [])) (owed_step st owed (OpDrain k)).
Proof.
  intros HW Hb w t G1. rsimpl. specialize (HW w t G1). revert HW.
  unfold wake_ok, strict. rsimpl. cbn [owed_step].
  destruct (tr_status t) as [| [ | | ]]; auto. intros H o G. specialize (H o G).
  destruct (N.eq_dec (o_link o) k) as [E | Hne].
  - right. rewrite E in *. destruct H as [H | H].
    + apply has_unsched_In in H. rewrite H. now left.
    + destruct (has_unsched (out_of st k)); [now right | exact H].
  - destruct H as [H | H].
    + left. unfold out_of in *. rsimpl. rewrite nthN_setN_other by congruence. exact H.
    + right. destruct (has_unsched (out_of st k)); [now right | exact H].
Qed.

Lemma ready_wake cfg st owed id t st' :
  RInvC cfg st -> LinkInv st -> WakeS st owed -> slab_get (r_trackers st) id = Some t ->
  reschedule st id SReady = Ok st' -> WakeS st' (owed_step st owed (OpReady id)).
Proof.
  intros HI [_ LI] HW G H. pose proof (reschedule_wake _ _ _ _ _ _ HW H) as W1.
  destruct (slab_get (r_obufs st) id) as [ob |] eqn:Gob; [| exfalso; eapply RInv_trk_obuf; eauto].
  cbn [owed_step]. rewrite Gob.
  pose proof (reschedule_keep _ _ _ _ H) as K. pose proof (keep_obufs _ _ K) as KO.
  apply reschedule_explicit in H as (t0 & t' & woke & G0 & HT & E). rewrite G in G0. inversion G0; subst t0.
  intros w t2 G2. specialize (W1 w t2 G2). revert W1. unfold wake_ok, strict.
  destruct (tr_status t2) as [| [ | | ]] eqn:ES; auto. rewrite KO. intros W1 o Go. specialize (W1 o Go).
  destruct W1 as [W1 | W1]; [now left | right]. apply filter_In. split; [exact W1 |].
  apply negb_true_iff. apply N.eqb_neq. intros EL.
  assert (w = id) by (eapply LI; eauto). subst w.
  (* the tracker of [id] is not Busy after reschedule(Ready) *)
  assert (G2' : slab_get (r_trackers st') id = Some t')
    by (subst st'; destruct woke; rsimpl; eapply slab_get_put_occ; eauto).
  rewrite G2' in G2. inversion G2; subst t2.
  destruct (tr_status t) as [| p] eqn:ES0.
  - apply try_ready_cases in HT as (_ & _ & [[_ ->] | (_ & _ & C)]); congruence.
  - destruct p.
    + apply try_ready_cases in HT as (_ & _ & [[_ ->] | (_ & C & _)]); congruence.
    + apply try_ready_cases in HT as (_ & _ & [[_ ->] | (_ & C & _)]); congruence.
    + destruct (try_ready_wakes _ _ _ _ _ Busy HT ES0 eq_refl) as [_ C]. congruence.
Qed.

(* ------------------------------------------------------------------ one step *)
Lemma links_app_wle st b : wle st (set_r_links st (r_links st ++ [b])).
Proof.
  constructor; rsimpl; auto. intros k Hk. unfold out_of in *. rsimpl.
  destruct (nthN (r_links st) k) as [b0 |] eqn:E; [| destruct Hk].
  now rewrite (WindowFrame.nthN_app_l _ _ _ _ E).
Qed.

Theorem step_wakes cfg st owed o st' out :
  RInvC cfg st -> LinkInv st -> WakeS st owed -> step st o = Ok (st', out) ->
  WakeS st' (owed_step st owed o).
Proof.
  intros HI LI HW H. destruct o as [c | k pk | id | | k | id | id | id f | c |]; cbn [step] in H.
  - (* Connect *)
    cbv zeta in H. apply bind_ok in H as (st2 & H2 & H). inv_ok. cbn [owed_step].
    eapply handle_new_connection_wake; [| | exact H2].
    + eapply WakeG_wle; [apply links_app_wle | exact HW].
    + exact (RInv_GraveBusy _ _ HI).
  - (* Push *)
    cbn [owed_step]. destruct (nthN (r_links st) k) as [b |] eqn:Hb; inv_ok; [| exact HW].
    eapply WakeG_wle; [| exact HW]. now apply link_put_in_wle.
  - (* DeviceData *)
    apply bind_ok in H as (st1 & H1 & H). inv_ok. cbn [owed_step].
    eapply handle_device_payload_wake; [exact HW | exact (RInv_NF _ _ HI) | | exact H1].
    intros i Gi. eapply RInv_ibuf_obuf; eauto.
  - (* Consume *)
    apply bind_ok in H as ([st1 b] & H1 & H). inv_ok. cbn [owed_step]. eapply consume_wake; eauto.
  - (* Drain *)
    destruct (nthN (r_links st) k) as [b |] eqn:Hb; inv_ok.
    + now apply drain_wake.
    + cbn [owed_step]. unfold out_of. rewrite Hb. cbn [has_unsched existsb]. exact HW.
  - (* Ready *)
    destruct (slab_get (r_trackers st) id) as [t |] eqn:G.
    + apply bind_ok in H as (st1 & H1 & H). inv_ok. eapply ready_wake; eauto.
    + inv_ok. cbn [owed_step]. destruct (slab_get (r_obufs st') id) as [ob |] eqn:Go; [| exact HW].
      exfalso. eapply RInv_obuf_trk; eauto.
  - (* Disconnect *)
    apply bind_ok in H as (st1 & H1 & H). inv_ok. cbn [owed_step].
    eapply handle_disconnection_wake; [apply (proj1 (WakeS_only id st owed)); exact HW | exact H1 | now left].
  - (* Shadow *)
    apply bind_ok in H as (st1 & H1 & H). inv_ok. cbn [owed_step].
    eapply WakeG_wle; [eapply retrieve_shadow_wle; eauto | exact HW].
  - (* Will *)
    apply bind_ok in H as (st1 & H1 & H). inv_ok. cbn [owed_step]. eapply handle_last_will_wake; eauto.
  - inv_ok. exact HW.
Qed.

Lemma owed_step_oracle st orc owed o : owed_step (set_r_oracle st orc) owed o = owed_step st owed o.
Proof. destruct o; reflexivity. Qed.

Lemma RInvC_oracle cfg st orc : RInvC cfg st -> RInvC cfg (set_r_oracle st orc).
Proof. apply RInv_set_oracle. Qed.

Theorem step_with_wakes st owed orc o st' out :
  RInv st -> LinkInv st -> WakeS st owed -> step_with st orc o = Ok (st', out) ->
  WakeS st' (owed_step st owed o).
Proof.
  intros [HI _] LI HW H. unfold step_with in H. apply bind_ok in H as ([st1 out1] & H1 & H).
  destruct (r_oracle st1); [| discriminate]. inv_ok. rewrite <- (owed_step_oracle st orc).
  eapply step_wakes; [apply RInvC_oracle; exact HI | exact LI | | exact H1].
  eapply WakeG_wle; [| exact HW]. apply wle_view. reflexivity.
Qed.

Lemma init_wakes cfg st0 : init cfg = Ok st0 -> WakeS st0 [].
Proof.
  unfold init. intros H. apply bind_ok in H as (dl & _ & H). inv_ok. intros id t G. discriminate.
Qed.

(* ------------------------------------------------------------------ every run *)
(** the scheduling half needs no resource bound *)
Theorem wakes_run : forall ops st owed st',
  RInv st -> LinkInv st -> ops_wf ops -> WakeS st owed -> run st ops = Ok st' ->
  WakeS st' (owed_run st owed ops).
Proof.
  induction ops as [| [orc o] ops IH]; intros st owed st' HI LI Hwf HW Hr; cbn [run owed_run] in *.
  - now inv_ok.
  - inversion Hwf as [| ? ? Hw1 Hw']; subst. cbn [snd] in Hw1.
    destruct (step_with st orc o) as [[st1 out] | e | t] eqn:Es; try discriminate.
    destruct (rinv_step _ _ _ _ _ HI Hw1 Es) as [HI1 _].
    pose proof (proj2 (step_with_inv _ _ _ _ _ Es) LI) as LI1.
    eapply IH; eauto. eapply step_with_wakes; eauto.
Qed.

Theorem wakes_reachable cfg st0 ops st :
  cfg_ok cfg -> init cfg = Ok st0 -> ops_wf ops -> run st0 ops = Ok st ->
  WakeS st (owed_run st0 [] ops).
Proof.
  intros Hcfg Hi Hwf Hr. eapply wakes_run; [eapply rinv_init; eauto | | exact Hwf | eapply init_wakes; eauto | exact Hr].
  apply (reachable_LinkInv cfg). exists st0, []. auto.
Qed.

(** the whole invariant; [Bounded] (fewer than 2^62 entries per filter log) is asked of the
    LAST state only *)
Theorem wake_run : forall ops st owed st',
  RInv st -> LinkInv st -> CInv st -> 1 <= cf_max_outgoing (r_cfg st) -> ops_wf ops ->
  WakeInv st owed -> run st ops = Ok st' -> Bounded st' ->
  WakeInv st' (owed_run st owed ops).
Proof.
  induction ops as [| [orc o] ops IH]; intros st owed st' HI LI HC HM Hwf [HW HP] Hr HB; cbn [run owed_run] in *.
  - inv_ok. now split.
  - inversion Hwf as [| ? ? Hw1 Hw']; subst. cbn [snd] in Hw1.
    destruct (step_with st orc o) as [[st1 out] | e | t] eqn:Es; try discriminate.
    destruct (rinv_step _ _ _ _ _ HI Hw1 Es) as [HI1 Ecfg].
    pose proof (proj2 (step_with_inv _ _ _ _ _ Es) LI) as LI1.
    destruct (step_with_LL _ _ _ _ _ Es (proj1 HC)) as [LG1 L1].
    destruct (run_LL _ _ _ Hr LG1) as [_ L2].
    pose proof (bounded_le _ _ LG1 L2 HB) as HB1.
    pose proof (bounded_le _ _ (proj1 HC) L1 HB1) as HB0.
    destruct (step_with_cinv _ _ _ _ _ HC HB0 Es) as [HC1 _].
    apply (IH st1 (owed_step st owed o) st' HI1 LI1 HC1); [rewrite Ecfg; exact HM | exact Hw' | | exact Hr | exact HB].
    split; [exact (step_with_wakes _ _ _ _ _ _ HI LI HW Es) | exact (step_with_park _ _ _ _ _ HC HB0 HM HP Es)].
Qed.

Theorem wake_reachable cfg st0 ops st :
  cfg_ok cfg -> 1 <= cf_max_outgoing cfg < B62 -> init cfg = Ok st0 -> ops_wf ops ->
  run st0 ops = Ok st -> Bounded st ->
  WakeInv st (owed_run st0 [] ops).
Proof.
  intros Hcfg [Hm1 Hm2] Hi Hwf Hr HB.
  assert (Ec : r_cfg st0 = cfg) by (unfold init in Hi; apply bind_ok in Hi as (dl & _ & Hi); now inv_ok).
  eapply wake_run; [eapply rinv_init; eauto | | eapply init_cinv; eauto | now rewrite Ec | exact Hwf | | exact Hr | exact HB].
  - apply (reachable_LinkInv cfg). exists st0, []. auto.
  - split; [eapply init_wakes; eauto | eapply init_park; eauto].
Qed.

(* ------------------------------------------------------------------ the invariant in the words of DESIGN §7 *)
Theorem wakes_pending st owed id t a o :
  WakeS st owed ->
  slab_get (r_trackers st) id = Some t -> slab_get (r_acks st) id = Some a -> slab_get (r_obufs st) id = Some o ->
  tr_reqs t <> [] \/ a_committed a <> [] ->
  (tr_status t = Ready /\ In id (r_ready st)) \/
  (tr_status t = Paused InflightFull /\ o_inflight o <> []) \/
  (tr_status t = Paused Busy /\ (In NUnschedule (out_of st (o_link o)) \/ In (o_link o) owed)).
Proof.
  intros HW G1 G2 G3 P. specialize (HW id t G1). unfold wake_ok, strict in HW.
  destruct (tr_status t) as [| [ | | ]].
  - left. auto.
  - exfalso. destruct HW as [E [C | C]]; [discriminate |]. specialize (C a G2). destruct P; contradiction.
  - right. left. auto.
  - right. right. auto.
Qed.

Theorem wakes_caughtup st owed id t a :
  WakeS st owed ->
  slab_get (r_trackers st) id = Some t -> slab_get (r_acks st) id = Some a ->
  tr_status t = Paused Caughtup -> tr_reqs t = [] /\ a_committed a = [].
Proof.
  intros HW G1 G2 ES. specialize (HW id t G1). unfold wake_ok, strict in HW. rewrite ES in HW.
  destruct HW as [E [C | C]]; [discriminate | auto].
Qed.
