(** RInv 3 — the wake-up discipline ("no lost wake-up"): definitions and the primitive lemmas.

    The model has no flag for "the link has taken an [Unschedule] out of the data buffer and
    still owes the router an [Event::Ready]".  It is added here as a ghost computed from the op
    history: [owed_step] adds link [k] when [OpDrain k] hands out a buffer that contains
    [NUnschedule], and removes the link of connection [id] at [OpReady id].  The ghost is a list
    of LINK numbers (a link number is never reused, a connection id is).

    [wake_ok m st owed id t a o] — tracker [t], ack log [a], outgoing [o] of connection [id]:
      Ready                -> id is in the ready queue
      Paused Caughtup      -> the tracker holds no request and no ack is committed
      Paused InflightFull  -> the inflight buffer is not empty (the client owes an ack)
      Paused Busy          -> an [Unschedule] sits in the link's data buffer, or the link owes a Ready
    [m] is the mode of the connection inside a DeviceData event: [MForce] = an ack has been
    committed and force_ack is set (the reschedule(FreshData) after the batch is still to come),
    [MDead] = the batch has set the disconnect flag (the connection is removed after the batch). *)
From Coq Require Import List ZifyBool ZifyN ZifyNat.
From Rumqtt Require Import Router.WindowFrame.
From Rumqtt Require Import Router.Model Router.RunDefs.
Import ListNotations.

(* ------------------------------------------------------------------ the ghost *)
Definition is_unsched (n : notification) : bool := match n with NUnschedule => true | _ => false end.
Definition has_unsched (ns : list notification) : bool := existsb is_unsched ns.

Lemma has_unsched_In ns : has_unsched ns = true <-> In NUnschedule ns.
Proof.
  unfold has_unsched. rewrite existsb_exists. split.
  - intros (x & Hx & E). destruct x; try discriminate. exact Hx.
  - intros H. exists NUnschedule. auto.
Qed.

Definition owed_step (st : rstate) (owed : list N) (o : rop) : list N :=
  match o with
  | OpDrain k => if has_unsched (out_of st k) then k :: owed else owed
  | OpReady id =>
      match slab_get (r_obufs st) id with
      | Some ob => filter (fun k => negb (k =? o_link ob)) owed
      | None => owed
      end
  | _ => owed
  end.

(** the ghost after a run (the state is needed to know what a drain returned) *)
Fixpoint owed_run (st : rstate) (owed : list N) (ops : list (list oracle * rop)) : list N :=
  match ops with
  | [] => owed
  | (orc, o) :: r =>
      match step_with st orc o with
      | Ok (st1, _) => owed_run st1 (owed_step st owed o) r
      | _ => owed
      end
  end.

(** "link [k] owes a Ready" after the op history [ops] from [st0] *)
Definition owes_ready (st0 : rstate) (ops : list (list oracle * rop)) (k : N) : bool :=
  set_mem N.eqb k (owed_run st0 [] ops).

Lemma set_mem_In k l : set_mem N.eqb k l = true <-> In k l.
Proof.
  induction l as [| x r IH]; cbn [set_mem In]; [split; [discriminate | tauto] |].
  rewrite orb_true_iff, IH, N.eqb_eq. split; intros [H | H]; auto.
Qed.

Lemma owed_run_app ops1 : forall st owed ops2 st1,
  run st ops1 = Ok st1 -> owed_run st owed (ops1 ++ ops2) = owed_run st1 (owed_run st owed ops1) ops2.
Proof.
  induction ops1 as [| [orc o] r IH]; intros st owed ops2 st1 H; cbn [run app owed_run] in *.
  - now inversion H.
  - destruct (step_with st orc o) as [[st' out] | e | t]; try discriminate. now apply IH.
Qed.

(* ------------------------------------------------------------------ the invariant *)
Inductive mode := MStrict | MForce | MDead.

Definition wake_ok (m : mode) (st : rstate) (owed : list N) (id : N) (t : tracker) : Prop :=
  match m with
  | MDead => True
  | _ =>
      match tr_status t with
      | Ready => In id (r_ready st)
      | Paused Caughtup =>
          tr_reqs t = [] /\ (m = MForce \/ forall a, slab_get (r_acks st) id = Some a -> a_committed a = [])
      | Paused InflightFull => forall o, slab_get (r_obufs st) id = Some o -> o_inflight o <> []
      | Paused Busy =>
          forall o, slab_get (r_obufs st) id = Some o ->
                    In NUnschedule (out_of st (o_link o)) \/ In (o_link o) owed
      end
  end.

Definition WakeG (f : N -> mode) (st : rstate) (owed : list N) : Prop :=
  forall id t, slab_get (r_trackers st) id = Some t -> wake_ok (f id) st owed id t.

Definition strict : N -> mode := fun _ => MStrict.
Definition only (id : N) (m : mode) : N -> mode := fun w => if w =? id then m else MStrict.

(** the scheduling half of the invariant, between events *)
Definition WakeS (st : rstate) (owed : list N) : Prop := WakeG strict st owed.

Definition mode_le (a b : mode) : Prop :=
  match a, b with
  | MStrict, _ => True
  | MForce, MStrict => False
  | MForce, _ => True
  | MDead, MDead => True
  | MDead, _ => False
  end.

Lemma wake_ok_weaken m m' st owed id t : mode_le m m' -> wake_ok m st owed id t -> wake_ok m' st owed id t.
Proof.
  unfold wake_ok. destruct m, m'; cbn [mode_le]; try tauto; intros _;
    destruct (tr_status t) as [| [ | | ]]; try tauto; intros [H1 [H2 | H2]]; auto; discriminate.
Qed.

Lemma WakeG_weaken f f' st owed : (forall w, mode_le (f w) (f' w)) -> WakeG f st owed -> WakeG f' st owed.
Proof. intros L H id t G1. eapply wake_ok_weaken; [apply L | eauto]. Qed.

Lemma mode_le_refl m : mode_le m m. Proof. now destruct m. Qed.
Lemma only_same id m : only id m id = m. Proof. unfold only. now rewrite N.eqb_refl. Qed.
Lemma only_other id m w : w <> id -> only id m w = MStrict.
Proof. unfold only. intros H. destruct (N.eqb_spec w id); [contradiction | reflexivity]. Qed.
Lemma only_le id m m' : mode_le m m' -> forall w, mode_le (only id m w) (only id m' w).
Proof. intros L w. unfold only. destruct (w =? id); [exact L | exact I]. Qed.
Lemma strict_only id : forall w, strict w = only id MStrict w.
Proof. intros w. unfold strict, only. now destruct (w =? id). Qed.
Lemma WakeS_only id st owed : WakeS st owed <-> WakeG (only id MStrict) st owed.
Proof.
  split; apply WakeG_weaken; intros w; unfold strict, only; destruct (w =? id); exact I.
Qed.

(* ------------------------------------------------------------------ frames *)
(** what a function serving connection [id] may do to the others: their tracker, ack log and
    outgoing entries are unchanged, they stay in the ready queue, a pending [Unschedule] stays
    pending *)
Record wfr (id : N) (st st' : rstate) : Prop := {
  wf_trk : forall w, w <> id -> slab_get (r_trackers st') w = slab_get (r_trackers st) w;
  wf_acks : forall w, w <> id -> slab_get (r_acks st') w = slab_get (r_acks st) w;
  wf_obufs : forall w, w <> id -> slab_get (r_obufs st') w = slab_get (r_obufs st) w;
  wf_ready : forall w, w <> id -> In w (r_ready st) -> In w (r_ready st');
  wf_out : forall k, In NUnschedule (out_of st k) -> In NUnschedule (out_of st' k)
}.

Lemma wfr_refl id st : wfr id st st.
Proof. constructor; auto. Qed.
Lemma wfr_trans id a b c : wfr id a b -> wfr id b c -> wfr id a c.
Proof.
  intros [A1 A2 A3 A4 A5] [B1 B2 B3 B4 B5]. constructor; intros.
  - rewrite B1, A1 by assumption. reflexivity.
  - rewrite B2, A2 by assumption. reflexivity.
  - rewrite B3, A3 by assumption. reflexivity.
  - auto.
  - auto.
Qed.

(** nothing at all changes for anybody, except that the queue and the buffers may grow *)
Record wle (st st' : rstate) : Prop := {
  wl_trk : r_trackers st' = r_trackers st;
  wl_acks : r_acks st' = r_acks st;
  wl_obufs : r_obufs st' = r_obufs st;
  wl_ready : forall w, In w (r_ready st) -> In w (r_ready st');
  wl_out : forall k, In NUnschedule (out_of st k) -> In NUnschedule (out_of st' k)
}.
Lemma wle_refl st : wle st st.
Proof. constructor; auto. Qed.
Lemma wle_trans a b c : wle a b -> wle b c -> wle a c.
Proof. intros [A1 A2 A3 A4 A5] [B1 B2 B3 B4 B5]. constructor; try congruence; auto. Qed.
Lemma wle_wfr id st st' : wle st st' -> wfr id st st'.
Proof. intros [A1 A2 A3 A4 A5]. constructor; intros; rewrite ?A1, ?A2, ?A3; auto. Qed.

Definition wview (st : rstate) := (r_trackers st, r_acks st, r_obufs st, r_ready st, r_links st).
Lemma wle_view st st' : wview st' = wview st -> wle st st'.
Proof.
  unfold wview. intros E. inversion E as [[E1 E2 E3 E4 E5]]. constructor; auto.
  - now rewrite E4.
  - intros k. unfold out_of. now rewrite E5.
Qed.

(** [wake_ok] of connection [w] only reads the entries of [w], the queue and the buffers *)
Lemma wake_ok_transfer m st st' owed w t :
  slab_get (r_acks st') w = slab_get (r_acks st) w -> slab_get (r_obufs st') w = slab_get (r_obufs st) w ->
  (In w (r_ready st) -> In w (r_ready st')) ->
  (forall k, In NUnschedule (out_of st k) -> In NUnschedule (out_of st' k)) ->
  wake_ok m st owed w t -> wake_ok m st' owed w t.
Proof.
  intros E2 E3 R O. unfold wake_ok. destruct m; auto; destruct (tr_status t) as [| [ | | ]]; auto; rewrite ?E2, ?E3; auto.
  - intros H o G. destruct (H o G); auto.
  - intros H o G. destruct (H o G); auto.
Qed.

Lemma WakeG_wle f st st' owed : wle st st' -> WakeG f st owed -> WakeG f st' owed.
Proof.
  intros [E1 E2 E3 R O] H id t G1. rewrite E1 in G1.
  eapply wake_ok_transfer; [now rewrite E2 | now rewrite E3 | apply R | exact O | eauto].
Qed.

(** the general update lemma: the others are framed, the served connection is re-established *)
Lemma WakeG_upd f f' id st st' owed :
  WakeG f st owed -> wfr id st st' ->
  (forall w, w <> id -> mode_le (f w) (f' w)) ->
  (forall t, slab_get (r_trackers st') id = Some t -> wake_ok (f' id) st' owed id t) ->
  WakeG f' st' owed.
Proof.
  intros H [F1 F2 F3 F4 F5] L Hid w t G1.
  destruct (N.eq_dec w id) as [-> | Hne]; [now apply Hid |].
  rewrite F1 in G1 by exact Hne. specialize (H w t G1). apply (wake_ok_weaken _ _ _ _ _ _ (L w Hne)).
  eapply wake_ok_transfer; [now apply F2 | now apply F3 | now apply F4 | exact F5 | exact H].
Qed.

(** prove [wfr]/[wle] for an explicitly given [st'] *)
Ltac wfr_tac :=
  constructor; rsimpl; intros;
  rewrite ?slab_get_put_other by congruence;
  try reflexivity; try assumption;
  try (apply in_or_app; left; assumption).

Lemma wfr_put_tracker id st t : wfr id st (put_tracker st id t).
Proof. wfr_tac. Qed.
Lemma wfr_put_acks id st a : wfr id st (put_acks st id a).
Proof. wfr_tac. Qed.
Lemma wfr_put_obuf id st o : wfr id st (put_obuf st id o).
Proof. wfr_tac. Qed.
Lemma wfr_ready_app id st x : wfr id st (set_r_ready st (r_ready st ++ [x])).
Proof. wfr_tac. Qed.
Lemma wle_ready_app st x : wle st (set_r_ready st (r_ready st ++ [x])).
Proof. constructor; rsimpl; auto. intros w H. apply in_or_app. now left. Qed.

Lemma push_out_wle st k ns st' len : push_out st k ns = Ok (st', len) -> wle st st'.
Proof.
  intros H. pose proof (fun k' => push_out_out _ _ _ _ _ k' H) as O. apply push_out_fields in H. rewrite H.
  constructor; rsimpl; auto. intros k' Hk. specialize (O k'). rewrite H in O. rewrite O.
  destruct (k' =? k) eqn:E; [| exact Hk]. assert (k' = k) by lia. subst. apply in_or_app. now left.
Qed.

(* ------------------------------------------------------------------ try_ready *)
Lemma try_ready_cases dbg t why t' woke :
  try_ready dbg t why = Ok (t', woke) ->
  tr_id t' = tr_id t /\ tr_reqs t' = tr_reqs t /\
  ((woke = false /\ t' = t) \/ (woke = true /\ tr_status t' = Ready /\ tr_status t <> Ready)).
Proof.
  unfold try_ready. intros H. break_all H; inv_ok; cbn [tr_id tr_reqs tr_status set_tr_status];
    (split; [reflexivity | split; [reflexivity |]]); try (left; split; reflexivity);
    right; (split; [reflexivity | split; [reflexivity | congruence]]).
Qed.

(** the statuses each reason wakes *)
Definition wakes (why : sched_reason) (p : pause_reason) : bool :=
  match why, p with
  | SInit, _ => true
  | SReady, Busy => true
  | SNewFilter, Caughtup | SFreshData, Caughtup => true
  | SIncomingAck, Caughtup | SIncomingAck, InflightFull => true
  | _, _ => false
  end.

Lemma try_ready_wakes dbg t why t' woke p :
  try_ready dbg t why = Ok (t', woke) -> tr_status t = Paused p -> wakes why p = true ->
  woke = true /\ tr_status t' = Ready.
Proof.
  unfold try_ready. intros H E W. rewrite E in H. destruct why, p; cbn [wakes] in W; try discriminate;
    break_all H; inv_ok; split; reflexivity.
Qed.

(** [reschedule] in explicit form *)
Lemma reschedule_explicit st id why st' :
  reschedule st id why = Ok st' ->
  exists t t' woke, slab_get (r_trackers st) id = Some t /\
    try_ready (cf_debug_assertions (r_cfg st)) t why = Ok (t', woke) /\
    st' = (if woke then set_r_ready (put_tracker st id t') (r_ready st ++ [id]) else put_tracker st id t').
Proof.
  unfold reschedule, get_tracker. intros H. destruct (slab_get (r_trackers st) id) as [t |] eqn:G; [| discriminate].
  cbn [bind] in H. apply bind_ok in H as ([t' woke] & HT & H). inv_ok. exists t, t', woke.
  split; [reflexivity | split; [exact HT |]]. destruct woke; reflexivity.
Qed.

Lemma reschedule_wfr st id why st' : reschedule st id why = Ok st' -> wfr id st st'.
Proof.
  intros H. apply reschedule_explicit in H as (t & t' & woke & G & HT & ->). destruct woke; wfr_tac.
Qed.

(** [reschedule] never breaks the discipline, whatever the reason and the mode *)
Lemma reschedule_wake f st owed id why st' :
  WakeG f st owed -> reschedule st id why = Ok st' -> WakeG f st' owed.
Proof.
  intros HW H. pose proof (reschedule_wfr _ _ _ _ H) as F.
  apply reschedule_explicit in H as (t & t' & woke & G & HT & E).
  eapply WakeG_upd; [exact HW | exact F | intros; apply mode_le_refl |].
  intros t2 G1. apply try_ready_cases in HT as (_ & ER & [[-> ->] | (-> & ES & _)]); subst st'; rsimpl.
  - rewrite (slab_get_put_occ _ _ _ _ G) in G1. inversion G1; subst t2.
    eapply wake_ok_transfer; [| | | | exact (HW id t G)]; rsimpl; auto.
  - rewrite (slab_get_put_occ _ _ _ _ G) in G1. inversion G1; subst t2.
    unfold wake_ok. destruct (f id); auto; rewrite ES; rsimpl; apply in_or_app; right; now left.
Qed.

(** [reschedule] with a reason that wakes [Paused Caughtup] clears [MForce] *)
Lemma reschedule_wake_strict m st owed id why st' :
  WakeG (only id m) st owed -> m <> MDead -> reschedule st id why = Ok st' ->
  wakes why Caughtup = true ->
  WakeG (only id MStrict) st' owed.
Proof.
  intros HW Hm H HC. pose proof (reschedule_wfr _ _ _ _ H) as F.
  apply reschedule_explicit in H as (t & t' & woke & G & HT & E).
  eapply WakeG_upd; [exact HW | exact F | intros w Hw; rewrite !only_other by exact Hw; exact I |].
  rewrite only_same. intros t2 G1.
  assert (G1' : slab_get (r_trackers st') id = Some t')
    by (subst st'; destruct woke; rsimpl; eapply slab_get_put_occ; eauto).
  rewrite G1' in G1. inversion G1; subst t2. clear G1.
  specialize (HW id t G). rewrite only_same in HW.
  assert (TR : wake_ok m st' owed id t).
  { eapply wake_ok_transfer; [| | | | exact HW]; subst st'; destruct woke; rsimpl; auto.
    intros X. apply in_or_app. now left. }
  destruct (tr_status t) as [| p] eqn:ES.
  - apply try_ready_cases in HT as (_ & _ & [[-> ->] | (_ & _ & C)]); [| congruence].
    unfold wake_ok in *. rewrite ES in *. destruct m; tauto.
  - destruct (wakes why p) eqn:W.
    + destruct (try_ready_wakes _ _ _ _ _ _ HT ES W) as [-> ES']. subst st'. unfold wake_ok. rewrite ES'. rsimpl.
      apply in_or_app. right. now left.
    + assert (p <> Caughtup) by (intros ->; congruence).
      apply try_ready_cases in HT as (_ & _ & [[-> ->] | (-> & ES' & _)]).
      * unfold wake_ok in *. rewrite ES in *. destruct m; try tauto; destruct p; try tauto; congruence.
      * subst st'. unfold wake_ok. rewrite ES'. rsimpl. apply in_or_app. right. now left.
Qed.
