(** C17, completeness clause at run level — coverage during a STEADY phase (partial).

    Take any state [st1] and a run [ops2] from it during which nobody joins or leaves a group:
    no Connect / Disconnect events, no SUBSCRIBE / UNSUBSCRIBE in a DeviceData batch, no
    DeviceData batch that ends in a disconnection ([steady_b], executable, evaluated on the very
    states of the run) — publishers publish, members acknowledge, the broker consumes.  Then
    every log offset between the cursor a group had in [st1] and the cursor it has at the end
    was forwarded through the group during [ops2] ([gfwd st1 ops2], the ghost of SharedRun.v;
    by [c17_member_only] each of these forwards went to a then-member whose turn it was).
    Needs that no segment of the log was ever evicted ([NoEvict]: a cursor whose segment is
    gone skips to the oldest retained entry — those entries are lost by design).

    With [complete_quiescent] (the cursor IS at the end of the log at quiescence) this is the
    completeness clause for the phase: [run_complete_steady].

    PARTIAL: membership changes inside the phase are not covered (a group dropped and re-created
    in one DeviceData batch starts at the end of the log again; a general statement needs the
    creation position of each incarnation as a ghost). *)
From Rumqtt Require Import Router.Shared Log.Spec Log.Proofs Log.WfFacts Router.ExactLog.
From Rumqtt Require Import Topic.Proofs Router.WindowFrame Router.Window Router.DataLogInv Router.DataLogStep
                           Router.ExactInv Router.ExactStep1 Router.ExactStep2 Router.ExactLogs Router.ExactStep3
                           Router.ExactThm Router.RetainedBase Router.RetainedReplay Router.SharedRun Router.SharedRunInv Router.SharedRunStep
                           Router.SharedRunStep2 Router.SharedRunStep3 Router.SharedRunThm Router.WakeFrame.
From Rumqtt Require Import Router.Model Router.RunDefs.
From Coq Require Import List Arith ZifyBool ZifyN ZifyNat Sorted.
Import ListNotations.

(* ------------------------------------------------------------------ no eviction *)
(** nothing was ever evicted from the log of group key [name]: no cursor is [stale] for it *)
Definition NoEvictG (dl : datalog) (name : str) : Prop :=
  forall d c, glog dl name = Some d -> stale (d_log d) c = false.
Definition NoEvict (st : rstate) (name : str) : Prop := NoEvictG (r_datalog st) name.

Lemma glog_nget dl name d : glog dl name = Some d -> exists i, nget dl i = Some d.
Proof.
  unfold glog. destruct (split_once_slash name) as [[nm p] |]; [| discriminate].
  destruct (al_get str_eqb p (dl_findex dl)) as [i |]; [| discriminate]. intros H. exists i. exact H.
Qed.

Lemma noevict_le dl dl' name : LogsInv dl -> dl_le dl dl' -> NoEvictG dl' name -> NoEvictG dl name.
Proof.
  intros LI L H d c Hd. destruct (glog_le _ _ _ _ L Hd) as (d' & Hd' & LL).
  destruct (glog_nget _ _ _ Hd) as [i Hi]. destruct (li_wf _ LI _ _ Hi) as [all W].
  destruct (stale (d_log d) c) eqn:E; [| reflexivity].
  apply (stale_mono _ _ all _ W LL) in E. rewrite (H _ c Hd') in E. discriminate.
Qed.

Lemma noevict_eq st st' name : r_datalog st' = r_datalog st -> NoEvict st name -> NoEvict st' name.
Proof. unfold NoEvict. now intros ->. Qed.

(* ------------------------------------------------------------------ coverage *)
(** [s]: the cursor offset group [name] had at the start of the phase *)
Definition Cov (st : rstate) (name : str) (s : N) (gf : list gev) : Prop :=
  forall g, al_get str_eqb name (r_groups st) = Some g ->
    forall off, s <= off < snd (g_cursor g) -> In off (offs_of name gf).

Lemma Cov_app st name s gf x : Cov st name s gf -> Cov st name s (gf ++ x).
Proof. intros H g Hg off Ho. rewrite offs_of_app. apply in_or_app. left. eapply H; eauto. Qed.

Lemma Cov_groups st st' name s gf : r_groups st' = r_groups st -> Cov st name s gf -> Cov st' name s gf.
Proof. unfold Cov. now intros ->. Qed.

Lemma Cov_nil st name s gf : Cov st name s gf -> Cov st name s (gf ++ map forget []).
Proof. cbn [map]. now rewrite app_nil_r. Qed.

Lemma Nseq_In_conv : forall k p x, p <= x < p + N.of_nat k -> In x (Nseq p k).
Proof.
  induction k as [| k IH]; intros p x H; [lia |]. cbn [Nseq]. destruct (N.eq_dec p x) as [-> | Hne]; [now left |].
  right. apply IH. lia.
Qed.

(* ------------------------------------------------------------------ forward_device_data *)
Lemma fdd_cov st id rq st' rq' cs name0 s0 gf :
  CInv st -> Bounded st -> NoEvict st name0 -> RqOk (r_datalog st) rq -> Cov st name0 s0 gf ->
  forward_device_data st id rq = Ok (st', rq', cs) ->
  Cov st' name0 s0 (gf ++ map forget (fdd_ghost st id rq st')).
Proof.
  intros HI HB HN Hrq HC H.
  assert (Ho : exists o, get_obuf st id = Ok o).
  { pose proof H as H'. unfold forward_device_data in H'. apply bind_ok in H' as (o & Ho & _). eauto. }
  destruct Ho as [o Ho]. pose proof (get_obuf_some _ _ _ Ho) as Hos.
  pose proof (forward_cases _ _ _ _ _ _ _ H Ho) as Hc. cbn zeta in Hc. unfold req_group in Hc.
  assert (Hsame : r_groups st' = r_groups st -> Cov st' name0 s0 (gf ++ map forget (fdd_ghost st id rq st'))).
  { intros G. apply Cov_app. eapply Cov_groups; eauto. }
  destruct Hc as [(-> & -> & ->) | (sel & d & pos & from_log & Hsel & Hd & Hr & _ & _ & _ & _ & _ & Hrest)].
  { now apply Hsame. }
  destruct (dr_group rq) as [name |] eqn:En.
  2:{ destruct Hrest as (_ & _ & _ & _ & ns & _ & _ & _ & Hm). apply Hsame.
      destruct (srcs sel from_log); [destruct Hm as (_ & orc & ->); reflexivity | exact Hm]. }
  destruct (al_get str_eqb name (r_groups st)) as [g |] eqn:Eg.
  2:{ destruct Hrest as (_ & _ & _ & _ & ns & _ & _ & _ & Hm). apply Hsame.
      destruct (srcs sel from_log); [destruct Hm as (_ & orc & ->); reflexivity | exact Hm]. }
  destruct (negb (ostr_eqb (Some (o_client o)) (current_client g))) eqn:Esk.
  { destruct Hrest as ((orc & ->) & _). now apply Hsame. }
  destruct Hrest as (_ & _ & _ & _ & ns & Hout & _ & Hf & Hm).
  cbn [dr_cursor set_dr_cursor] in Hr.
  apply srcs_split in Hf as (ns1 & ns2 & -> & Hf1 & Hf2).
  assert (Eev : fdd_ghost st id rq st' =
                map (fun off => (name, g, o_client o, off)) (map (fun e : pubdata * cursor => snd (snd e)) from_log)).
  { unfold fdd_ghost. rewrite Hos, En, Eg. f_equal.
    change (link_out st' (o_link o)) with (RetainedReplay.out_of st' (o_link o)). rewrite Hout.
    change (RetainedReplay.out_of st (o_link o)) with (link_out st (o_link o)).
    rewrite skipn_length_app, !log_offsets_app, (log_offsets_replay _ _ _ Hf1), (log_offsets_live _ _ _ Hf2).
    cbn [app]. destruct cs; cbn [log_offsets]; now rewrite app_nil_r. }
  apply native_get_Some in Hd.
  pose proof (rq_glog _ _ _ _ Hrq En Hd) as Hgl.
  pose proof HI as [LI CI].
  destruct (grp_issued _ _ _ _ _ (ci_groups _ _ CI) Eg Hgl) as [Hiss Hcend].
  destruct (li_wf _ LI _ _ Hd) as [all W].
  pose proof (wf_end_of pubdata_size _ _ W) as Hall. pose proof (HB _ _ Hd) as Hb. pose proof B62_U64 as HU.
  pose proof (ci_cfg _ _ CI) as Hcfg. rewrite MAX_INFLIGHT_100 in Hr.
  match type of Hr with readv _ _ ?n = _ => assert (Hn : n < B62) end.
  { unfold B62 in *. destruct (g_strategy g); destruct (dr_qos rq =? 0); lia. }
  assert (Hb1 : 2 * lenN all < U64) by lia.
  match type of Hr with readv _ _ ?n = _ => assert (Hb2 : snd (g_cursor g) + n < U64) by (unfold B62 in *; lia) end.
  destruct (readv_ok_facts pubdata_size _ all _ _ _ _ W Hiss Hb1 Hb2 Hr)
    as (_ & _ & _ & Hoffs & _ & _ & _ & Hsnd & _ & _).
  set (offs := map (fun e : pubdata * cursor => snd (snd e)) from_log) in *.
  assert (Hoffs' : offs = Nseq (pos_of (d_log d) (g_cursor g)) (length from_log)) by exact Hoffs.
  clear Hoffs. rename Hoffs' into Hoffs.
  rewrite Eev.
  destruct (srcs sel from_log) as [| s1 sr] eqn:Esr.
  - destruct Hm as (_ & orc & ->). apply Cov_app. exact HC.
  - destruct Hm as (sta & stb & g1 & _ & Hgr).
    intros gx Hgx off Hoff. unfold Cov in *. rewrite Hgr in Hgx. rewrite offs_of_app, offs_of_events.
    destruct (str_eqb_spec name0 name) as [-> | Hne].
    + assert (Ep : pos_of (d_log d) (g_cursor g) = snd (g_cursor g)).
      { unfold pos_of. now rewrite (HN d (g_cursor g) Hgl). }
      rewrite Ep in Hoffs, Hsnd.
      rewrite (al_get_set_same str_eqb str_eqb_spec) in Hgx. inversion Hgx; subst gx. cbn [set_g_cursor g_cursor] in Hoff.
      apply in_or_app. destruct (N.lt_ge_cases off (snd (g_cursor g))) as [Hlt | Hge].
      * left. eapply HC; eauto. lia.
      * right. rewrite Hoffs. apply Nseq_In_conv.
        assert (N.of_nat (length from_log) = lenN from_log) by reflexivity. lia.
    + rewrite (RetainedBase.al_get_set_other str_eqb str_eqb_spec) in Hgx by exact Hne.
      rewrite app_nil_r. eapply HC; eauto.
Qed.

(* ------------------------------------------------------------------ consume *)
Lemma consume_loop_cov id name0 s0 : forall fuel st requests skipped st' evs gf,
  CInv st -> Bounded st -> NoEvict st name0 ->
  Forall (RqOk (r_datalog st)) requests -> Forall (RqOk (r_datalog st)) skipped ->
  Cov st name0 s0 gf ->
  consume_loop_g fuel st id requests skipped = Ok (st', evs) ->
  Cov st' name0 s0 (gf ++ map forget evs).
Proof.
  induction fuel as [| fuel IH]; cbn [consume_loop_g]; intros st requests skipped st' evs gf HI HB HN Hr Hs HC H.
  - apply bind_ok in H as (s & H1 & H). inv_ok. apply Cov_nil. eapply Cov_groups; [eapply trackv_groups; eauto | exact HC].
  - destruct requests as [| rq rest].
    + apply bind_ok in H as (st1 & H1 & H). apply bind_ok in H as (s & H2 & H). inv_ok. apply Cov_nil.
      eapply Cov_groups; [| exact HC]. rewrite (trackv_groups _ _ _ _ H2).
      destruct skipped; [eapply pause_groups; eauto | now inv_ok].
    + inversion Hr as [| ? ? Hrq Hrest]; subst.
      apply bind_ok in H as ([[st1 rq'] status] & H1 & H).
      destruct (fdd_cinv _ _ _ _ _ _ HI HB Hrq H1) as (HI1 & Hrq' & D1).
      assert (HB1 : Bounded st1) by (eapply bounded_eq; eassumption).
      assert (HN1 : NoEvict st1 name0) by (eapply noevict_eq; eassumption).
      pose proof (fdd_cov _ _ _ _ _ _ name0 s0 gf HI HB HN Hrq HC H1) as HC1.
      set (ev := fdd_ghost st id rq st1) in *. clearbody ev.
      rewrite <- D1 in Hrest, Hs.
      destruct status.
      * apply bind_ok in H as (st2 & H2 & H). apply bind_ok in H as (s & H3 & H). inv_ok.
        eapply Cov_groups; [| exact HC1]. now rewrite (trackv_groups _ _ _ _ H3), (pause_groups _ _ _ _ H2).
      * apply bind_ok in H as (st2 & H2 & H). apply bind_ok in H as (s & H3 & H). inv_ok.
        eapply Cov_groups; [| exact HC1]. now rewrite (trackv_groups _ _ _ _ H3), (pause_groups _ _ _ _ H2).
      * apply bind_ok in H as (st2 & H2 & H). apply bind_ok in H as ([s evs2] & H3 & H). inv_ok.
        pose proof (park_same _ _ _ _ H2) as S2.
        pose proof (park_cinv _ _ _ _ HI1 Hrq' H2) as HI2.
        assert (Hmono : forall l, Forall (RqOk (r_datalog st1)) l -> Forall (RqOk (r_datalog st2)) l).
        { intros l. apply rqsok_mono; [exact (proj1 HI1) | now apply dl_le_same_logs]. }
        assert (HN2 : NoEvict st2 name0).
        { eapply (noevict_le (r_datalog st2) (r_datalog st2)); [| apply dl_le_refl |].
          - exact (proj1 HI2).
          - intros d' c Hd'. unfold glog in Hd'. destruct S2 as (_ & Hfi & _ & Hsd).
            destruct (split_once_slash name0) as [[nm p] |] eqn:Esp; [| discriminate]. rewrite Hfi in Hd'.
            destruct (al_get str_eqb p (dl_findex (r_datalog st1))) as [i |] eqn:Efi; [| discriminate].
            specialize (Hsd i). rewrite Hd' in Hsd. unfold same_data in Hsd.
            destruct (slab_get (dl_native (r_datalog st1)) i) as [d0 |] eqn:E0; [| tauto].
            destruct Hsd as [_ ->]. apply (HN1 d0 c). unfold glog. now rewrite Esp, Efi. }
        assert (HC2 : Cov st2 name0 s0 (gf ++ map forget ev)) by (eapply Cov_groups; [eapply park_groups; eauto | exact HC1]).
        pose proof (IH _ _ _ _ _ _ HI2 (bounded_same _ _ S2 HB1) HN2 (Hmono _ Hrest) (Hmono _ Hs) HC2 H3) as HC3.
        now rewrite map_app, app_assoc.
      * apply bind_ok in H as ([s evs2] & H3 & H). inv_ok.
        pose proof (IH _ _ _ _ _ _ HI1 HB1 HN1 (proj2 (Forall_app _ _ _) (conj Hrest (Forall_cons _ Hrq' (Forall_nil _)))) Hs HC1 H3) as HC3.
        now rewrite map_app, app_assoc.
      * apply bind_ok in H as ([s evs2] & H3 & H). inv_ok.
        pose proof (IH _ _ _ _ _ _ HI1 HB1 HN1 Hrest (proj2 (Forall_app _ _ _) (conj Hs (Forall_cons _ Hrq' (Forall_nil _)))) HC1 H3) as HC3.
        now rewrite map_app, app_assoc.
Qed.

Lemma consume_cov st st' b evs name0 s0 gf :
  CInv st -> Bounded st -> NoEvict st name0 -> Cov st name0 s0 gf ->
  consume_g st = Ok (st', b, evs) -> Cov st' name0 s0 (gf ++ map forget evs).
Proof.
  unfold consume_g. intros HI HB HN HC H.
  destruct (r_ready st) as [| id rq]; [inv_ok; now apply Cov_nil |].
  cbn [r_trackers set_r_ready] in H.
  destruct (slab_get (r_trackers st) id) as [t |] eqn:Et; [| inv_ok; apply Cov_nil; exact HC].
  match type of H with context [slab_get (r_obufs ?s) id] => set (st2 := s) in * end.
  assert (HI2 : CInv st2).
  { unfold st2. apply (cinv_view (put_tracker (set_r_ready st rq) id (set_tr_reqs t []))); [reflexivity |].
    apply (cinv_put_tracker (set_r_ready st rq)).
    - eapply cinv_view; [| exact HI]. reflexivity.
    - constructor. }
  assert (D2 : r_datalog st2 = r_datalog st) by reflexivity.
  assert (G2 : r_groups st2 = r_groups st) by reflexivity.
  destruct (slab_get (r_obufs st2) id) as [o |]; [| inv_ok; apply Cov_nil; exact HC].
  apply bind_ok in H as (st3 & H3 & H). apply bind_ok in H as (u & _ & H). apply bind_ok in H as ([st4 evs4] & H4 & H). inv_ok.
  pose proof (ack_device_data_cview _ _ _ _ H3) as V3. pose proof (cview_dl _ _ V3) as D3. pose proof (cview_groups _ _ V3) as G3.
  assert (HI3 : CInv st3) by (eapply cinv_view; eassumption).
  eapply consume_loop_cov; [exact HI3 | | | | constructor | | exact H4].
  - eapply bounded_eq; [| exact HB]. congruence.
  - eapply noevict_eq; [| exact HN]. congruence.
  - rewrite D3, D2. eapply cinv_trk; eassumption.
  - eapply Cov_groups; [| exact HC]. congruence.
Qed.

(* ------------------------------------------------------------------ steady steps *)
Definition steady_pk (pk : packet) : bool :=
  match pk with PSubscribe _ _ _ | PUnsubscribe _ _ => false | _ => true end.

(** the batch DeviceData would process holds no SUBSCRIBE / UNSUBSCRIBE *)
Definition data_steady (st : rstate) (id : N) : bool :=
  match slab_get (r_ibufs st) id with
  | Some inc => match nthN (r_links st) (i_link inc) with
                | Some b => forallb steady_pk (lk_in b)
                | None => true
                end
  | None => true
  end.

Definition steady_step (st : rstate) (o : rop) : bool :=
  match o with
  | OpConnect _ | OpDisconnect _ => false
  | OpData id => data_steady st id && match data_disc_state st id with None => true | Some _ => false end
  | _ => true
  end.

Fixpoint steady_b (st : rstate) (ops : list (list oracle * rop)) : bool :=
  match ops with
  | [] => true
  | (orc, o) :: r =>
      steady_step (set_r_oracle st orc) o &&
      match step_with st orc o with Ok (st1, _) => steady_b st1 r | _ => true end
  end.

Lemma handle_packet_steady_groups st id client pk fl st' fl' brk :
  steady_pk pk = true -> handle_packet st id client pk fl = Ok (st', fl', brk) -> r_groups st' = r_groups st.
Proof.
  intros Hs H. destruct pk; cbn [steady_pk] in Hs; try discriminate; cbn [handle_packet] in H.
  - destruct (p_qos p =? 1).
    + apply bind_ok in H as (st1 & H1 & H). apply bind_ok in H as ([st2 res] & H2 & H).
      apply commit_ack_groups in H1. apply append_to_commitlog_groups in H2. destruct res; inv_ok; congruence.
    + destruct (p_qos p =? 2).
      * apply bind_ok in H as (l & _ & H). inv_ok. reflexivity.
      * apply bind_ok in H as ([st2 res] & H2 & H). apply append_to_commitlog_groups in H2. destruct res; inv_ok; congruence.
  - apply bind_ok in H as (o & Ho & H). destruct (register_ack o pkid) as [o' ok]. destruct ok.
    + apply bind_ok in H as (st2 & H2 & H). inv_ok. now apply reschedule_groups in H2.
    + inv_ok. reflexivity.
  - apply bind_ok in H as (o & Ho & H). destruct (register_ack o pkid) as [o' ok]. destruct ok.
    + apply bind_ok in H as (l & _ & H). apply bind_ok in H as (st2 & H2 & H). apply bind_ok in H as (st3 & H3 & H). inv_ok.
      apply commit_ack_groups in H2. apply reschedule_groups in H3. now rewrite H3, H2.
    + inv_ok. reflexivity.
  - apply bind_ok in H as (l & _ & H). destruct (a_recorded l) as [| [p0 pr0] rec].
    + inv_ok. reflexivity.
    + apply bind_ok in H as ([st2 res] & H2 & H). apply append_to_commitlog_groups in H2. destruct res.
      * apply bind_ok in H as (st3 & H3 & H). inv_ok. apply reschedule_groups in H3. now rewrite H3, H2.
      * inv_ok. exact H2.
  - apply bind_ok in H as (o & Ho & H). destruct (register_pubcomp o pkid) as [o' ok]. destruct ok; inv_ok; reflexivity.
  - apply bind_ok in H as (st1 & H1 & H). inv_ok. now apply commit_ack_groups in H1.
  - inv_ok. reflexivity.
  - inv_ok. reflexivity.
Qed.

Lemma handle_packets_steady_groups id client : forall pks st fl st' fl',
  forallb steady_pk pks = true -> handle_packets st id client pks fl = Ok (st', fl') -> r_groups st' = r_groups st.
Proof.
  induction pks as [| pk r IH]; intros st fl st' fl' Hs H; cbn [handle_packets] in H; [now inv_ok |].
  cbn [forallb] in Hs. apply andb_prop in Hs as [Hs1 Hs2].
  apply bind_ok in H as ([[st1 fl1] brk] & H1 & H). pose proof (handle_packet_steady_groups _ _ _ _ _ _ _ _ Hs1 H1) as G1.
  destruct brk; [inv_ok; exact G1 |]. rewrite (IH _ _ _ _ Hs2 H). exact G1.
Qed.

Lemma handle_device_payload_steady_groups st id st' :
  data_steady st id = true -> data_disc_state st id = None ->
  handle_device_payload st id = Ok st' -> r_groups st' = r_groups st.
Proof.
  unfold handle_device_payload, data_disc_state, data_steady. intros Hs Hd H.
  destruct (slab_get (r_ibufs st) id) as [inc |]; [| now inv_ok].
  apply bind_ok in H as (b & Hb & H). rewrite Hb in Hd. unfold link_get in Hb.
  destruct (nthN (r_links st) (i_link inc)) as [b0 |]; [| discriminate]. inversion Hb; subst b0.
  apply bind_ok in H as ([st1 fl] & H1 & H). rewrite H1 in Hd. cbv beta iota in Hd.
  pose proof (handle_packets_steady_groups _ _ _ _ _ _ _ Hs H1) as G1.
  apply bind_ok in H as (st2 & H2 & H). apply bind_ok in H as (st3 & H3 & H).
  assert (G2 : r_groups st2 = r_groups st1) by (destruct (f_force_ack fl); [eapply reschedule_groups; eauto | now inv_ok]).
  assert (G3 : r_groups st3 = r_groups st2) by (destruct (f_new_data fl); [eapply drain_notifications_groups; eauto | now inv_ok]).
  assert (Hfd : f_disconnect fl = false).
  { destruct (f_disconnect fl) eqn:Ed; [| reflexivity]. exfalso.
    destruct (f_force_ack fl); destruct (f_new_data fl); try rewrite H2 in Hd; try rewrite H3 in Hd; inv_ok;
      try rewrite H2 in Hd; try rewrite H3 in Hd; discriminate. }
  rewrite Hfd in H. inv_ok. rewrite G3, G2. exact G1.
Qed.

Theorem step_cov st o st' out gh name0 s0 gf :
  CInv st -> Bounded st -> NoEvict st name0 -> Cov st name0 s0 gf ->
  step_g st o = Ok (st', out, gh) -> steady_step st o = true ->
  Cov st' name0 s0 (gf ++ map forget (gh_fwd gh)).
Proof.
  intros HI HB HN HC H Hs. destruct o; unfold step_g in H; cbn [steady_step] in Hs; try discriminate.
  - apply bind_ok in H as ([st2 out2] & H2 & H). inv_ok. cbn [gh_fwd gh_none]. cbn [step] in H2. apply Cov_nil.
    destruct (nthN (r_links st) link); inv_ok; exact HC.
  - apply bind_ok in H as ([st2 out2] & H2 & H). inv_ok. cbn [gh_fwd]. cbn [step] in H2. apply Cov_nil.
    apply bind_ok in H2 as (st3 & H3 & H2). inv_ok. apply andb_prop in Hs as [Hs1 Hs2].
    eapply Cov_groups; [| exact HC]. eapply handle_device_payload_steady_groups; [exact Hs1 | | exact H3].
    destruct (data_disc_state st id); [discriminate | reflexivity].
  - apply bind_ok in H as ([[st1 b] evs] & H1 & H). inv_ok. cbn [gh_fwd]. eapply consume_cov; eauto.
  - apply bind_ok in H as ([st2 out2] & H2 & H). inv_ok. cbn [gh_fwd gh_none]. cbn [step] in H2. apply Cov_nil.
    destruct (nthN (r_links st) link); inv_ok; exact HC.
  - apply bind_ok in H as ([st2 out2] & H2 & H). inv_ok. cbn [gh_fwd gh_none]. cbn [step] in H2. apply Cov_nil.
    destruct (slab_get (r_trackers st) id); [| inv_ok; exact HC].
    apply bind_ok in H2 as (st1 & H1 & H2). inv_ok. eapply Cov_groups; [eapply reschedule_groups; eauto | exact HC].
  - apply bind_ok in H as ([st2 out2] & H2 & H). inv_ok. cbn [gh_fwd gh_none]. cbn [step] in H2. apply Cov_nil.
    apply bind_ok in H2 as (st1 & H1 & H2). inv_ok.
    eapply Cov_groups; [exact (cview_groups _ _ (retrieve_shadow_cview _ _ _ _ H1)) | exact HC].
  - apply bind_ok in H as ([st2 out2] & H2 & H). inv_ok. cbn [gh_fwd gh_none]. cbn [step] in H2. apply Cov_nil.
    apply bind_ok in H2 as (st1 & H1 & H2). inv_ok. eapply Cov_groups; [eapply handle_last_will_groups; eauto | exact HC].
  - apply bind_ok in H as ([st2 out2] & H2 & H). inv_ok. cbn [gh_fwd gh_none]. cbn [step] in H2. inv_ok. apply Cov_nil. exact HC.
Qed.

(* ------------------------------------------------------------------ a steady run *)
Theorem run_cov name0 s0 : forall ops st st' gf,
  CInv st -> Cov st name0 s0 gf -> run st ops = Ok st' -> Bounded st' -> NoEvict st' name0 -> steady_b st ops = true ->
  Cov st' name0 s0 (gf ++ gfwd st ops).
Proof.
  induction ops as [| [orc o] r IH]; intros st st' gf HI HC H HB HN Hs.
  - cbn [run] in H. inv_ok. unfold gfwd, gfwd_full. cbn [ghosts map concat]. now rewrite app_nil_r.
  - destruct (run_cinv _ _ _ HI H HB) as (_ & L0 & HB0).
    pose proof (noevict_le _ _ _ (proj1 HI) L0 HN) as HN0.
    cbn [run] in H. cbn [steady_b] in Hs. destruct (step_with st orc o) as [[st1 out] | |] eqn:E; try discriminate.
    apply andb_prop in Hs as [Hs1 Hs2].
    destruct (step_with_cinv _ _ _ _ _ HI HB0 E) as [HI1 _].
    pose proof (step_with_ghost _ _ _ _ _ E) as Eg.
    set (gh := step_ghost (set_r_oracle st orc) o) in *.
    assert (HC1 : Cov st1 name0 s0 (gf ++ map forget (gh_fwd gh))).
    { eapply (step_cov (set_r_oracle st orc) o st1 out gh); [| exact HB0 | exact HN0 | exact HC | exact Eg | exact Hs1].
      eapply cinv_view; [| exact HI]. reflexivity. }
    pose proof (IH _ _ _ HI1 HC1 H HB HN Hs2) as HC'.
    assert (Eq : gf ++ gfwd st ((orc, o) :: r) = (gf ++ map forget (gh_fwd gh)) ++ gfwd st1 r).
    { unfold gfwd. rewrite gfwd_full_cons, E, map_app, app_assoc. reflexivity. }
    now rewrite Eq.
Qed.

(** coverage of a steady phase: what lies between a group's cursor before and after the phase
    was forwarded through the group during the phase *)
Theorem steady_phase_covered st1 ops2 st2 name :
  CInv st1 -> run st1 ops2 = Ok st2 -> Bounded st2 -> NoEvict st2 name -> steady_b st1 ops2 = true ->
  forall g1 g2,
    al_get str_eqb name (r_groups st1) = Some g1 -> al_get str_eqb name (r_groups st2) = Some g2 ->
    forall off, snd (g_cursor g1) <= off < snd (g_cursor g2) -> In off (offs_of name (gfwd st1 ops2)).
Proof.
  intros HI Hr HB HN Hs g1 g2 Hg1 Hg2 off Hoff.
  assert (HC : Cov st1 name (snd (g_cursor g1)) []).
  { intros g Hg o Ho. rewrite Hg1 in Hg. inversion Hg; subst g. lia. }
  pose proof (run_cov _ _ _ _ _ _ HI HC Hr HB HN Hs) as HC2. cbn [app] in HC2.
  eapply HC2; [exact Hg2 | exact Hoff].
Qed.
