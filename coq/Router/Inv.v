(** RInv: the structural invariant of the router state (C03 / C19).

    In words ([cfg] = the configuration the router was created with, never changed):
    - the configuration is valid for [CommitLog::new] (segment size >= 1024, count >= 1);
    - the five per-connection slabs connections / ibufs / obufs / ackslog / trackers have the
      same occupancy pattern and the same free list; the free list holds distinct vacant keys;
      the number of live connections is <= max_connections;
    - every live key's client id is mapped to that key by connection_map; the client id stored
      in the connection, its incoming buffer, outgoing buffer and tracker agree;
    - every link number stored in an incoming/outgoing buffer indexes the link table;
      every inflight buffer holds at most MAX_INFLIGHT entries;
    - every data request anywhere (trackers, waiters, notifications, saved sessions) has
      qos <= 2 and a filter index that is a key of the native slab of filter logs; that slab
      never frees a key; every filter log satisfies the commit-log invariant [WF] for some
      history; every connection id in a waiter list or in notifications is a live key;
      every index in filter_indexes / publish_filters is a key of the native slab;
    - a tracker saved in the graveyard is [Paused Busy] and is stored under its own client id;
    - every shared-subscription group has at least one client;
    - [notifications] is empty between events (it is drained within the event that fills it);
    - every packet queued on a link is well typed (SUBSCRIBE qos values are <= 2: in Rust the
      field is the enum [QoS]). *)
(** The dev profile needs one more clause (it makes debug_assert!(check_tracker_duplicates) hold):
    for every live connection the data requests held in its tracker, in all waiter lists and in
    notifications carry pairwise different subscription filters, all of them members of the
    connection's subscription set, and likewise for the sessions saved in the graveyard.  It is
    kept separate: [DevI] in NoPanicDevInv.v / NoPanicDev3.v, [RInvD st := RInv st /\ DevI st] in
    NoPanicDev.v, where [c03_no_panic_dev] is proved. *)
From Rumqtt Require Export Router.Model Router.InvLemmasBase Log.Spec.
From Coq Require Import Arith ZifyBool ZifyN ZifyNat.

Definition req_ok (n : N) (rq : drequest) : Prop := dr_qos rq <= 2 /\ dr_idx rq < n.
Definition wt_ok (sh : list bool) (n : N) (w : N * drequest) : Prop :=
  occ sh (fst w) /\ req_ok n (snd w).
Definition data_ok (sh : list bool) (n : N) (d : data) : Prop :=
  (exists all, WF pubdata_size (d_log d) all) /\ Forall (wt_ok sh n) (d_waiters d).
Definition odata_ok (sh : list bool) (n : N) (o : option data) : Prop :=
  match o with Some d => data_ok sh n d | None => False end.
Definition dlen (dl : datalog) : N := lenN (sl_items (dl_native dl)).

Record dl_ok (sh : list bool) (dl : datalog) : Prop := {
  dk_free : sl_free (dl_native dl) = [];
  dk_items : Forall (odata_ok sh (dlen dl)) (sl_items (dl_native dl));
  dk_findex : Forall (fun fi : str * N => snd fi < dlen dl) (dl_findex dl);
  dk_pf : Forall (fun tv : str * list N => Forall (fun i => i < dlen dl) (snd tv)) (dl_pfilters dl)
}.

Definition sess_ok (n : N) (cs : str * option session) : Prop :=
  match snd cs with
  | Some ss => Forall (req_ok n) (tr_reqs (ss_tracker ss)) /\ tr_status (ss_tracker ss) = Paused Busy /\
               tr_id (ss_tracker ss) = fst cs
  | None => True
  end.

Definition packet_wf (pk : packet) : Prop :=
  match pk with
  | PSubscribe _ fs _ => Forall (fun fq : str * N => snd fq <= 2) fs
  | _ => True
  end.
Definition op_wf (o : rop) : Prop :=
  match o with OpPush _ pk => packet_wf pk | _ => True end.

Definition cfg_ok (cfg : config) : Prop := 1024 <= cf_seg_size cfg /\ 1 <= cf_seg_count cfg.

Definition lives (st : rstate) : list bool := shape (r_conns st).
Definition nlen (st : rstate) : N := dlen (r_datalog st).

Record RInvC (cfg : config) (st : rstate) : Prop := {
  ri_cfg : r_cfg st = cfg;
  ri_cfg_ok : cfg_ok cfg;
  ri_wf : slab_wf (r_conns st);
  ri_al_i : aligned (r_conns st) (r_ibufs st);
  ri_al_o : aligned (r_conns st) (r_obufs st);
  ri_al_a : aligned (r_conns st) (r_acks st);
  ri_al_t : aligned (r_conns st) (r_trackers st);
  ri_max : slab_len (r_conns st) <= cf_max_connections cfg;
  ri_cmap : forall k c, slab_get (r_conns st) k = Some c ->
            al_get str_eqb (c_client c) (r_cmap st) = Some k;
  ri_cl_i : forall k c i, slab_get (r_conns st) k = Some c -> slab_get (r_ibufs st) k = Some i ->
            i_client i = c_client c;
  ri_cl_o : forall k c o, slab_get (r_conns st) k = Some c -> slab_get (r_obufs st) k = Some o ->
            o_client o = c_client c;
  ri_cl_t : forall k c t, slab_get (r_conns st) k = Some c -> slab_get (r_trackers st) k = Some t ->
            tr_id t = c_client c;
  ri_ilink : forall k i, slab_get (r_ibufs st) k = Some i -> i_link i < lenN (r_links st);
  ri_obuf : forall k o, slab_get (r_obufs st) k = Some o ->
            o_link o < lenN (r_links st) /\ lenN (o_inflight o) <= MAX_INFLIGHT;
  ri_trk : forall k t, slab_get (r_trackers st) k = Some t -> Forall (req_ok (nlen st)) (tr_reqs t);
  ri_dl : dl_ok (lives st) (r_datalog st);
  ri_notif : Forall (wt_ok (lives st) (nlen st)) (r_notif st);
  ri_grave : Forall (sess_ok (nlen st)) (r_graveyard st);
  ri_groups : Forall (fun ng : str * group => g_clients (snd ng) <> []) (r_groups st);
  ri_pkts : Forall (fun b => Forall packet_wf (lk_in b)) (r_links st)
}.

(** the invariant between events: the core part, and [notifications] has been drained *)
Definition RInv (st : rstate) : Prop := RInvC (r_cfg st) st /\ r_notif st = [].

(* ------------------------------------------------------------------ monotonicity *)
Lemma req_ok_mono n n' rq : n <= n' -> req_ok n rq -> req_ok n' rq.
Proof. unfold req_ok. lia. Qed.

Lemma wt_ok_mono sh n n' w : n <= n' -> wt_ok sh n w -> wt_ok sh n' w.
Proof. intros H [H1 H2]. split; [exact H1|]. eapply req_ok_mono; eauto. Qed.

Lemma Forall_req_ok_mono n n' l : n <= n' -> Forall (req_ok n) l -> Forall (req_ok n') l.
Proof. intros H. apply Forall_impl. intros a. now apply req_ok_mono. Qed.

Lemma Forall_wt_ok_mono sh n n' l : n <= n' -> Forall (wt_ok sh n) l -> Forall (wt_ok sh n') l.
Proof. intros H. apply Forall_impl. intros a. now apply wt_ok_mono. Qed.

Lemma data_ok_mono sh n n' d : n <= n' -> data_ok sh n d -> data_ok sh n' d.
Proof. intros H [H1 H2]. split; [exact H1|]. eapply Forall_wt_ok_mono; eauto. Qed.

Lemma sess_ok_mono n n' cs : n <= n' -> sess_ok n cs -> sess_ok n' cs.
Proof.
  unfold sess_ok. intros H. destruct (snd cs); [|auto]. intros [H1 H2]. split; [|exact H2].
  eapply Forall_req_ok_mono; eauto.
Qed.

Lemma wt_ok_sh_mono sh sh' n w : (forall k, occ sh k -> occ sh' k) -> wt_ok sh n w -> wt_ok sh' n w.
Proof. intros H [H1 H2]. split; auto. Qed.

Lemma dl_ok_sh_mono sh sh' dl : (forall k, occ sh k -> occ sh' k) -> dl_ok sh dl -> dl_ok sh' dl.
Proof.
  intros H []. constructor; auto. revert dk_items0. apply Forall_impl. intros [d|]; cbn [odata_ok]; [|auto].
  intros [H1 H2]. split; [exact H1|]. revert H2. apply Forall_impl. intros w. now apply wt_ok_sh_mono.
Qed.
